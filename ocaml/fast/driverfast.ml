(* Same pipe as ../driver.ml for the zarith-backed extraction: decimal <-> Big_int_Z. *)
open Modelfast

let () =
  let buf = Buffer.create 65536 in
  (try
     while true do
       let line = input_line stdin in
       if String.length line > 0 then begin
         match String.split_on_char ' ' line with
         | prop :: id :: tag :: rest ->
             let rest = List.filter (fun s -> s <> "") rest in
             let zs = List.rev (List.rev_map Big_int_Z.big_int_of_string rest) in
             let out = verif_dispatch (Big_int_Z.big_int_of_string prop) zs in
             Buffer.clear buf;
             Buffer.add_string buf id;
             Buffer.add_char buf ' ';
             Buffer.add_string buf tag;
             List.iter (fun v -> Buffer.add_char buf ' '; Buffer.add_string buf (Big_int_Z.string_of_big_int v)) out;
             print_endline (Buffer.contents buf)
         | _ -> print_endline "? ? 4"
       end
     done
   with End_of_file -> ());
  flush stdout
