(* Dumb pipe between the Go harness and the extracted model.
   stdin : one case per line   "<prop> <case-id> <tag> z1 z2 z3 ..."   (decimal integers)
   stdout: one line per case   "<case-id> <tag> v1 v2 ..."             (verdict, see Base/Wire.v)
   The only logic here is decimal <-> the extracted binary integers. *)

open Model

(* ---- decimal string -> extracted Z -------------------------------------------- *)

let rec pos_of_int (n : int) : positive =
  if n = 1 then XH
  else if n land 1 = 0 then XO (pos_of_int (n lsr 1))
  else XI (pos_of_int (n lsr 1))

(* big decimal: digits array, most significant first; halve in place, return remainder *)
let halve (d : int array) : int =
  let carry = ref 0 in
  for i = 0 to Array.length d - 1 do
    let cur = !carry * 10 + d.(i) in
    d.(i) <- cur / 2;
    carry := cur mod 2
  done;
  !carry

let is_zero d = Array.for_all (fun x -> x = 0) d

let rec pos_of_digits (d : int array) : positive =
  (* precondition: d > 0 *)
  let r = halve d in
  if is_zero d then XH (* value was 1 *)
  else if r = 0 then XO (pos_of_digits d)
  else XI (pos_of_digits d)

let z_of_string (s : string) : z =
  let neg = String.length s > 0 && s.[0] = '-' in
  let body = if neg then String.sub s 1 (String.length s - 1) else s in
  if String.length body <= 17 then begin
    let n = int_of_string body in
    if n = 0 then Z0 else if neg then Zneg (pos_of_int n) else Zpos (pos_of_int n)
  end else begin
    let d = Array.init (String.length body) (fun i -> Char.code body.[i] - 48) in
    if is_zero d then Z0
    else let p = pos_of_digits d in if neg then Zneg p else Zpos p
  end

(* ---- extracted Z -> decimal string -------------------------------------------- *)

let rec pos_bits (p : positive) (acc : int list) : int list =
  (* least significant first into acc reversed => most significant first *)
  match p with
  | XH -> 1 :: acc
  | XO q -> pos_bits q (0 :: acc)
  | XI q -> pos_bits q (1 :: acc)

let string_of_pos (p : positive) : string =
  let bits = pos_bits p [] in (* most significant first *)
  if List.length bits <= 60 then
    string_of_int (List.fold_left (fun a b -> a * 2 + b) 0 bits)
  else begin
    (* decimal digits, least significant first *)
    let digits = ref [| 0 |] in
    let double_add b =
      let d = !digits in
      let carry = ref b in
      for i = 0 to Array.length d - 1 do
        let cur = d.(i) * 2 + !carry in
        d.(i) <- cur mod 10;
        carry := cur / 10
      done;
      if !carry > 0 then digits := Array.append d [| !carry |]
    in
    List.iter double_add bits;
    let d = !digits in
    String.init (Array.length d) (fun i -> Char.chr (48 + d.(Array.length d - 1 - i)))
  end

let string_of_z (x : z) : string =
  match x with
  | Z0 -> "0"
  | Zpos p -> string_of_pos p
  | Zneg p -> "-" ^ string_of_pos p

(* ---- main loop ---------------------------------------------------------------- *)

let rec to_coq_list = function [] -> [] | x :: tl -> x :: to_coq_list tl

let () =
  let buf = Buffer.create 65536 in
  (try
     while true do
       let line = input_line stdin in
       if String.length line > 0 then begin
         match String.split_on_char ' ' line with
         | prop :: id :: tag :: rest ->
             let rest = List.filter (fun s -> s <> "") rest in
             let zs = List.rev (List.rev_map z_of_string rest) in
             let out = verif_dispatch (z_of_string prop) zs in
             Buffer.clear buf;
             Buffer.add_string buf id;
             Buffer.add_char buf ' ';
             Buffer.add_string buf tag;
             List.iter (fun v -> Buffer.add_char buf ' '; Buffer.add_string buf (string_of_z v)) out;
             print_endline (Buffer.contents buf)
         | _ -> print_endline "? ? 4"
       end
     done
   with End_of_file -> ());
  flush stdout
