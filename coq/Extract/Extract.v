From Coq Require Import ExtrOcamlBasic.
From V Require Import Check.Dispatch.
Extraction Language OCaml.
Extraction "model.ml" Dispatch.verif_dispatch.
