(* The same entry point extracted with Z / positive / N mapped to zarith integers
   (standard library ExtrOcamlZBigInt).  Used where the plain extraction (ExtrOcamlBasic only,
   Extract.v) is too slow; bin/check re-judges a sample of every run's cases with the plain
   extraction and demands identical verdicts. *)
From Coq Require Import ExtrOcamlBasic ExtrOcamlZBigInt.
From V Require Import Check.Dispatch.
Extraction Language OCaml.
Extraction "modelfast.ml" Dispatch.verif_dispatch.
