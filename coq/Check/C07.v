(* C07 / C08 / C09: result codecs. *)
From Coq Require Import ZArith List Bool.
From V Require Import Base.Wire Base.Duration Base.Str Base.Base64 Model.Flags Model.Csv Model.ResultCodec Model.Json Check.C19.
Import ListNotations.
Open Scope Z_scope.
Open Scope rd_scope.

Definition getcres : rd cres :=
  a <- getstr ;; s <- getz ;; co <- getz ;; ts <- getz ;; zo <- getz ;; la <- getz ;; bo <- getz ;; bi <- getz ;;
  er <- getstr ;; bd <- getopt getstr ;; me <- getstr ;; ur <- getstr ;; he <- getopt gethmap ;;
  ret {| c_attack := a; c_seq := s; c_code := co; c_ts := ts; c_zone := zo; c_lat := la; c_bout := bo; c_bin := bi;
         c_error := er; c_body := bd; c_method := me; c_url := ur; c_headers := he |}.

Fixpoint all_equal (a b : list cres) : bool :=
  match a, b with
  | [], [] => true
  | x :: a', y :: b' => cres_equal x y && all_equal a' b'
  | _, _ => false
  end.

Fixpoint first_unequal (i : Z) (a b : list cres) : Z :=
  match a, b with
  | x :: a', y :: b' => if cres_equal x y then first_unequal (i + 1) a' b' else i
  | [], [] => -1
  | _, _ => i
  end.

Definition text_has_crlf (r : cres) : bool :=
  has_crlf (c_attack r) || has_crlf (c_error r) || has_crlf (c_method r) || has_crlf (c_url r).

(* the documented Result fields, in the order of the struct *)
Definition known_fields : list (list nat) :=
  [ [65;116;116;97;99;107]; [83;101;113]; [67;111;100;101]; [84;105;109;101;115;116;97;109;112];
    [76;97;116;101;110;99;121]; [66;121;116;101;115;79;117;116]; [66;121;116;101;115;73;110];
    [69;114;114;111;114]; [66;111;100;121]; [77;101;116;104;111;100]; [85;82;76]; [72;101;97;100;101;114;115] ]%nat.

Definition check_codec : rd verdict :=
  rs <- getlist getcres ;;
  csv_bytes <- getbytes ;; csv_ok <- getbool ;; csv_back <- getlist getcres ;;
  json_bytes <- getbytes ;; json_ok <- getbool ;; json_back <- getlist getcres ;;
  gob_ok <- getbool ;; gob_back <- getlist getcres ;;
  fields <- getlist getstr ;;
  let crlf := existsb text_has_crlf rs in
  let mcsv := csv_decode_all csv_bytes in
  let mjson := json_decode_all json_bytes in
  let vprop := combine_verdicts
    [ (* CSV: with "\r\n" inside a text the round trip is known to fail (tag csv.crlf); clause 7 reports it *)
      if crlf then prop_ok 7 (csv_ok && all_equal rs csv_back) [first_unequal 0 rs csv_back]
      else prop_ok 1 (csv_ok && all_equal rs csv_back) [first_unequal 0 rs csv_back];
      prop_ok 2 (json_ok && all_equal rs json_back) [first_unequal 0 rs json_back];
      prop_ok 3 (gob_ok && all_equal rs gob_back) [first_unequal 0 rs gob_back];
      if crlf then (* the only deviation allowed in that class is the reader's CR LF -> LF normalisation *)
        prop_ok 8 (match mcsv with Some l => csv_ok && all_equal l csv_back | None => false end) []
      else
      prop_ok 4 (match mcsv with Some l => all_equal rs l | None => false end)
              [match mcsv with Some l => first_unequal 0 rs l | None => -2 end];
      prop_ok 5 (match mjson with Some l => all_equal rs l | None => false end)
              [match mjson with Some l => first_unequal 0 rs l | None => -2 end];
      prop_ok 6 (Nat.eqb (length fields) (length known_fields) &&
                 forallb (fun f => existsb (fun k => zeqb f (map Z.of_nat k)) known_fields) fields)
              [Z.of_nat (length fields)] ] in
  (* byte-level agreement of the model encoders: informative only (quoting style is free) *)
  let mcsv_bytes := flat_map csv_encode rs in
  let single_hdr := forallb (fun r => match c_headers r with Some h => Nat.leb (length h) 1 | None => true end) rs in
  let mjson_bytes := flat_map json_encode rs in
  let vdiff :=
    if zeqb mcsv_bytes csv_bytes && (negb single_hdr || zeqb mjson_bytes json_bytes) then VOk
    else match vprop with VOk => VDontCare | _ => VDiff 20 [] end in
  ret (combine_verdicts [vprop; vdiff]).

(* C08: auto-detection over a chunked reader, and transcoding chains *)
Definition check_detect : rd verdict :=
  fmt <- getz ;;               (* 0 gob 1 csv 2 json 3 none of the formats *)
  rs <- getlist getcres ;; found <- getbool ;; ok <- getbool ;; back <- getlist getcres ;;
  ret (if fmt =? 3 then prop_ok 3 (negb found) []
       else combine_verdicts
         [ prop_ok 1 found [fmt];
           prop_ok 2 (ok && all_equal rs back) [fmt; first_unequal 0 rs back; Z.of_nat (length back); Z.of_nat (length rs)] ]).

Definition check_chain : rd verdict :=
  chain <- getlist getz ;; rs <- getlist getcres ;; ok <- getbool ;; back <- getlist getcres ;;
  ret (prop_ok 4 (ok && all_equal rs back) (chain ++ [first_unequal 0 rs back])).

(* C09: cuts *)
Definition count_le (offs : list Z) (k : Z) : Z := Z.of_nat (length (filter (fun o => o <=? k) offs)).

Definition check_cut : rd verdict :=
  fmt <- getz ;; bytes <- getbytes ;; offs <- getlist getz ;;
  cuts <- getlist (getpair getz (getpair getz getbool)) ;;   (* offset, (records decoded, they equal the written prefix) *)
  writes_whole <- getbool ;;
  let vprop := combine_verdicts
    [ prop_ok 1 (forallb (fun '(k, (j, eq)) => eq && (j =? count_le offs k)) cuts)
              (match filter (fun '(k, (j, eq)) => negb (eq && (j =? count_le offs k))) cuts with
               | (k, (j, _)) :: _ => [fmt; k; j; count_le offs k] | [] => [] end);
      prop_ok 2 writes_whole [fmt] ] in
  (* the model's framing agrees with the real stream: every record boundary is a frame / line boundary *)
  let vdiff :=
    if fmt =? 0 then
      let '(fs, partial) := read_frames (S (length bytes)) bytes in
      let ends := (fix go (l : list (list Z)) (pos : Z) : list Z :=
                     match l with [] => [] | f :: tl => let e := pos + Z.of_nat (length (frame f)) in e :: go tl e end) fs 0 in
      if negb partial && forallb (fun o => existsb (Z.eqb o) ends) offs then VOk else VDiff 10 [Z.of_nat (length fs)]
    else if fmt =? 2 then
      let '(ls, partial) := read_lines bytes [] in
      if negb partial && (Z.of_nat (length ls) =? Z.of_nat (length offs)) then VOk else VDiff 11 [Z.of_nat (length ls)]
    else VOk in
  ret (combine_verdicts [vprop; vdiff]).

Definition check_c07 : rd verdict := kind <- getz ;; if kind =? 1 then check_codec else fail.
(* bytes in no encoding on the standard input of a command: refused, nothing written *)
Definition check_junk : rd verdict :=
  refused <- getbool ;; written <- getz ;; ret (prop_ok 5 (refused && (written =? 0)) [written]).
Definition check_c08 : rd verdict := kind <- getz ;; if kind =? 1 then check_detect else if kind =? 2 then check_chain else if kind =? 3 then check_junk else fail.
(* the attack command killed while writing: every result whose response was complete well before
   the kill is in the output, and the output is a clean prefix (sequence 0..n-1) *)
Definition check_attack_out : rd verdict :=
  completed <- getz ;; n <- getz ;; clean <- getbool ;;
  ret (combine_verdicts [ prop_ok 3 (completed <=? n) [completed; n]; prop_ok 1 clean [n] ]).

Definition check_c09 : rd verdict := kind <- getz ;; if kind =? 1 then check_cut else if kind =? 2 then check_attack_out else fail.
