(* C12: decoding of harness cases, comparison of projected observables, and the
   decision procedure of the property on the implementation's observation. *)
From Coq Require Import ZArith List Bool.
From V Require Import Base.Wire Base.Duration Model.Histogram.
Import ListNotations.
Open Scope Z_scope.
Open Scope rd_scope.

Definition cvec_b (bs lats : list Z) : list Z :=
  map (count_in_bucket bs lats) (seq 0 (length bs)).

Fixpoint pairs_eqb (a b : list (Z * Z)) : bool :=
  match a, b with
  | [], [] => true
  | (x1, y1) :: a', (x2, y2) :: b' => (x1 =? x2) && (y1 =? y2) && pairs_eqb a' b'
  | _, _ => false
  end.

(* The property on an observation: given buckets and latencies in the property's domain
   (increasing, non-empty, latencies not below the first bound), the observed counts are
   the partition counts, they sum to n, and both renderings list exactly (bucket, count)
   for every bucket - also for n = 0.  Outside the domain nothing is demanded. *)
Definition in_domain (bs lats : list Z) : bool :=
  strictly_increasing bs && negb (Nat.eqb (length bs) 0) &&
  forallb (fun l => hd 0 bs <=? l) lats.

Definition check_add_obs (bs lats : list Z)
  (panicked : bool) (icounts : list Z) (itotal : Z)
  (json_panic : bool) (json : list (Z * Z)) (text : list (Z * Z)) : verdict :=
  if negb (in_domain bs lats) then VOk else
  let want := cvec_b bs lats in
  let n := Z.of_nat (length lats) in
  combine_verdicts
    [ prop_ok 1 (negb panicked) [];
      prop_ok 2 (match lats with [] => true | _ => list_eqb icounts want end)
              (firstn 8 icounts ++ firstn 8 want);
      prop_ok 3 (itotal =? n) [itotal; n];
      prop_ok 4 (match lats with [] => true | _ => zsum icounts =? n end) [zsum icounts; n];
      prop_ok 5 (negb json_panic) [];
      prop_ok 6 (json_panic || pairs_eqb json (combine bs want)) [Z.of_nat (length json)];
      prop_ok 7 (pairs_eqb text (combine bs want)) [Z.of_nat (length text)] ].

Definition getpairs : rd (list (Z * Z)) := getlist (getpair getz getz).

Definition check_add : rd verdict :=
  bs <- getlist getz ;; lats <- getlist getz ;;
  panicked <- getbool ;; icounts <- getlist getz ;; itotal <- getz ;;
  json_panic <- getbool ;; json <- getpairs ;; text <- getpairs ;;
  via_ok <- getbool ;; via_counts <- getlist getz ;;
  let vvia := if negb (in_domain bs lats) then VOk
              else prop_ok 8 (via_ok && match lats with [] => true | _ => list_eqb via_counts (cvec_b bs lats) end)
                             (firstn 8 via_counts) in
  let model := hist_adds (hist_init bs) lats in
  let vdiff :=
    match model with
    | None => if panicked then VOk else VDiff 10 []
    | Some h =>
        if panicked then VDiff 11 [] else
        combine_verdicts
          [ check_eql 12 (counts h) icounts; check_eqz 13 (total h) itotal;
            match render_json h with
            | Some ps => if json_panic then VDiff 14 []
                         else if pairs_eqb ps json then VOk else VDiff 15 []
            | None => if json_panic then VOk else VDiff 16 []
            end;
            match render_text h with
            | Some ps => if pairs_eqb ps text then VOk else VDiff 17 [Z.of_nat (length text)]
            | None => VDiff 18 []
            end ]
    end in
  ret (combine_verdicts
         [check_add_obs bs lats panicked icounts itotal json_panic json text; vvia; vdiff]).

(* unmarshal: input bytes; implementation: ok flag and parsed bounds *)
Definition check_unmarshal : rd verdict :=
  value <- getbytes ;; iok <- getbool ;; ibs <- getlist getz ;;
  let vprop :=
    if iok then
      combine_verdicts
        [ prop_ok 20 (negb (Nat.eqb (length ibs) 0)) [];
          prop_ok 21 (hd 0 ibs <=? 0) [hd 0 ibs] ]
    else VOk in
  let vdiff :=
    match buckets_unmarshal value with
    | None => if iok then VDiff 30 [] else VOk
    | Some (bs, inexact) =>
        if negb iok then VDiff 31 []
        else if list_eqb bs ibs then VOk
        else if inexact then VDontCare else VDiff 32 (firstn 8 bs ++ firstn 8 ibs)
    end in
  ret (combine_verdicts [vprop; vdiff]).

(* "spec" cases: the bounds the harness meant when it wrote the text, so the clause
   "preserves the given bounds" is judged against the generator's intent *)
Definition check_spec : rd verdict :=
  given <- getlist getz ;; iok <- getbool ;; ibs <- getlist getz ;;
  let want := match given with
              | d :: _ => if 0 <? d then 0 :: given else given
              | [] => [] end in
  ret (combine_verdicts
         [ prop_ok 22 iok [];
           prop_ok 23 (negb iok || list_eqb ibs want) (firstn 8 ibs ++ firstn 8 want) ]).

Definition check : rd verdict :=
  kind <- getz ;;
  if kind =? 1 then check_add
  else if kind =? 2 then check_unmarshal
  else if kind =? 3 then check_spec
  else fail.
