(* C02 / C03 / C04: scripted attacks under virtual time.  One wire format, three clause sets. *)
From Coq Require Import ZArith List Bool.
From V Require Import Base.Wire Model.AttackLTS Model.Accept.
Import ListNotations.
Open Scope Z_scope.
Open Scope rd_scope.

Definition getaction : rd action :=
  k <- getz ;; a <- getz ;; b <- getz ;;
  ret (if k =? 1 then APace a (negb (b =? 0))
       else if k =? 2 then AAdvance a
       else if k =? 3 then AComplete a
       else if k =? 4 then AConsume
       else if k =? 5 then AStop
       else ANone).

Definition getsnap : rd snap :=
  nw <- getz ;; np <- getz ;; pend <- getbool ;; pe <- getz ;; ph <- getz ;;
  ents <- getlist (getpair getz getz) ;; ck <- getz ;; cs <- getz ;; stp <- getbool ;; tf <- getz ;;
  ret {| o_now := nw; o_npaces := np; o_pending := pend; o_pe := pe; o_ph := ph; o_entries := ents;
         o_cons := ck; o_cons_seq := cs; o_stop := stp; o_tfails := tf |}.

Record final := { f_leak : bool; f_panic : bool; f_ended : bool; f_late_stop : bool; f_aliased : bool }.
Definition getfinal : rd final :=
  a <- getbool ;; b <- getbool ;; c <- getbool ;; d <- getbool ;; e <- getbool ;;
  ret {| f_leak := a; f_panic := b; f_ended := c; f_late_stop := d; f_aliased := e |}.

Record acase := { a_cfg : cfg; a_steps : list (action * snap); a_final : final }.
Definition getcase : rd acase :=
  mw <- getz ;; iw <- getz ;; d <- getz ;; fl <- getlist getz ;;
  steps <- getlist (getpair getaction getsnap) ;; fin <- getfinal ;;
  ret {| a_cfg := {| maxw := mw; initw := iw; du := d; fails := fl |}; a_steps := steps; a_final := fin |}.

(* ---- quantities read off the observation ----------------------------------------------- *)
Definition started (o : snap) : Z := Z.of_nat (length (o_entries o)) + o_tfails o.

(* fold over the steps carrying: consumed seqs (most recent first), closed seen, stop calls that
   returned true, answered paces (e, w, stop) most recent first, a Stop action seen *)
Record acc := {
  k_cons : list Z; k_closed : bool; k_strue : Z; k_stopseen : bool;
  k_paces : list (Z * Z * bool); k_pend : option (Z * Z); k_calls : Z;
  k_prev_started : Z; k_ok : list verdict }.

Definition acc0 : acc :=
  {| k_cons := []; k_closed := false; k_strue := 0; k_stopseen := false; k_paces := []; k_pend := None;
     k_calls := 0; k_prev_started := 0; k_ok := [] |}.

Definition released_by (ps : list (Z * Z * bool)) (t : Z) : Z :=
  Z.of_nat (length (filter (fun p => let '(e, w, st) := p in negb st && (e + Z.max w 0 <=? t)) ps)).

Definition pacer_stopped (ps : list (Z * Z * bool)) : bool :=
  match ps with (_, _, true) :: _ => true | _ => false end.

Definition step_acc (c : cfg) (k : acc) (ao : action * snap) : acc :=
  let '(a, o) := ao in
  (* the answer just given belongs to the call that was pending *)
  let paces1 := match a, k_pend k with
                | APace w st, Some (e, _) => (e, w, st) :: k_paces k
                | _, _ => k_paces k end in
  let cons1 := if o_cons o =? 1 then o_cons_seq o :: k_cons k else k_cons k in
  let closed1 := k_closed k || (o_cons o =? 2) in
  let strue1 := match a with AStop => k_strue k + (if o_stop o then 1 else 0) | _ => k_strue k end in
  let stopseen1 := k_stopseen k || match a with AStop => true | _ => false end in
  let newcall := o_pending o && negb (match k_pend k, a with
                                      | Some _, APace _ _ => false   (* answered: a pending one now is new *)
                                      | Some _, _ => true            (* still the same pending call *)
                                      | None, _ => false end) in
  let calls1 := if newcall then k_calls k + 1 else k_calls k in
  let busy := started o - Z.of_nat (length cons1) in
  let vs :=
    [ (* C02 *)
      prop_ok 201 (negb (o_cons o =? 1) || negb (memz (o_cons_seq o) (k_cons k))) [o_cons_seq o];
      prop_ok 202 (negb (o_cons o =? 1) || ((0 <=? o_cons_seq o) && (o_cons_seq o <? started o))) [o_cons_seq o; started o];
      prop_ok 203 (negb (o_cons o =? 1) || negb (k_closed k)) [o_cons_seq o];
      prop_ok 204 (negb (o_cons o =? 2) || (Z.of_nat (length cons1) =? started o)) [Z.of_nat (length cons1); started o];
      prop_ok 205 (strue1 <=? 1) [strue1];
      (* C03 *)
      prop_ok 301 (busy <=? maxw c) [busy; maxw c];
      prop_ok 302 (negb ((started o <? released_by paces1 (o_now o)) && (busy <? maxw c)
                         && negb stopseen1 && (o_tfails o =? 0) && negb (pacer_stopped paces1) && negb closed1))
              [started o; released_by paces1 (o_now o); busy];
      (* C04 *)
      prop_ok 401 (negb newcall || ((o_ph o =? k_calls k) && (0 <=? o_pe o) && (o_pe o <=? o_now o) &&
                                    match paces1 with (e, _, _) :: _ => e <=? o_pe o | [] => true end))
              [o_ph o; k_calls k; o_pe o; o_now o];
      prop_ok 402 (started o <=? released_by paces1 (o_now o)) [started o; released_by paces1 (o_now o)];
      prop_ok 403 (negb newcall || negb ((0 <? du c) && (du c <? o_pe o))) [o_pe o; du c];
      prop_ok 404 (negb (0 <? du c) ||
                   (Z.of_nat (length (filter (fun p => du c <? snd p) (o_entries o))) <=? 1)) [];
      prop_ok 405 (negb (pacer_stopped (k_paces k)) || (negb newcall && (started o =? k_prev_started k)))
              [started o; k_prev_started k] ] in
  {| k_cons := cons1; k_closed := closed1; k_strue := strue1; k_stopseen := stopseen1; k_paces := paces1;
     k_pend := if o_pending o then Some (o_pe o, o_ph o) else None; k_calls := calls1;
     k_prev_started := started o; k_ok := vs ++ k_ok k |}.

Definition final_checks (k : acc) (f : final) : list verdict :=
  [ prop_ok 206 (negb (f_leak f)) []; prop_ok 207 (negb (f_panic f)) [];
    prop_ok 208 (f_ended f) []; prop_ok 209 (negb (f_late_stop f)) [];
    (* a result the caller kept still is the result it received *)
    prop_ok 210 (negb (f_aliased f)) [] ].

Definition in_set (lo hi : Z) (v : verdict) : bool :=
  match v with VProp c _ => (lo <=? c) && (c <? hi) | _ => false end.

(* the attack command interrupted once: it must finish the hits in flight, write exactly one result
   per started hit (sequence numbers 0..n-1) and end by itself with status 0 *)
Definition check_cli : rd verdict :=
  served <- getz ;; n <- getz ;; seqs_ok <- getbool ;; exit_ok <- getbool ;; in_time <- getbool ;;
  ret (combine_verdicts
    [ prop_ok 250 (in_time && exit_ok) [n; served];
      prop_ok 251 (seqs_ok && (served <=? n)) [n; served] ]).

(* interrupted while some requests never complete: the first interrupt must leave the command
   waiting for the hits in flight (their results are owed: the channel is closed only after them);
   no result is written twice.  The second interrupt only serves to end the run: what the command
   does on it (exit at once) is not a subject of the property and is recorded, not judged *)
Definition check_cli2 : rd verdict :=
  hung <- getz ;; n <- getz ;; dup_free <- getbool ;; exit_ok <- getbool ;; alive <- getbool ;; in_time <- getbool ;;
  if hung <=? 0 then ret VDontCare else
  ret (combine_verdicts
    [ prop_ok 252 alive [n; hung];
      prop_ok 251 dup_free [n; hung] ]).

(* concurrent Stop calls on the real scheduler: per round exactly one initiator, none afterwards *)
Definition check_stopstress : rd verdict :=
  callers <- getz ;; rounds <- getz ;; bad <- getz ;; maxtrue <- getz ;; late <- getz ;;
  ret (combine_verdicts [ prop_ok 205 (bad =? 0) [callers; rounds; bad; maxtrue]; prop_ok 209 (late =? 0) [late] ]).

(* an attack of an Attacker with helper goroutines (DNS cache refresh) that ended on its own *)
Definition check_optleak : rd verdict :=
  how <- getz ;; results <- getz ;; left <- getz ;;
  ret (prop_ok 206 (left =? 0) [how; results; left]).

(* the attack command against several slow hosts: in flight at the hosts reaches max-workers
   (one less is tolerated: the peak is sampled at the hosts) and never exceeds it *)
Definition check_cliworkers : rd verdict :=
  maxw <- getz ;; conns <- getz ;; hosts <- getz ;; peak <- getz ;; total <- getz ;;
  let reach := Z.min maxw (if conns =? 0 then maxw else conns * hosts) in
  ret (combine_verdicts [ prop_ok 301 (peak <=? maxw) [maxw; conns; peak];
                          prop_ok 302 (reach - 1 <=? peak) [maxw; conns; peak; total] ]).

(* Stop before Attack: the first Stop initiates, the attack ends by itself, a later Stop does not initiate *)
Definition check_prestop : rd verdict :=
  first <- getbool ;; ended <- getbool ;; later <- getbool ;; n <- getz ;;
  ret (combine_verdicts [ prop_ok 205 first [n]; prop_ok 208 ended [n]; prop_ok 209 (negb later) [n] ]).

(* the real loop with the real ConstantPacer in virtual time: entries = the instant each hit (by
   sequence number) reached the transport.  attack_loop_constant_on_schedule: by any instant at most
   Freq * t / Per hits have started; with a duration at most one hit starts after it *)
Fixpoint on_schedule (F P i : Z) (ts : list Z) : option (Z * Z) :=
  match ts with
  | [] => None
  | t :: tl => if (0 <=? t) && ((i + 1) * P <=? F * t) then on_schedule F P (i + 1) tl else Some (i, t)
  end.
Definition check_realpacer : rd verdict :=
  F <- getz ;; P <- getz ;; d <- getz ;; ts <- getlist getz ;; n <- getz ;; ended <- getbool ;;
  ret (combine_verdicts
    [ match on_schedule F P 0 ts with
      | None => VOk
      | Some (i, t) => prop_ok 406 false [F; P; i; t] end;
      prop_ok 404 (negb (0 <? d) || (Z.of_nat (length (filter (fun t => d <? t) ts)) <=? 1)) [d];
      prop_ok 407 (ended && (n =? Z.of_nat (length ts))) [n];
      (* attack_constant_total_hits *)
      prop_ok 408 (negb (0 <? d) || ((n - 1) * P <=? F * d)) [n; F; P; d] ]).

Definition getcase_with (mw : Z) : rd acase :=
  iw <- getz ;; d <- getz ;; fl <- getlist getz ;;
  steps <- getlist (getpair getaction getsnap) ;; fin <- getfinal ;;
  ret {| a_cfg := {| maxw := mw; initw := iw; du := d; fails := fl |}; a_steps := steps; a_final := fin |}.

Definition check_for (lo hi : Z) : rd verdict :=
  mw <- getz ;;
  if mw =? 0 then check_cli else if mw =? -1 then check_cli2 else
  if mw =? -2 then check_stopstress else if mw =? -3 then check_optleak else if mw =? -4 then check_cliworkers else if mw =? -5 then check_prestop else if mw =? -6 then check_realpacer else
  cs <- getcase_with mw ;;
  let c := a_cfg cs in
  let k := fold_left (step_acc c) (a_steps cs) acc0 in
  let props := filter (in_set lo hi) (rev (k_ok k) ++ final_checks k (a_final cs)) in
  let vdiff := match drive c (a_steps cs) [init c] 0 with
               | inr _ => VOk
               | inl i => if i <? 0 then VDontCare else VDiff 90 [i]
               end in
  ret (combine_verdicts (props ++ [vdiff])).

Definition check_C02 : rd verdict := check_for 200 300.
Definition check_C03 : rd verdict := check_for 300 400.
Definition check_C04 : rd verdict := check_for 400 500.
