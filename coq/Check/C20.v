(* C20: Prometheus metrics after a sequence of observations. *)
From Coq Require Import ZArith List Bool.
From V Require Import Base.Wire Base.Approx Base.Assoc Model.Prom.
Import ListNotations.
Open Scope Z_scope.
Open Scope rd_scope.

Definition getpres : rd pres :=
  l <- getz ;; bi <- getz ;; bo <- getz ;; lat <- getz ;; f <- getz ;;
  ret {| p_label := l; p_bin := bi; p_bout := bo; p_lat := lat; p_fail := f |}.

Record ohist := { oh_label : Z; oh_count : Z; oh_sum : fl; oh_cum : list Z }.
Definition getohist : rd ohist :=
  l <- getz ;; c <- getz ;; s <- getfl ;; cum <- getlist getz ;;
  ret {| oh_label := l; oh_count := c; oh_sum := s; oh_cum := cum |}.

Record expect := {
  x_bin : Z -> Z; x_bout : Z -> Z; x_fail : Z -> Z;
  x_hist : Z -> option (Z * Z * list Z);   (* count, sum ns, cumulative counts *)
  x_labels : list Z; x_fails : list Z }.

Fixpoint dedup (l : list Z) (seen : list Z) : list Z :=
  match l with
  | [] => []
  | x :: tl => if existsb (Z.eqb x) seen then dedup tl seen else x :: dedup tl (x :: seen)
  end.

Definition same_set (a b : list Z) : bool :=
  forallb (fun x => existsb (Z.eqb x) b) a && forallb (fun x => existsb (Z.eqb x) a) b &&
  Nat.eqb (length a) (length b).

Definition int_fl (n : Z) (f : fl) : bool := approx_eq n 1 f.

Definition compare (mk : Z -> bool -> list Z -> verdict) (e : expect)
  (bins bouts : list (Z * fl)) (hists : list ohist) (fails : list (Z * fl)) : verdict :=
  combine_verdicts
    [ mk 1 (same_set (map fst bins) (x_labels e) && same_set (map fst bouts) (x_labels e) &&
            same_set (map oh_label hists) (x_labels e))
         [Z.of_nat (length bins); Z.of_nat (length (x_labels e))];
      mk 2 (forallb (fun '(k, f) => int_fl (x_bin e k) f) bins) [];
      mk 3 (forallb (fun '(k, f) => int_fl (x_bout e k) f) bouts) [];
      mk 4 (forallb (fun h => match x_hist e (oh_label h) with
                              | Some (c, _, _) => oh_count h =? c | None => false end) hists) [];
      mk 5 (forallb (fun h => match x_hist e (oh_label h) with
                              | Some (_, s, _) => approx_eq_bits 30 s 1000000000 (oh_sum h)
                              | None => false end) hists) [];
      mk 6 (forallb (fun h => match x_hist e (oh_label h) with
                              | Some (_, _, cum) => list_eqb (oh_cum h) cum | None => false end) hists) [];
      mk 7 (same_set (map fst fails) (x_fails e)) [Z.of_nat (length fails); Z.of_nat (length (x_fails e))];
      mk 8 (forallb (fun '(k, f) => int_fl (x_fail e k) f) fails)
           (match fails with (k, f) :: _ => [k; fl_m f; fl_e f; x_fail e k] | [] => [] end) ].

Definition expect_ref (rs : list pres) : expect :=
  {| x_bin := fun k => psum p_bin (with_label k rs);
     x_bout := fun k => psum p_bout (with_label k rs);
     x_fail := fun f => pcount (fun r => p_fail r =? f) rs;
     x_hist := fun k => match with_label k rs with
                        | [] => None
                        | l => Some (Z.of_nat (length l), psum p_lat l,
                                     map (fun b => pcount (fun r => p_lat r <=? b) l) def_bounds)
                        end;
     x_labels := dedup (map p_label rs) [];
     x_fails := dedup (filter (fun f => negb (f =? 0)) (map p_fail rs)) [] |}.

Definition expect_model (s : pstate) : expect :=
  {| x_bin := fun k => alookup k (s_bin s);
     x_bout := fun k => alookup k (s_bout s);
     x_fail := fun f => alookup f (s_fail s);
     x_hist := fun k => match hist_find k (s_hist s) with
                        | Some r => Some (h_count r, h_sum r, h_cum r) | None => None end;
     x_labels := akeys (s_bin s);
     x_fails := akeys (s_fail s) |}.

Definition in_domain (rs : list pres) : bool :=
  forallb (fun r => (0 <=? p_bin r) && (0 <=? p_bout r) && (0 <=? p_lat r)) rs &&
  (psum p_bin rs <? 2 ^ 53) && (psum p_bout rs <? 2 ^ 53).

Definition check_gather : rd verdict :=
  rs <- getlist getpres ;;
  bins <- getlist (getpair getz getfl) ;; bouts <- getlist (getpair getz getfl) ;;
  hists <- getlist getohist ;; fails <- getlist (getpair getz getfl) ;;
  let vprop := if in_domain rs
               then compare (fun c b d => prop_ok c b d) (expect_ref rs) bins bouts hists fails
               else VOk in
  let vdiff := compare (fun c b d => if b then VOk else VDiff c d)
                       (expect_model (fold_left observe rs pinit)) bins bouts hists fails in
  ret (combine_verdicts [vprop; vdiff]).

Definition check : rd verdict :=
  kind <- getz ;;
  if kind =? 1 then check_gather
  else if kind =? 2 then (n <- getz ;; ret (VProp 9 [n]))   (* the registry could not gather the metrics *)
  else if kind =? 3 then
    (* the attack command, interrupted: all results written but the one held back were observed
       by the time the exporter was scraped; a scrape that failed decides nothing *)
    (n <- getz ;; scraped <- getz ;;
     ret (if scraped <? 0 then VDontCare else prop_ok 10 ((n - 1 <=? scraped) && (scraped <=? n)) [n; scraped]))
  else fail.
