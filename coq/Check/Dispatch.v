From Coq Require Import ZArith List.
From V Require Import Base.Wire.
From V Require Check.C12 Check.C10 Check.C13 Check.C20 Check.C01 Check.C19 Check.C06 Check.C14 Check.Attack Check.C05 Check.C18 Check.C17 Check.C07 Check.C11 Check.C16.
Import ListNotations.
Open Scope Z_scope.

Definition checker (prop : Z) : option (rd verdict) :=
  if prop =? 12 then Some C12.check
  else if prop =? 10 then Some C10.check
  else if prop =? 13 then Some C13.check
  else if prop =? 20 then Some C20.check
  else if prop =? 1 then Some C01.check
  else if prop =? 19 then Some C19.check
  else if prop =? 6 then Some C06.check
  else if prop =? 14 then Some C14.check
  else if prop =? 5 then Some C05.check_c05
  else if prop =? 15 then Some C05.check_c15
  else if prop =? 18 then Some C18.check
  else if prop =? 17 then Some C17.check
  else if prop =? 7 then Some C07.check_c07
  else if prop =? 8 then Some C07.check_c08
  else if prop =? 9 then Some C07.check_c09
  else if prop =? 11 then Some C11.check_c11
  else if prop =? 16 then Some C16.check_c16
  else if prop =? 2 then Some Attack.check_C02
  else if prop =? 3 then Some Attack.check_C03
  else if prop =? 4 then Some Attack.check_C04
  else None.

Definition verif_dispatch (prop : Z) (case : list Z) : list Z :=
  match checker prop with
  | None => verdict_wire VBad
  | Some m => match parse_all m case with
              | Some v => verdict_wire v
              | None => verdict_wire VBad
              end
  end.
