(* C10: case decoding, model comparison and decision of the property on the
   implementation's closed report (taken from the JSON report of the real reporter). *)
From Coq Require Import ZArith List Bool.
From V Require Import Base.Wire Base.Approx Model.Metrics.
Import ListNotations.
Open Scope Z_scope.
Open Scope rd_scope.

Record obs := {
  o_requests : Z; o_codes : list (Z * Z); o_bin : Z; o_bout : Z; o_ltotal : Z; o_lmax : Z; o_lmin : Z;
  o_earliest : option Z; o_latest : option Z; o_end : option Z; o_duration : Z; o_wait : Z;
  o_errors : list Z; o_lat_mean : Z;
  o_rate : fl; o_throughput : fl; o_success : fl; o_bin_mean : fl; o_bout_mean : fl }.

Definition getop : rd op :=
  t <- getz ;;
  if t =? 0 then ret OClose else
  code <- getz ;; ts <- getz ;; lat <- getz ;; bout <- getz ;; bin <- getz ;; err <- getz ;;
  ret (OAdd {| r_code := code; r_ts := ts; r_lat := lat; r_bout := bout; r_bin := bin; r_err := err |}).

Definition getobs : rd obs :=
  requests <- getz ;; codes <- getlist (getpair getz getz) ;; bin <- getz ;; bout <- getz ;;
  ltotal <- getz ;; lmax <- getz ;; lmin <- getz ;;
  earliest <- getopt getz ;; latest <- getopt getz ;; en <- getopt getz ;;
  duration <- getz ;; wait <- getz ;; errors <- getlist getz ;; lat_mean <- getz ;;
  rate <- getfl ;; thr <- getfl ;; succ <- getfl ;; bim <- getfl ;; bom <- getfl ;;
  ret {| o_requests := requests; o_codes := codes; o_bin := bin; o_bout := bout; o_ltotal := ltotal;
         o_lmax := lmax; o_lmin := lmin; o_earliest := earliest; o_latest := latest; o_end := en;
         o_duration := duration; o_wait := wait; o_errors := errors; o_lat_mean := lat_mean;
         o_rate := rate; o_throughput := thr; o_success := succ; o_bin_mean := bim; o_bout_mean := bom |}.

Definition optz_eqb (a b : option Z) : bool :=
  match a, b with
  | None, None => true
  | Some x, Some y => x =? y
  | _, _ => false
  end.

Definition frac_ok (q : Z * Z) (f : fl) : bool :=
  let '(n, d) := q in
  if d =? 0 then true (* 0/0: no request, the field keeps its zero value - checked separately *)
  else approx_eq n d f.

(* time.Duration(float64(total)/float64(requests)): truncation of a rounded quotient *)
Definition mean_ok (q : Z * Z) (impl : Z) : bool :=
  let '(n, d) := q in
  if d =? 0 then impl =? 0
  else Z.abs (Z.quot n d - impl) <=? 1 + Z.abs n / (d * 2 ^ 40).

(* what a report should be, given accumulator-level expected values *)
Record expected := {
  e_requests : Z; e_code : Z -> Z; e_ncodes : Z; e_bin : Z; e_bout : Z; e_ltotal : Z; e_lmax : Z; e_lmin : Z;
  e_earliest : option Z; e_latest : option Z; e_end : option Z; e_derived : derived;
  e_errors_ok : list Z -> bool }.

Definition compare (mk : Z -> bool -> list Z -> verdict) (e : expected) (o : obs) : verdict :=
  let d := e_derived e in
  combine_verdicts
    [ mk 1 (o_requests o =? e_requests e) [o_requests o; e_requests e];
      mk 2 (forallb (fun '(c, v) => v =? e_code e c) (o_codes o) &&
            (Z.of_nat (length (o_codes o)) =? e_ncodes e)) [Z.of_nat (length (o_codes o)); e_ncodes e];
      mk 3 ((o_bin o =? e_bin e) && (o_bout o =? e_bout e)) [o_bin o; e_bin e; o_bout o; e_bout e];
      mk 4 (o_ltotal o =? e_ltotal e) [o_ltotal o; e_ltotal e];
      mk 5 (o_lmax o =? e_lmax e) [o_lmax o; e_lmax e];
      mk 6 (o_lmin o =? e_lmin e) [o_lmin o; e_lmin e];
      mk 7 (optz_eqb (o_earliest o) (e_earliest e)) [oz (o_earliest o); oz (e_earliest e)];
      mk 8 (optz_eqb (o_latest o) (e_latest e)) [oz (o_latest o); oz (e_latest e)];
      mk 9 (optz_eqb (o_end o) (e_end e)) [oz (o_end o); oz (e_end e)];
      mk 10 (o_duration o =? d_duration d) [o_duration o; d_duration d];
      mk 11 (o_wait o =? d_wait d) [o_wait o; d_wait d];
      mk 12 (e_errors_ok e (o_errors o)) (o_errors o);
      mk 13 (frac_ok (d_rate d) (o_rate o)) [fst (d_rate d); snd (d_rate d); fl_m (o_rate o); fl_e (o_rate o)];
      mk 14 (frac_ok (d_throughput d) (o_throughput o)) [fst (d_throughput d); snd (d_throughput d)];
      mk 15 (frac_ok (d_success d) (o_success o)) [fst (d_success d); snd (d_success d)];
      mk 16 (frac_ok (d_bin_mean d) (o_bin_mean o) && frac_ok (d_bout_mean d) (o_bout_mean o) &&
             mean_ok (d_lat_mean d) (o_lat_mean o)) [fst (d_lat_mean d); snd (d_lat_mean d); o_lat_mean o] ].

Fixpoint nodupb (l : list Z) : bool :=
  match l with [] => true | x :: tl => negb (memz x tl) && nodupb tl end.

Fixpoint distinct_codes (rs : list result) (seen : list Z) : Z :=
  match rs with
  | [] => 0
  | r :: tl => if memz (r_code r) seen then distinct_codes tl seen
               else 1 + distinct_codes tl (r_code r :: seen)
  end.

Definition expected_of_model (m : metrics) : expected :=
  {| e_requests := m_requests m; e_code := fun c => lookup c (m_codes m);
     e_ncodes := Z.of_nat (length (m_codes m));
     e_bin := m_bin m; e_bout := m_bout m; e_ltotal := m_ltotal m; e_lmax := m_lmax m; e_lmin := m_lmin m;
     e_earliest := m_earliest m; e_latest := m_latest m; e_end := m_end m; e_derived := m_derived m;
     e_errors_ok := fun l => list_eqb l (m_errors m) |}.

(* the reference computation of the property, from the multiset of added results *)
Definition expected_of_ref (rs : list result) : expected :=
  {| e_requests := ref_requests rs; e_code := ref_code rs; e_ncodes := distinct_codes rs [];
     e_bin := ref_bin rs; e_bout := ref_bout rs; e_ltotal := ref_ltotal rs;
     e_lmax := ref_lmax rs; e_lmin := ref_lmin rs;
     e_earliest := ref_earliest rs; e_latest := ref_latest rs; e_end := ref_end rs;
     e_derived := ref_derived rs;
     e_errors_ok := fun l =>
       nodupb l && forallb (fun e => negb (e =? 0) && existsb (fun r => r_err r =? e) rs) l &&
       forallb (fun r => (r_err r =? 0) || memz (r_err r) l) rs |}.

Definition no_overflow_b (rs : list result) : bool :=
  forallb (fun r => (0 <=? r_lat r) && (0 <=? r_bin r) && (0 <=? r_bout r)) rs &&
  (ref_requests rs <? two64) && (ref_bin rs <? two64) && (ref_bout rs <? two64) &&
  (ref_ltotal rs <? two64 / 2).

Definition check_report : rd verdict :=
  ops <- getlist getop ;; o <- getobs ;; tcodes <- getlist (getpair getz getz) ;;
  let rs := adds ops in
  let vprop := if no_overflow_b rs
               then combine_verdicts
                      [ compare (fun c b d => prop_ok c b d) (expected_of_ref rs) o;
                        (* the text report lists every status code once, ascending, with the same counts *)
                        prop_ok 17 (list_eqb (map fst tcodes) (map fst (o_codes o)) && list_eqb (map snd tcodes) (map snd (o_codes o)))
                                [Z.of_nat (length tcodes); Z.of_nat (length (o_codes o))] ]
               else VOk in
  let vdiff := compare (fun c b d => if b then VOk else VDiff c d)
                       (expected_of_model (close (run ops init))) o in
  ret (combine_verdicts [vprop; vdiff]).

Definition check : rd verdict :=
  kind <- getz ;;
  if kind =? 1 then check_report else fail.
