(* C14: target files. *)
From Coq Require Import ZArith List Bool.
From V Require Import Base.Wire Base.Duration Base.Str Model.Flags Model.Targets Model.JsonTarget Check.C19.
Import ListNotations.
Open Scope Z_scope.
Open Scope rd_scope.

Definition gettgt : rd target :=
  m <- getstr ;; u <- getstr ;; b <- getstr ;; h <- gethmap ;;
  ret {| t_method := m; t_url := u; t_body := b; t_header := h |}.

Inductive iobs := IOk (t : target) (stable : bool) | INo | IErr.
Definition getiobs : rd iobs :=
  k <- getz ;;
  if k =? 0 then (t <- gettgt ;; st <- getbool ;; ret (IOk t st))
  else if k =? 1 then ret INo else ret IErr.

Definition hmap_eq (a b : hmap) : bool := hmap_same a b && hmap_same b a.
Definition target_eqb (a b : target) : bool :=
  str_eqb (t_method a) (t_method b) && str_eqb (t_url a) (t_url b) &&
  str_eqb (t_body a) (t_body b) && hmap_eq (t_header a) (t_header b).

Fixpoint same_results (ms : list tres) (is : list iobs) : bool :=
  match ms, is with
  | [], [] => true
  | TOk t :: ms', IOk t' _ :: is' => target_eqb t t' && same_results ms' is'
  | TNoTargets :: ms', INo :: is' => same_results ms' is'
  | TErr _ :: ms', IErr :: is' => same_results ms' is'
  | _, _ => false
  end.

(* the property on the observation, given the targets the file describes *)
Fixpoint matches_intent (want : list target) (is : list iobs) : bool :=
  match want, is with
  | [], INo :: rest => forallb (fun o => match o with INo => true | _ => false end) rest
  | t :: want', IOk t' _ :: is' => target_eqb t t' && matches_intent want' is'
  | _, _ => false
  end.

Definition stable_all (is : list iobs) : bool :=
  forallb (fun o => match o with IOk _ st => st | _ => true end) is.

Definition first_mismatch (want : list target) (is : list iobs) : Z :=
  (fix go (i : Z) (w : list target) (o : list iobs) : Z :=
     match w, o with
     | t :: w', IOk t' _ :: o' => if target_eqb t t' then go (i + 1) w' o' else i
     | _, _ => i
     end) 0 want is.

Definition check_http : rd verdict :=
  src <- getstr ;; fs <- getlist (getpair getstr getstr) ;; dbody <- getstr ;; dhdr <- gethmap ;;
  ncalls <- getz ;; obs <- getlist getiobs ;; defaults_same <- getbool ;;
  hasintent <- getbool ;; want <- getlist gettgt ;; eager_same <- getbool ;;
  let model := http_calls true fs dbody dhdr (Z.to_nat ncalls) (psc_of src) in
  let vdiff := if same_results model obs then VOk else VDiff 10 [Z.of_nat (length obs)] in
  let vprop := combine_verdicts
    [ if hasintent then prop_ok 1 (matches_intent want obs) [first_mismatch want obs; Z.of_nat (length want)] else VOk;
      prop_ok 2 (stable_all obs) [];
      prop_ok 3 defaults_same [];
      prop_ok 7 eager_same [] ] in
  ret (combine_verdicts [vprop; vdiff]).

(* a line: the meaning given by the harness's independent decoder (encoding/json), and its bytes *)
Definition getjline : rd (jline * list Z) :=
  b <- getbool ;; t <- getbool ;; k <- getz ;;
  if k =? 0 then (raw <- getstr ;; ret ({| j_blank := b; j_terminated := t; j_mean := JBad |}, raw))
  else (tg <- gettgt ;; raw <- getstr ;; ret ({| j_blank := b; j_terminated := t; j_mean := JObj tg |}, raw)).

(* the model's own reader of the line agrees with the independent decoder, and - where the
   order of the header members is determined (at most one key) - the model's encoder writes the
   very bytes the real encoder wrote *)
Definition line_agrees (lr : jline * list Z) : bool :=
  let '(l, raw) := lr in
  let m := jline_of (j_terminated l) raw in
  Bool.eqb (j_blank l) (j_blank m) &&
  (j_blank l ||
   match j_mean l, j_mean m with
   | JBad, JBad => true
   | JObj a, JObj b => target_eqb a b
   | _, _ => false
   end).
Definition encoder_agrees (written : Z) (lr : jline * list Z) : bool :=
  let '(l, raw) := lr in
  match j_mean l with
  | JObj t => if written =? 1 then
                 if (length (t_header t) <=? 1)%nat then str_eqb (jt_encode t) (raw ++ [10]) else true
              else true
  | JBad => true
  end.

Definition check_json : rd verdict :=
  lrs <- getlist (w <- getz ;; lr <- getjline ;; ret (w, lr)) ;; dbody <- getstr ;; dhdr <- gethmap ;;
  ncalls <- getz ;; obs <- getlist getiobs ;; defaults_same <- getbool ;;
  hasintent <- getbool ;; want <- getlist gettgt ;; eager_same <- getbool ;;
  let ls := map (fun x => fst (snd x)) lrs in
  let model := json_calls dbody dhdr (Z.to_nat ncalls) ls in
  let vdiff := combine_verdicts
    [ if same_results model obs then VOk else VDiff 20 [Z.of_nat (length obs)];
      if forallb (fun x => line_agrees (snd x)) lrs then VOk else VDiff 21 [];
      if forallb (fun x => encoder_agrees (fst x) (snd x)) lrs then VOk else VDiff 22 [] ] in
  let vprop := combine_verdicts
    [ if hasintent then prop_ok 4 (matches_intent want obs) [first_mismatch want obs; Z.of_nat (length want)] else VOk;
      prop_ok 5 (stable_all obs) [];
      prop_ok 6 defaults_same [];
      prop_ok 8 eager_same [] ] in
  ret (combine_verdicts [vprop; vdiff]).

Definition check : rd verdict :=
  kind <- getz ;;
  if kind =? 1 then check_http
  else if kind =? 2 then check_json
  else fail.
