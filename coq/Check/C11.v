(* C11: latency percentiles.  The exported state of the real digest is queried by the exact-Q
   model; the property (ordering, rank bound, constant data, HDR rows) is decided on the
   implementation's reported values with exact integer arithmetic. *)
From Coq Require Import ZArith QArith Qround List Bool.
From V Require Import Base.Wire Base.Approx Model.Quantile.
Import ListNotations.
Open Scope Z_scope.
Open Scope rd_scope.

Definition fl_q (f : fl) : Q := let '(a, b) := fl_frac f in Qred (Qmake a (Z.to_pos b)).

Definition getcen : rd cen := m <- getfl ;; w <- getz ;; ret {| cm := fl_q m; cw := inject_Z w |}.

Definition count_lt (v : Z) (l : list Z) : Z := Z.of_nat (length (filter (fun x => x <? v) l)).
Definition count_le (v : Z) (l : list Z) : Z := Z.of_nat (length (filter (fun x => x <=? v) l)).

(* v lies between two observed latencies a <= v <= b whose ranks are both within 1 + n/100 of
   pct/100 * n.  The property does not fix a rank convention, so the rank of an observed x is any
   integer in [#(< x), #(<= x)] (0-based position of its first copy .. 1-based position of its
   last copy).  The ranks available below v are then 0 .. #(<= v), those above #(< v) .. n. *)
Definition rank_within (tol1000 : Z) (n pct : Z) (lat : list Z) (v : Z) : bool :=
  let lo := count_lt v lat in
  let hi := count_le v lat in
  (pct * 10 * n - tol1000 <=? 1000 * hi) && (1000 * lo <=? pct * 10 * n + tol1000).
(* the bound of the property: 1 + 1% of n *)
Definition rank_ok (n pct : Z) (lat : list Z) (v : Z) : bool := rank_within (1000 + 10 * n) n pct lat v.
(* the resolution a compression-100 digest has by construction: a value interpolated between two
   centroid centres can be off by one centroid plus half of the next, and no centroid outweighs
   pi/200 * n + 1 samples: 1.5 * 1.5708% < 2.5%.  An error beyond that is not the known finding. *)
Definition rank_ok_loose (n pct : Z) (lat : list Z) (v : Z) : bool := rank_within (2000 + 25 * n) n pct lat v.

Fixpoint nondecreasing (l : list Z) : bool :=
  match l with
  | a :: (b :: _) as tl => (a <=? b) && nondecreasing tl
  | _ => true
  end.

Fixpoint sorted_fromb (m : Q) (cs : list cen) : bool :=
  match cs with [] => true | c :: tl => Qle_bool m (cm c) && sorted_fromb (cm c) tl end.
Definition inv_ok (d : digest) : bool :=
  forallb (fun c => negb (Qle_bool (cw c) 0)) (dcs d) &&
  match dcs d with
  | [] => true
  | c0 :: tl => Qle_bool (dmin d) (cm c0) && sorted_fromb (cm c0) tl && Qle_bool (last_mean (cm c0) tl) (dmax d)
  end.

Definition band : Q := Qmake 1 (2 ^ 40)%positive.
Definition q_minus (q : Q) : Q := Qred (q * (1 - band))%Q.
Definition q_plus (q : Q) : Q := let x := Qred (q * (1 + band))%Q in if Qle_bool x 1 then x else 1%Q.

(* impl inside [model(q-), model(q+)] (the model is monotone in q: quantile_mono) with one unit
   for the truncation and a 2^-40 relative guard for the float evaluation *)
Definition model_agrees (d : digest) (q : Q) (impl : Z) : bool :=
  match quantile (q_minus q) d, quantile (q_plus q) d with
  | Some lo, Some hi =>
      let l := qtrunc lo in let h := qtrunc hi in
      let tol := 1 + Z.abs h / 2 ^ 40 in
      (l - tol <=? impl) && (impl <=? h + tol)
  | _, _ => false
  end.

Definition pcts : list Z := [50; 90; 95; 99].

Definition check_dataset : rd verdict :=
  n <- getz ;; lat <- getlist getz ;; cs <- getlist getcen ;; mn <- getfl ;; mx <- getfl ;;
  imin <- getz ;; imax <- getz ;; ps <- getn 4 getz ;; qs <- getn 4 getfl ;;
  rows <- getlist (getpair getz getz) ;;      (* percentile in millionths, value in ns *)
  let d := {| dcs := cs; dmin := fl_q mn; dmax := fl_q mx |} in
  let p50 := nth 0 ps 0 in let p99 := nth 3 ps 0 in
  let all_same := match lat with [] => false | x :: tl => forallb (Z.eqb x) tl end in
  let first_bad_rank := find (fun '(pct, v) => negb (rank_ok n pct lat v)) (combine pcts ps) in
  let first_far_rank := find (fun '(pct, v) => negb (rank_ok_loose n pct lat v)) (combine pcts ps) in
  let vprop := combine_verdicts
    [ prop_ok 1 (nondecreasing ([imin] ++ ps ++ [imax])) ([imin] ++ ps ++ [imax]);
      prop_ok 6 (match first_far_rank with None => true | Some _ => false end)
              (match first_far_rank with Some (pct, v) => [pct; v; n; count_lt v lat; count_le v lat] | None => [] end);
      prop_ok 2 (match first_bad_rank with None => true | Some _ => false end)
              (match first_bad_rank with Some (pct, v) => [pct; v; n; count_lt v lat; count_le v lat] | None => [] end);
      prop_ok 3 (negb all_same || forallb (Z.eqb (hd 0 lat)) ps) ps;
      prop_ok 4 (nondecreasing (map snd rows)) [] ;
      prop_ok 5 (nondecreasing (map fst rows) && negb (Nat.eqb (length rows) 0)) [Z.of_nat (length rows)] ] in
  let vdiff :=
    if negb (inv_ok d) then VDontCare
    else combine_verdicts
      [ if forallb (fun '(q, p) => model_agrees d (fl_q q) p) (combine qs ps) then VOk else VDiff 10 ps;
        match find (fun '(qm, v) => negb (model_agrees d (Qmake qm 1000000) v)) rows with
        | None => VOk | Some (qm, v) => VDiff 11 [qm; v] end;
        (* the sample extremes bracket the digest's *)
        if Qle_bool (inject_Z imin) (dmin d) && Qle_bool (dmax d) (inject_Z imax) then VOk else VDiff 12 [imin; imax] ] in
  ret (combine_verdicts [vprop; vdiff]).

Definition check_c11 : rd verdict := kind <- getz ;; if kind =? 1 then check_dataset else fail.
