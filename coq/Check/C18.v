(* C18: dial histories. *)
From Coq Require Import ZArith List Bool Arith.
From V Require Import Base.Wire Model.Dial.
Import ListNotations.
Open Scope Z_scope.
Open Scope rd_scope.

Fixpoint memz (x : Z) (l : list Z) : bool := match l with [] => false | y :: tl => (x =? y) || memz x tl end.

Definition fam_of (resolved : list (Z * bool)) (id : Z) : option bool :=
  match find (fun a => fst a =? id) resolved with Some a => Some (snd a) | None => None end.

Definition dial_ok (resolved : list (Z * bool)) (d : list Z) : bool :=
  let fams := map (fam_of resolved) d in
  let has := fun f => existsb (fun a => Bool.eqb (snd a) f) resolved in
  let got := fun f => existsb (fun o => match o with Some g => Bool.eqb g f | None => false end) fams in
  negb (Nat.eqb (length d) 0) && Nat.leb (length d) 2 &&
  forallb (fun o => match o with Some _ => true | None => false end) fams &&
  match fams with [Some a; Some b] => negb (Bool.eqb a b) | _ => true end &&
  Bool.eqb (has true) (got true) && Bool.eqb (has false) (got false).

Definition check_dns : rd verdict :=
  resolved <- getlist (getpair getz getbool) ;; dials <- getlist (getlist getz) ;; errs <- getz ;; queries <- getz ;; conc <- getz ;;
  let n := length dials in
  let late := skipn (n / 2) dials in
  let covered := forallb (fun a => existsb (fun d => memz (fst a) d) late) resolved in
  let enough := Nat.leb (100 * length resolved) n in
  ret (combine_verdicts
    [ prop_ok 1 (forallb (dial_ok resolved) dials)
              (match filter (fun d => negb (dial_ok resolved d)) dials with d :: _ => d | [] => [] end);
      prop_ok 2 (negb enough || covered) [Z.of_nat n];
      prop_ok 3 (errs =? 0) [errs];
      (* TTL 0 = cached forever: no new lookups for later connections *)
      prop_ok 4 (queries <=? 4 * conc + 4) [queries; Z.of_nat n] ]).

Definition check_connect : rd verdict :=
  k <- getz ;; sequential <- getbool ;; draws <- getlist getz ;; passthrough_ok <- getbool ;;
  let n := Z.of_nat (length draws) in
  let count := fun j => Z.of_nat (length (filter (fun d => d =? j) draws)) in
  let idxs := map Z.of_nat (seq 0 (Z.to_nat k)) in
  let model := map Z.of_nat (rot_draws (Z.to_nat k) 1 (length draws)) in
  ret (combine_verdicts
    [ prop_ok 10 (forallb (fun d => (0 <=? d) && (d <? k)) draws) [];
      prop_ok 11 (forallb (fun j => (n / k <=? count j) && (count j <=? (n + k - 1) / k)) idxs) [n; k];
      prop_ok 12 passthrough_ok [];
      if sequential then check_eql 20 model draws else VOk ]).

Definition check : rd verdict :=
  kind <- getz ;;
  if kind =? 1 then check_dns else if kind =? 2 then check_connect
  else if kind =? 4 then
    (k <- getz ;; draws <- getlist getz ;;
     (* the DNS dials of a custom resolver rotate over its addresses: the i-th goes to address (i+1) mod k *)
     let model := map Z.of_nat (rot_draws (Z.to_nat k) 1 (length draws)) in
     ret (prop_ok 40 (forallb (fun d => (0 <=? d) && (d <? k)) draws && list_eqb model draws) [k]))
  else if kind =? 5 then
    (* the command with k resolvers and caching off: every resolver gets a fair part of the lookups *)
    (ran <- getbool ;; n <- getz ;; okc <- getz ;; qs <- getlist getz ;;
     let k := Z.of_nat (length qs) in
     let total := fold_left Z.add qs 0 in
     ret (combine_verdicts
       [ prop_ok 30 (ran && (0 <? n) && (okc =? n)) [n; okc];
         prop_ok 40 (forallb (fun q => total <=? q * (3 * k)) qs) (k :: qs) ]))
  else if kind =? 6 then
    (* a positive TTL: first dial at the first address, and some TTLs after the change at the new one *)
    (ttl <- getz ;; first <- getz ;; last <- getz ;;
     ret (combine_verdicts [ prop_ok 1 (first =? 0) [first]; prop_ok 5 (last =? 1) [ttl; last] ]))
  else if kind =? 3 then
    (ran <- getbool ;; keepalive <- getbool ;; n <- getz ;; okc <- getz ;; hits <- getlist getz ;;
     (* the command's requests for the mapped address all succeeded at the replacements, and with
        a connection per request (-keepalive=false, 30 requests) every replacement was used *)
     ret (combine_verdicts
       [ prop_ok 30 (ran && (0 <? n) && (okc =? n)) [n; okc];
         prop_ok 31 (keepalive || forallb (fun h => 0 <? h) hits) hits ]))
  else fail.
