(* C19: command-line flag values. *)
From Coq Require Import ZArith List Bool.
From V Require Import Base.Wire Base.Duration Base.Str Base.DurString Model.Flags.
Import ListNotations.
Open Scope Z_scope.
Open Scope rd_scope.

Definition getstr := getbytes.
Definition gethmap : rd hmap := getlist (getpair getstr (getlist getstr)).

Fixpoint strs_eqb (a b : list (list Z)) : bool :=
  match a, b with
  | [], [] => true
  | x :: a', y :: b' => str_eqb x y && strs_eqb a' b'
  | _, _ => false
  end.

(* compare a model map with the implementation's (sent sorted by key) *)
Definition hmap_same (m impl : hmap) : bool :=
  Nat.eqb (length m) (length impl) &&
  forallb (fun '(k, vs) => strs_eqb (hlookup k m) vs) impl.

(* kind 1: rateFlag.Set on the default 50/1s, raw text *)
Definition check_rate : rd verdict :=
  v <- getstr ;; ierr <- getbool ;; ifreq <- getz ;; iper <- getz ;; iunl <- getbool ;;
  istr <- getstr ;; rerr <- getbool ;; rfreq <- getz ;; rper <- getz ;;
  let vdiff :=
    match rate_set true (50, 1000000000) v with
    | None => if ierr then VOk else VDiff 10 [ifreq; iper]
    | Some (f, p) =>
        if ierr then VDiff 11 [f; p]
        else combine_verdicts [check_eqz 12 f ifreq; check_eqz 13 p iper;
                               if Bool.eqb (unlimited_guard (f, p)) iunl then VOk else VDiff 14 []]
    end in
  (* a rate's printed form parses back to the same rate (implementation round trip and the
     model's reading of the printed text) *)
  let vprint :=
    if ierr then VOk else
    if (ifreq =? 0) || (iper <=? 0) then VOk else
    combine_verdicts
      [ prop_ok 5 (negb rerr && (rfreq =? ifreq) && (rper =? iper)) [ifreq; iper; rfreq; rper];
        match rate_set true (50, 1000000000) istr with
        | Some (f, p) => prop_ok 6 ((f =? ifreq) && (p =? iper)) [f; p; ifreq; iper]
        | None => VProp 6 []
        end;
        (* the printed form is the one the model prints (Itoa, '/', Duration.String) *)
        if str_eqb istr (itoa ifreq ++ 47 :: dur_string iper) then VOk else VDiff 15 [ifreq; iper] ] in
  ret (combine_verdicts [vprint; vdiff]).

(* kind 11: the generator's intent: N per D; special 1 = "0", 2 = "infinity", 3 = malformed *)
Definition check_rate_intent : rd verdict :=
  n <- getz ;; per <- getz ;; special <- getz ;;
  ierr <- getbool ;; ifreq <- getz ;; iper <- getz ;; iunl <- getbool ;;
  ret (if special =? 3 then prop_ok 4 ierr [ifreq; iper]
       else if (special =? 1) || (special =? 2) then
         combine_verdicts [prop_ok 2 (negb ierr) []; prop_ok 3 (negb ierr && (ifreq =? 0) && iunl) [ifreq; iper]]
       else combine_verdicts [prop_ok 1 (negb ierr && (ifreq =? n) && (iper =? per)) [n; per; ifreq; iper];
                              prop_ok 7 (negb iunl) []]).

(* kind 12: -rate given several times: every well-formed occurrence replaces the rate as a whole
   (N per D, D = one second when omitted); a malformed one is rejected (the command then exits, so
   what it left in the variable is not observable and not compared) *)
Definition check_rate_seq : rd verdict :=
  vals <- getlist getstr ;; ierrs <- getlist getbool ;; ifreq <- getz ;; iper <- getz ;;
  let model := fold_left (fun st v => match st with
                                       | (cur, errs) => match rate_set true cur v with
                                                        | Some r => (r, errs ++ [false])
                                                        | None => (cur, errs ++ [true]) end end)
                         vals ((50, 1000000000), []) in
  let '(mf, mp) := fst model in
  let berrs := map (fun b : bool => if b then 1 else 0) in
  ret (combine_verdicts
    [ prop_ok 8 (list_eqb (berrs (snd model)) (berrs ierrs) &&
                 (existsb (fun b : bool => b) ierrs || ((mf =? ifreq) && ((mf =? 0) || (mp =? iper))))) [mf; mp; ifreq; iper] ]).

(* kind 2: repeated -header flags; intent = the (key, value) pairs in order *)
Definition check_headers : rd verdict :=
  vals <- getlist getstr ;; pairs <- getlist (getpair getstr getstr) ;;
  ierrs <- getlist getbool ;; imap <- gethmap ;;
  let model := fold_left (fun st v => match st with
                                       | (h, errs) => match headers_set h v with
                                                      | Some h' => (h', errs ++ [false])
                                                      | None => (h, errs ++ [true]) end end)
                         vals ([], []) in
  let vdiff := combine_verdicts
    [ if list_eqb (map (fun b : bool => if b then 1 else 0) (snd model)) (map (fun b : bool => if b then 1 else 0) ierrs) then VOk else VDiff 20 [];
      if hmap_same (fst model) imap then VOk else VDiff 21 [Z.of_nat (length (fst model)); Z.of_nat (length imap)] ] in
  (* intent: when every line is well formed, each key holds exactly its values in order *)
  let vprop :=
    match pairs with
    | [] => VOk
    | _ => combine_verdicts
        [ prop_ok 30 (forallb negb ierrs) [];
          prop_ok 31 (forallb (fun '(k, vs) =>
                       strs_eqb vs (map snd (filter (fun p => str_eqb (fst p) k) pairs))) imap) [];
          prop_ok 32 (forallb (fun p => existsb (fun '(k, _) => str_eqb k (fst p)) imap) pairs) [] ]
    end in
  ret (combine_verdicts [vprop; vdiff]).

(* kind 3: -max-body; expected = -2 means no intent *)
Definition check_maxbody : rd verdict :=
  v <- getstr ;; expected <- getz ;; ierr <- getbool ;; n <- getz ;;
  let vdiff := match maxbody_set v with
               | None => if ierr then VOk else VDiff 40 [n]
               | Some m => if ierr then VDiff 41 [m] else check_eqz 42 m n end in
  let vprop := if expected =? -2 then VOk else prop_ok 43 (negb ierr && (n =? expected)) [n; expected] in
  ret (combine_verdicts [vprop; vdiff]).

Definition check_dnsttl : rd verdict :=
  v <- getstr ;; expected <- getz ;; ierr <- getbool ;; n <- getz ;;
  let vdiff := match dnsttl_set v with
               | None => if ierr then VOk else VDiff 50 [n]
               | Some m => if ierr then VDiff 51 [m] else check_eqz 52 m n end in
  let vprop := if expected =? -2 then VOk else prop_ok 53 (negb ierr && (n =? expected)) [n; expected] in
  ret (combine_verdicts [vprop; vdiff]).

Definition check_connectto : rd verdict :=
  vals <- getlist getstr ;; pairs <- getlist (getpair getstr getstr) ;;
  ierrs <- getlist getbool ;; imap <- gethmap ;;
  let model := fold_left (fun st v => match st with
                                       | (h, errs) => match connect_to_set h v with
                                                      | Some h' => (h', errs ++ [false])
                                                      | None => (h, errs ++ [true]) end end)
                         vals ([], []) in
  let vdiff := combine_verdicts
    [ if list_eqb (map (fun b : bool => if b then 1 else 0) (snd model)) (map (fun b : bool => if b then 1 else 0) ierrs) then VOk else VDiff 60 [];
      if hmap_same (fst model) imap then VOk else VDiff 61 [] ] in
  let vprop :=
    match pairs with
    | [] => VOk
    | _ => combine_verdicts
        [ prop_ok 62 (forallb negb ierrs) [];
          prop_ok 63 (forallb (fun '(k, vs) =>
                       strs_eqb vs (map snd (filter (fun p => str_eqb (fst p) k) pairs))) imap &&
                      forallb (fun p => existsb (fun '(k, _) => str_eqb k (fst p)) imap) pairs) [] ]
    end in
  ret (combine_verdicts [vprop; vdiff]).

(* kind 6: -resolvers: comma separated list; expected (intent) may be empty = none *)
Definition check_resolvers : rd verdict :=
  v <- getstr ;; hasintent <- getbool ;; expected <- getlist getstr ;; v6 <- getbool ;;
  ierr <- getbool ;; ilist <- getlist getstr ;;
  let addrs := split_on 44 v [] in
  let model := fold_right (fun a acc => match acc, normalize_addr a with
                                        | Some l, Some n => Some (n :: l) | _, _ => None end)
                          (Some []) addrs in
  let vdiff := if v6 then VDontCare else
               match model with
               | None => if ierr then VOk else VDiff 70 []
               | Some l => if ierr then VDiff 71 [] else if strs_eqb l ilist then VOk else VDiff 72 []
               end in
  let vprop := if hasintent then prop_ok 73 (negb ierr && strs_eqb ilist expected) [] else VOk in
  ret (combine_verdicts [vprop; vdiff]).

(* kind 7: the attack command with an unlimited / limited rate, with or without -max-workers *)
Definition check_guard_cli : rd verdict :=
  v <- getstr ;; hasdur <- getbool ;; hasmaxw <- getbool ;; refused <- getbool ;; failed <- getbool ;;
  nres <- getz ;; served <- getz ;;
  match rate_set true (50, 1000000000) v with
  | None => ret (VDiff 80 [])
  | Some r =>
      let unl := unlimited_guard r in
      ret (combine_verdicts
        [ prop_ok 81 (Bool.eqb refused (unl && negb hasmaxw)) [fst r; snd r];
          (* a command that is not refused runs: it sends requests *)
          prop_ok 82 (refused || (negb failed && (0 <? nres))) [nres] ])
  end.

(* kind 8: -dns-ttl through the command; lookups counted at the name server *)
Definition check_dnsttl_cli : rd verdict :=
  v <- getstr ;; ran <- getbool ;; nres <- getz ;; okc <- getz ;; queries <- getz ;;
  match dnsttl_set v with
  | None => ret (VDiff 85 [])
  | Some ttl =>
      if negb ran || (okc <? 10) then ret (VDiff 86 [nres; okc])
      else ret (prop_ok 83 (if ttl <? 0 then okc <=? queries else queries <=? 8) [ttl; queries; okc])
  end.

(* kind 9: -connect-to through the command, whatever the other dial-related flags *)
Definition check_connectto_cli : rd verdict :=
  ran <- getbool ;; nres <- getz ;; okc <- getz ;; served <- getz ;;
  ret (prop_ok 64 (ran && (0 <? nres) && (okc =? nres) && (nres <=? served)) [nres; okc; served]).

Definition check : rd verdict :=
  kind <- getz ;;
  if kind =? 9 then check_connectto_cli else
  if kind =? 7 then check_guard_cli
  else if kind =? 8 then check_dnsttl_cli
  else if kind =? 1 then check_rate
  else if kind =? 11 then check_rate_intent
  else if kind =? 12 then check_rate_seq
  else if kind =? 2 then check_headers
  else if kind =? 3 then check_maxbody
  else if kind =? 4 then check_dnsttl
  else if kind =? 5 then check_connectto
  else if kind =? 6 then check_resolvers
  else fail.
