(* C13: the combined decoder over several inputs. Records are identified by integers that
   are unique over all inputs of a case. *)
From Coq Require Import ZArith List Bool.
From V Require Import Base.Wire Model.RoundRobin Model.Metrics.
Import ListNotations.
Open Scope Z_scope.
Open Scope rd_scope.

Definition ids_of (out : list (nat * Z)) : list Z := map snd out.

(* decision procedure of the property on an observed output sequence *)
Definition check_obs (ins : list (list Z)) (out : list Z) (eof_at_end : bool) : verdict :=
  combine_verdicts
    [ prop_ok 1 (Nat.eqb (length out) (length (concat ins)))
              [Z.of_nat (length out); Z.of_nat (length (concat ins))];
      prop_ok 2 (forallb (fun inp => list_eqb (filter (fun x => memz x inp) out) inp) ins) [];
      prop_ok 3 (forallb (fun x => existsb (memz x) ins) out) [];
      prop_ok 4 eof_at_end [] ].

Definition check_rr : rd verdict :=
  ins <- getlist (getlist getz) ;;
  lib_out <- getlist getz ;; lib_eof <- getbool ;; lib_eof_again <- getbool ;;
  cli_ok <- getbool ;; cli_out <- getlist getz ;;
  rep_json_same <- getbool ;; rep_hist_same <- getbool ;; rep_text_same <- getbool ;;
  let vprop :=
    combine_verdicts
      [ check_obs ins lib_out (lib_eof && lib_eof_again);
        prop_ok 5 cli_ok [];
        if cli_ok then check_obs ins cli_out true else VOk;
        prop_ok 6 rep_json_same []; prop_ok 7 rep_hist_same []; prop_ok 8 rep_text_same [] ] in
  let vdiff :=
    match rr_all ins with
    | Some out =>
        combine_verdicts [ check_eql 10 (ids_of out) lib_out;
                           if cli_ok then check_eql 11 (ids_of out) cli_out else VOk ]
    | None => VDiff 12 []
    end in
  ret (combine_verdicts [vprop; vdiff]).

Definition check : rd verdict :=
  kind <- getz ;;
  if kind =? 1 then check_rr else fail.
