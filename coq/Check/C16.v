(* C16: outcome classes of the real parsers on arbitrary bytes, decided with the progress measures
   of the model (lines still to be scanned, bytes still to be read). *)
From Coq Require Import ZArith List Bool.
From V Require Import Base.Wire Base.Duration Base.Str Model.Flags Model.Targets.
Import ListNotations.
Open Scope Z_scope.
Open Scope rd_scope.

(* outcome classes: 0 value, 1 error, 2 panic, 3 no answer within the time limit, 5 still yielding
   values after |input| + 3 calls *)
Definition count10 (s : list Z) : Z := Z.of_nat (length (filter (Z.eqb 10) s)).

(* the most values a parser can yield from this input (TotalityProofs: every value consumes input) *)
Definition value_bound (parser : Z) (input : list Z) : Z :=
  if parser =? 4 then Z.of_nat (length (scan_lines input))      (* http targets: one per scanned line at most *)
  else if parser =? 5 then count10 input + 1                      (* json targets: one per line *)
  else if parser <=? 3 then Z.of_nat (length input)              (* decoders: a record is at least a byte *)
  else 1.                                                          (* single-value parsers *)

(* fixed allowance of a call, besides 1 KiB per input byte: encoding/gob reads a declared message
   length in chunks of up to 10 MiB whatever the input holds (library behaviour), so the two
   parsers that try gob get 64 MiB; every other parser gets 4 MiB (observed: under 100 KiB) *)
Definition alloc_fixed (parser : Z) : Z :=
  if (parser =? 0) || (parser =? 3) then 67108864 else 4194304.

Definition check_fuzz : rd verdict :=
  parser <- getz ;; input <- getbytes ;; values <- getz ;; final <- getz ;; after <- getlist getz ;; alloc <- getz ;;
  let len := Z.of_nat (length input) in
  ret (combine_verdicts
    [ prop_ok 1 (negb (final =? 2) && forallb (fun a => negb (a =? 2)) after) [parser; values];
      prop_ok 2 (negb (final =? 3) && forallb (fun a => negb (a =? 3)) after) [parser; values; Z.of_nat (length after)];
      prop_ok 4 (negb (final =? 5) && (values <=? value_bound parser input)) [parser; values; value_bound parser input];
      prop_ok 3 (alloc <=? alloc_fixed parser + 1024 * len) [parser; alloc; len] ]).

Definition check_c16 : rd verdict := kind <- getz ;; if kind =? 1 then check_fuzz else fail.
