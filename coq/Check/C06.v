(* C06: one hit against a scripted transport. *)
From Coq Require Import ZArith List Bool.
From V Require Import Base.Wire Base.Duration Base.Str Model.Flags Model.Hit Check.C19.
Import ListNotations.
Open Scope Z_scope.
Open Scope rd_scope.

Definition getnat : rd nat := bind getz (fun z => ret (Z.to_nat z)).

Definition gettarget : rd target :=
  m <- getstr ;; u <- getstr ;; h <- gethmap ;; b <- getstr ;;
  ret {| t_method := m; t_url := u; t_header := h; t_body := b |}.
Definition getconfig : rd config :=
  n <- getstr ;; s <- getz ;; mb <- getz ;; ch <- getbool ;; rd_ <- getz ;;
  ret {| c_name := n; c_seq := s; c_maxbody := mb; c_chunked := ch; c_redirects := rd_ |}.
Definition getexchange : rd exchange :=
  hops <- getnat ;; hh <- gethmap ;; kind <- getz ;;
  if kind =? 0 then ret {| x_hops := hops; x_hop_hdr := hh; x_answer := TransportErr |} else
  st <- getz ;; txt <- getstr ;; h <- gethmap ;; b <- getstr ;; f <- getopt getnat ;;
  ret {| x_hops := hops; x_hop_hdr := hh; x_answer := Response st txt h b f |}.
Definition getrequest : rd request_seen :=
  m <- getstr ;; u <- getstr ;; h <- gethmap ;; host <- getopt getstr ;; b <- getstr ;;
  cl <- getz ;; ch <- getbool ;;
  ret {| q_method := m; q_url := u; q_header := h; q_host := host; q_body := b;
         q_content_length := cl; q_chunked := ch |}.
Definition getio : rd iolog :=
  r <- getnat ;; e <- getbool ;; c <- getnat ;; ret {| io_read := r; io_ended := e; io_closes := c |}.
Definition getresult : rd result :=
  m <- getstr ;; u <- getstr ;; code <- getz ;; h <- getopt gethmap ;; b <- getstr ;;
  bi <- getz ;; bo <- getz ;; e <- getstr ;;
  ret {| r_method := m; r_url := u; r_code := code; r_headers := h; r_body := b;
         r_bytes_in := bi; r_bytes_out := bo; r_error := e |}.

Definition hmap_eq (a b : hmap) : bool := hmap_same a b && hmap_same b a.
Definition ohmap_eq (a b : option hmap) : bool :=
  match a, b with
  | None, None => true
  | Some x, Some y => hmap_eq x y
  | None, Some y => Nat.eqb (length y) 0      (* nil vs empty header map: indistinguishable *)
  | Some x, None => Nat.eqb (length x) 0
  end.
Definition ostr_eq (a b : option (list Z)) : bool :=
  match a, b with None, None => true | Some x, Some y => str_eqb x y | _, _ => false end.
Definition nonempty (s : list Z) : bool := negb (Nat.eqb (length s) 0).

Definition captured_body (maxbody : Z) (body : list Z) : list Z :=
  if maxbody <? 0 then body else firstn (Z.to_nat maxbody) body.

(* the property, clause by clause, on the observation *)
Definition check_obs (t : target) (c : config) (x : exchange)
  (q : request_seen) (io : iolog) (r : result) : verdict :=
  let completed :=
    match redirect_policy (c_redirects c) (x_hops x) with
    | TooMany => None
    | UseFirst3xx => Some (hop_status, x_hop_hdr x, [])
    | Followed => match x_answer x with
                  | TransportErr => None
                  | Response st _ hdr body fault =>
                      match fault with
                      | Some k => if Nat.leb k (length body) then None else Some (st, hdr, body)
                      | None => Some (st, hdr, body) end
                  end
    end in
  let got_body := match redirect_policy (c_redirects c) (x_hops x), x_answer x with
                  | TooMany, _ => false | UseFirst3xx, _ => true
                  | Followed, TransportErr => false | Followed, _ => true end in
  combine_verdicts
    [ prop_ok 1 (str_eqb (r_method r) (t_method t) && str_eqb (r_url r) (t_url t)) [];
      prop_ok 2 (str_eqb (q_method q) (t_method t) && str_eqb (q_url q) (t_url t) && str_eqb (q_body q) (t_body t)) [];
      (* header keys and values verbatim, plus the two injected headers *)
      prop_ok 3 (forallb (fun '(k, vs) => str_eqb k k_seq || (str_eqb k k_attack && nonempty (c_name c)) ||
                                           strs_eqb (hlookup k (q_header q)) vs) (t_header t)) [];
      prop_ok 4 (forallb (fun '(k, _) => str_eqb k k_seq || str_eqb k k_attack ||
                                          existsb (fun '(k', _) => str_eqb k k') (t_header t)) (q_header q)) [];
      prop_ok 5 (strs_eqb (hlookup k_seq (q_header q)) [itoa (c_seq c)]) [];
      prop_ok 6 (if nonempty (c_name c) then strs_eqb (hlookup k_attack (q_header q)) [c_name c]
                 else strs_eqb (hlookup k_attack (q_header q)) (hlookup k_attack (t_header t))) [];
      prop_ok 7 (match hlookup k_host (t_header t) with
                 | (_ :: _) as v :: _ => ostr_eq (q_host q) (Some v)
                 | _ => true end) [];
      prop_ok 8 (r_bytes_in r =? Z.of_nat (length (r_body r))) [r_bytes_in r; Z.of_nat (length (r_body r))];
      match completed with
      | Some (st, hdr, body) =>
          combine_verdicts
            [ prop_ok 10 (r_code r =? st) [r_code r; st];
              prop_ok 11 (ohmap_eq (r_headers r) (Some hdr)) [];
              prop_ok 12 (str_eqb (r_body r) (captured_body (c_maxbody c) body)) [Z.of_nat (length (r_body r))];
              prop_ok 13 (r_bytes_out r =? Z.of_nat (length (t_body t))) [r_bytes_out r];
              prop_ok 14 (Bool.eqb (nonempty (r_error r)) ((st <? 200) || (400 <=? st))) [st] ]
      | None =>
          combine_verdicts
            [ prop_ok 15 (nonempty (r_error r)) [];
              prop_ok 16 (negb ((200 <=? r_code r) && (r_code r <? 400))) [r_code r] ]
      end;
      (* the body, when there is one, is read to its end and closed exactly once *)
      prop_ok 17 (if got_body then io_ended io && Nat.eqb (io_closes io) 1 else true)
              [Z.of_nat (io_closes io); Z.of_nat (io_read io)] ].

Definition check_hit : rd verdict :=
  t <- gettarget ;; c <- getconfig ;; x <- getexchange ;;
  q <- getrequest ;; io <- getio ;; r <- getresult ;;
  let '(mq, mio, mr) := hit_model t c x in
  let vdiff := combine_verdicts
    [ if str_eqb (q_method mq) (q_method q) && str_eqb (q_url mq) (q_url q) && str_eqb (q_body mq) (q_body q)
         && hmap_eq (q_header mq) (q_header q) && ostr_eq (q_host mq) (q_host q)
         && (q_content_length mq =? q_content_length q) && Bool.eqb (q_chunked mq) (q_chunked q)
      then VOk else VDiff 30 [q_content_length mq; q_content_length q];
      check_eqz 31 (r_code mr) (r_code r);
      if ohmap_eq (r_headers mr) (r_headers r) then VOk else VDiff 32 [];
      check_eql 33 (r_body mr) (r_body r);
      check_eqz 34 (r_bytes_in mr) (r_bytes_in r);
      check_eqz 35 (r_bytes_out mr) (r_bytes_out r);
      if Bool.eqb (nonempty (r_error mr)) (nonempty (r_error r)) then VOk else VDiff 36 [];
      if (Nat.eqb (io_closes mio) (io_closes io)) && Bool.eqb (io_ended mio) (io_ended io)
         && Nat.eqb (io_read mio) (io_read io)
      then VOk else VDiff 37 [Z.of_nat (io_read mio); Z.of_nat (io_read io); Z.of_nat (io_closes io)] ] in
  ret (combine_verdicts [check_obs t c x q io r; vdiff]).

(* kind 2: the results of several hits with different answers, inspected after the last hit: each
   still carries its own target's method and URL (as written), and the first max-body bytes of the
   answer it got, with bytes-in their number *)
Definition take_max (mb : Z) (b : list Z) : list Z := if mb <? 0 then b else firstn (Z.to_nat mb) b.
Definition check_multi : rd verdict :=
  mb <- getz ;;
  rows <- getlist (tm <- getstr ;; tu <- getstr ;; served <- getstr ;; sq <- getz ;; rm <- getstr ;; ru <- getstr ;;
                   code <- getz ;; body <- getstr ;; bin <- getz ;; ret (tm, tu, served, sq, (rm, ru, code, body, bin))) ;;
  ret (combine_verdicts
    [ prop_ok 1 (forallb (fun '(tm, tu, _, _, (rm, ru, _, _, _)) => str_eqb tm rm && str_eqb tu ru) rows) [];
      prop_ok 12 (forallb (fun '(_, _, served, _, (_, _, _, body, _)) => str_eqb body (take_max mb served)) rows) [mb];
      prop_ok 8 (forallb (fun '(_, _, _, _, (_, _, _, body, bin)) => bin =? Z.of_nat (length body)) rows) [mb] ]).

Definition check : rd verdict :=
  kind <- getz ;;
  if kind =? 1 then check_hit else if kind =? 2 then check_multi else fail.
