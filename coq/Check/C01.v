(* C01: pacers.  Kind 1: one ConstantPacer.Pace call; kind 2: a closed loop in virtual time. *)
From Coq Require Import ZArith List Bool.
From Coq Require Import QArith Qround.
From V Require Import Base.Wire Base.Approx Model.Pacer Model.LinearPacer Model.Trig Model.SinePacer.
Import ListNotations.
Open Scope Z_scope.
Open Scope rd_scope.

Definition getoutcome : rd outcome :=
  t <- getz ;; w <- getz ;;
  ret (if t =? 0 then Wait w else if t =? 1 then Stop else Panic).

Definition outcome_wire (o : outcome) : list Z :=
  match o with Wait w => [0; w] | Stop => [1; 0] | Panic => [2; 0] end.

Definition outcome_eqb (a b : outcome) : bool :=
  match a, b with
  | Wait x, Wait y => x =? y
  | Stop, Stop => true
  | Panic, Panic => true
  | _, _ => false
  end.

Definition in_ranges (F P t k : Z) : bool :=
  (- two64 / 2 <=? F) && (F <? two64 / 2) && (- two64 / 2 <=? P) && (P <? two64 / 2) &&
  (- two64 / 2 <=? t) && (t <? two64 / 2) && (0 <=? k) && (k <? two64).

(* the property, clause by clause, on one observed call *)
Definition check_call_obs (F P t k : Z) (o : outcome) : verdict :=
  combine_verdicts
    [ prop_ok 1 (match o with Panic => false | _ => true end) [F; P; t; k];
      (* zero frequency or unit: unlimited rate *)
      prop_ok 2 (negb ((P =? 0) || (F =? 0)) || outcome_eqb o (Wait 0)) (outcome_wire o);
      (* negative frequency or unit stops the attack *)
      prop_ok 3 (negb (negb ((P =? 0) || (F =? 0)) && ((P <? 0) || (F <? 0))) || outcome_eqb o Stop) (outcome_wire o);
      if (0 <? F) && (0 <? P) && (0 <=? t) then
        match o with
        | Wait w =>
          combine_verdicts
            [ (* releasing the hit keeps the count within one hit of the schedule *)
              prop_ok 4 (k * P <=? F * (t + Z.max w 0)) [k; t; w];
              (* a positive wait only when on or ahead of the schedule *)
              prop_ok 5 (negb (0 <? w) || (F * t <? (k + 1) * P)) [k; t; w];
              (* no wrap-around: the instant waited for is a real one *)
              prop_ok 6 ((- t <=? w) && (t + w <=? max_int64)) [k; t; w];
              (* the wait does not overshoot the schedule by more than the 1ns quantisation *)
              prop_ok 7 (negb (0 <? w) || ((t + w - 1) * F <? (k + 1) * P)) [k; t; w] ]
        | _ => VOk
        end
      else VOk ].

Definition check_call : rd verdict :=
  F <- getz ;; P <- getz ;; t <- getz ;; k <- getz ;; o <- getoutcome ;; rate <- getfl ;;
  let m := const_pace F P t k in
  let vdiff := if outcome_eqb m o then VOk else VDiff 10 (outcome_wire m ++ outcome_wire o) in
  let vrate := if P =? 0 then VOk
               else if approx_eq (F * 1000000000) P rate then VOk
               else VDiff 11 [fl_m rate; fl_e rate] in
  ret (if in_ranges F P t k then combine_verdicts [check_call_obs F P t k o; vdiff; vrate] else VBad).

(* closed loop: the harness drives the real pacer with the stall history and reports the
   release instants; count after the i-th release is i *)
Fixpoint releases_ok (F P : Z) (c : Z) (ts : list Z) : bool :=
  match ts with
  | [] => true
  | t :: tl => ((c - 1) * P <=? F * t) && releases_ok F P (c + 1) tl
  end.
(* stall-free lower bound with the statement's allowance: one hit plus one nanosecond of
   schedule per hit interval *)
Fixpoint releases_low (F P : Z) (c : Z) (ts : list Z) : bool :=
  match ts with
  | [] => true
  | t :: tl => (F * t <=? (c + 1) * P + c * F) && releases_low F P (c + 1) tl
  end.
Fixpoint nondecreasing (prev : Z) (ts : list Z) : bool :=
  match ts with [] => true | t :: tl => (prev <=? t) && nondecreasing t tl end.

Definition model_releases (F P : Z) (stalls : list Z) : list Z * outcome :=
  (fix go (t k : Z) (ss : list Z) (acc : list Z) : list Z * outcome :=
     match ss with
     | [] => (rev' acc, Wait 0)
     | s :: tl =>
         let tc := t + Z.max s 0 in
         match const_pace F P tc k with
         | Wait w => go (tc + Z.max w 0) (k + 1) tl ((tc + Z.max w 0) :: acc)
         | o => (rev' acc, o)
         end
     end) 0 0 stalls [].

Definition check_loop : rd verdict :=
  F <- getz ;; P <- getz ;; stalls <- getlist getz ;;
  rel <- getlist getz ;; fin <- getoutcome ;;
  let stallfree := forallb (fun s => s =? 0) stalls in
  let vprop :=
    if (0 <? F) && (0 <? P) then
      combine_verdicts
        [ prop_ok 20 (match fin with Panic => false | _ => true end) [];
          prop_ok 21 (releases_ok F P 1 rel) [Z.of_nat (length rel)];
          prop_ok 22 (nondecreasing 0 rel) [];
          prop_ok 23 (negb stallfree || releases_low F P 1 rel) [Z.of_nat (length rel)] ]
    else VOk in
  let '(mrel, mfin) := model_releases F P stalls in
  let vdiff := combine_verdicts
                 [ check_eql 30 mrel rel;
                   if outcome_eqb mfin fin then VOk else VDiff 31 (outcome_wire mfin ++ outcome_wire fin) ] in
  ret (combine_verdicts [vprop; vdiff]).

(* ---- linear pacer: closed loop, every call recorded ----------------------------------------- *)
Definition fl_to_q (f : fl) : Q := let '(a, b) := fl_frac f in Qred (Qmake a (Z.to_pos b)).
Definition qabs (x : Q) : Q := if Qle_bool 0%Q x then x else Qopp x.
(* float evaluation of the schedule is trusted to 2^-30 relative *)
Definition hband (e : Q) : Q := ((1 + qabs e) / inject_Z (2 ^ 30))%Q.

Definition getcall : rd (Z * Z * outcome) := tc <- getz ;; k <- getz ;; o <- getoutcome ;; ret (tc, k, o).

(* one recorded call: the property clauses and the comparison with the model, sharing the two
   evaluations of the schedule *)
Definition lin_call (F P : Z) (a : Q) (c : Z * Z * outcome) : verdict * verdict :=
  let '(tc, k, o) := c in
  let b := lin_b F P in
  let e := Qred (lin_H a b tc) in
  let vprop :=
    match o with
    | Panic => VProp 40 [tc; k]
    | Stop => VOk
    | Wait w =>
        let tr := tc + Z.max w 0 in
        let er := Qred (lin_H a b tr) in
        (* decreasing rate: the tangent step is accurate while rate^2 >= 4 |slope| delta^2
           (linear_contract_neg_partial); beyond that regime the known finding applies *)
        let r := lin_rate a b tc in
        let d := (inject_Z (k + 1) - e)%Q in
        let accurate := Qle_bool 0 a || (negb (Qle_bool r 0) && Qle_bool (4 * qabs a * (d * d)) (r * r))%Q in
        combine_verdicts
          [ (* releasing the hit keeps the count within one hit of the schedule *)
            prop_ok (if Qle_bool 0 a then 41 else if accurate then 45 else 41)
                    (Qle_bool (inject_Z (k + 1)) (er + 1 + hband er)%Q) [tc; k; w];
            (* a positive wait only when on or ahead of the schedule *)
            prop_ok 42 (negb (0 <? w) || (Qfloor (e - hband e)%Q <=? k)) [tc; k; w] ]
    end in
  let near := Qle_bool (qabs (e - inject_Z (Qfloor (e + (1 # 2))))%Q) (hband e) in
  let vdiff :=
    match lin_pace F P a tc k, o with
    | LUndef, _ => VDontCare
    | LWait mw, Wait w =>
        let d := (inject_Z (k + 1) - e)%Q in
        if Qle_bool (inject_Z (Z.abs (mw - w))) (3 + qabs d + inject_Z (Z.abs mw) / inject_Z (2 ^ 36))%Q then VOk
        else if ((mw =? 0) || (w =? 0)) && near then VDontCare
        else VDiff 50 [tc; k; mw; w]
    | LStop, Stop => VOk
    | LStop, Wait w => VDiff 52 [tc; k; w]
    | LWait mw, Stop => VDiff 53 [tc; k; mw]
    | _, Panic => VOk
    end in
  (vprop, vdiff).

Definition check_lin_loop : rd verdict :=
  F <- getz ;; P <- getz ;; slope <- getfl ;; calls <- getlist getcall ;;
  rates <- getlist (getpair getz getfl) ;;
  let a := fl_to_q slope in
  let degenerate := (P =? 0) || (F =? 0) in
  let negative := negb degenerate && ((P <? 0) || (F <? 0)) in
  let judged := if degenerate || negative then [] else map (lin_call F P a) calls in
  let vprop :=
    if degenerate then combine_verdicts (map (fun '(tc, k, o) => prop_ok 44 (outcome_eqb o (Wait 0)) [tc; k]) calls)
    else if negative then combine_verdicts (map (fun '(tc, k, o) => prop_ok 43 (outcome_eqb o Stop) [tc; k]) calls)
    else combine_verdicts (map fst judged) in
  let vdiff := combine_verdicts
    (map snd judged ++
     map (fun '(t, r) => if degenerate || negative then VOk else
            let m := lin_rate a (lin_b F P) t in
            if approx_eq_bits 30 (Qnum m) (Zpos (Qden m)) r || Qle_bool (qabs m) (1 # 1000000)%Q then VOk else VDiff 51 [t]) rates) in
  ret (combine_verdicts [vprop; vdiff]).

(* ---- sine pacer: closed loop judged against verified enclosures of the schedule ------------- *)
Definition getsine : rd sine :=
  period <- getz ;; mf <- getz ;; mp <- getz ;; af <- getz ;; ap <- getz ;; s0 <- getfl ;;
  ret {| s_period := period; s_mf := mf; s_mp := mp; s_af := af; s_ap := ap; s_start := fl_to_q s0 |}.

(* three-valued decision of  x <= y  for x exact and y enclosed *)
Definition le_itv_lo (x : Q) (y : itv) (slack : Q) (clause : Z) (detail : list Z) : verdict :=
  if Qle_bool x (fst y + slack)%Q then VOk
  else if Qle_bool x (snd y + slack)%Q then VDontCare else VProp clause detail.
Definition ge_itv (x : Q) (y : itv) (slack : Q) (clause : Z) (detail : list Z) : verdict :=
  if Qle_bool (snd y - slack)%Q x then VOk
  else if Qle_bool (fst y - slack)%Q x then VDontCare else VProp clause detail.

Definition sine_call (p : sine) (c0 amp : itv) (stallfree : bool) (c : Z * Z * outcome) : verdict :=
  let '(tc, k, o) := c in
  match o with
  | Panic => VProp 60 [tc; k]
  | Stop => VOk
  | Wait w =>
      let tr := tc + Z.max w 0 in
      let hr := sine_H_with c0 amp p tr in
      combine_verdicts
        [ (* releasing the hit keeps the count within one hit of the schedule *)
          le_itv_lo (inject_Z (k + 1)) hr 1 61 [tc; k; w];
          (* a positive wait only when on or ahead of the schedule: k >= floor H(tc) *)
          if 0 <? w then
            let hc := sine_H_with c0 amp p tc in
            if Qfloor (snd hc) <=? k then VOk else if Qfloor (fst hc) <=? k then VDontCare else VProp 62 [tc; k; w]
          else VOk;
          (* stall-free: not more than one hit, plus a nanosecond of schedule per hit interval, behind *)
          if stallfree then
            ge_itv (inject_Z (k + 1)) hr (1 + inject_Z (k + 1) * (s_mean p + s_amp p))%Q 63 [tc; k; w]
          else VOk ]
  end.

Definition check_sine_loop : rd verdict :=
  p <- getsine ;; stallfree <- getbool ;; calls <- getlist getcall ;; rates <- getlist (getpair getz getfl) ;;
  let valid := sine_valid p && Qle_bool 0 (s_amp p) in
  let near_tie := Qle_bool (qabs (s_mean p - s_amp p)) (s_mean p / inject_Z (2 ^ 40))%Q in
  if negb valid then
    ret (if near_tie then VDontCare
         else combine_verdicts (map (fun '(tc, k, o) => prop_ok 64 (outcome_eqb o Stop) [tc; k]) calls))
  else
    let c0 := sine_c0 p in
    let amp := sine_amp p in
    let vprop := combine_verdicts (map (sine_call p c0 amp stallfree) calls) in
    let vdiff := combine_verdicts
      (map (fun '(t, r) =>
              let e := sine_rate p t in                       (* hits per ns *)
              let q := (fl_to_q r / inject_Z (10 ^ 9))%Q in
              let slack := ((qabs (fst e) + qabs (snd e)) / inject_Z (2 ^ 30))%Q in
              if Qle_bool (fst e - slack)%Q q && Qle_bool q (snd e + slack)%Q then VOk else VDiff 71 [t]) rates) in
    ret (combine_verdicts [vprop; vdiff]).

Definition check : rd verdict :=
  kind <- getz ;;
  if kind =? 4 then check_sine_loop else
  if kind =? 1 then check_call
  else if kind =? 2 then check_loop
  else if kind =? 3 then check_lin_loop
  else fail.
