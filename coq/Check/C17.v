(* C17: plot rows and LTTB. *)
From Coq Require Import ZArith List Bool.
From V Require Import Base.F64 Base.Wire Model.Plot.
Import ListNotations.
Open Scope Z_scope.
Open Scope rd_scope.

Definition getpres : rd (Z * pres) :=
  a <- getz ;; s <- getz ;; t <- getz ;; l <- getz ;; e <- getbool ;;
  ret (a, {| p_seq := s; p_ts := t; p_lat := l; p_err := e |}).

(* a series as observed: attack index, label, points (x in ms, latency in ns) in row order *)
Record oseries := { os_attack : Z; os_err : bool; os_pts : list (Z * Z) }.
Definition getoseries : rd oseries :=
  a <- getz ;; e <- getbool ;; p <- getlist (getpair getz getz) ;;
  ret {| os_attack := a; os_err := e; os_pts := p |}.

Fixpoint insert_pt (p : Z * Z) (l : list (Z * Z)) : list (Z * Z) :=
  match l with
  | [] => [p]
  | q :: tl => if (fst p <? fst q) || ((fst p =? fst q) && (snd p <=? snd q)) then p :: l else q :: insert_pt p tl
  end.
Definition sort_pts (l : list (Z * Z)) : list (Z * Z) := fold_right insert_pt [] l.
Fixpoint pts_eqb (a b : list (Z * Z)) : bool :=
  match a, b with
  | [], [] => true
  | (x1, y1) :: a', (x2, y2) :: b' => (x1 =? x2) && (y1 =? y2) && pts_eqb a' b'
  | _, _ => false
  end.
Fixpoint nondecr (prev : Z) (l : list (Z * Z)) : bool :=
  match l with [] => true | (x, _) :: tl => (prev <=? x) && nondecr x tl end.

Definition series_of (rel : list point) (err : bool) : list (Z * Z) :=
  map (fun q => (snd (fst q), snd q)) (filter (fun q => Bool.eqb (fst (fst q)) err) rel).

(* subsequence test on lists sorted by (x, y): rows with equal x come out of the code's unstable
   sort in arbitrary order, so "subsequence" is judged as sub-multiset of the sorted rows *)
Fixpoint subseq (a b : list (Z * Z)) : bool :=
  match a, b with
  | [], _ => true
  | _, [] => false
  | (x1, y1) :: a', (x2, y2) :: b' => if (x1 =? x2) && (y1 =? y2) then subseq a' b' else subseq a b'
  end.
Definition mem_pt (p : Z * Z) (l : list (Z * Z)) : bool := existsb (fun q => (fst p =? fst q) && (snd p =? snd q)) l.

Fixpoint by_seq_insert (r : pres) (l : list pres) : list pres :=
  match l with [] => [r] | x :: tl => if p_seq r <=? p_seq x then r :: l else x :: by_seq_insert r tl end.

(* is the set of one attack in the property's domain: seqs 0..n-1, timestamps non-decreasing *)
Definition in_domain (rs : list pres) : bool :=
  let sorted := fold_right by_seq_insert [] rs in
  (fix go (i : Z) (prev : Z) (l : list pres) : bool :=
     match l with
     | [] => true
     | r :: tl => (p_seq r =? i) && (prev <=? p_ts r) && (0 <=? p_lat r) && go (i + 1) (p_ts r) tl
     end) 0 (match sorted with r :: _ => p_ts r | [] => 0 end) sorted.

Definition check_plot : rd verdict :=
  nattacks <- getz ;; arrivals <- getlist getpres ;; add_err <- getbool ;;
  full <- getlist getoseries ;; fullx <- getlist getz ;; th <- getz ;; down_err <- getbool ;; down <- getlist getoseries ;; downx <- getlist getz ;; cli_same <- getbool ;;
  let attacks := map Z.of_nat (seq 0 (Z.to_nat nattacks)) in
  let per := fun a => map snd (filter (fun ar => fst ar =? a) arrivals) in
  let states := map (fun a => (a, ls_adds (per a))) attacks in
  let domain := forallb (fun a => in_domain (per a)) attacks in
  let model_err := existsb (fun as_ => l_err (snd as_)) states in
  let model_series := fun a e => match find (fun as_ => fst as_ =? a) states with
                                 | Some (_, s) => series_of (l_rel s) e | None => [] end in
  let expected_series := fun a e =>
    series_of (expected_points (fold_right by_seq_insert [] (per a))) e in
  let find_obs := fun (l : list oseries) a e =>
    match find (fun o => (os_attack o =? a) && Bool.eqb (os_err o) e) l with Some o => os_pts o | None => [] end in
  let keys := flat_map (fun a => [(a, false); (a, true)]) attacks in
  let vdiff0 := combine_verdicts
    [ if Bool.eqb model_err add_err then VOk else VDiff 30 [];
      if add_err then VOk else
      if forallb (fun '(a, e) => pts_eqb (sort_pts (model_series a e)) (sort_pts (find_obs full a e))) keys
      then VOk else VDiff 31 [] ] in
  (* outside the property's domain (a timestamp going back in sequence order: x would be negative
     and wraps in the unsigned conversion, which the model does not follow) a disagreement is not
     a finding *)
  let vdiff := if domain then vdiff0 else match vdiff0 with VOk => VOk | _ => VDontCare end in
  let vprop :=
    if negb domain then VOk else
    combine_verdicts
      [ prop_ok 1 (negb add_err) [];
        prop_ok 2 (forallb (fun '(a, e) => pts_eqb (sort_pts (expected_series a e)) (sort_pts (find_obs full a e))) keys)
                [Z.of_nat (length arrivals)];
        prop_ok 3 (forallb (fun o => nondecr 0 (os_pts o)) full) [];
        (* the rows of the data block as written: sorted by x over all series *)
        prop_ok 6 (nondecr 0 (map (fun x => (x, 0)) fullx) && nondecr 0 (map (fun x => (x, 0)) downx)) [];
        prop_ok 7 cli_same [th];
        (* downsampled plot *)
        prop_ok 4 (forallb (fun '(a, e) =>
                     let f := find_obs full a e in let d := find_obs down a e in
                     let n := Z.of_nat (length f) in
                     if (n <=? th) || (th =? 0) then pts_eqb (sort_pts f) (sort_pts d) || down_err
                     else if th <? 3 then down_err
                     else let ex := expected_series a e in
                          down_err || ((Z.of_nat (length d) =? th) && subseq (sort_pts d) (sort_pts f) &&
                          match ex with x :: _ => mem_pt x d | [] => false end &&
                          mem_pt (last ex (0, 0)) d)) keys) [th];
        prop_ok 5 (negb down_err ||
                   existsb (fun '(a, e) => let n := Z.of_nat (length (find_obs full a e)) in
                                           (0 <? th) && (th <? 3) && (th <? n)) keys) [th] ] in
  ret (combine_verdicts [vprop; vdiff]).

Fixpoint strictly_incr (prev : Z) (l : list Z) : bool :=
  match l with [] => true | x :: tl => (prev <? x) && strictly_incr x tl end.

(* the same bounds as the code computes them, in binary64 (Base/F64.v): where they differ from the
   exact rational ones (about one (count, threshold) pair in a thousand) the real code is judged
   against these *)
Definition lo_bound_f (count th i : Z) : Z := ftrunc (fmul_int (i + 1) (fdiv_int (count - 2) (th - 2))) + 1.
Definition bucket_f (count th i : Z) : Z * Z :=
  if i =? 0 then (1, ftrunc (fadd1 (fdiv_int (count - 2) (th - 2)))) else (lo_bound_f count th (i - 1), lo_bound_f count th i).
Definition chunk_sizes_f (count th : Z) : list Z :=
  ftrunc (fadd1 (fdiv_int (count - 2) (th - 2)))
  :: map (fun i => lo_bound_f count th (i + 1) - lo_bound_f count th i) (map Z.of_nat (seq 0 (Z.to_nat (th - 2))))
  ++ [count - (th - 1)].

Definition check_lttb : rd verdict :=
  count <- getz ;; th <- getz ;; asked <- getlist getz ;;
  okind <- getz ;; out <- getlist getz ;;        (* 0 points, 1 error, 2 panic *)
  let vprop :=
    if (count <=? th) || (th =? 0) then
      prop_ok 10 ((okind =? 0) && list_eqb out (map Z.of_nat (seq 0 (Z.to_nat count)))) [count; th]
    else if th <? 3 then prop_ok 11 (okind =? 1) [count; th]
    else combine_verdicts
      [ prop_ok 12 (okind =? 0) [count; th; okind];
        prop_ok 13 (Z.of_nat (length out) =? th) [count; th; Z.of_nat (length out)];
        prop_ok 14 (strictly_incr (-1) out && forallb (fun x => x <? count) out) [count; th];
        prop_ok 15 ((hd (-1) out =? 0) && (last out (-1) =? count - 1)) [count; th] ] in
  let model_ok :=
    match downsample count th (fun i l h => nth (Z.to_nat (i + 1)) out (-1)) with
    | LPoints l => (okind =? 0) && list_eqb l out &&
                   (* every picked point lies in its bucket *)
                   ((count <=? th) || (th =? 0) ||
                    forallb (fun i => let '(lo, hi) := bucket count th i in
                                      let x := nth (Z.to_nat (i + 1)) out (-1) in (lo <=? x) && (x <? hi))
                            (map Z.of_nat (seq 0 (Z.to_nat (th - 2)))))
    | LErr => okind =? 1
    | LPanic => okind =? 2
    end in
  let sizes_ok := list_eqb (chunk_sizes count th) asked in
  (* with the bounds as computed in binary64: sizes asked for, and every picked point in its bucket *)
  let float_ok :=
    (3 <=? th) && (th <? count) && (okind =? 0) && list_eqb (chunk_sizes_f count th) asked &&
    (Z.of_nat (length out) =? th) &&
    forallb (fun i => let '(lo, hi) := bucket_f count th i in
                      let x := nth (Z.to_nat (i + 1)) out (-1) in (lo <=? x) && (x <? hi))
            (map Z.of_nat (seq 0 (Z.to_nat (th - 2)))) in
  let vdiff := if model_ok && sizes_ok then VOk
               else if float_ok then VOk
               else match vprop with VOk => VDiff 41 [count; th] | _ => VDiff 40 [count; th] end in
  ret (combine_verdicts [vprop; vdiff]).

Definition check : rd verdict :=
  kind <- getz ;;
  if kind =? 1 then check_plot else if kind =? 2 then check_lttb else fail.
