(* C05 / C15 observation checkers (the model side of these properties is the regenerated
   skeleton, checked in Props/; here the property is decided on recorded concurrent runs). *)
From Coq Require Import ZArith List Bool.
From V Require Import Base.Wire.
Import ListNotations.
Open Scope Z_scope.
Open Scope rd_scope.

(* one result: seq, timestamp, latency, instant the request reached the transport, time the
   transport took; all instants in ns since the attack's start as measured by the harness *)
Record hres := { h_seq : Z; h_ts : Z; h_lat : Z; h_entry : Z; h_tdur : Z }.
Definition gethres : rd hres :=
  a <- getz ;; b <- getz ;; c <- getz ;; d <- getz ;; e <- getz ;;
  ret {| h_seq := a; h_ts := b; h_lat := c; h_entry := d; h_tdur := e |}.

Fixpoint insert_by_seq (x : hres) (l : list hres) : list hres :=
  match l with
  | [] => [x]
  | y :: tl => if h_seq x <=? h_seq y then x :: l else y :: insert_by_seq x tl
  end.
Definition sort_by_seq (l : list hres) : list hres := fold_right insert_by_seq [] l.

Fixpoint ordered (prev_seq prev_ts : Z) (l : list hres) : bool :=
  match l with
  | [] => true
  | x :: tl => (h_seq x =? prev_seq + 1) && (prev_ts <=? h_ts x) && ordered (h_seq x) (h_ts x) tl
  end.

Definition check_c05 : rd verdict :=
  rs <- getlist gethres ;; refused <- getz ;;
  let sorted := sort_by_seq rs in
  ret (combine_verdicts
    [ prop_ok 1 (ordered (-1) 0 sorted) [Z.of_nat (length rs)];
      prop_ok 2 (forallb (fun r => 0 <=? h_ts r) rs) [];
      prop_ok 3 (forallb (fun r => h_ts r <=? h_entry r) rs) [];
      prop_ok 4 (forallb (fun r => (0 <=? h_lat r) && (h_tdur r <=? h_lat r)) rs) [];
      prop_ok 5 (forallb (fun r => h_entry r + h_tdur r <=? h_ts r + h_lat r) rs) [];
      prop_ok 6 (refused =? 0) [refused] ]).

(* ---- C15 ---- *)
(* stream targeter: calls by concurrent goroutines: (start stamp, end stamp, outcome):
   outcome >= 0: the id of the target delivered (consistent in all its fields), -1 exhausted,
   -2 another error, -3 a target whose fields were mixed from different targets *)
Record tcall := { c_start : Z; c_end : Z; c_out : Z }.
Definition gettcall : rd tcall :=
  a <- getz ;; b <- getz ;; c <- getz ;; ret {| c_start := a; c_end := b; c_out := c |}.

Fixpoint memz (x : Z) (l : list Z) : bool := match l with [] => false | y :: tl => (x =? y) || memz x tl end.
Fixpoint nodupz (l : list Z) : bool := match l with [] => true | x :: tl => negb (memz x tl) && nodupz tl end.

Definition check_stream : rd verdict :=
  n <- getz ;; calls <- getlist gettcall ;; raced <- getbool ;;
  let got := map c_out (filter (fun c => 0 <=? c_out c) calls) in
  let first_exhausted_end :=
    fold_left (fun acc c => if c_out c =? -1 then (match acc with None => Some (c_end c) | Some e => Some (Z.min e (c_end c)) end) else acc)
              calls None in
  ret (combine_verdicts
    [ prop_ok 15 (negb raced) [];
      prop_ok 10 (nodupz got) [Z.of_nat (length got)];
      prop_ok 11 (forallb (fun x => x <? n) got && (Z.of_nat (length got) =? n)) [Z.of_nat (length got); n];
      prop_ok 12 (forallb (fun c => negb (c_out c =? -3)) calls) [];
      prop_ok 13 (forallb (fun c => negb (c_out c =? -2)) calls) [];
      (* once some call has reported exhaustion, every call that starts later reports it too *)
      prop_ok 14 (match first_exhausted_end with
                  | None => true
                  | Some e => forallb (fun c => negb (e <? c_start c) || (c_out c =? -1)) calls end) [] ]).

Fixpoint advances (k : Z) (l : list Z) : bool :=
  match l with
  | a :: ((b :: _) as tl) => (b =? (a + 1) mod k) && advances k tl
  | _ => true
  end.

Definition check_static : rd verdict :=
  k <- getz ;; draws <- getlist getz ;; raced <- getbool ;; inorder <- getbool ;;
  let n := Z.of_nat (length draws) in
  let count := fun j => Z.of_nat (length (filter (fun d => d =? j) draws)) in
  let idxs := map Z.of_nat (seq 0 (Z.to_nat k)) in
  ret (combine_verdicts
    [ prop_ok 20 (forallb (fun d => (0 <=? d) && (d <? k)) draws) [];
      prop_ok 21 (forallb (fun j => (n / k <=? count j) && (count j <=? (n + k - 1) / k)) idxs) [n; k];
      (* strict rotation: draws made one after the other advance by one target each *)
      prop_ok 23 (negb inorder || advances k draws) [k];
      prop_ok 22 (negb raced) [] ]).

(* kind 3: the requests a real attack made while drawing from a stream targeter *)
Record areq := { a_id : Z; a_body : Z; a_xids : list Z; a_owners : list Z; a_method : bool }.
Definition getareq : rd areq :=
  i <- getz ;; b <- getz ;; x <- getlist getz ;; o <- getlist getz ;; m <- getbool ;;
  ret {| a_id := i; a_body := b; a_xids := x; a_owners := o; a_method := m |}.
Definition whole (json : bool) (q : areq) : bool :=
  a_method q && (match a_xids q with [x] => x =? a_id q | _ => false end) &&
  forallb (fun o => o =? a_id q) (a_owners q) && (negb json || (a_body q =? a_id q)).
Definition check_attack_stream : rd verdict :=
  n <- getz ;; reqs <- getlist getareq ;; json <- getbool ;; stuck <- getbool ;;
  let got := map a_id reqs in
  ret (combine_verdicts
    [ prop_ok 15 (negb stuck) [];
      prop_ok 10 (nodupz got) [Z.of_nat (length got)];
      prop_ok 11 (forallb (fun x => (0 <=? x) && (x <? n)) got && (Z.of_nat (length got) =? n)) [Z.of_nat (length got); n];
      prop_ok 12 (forallb (whole json) reqs) [] ]).

Definition check_c15 : rd verdict :=
  kind <- getz ;;
  if kind =? 1 then check_stream else if kind =? 2 then check_static else if kind =? 3 then check_attack_stream else fail.
