(* C19 - Command-line values mean what the manual says. *)
From Coq Require Import ZArith List Bool.
From V Require Import Base.Duration Base.Str Base.DurString Model.Flags Model.Pacer Proofs.FlagsProofs Proofs.DecimalProofs Proofs.DurStringProofs Proofs.SizeProofs.
Import ListNotations.
Open Scope Z_scope.

(* every accepted -rate N/D stores exactly N per D *)
Theorem rate_meaning : forall fixed cur a d freq per ix,
  ~ In 47 a -> atoi a = Some freq -> freq <> 0 -> bare_unit d = false ->
  parse_duration d = Some (per, ix) ->
  rate_set fixed cur (a ++ 47 :: d) = Some (freq, per).
Proof. exact rate_meaning_lemma. Qed.
Print Assumptions rate_meaning.
(* D defaults to one second *)
Theorem rate_default_unit : forall fixed cur a freq,
  ~ In 47 a -> a <> s_infinity -> atoi a = Some freq -> freq <> 0 ->
  rate_set fixed cur a = Some (freq, 1000000000).
Proof. exact rate_default_unit_lemma. Qed.
(* a bare unit means one of it *)
Theorem rate_bare_unit : forall fixed cur a u freq per ix,
  ~ In 47 a -> atoi a = Some freq -> freq <> 0 -> bare_unit u = true ->
  parse_duration (49 :: u) = Some (per, ix) ->
  rate_set fixed cur (a ++ 47 :: u) = Some (freq, per).
Proof. exact rate_bare_unit_lemma. Qed.
Theorem rate_bare_unit_values :
  map (fun u => option_map fst (parse_duration (49 :: u)))
      [[110; 115]; [117; 115]; [194; 181; 115]; [109; 115]; [115]; [109]; [104]] =
  map Some [1; 1000; 1000; 1000000; 1000000000; 60000000000; 3600000000000].
Proof. exact bare_units_values. Qed.

(* 0 and infinity both mean an unlimited rate and demand -max-workers *)
Theorem rate_zero_unlimited : forall fixed cur a od,
  ~ In 47 a -> atoi a = Some 0 ->
  let v := match od with Some d => a ++ 47 :: d | None => a end in
  v <> s_infinity ->
  rate_set fixed cur v = Some (0, snd cur) /\ unlimited_guard (0, snd cur) = true /\
  forall t k, const_pace 0 (snd cur) t k = Wait 0.
Proof. exact rate_zero_lemma. Qed.
Print Assumptions rate_zero_unlimited.
Theorem rate_infinity_unlimited : forall cur,
  rate_set true cur s_infinity = Some (0, snd cur) /\ unlimited_guard (0, snd cur) = true /\
  forall t k, const_pace 0 (snd cur) t k = Wait 0.
Proof. exact rate_infinity_lemma. Qed.
(* the pinned rateFlag.Set left the default 50/1s in place for "infinity" *)
Theorem rate_infinity_unlimited_refuted :
  rate_set false (50, 1000000000) s_infinity = Some (50, 1000000000) /\
  unlimited_guard (50, 1000000000) = false.
Proof. exact rate_infinity_pinned_refuted. Qed.

Theorem rate_rejects_malformed : forall fixed cur v,
  v <> s_infinity -> atoi (fst (splitn2 47 v [])) = None -> rate_set fixed cur v = None.
Proof. exact rate_rejects_lemma. Qed.
Theorem rate_rejects_malformed_duration : forall fixed cur a d freq,
  ~ In 47 a -> atoi a = Some freq -> freq <> 0 -> bare_unit d = false -> parse_duration d = None ->
  rate_set fixed cur (a ++ 47 :: d) = None.
Proof. exact rate_rejects_bad_duration. Qed.

(* print/parse, relative to the two library laws it depends on (assumed, sampled by T1) *)
Theorem rate_print_parse_assuming_library_laws : forall (dstr : Z -> list Z),
  (forall d, 0 < d < two63 -> parse_duration (dstr d) = Some (d, false) /\ bare_unit (dstr d) = false) ->
  (forall n, - two63 <= n < two63 -> atoi (itoa n) = Some n /\ ~ In 47 (itoa n)) ->
  forall fixed cur freq per, - two63 <= freq < two63 -> freq <> 0 -> 0 < per < two63 ->
  rate_set fixed cur (itoa freq ++ 47 :: dstr per) = Some (freq, per).
Proof. exact rate_print_parse_lemma. Qed.
Print Assumptions rate_print_parse_assuming_library_laws.

(* the integer law is proved (DecimalProofs): only the printing of durations (time.Duration.String,
   library code) remains a hypothesis *)
Theorem rate_print_parse : forall (dstr : Z -> list Z),
  (forall d, 0 < d < two63 -> parse_duration (dstr d) = Some (d, false) /\ bare_unit (dstr d) = false) ->
  forall fixed cur freq per, - two63 <= freq < two63 -> freq <> 0 -> 0 < per < two63 ->
  rate_set fixed cur (itoa freq ++ 47 :: dstr per) = Some (freq, per).
Proof.
  intros dstr Hd. apply (rate_print_parse_lemma dstr Hd).
  intros n Hn. split; [apply atoi_itoa_lemma | apply itoa_no_slash]; exact Hn.
Qed.
Print Assumptions rate_print_parse.

(* the printing of durations as well (Base/DurString.v, a model of time.Duration.String compared
   with the printed form of every rate on each run): Duration.String followed by ParseDuration is
   the identity on positive durations, so the printed form of every rate parses back to it *)
Theorem duration_string_parses : forall d, 0 < d < two63 ->
  parse_duration (dur_string d) = Some (d, false) /\ bare_unit (dur_string d) = false.
Proof. exact dur_string_parses_lemma. Qed.
Print Assumptions duration_string_parses.
Theorem rate_print_parse_closed : forall fixed cur freq per,
  - two63 <= freq < two63 -> freq <> 0 -> 0 < per < two63 ->
  rate_set fixed cur (itoa freq ++ 47 :: dur_string per) = Some (freq, per).
Proof. exact (rate_print_parse dur_string duration_string_parses). Qed.
Print Assumptions rate_print_parse_closed.

(* repeated -header flags accumulate in order, keys byte-for-byte (case preserved) *)
Theorem headers_set_wellformed : forall h k v pad1 pad2,
  ~ In 58 k -> clean k -> clean v ->
  trim_space (k ++ pad1) = k -> trim_space (pad2 ++ v) = v -> ~ In 58 pad1 ->
  headers_set h (k ++ pad1 ++ 58 :: pad2 ++ v) = Some (happend k v h).
Proof. exact headers_set_line. Qed.
Theorem headers_accumulate : forall (pairs : list (list Z * list Z)) h k',
  hlookup k' (fold_left (fun h p => happend (fst p) (snd p) h) pairs h) =
  hlookup k' h ++ map snd (filter (fun p => str_eqb (fst p) k') pairs).
Proof. exact headers_accumulate_lemma. Qed.
Print Assumptions headers_accumulate.

(* -connect-to src:port:dst:port builds the mapping, repeated sources accumulate (same map type) *)
Theorem connect_to_map : forall m p0 p1 p2 p3,
  ~ In 58 p0 -> ~ In 58 p1 -> ~ In 58 p2 -> ~ In 58 p3 ->
  valid_host_port p0 p1 = true -> valid_host_port p2 p3 = true ->
  connect_to_set m (p0 ++ 58 :: p1 ++ 58 :: p2 ++ 58 :: p3) =
  Some (happend (p0 ++ 58 :: p1) (p2 ++ 58 :: p3) m).
Proof. exact connect_to_map_lemma. Qed.
Theorem connect_to_rejects_wrong_arity : forall m s,
  length (split_on 58 s []) <> 4%nat -> connect_to_set m s = None.
Proof. exact connect_to_rejects. Qed.

Theorem resolver_addrs_default_port : forall a,
  ~ In 58 a -> is_ipv4 a = true -> has_bracket a = false ->
  normalize_addr a = Some (a ++ [58; 53; 51]).
Proof. exact resolver_default_port_lemma. Qed.
Print Assumptions resolver_addrs_default_port.

(* -max-body: -1, and "<n><blanks><unit>" means n of the unit - for every n, every documented unit
   spelling in any letter case (b, kb/kilo/kilobyte(s), mb, ..., eb; the shift is 10 per step) and
   any blanks between them, as long as the product fits the flag's int64 *)
Theorem maxbody_minus_one : maxbody_set [45; 49] = Some (-1).
Proof. exact maxbody_minus1. Qed.
Theorem maxbody_notation : forall n pad u sh,
  0 <= n -> unit_shift (map to_lower u) = Some sh -> bits_unit u = false ->
  nodig_head (pad ++ u) -> trim_space (pad ++ u) = u -> 0 <= sh -> n * 2 ^ sh < two63 ->
  maxbody_set (udec n ++ pad ++ u) = Some (n * 2 ^ sh).
Proof. exact maxbody_notation_lemma. Qed.
Print Assumptions maxbody_notation.
Example maxbody_notation_applies :   (* "28 KiloBytes": n = 28, pad = " ", u = "KiloBytes", shift 10 *)
  let u := ascii [75; 105; 108; 111; 66; 121; 116; 101; 115]%nat in
  unit_shift (map to_lower u) = Some 10 /\ bits_unit u = false /\ nodig_head ([32] ++ u) /\
  trim_space ([32] ++ u) = u /\ 28 * 2 ^ 10 < two63 /\
  maxbody_set (udec 28 ++ [32] ++ u) = Some 28672.
Proof. repeat split; reflexivity. Qed.

(* -dns-ttl: -1 (caching off), 0 (cache forever) and every duration as Go prints it *)
Theorem dnsttl_meaning :
  dnsttl_set [45; 49] = Some (-1) /\ dnsttl_set [48] = Some 0 /\
  forall d, 0 < d < two63 -> dnsttl_set (dur_string d) = Some d.
Proof. exact dnsttl_meaning_lemma. Qed.
Print Assumptions dnsttl_meaning.

(* -max-body: -1 and the documented notations (README.md:350-362), -dns-ttl: -1, 0, durations *)
Example maxbody_values :
  maxbody_set [45; 49] = Some (-1) /\
  maxbody_set (ascii [49; 48; 32; 77; 66]%nat) = Some (10 * 2 ^ 20) /\               (* "10 MB" *)
  maxbody_set (ascii [49; 48; 50; 52; 48; 32; 103]%nat) = Some (10 * 2 ^ 40) /\        (* "10240 g" *)
  maxbody_set (ascii [50; 48; 48; 48]%nat) = Some 2000 /\                              (* "2000" *)
  maxbody_set (ascii [49; 116; 66]%nat) = Some (2 ^ 40) /\                             (* "1tB" *)
  maxbody_set (ascii [53; 32; 112; 101; 116; 97]%nat) = Some (5 * 2 ^ 50) /\           (* "5 peta" *)
  maxbody_set (ascii [50; 56; 32; 107; 105; 108; 111; 98; 121; 116; 101; 115]%nat) = Some (28 * 2 ^ 10) /\
  maxbody_set (ascii [49; 32; 103; 105; 103; 97; 98; 121; 116; 101]%nat) = Some (2 ^ 30).
Proof. repeat split; reflexivity. Qed.
Example dnsttl_values :
  dnsttl_set [45; 49] = Some (-1) /\ dnsttl_set [48] = Some 0 /\
  dnsttl_set [53; 115] = Some 5000000000 /\ dnsttl_set [120] = None.
Proof. repeat split; reflexivity. Qed.
Example rate_example :
  rate_set true (50, 1000000000) [49; 48; 48; 47; 109; 115] = Some (100, 1000000) /\    (* 100/ms *)
  rate_set true (50, 1000000000) [53; 47; 50; 115] = Some (5, 2000000000) /\           (* 5/2s *)
  rate_set true (50, 1000000000) [120] = None.
Proof. repeat split; reflexivity. Qed.
