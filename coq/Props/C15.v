(* C15 - Targeters hand out each target exactly once under concurrent use. *)
From Coq Require Import ZArith List Bool.
From V Require Import Model.Skel Proofs.SkelProofs Gen.Skel.
Import ListNotations.
Open Scope Z_scope.

(* Soundness of the lockset checker, for every skeleton, any number of concurrent callers and
   every interleaving: no state is reachable in which two callers are about to perform
   conflicting non-atomic accesses to a variable the body writes. *)
Theorem lockset_sound : forall p, lockset_ok p = true ->
  forall n sched s, crun p (cinit n) sched = Some s ->
  forall v, In v (written_vars p) -> ~ race_on p s v.
Proof. exact lockset_sound_lemma. Qed.
Print Assumptions lockset_sound.

(* two callers never hold the same mutex: each call's locked accesses form one atomic block *)
Theorem sections_exclusive : forall p n sched s, wb [] p = true -> crun p (cinit n) sched = Some s ->
  forall t1 t2 pc1 pc2 m, nth_error (pcs s) t1 = Some pc1 -> nth_error (pcs s) t2 = Some pc2 ->
  memz m (held_at p pc1) = true -> memz m (held_at p pc2) = true -> t1 = t2.
Proof. exact mutex_exclusive. Qed.
Print Assumptions sections_exclusive.

(* proof obligations on the skeletons REGENERATED from the current source of the three
   targeter closures *)
Theorem json_targeter_safe : json_targeter_skel_found = true /\ lockset_ok json_targeter_skel = true.
Proof. split; vm_compute; reflexivity. Qed.
Theorem http_targeter_safe : http_targeter_skel_found = true /\ lockset_ok http_targeter_skel = true.
Proof. split; vm_compute; reflexivity. Qed.
Theorem static_targeter_safe : static_targeter_skel_found = true /\ lockset_ok static_targeter_skel = true /\
  existsb (fun a => match a with AAtomic _ => true | _ => false end) static_targeter_skel = true.
Proof. repeat split; vm_compute; reflexivity. Qed.

(* strict rotation of a fetch-and-add counter: the n-th draw (n = 1, 2, ...) of k targets
   takes index n mod k, so after n draws every target was used floor(n/k) or ceil(n/k) times *)
Definition draws (k n : nat) : list nat := map (fun i => Nat.modulo i k) (seq 0 n).
Theorem static_rotation_index : forall k n i, (i < n)%nat -> nth i (draws k n) 0%nat = Nat.modulo i k.
Proof.
  intros k n i H. unfold draws. rewrite (nth_indep _ 0%nat (Nat.modulo 0 k)) by (now rewrite map_length, seq_length).
  change (Nat.modulo 0 k) with ((fun j => Nat.modulo j k) 0%nat). rewrite map_nth, seq_nth by exact H. reflexivity.
Qed.
Print Assumptions static_rotation_index.

Example c15_example :
  lockset_ok [ALock 1; AWrite 2; AUnlock 1; ARead 3] = true /\
  lockset_ok [AWrite 2; ALock 1; AUnlock 1] = false /\
  lockset_ok [ALock 1; ARead 2; AUnlock 1; AWrite 2] = false.
Proof. repeat split. Qed.
