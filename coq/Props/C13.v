(* C13 - Reports over several files equal the report over their union. *)
From Coq Require Import ZArith List Bool Permutation.
From V Require Import Model.RoundRobin Model.Metrics Proofs.RoundRobinProofs Proofs.MetricsProofs.
Import ListNotations.

(* For every non-empty list of inputs of arbitrary lengths, draining the combined decoder
   terminates with end-of-stream after exactly (sum of lengths) records, the produced
   sequence is a permutation of all records, and the records of each input appear in that
   input's own order. *)
Theorem rr_exactly_once : forall (A : Type) (ins : list (list A)), ins <> [] ->
  exists out, rr_all ins = Some out /\
    Permutation (map snd out) (concat ins) /\
    (forall i, from_origin i out = nth i ins []) /\
    length out = total ins.
Proof. intros A. exact rr_exactly_once_lemma. Qed.
Print Assumptions rr_exactly_once.

(* the end is signalled exactly when every input is exhausted (and then on every later call) *)
Theorem rr_end_only_when_all_exhausted : forall (A : Type) seq (ds : list (list A)), ds <> [] ->
  (fst (fst (rr_call seq ds)) = Eof <-> forall i, nth i ds [] = []).
Proof. intros A. exact rr_eof_iff. Qed.
Print Assumptions rr_end_only_when_all_exhausted.

(* with no decoder at all a call never reports the end (unreachable: decoder(files) always
   has at least one file) *)
Theorem rr_zero_decoders_never_eof : forall (A : Type) seq,
  rr_call seq ([] : list (list A)) = (NoDecoders, seq, []).
Proof. intros A. exact rr_zero_decoders. Qed.

(* consequently the exactly computed metrics do not depend on how the set is split *)
Theorem report_split_invariant : forall (ins : list (list result)), ins <> [] ->
  no_overflow (concat ins) ->
  exists out, rr_all ins = Some out /\
    report_same (close (fold_left add (map snd out) init)) (close (fold_left add (concat ins) init)).
Proof.
  intros ins Hne Hno. destruct (rr_exactly_once_lemma ins Hne) as (out & H1 & H2 & _).
  exists out. split; [exact H1|].
  apply metrics_perm_lemma; [exact H2|].
  apply (no_overflow_perm _ _ (Permutation_sym H2) Hno).
Qed.
Print Assumptions report_split_invariant.

Example rr_example :
  option_map (map snd) (rr_all [[1; 2; 3]; [4]; [5; 6]]) = Some [1; 4; 5; 2; 6; 3].
Proof. reflexivity. Qed.
