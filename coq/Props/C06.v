(* C06 - Each result faithfully describes its HTTP exchange. *)
From Coq Require Import ZArith List Bool.
From V Require Import Base.Duration Base.Str Model.Flags Model.Hit Proofs.HitProofs.
Import ListNotations.
Open Scope Z_scope.

(* For every target, configuration and exchange: the request that reaches the transport is
   [build_request]; the result carries the target's method and URL; bytes-in equals the
   length of the captured body - on every path, including failures. *)
Theorem hit_always_clauses : forall t c x,
  let '(q, io, r) := hit_model t c x in
  q = build_request t c /\ r_method r = t_method t /\ r_url r = t_url t /\
  r_bytes_in r = Z.of_nat (length (r_body r)).
Proof. exact hit_always. Qed.
Print Assumptions hit_always_clauses.

(* the request: method, URL, body; every target header under its original key (letter case
   kept) with its values; the sequence header equals the result's sequence number; the
   attack header is the attack name iff a name is set; a Host header sets the request host *)
Theorem request_clauses : forall t c,
  let q := build_request t c in
  (q_method q = t_method t /\ q_url q = t_url t /\ q_body q = t_body t /\
   q_content_length q = Z.of_nat (length (t_body t)) /\ q_chunked q = c_chunked c) /\
  (forall k, k <> k_attack -> k <> k_seq -> hlookup k (q_header q) = hlookup k (t_header t)) /\
  hlookup k_seq (q_header q) = [itoa (c_seq c)] /\
  hlookup k_attack (q_header q) = match c_name c with [] => hlookup k_attack (t_header t) | n => [n] end /\
  q_host q = match hlookup k_host (t_header t) with (_ :: _) as v :: _ => Some v | _ => None end.
Proof.
  intros t c. split; [exact (request_basic t c)|]. split; [exact (request_headers_preserved t c)|].
  split; [exact (request_seq_header t c)|]. split; [exact (request_attack_header t c) | exact (request_host t c)].
Qed.
Print Assumptions request_clauses.

(* an exchange that completed: status, headers, the first max-body bytes of the body (all of
   it when unlimited), byte counts, error text empty exactly for a status in [200,400);
   the body was read to its end and closed once *)
Theorem hit_completed_clauses : forall t c x st txt hdr body,
  is_completed c x = Some (st, txt, hdr, body) ->
  let '(_, io, r) := hit_model t c x in
  r_code r = st /\ r_headers r = Some hdr /\ r_body r = captured_spec (c_maxbody c) body /\
  r_bytes_in r = Z.of_nat (length (r_body r)) /\ r_bytes_out r = Z.of_nat (length (t_body t)) /\
  (r_error r = if (st <? 200) || (400 <=? st) then txt else []) /\
  io_read io = length body /\ io_ended io = true /\ io_closes io = 1%nat.
Proof. exact hit_completed. Qed.
Print Assumptions hit_completed_clauses.

Theorem captured_is_prefix : forall maxbody body,
  exists rest, body = captured_spec maxbody body ++ rest /\
    (maxbody < 0 -> rest = []) /\
    (0 <= maxbody -> length (captured_spec maxbody body) = Nat.min (Z.to_nat maxbody) (length body)).
Proof. exact captured_spec_prefix. Qed.

(* an exchange that failed (transport error, redirect limit, body read error): non-empty
   error, never a success status; if a body was obtained it was read up to the error and
   closed exactly once *)
Theorem hit_failed_clauses : forall t c x,
  is_completed c x = None ->
  let '(_, io, r) := hit_model t c x in
  r_error r <> [] /\ ~ (200 <= r_code r < 400) /\ r_headers r = None /\
  r_bytes_in r = Z.of_nat (length (r_body r)) /\
  (io_closes io = 0%nat \/ (io_ended io = true /\ io_closes io = 1%nat /\
                            r_bytes_out r = Z.of_nat (length (t_body t)))).
Proof. exact hit_failed. Qed.
Print Assumptions hit_failed_clauses.

(* the pinned code left BytesIn = 0 with a captured partial body *)
Theorem bytes_in_on_read_fault_refuted :
  exists captured : list Z, captured <> [] /\ pinned_read_fault_bytes_in <> Z.of_nat (length captured).
Proof. exact bytes_in_on_read_fault_refuted_lemma. Qed.

Example hit_example :
  let t := {| t_method := [71; 69; 84]; t_url := [104]; t_header := [([104; 111; 115; 116], [[97]])]; t_body := [1; 2; 3] |} in
  let c := {| c_name := [110]; c_seq := 7; c_maxbody := 2; c_chunked := false; c_redirects := 10 |} in
  let x := {| x_hops := 0; x_hop_hdr := []; x_answer := Response 404 [52; 48; 52] [] [9; 8; 7; 6] (Some 3%nat) |} in
  let '(q, io, r) := hit_model t c x in
  r_body r = [9; 8] /\ r_bytes_in r = 2 /\ r_bytes_out r = 3 /\ r_code r = 0 /\ io_read io = 3%nat /\
  hlookup k_seq (q_header q) = [[55]] /\ q_host q = None.
Proof. repeat split. Qed.
