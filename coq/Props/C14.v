(* C14 - Target files decode to exactly the targets they describe, independently. *)
From Coq Require Import ZArith List Bool Lia.
From V Require Import Base.Duration Base.Str Base.Base64 Model.Flags Model.Json Model.Targets Model.JsonTarget Proofs.TargetsProofs Proofs.JsonProofs Proofs.JsonTargetProofs.
Import ListNotations.
Open Scope Z_scope.

(* JSON format: a well-formed line yields the described target with the defaults merged as
   documented: default headers first, then the target's own values; the default body only
   when the target has none *)
Theorem json_defaults_merge : forall dbody dhdr t rest m u,
  t_method t = m -> t_url t = u -> m <> [] -> u <> [] ->
  json_next dbody dhdr ({| j_blank := false; j_terminated := true; j_mean := JObj t |} :: rest) =
  (TOk {| t_method := m; t_url := u;
          t_body := match t_body t with [] => dbody | b => b end;
          t_header := hmerge (hmerge [] dhdr) (t_header t) |}, rest).
Proof.
  intros dbody dhdr t rest m u <- <- Hm Hu. cbn.
  destruct (t_method t); [congruence|]. destruct (t_url t); [congruence|]. reflexivity.
Qed.
Print Assumptions json_defaults_merge.

(* JSON format, from the bytes.  A target written with the JSON target encoder (Model/JsonTarget.v:
   the generated easyjson writer - method, url, then body and header only when non-empty, base64
   body, header object of string arrays) reads back, through the JSON reader of Model/Json.v, as
   the very same target - for every target whose texts are byte strings, whose body is bytes and
   whose header keys are distinct (a Go map). *)
Theorem json_target_roundtrip : forall t, jt_dom t -> jt_decode_line (jt_line t) = Some t.
Proof. exact jt_roundtrip_lemma. Qed.
Print Assumptions json_target_roundtrip.
Theorem json_encoder_writes_lines : forall t, jt_dom t -> jt_encode t = jt_line t ++ [10] /\ ~ In 10 (jt_line t).
Proof. intros t D. split; [apply jt_encode_line, (td_body t D) | apply jt_line_no10, D]. Qed.

(* ... and a stream of such targets read by the JSON targeter yields exactly those targets, in
   order, with the defaults merged as documented, and then exhaustion *)
Theorem json_targets_stream : forall db dh ts,
  Forall jt_dom ts -> Forall (fun t => t_method t <> [] /\ t_url t <> []) ts ->
  json_calls db dh (S (length ts)) (jlines_of (flat_map jt_encode ts)) =
  map (fun t => TOk (merged db dh t)) ts ++ [TNoTargets].
Proof. exact json_targets_stream_lemma. Qed.
Print Assumptions json_targets_stream.

Example json_target_nontrivial :
  let t := {| t_method := [80;79;83;84]; t_url := [104;116;116;112;58;47;47;97;47];
              t_body := [104;105;10;34]; t_header := [([88;45;65], [[49]; [97;32;34;113;34]]); ([89], [])] |} in
  jt_dom t /\ t_method t <> [] /\ t_url t <> [] /\
  json_calls [100] [([88;45;65], [[100]])] 2 (jlines_of (jt_encode t)) =
  [ TOk {| t_method := [80;79;83;84]; t_url := [104;116;116;112;58;47;47;97;47]; t_body := [104;105;10;34];
           t_header := [([88;45;65], [[100]; [49]; [97;32;34;113;34]])] |}; TNoTargets ].
Proof.
  cbv zeta. split; [|split; [discriminate | split; [discriminate | vm_compute; reflexivity]]].
  constructor; cbn [t_method t_url t_body t_header].
  - repeat constructor; unfold jbyte; lia.
  - repeat constructor; unfold jbyte; lia.
  - reflexivity.
  - split.
    + repeat constructor; unfold jbyte; cbn [fst snd]; lia.
    + repeat constructor; cbn; intros H; repeat (destruct H as [H|H]; [discriminate|]); exact H.
Qed.

(* HTTP format.  Lines are classified by what strings.TrimSpace leaves of them (so every
   indentation and spacing is covered): blank, comment ('#...'), request line ("METHOD URL"),
   header line ("key: value", not starting with '#' or '@'), body line ("@path" of an existing
   file).  [file_lines ls ts]: ls is a well-formed file describing the targets ts - before each
   request line any blank and comment lines; after it any comment lines; then either nothing
   (the next line is blank, a request line or the end) or a block of header lines with comment
   lines anywhere between them, ended by a blank line, the end of the file or the body line.
   For every such file, every default body and header set and every file system: the targeter
   returns exactly the described targets (defaults first, then the target's own header values;
   the default body only when the target has none), in order, and then reports exhaustion. *)
Theorem http_decodes_described : forall fs db dh ts ls, file_lines fs db dh ls ts ->
  forall s, inv s -> lines_of s = ls ->
  http_calls true fs db dh (S (length ts)) s = map TOk ts ++ [TNoTargets].
Proof. intros fs db dh ts. exact (http_decodes_lemma fs db dh ts). Qed.
Print Assumptions http_decodes_described.

(* ... in particular from the bytes of the file (bufio.ScanLines) *)
Theorem http_decodes_described_bytes : forall fs db dh ts src, file_lines fs db dh (scan_lines src) ts ->
  http_calls true fs db dh (S (length ts)) (psc_of src) = map TOk ts ++ [TNoTargets].
Proof.
  intros fs db dh ts src H. apply (http_decodes_lemma fs db dh ts (scan_lines src) H).
  - intros X. cbn in X. congruence.
  - reflexivity.
Qed.

(* the hypotheses are satisfiable: a file with a leading comment, a comment between request line
   and headers, two headers (one key repeated in the defaults), a blank line, and a target with a
   body file *)
Example file_lines_nontrivial :
  let fs := [([102], [98;111;100;121])] in          (* "f" -> "body" *)
  let dh := [([88;45;65], [[100]])] in              (* X-A: d *)
  let src := [35;32;99;10;  71;69;84;32;104;116;116;112;58;47;47;97;47;10;  32;35;109;10;  88;45;65;58;32;49;10;  89;58;50;10;  10;
     80;79;83;84;32;104;116;116;112;58;47;47;98;47;10;  64;102;10] in
  (* "# c\nGET http://a/\n #m\nX-A: 1\nY:2\n\nPOST http://b/\n@f\n" *)
  http_calls true fs [] dh 3 (psc_of src) =
  [ TOk {| t_method := [71;69;84]; t_url := [104;116;116;112;58;47;47;97;47]; t_body := [];
           t_header := [([88;45;65], [[100]; [49]]); ([89], [[50]])] |};
    TOk {| t_method := [80;79;83;84]; t_url := [104;116;116;112;58;47;47;98;47]; t_body := [98;111;100;121];
           t_header := dh |};
    TNoTargets ].
Proof. vm_compute. reflexivity. Qed.

Example file_lines_satisfiable :
  (* "# c" / "GET /a" / " X: 1" / "" *)
  file_lines [] [] [] [[35;32;99]; [71;69;84;32;47;97]; [32;88;58;32;49]; []]
    [ {| t_method := [71;69;84]; t_url := [47;97]; t_body := []; t_header := [([88], [[49]])] |} ].
Proof.
  apply (fl_block [] [] [] [[35;32;99]] [71;69;84;32;47;97] [71;69;84] [47;97] [] [[32;88;58;32;49]] [[]] [([88], [[49]])] [] [] []).
  - constructor; [right; exists [32;99]; reflexivity | constructor].
  - unfold request. repeat split; try reflexivity. cbn. intros [H|[H|[H|H]]]; try discriminate; exact H.
  - constructor.
  - eapply hb_hdr; [|apply hb_nil]. exists 88, [58;32;49], [88], [32;49]. repeat split; try reflexivity; discriminate.
  - apply be_blank. reflexivity.
  - cbn. repeat split; try reflexivity; discriminate.
  - apply fl_end. constructor.
Qed.

(* the pinned peeking code (comments not skipped after a request line) breaks the statement *)
Theorem comment_after_request_refuted :
  let src := [71;69;84;32;47;97;10; 35;99;10; 71;69;84;32;47;98;10] in     (* "GET /a\n#c\nGET /b\n" *)
  http_calls false [] [] [] 3 (psc_of src) <> http_calls true [] [] [] 3 (psc_of src).
Proof. vm_compute. discriminate. Qed.

Example http_example_readme :
  let src := [71;69;84;32;104;116;116;112;58;47;47;97;47;10;35;32;99;10;71;69;84;32;104;116;116;112;58;47;47;98;47;10] in
  (* "GET http://a/\n# c\nGET http://b/\n" *)
  map (fun r => match r with TOk t => t_url t | _ => [] end) (http_calls true [] [] [] 3 (psc_of src))
  = [[104;116;116;112;58;47;47;97;47]; [104;116;116;112;58;47;47;98;47]; []].
Proof. reflexivity. Qed.
