(* C14 - Target files decode to exactly the targets they describe, independently. *)
From Coq Require Import ZArith List Bool.
From V Require Import Base.Duration Base.Str Model.Flags Model.Targets.
Import ListNotations.
Open Scope Z_scope.

(* JSON format: a well-formed line yields the described target with the defaults merged as
   documented: default headers first, then the target's own values; the default body only
   when the target has none *)
Theorem json_defaults_merge : forall dbody dhdr t rest m u,
  t_method t = m -> t_url t = u -> m <> [] -> u <> [] ->
  json_next dbody dhdr ({| j_blank := false; j_terminated := true; j_mean := JObj t |} :: rest) =
  (TOk {| t_method := m; t_url := u;
          t_body := match t_body t with [] => dbody | b => b end;
          t_header := hmerge (hmerge [] dhdr) (t_header t) |}, rest).
Proof.
  intros dbody dhdr t rest m u <- <- Hm Hu. cbn.
  destruct (t_method t); [congruence|]. destruct (t_url t); [congruence|]. reflexivity.
Qed.
Print Assumptions json_defaults_merge.

Example http_example_readme :
  let src := [71;69;84;32;104;116;116;112;58;47;47;97;47;10;35;32;99;10;71;69;84;32;104;116;116;112;58;47;47;98;47;10] in
  (* "GET http://a/\n# c\nGET http://b/\n" *)
  map (fun r => match r with TOk t => t_url t | _ => [] end) (http_calls true [] [] [] 3 (psc_of src))
  = [[104;116;116;112;58;47;47;97;47]; [104;116;116;112;58;47;47;98;47]; []].
Proof. reflexivity. Qed.
