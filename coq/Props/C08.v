(* C08 - Format auto-detection and transcoding never lose, duplicate or alter results. *)
From Coq Require Import ZArith List Bool.
From V Require Import Model.DecoderFor Proofs.FramingProofs.
Import ListNotations.

(* For every list of trial decoders, whatever each of them pulls from its reader (read-ahead of
   gob/csv/bufio, chunk sizes of the source) and for every state of the tee buffer: the reader
   handed to the chosen decoder yields exactly the bytes of the original stream (nothing lost,
   nothing twice), the chosen decoder is the first one that accepts the stream, and none is
   returned iff none accepts. *)
Theorem decoder_for_replays : forall ts idx buf rest,
  match decoder_for ts idx buf rest with
  | Some (i, content) => content = buf ++ rest /\ first_accepting ts idx (buf ++ rest) = Some i
  | None => first_accepting ts idx (buf ++ rest) = None
  end.
Proof. exact decoder_for_replays_lemma. Qed.
Print Assumptions decoder_for_replays.

Theorem decoder_for_first_success : forall ts s,
  match decoder_for ts 0 [] s with
  | Some (i, content) => content = s /\ first_accepting ts 0 s = Some i
  | None => first_accepting ts 0 s = None
  end.
Proof. intros ts s. exact (decoder_for_replays_lemma ts 0%nat [] s). Qed.
Print Assumptions decoder_for_first_success.

(* the replay is what makes it true: the variant that hands over only the unread rest differs *)
Theorem noreplay_differs : exists ts s, decoder_for_noreplay ts 0 [] s <> decoder_for ts 0 [] s.
Proof. exact noreplay_loses. Qed.

(* transcoding chains: if every codec of a family round-trips up to an equivalence that each
   encoder respects, every chain of them does *)
Section Chain.
  Variables (R : Type) (eqv : list R -> list R -> Prop) (F : Type).
  Variables (enc : F -> list R -> list Z) (dec : F -> list Z -> option (list R)).
  Hypothesis eqv_trans : forall a b c, eqv a b -> eqv b c -> eqv a c.
  Hypothesis roundtrip : forall f rs, exists rs', dec f (enc f rs) = Some rs' /\ eqv rs rs'.

  Fixpoint chain (fs : list F) (rs : list R) : option (list R) :=
    match fs with
    | [] => Some rs
    | f :: tl => match dec f (enc f rs) with Some rs' => chain tl rs' | None => None end
    end.

  Theorem transcode_chain : forall fs rs, exists rs', chain fs rs = Some rs' /\ (fs = [] /\ rs' = rs \/ eqv rs rs').
  Proof.
    induction fs as [|f tl IH]; intros rs; cbn [chain].
    - exists rs. split; [reflexivity | left; split; reflexivity].
    - destruct (roundtrip f rs) as (r1 & E & Q). rewrite E. destruct (IH r1) as (r2 & E2 & [[-> ->]|Q2]).
      + exists r1. split; [reflexivity | right; exact Q].
      + exists r2. split; [exact E2 | right; eapply eqv_trans; eassumption].
  Qed.
End Chain.
Print Assumptions transcode_chain.

Example decoder_for_nontrivial :
  decoder_for [ {| pulls := fun _ => 4096%nat; accepts := fun _ => false |};
                {| pulls := fun s => length s; accepts := fun s => Nat.ltb 2 (length s) |} ] 0 [] [1; 2; 3; 4]%Z
  = Some (1%nat, [1; 2; 3; 4]%Z).
Proof. reflexivity. Qed.
