(* C09 - A truncated result stream decodes to a clean prefix. *)
From Coq Require Import ZArith List Bool Arith.
From V Require Import Model.Csv Model.ResultCodec Proofs.FramingProofs Model.Json Proofs.JsonProofs Proofs.ResultCodecProofs Proofs.MimeProofs Proofs.CutProofs Base.Base64.
Import ListNotations.
Open Scope Z_scope.

(* gob: length-prefixed messages.  For every sequence of payloads and every cut strictly inside
   the next frame (k = 0: the cut is at a frame boundary): reading yields exactly the complete
   frames before the cut, and the partial flag (io.ErrUnexpectedEOF rather than a record) is set
   iff bytes of a torn frame follow. *)
Theorem frames_cut_prefix : forall ps p k, Forall payload_ok ps -> payload_ok p -> (k < length (frame p))%nat ->
  read_frames (S (S (length ps))) (concat (map frame ps) ++ firstn k (frame p)) = (ps, negb (Nat.eqb k 0)).
Proof. exact frames_cut_prefix_lemma. Qed.
Print Assumptions frames_cut_prefix.

(* JSON: newline framing.  The complete lines before the cut, and a torn tail flagged, for every
   newline-free tail *)
Theorem lines_cut_prefix : forall ls p, Forall (fun l => ~ In 10 l) ls -> ~ In 10 p ->
  read_lines (enc_lines ls ++ p) [] = (ls, negb (Nat.eqb (length p) 0)).
Proof. exact read_lines_complete. Qed.
Print Assumptions lines_cut_prefix.

(* and every byte offset of an encoded stream has that shape: some complete lines, then a
   newline-free piece of the next one *)
Theorem every_cut_has_that_shape : forall ls, Forall (fun l => ~ In 10 l) ls -> forall k,
  exists j p, firstn k (enc_lines ls) = enc_lines (firstn j ls) ++ p /\ ~ In 10 p /\
              (j <= length ls)%nat /\ (length (enc_lines (firstn j ls)) <= k \/ p = [])%nat.
Proof. exact prefix_shape. Qed.
Print Assumptions every_cut_has_that_shape.

(* the JSON encoder writes exactly one line per result: its text contains no raw line break, so the
   only byte 10 is the terminator and lines_cut_prefix applies to every JSON result stream *)
Theorem json_no_raw_newline : forall r, jres_dom r ->
  json_encode r = json_line r ++ [10] /\ ~ In 10 (json_line r).
Proof.
  intros r D. split; [apply json_encode_line, (jd_body r D)|].
  unfold json_line. apply no10_cons; [discriminate|]. apply members_no10; [exact D | apply no10_cons; [discriminate | intros []]].
Qed.
Print Assumptions json_no_raw_newline.

(* End to end on the codec models.  JSON: a stream of results (any results in the domain of the JSON
   codec) cut at ANY byte offset k decodes to exactly the results whose lines were written completely
   within the first k bytes - j of them, the (j+1)-th line being incomplete - and to nothing else. *)
Theorem json_cut_decodes_written : forall rs, Forall jres_dom rs -> forall k,
  exists j rs', (j <= length rs)%nat /\
    (length (flat_map json_encode (firstn j rs)) <= k)%nat /\
    (j < length rs -> k < length (flat_map json_encode (firstn (S j) rs)))%nat /\
    json_decode_all (firstn k (flat_map json_encode rs)) = Some rs' /\
    Forall2 (fun a b => cres_equal a b = true) (firstn j rs) rs'.
Proof. exact json_cut_decodes_written_lemma. Qed.
Print Assumptions json_cut_decodes_written.

(* CSV: a cut at a record boundary leaves the encoding of the first j records, which decodes to them *)
Theorem csv_cut_at_boundary : forall rs j,
  Forall cres_dom rs -> Forall (fun r => headers_dom (c_headers r)) rs -> Forall texts_ok rs ->
  exists rs', csv_decode_all (firstn (length (flat_map csv_encode (firstn j rs))) (flat_map csv_encode rs)) = Some rs' /\
              Forall2 (fun a b => cres_equal a b = true) (firstn j rs) rs'.
Proof. exact csv_cut_at_boundary_lemma. Qed.
Print Assumptions csv_cut_at_boundary.

Example frames_cut_nontrivial :
  read_frames 5 (concat (map frame [[1; 2; 3]; [4]]) ++ firstn 2 (frame [9; 9; 9])) = ([[1; 2; 3]; [4]], true).
Proof. reflexivity. Qed.
