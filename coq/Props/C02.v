(* C02 - Every started hit yields exactly one result and the attack ends cleanly.
   All statements quantify over every label sequence accepted by [step], i.e. every
   interleaving of pacer answers, clock advances, targeter outcomes, response completions,
   consumption and Stop calls, of any length, for every configuration with maxw >= 1. *)
From Coq Require Import ZArith List Bool.
From V Require Import Model.AttackLTS Model.StopRace Proofs.AttackProofs Model.Accept Proofs.AcceptProofs Gen.Skel.
Import ListNotations.
Open Scope Z_scope.

(* the sequence numbers held by workers together with the delivered ones are exactly
   0..seq-1, pairwise distinct; nothing is delivered for a hit that never started, and
   nothing is delivered twice *)
Theorem seqs_exact : forall c s, reachable c s ->
  NoDup (held s) /\ (forall x, In x (held s) <-> 0 <= x < seq s) /\
  (forall x, In x (delivered s) -> 0 <= x < seq s) /\ NoDup (delivered s).
Proof. exact seqs_exact_lemma. Qed.
Print Assumptions seqs_exact.

(* once the results channel is closed every worker has returned, nobody is left sending, and
   the delivered sequence numbers are exactly 0..seq-1, each once *)
Theorem close_after_all : forall c s, wf_cfg c -> reachable c s -> results_closed s = true ->
  all_done s /\ Z.of_nat (done s) = nworkers s /\
  NoDup (delivered s) /\ (forall x, In x (delivered s) <-> 0 <= x < seq s).
Proof. exact close_after_all_lemma. Qed.
Print Assumptions close_after_all.

(* both channels are closed at most once in any run *)
Theorem close_at_most_once : forall c ls s', run c (init c) ls = Some s' ->
  (length (filter is_close_results ls) <= 1)%nat /\ (length (filter is_close_ticks ls) <= 1)%nat.
Proof. intros c ls s' H. exact (close_once_lemma c ls (init c) s' H). Qed.
Print Assumptions close_at_most_once.

(* ends cleanly: in the epilogue (after pacer stop / duration / targeter failure / Stop) the
   system is final or a step other than the clock, the pacer or a Stop caller is enabled -
   given responses that complete and a consumer that keeps receiving *)
Theorem ends_cleanly_progress : forall c s, wf_cfg c -> reachable c s -> epilogue (pc s) = true ->
  pc s = LExited \/ exists l s', internal_or_response l = true /\ step c s l = Some s'.
Proof. exact epilogue_progress_lemma. Qed.
Print Assumptions ends_cleanly_progress.
(* ... every such step decreases a natural-number measure and stays in the epilogue without
   releasing another tick, so the epilogue terminates *)
Theorem ends_cleanly_terminates : forall c s l s', epilogue (pc s) = true -> internal_or_response l = true ->
  step c s l = Some s' -> (mu s' < mu s)%nat /\ epilogue (pc s') = true /\ count s' = count s.
Proof.
  intros c s l s' E I H. split; [exact (epilogue_measure_lemma c s l s' E I H)|].
  destruct (epilogue_closed_lemma c s l s' E H) as (A & B & _). split; assumption.
Qed.
Print Assumptions ends_cleanly_terminates.
(* ... and in the final state no goroutine of the attack is left *)
Theorem ends_cleanly_final : forall c s, wf_cfg c -> reachable c s -> pc s = LExited ->
  all_done s /\ Z.of_nat (done s) = nworkers s /\ results_closed s = true /\ ticks_closed s = true.
Proof. exact exited_final_lemma. Qed.
Print Assumptions ends_cleanly_final.

(* among all Stop calls (external callers, the worker whose targeter failed, the epilogue)
   at most one reports that it initiated the stop, exactly one once the attack has stopped *)
Theorem stop_exactly_one : forall c s, reachable c s ->
  stop_true s <= 1 /\ (stopped s = true -> stop_true s = 1) /\ (stopped s = false -> stop_true s = 0).
Proof. exact stop_exactly_one_lemma. Qed.
Print Assumptions stop_exactly_one.
Theorem stop_exactly_one_when_ended : forall c ls s, run c (init c) ls = Some s -> pc s = LExited -> stop_true s = 1.
Proof.
  intros c ls s H P. assert (reachable c s) as R by (exists ls; exact H).
  destruct (stop_exactly_one_lemma c s R) as (_ & A & _). apply A.
  eapply exited_stopped; [exact H | exact P | discriminate].
Qed.
Print Assumptions stop_exactly_one_when_ended.

(* the body of Stop as an interleaving of n concurrent callers: with the once-guarded flag
   exactly one caller returns true under every schedule ... *)
Theorem stop_once_flag_exactly_one : forall n is s, sched fixed_step (start_state n) is = Some s ->
  (trues s <= 1)%nat /\ (is <> [] -> trues s = 1%nat).
Proof. exact fixed_exactly_one_lemma. Qed.
Print Assumptions stop_once_flag_exactly_one.
(* proof obligation on the CURRENT source of Attacker.Stop (classified by the translator): the
   returned flag is set inside the sync.Once body only and no channel test decides it *)
Theorem stop_has_once_flag_shape : stop_shape = 1.
Proof. vm_compute. reflexivity. Qed.
(* ... whereas the pinned select/default shape lets two callers both return true *)
Theorem stop_exactly_one_refuted :
  exists is s, sched pinned_step (start_state 2) is = Some s /\ all_returned s = true /\ trues s = 2%nat.
Proof. exact pinned_two_true_lemma. Qed.

Example c02_example :
  let c := {| maxw := 2; initw := 1; du := 0; fails := [] |} in
  option_map (fun s => (rev (delivered s), results_closed s, stop_true s))
    (run c (init c) [CallPace; Pace 0 false; Wake; Sel1Tick; AssignSeq; TargeterOk 0; CallPace; Pace 5 false; Advance 5; Wake;
                     Sel1Default; Sel2Tick; AssignSeq; TargeterOk 1; Complete 1; Consume 1; CallPace; Pace 0 true;
                     CloseTicks; WorkerExit; Complete 0; Consume 0; WorkerExit; WgDone; CloseResults; FinalStop])
  = Some ([1; 0], true, 1).
Proof. reflexivity. Qed.

(* The tie to the code: the harness drives real attacks and the acceptance procedure (Model/Accept.v)
   keeps the model states compatible with what was observed.  Every state it keeps is reachable in
   the LTS - so every statement above about reachable states holds of the model states that
   explain a real run. *)
Theorem accepted_states_reachable : forall c steps out,
  drive c steps [init c] 0 = inr out -> forall s, In s out -> reachable c s.
Proof. exact accepted_reachable_lemma. Qed.
Print Assumptions accepted_states_reachable.
