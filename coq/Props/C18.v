(* C18 - Connections spread over all resolved and mapped addresses, race-free. *)
From Coq Require Import ZArith List Bool.
From V Require Import Model.Skel Proofs.SkelProofs Gen.Skel.
Import ListNotations.
Open Scope Z_scope.

(* proof obligations on the skeletons REGENERATED from the current source of the dial closures
   installed by DNSCaching and ConnectTo and of the custom resolver's address rotation: every
   variable they write is guarded by one mutex or accessed atomically; by lockset_sound
   (Props/C15.v) no interleaving of any number of concurrent dials reaches a conflicting pair
   of accesses *)
Theorem dns_caching_dial_lockset : dns_caching_skel_found = true /\ lockset_ok dns_caching_skel = true.
Proof. split; vm_compute; reflexivity. Qed.
Theorem connect_to_dial_lockset : connect_to_skel_found = true /\ lockset_ok connect_to_skel = true /\
  existsb (fun a => match a with AAtomic _ => true | _ => false end) connect_to_skel = true.
Proof. repeat split; vm_compute; reflexivity. Qed.
Theorem resolver_rotation_atomic : resolver_address_skel_found = true /\ lockset_ok resolver_address_skel = true /\
  existsb (fun a => match a with AAtomic _ => true | _ => false end) resolver_address_skel = true.
Proof. repeat split; vm_compute; reflexivity. Qed.

Theorem dial_lockset_sound : forall p, lockset_ok p = true ->
  forall n sched s, crun p (cinit n) sched = Some s ->
  forall v, In v (written_vars p) -> ~ race_on p s v.
Proof. exact lockset_sound_lemma. Qed.
Print Assumptions dial_lockset_sound.

From Coq Require Import Arith Permutation.
From V Require Import Model.Dial Proofs.DialProofs.

(* each dial attempts at most two addresses, all of them resolved ones, at most one per IP
   family and one for every family present in the resolved set *)
Theorem dial_targets_resolved : forall ips,
  incl (first_of_each ips) ips /\ (length (first_of_each ips) <= 2)%nat /\
  NoDup (map snd (first_of_each ips)) /\
  forall fam, (exists a, In a ips /\ snd a = fam) -> exists b, In b (first_of_each ips) /\ snd b = fam.
Proof.
  intros ips. split; [apply first_of_each_incl|]. split; [apply first_of_each_len|].
  apply first_of_each_families.
Qed.
Print Assumptions dial_targets_resolved.

(* dialling never alters the cached address set (the dial works on a copy) ... *)
Theorem cache_preserved : forall cache shuffled, snd (dial_fixed cache shuffled) = cache.
Proof. exact dial_fixed_preserves. Qed.
(* ... so every resolved address keeps being possible: some shuffle dials it *)
Theorem every_address_possible : forall cache a, In a cache ->
  exists shuffled, Permutation cache shuffled /\ In a (first_of_each shuffled).
Proof. exact every_address_possible_lemma. Qed.
Print Assumptions every_address_possible.
(* the pinned dial shuffled and compacted the cache's own array: refuted *)
Theorem cache_collapse_refuted : exists shuffled, ~ Permutation (snd (dial_pinned shuffled)) shuffled.
Proof. exact cache_collapse_refuted_lemma. Qed.

(* rotation by an atomic counter (ConnectTo replacements, custom resolver addresses): in any
   window of n = q*k + r consecutive dials each of the k addresses is used q or q+1 times *)
Theorem connect_to_rotation : forall k, (0 < k)%nat -> forall q r a j, (r < k)%nat -> (j < k)%nat ->
  (q <= count_occ Nat.eq_dec (rot_draws k a (q * k + r)) j <= q + 1)%nat.
Proof. exact rotation_even_lemma. Qed.
Print Assumptions connect_to_rotation.

Example c18_example :
  first_of_each [(1, true); (2, true); (3, false); (4, false)]%Z = [(1, true); (3, false)]%Z /\
  rot_draws 3 1 7 = [1; 2; 0; 1; 2; 0; 1]%nat.
Proof. split; reflexivity. Qed.
