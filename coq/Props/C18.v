(* C18 - Connections spread over all resolved and mapped addresses, race-free. *)
From Coq Require Import ZArith List Bool.
From V Require Import Model.Skel Proofs.SkelProofs Gen.Skel.
Import ListNotations.
Open Scope Z_scope.

(* proof obligations on the skeletons REGENERATED from the current source of the dial closures
   installed by DNSCaching and ConnectTo and of the custom resolver's address rotation: every
   variable they write is guarded by one mutex or accessed atomically; by lockset_sound
   (Props/C15.v) no interleaving of any number of concurrent dials reaches a conflicting pair
   of accesses *)
Theorem dns_caching_dial_lockset : dns_caching_skel_found = true /\ lockset_ok dns_caching_skel = true.
Proof. split; vm_compute; reflexivity. Qed.
Theorem connect_to_dial_lockset : connect_to_skel_found = true /\ lockset_ok connect_to_skel = true /\
  existsb (fun a => match a with AAtomic _ => true | _ => false end) connect_to_skel = true.
Proof. repeat split; vm_compute; reflexivity. Qed.
Theorem resolver_rotation_atomic : resolver_address_skel_found = true /\ lockset_ok resolver_address_skel = true /\
  existsb (fun a => match a with AAtomic _ => true | _ => false end) resolver_address_skel = true.
Proof. repeat split; vm_compute; reflexivity. Qed.

Theorem dial_lockset_sound : forall p, lockset_ok p = true ->
  forall n sched s, crun p (cinit n) sched = Some s ->
  forall v, In v (written_vars p) -> ~ race_on p s v.
Proof. exact lockset_sound_lemma. Qed.
Print Assumptions dial_lockset_sound.
