(* C17 - The plot shows every result exactly once, whatever the arrival order. *)
From Coq Require Import ZArith List Bool Permutation Sorting.Sorted.
From V Require Import Base.F64 Model.Plot Proofs.PlotProofs Proofs.F64Proofs.
Import ListNotations.
Open Scope Z_scope.

(* For every attack's result set with sequence numbers 0..n-1 and timestamps that do not
   decrease with the sequence number (C05), presented in ANY arrival order: the released points
   are exactly one per result, in sequence order, at x = floor((ts - ts_0) / 1ms), y = its
   latency, labelled OK / ERROR; no monotonicity error occurs and nothing stays buffered. *)
Theorem plot_one_point_each : forall sorted r0 order,
  wf_sorted sorted -> nth_error sorted 0 = Some r0 -> Permutation order sorted ->
  l_rel (ls_adds order) = expected_points sorted /\ l_err (ls_adds order) = false /\ l_buf (ls_adds order) = [].
Proof. intros sorted r0 order W H. exact (reorder_lemma sorted r0 W H order). Qed.
Print Assumptions plot_one_point_each.

(* the data rows are the points sorted by x (as a permutation: nothing lost, nothing twice) *)
Theorem rows_sorted : forall ps,
  Permutation (rows ps) ps /\ Sorted (fun a b => snd (fst a) <= snd (fst b)) (rows ps).
Proof. intros ps. split; [apply rows_perm | apply rows_sorted_lemma]. Qed.
Print Assumptions rows_sorted.

(* LTTB: unchanged at or below the threshold or with threshold 0 *)
Theorem lttb_identity : forall count th pick, 0 <= count -> (count <= th \/ th = 0) ->
  downsample count th pick = LPoints (map Z.of_nat (seq 0 (Z.to_nat count))).
Proof. exact lttb_identity_lemma. Qed.
(* a longer series with threshold 1 or 2 is rejected *)
Theorem lttb_rejects_1_2 : forall count th pick, 0 < th < 3 -> th < count -> downsample count th pick = LErr.
Proof. exact lttb_rejects_lemma. Qed.
(* otherwise, whatever point the area criterion picks in each bucket: exactly threshold
   points, strictly increasing indices (a subsequence), first and last point included.  Bucket
   bounds are the exact rational ones; see lttb_buckets_b64_partial in DESIGN for float64. *)
Theorem lttb_structure : forall count th pick, 3 <= th < count -> pick_ok pick ->
  exists l, downsample count th pick = LPoints l /\
    Z.of_nat (length l) = th /\ StronglySorted Z.lt l /\
    hd 0 l = 0 /\ last l 0 = count - 1 /\ Forall (fun x => 0 <= x < count) l.
Proof. exact lttb_structure_lemma. Qed.
Print Assumptions lttb_structure.
(* every current bucket is non-empty (no index out of range in the sampling step) *)
Theorem lttb_buckets_exact : forall count th i, 3 <= th < count -> 0 <= i <= th - 3 ->
  let '(l, h) := bucket count th i in 1 <= l /\ l < h /\ h <= count - 1.
Proof. exact bucket_nonempty. Qed.
Print Assumptions lttb_buckets_exact.

Example c17_example :
  let r := fun s t l e => {| p_seq := s; p_ts := t; p_lat := l; p_err := e |} in
  l_rel (ls_adds [r 2 5000000 7 false; r 0 1000000 9 false; r 1 3000000 8 true]) =
  [(false, 0, 9); (true, 2, 8); (false, 4, 7)] /\
  downsample 10 4 (fun _ l _ => l) = LPoints [0; 1; 5; 9].
Proof. split; reflexivity. Qed.


(* The reference model of binary64 rounding used to judge the real code where float and exact
   rational bucket bounds differ (Base/F64.v): for every positive num and den, rn53 returns a
   53-bit mantissa m and an exponent e with | num/den - m 2^e | <= 2^e / 2 (round to nearest). *)
Theorem f64_rounding_nearest : forall num den, 0 < num -> 0 < den ->
  let '(m, e) := rn53 num den in two52 <= m < two53 /\ near num den m e.
Proof. exact rn53_spec. Qed.
Print Assumptions f64_rounding_nearest.
Example f64_example : rn53 15 11 = (6141272219141585, -52) /\ ftrunc (fmul_int 11 (fdiv_int 15 11)) = 14 /\ (11 * 15) / 11 = 15.
Proof. repeat split; vm_compute; reflexivity. Qed.
