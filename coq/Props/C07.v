(* C07 - Result codecs round-trip every result and follow the documented layout. *)
From Coq Require Import ZArith List Bool.
From V Require Import Base.Duration Base.Str Base.Base64 Model.Csv Model.ResultCodec
  Proofs.Base64Proofs Proofs.DecimalProofs Proofs.CsvProofs.
Import ListNotations.
Open Scope Z_scope.

(* bodies and header blocks: base64 (StdEncoding, padded) round-trips every byte string *)
Theorem b64_roundtrip : forall bs, forallb is_byte bs = true -> b64_decode (b64_encode bs) = Some bs.
Proof. exact b64_roundtrip_lemma. Qed.
Print Assumptions b64_roundtrip.

(* numeric columns: FormatInt / ParseInt over the whole int64 range *)
Theorem dec_roundtrip : forall n, - two63 <= n < two63 -> atoi (itoa n) = Some n.
Proof. exact atoi_itoa_lemma. Qed.
Print Assumptions dec_roundtrip.

(* RFC 4180 reading of what the writer wrote recovers every record sequence - ALL field
   contents (quotes, commas, newlines, blanks, CR LF) *)
Theorem rfc_csv_roundtrip : forall rs, Forall (fun r => r <> []) rs ->
  forall fuel, (length rs < fuel)%nat -> rfc_records fuel (concat (map write_record rs)) = Some rs.
Proof. exact rfc_roundtrip_lemma. Qed.
Print Assumptions rfc_csv_roundtrip.

(* Go's encoding/csv reader (which normalises CR LF to LF, also inside quoted fields) recovers
   every record sequence whose fields contain no CR LF pair *)
Theorem csv_fields_roundtrip : forall rs, Forall (fun r => r <> []) rs ->
  Forall (Forall (fun f => has_crlf f = false)) rs ->
  go_csv_records (concat (map write_record rs)) = Some rs.
Proof. exact csv_fields_roundtrip_lemma. Qed.
Print Assumptions csv_fields_roundtrip.

(* ... and the restriction is needed: the full statement of C07 for CSV is false on the faithful
   model; the witness (error text "a\r\nb") replayed on the implementation is the known finding
   C07-csv-crlf *)
Theorem csv_crlf_refuted : exists rs, Forall (fun r => r <> []) rs /\
  go_csv_records (concat (map write_record rs)) <> Some rs.
Proof. exact csv_crlf_refuted_lemma. Qed.
Print Assumptions csv_crlf_refuted.

(* the twelve documented columns, in the documented order and units (encode.go usage text) *)
Theorem csv_columns_documented : forall r,
  csv_fields r =
  [ itoa (c_ts r)       (* 1  unix timestamp in ns since epoch *);
    itoa (c_code r)     (* 2  HTTP status code *);
    itoa (c_lat r)      (* 3  request latency in ns *);
    itoa (c_bout r)     (* 4  bytes out *);
    itoa (c_bin r)      (* 5  bytes in *);
    c_error r           (* 6  error *);
    b64_encode (opt_bytes (c_body r))   (* 7  base64 encoded response body *);
    c_attack r          (* 8  attack name *);
    itoa (c_seq r)      (* 9  sequence number of request *);
    c_method r          (* 10 method *);
    c_url r             (* 11 URL *);
    b64_encode (header_bytes (c_headers r)) (* 12 base64 encoded response headers *) ].
Proof. reflexivity. Qed.

Example csv_roundtrip_nontrivial :
  go_csv_records (concat (map write_record [[ [97; 34; 44; 10; 32]; []; [32; 98] ]; [[]; [34]] ])) =
  Some [[ [97; 34; 44; 10; 32]; []; [32; 98] ]; [[]; [34]] ].
Proof. vm_compute. reflexivity. Qed.
