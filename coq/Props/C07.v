(* C07 - Result codecs round-trip every result and follow the documented layout. *)
From Coq Require Import ZArith List Bool.
From V Require Import Base.Duration Base.Str Base.Base64 Model.Csv Model.ResultCodec
  Proofs.Base64Proofs Proofs.DecimalProofs Proofs.CsvProofs Proofs.ResultCodecProofs Proofs.MimeProofs Model.Flags Model.Json Proofs.JsonProofs.
Import ListNotations.
Open Scope Z_scope.

(* bodies and header blocks: base64 (StdEncoding, padded) round-trips every byte string *)
Theorem b64_roundtrip : forall bs, forallb is_byte bs = true -> b64_decode (b64_encode bs) = Some bs.
Proof. exact b64_roundtrip_lemma. Qed.
Print Assumptions b64_roundtrip.

(* numeric columns: FormatInt / ParseInt over the whole int64 range *)
Theorem dec_roundtrip : forall n, - two63 <= n < two63 -> atoi (itoa n) = Some n.
Proof. exact atoi_itoa_lemma. Qed.
Print Assumptions dec_roundtrip.

(* RFC 4180 reading of what the writer wrote recovers every record sequence - ALL field
   contents (quotes, commas, newlines, blanks, CR LF) *)
Theorem rfc_csv_roundtrip : forall rs, Forall (fun r => r <> []) rs ->
  forall fuel, (length rs < fuel)%nat -> rfc_records fuel (concat (map write_record rs)) = Some rs.
Proof. exact rfc_roundtrip_lemma. Qed.
Print Assumptions rfc_csv_roundtrip.

(* Go's encoding/csv reader (which normalises CR LF to LF, also inside quoted fields) recovers
   every record sequence whose fields contain no CR LF pair *)
Theorem csv_fields_roundtrip : forall rs, Forall (fun r => r <> []) rs ->
  Forall (Forall (fun f => has_crlf f = false)) rs ->
  go_csv_records (concat (map write_record rs)) = Some rs.
Proof. exact csv_fields_roundtrip_lemma. Qed.
Print Assumptions csv_fields_roundtrip.

(* ... and the restriction is needed: the full statement of C07 for CSV is false on the faithful
   model; the witness (error text "a\r\nb") replayed on the implementation is the known finding
   C07-csv-crlf *)
Theorem csv_crlf_refuted : exists rs, Forall (fun r => r <> []) rs /\
  go_csv_records (concat (map write_record rs)) <> Some rs.
Proof. exact csv_crlf_refuted_lemma. Qed.
Print Assumptions csv_crlf_refuted.

(* the twelve documented columns, in the documented order and units (encode.go usage text) *)
Theorem csv_columns_documented : forall r,
  csv_fields r =
  [ itoa (c_ts r)       (* 1  unix timestamp in ns since epoch *);
    itoa (c_code r)     (* 2  HTTP status code *);
    itoa (c_lat r)      (* 3  request latency in ns *);
    itoa (c_bout r)     (* 4  bytes out *);
    itoa (c_bin r)      (* 5  bytes in *);
    c_error r           (* 6  error *);
    b64_encode (opt_bytes (c_body r))   (* 7  base64 encoded response body *);
    c_attack r          (* 8  attack name *);
    itoa (c_seq r)      (* 9  sequence number of request *);
    c_method r          (* 10 method *);
    c_url r             (* 11 URL *);
    b64_encode (header_bytes (c_headers r)) (* 12 base64 encoded response headers *) ].
Proof. reflexivity. Qed.

(* a whole result through the CSV codec: for every result in the representable domain (int64
   timestamp/latency, 16-bit code, 64-bit counters, byte-valued body and header block), whose
   header block net/textproto reads back (reference model, sampled by the tie), decoding the
   twelve columns gives a result equal in the sense of Result.Equal *)
Theorem csv_record_roundtrip : forall r, cres_dom r -> hdr_roundtrips (c_headers r) ->
  exists r', csv_decode_fields (csv_fields r) = Some r' /\ cres_equal r r' = true.
Proof. exact csv_record_roundtrip_lemma. Qed.
Print Assumptions csv_record_roundtrip.

(* ... and every stream of such results whose texts contain no CR LF pair decodes to an equal
   sequence followed by end-of-stream (csv_decode_all returns exactly as many records) *)
Theorem csv_stream_roundtrip : forall rs,
  Forall cres_dom rs -> Forall (fun r => hdr_roundtrips (c_headers r)) rs -> Forall texts_ok rs ->
  exists rs', csv_decode_all (flat_map csv_encode rs) = Some rs' /\ Forall2 (fun a b => cres_equal a b = true) rs rs'.
Proof. exact csv_stream_roundtrip_lemma. Qed.
Print Assumptions csv_stream_roundtrip.

(* the header block: textproto-style reading of what http.Header.Write wrote gives the same map
   back, for canonical, pairwise distinct keys with at least one value each and values without
   line breaks or blanks at either end (what net/http yields) *)
Theorem mime_roundtrip : forall m, hdr_dom m ->
  mime_read (mime_write m) = Some (sort_hmap m) /\ headers_equal (Some m) (Some (sort_hmap m)) = true.
Proof. exact mime_roundtrip_lemma. Qed.
Print Assumptions mime_roundtrip.

(* ... so the CSV stream theorem needs no hypothesis beyond the domain *)
Theorem csv_stream_roundtrip_in_domain : forall rs,
  Forall cres_dom rs -> Forall (fun r => headers_dom (c_headers r)) rs -> Forall texts_ok rs ->
  exists rs', csv_decode_all (flat_map csv_encode rs) = Some rs' /\ Forall2 (fun a b => cres_equal a b = true) rs rs'.
Proof. exact csv_stream_roundtrip_full. Qed.
Print Assumptions csv_stream_roundtrip_in_domain.

Example csv_record_hypotheses_satisfiable :
  let r := {| c_attack := [97;34;44]; c_seq := 18446744073709551615; c_code := 200; c_ts := 1600000000123456789; c_zone := 0;
              c_lat := -5; c_bout := 0; c_bin := 7; c_error := [10;32]; c_body := Some [0;255;10;13];
              c_method := [71;69;84]; c_url := [104;116;116;112;58;47;47;120;47];
              c_headers := Some [([67;111;110;116;101;110;116;45;84;121;112;101], [[116;101;120;116]]); ([88;45;65], [[49]; [50]])] |} in
  hdr_roundtrips (c_headers r) /\ texts_ok r /\
  option_map (cres_equal r) (csv_decode_fields (csv_fields r)) = Some true.
Proof.
  cbv zeta. split; [|split; [repeat split|]]; try (vm_compute; reflexivity).
  eexists. split; vm_compute; reflexivity.
Qed.

(* JSON: the string escaping table (control bytes, quotes, backslash, <, >, &, U+2028/9 as \\u
   escapes) read back by the JSON reader gives every byte string back ... *)
Theorem json_string_roundtrip : forall s rest, Forall jbyte s ->
  json_unescape (S (length (json_escape s))) (json_escape s ++ 34 :: rest) [] = Some (s, rest).
Proof. exact json_string_roundtrip_lemma. Qed.
Print Assumptions json_string_roundtrip.

(* ... and RFC 3339 timestamps with nanoseconds and any whole-minute zone offset parse back to the
   same instant and zone, for every local date from 1970 to 2199 (the calendar conversion is
   swept over all 84000 days, the rest is arithmetic) *)
Theorem rfc3339_roundtrip : forall ts zone, zone_ok zone ->
  0 <= ts + zone * 1000000000 < 84000 * 86400 * 1000000000 ->
  parse_rfc3339 (rfc3339 ts zone) = Some (ts, zone).
Proof. exact rfc3339_roundtrip_lemma. Qed.
Print Assumptions rfc3339_roundtrip.

(* JSON, whole streams: for every sequence of results in the representable domain (byte-valued
   texts - every valid UTF-8 text is one; 64-bit counters, int64 latency, 16-bit code; local
   dates 1970..2199 with nanoseconds and a whole-minute zone; byte-valued body; header maps with
   distinct keys) the JSON encoder's output - fixed key order, string escaping, RFC 3339
   timestamps, base64 bodies, null for absent body/headers - decodes with the independently
   written reader of the documented layout to an equal sequence, then end-of-stream *)
Theorem json_stream_roundtrip : forall rs, Forall jres_dom rs ->
  exists rs', json_decode_all (flat_map json_encode rs) = Some rs' /\ Forall2 (fun a b => cres_equal a b = true) rs rs'.
Proof. exact json_stream_roundtrip_lemma. Qed.
Print Assumptions json_stream_roundtrip.

Theorem json_record_roundtrip : forall r, jres_dom r ->
  exists r', json_decode_line (json_line r) = Some r' /\ cres_equal r r' = true.
Proof. exact json_record_roundtrip_lemma. Qed.

Example json_domain_satisfiable :
  let r := {| c_attack := [97;34;10;226;128;168]; c_seq := 18446744073709551615; c_code := 200; c_ts := 1600000000123456789; c_zone := -19800;
              c_lat := -5; c_bout := 0; c_bin := 7; c_error := [60;62;38;92]; c_body := Some [0;255;10;13];
              c_method := [71;69;84]; c_url := [104;116;116;112;58;47;47;120;47];
              c_headers := Some [([67;45;84], [[116]]); ([88;45;65], [[49]; [50]])] |} in
  option_map (cres_equal r) (json_decode_line (json_line r)) = Some true.
Proof. vm_compute. reflexivity. Qed.

Example csv_roundtrip_nontrivial :
  go_csv_records (concat (map write_record [[ [97; 34; 44; 10; 32]; []; [32; 98] ]; [[]; [34]] ])) =
  Some [[ [97; 34; 44; 10; 32]; []; [32; 98] ]; [[]; [34]] ].
Proof. vm_compute. reflexivity. Qed.
