(* C16 - No input makes a parser crash or hang.
   In the model every function is total by construction; what is proved here is PROGRESS: each
   value a parser yields consumes input, so the number of values - and with it the number of loop
   iterations of the parsing layers vegeta owns - is bounded by the size of the input, for every
   byte string and however often the parser is called. *)
From Coq Require Import ZArith List Bool Arith.
From V Require Import Base.Duration Base.Str Model.Flags Model.Targets Model.ResultCodec Model.DecoderFor Proofs.TotalityProofs Proofs.FuelProofs.
Import ListNotations.

(* HTTP target format: a call never grows what is left to scan, and a returned target consumed a line *)
Theorem http_targeter_progress : forall fixed fs db dh s,
  let '(r, s') := http_next fixed fs db dh s in
  (pmeasure s' <= pmeasure s)%nat /\ (forall t, r = TOk t -> (pmeasure s' < pmeasure s)%nat).
Proof. exact http_next_measure. Qed.
Print Assumptions http_targeter_progress.

Theorem http_targeter_total : forall fixed fs db dh n src,
  (count_ok (http_calls fixed fs db dh n (psc_of src)) <= length (scan_lines src))%nat.
Proof. exact http_calls_bound_src. Qed.
Print Assumptions http_targeter_total.

(* ... and the fuel the model gives its three loops is never exhausted: with any larger fuel every
   call returns the same result, for every input - no loop of the parser runs without consuming a line *)
Theorem http_fuel_suffices : forall fixed fs db dh s f1 f2 f3,
  (S (S (length (rest s))) <= f1)%nat -> (S (length (rest s)) <= f2)%nat -> (S (S (length (rest s))) <= f3)%nat ->
  http_next_f f1 f2 f3 fixed fs db dh s = http_next fixed fs db dh s.
Proof. exact http_fuel_suffices_lemma. Qed.
Print Assumptions http_fuel_suffices.

(* JSON target format *)
Theorem json_targeter_total : forall db dh n ls, (count_ok (json_calls db dh n ls) <= length ls)%nat.
Proof. exact json_calls_bound_lemma. Qed.
Print Assumptions json_targeter_total.

(* auto-detection tries each of its decoders at most once *)
Theorem decoder_for_total : forall ts idx buf rest i c,
  decoder_for ts idx buf rest = Some (i, c) -> (idx <= i < idx + length ts)%nat.
Proof. exact decoder_for_bounded_lemma. Qed.
Print Assumptions decoder_for_total.

(* the two framings: every record costs at least a byte *)
Theorem frames_total : forall fuel s, (length (fst (read_frames fuel s)) <= length s)%nat.
Proof. exact read_frames_count. Qed.
Theorem lines_total : forall s cur, (length (fst (read_lines s cur)) <= length s)%nat.
Proof. exact read_lines_count. Qed.
Print Assumptions frames_total.

Example http_progress_nontrivial :
  count_ok (http_calls true [] [] [] 5 (psc_of [71;69;84;32;47;97;10; 35;99;10; 71;69;84;32;47;98;10]%Z)) = 2%nat.
Proof. vm_compute. reflexivity. Qed.
