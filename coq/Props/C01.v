(* C01 - Pacers keep the hit count on their declared schedule in closed loop.
   Constant pacer: proved in full (exact integer arithmetic).  Linear and sine pacers: see
   the partial statements at the end and DESIGN.md. *)
From Coq Require Import ZArith List Bool Lia.
From V Require Import Model.AttackLTS Proofs.AttackProofs Proofs.LoopScheduleProofs Proofs.LoopScheduleLinear Proofs.LoopScheduleConst.
From V Require Import Model.Pacer Proofs.PacerProofs Model.LinearPacer Proofs.LinearProofs Model.Trig Model.SinePacer Proofs.TrigProofs Proofs.SineProofs.
From Coq Require Import Qround.
Import ListNotations.
Open Scope Z_scope.

(* Generic closed-loop theorem, for every pacer, every stall history and every length:
   if each call satisfies the per-call contract (releasing the hit it paced keeps the count
   admissible) and admissibility is monotone in time, every state visited by the loop is
   admissible. *)
Theorem closed_loop_upper :
  forall (pace : Z -> Z -> outcome) (Adm Dom : Z -> Z -> Prop),
  (forall t t' c, Adm t c -> t <= t' -> Adm t' c) ->
  (forall t k w, Dom t k -> Adm t k -> pace t k = Wait w -> Adm (t + Z.max w 0) (k + 1)) ->
  forall stalls st, Adm (fst st) (snd st) ->
  (forall t k, In (t, k) (loop_run pace st stalls) -> forall s, 0 <= s -> Dom (t + s) k) ->
  Forall (fun st' => Adm (fst st') (snd st')) (loop_run pace st stalls).
Proof.
  intros pace Adm Dom Hm Hc stalls st H0 HD.
  apply (loop_run_adm pace Adm Dom Hm Hc stalls st H0); [intros; right; exact I | exact HD].
Qed.
Print Assumptions closed_loop_upper.

(* No parameter values, elapsed time or hit count make the constant pacer panic. *)
Theorem const_no_panic : forall F P t k, const_pace F P t k <> Panic.
Proof. exact const_no_panic_lemma. Qed.
Print Assumptions const_no_panic.

Theorem const_neg_stops : forall F P t k,
  P <> 0 -> F <> 0 -> (P < 0 \/ F < 0) -> const_pace F P t k = Stop.
Proof. exact const_neg_stops_lemma. Qed.
Theorem const_zero_unlimited : forall F P t k, (P = 0 \/ F = 0) -> const_pace F P t k = Wait 0.
Proof. exact const_zero_unlimited_lemma. Qed.

(* Arithmetic overflow stops the attack instead of wrapping: a returned wait is 0 or the
   exact difference between ceil((hits+1)*Per/Freq) (which fits int64) and elapsed. *)
Theorem const_overflow_stops : forall F P t k w,
  const_dom F P t k -> const_pace F P t k = Wait w ->
  w = 0 \/ exists next, w = next - t /\ 0 < next <= max_int64 /\
                        next * F >= (k + 1) * P /\ (next - 1) * F < (k + 1) * P.
Proof. exact const_overflow_stops_lemma. Qed.
Print Assumptions const_overflow_stops.

(* Per-call contract with schedule S(t) = Freq*t/Per: after the paced hit is released the
   count is at most S (in particular at most S + 1), whatever the count was before. *)
Theorem const_contract : forall F P t k w,
  const_dom F P t k -> const_pace F P t k = Wait w -> (k + 1) * P <= F * (t + Z.max w 0).
Proof. exact const_contract_lemma. Qed.
Print Assumptions const_contract.

(* a positive wait is returned only when the count is on or ahead of the schedule *)
Theorem const_positive_wait : forall F P t k w,
  const_dom F P t k -> const_pace F P t k = Wait w -> 0 < w -> F * t < (k + 1) * P.
Proof. exact const_positive_wait_lemma. Qed.
Print Assumptions const_positive_wait.

(* stall-free lower bound: count > S(t) - Freq/Per (one nanosecond of schedule) is preserved *)
Theorem const_lower : forall F P t k w,
  const_dom F P t k -> F * t < k * P + F ->
  const_pace F P t k = Wait w -> F * (t + Z.max w 0) < (k + 1) * P + F.
Proof. exact const_lower_step. Qed.
Print Assumptions const_lower.

(* The closed loop that really runs: the attack loop of lib/attack.go (LTS of Model/AttackLTS.v: any
   number of workers, rendezvous channels, Stop calls, late wake-ups) consulting the constant pacer.
   In every reachable state whose recorded consultations are answers of ConstantPacer.Pace, the
   ticks released and the hits started (sequence numbers taken) by the model's clock [now] are on
   the schedule S(now) = Freq * now / Per - not even one hit above it. *)
Theorem attack_loop_constant_on_schedule : forall F P c s, 0 < F -> 0 < P -> reachable c s ->
  (forall e h w, In (e, h, w, false) (paces s) -> const_dom F P e h /\ const_pace F P e h = Wait w) ->
  count s * P <= F * now s /\ seq s * P <= F * now s.
Proof.
  intros F P c s HF HP R Hp.
  destruct (loop_on_schedule_lemma (const_pace F P) (const_adm F P) (const_dom F P)) with (c := c) (s := s) as (A & _ & B).
  - intros t t' k H Ht. exact (const_adm_mono F P t t' k HF H Ht).
  - intros t k w D _ E. unfold const_adm. exact (const_contract_lemma F P t k w D E).
  - unfold const_adm. lia.
  - exact R.
  - exact Hp.
  - unfold const_adm in A. split; [exact A | nia].
Qed.
Print Assumptions attack_loop_constant_on_schedule.

(* ... and the whole attack: with a duration set, all ticks but the last one were released by the
   deadline and on the schedule, so an attack of duration du at Freq hits per Per releases (and
   starts) at most Freq * du / Per + 1 hits - on any scheduler, with any number of workers *)
Theorem attack_constant_total_hits : forall F P c s, 0 < F -> 0 < P -> 0 < du c -> reachable c s ->
  (forall e h w, In (e, h, w, false) (paces s) -> const_dom F P e h /\ const_pace F P e h = Wait w) ->
  (count s - 1) * P <= F * du c /\ (AttackLTS.seq s - 1) * P <= F * du c.
Proof. exact const_total_hits_lemma. Qed.
Print Assumptions attack_constant_total_hits.

(* The pinned ConstantPacer.Pace (before the fix: commit): three refutations. *)
Theorem const_no_panic_refuted :
  exists F P t k, const_dom F P t k /\ const_pace_pinned F P t k = Panic.
Proof. exact const_pinned_panics. Qed.
Theorem const_upper_literal_refuted : exists F P t k w,
  const_dom F P t k /\ const_pace_pinned F P t k = Wait w /\ ~ (k * P <= F * (t + Z.max w 0)).
Proof.
  destruct const_pinned_drifts as (F & P & t & k & w & D & E & N).
  exists F, P, t, k, w. split; [exact D | split; [exact E|]].
  unfold const_adm in N. replace (k + 1 - 1) with k in N by lia. exact N.
Qed.
Theorem const_overflow_wraps_refuted : exists F P t k w,
  const_dom F P t k /\ const_pace_pinned F P t k = Wait w /\ w < 0 /\ F * t < (k + 1) * P.
Proof. exact const_pinned_wraps. Qed.

(* ---- linear pacer (exact rationals; float rounding is in the guard band of the tie) -------- *)
Section Linear.
Import QArith.
Local Open Scope Q_scope.

(* the same closed-loop theorem with the domain required only where the pacer is called *)
Theorem closed_loop_upper_calls :
  forall (pace : Z -> Z -> outcome) (Adm Dom : Z -> Z -> Prop),
  (forall t t' c, Adm t c -> (t <= t')%Z -> Adm t' c) ->
  (forall t k w, Dom t k -> Adm t k -> pace t k = Wait w -> Adm (t + Z.max w 0)%Z (k + 1)%Z) ->
  forall stalls st, Adm (fst st) (snd st) -> dom_along pace Dom st stalls ->
  Forall (fun st' => Adm (fst st') (snd st')) (loop_run pace st stalls).
Proof. intros pace Adm Dom Hm Hc stalls st. exact (loop_run_adm_calls pace Adm Dom Hm Hc stalls st). Qed.
Print Assumptions closed_loop_upper_calls.

(* the schedule a x^2/2 + b x never decreases for a non-negative slope *)
Theorem linear_schedule_mono : forall F P a t t', 0 <= a -> (0 < F)%Z -> (0 < P)%Z -> (t <= t')%Z ->
  lin_H a (lin_b F P) t <= lin_H a (lin_b F P) t'.
Proof. exact lin_H_mono_all. Qed.

(* per-call contract, non-negative slope: after the wait the schedule has reached the new count,
   short of the rounding of the interval and the truncation of the wait *)
Theorem linear_contract_pos : forall F P a t k w, 0 <= a -> (0 < F)%Z -> (0 < P)%Z -> (0 <= t)%Z -> (k <> 0)%Z ->
  lin_pace F P a t k = LWait w ->
  let b := lin_b F P in let e := lin_H a b t in let r := lin_rate a b t in let d := inject_Z (k + 1) - e in
  (0 <= w)%Z /\
  (((k < Qfloor e)%Z /\ w = 0%Z) \/
   ((Qfloor e <= k)%Z /\ inject_Z (k + 1) - r * (d / 2 + 1) / e9 <= lin_H a b (t + w))).
Proof. exact lin_contract_pos_lemma. Qed.
Print Assumptions linear_contract_pos.

(* closed loop, every stall history, every length: with a non-negative slope the count never
   exceeds the schedule by more than one hit, as long as the pacer is called at rates of at most
   5*10^8 hits/s (an interval of at least 2 ns) *)
Theorem linear_closed_loop_upper : forall F P a stalls, 0 <= a -> (0 < F)%Z -> (0 < P)%Z ->
  dom_along (lin_pace_o F P a) (lin_dom F P a) (0, 0)%Z stalls ->
  Forall (fun st => lin_adm F P a (fst st) (snd st)) (loop_run (lin_pace_o F P a) (0, 0)%Z stalls).
Proof. exact lin_closed_loop_lemma. Qed.
Print Assumptions linear_closed_loop_upper.

(* the same for the loop that really runs (attack LTS, any workers / interleaving / late wake-ups) *)
Theorem attack_loop_linear_on_schedule : forall F P a c s, 0 <= a -> (0 < F)%Z -> (0 < P)%Z -> reachable c s ->
  (forall e h w, In (e, h, w, false) (paces s) -> lin_dom F P a e h /\ lin_pace_o F P a e h = Wait w) ->
  lin_adm F P a (now s) (count s) /\ (AttackLTS.seq s <= count s)%Z.
Proof. exact lin_loop_lts_lemma. Qed.
Print Assumptions attack_loop_linear_on_schedule.

Theorem linear_positive_wait : forall F P a t k w, (0 < F)%Z -> (0 < P)%Z ->
  lin_pace F P a t k = LWait w -> (0 < w)%Z -> (Qfloor (lin_H a (lin_b F P) t) <= k)%Z.
Proof. exact lin_positive_wait_lemma. Qed.
Theorem linear_neg_stops : forall F P a t k, (P <> 0)%Z -> (F <> 0)%Z -> (P < 0 \/ F < 0)%Z -> lin_pace F P a t k = LStop.
Proof. exact lin_neg_stops_lemma. Qed.
Theorem linear_zero_unlimited : forall F P a t k, (P = 0 \/ F = 0)%Z -> lin_pace F P a t k = LWait 0.
Proof. exact lin_zero_unlimited_lemma. Qed.

(* for a negative slope the statement is false on the faithful model: known finding
   C01-linear-negslope *)
Theorem linear_neg_refuted : exists F P a t k w,
  (0 < F)%Z /\ (0 < P)%Z /\ lin_pace F P a t k = LWait w /\ lin_adm F P a t k /\ ~ lin_adm F P a (t + Z.max w 0)%Z (k + 1)%Z.
Proof. exact lin_neg_refuted_lemma. Qed.
Print Assumptions linear_neg_refuted.

Example linear_example :
  lin_pace 100 1000000000 (10 # 1) 1000000000 105 = LWait 9090909 /\ lin_adm 100 1000000000 (10 # 1) 1000000000 105.
Proof. split; [vm_compute; reflexivity | vm_compute; discriminate]. Qed.
End Linear.

(* ---- sine pacer: the declared schedule over the reals ----------------------------------------- *)
(* These statements use Coq's real numbers (standard-library axioms, listed below by
   Print Assumptions) and the Interval tactic for the bounds on PI (primitive integers / floats). *)
Section Sine.
Import Reals Qreals Lra.
Local Open Scope R_scope.

(* the Q-interval evaluator used by the checker encloses the real schedule
     H(t) = M t + (A P / 2 pi)(cos O - cos(O + 2 pi t / P))   for every pacer, every t *)
Theorem sine_schedule_enclosed : forall p t, (0 < s_period p)%Z -> start_ok p -> rin (sine_H p t) (sine_H_R p t).
Proof. exact sine_H_sound. Qed.
Print Assumptions sine_schedule_enclosed.

Theorem sine_rate_enclosed : forall p t, (0 < s_period p)%Z -> (0 <= t)%Z -> start_ok p -> rin (sine_rate p t) (sine_rate_R p t).
Proof. exact sine_rate_sound. Qed.

(* with 0 <= Amp <= Mean the schedule never decreases (|cos a - cos b| <= |a - b|) *)
Theorem sine_schedule_mono : forall p t1 t2, (0 < s_period p)%Z -> 0 <= Q2R (s_amp p) <= Q2R (s_mean p) -> (t1 <= t2)%Z ->
  sine_H_R p t1 <= sine_H_R p t2.
Proof. exact sine_H_mono. Qed.
Print Assumptions sine_schedule_mono.

(* PARTIAL: SinePacer.Pace inverts the schedule numerically in float64 and is not modelled.  For
   every history all of whose calls keep the per-call contract (which the checker decides on each
   real call with the enclosures above), the count stays within one hit of the schedule: *)
Theorem sine_closed_loop_upper_partial : forall p (pace : Z -> Z -> outcome) stalls,
  (0 < s_period p)%Z -> 0 <= Q2R (s_amp p) <= Q2R (s_mean p) ->
  (forall t k w, pace t k = Wait w -> IZR k <= sine_H_R p t + 1 -> IZR (k + 1) <= sine_H_R p (t + Z.max w 0) + 1) ->
  Forall (fun st => IZR (snd st) <= sine_H_R p (fst st) + 1) (loop_run pace (0, 0)%Z stalls).
Proof.
  intros p pace stalls HP HA Hc.
  apply (loop_run_adm_calls pace (fun t k => IZR k <= sine_H_R p t + 1) (fun _ _ => True)).
  - intros t t' c H Ht. pose proof (sine_H_mono p t t' HP HA Ht). lra.
  - intros t k w _ H E. exact (Hc t k w E H).
  - cbn [fst snd]. unfold sine_H_R. cbn. lra.
  - clear. revert stalls. intros stalls. generalize (0, 0)%Z. induction stalls as [|s tl IH]; intros st; cbn; [exact I|].
    split; [exact I|]. destruct (loop_step pace st s); [apply IH | exact I].
Qed.
(* PARTIAL, likewise, for the loop that really runs (attack LTS) *)
Theorem attack_loop_sine_on_schedule_partial : forall p (pace : Z -> Z -> outcome) c s,
  (0 < s_period p)%Z -> 0 <= Q2R (s_amp p) <= Q2R (s_mean p) ->
  (forall t k w, pace t k = Wait w -> IZR k <= sine_H_R p t + 1 -> IZR (k + 1) <= sine_H_R p (t + Z.max w 0) + 1) ->
  reachable c s ->
  (forall e h w, In (e, h, w, false) (paces s) -> pace e h = Wait w) ->
  IZR (count s) <= sine_H_R p (now s) + 1 /\ (AttackLTS.seq s <= count s)%Z.
Proof.
  intros p pace c s HP HA Hc R Hp.
  destruct (loop_on_schedule_lemma pace (fun t k => IZR k <= sine_H_R p t + 1) (fun _ _ => True)) with (c := c) (s := s) as (A & _ & B).
  - intros t t' k H Ht. pose proof (sine_H_mono p t t' HP HA Ht). lra.
  - intros t k w _ H E. exact (Hc t k w E H).
  - unfold sine_H_R. cbn. lra.
  - exact R.
  - intros e h w Hin. split; [exact I | exact (Hp e h w Hin)].
  - split; [exact A | exact B].
Qed.
Print Assumptions attack_loop_sine_on_schedule_partial.
End Sine.

Example const_example :
  const_pace 3 10 297 99 = Wait 37 /\ const_pace 2000000000 1000000000 0 0 = Wait 1 /\
  const_pace 1 3600000000000 0 2562047 = Stop /\ const_dom 3 10 297 99.
Proof. repeat split; try reflexivity; unfold two64; cbn; lia. Qed.
