(* C01 - Pacers keep the hit count on their declared schedule in closed loop.
   Constant pacer: proved in full (exact integer arithmetic).  Linear and sine pacers: see
   the partial statements at the end and DESIGN.md. *)
From Coq Require Import ZArith List Bool Lia.
From V Require Import Model.Pacer Proofs.PacerProofs.
Import ListNotations.
Open Scope Z_scope.

(* Generic closed-loop theorem, for every pacer, every stall history and every length:
   if each call satisfies the per-call contract (releasing the hit it paced keeps the count
   admissible) and admissibility is monotone in time, every state visited by the loop is
   admissible. *)
Theorem closed_loop_upper :
  forall (pace : Z -> Z -> outcome) (Adm Dom : Z -> Z -> Prop),
  (forall t t' c, Adm t c -> t <= t' -> Adm t' c) ->
  (forall t k w, Dom t k -> Adm t k -> pace t k = Wait w -> Adm (t + Z.max w 0) (k + 1)) ->
  forall stalls st, Adm (fst st) (snd st) ->
  (forall t k, In (t, k) (loop_run pace st stalls) -> forall s, 0 <= s -> Dom (t + s) k) ->
  Forall (fun st' => Adm (fst st') (snd st')) (loop_run pace st stalls).
Proof.
  intros pace Adm Dom Hm Hc stalls st H0 HD.
  apply (loop_run_adm pace Adm Dom Hm Hc stalls st H0); [intros; right; exact I | exact HD].
Qed.
Print Assumptions closed_loop_upper.

(* No parameter values, elapsed time or hit count make the constant pacer panic. *)
Theorem const_no_panic : forall F P t k, const_pace F P t k <> Panic.
Proof. exact const_no_panic_lemma. Qed.
Print Assumptions const_no_panic.

Theorem const_neg_stops : forall F P t k,
  P <> 0 -> F <> 0 -> (P < 0 \/ F < 0) -> const_pace F P t k = Stop.
Proof. exact const_neg_stops_lemma. Qed.
Theorem const_zero_unlimited : forall F P t k, (P = 0 \/ F = 0) -> const_pace F P t k = Wait 0.
Proof. exact const_zero_unlimited_lemma. Qed.

(* Arithmetic overflow stops the attack instead of wrapping: a returned wait is 0 or the
   exact difference between ceil((hits+1)*Per/Freq) (which fits int64) and elapsed. *)
Theorem const_overflow_stops : forall F P t k w,
  const_dom F P t k -> const_pace F P t k = Wait w ->
  w = 0 \/ exists next, w = next - t /\ 0 < next <= max_int64 /\
                        next * F >= (k + 1) * P /\ (next - 1) * F < (k + 1) * P.
Proof. exact const_overflow_stops_lemma. Qed.
Print Assumptions const_overflow_stops.

(* Per-call contract with schedule S(t) = Freq*t/Per: after the paced hit is released the
   count is at most S (in particular at most S + 1), whatever the count was before. *)
Theorem const_contract : forall F P t k w,
  const_dom F P t k -> const_pace F P t k = Wait w -> (k + 1) * P <= F * (t + Z.max w 0).
Proof. exact const_contract_lemma. Qed.
Print Assumptions const_contract.

(* a positive wait is returned only when the count is on or ahead of the schedule *)
Theorem const_positive_wait : forall F P t k w,
  const_dom F P t k -> const_pace F P t k = Wait w -> 0 < w -> F * t < (k + 1) * P.
Proof. exact const_positive_wait_lemma. Qed.
Print Assumptions const_positive_wait.

(* stall-free lower bound: count > S(t) - Freq/Per (one nanosecond of schedule) is preserved *)
Theorem const_lower : forall F P t k w,
  const_dom F P t k -> F * t < k * P + F ->
  const_pace F P t k = Wait w -> F * (t + Z.max w 0) < (k + 1) * P + F.
Proof. exact const_lower_step. Qed.
Print Assumptions const_lower.

(* The pinned ConstantPacer.Pace (before the fix: commit): three refutations. *)
Theorem const_no_panic_refuted :
  exists F P t k, const_dom F P t k /\ const_pace_pinned F P t k = Panic.
Proof. exact const_pinned_panics. Qed.
Theorem const_upper_literal_refuted : exists F P t k w,
  const_dom F P t k /\ const_pace_pinned F P t k = Wait w /\ ~ (k * P <= F * (t + Z.max w 0)).
Proof.
  destruct const_pinned_drifts as (F & P & t & k & w & D & E & N).
  exists F, P, t, k, w. split; [exact D | split; [exact E|]].
  unfold const_adm in N. replace (k + 1 - 1) with k in N by lia. exact N.
Qed.
Theorem const_overflow_wraps_refuted : exists F P t k w,
  const_dom F P t k /\ const_pace_pinned F P t k = Wait w /\ w < 0 /\ F * t < (k + 1) * P.
Proof. exact const_pinned_wraps. Qed.

Example const_example :
  const_pace 3 10 297 99 = Wait 37 /\ const_pace 2000000000 1000000000 0 0 = Wait 1 /\
  const_pace 1 3600000000000 0 2562047 = Stop /\ const_dom 3 10 297 99.
Proof. repeat split; try reflexivity; unfold two64; cbn; lia. Qed.
