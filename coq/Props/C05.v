(* C05 - Sequence order and timestamp order of results agree. *)
From Coq Require Import ZArith List Bool.
From V Require Import Model.AttackLTS Model.Skel Model.SkelData Proofs.AttackProofs Proofs.SkelProofs Proofs.SectionProofs Gen.Skel.
Import ListNotations.
Open Scope Z_scope.

(* Checker soundness, for every skeleton and every number of threads and interleaving: if the
   clock read that defines the timestamp, the read of the sequence number and its increment
   lie in one Lock m .. Unlock m section, no two threads are ever simultaneously at any of
   them - the section executes atomically with respect to the other hits. *)
Theorem same_section_sound : forall p, same_section_ok p = true ->
  forall n sched s, crun p (cinit n) sched = Some s ->
  forall t1 t2 pc1 pc2 a1 a2,
    nth_error (pcs s) t1 = Some pc1 -> nth_error (pcs s) t2 = Some pc2 ->
    nth_error p pc1 = Some a1 -> nth_error p pc2 = Some a2 ->
    special a1 <> 0 -> special a2 <> 0 -> t1 = t2.
Proof. exact same_section_critical. Qed.
Print Assumptions same_section_sound.

(* proof obligation on the skeleton REGENERATED from the current source of Attacker.hit *)
Theorem hit_same_section : hit_skel_found = true /\ same_section_ok hit_skel = true.
Proof. split; vm_compute; reflexivity. Qed.

(* With the section atomic (one AssignSeq step of the attack LTS): in every reachable state, for
   any two hits the one with the smaller sequence number has the earlier-or-equal timestamp *)
Theorem hit_ordered : forall c s, reachable c s -> forall s1 t1 s2 t2,
  In (s1, t1) (stamps s) -> In (s2, t2) (stamps s) -> s1 < s2 -> t1 <= t2.
Proof. intros c s R. exact (stamps_ordered_lemma (stamps s) (ist_ok s (reach_stamps c s R))). Qed.
Print Assumptions hit_ordered.

(* every timestamp is at or after the attack's start and not later than the instant the
   request reaches the transport *)
Theorem ts_bounds : forall c s, reachable c s ->
  Forall (fun e => exists t, stamp_of (fst e) (stamps s) = Some t /\ t <= snd e /\ snd e <= now s) (entered s) /\
  stamps_ok (stamps s).
Proof. intros c s R. destruct (reach_stamps c s R) as [O H N E T]. split; assumption. Qed.
Print Assumptions ts_bounds.

(* The reduction from "critical section" to "ordered stamps", mechanised (Model/SkelData.v: the
   interleaving semantics with a clock that never runs backwards - the environment advances it by
   any non-negative amount before every step - the shared counter, and what each thread read).
   For EVERY skeleton the checker accepts, any number of threads, any interleaving and any clock
   behaviour: the sequence numbers the threads read are pairwise different, and a smaller sequence
   number comes with an earlier-or-equal timestamp. *)
Theorem section_orders_stamps : forall p, same_section_ok p = true ->
  forall n c0 q0 evs s, drun p (dinit n c0 q0) evs = Some s ->
  (forall t1 t2 q1 q2 x1 x2, sqr s t1 = Some q1 -> sqr s t2 = Some q2 ->
     tsr s t1 = Some x1 -> tsr s t2 = Some x2 -> q1 < q2 -> x1 <= x2) /\
  (forall t1 t2 q, sqr s t1 = Some q -> sqr s t2 = Some q -> t1 = t2).
Proof. exact section_orders_stamps_lemma. Qed.
Print Assumptions section_orders_stamps.

(* ... in particular for the skeleton regenerated from the current source of Attacker.hit *)
Theorem hit_stamps_ordered : forall n c0 q0 evs s, drun hit_skel (dinit n c0 q0) evs = Some s ->
  forall t1 t2 q1 q2 x1 x2, sqr s t1 = Some q1 -> sqr s t2 = Some q2 ->
    tsr s t1 = Some x1 -> tsr s t2 = Some x2 -> q1 < q2 -> x1 <= x2.
Proof.
  intros n c0 q0 evs s R. exact (proj1 (section_orders_stamps hit_skel (proj2 hit_same_section) n c0 q0 evs s R)).
Qed.

(* The model's counter (Model/SkelData.v) is changed by the section's increment and by nothing else.
   The source agrees: in lib/attack.go exactly one statement assigns to, increments or takes the
   address of a field called like the counter - the increment inside hit's critical section
   (regenerated from the source on every run; a second writer, such as an Attack call that resets a
   counter shared by all attacks of one Attacker, breaks this obligation). *)
Theorem seq_counter_single_writer : seq_writers = 1.
Proof. reflexivity. Qed.

(* non-vacuity: two threads through the section, the second reading the clock later *)
Example section_run_example :
  let p := [ALock 1; AClock; ASeqRead; ASeqInc; AUnlock 1] in
  match drun p (dinit 2 100 0) [(0%nat, 0); (0%nat, 5); (0%nat, 0); (0%nat, 0); (0%nat, 1); (1%nat, 0); (1%nat, 2); (1%nat, 0)] with
  | Some s => (tsr s 0%nat, sqr s 0%nat, tsr s 1%nat, sqr s 1%nat) = (Some 105, Some 0, Some 108, Some 1)
  | None => False
  end.
Proof. vm_compute. reflexivity. Qed.

(* Latency cover (latency >= transport time, end = timestamp + latency) is checked on observations. *)

Example c05_example : same_section_ok [ALock 1; AClock; ASeqRead; ASeqInc; AUnlock 1] = true /\
                      same_section_ok [AClock; ALock 1; ASeqRead; ASeqInc; AUnlock 1] = false /\
                      same_section_ok [ALock 1; AClock; ASeqRead; AUnlock 1; ASeqInc] = false.
Proof. repeat split. Qed.
