(* C05 - Sequence order and timestamp order of results agree. *)
From Coq Require Import ZArith List Bool.
From V Require Import Model.AttackLTS Model.Skel Proofs.AttackProofs Proofs.SkelProofs Gen.Skel.
Import ListNotations.
Open Scope Z_scope.

(* Checker soundness, for every skeleton and every number of threads and interleaving: if the
   clock read that defines the timestamp, the read of the sequence number and its increment
   lie in one Lock m .. Unlock m section, no two threads are ever simultaneously at any of
   them - the section executes atomically with respect to the other hits. *)
Theorem same_section_sound : forall p, same_section_ok p = true ->
  forall n sched s, crun p (cinit n) sched = Some s ->
  forall t1 t2 pc1 pc2 a1 a2,
    nth_error (pcs s) t1 = Some pc1 -> nth_error (pcs s) t2 = Some pc2 ->
    nth_error p pc1 = Some a1 -> nth_error p pc2 = Some a2 ->
    special a1 <> 0 -> special a2 <> 0 -> t1 = t2.
Proof. exact same_section_critical. Qed.
Print Assumptions same_section_sound.

(* proof obligation on the skeleton REGENERATED from the current source of Attacker.hit *)
Theorem hit_same_section : hit_skel_found = true /\ same_section_ok hit_skel = true.
Proof. split; vm_compute; reflexivity. Qed.

(* With the section atomic (one AssignSeq step of the attack LTS): in every reachable state, for
   any two hits the one with the smaller sequence number has the earlier-or-equal timestamp *)
Theorem hit_ordered : forall c s, reachable c s -> forall s1 t1 s2 t2,
  In (s1, t1) (stamps s) -> In (s2, t2) (stamps s) -> s1 < s2 -> t1 <= t2.
Proof. intros c s R. exact (stamps_ordered_lemma (stamps s) (ist_ok s (reach_stamps c s R))). Qed.
Print Assumptions hit_ordered.

(* every timestamp is at or after the attack's start and not later than the instant the
   request reaches the transport *)
Theorem ts_bounds : forall c s, reachable c s ->
  Forall (fun e => exists t, stamp_of (fst e) (stamps s) = Some t /\ t <= snd e /\ snd e <= now s) (entered s) /\
  stamps_ok (stamps s).
Proof. intros c s R. destruct (reach_stamps c s R) as [O H N E T]. split; assumption. Qed.
Print Assumptions ts_bounds.

(* PARTIAL: the composition "critical section (same_section_sound) => the section may be
   treated as the single AssignSeq step of the LTS (hit_ordered)" is the standard reduction
   argument for lock-protected sections; it is argued in DESIGN.md, not mechanised. Latency
   cover (latency >= transport time, end = timestamp + latency) is checked on observations. *)

Example c05_example : same_section_ok [ALock 1; AClock; ASeqRead; ASeqInc; AUnlock 1] = true /\
                      same_section_ok [AClock; ALock 1; ASeqRead; ASeqInc; AUnlock 1] = false /\
                      same_section_ok [ALock 1; AClock; ASeqRead; AUnlock 1; ASeqInc] = false.
Proof. repeat split. Qed.
