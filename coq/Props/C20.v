(* C20 - Prometheus metrics equal the sums over observed results. *)
From Coq Require Import ZArith List Bool Permutation.
From V Require Import Base.Assoc Model.Prom Proofs.PromProofs.
Import ListNotations.
Open Scope Z_scope.

(* After any sequence of observations, for every label set: the bytes-in / bytes-out
   counters equal the sums of those fields over the results carrying that label set. *)
Theorem prom_sums_bytes : forall bounds rs k,
  alookup k (s_bin (fold_left (observe_gen true bounds) rs pinit)) = psum p_bin (with_label k rs) /\
  alookup k (s_bout (fold_left (observe_gen true bounds) rs pinit)) = psum p_bout (with_label k rs).
Proof. intros; split; [exact (prom_bin bounds rs k) | exact (prom_bout bounds rs k)]. Qed.
Print Assumptions prom_sums_bytes.

(* the histogram of a label set exists iff it was observed, its sample count and sum are the
   number and the total latency of those results, and every cumulative bucket equals the
   number of those latencies at or below its bound *)
Theorem prom_sums_histogram : forall bounds rs k,
  hist_row_spec bounds k rs (hist_find k (s_hist (fold_left (observe_gen true bounds) rs pinit))).
Proof. exact prom_hist. Qed.
Print Assumptions prom_sums_histogram.

(* the failure counter of (label set, message) equals the number of results with a
   non-empty error for it, and a child exists only for pairs that occurred *)
Theorem prom_failures : forall bounds rs f, f <> 0 ->
  alookup f (s_fail (fold_left (observe_gen true bounds) rs pinit)) = pcount (fun r => p_fail r =? f) rs.
Proof. exact prom_fail. Qed.
Print Assumptions prom_failures.
Theorem prom_failure_children : forall bounds rs f,
  In f (akeys (s_fail (fold_left (observe_gen true bounds) rs pinit))) <->
  (f <> 0 /\ exists r, In r rs /\ p_fail r = f).
Proof. exact prom_fail_keys. Qed.
Print Assumptions prom_failure_children.

(* order independence: the reference sums are permutation invariant, hence so are all
   exported values (this is what makes concurrent observation safe given atomic counters) *)
Theorem prom_perm : forall rs rs' k f g, Permutation rs rs' ->
  psum f (with_label k rs) = psum f (with_label k rs') /\
  pcount g (with_label k rs) = pcount g (with_label k rs') /\
  pcount g rs = pcount g rs'.
Proof.
  intros rs rs' k f g H. repeat split.
  - apply psum_perm, with_label_perm, H.
  - apply pcount_perm, with_label_perm, H.
  - apply pcount_perm, H.
Qed.
Print Assumptions prom_perm.

(* the pinned Observe looked the failure counter up without incrementing it *)
Theorem fail_counter_refuted :
  exists rs f, f <> 0 /\ alookup f (s_fail (fold_left (observe_gen false def_bounds) rs pinit))
                       <> pcount (fun r => p_fail r =? f) rs.
Proof. exact fail_counter_refuted_lemma. Qed.

Example prom_example :
  let rs := [ {| p_label := 1; p_bin := 10; p_bout := 2; p_lat := 5000000; p_fail := 0 |};
              {| p_label := 2; p_bin := 1; p_bout := 0; p_lat := 7; p_fail := 9 |};
              {| p_label := 1; p_bin := 5; p_bout := 0; p_lat := 5000001; p_fail := 0 |} ] in
  alookup 1 (s_bin (fold_left observe rs pinit)) = 15 /\
  option_map h_cum (hist_find 1 (s_hist (fold_left observe rs pinit))) = Some [1; 2; 2; 2; 2; 2; 2; 2; 2; 2; 2].
Proof. split; reflexivity. Qed.
