(* C11 - Latency percentiles are ordered and within a bounded rank error. *)
From Coq Require Import QArith Qround List Bool ZArith.
From V Require Import Model.Quantile Proofs.QuantileProofs.
Import ListNotations.
Open Scope Q_scope.

(* For every digest state satisfying the invariant (positive weights, means sorted,
   min <= first mean, last mean <= max) the query is monotone in q ... *)
Theorem quantile_mono : forall q1 q2 d v1 v2, Inv d -> q1 <= q2 ->
  quantile q1 d = Some v1 -> quantile q2 d = Some v2 -> v1 <= v2.
Proof. exact quantile_mono_lemma. Qed.
Print Assumptions quantile_mono.

(* ... stays between the digest's min and max ... *)
Theorem quantile_in_range : forall q d v, Inv d -> quantile q d = Some v -> dmin d <= v /\ v <= dmax d.
Proof. exact quantile_in_range_lemma. Qed.
Print Assumptions quantile_in_range.

(* ... is that value when all samples are equal (min = max) ... *)
Theorem quantile_constant : forall q d v, Inv d -> dmin d == dmax d -> quantile q d = Some v -> v == dmin d.
Proof. exact quantile_constant_lemma. Qed.
Print Assumptions quantile_constant.

(* ... and is defined (not NaN) for every q in [0,1] of a non-empty digest *)
Theorem quantile_total : forall q d, 0 <= q -> q <= 1 -> dcs d <> [] -> exists v, quantile q d = Some v.
Proof. exact quantile_defined. Qed.
Print Assumptions quantile_total.

(* Metrics.Close: min <= p50 <= p90 <= p95 <= p99 <= max after truncation to nanoseconds, for
   every invariant-satisfying digest whose extremes are bracketed by the tracked Min and Max *)
Theorem percentiles_ordered : forall d (mn mx : Z) p50 p90 p95 p99, Inv d ->
  inject_Z mn <= dmin d -> dmax d <= inject_Z mx ->
  quantile (50 # 100) d = Some p50 -> quantile (90 # 100) d = Some p90 ->
  quantile (95 # 100) d = Some p95 -> quantile (99 # 100) d = Some p99 ->
  (mn <= qtrunc p50 <= qtrunc p90 /\ qtrunc p90 <= qtrunc p95 <= qtrunc p99 /\ qtrunc p99 <= mx)%Z.
Proof. exact percentiles_ordered_lemma. Qed.
Print Assumptions percentiles_ordered.

(* the HDR report: along every non-decreasing ladder of percentiles the listed values never decrease *)
Theorem hdr_monotone : forall d qs vs, Inv d -> ladder_sorted qs ->
  map (fun q => quantile q d) qs = map Some vs -> vals_sorted (map qtrunc vs).
Proof. exact hdr_monotone_lemma. Qed.
Print Assumptions hdr_monotone.

(* the invariant is maintained by process() under EVERY merge policy *)
Theorem process_inv : forall policy all d, sorted_weights_ok all -> Inv d -> Inv (process policy all d).
Proof. exact process_inv_lemma. Qed.
Print Assumptions process_inv.

Theorem process_conserves_weight : forall policy rest cur k, total (regroup policy cur rest k) == cw cur + total rest.
Proof. exact regroup_total. Qed.

Example inv_nontrivial :
  let d := {| dcs := [ {| cm := 1; cw := 1 |}; {| cm := 5 # 2; cw := 2 |}; {| cm := 7; cw := 1 |} ]; dmin := 1; dmax := 7 |} in
  Inv d /\ option_map Qred (quantile (1 # 2) d) = Some (5 # 2) /\ option_map Qred (quantile (99 # 100) d) = Some 7.
Proof.
  cbn zeta. split; [|split; vm_compute; reflexivity].
  split; [repeat apply Forall_cons; try apply Forall_nil; reflexivity|].
  cbn. repeat split; unfold Qle; cbn; auto with zarith.
Qed.
