(* C03 - Requests in flight never exceed max-workers and free capacity is used. *)
From Coq Require Import ZArith List Bool.
From V Require Import Model.AttackLTS Proofs.AttackProofs Model.Accept Proofs.AcceptProofs.
Import ListNotations.
Open Scope Z_scope.

(* in every reachable state: hits started and not yet taken by the consumer (holding a tick,
   in the targeter, in the transport or blocked on the consumer) <= workers <= max-workers,
   whatever the initial worker count *)
Theorem inflight_le_max : forall c s, wf_cfg c -> reachable c s ->
  0 <= busy s /\ busy s <= nworkers s /\ nworkers s <= maxw c.
Proof. exact inflight_le_max_lemma. Qed.
Print Assumptions inflight_le_max.

(* once the loop has finished sleeping, if fewer than max-workers are busy the tick is handed
   to a worker by at most two steps of the loop alone (spawning a worker on demand if none
   is idle) - no completion or consumption is needed *)
Theorem free_capacity_used : forall c s, wf_cfg c -> reachable c s ->
  (pc s = LSel1 \/ pc s = LSel2) -> stopped s = false -> busy s < maxw c ->
  exists ls s', (length ls <= 2)%nat /\ Forall (fun l => l = Sel1Tick \/ l = Sel1Default \/ l = Sel2Tick) ls /\
                run c s ls = Some s' /\ count s' = count s + 1 /\ got s' = S (got s) /\ pc s' = LTop.
Proof. exact free_capacity_lemma. Qed.
Print Assumptions free_capacity_used.

(* when all are busy the tick is delivered right after the next consumption *)
Theorem busy_then_next_consume : forall c s x, pc s = LSel2 -> memz x (send s) = true -> results_closed s = false ->
  exists s1 s2, step c s (Consume x) = Some s1 /\ step c s1 Sel2Tick = Some s2 /\ count s2 = count s + 1.
Proof. exact busy_then_consume_lemma. Qed.
Print Assumptions busy_then_next_consume.

Example c03_example :
  let c := {| maxw := 1; initw := 3; du := 0; fails := [] |} in
  nworkers (init c) = 1 /\ wf_cfg c.
Proof. split; [reflexivity | unfold wf_cfg; cbn; split; discriminate]. Qed.

(* The tie to the code: the harness drives real attacks and the acceptance procedure (Model/Accept.v)
   keeps the model states compatible with what was observed.  Every state it keeps is reachable in
   the LTS - so every statement above about reachable states holds of the model states that
   explain a real run. *)
Theorem accepted_states_reachable : forall c steps out,
  drive c steps [init c] 0 = inr out -> forall s, In s out -> reachable c s.
Proof. exact accepted_reachable_lemma. Qed.
Print Assumptions accepted_states_reachable.
