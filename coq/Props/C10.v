(* C10 - Report metrics equal an exact reference computation, in any order, incrementally.
   Only statements; proofs in Proofs/MetricsProofs.v. *)
From Coq Require Import ZArith List Bool Permutation.
From V Require Import Model.Metrics Proofs.MetricsProofs.
Import ListNotations.
Open Scope Z_scope.

(* For every list of results in the domain (non-negative latencies and byte counts, sums
   that fit the 64-bit counters) the closed report equals the direct computation [ref_*]
   on every listed field: request count, status-code histogram, byte totals, latency
   total/max/min, earliest/latest/end, success count, the set of distinct error texts
   (without duplicates), and the derived fields (rate, throughput, duration, wait, means,
   success ratio) as exact rationals. *)
Theorem metrics_eq_ref : forall rs, no_overflow rs ->
  report_matches_ref rs (close (fold_left add rs init)).
Proof. exact metrics_eq_ref_lemma. Qed.
Print Assumptions metrics_eq_ref.

(* order of addition is irrelevant (errors compared as sets, status codes by lookup) *)
Theorem metrics_perm : forall rs rs', Permutation rs rs' -> no_overflow rs ->
  report_same (close (fold_left add rs init)) (close (fold_left add rs' init)).
Proof. exact metrics_perm_lemma. Qed.
Print Assumptions metrics_perm.

(* closing in between additions, any number of times, does not change the final report *)
Theorem close_idempotent_interleaved : forall ops, no_overflow (adds ops) ->
  close (run ops init) = close (fold_left add (adds ops) init).
Proof. exact close_interleaved. Qed.
Print Assumptions close_idempotent_interleaved.

(* The pinned source treated Min = 0 as "unset": refuted (repaired by a fix: commit). *)
Theorem min_zero_refuted :
  exists rs, no_overflow rs /\ m_lmin (fold_left (add_gen false) rs init) <> ref_lmin rs.
Proof. exact min_zero_refuted_lemma. Qed.

(* non-vacuity: a concrete multiset in the domain, closed in between *)
Example c10_example :
  let r1 := {| r_code := 200; r_ts := 1000; r_lat := 0; r_bout := 3; r_bin := 7; r_err := 0 |} in
  let r2 := {| r_code := 500; r_ts := 500; r_lat := 40; r_bout := 0; r_bin := 1; r_err := 9 |} in
  m_lmin (close (run [OAdd r1; OClose; OAdd r2; OClose] init)) = 0 /\
  m_earliest (close (run [OAdd r1; OClose; OAdd r2] init)) = Some 500 /\
  d_duration (m_derived (close (run [OAdd r1; OClose; OAdd r2] init))) = 500.
Proof. repeat split; reflexivity. Qed.
