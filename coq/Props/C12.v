(* C12 - Histogram buckets partition the results.
   Only statements, each closed by [exact]; proofs live in Proofs/HistogramProofs.v. *)
From Coq Require Import ZArith List Bool.
From V Require Import Base.Duration Model.Histogram Proofs.HistogramProofs.
Import ListNotations.
Open Scope Z_scope.

(* For any strictly increasing non-empty bucket list and any latencies not below the first
   bound, after adding them in any order and number: no panic, the counters are exactly
   the per-bucket counts of the specification [in_bucket] (lower bound <= latency < next
   bound, the last bucket unbounded above), the total is n and the counters sum to it. *)
Theorem hist_partition : forall bs lats,
  strictly_increasing bs = true -> bs <> [] ->
  Forall (fun l => hd 0 bs <= l) lats ->
  exists h, hist_adds (hist_init bs) lats = Some h /\
    buckets h = bs /\
    sized_counts h = map (count_in_bucket bs lats) (seq 0 (length bs)) /\
    total h = Z.of_nat (length lats) /\
    zsum (sized_counts h) = total h.
Proof. exact hist_partition_lemma. Qed.
Print Assumptions hist_partition.

(* "exactly one bucket": the specification predicate singles out one index *)
Theorem hist_exactly_one_bucket : forall bs lat,
  strictly_increasing bs = true -> bs <> [] -> hd 0 bs <= lat ->
  exists k, (k < length bs)%nat /\
    forall i, (i < length bs)%nat -> (in_bucket bs i lat = true <-> i = k).
Proof. exact exactly_one_bucket. Qed.
Print Assumptions hist_exactly_one_bucket.

(* no latency makes Add panic when there is at least one bucket (any bounds) *)
Theorem hist_no_panic : forall lats h, buckets h <> [] -> exists h', hist_adds h lats = Some h'.
Proof. exact hist_adds_no_panic. Qed.
Print Assumptions hist_no_panic.

(* both renderings list (bucket_i, count_i) for every bucket, also when nothing was added *)
Theorem render_counts : forall h, render_json h = Some (combine (buckets h) (sized_counts h)).
Proof. exact render_json_total. Qed.
Print Assumptions render_counts.

(* the pinned source (before the "fix:" commit) indexed Counts directly: refuted *)
Theorem hist_json_empty_refuted :
  exists h, buckets h <> [] /\ render_json_unsized h = None /\ render_text_unsized h = [].
Proof. exists (hist_init [0; 10]). split; [discriminate | split; reflexivity]. Qed.

(* a parsed specification preserves the given bounds, preceded by 0 iff the first is positive *)
Theorem unmarshal_preserves : forall items first acc,
  match unmarshal_items items first acc, parse_all_items items with
  | Some (r, _), Some ds =>
      r = acc ++ (match ds with
                  | d :: _ => if first && (0 <? d) then [0] else []
                  | [] => [] end) ++ ds
  | None, None => True
  | _, _ => False
  end.
Proof. exact unmarshal_items_spec. Qed.
Print Assumptions unmarshal_preserves.

(* hence the first bound is never positive: every non-negative latency is covered *)
Theorem unmarshal_covers_nonnegative : forall items r ix,
  unmarshal_items items true [] = Some (r, ix) -> r <> [] -> hd 0 r <= 0.
Proof. exact unmarshal_first_nonpositive. Qed.
Print Assumptions unmarshal_covers_nonnegative.

(* non-vacuity: a concrete state meets the hypotheses and the conclusion computes *)
Example hist_partition_example :
  strictly_increasing [0; 10; 20] = true /\
  option_map sized_counts (hist_adds (hist_init [0; 10; 20]) [0; 9; 10; 19; 20; 1000]) = Some [2; 2; 2].
Proof. split; reflexivity. Qed.
Example unmarshal_example :
  buckets_unmarshal [91; 49; 109; 115; 44; 32; 49; 48; 109; 115; 93] (* "[1ms, 10ms]" *)
  = Some ([0; 1000000; 10000000], false).
Proof. reflexivity. Qed.
