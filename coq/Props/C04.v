(* C04 - The attack loop obeys its pacer and its duration. *)
From Coq Require Import ZArith List Bool Lia.
From V Require Import Model.Pacer Model.AttackLTS Proofs.AttackProofs Model.Accept Proofs.AcceptProofs Proofs.LoopScheduleProofs.
Import ListNotations.
Open Scope Z_scope.

(* the i-th consultation of the pacer (i = 0, 1, 2, ...) passes hits = i, each exactly once *)
Theorem pace_args_hits : forall c s, reachable c s -> forall i e h w st,
  nth_error (rev (paces s)) i = Some (e, h, w, st) -> h = Z.of_nat i.
Proof. intros c s R. exact (paces_ok_nth (paces s) (ip_paces c s (reach_pace c s R))). Qed.
Print Assumptions pace_args_hits.
(* ... and elapsed times measured from the start that never decrease *)
Theorem pace_args_elapsed : forall c s, reachable c s -> forall i j e1 h1 w1 s1 e2 h2 w2 s2, (i <= j)%nat ->
  nth_error (rev (paces s)) i = Some (e1, h1, w1, s1) -> nth_error (rev (paces s)) j = Some (e2, h2, w2, s2) ->
  e1 <= e2.
Proof. intros c s R. exact (paces_ok_sorted (paces s) (ip_paces c s (reach_pace c s R))). Qed.
Print Assumptions pace_args_elapsed.

(* no hit is released earlier than the wait the pacer returned for it; the number of released
   hits is the loop's count, never more than the consultations; and never more hits have
   started than have been released *)
Theorem no_early_hit : forall c s, reachable c s ->
  Forall (fun p => let '(e, _, w, t) := p in e + Z.max w 0 <= t) (hist s) /\
  count s = Z.of_nat (length (hist s)) /\ seq s <= count s.
Proof.
  intros c s R. destruct (reach_pace c s R) as [P N Hh Hn C D PD HD PC]. destruct (reach_seqs c s R) as [_ _ Cn _].
  split; [apply hist_ok_forall, Hh|]. split; [exact C | lia].
Qed.
Print Assumptions no_early_hit.

(* with a duration set the pacer is never consulted once more than it has elapsed, and at
   most the one hit whose wait had already been requested is released after the deadline *)
Theorem deadline : forall c s, reachable c s ->
  Forall (fun p => let '(e, _, _, _) := p in ~ (0 < du c /\ du c < e)) (paces s) /\
  (0 < du c -> match hist s with [] => True | _ :: r => Forall (fun p => let '(_, _, _, t) := p in t <= du c) r end).
Proof.
  intros c s R. destruct (reach_pace c s R) as [P N Hh Hn C D PD HD PC]. split; [exact D|].
  intros Hd. exact (hist_late_at_most_one c (hist s) Hh HD Hd).
Qed.
Print Assumptions deadline.

(* when the pacer says stop the loop enters the epilogue, in which no further tick is released *)
Theorem stop_means_stop : forall c s w s', step c s (Pace w true) = Some s' ->
  epilogue (pc s') = true /\
  forall l s'', step c s' l = Some s'' -> epilogue (pc s'') = true /\ count s'' = count s' /\ hist s'' = hist s'.
Proof.
  intros c s w s' H. destruct (pace_stop_lemma c s w s' H) as (_ & E). split; [exact E|].
  intros l s'' H2. exact (epilogue_closed_lemma c s' l s'' E H2).
Qed.
Print Assumptions stop_means_stop.

(* "So at no moment have more hits started than the pacer has released", against the pacer's own
   schedule: the closed-loop theorem of C01 (closed_loop_upper) is about an idealised loop; this is
   the same statement for the loop of lib/attack.go as the LTS models it - any number of workers, the
   rendezvous on ticks, the non-blocking select, Stop calls, wake-ups as late as the environment
   likes.  For every pacer whose answers keep a per-call contract (admissibility Adm is monotone in
   time and carried from a consultation to the instant the wait is over), every reachable state is
   admissible at its own clock, every released tick was admissible when it was released, and the
   hits started (sequence numbers taken) never exceed the admissible count. *)
Theorem loop_keeps_pacer_schedule :
  forall (pace : Z -> Z -> outcome) (Adm Dom : Z -> Z -> Prop),
  (forall t t' k, Adm t k -> t <= t' -> Adm t' k) ->
  (forall t k w, Dom t k -> Adm t k -> pace t k = Wait w -> Adm (t + Z.max w 0) (k + 1)) ->
  Adm 0 0 ->
  forall c s, reachable c s ->
  (forall e h w, In (e, h, w, false) (paces s) -> Dom e h /\ pace e h = Wait w) ->
  Adm (now s) (count s) /\
  Forall (fun p => let '(e, h, w, t) := p in Adm t (h + 1)) (hist s) /\
  seq s <= count s.
Proof. exact loop_on_schedule_lemma. Qed.
Print Assumptions loop_keeps_pacer_schedule.

(* every released tick and the answer waiting for its tick are answers the pacer really gave *)
Theorem ticks_are_pacer_answers : forall c s, reachable c s ->
  (forall e h w t, In (e, h, w, t) (hist s) -> In (e, h, w, false) (paces s)) /\
  (forall e h w, pending s = Some (e, h, w) -> In (e, h, w, false) (paces s)).
Proof. exact reach_answers. Qed.
Print Assumptions ticks_are_pacer_answers.

(* non-vacuity: a run with two workers whose pacer answers are those of the constant pacer model
   (1 hit per 4 ns) meets the hypotheses, and the conclusion says 2 * 4 <= 1 * 9 *)
Example loop_schedule_example :
  let c := {| maxw := 2; initw := 2; du := 0; fails := [] |} in
  exists s, run c (init c) [CallPace; Pace 4 false; Advance 4; Wake; Sel2Tick; AssignSeq; CallPace; Pace 4 false;
                            Advance 5; Wake; Sel2Tick; AssignSeq; CallPace; Pace 3 false] = Some s /\
            (forall e h w, In (e, h, w, false) (paces s) -> const_pace 1 4 e h = Wait w) /\
            (now s, count s, seq s) = (9, 2, 2).
Proof.
  eexists. split; [vm_compute; reflexivity|]. split; [|reflexivity].
  cbn [paces]. intros e h w [H|[H|[H|[]]]]; injection H as <- <- <-; reflexivity.
Qed.

Example c04_example :
  let c := {| maxw := 1; initw := 1; du := 10; fails := [] |} in
  option_map (fun s => (hist s, pc s))
    (run c (init c) [CallPace; Pace 4 false; Advance 7; Wake; Sel2Tick; Advance 4; DurationOver]) =
  Some ([(0, 0, 4, 7)], LCloseTicks) /\
  run c (init c) [CallPace; Pace 4 false; Advance 7; Wake; Sel2Tick; Advance 4; CallPace; Pace 0 false] = None.
Proof. split; reflexivity. Qed.

(* The tie to the code: the harness drives real attacks and the acceptance procedure (Model/Accept.v)
   keeps the model states compatible with what was observed.  Every state it keeps is reachable in
   the LTS - so every statement above about reachable states holds of the model states that
   explain a real run. *)
Theorem accepted_states_reachable : forall c steps out,
  drive c steps [init c] 0 = inr out -> forall s, In s out -> reachable c s.
Proof. exact accepted_reachable_lemma. Qed.
Print Assumptions accepted_states_reachable.
