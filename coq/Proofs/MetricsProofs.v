From Coq Require Import ZArith List Bool Lia Permutation.
From V Require Import Model.Metrics.
Import ListNotations.
Open Scope Z_scope.

Definition madds (rs : list result) : metrics := fold_left add rs init.

Lemma madds_snoc rs r : madds (rs ++ [r]) = add (madds rs) r.
Proof. unfold madds. now rewrite fold_left_app. Qed.

(* ---- small facts about the reference functions --------------------------------- *)

Lemma zsum_app l1 l2 : zsum (l1 ++ l2) = zsum l1 + zsum l2.
Proof. unfold zsum. induction l1; cbn; [lia|]. rewrite IHl1. lia. Qed.

Lemma zsum_nonneg l : Forall (fun x => 0 <= x) l -> 0 <= zsum l.
Proof. induction 1; cbn; unfold zsum in *; cbn; lia. Qed.

Lemma zmin_list_snoc d l x : zmin_list d (l ++ [x]) = Z.min (zmin_list d l) x.
Proof. unfold zmin_list. now rewrite fold_left_app. Qed.
Lemma zmax_list_snoc d l x : zmax_list d (l ++ [x]) = Z.max (zmax_list d l) x.
Proof. unfold zmax_list. now rewrite fold_left_app. Qed.

Lemma ref_requests_snoc rs r : ref_requests (rs ++ [r]) = ref_requests rs + 1.
Proof. unfold ref_requests. rewrite app_length. cbn. lia. Qed.

Lemma ref_code_snoc rs r c :
  ref_code (rs ++ [r]) c = ref_code rs c + (if r_code r =? c then 1 else 0).
Proof.
  unfold ref_code. rewrite filter_app, app_length. cbn [filter].
  destruct (r_code r =? c); cbn [length]; lia.
Qed.

Lemma ref_success_snoc rs r :
  ref_success (rs ++ [r]) = ref_success rs + (if is_success r then 1 else 0).
Proof.
  unfold ref_success. rewrite filter_app, app_length. cbn [filter].
  destruct (is_success r); cbn [length]; lia.
Qed.

Lemma ref_sum_snoc (f : result -> Z) rs r :
  zsum (map f (rs ++ [r])) = zsum (map f rs) + f r.
Proof. rewrite map_app, zsum_app. cbn. unfold zsum. cbn. lia. Qed.

Definition hd_snoc_cases {A} (rs : list A) (r : A) :
  (rs = [] /\ rs ++ [r] = [r]) \/ (exists x tl, rs = x :: tl /\ rs ++ [r] = x :: (tl ++ [r])).
Proof. destruct rs as [|x tl]; [left; split; reflexivity | right; exists x, tl; split; reflexivity]. Qed.

Lemma ref_lmin_snoc rs r :
  ref_lmin (rs ++ [r]) = match rs with [] => r_lat r | _ => Z.min (ref_lmin rs) (r_lat r) end.
Proof. destruct rs as [|x tl]; cbn; [reflexivity|]. rewrite map_app. cbn. apply zmin_list_snoc. Qed.
Lemma ref_lmax_snoc rs r :
  ref_lmax (rs ++ [r]) = match rs with [] => r_lat r | _ => Z.max (ref_lmax rs) (r_lat r) end.
Proof. destruct rs as [|x tl]; cbn; [reflexivity|]. rewrite map_app. cbn. apply zmax_list_snoc. Qed.
Lemma ref_earliest_snoc rs r :
  ref_earliest (rs ++ [r]) =
  match ref_earliest rs with None => Some (r_ts r) | Some e => Some (Z.min e (r_ts r)) end.
Proof. destruct rs as [|x tl]; cbn; [reflexivity|]. rewrite map_app. cbn. now rewrite zmin_list_snoc. Qed.
Lemma ref_latest_snoc rs r :
  ref_latest (rs ++ [r]) =
  match ref_latest rs with None => Some (r_ts r) | Some e => Some (Z.max e (r_ts r)) end.
Proof. destruct rs as [|x tl]; cbn; [reflexivity|]. rewrite map_app. cbn. now rewrite zmax_list_snoc. Qed.
Lemma ref_end_snoc rs r :
  ref_end (rs ++ [r]) =
  match ref_end rs with None => Some (r_end r) | Some e => Some (Z.max e (r_end r)) end.
Proof. destruct rs as [|x tl]; cbn; [reflexivity|]. rewrite map_app. cbn. now rewrite zmax_list_snoc. Qed.

Lemma lookup_bump c d l : lookup c (bump d l) = lookup c l + (if d =? c then 1 else 0).
Proof.
  induction l as [|[k v] tl IH]; cbn.
  - destruct (d =? c); lia.
  - destruct (k =? d) eqn:E; cbn.
    + apply Z.eqb_eq in E; subst k. destruct (d =? c); lia.
    + destruct (k =? c) eqn:E2; [|exact IH].
      apply Z.eqb_eq in E2; subst k. rewrite Z.eqb_sym in E. rewrite E. lia.
Qed.

Lemma memz_In x l : memz x l = true <-> In x l.
Proof.
  induction l as [|y tl IH]; cbn; [split; [discriminate | tauto]|].
  rewrite orb_true_iff, IH, Z.eqb_eq. split; intros [H|H]; auto.
Qed.

Lemma wrap64u_id x : 0 <= x < two64 -> wrap64u x = x.
Proof. intros. unfold wrap64u. apply Z.mod_small. assumption. Qed.
Lemma wrap64s_id x : - (two64 / 2) <= x < two64 / 2 -> wrap64s x = x.
Proof.
  intros H. unfold wrap64s. rewrite Z.mod_small; [lia|].
  unfold two64 in *. change (18446744073709551616 / 2) with 9223372036854775808 in *. lia.
Qed.

(* ---- the no-overflow hypothesis is prefix-closed -------------------------------- *)

Lemma no_overflow_prefix rs r : no_overflow (rs ++ [r]) -> no_overflow rs /\ result_ok r.
Proof.
  intros (HF & Hn & Hbi & Hbo & Hl).
  apply Forall_app in HF as [HF Hr]. inversion Hr as [|? ? Hr' _]; subst.
  destruct Hr' as (Hl0 & Hbi0 & Hbo0).
  rewrite ref_requests_snoc in Hn.
  unfold ref_bin, ref_bout, ref_ltotal in *. rewrite ref_sum_snoc in Hbi, Hbo, Hl.
  repeat split; try assumption; unfold ref_bin, ref_bout, ref_ltotal; lia.
Qed.

Lemma sums_nonneg rs : Forall result_ok rs ->
  0 <= ref_bin rs /\ 0 <= ref_bout rs /\ 0 <= ref_ltotal rs.
Proof.
  intros HF. unfold ref_bin, ref_bout, ref_ltotal.
  repeat split; apply zsum_nonneg, Forall_map; eapply Forall_impl; try exact HF;
    intros a (H1 & H2 & H3); assumption.
Qed.

(* ---- main invariant: accumulators equal the reference ---------------------------- *)

Record acc_spec (rs : list result) (m : metrics) : Prop := {
  as_requests : m_requests m = ref_requests rs;
  as_codes : forall c, lookup c (m_codes m) = ref_code rs c;
  as_bin : m_bin m = ref_bin rs;
  as_bout : m_bout m = ref_bout rs;
  as_ltotal : m_ltotal m = ref_ltotal rs;
  as_lmax : m_lmax m = ref_lmax rs;
  as_lmin : m_lmin m = ref_lmin rs;
  as_lseen : m_lseen m = match rs with [] => false | _ => true end;
  as_earliest : m_earliest m = ref_earliest rs;
  as_latest : m_latest m = ref_latest rs;
  as_end : m_end m = ref_end rs;
  as_success : m_success m = ref_success rs;
  as_errors : forall e, In e (m_errors m) <-> ref_has_error rs e;
  as_errors_nodup : NoDup (m_errors m);
  as_derived : m_derived m = derived0 }.

Lemma ref_lmax_nonneg rs : Forall result_ok rs -> 0 <= ref_lmax rs.
Proof.
  induction rs as [|r rs IH] using rev_ind; intros HF; [cbn; lia|].
  apply Forall_app in HF as [HF Hr]. inversion Hr as [|? ? (Hl & _) _]; subst.
  rewrite ref_lmax_snoc. destruct rs; [exact Hl|]. specialize (IH HF). lia.
Qed.

Lemma acc_spec_init : acc_spec [] init.
Proof.
  constructor; cbn; try reflexivity.
  - intros e. split; [tauto|]. intros (_ & r & [] & _).
  - constructor.
Qed.

Lemma has_error_snoc rs r e :
  ref_has_error (rs ++ [r]) e <-> ref_has_error rs e \/ (e <> 0 /\ r_err r = e).
Proof.
  unfold ref_has_error. split.
  - intros (Hne & x & Hin & Hx). apply in_app_iff in Hin as [Hin|[Hin|[]]].
    + left. split; [assumption|]. exists x. split; assumption.
    + subst x. right. split; assumption.
  - intros [(Hne & x & Hin & Hx) | (Hne & Hx)].
    + split; [assumption|]. exists x. split; [apply in_app_iff; left; assumption | assumption].
    + split; [assumption|]. exists r. split; [apply in_app_iff; right; left; reflexivity | assumption].
Qed.

Lemma acc_spec_add rs r m :
  no_overflow (rs ++ [r]) -> acc_spec rs m -> acc_spec (rs ++ [r]) (add m r).
Proof.
  intros Hno S. pose proof (no_overflow_prefix _ _ Hno) as (Hno' & (Hl0 & Hbi0 & Hbo0)).
  destruct Hno as (HF & Hn & Hbi & Hbo & Hl).
  destruct Hno' as (HF' & Hn' & Hbi' & Hbo' & Hl').
  pose proof (sums_nonneg _ HF') as (Hs1 & Hs2 & Hs3).
  assert (0 <= ref_requests rs) as Hr0 by (unfold ref_requests; lia).
  rewrite ref_requests_snoc in Hn. unfold ref_bin, ref_bout, ref_ltotal in *.
  rewrite ref_sum_snoc in Hbi, Hbo, Hl.
  destruct S. constructor; unfold add, add_gen; cbn [m_requests m_codes m_bin m_bout m_ltotal m_lmax m_lmin
    m_lseen m_earliest m_latest m_end m_success m_errors m_derived].
  - rewrite as_requests0, ref_requests_snoc. apply wrap64u_id. lia.
  - intros c. rewrite lookup_bump, as_codes0, ref_code_snoc. reflexivity.
  - rewrite as_bin0. unfold ref_bin. rewrite ref_sum_snoc. apply wrap64u_id. unfold ref_bin in *. lia.
  - rewrite as_bout0. unfold ref_bout. rewrite ref_sum_snoc. apply wrap64u_id. unfold ref_bout in *. lia.
  - rewrite as_ltotal0. unfold ref_ltotal. rewrite ref_sum_snoc. apply wrap64s_id.
    unfold ref_ltotal in *. unfold two64 in *. change (18446744073709551616 / 2) with 9223372036854775808 in *. lia.
  - rewrite as_lmax0, ref_lmax_snoc. destruct rs as [|x tl].
    + cbn. destruct (0 <? r_lat r) eqn:E; [reflexivity|]. apply Z.ltb_ge in E. lia.
    + destruct (ref_lmax (x :: tl) <? r_lat r) eqn:E;
        [apply Z.ltb_lt in E | apply Z.ltb_ge in E]; lia.
  - rewrite as_lmin0, as_lseen0, ref_lmin_snoc. unfold min_step. destruct rs as [|x tl].
    + reflexivity.
    + cbn [negb orb]. destruct (r_lat r <? ref_lmin (x :: tl)) eqn:E;
        [apply Z.ltb_lt in E | apply Z.ltb_ge in E]; lia.
  - destruct rs; reflexivity.
  - rewrite as_earliest0, ref_earliest_snoc. destruct (ref_earliest rs) as [e|]; [|reflexivity].
    destruct (r_ts r <? e) eqn:E; [apply Z.ltb_lt in E | apply Z.ltb_ge in E]; f_equal; lia.
  - rewrite as_latest0, ref_latest_snoc. destruct (ref_latest rs) as [e|]; [|reflexivity].
    destruct (e <? r_ts r) eqn:E; [apply Z.ltb_lt in E | apply Z.ltb_ge in E]; f_equal; lia.
  - rewrite as_end0, ref_end_snoc. unfold r_end. destruct (ref_end rs) as [e|]; [|reflexivity].
    destruct (e <? r_ts r + r_lat r) eqn:E; [apply Z.ltb_lt in E | apply Z.ltb_ge in E]; f_equal; lia.
  - rewrite as_success0, ref_success_snoc. unfold is_success.
    destruct ((200 <=? r_code r) && (r_code r <? 400)); lia.
  - intros e. rewrite has_error_snoc, <- as_errors0.
    destruct (r_err r =? 0) eqn:E0.
    + apply Z.eqb_eq in E0. split; [tauto|]. intros [H|(Hne & Hx)]; [exact H | congruence].
    + apply Z.eqb_neq in E0. destruct (memz (r_err r) (m_errors m)) eqn:Em.
      * apply memz_In in Em. split; [tauto|]. intros [H|(Hne & Hx)]; [exact H | subst e; exact Em].
      * rewrite in_app_iff. cbn [In]. split.
        -- intros [H|[H|[]]]; [left; exact H | right; subst e; split; [exact E0 | reflexivity]].
        -- intros [H|(Hne & Hx)]; [left; exact H | right; left; exact Hx].
  - destruct (r_err r =? 0); [assumption|]. destruct (memz (r_err r) (m_errors m)) eqn:Em; [assumption|].
    apply (Permutation_NoDup (l := r_err r :: m_errors m)); [apply Permutation_cons_append|].
    constructor; [|assumption].
    intros Hin. apply memz_In in Hin. congruence.
  - assumption.
Qed.

Lemma madds_spec rs : no_overflow rs -> acc_spec rs (madds rs).
Proof.
  induction rs as [|r rs IH] using rev_ind; intros Hno.
  - apply acc_spec_init.
  - rewrite madds_snoc. apply acc_spec_add; [exact Hno|].
    apply IH. apply (no_overflow_prefix _ _ Hno).
Qed.

(* close computes the reference derived fields *)
Lemma close_spec rs : no_overflow rs ->
  m_derived (close (madds rs)) = ref_derived rs.
Proof.
  intros Hno. destruct (madds_spec rs Hno).
  unfold close. rewrite as_requests0.
  destruct rs as [|x tl].
  - cbn. exact as_derived0.
  - assert (ref_requests (x :: tl) =? 0 = false) as ->.
    { apply Z.eqb_neq. unfold ref_requests. cbn [length]. lia. }
    unfold with_derived, compute_derived, ref_derived. cbn [m_derived].
    rewrite as_requests0, as_bin0, as_bout0, as_ltotal0, as_earliest0, as_latest0, as_end0, as_success0.
    reflexivity.
Qed.

(* ---- permutation invariance -------------------------------------------------------- *)

Lemma zsum_perm l l' : Permutation l l' -> zsum l = zsum l'.
Proof. unfold zsum. induction 1; cbn; lia. Qed.

Lemma filter_length_perm {A} (f : A -> bool) l l' :
  Permutation l l' -> length (filter f l) = length (filter f l').
Proof.
  induction 1; cbn; try lia.
  - destruct (f x); cbn; lia.
  - destruct (f x), (f y); cbn; lia.
Qed.

(* min/max of a non-empty list: characterised by bound + attainment *)
Lemma zmin_list_spec d l :
  (zmin_list d l <= d /\ Forall (fun x => zmin_list d l <= x) l) /\
  (zmin_list d l = d \/ In (zmin_list d l) l).
Proof.
  revert d; induction l as [|x tl IH]; intros d; cbn.
  - split; [split; [lia | constructor] | left; reflexivity].
  - specialize (IH (Z.min d x)). unfold zmin_list in *. cbn [fold_left].
    destruct IH as ((H1 & H2) & H3). split; [split|].
    + lia.
    + constructor; [lia | exact H2].
    + destruct H3 as [H3|H3]; [|right; right; exact H3].
      destruct (Z.min_spec d x) as [(_ & E)|(_ & E)]; rewrite E in H3; [left | right; left]; congruence.
Qed.
Lemma zmax_list_spec d l :
  (d <= zmax_list d l /\ Forall (fun x => x <= zmax_list d l) l) /\
  (zmax_list d l = d \/ In (zmax_list d l) l).
Proof.
  revert d; induction l as [|x tl IH]; intros d; cbn.
  - split; [split; [lia | constructor] | left; reflexivity].
  - specialize (IH (Z.max d x)). unfold zmax_list in *. cbn [fold_left].
    destruct IH as ((H1 & H2) & H3). split; [split|].
    + lia.
    + constructor; [lia | exact H2].
    + destruct H3 as [H3|H3]; [|right; right; exact H3].
      destruct (Z.max_spec d x) as [(_ & E)|(_ & E)]; rewrite E in H3; [right; left | left]; congruence.
Qed.

(* generic extremum of f over a non-empty list *)
Definition ext_min (f : result -> Z) (rs : list result) : Z :=
  match rs with [] => 0 | r :: tl => zmin_list (f r) (map f tl) end.
Definition ext_max (f : result -> Z) (rs : list result) : Z :=
  match rs with [] => 0 | r :: tl => zmax_list (f r) (map f tl) end.

Lemma ext_min_spec f rs : rs <> [] ->
  Forall (fun r => ext_min f rs <= f r) rs /\ exists r, In r rs /\ f r = ext_min f rs.
Proof.
  destruct rs as [|x tl]; [congruence|]. intros _. cbn [ext_min].
  destruct (zmin_list_spec (f x) (map f tl)) as ((H1 & H2) & H3). split.
  - constructor; [exact H1|]. rewrite Forall_map in H2. exact H2.
  - destruct H3 as [H3|H3].
    + exists x. split; [left; reflexivity | symmetry; exact H3].
    + apply in_map_iff in H3 as (r & Hr & Hin). exists r. split; [right; exact Hin | exact Hr].
Qed.
Lemma ext_max_spec f rs : rs <> [] ->
  Forall (fun r => f r <= ext_max f rs) rs /\ exists r, In r rs /\ f r = ext_max f rs.
Proof.
  destruct rs as [|x tl]; [congruence|]. intros _. cbn [ext_max].
  destruct (zmax_list_spec (f x) (map f tl)) as ((H1 & H2) & H3). split.
  - constructor; [exact H1|]. rewrite Forall_map in H2. exact H2.
  - destruct H3 as [H3|H3].
    + exists x. split; [left; reflexivity | symmetry; exact H3].
    + apply in_map_iff in H3 as (r & Hr & Hin). exists r. split; [right; exact Hin | exact Hr].
Qed.

Lemma ext_min_perm f rs rs' : Permutation rs rs' -> ext_min f rs = ext_min f rs'.
Proof.
  intros HP. destruct rs as [|x tl].
  - apply Permutation_nil in HP. subst. reflexivity.
  - assert (rs' <> []) as Hne' by (intros ->; apply Permutation_sym, Permutation_nil in HP; discriminate).
    assert (x :: tl <> []) as Hne by discriminate.
    destruct (ext_min_spec f _ Hne) as (B1 & r1 & I1 & E1).
    destruct (ext_min_spec f _ Hne') as (B2 & r2 & I2 & E2).
    rewrite Forall_forall in B1, B2.
    pose proof (B1 r2 (Permutation_in _ (Permutation_sym HP) I2)).
    pose proof (B2 r1 (Permutation_in _ HP I1)). lia.
Qed.
Lemma ext_max_perm f rs rs' : Permutation rs rs' -> ext_max f rs = ext_max f rs'.
Proof.
  intros HP. destruct rs as [|x tl].
  - apply Permutation_nil in HP. subst. reflexivity.
  - assert (rs' <> []) as Hne' by (intros ->; apply Permutation_sym, Permutation_nil in HP; discriminate).
    assert (x :: tl <> []) as Hne by discriminate.
    destruct (ext_max_spec f _ Hne) as (B1 & r1 & I1 & E1).
    destruct (ext_max_spec f _ Hne') as (B2 & r2 & I2 & E2).
    rewrite Forall_forall in B1, B2.
    pose proof (B1 r2 (Permutation_in _ (Permutation_sym HP) I2)).
    pose proof (B2 r1 (Permutation_in _ HP I1)). lia.
Qed.

Lemma ref_lmin_ext rs : ref_lmin rs = ext_min r_lat rs. Proof. reflexivity. Qed.
Lemma ref_lmax_ext rs : ref_lmax rs = ext_max r_lat rs. Proof. reflexivity. Qed.
Lemma ref_earliest_ext rs : ref_earliest rs = match rs with [] => None | _ => Some (ext_min r_ts rs) end.
Proof. destruct rs; reflexivity. Qed.
Lemma ref_latest_ext rs : ref_latest rs = match rs with [] => None | _ => Some (ext_max r_ts rs) end.
Proof. destruct rs; reflexivity. Qed.
Lemma ref_end_ext rs : ref_end rs = match rs with [] => None | _ => Some (ext_max r_end rs) end.
Proof. destruct rs; reflexivity. Qed.

Lemma perm_nil_cases {A} (l l' : list A) : Permutation l l' ->
  (l = [] /\ l' = []) \/ (l <> [] /\ l' <> []).
Proof.
  intros HP. destruct l as [|x tl].
  - apply Permutation_nil in HP. left; split; [reflexivity | assumption].
  - right. split; [discriminate|]. intros ->. apply Permutation_sym, Permutation_nil in HP. discriminate.
Qed.

Record ref_same (rs rs' : list result) : Prop := {
  rs_requests : ref_requests rs = ref_requests rs';
  rs_codes : forall c, ref_code rs c = ref_code rs' c;
  rs_bin : ref_bin rs = ref_bin rs';
  rs_bout : ref_bout rs = ref_bout rs';
  rs_ltotal : ref_ltotal rs = ref_ltotal rs';
  rs_lmin : ref_lmin rs = ref_lmin rs';
  rs_lmax : ref_lmax rs = ref_lmax rs';
  rs_earliest : ref_earliest rs = ref_earliest rs';
  rs_latest : ref_latest rs = ref_latest rs';
  rs_end : ref_end rs = ref_end rs';
  rs_success : ref_success rs = ref_success rs';
  rs_errors : forall e, ref_has_error rs e <-> ref_has_error rs' e;
  rs_derived : ref_derived rs = ref_derived rs' }.

Lemma ref_perm rs rs' : Permutation rs rs' -> ref_same rs rs'.
Proof.
  intros HP.
  assert (ref_requests rs = ref_requests rs') as E1
    by (unfold ref_requests; now rewrite (Permutation_length HP)).
  assert (ref_bin rs = ref_bin rs') as E2 by (apply zsum_perm, Permutation_map, HP).
  assert (ref_bout rs = ref_bout rs') as E3 by (apply zsum_perm, Permutation_map, HP).
  assert (ref_ltotal rs = ref_ltotal rs') as E4 by (apply zsum_perm, Permutation_map, HP).
  assert (ref_success rs = ref_success rs') as E5
    by (unfold ref_success; now rewrite (filter_length_perm _ _ _ HP)).
  assert (ref_earliest rs = ref_earliest rs') as E6.
  { rewrite !ref_earliest_ext, (ext_min_perm r_ts _ _ HP).
    destruct (perm_nil_cases _ _ HP) as [(-> & ->)|(H1 & H2)]; [reflexivity|].
    destruct rs, rs'; congruence. }
  assert (ref_latest rs = ref_latest rs') as E7.
  { rewrite !ref_latest_ext, (ext_max_perm r_ts _ _ HP).
    destruct (perm_nil_cases _ _ HP) as [(-> & ->)|(H1 & H2)]; [reflexivity|].
    destruct rs, rs'; congruence. }
  assert (ref_end rs = ref_end rs') as E8.
  { rewrite !ref_end_ext, (ext_max_perm r_end _ _ HP).
    destruct (perm_nil_cases _ _ HP) as [(-> & ->)|(H1 & H2)]; [reflexivity|].
    destruct rs, rs'; congruence. }
  constructor; try assumption.
  - intros c. unfold ref_code. now rewrite (filter_length_perm _ _ _ HP).
  - rewrite !ref_lmin_ext. apply ext_min_perm, HP.
  - rewrite !ref_lmax_ext. apply ext_max_perm, HP.
  - intros e. unfold ref_has_error. split; intros (Hne & r & Hin & Hr); (split; [assumption|]); exists r; (split; [|assumption]).
    + eapply Permutation_in; eassumption.
    + eapply Permutation_in; [apply Permutation_sym|]; eassumption.
  - unfold ref_derived. rewrite E1, E2, E3, E4, E5, E6, E7, E8.
    destruct (perm_nil_cases _ _ HP) as [(-> & ->)|(H1 & H2)]; [reflexivity|].
    destruct rs, rs'; congruence.
Qed.

Lemma no_overflow_perm rs rs' : Permutation rs rs' -> no_overflow rs -> no_overflow rs'.
Proof.
  intros HP (HF & H1 & H2 & H3 & H4). destruct (ref_perm _ _ HP).
  repeat split; try congruence; try lia.
  eapply Permutation_Forall; eassumption.
Qed.

(* ---- interleaved closes --------------------------------------------------------------- *)

Lemma add_with_derived m d r : add (with_derived m d) r = with_derived (add m r) d.
Proof. reflexivity. Qed.
Lemma with_derived_twice m d d' : with_derived (with_derived m d) d' = with_derived m d'.
Proof. reflexivity. Qed.
Lemma with_derived_self m : with_derived m (m_derived m) = m.
Proof. destruct m; reflexivity. Qed.
Lemma compute_with_derived m d : compute_derived (with_derived m d) = compute_derived m.
Proof. reflexivity. Qed.

(* any state differs from the add-only state at most in its derived fields *)
Lemma run_acc ops : forall m,
  with_derived (run ops m) derived0 = with_derived (fold_left add (adds ops) m) derived0.
Proof.
  induction ops as [|o ops IH]; intros m; cbn [run fold_left adds]; [reflexivity|].
  destruct o as [r|]; cbn [step adds fold_left].
  - apply IH.
  - fold (run ops (close m)). rewrite IH.
    assert (forall rs m1 m2, with_derived m1 derived0 = with_derived m2 derived0 ->
              with_derived (fold_left add rs m1) derived0 = with_derived (fold_left add rs m2) derived0) as K.
    { induction rs as [|r rs IHr]; intros m1 m2 E; cbn [fold_left]; [exact E|].
      apply IHr. rewrite <- !add_with_derived. now rewrite E. }
    apply K. unfold close. destruct (m_requests m =? 0); reflexivity.
Qed.

Lemma run_no_adds_derived ops : forall m,
  adds ops = [] -> m_requests m = 0 -> run ops m = m.
Proof.
  induction ops as [|o ops IH]; intros m Ha Hr; [reflexivity|].
  destruct o as [r|]; [discriminate|]. cbn [run fold_left step].
  fold (run ops (close m)). unfold close at 1. rewrite Hr. cbn. apply IH; assumption.
Qed.

Lemma close_interleaved ops :
  no_overflow (adds ops) ->
  close (run ops init) = close (madds (adds ops)).
Proof.
  intros Hno. destruct (adds ops) as [|x tl] eqn:Ha.
  - rewrite run_no_adds_derived by (assumption || reflexivity). reflexivity.
  - pose proof (run_acc ops init) as E. rewrite Ha in E. fold (madds (x :: tl)) in E.
    destruct (madds_spec _ Hno).
    assert (m_requests (run ops init) = m_requests (madds (x :: tl))) as Er.
    { change (m_requests (with_derived (run ops init) derived0) =
              m_requests (with_derived (madds (x :: tl)) derived0)). now rewrite E. }
    unfold close. rewrite Er, as_requests0.
    assert (ref_requests (x :: tl) =? 0 = false) as ->.
    { apply Z.eqb_neq. unfold ref_requests. cbn [length]. lia. }
    rewrite <- (compute_with_derived (run ops init) derived0), E, compute_with_derived.
    rewrite <- (with_derived_twice (run ops init) derived0), E, with_derived_twice. reflexivity.
Qed.

(* ---- packaged statements ------------------------------------------------------------ *)

Definition report_matches_ref (rs : list result) (m : metrics) : Prop :=
  m_requests m = ref_requests rs /\
  (forall c, lookup c (m_codes m) = ref_code rs c) /\
  m_bin m = ref_bin rs /\ m_bout m = ref_bout rs /\
  m_ltotal m = ref_ltotal rs /\ m_lmax m = ref_lmax rs /\ m_lmin m = ref_lmin rs /\
  m_earliest m = ref_earliest rs /\ m_latest m = ref_latest rs /\ m_end m = ref_end rs /\
  m_success m = ref_success rs /\
  (forall e, In e (m_errors m) <-> ref_has_error rs e) /\ NoDup (m_errors m) /\
  m_derived m = ref_derived rs.

Lemma close_fields m :
  m_requests (close m) = m_requests m /\ m_codes (close m) = m_codes m /\
  m_bin (close m) = m_bin m /\ m_bout (close m) = m_bout m /\ m_ltotal (close m) = m_ltotal m /\
  m_lmax (close m) = m_lmax m /\ m_lmin (close m) = m_lmin m /\ m_earliest (close m) = m_earliest m /\
  m_latest (close m) = m_latest m /\ m_end (close m) = m_end m /\ m_success (close m) = m_success m /\
  m_errors (close m) = m_errors m.
Proof. unfold close. destruct (m_requests m =? 0); repeat split; reflexivity. Qed.

Lemma metrics_eq_ref_lemma rs : no_overflow rs -> report_matches_ref rs (close (madds rs)).
Proof.
  intros Hno. pose proof (close_spec rs Hno) as Hd. destruct (madds_spec rs Hno).
  destruct (close_fields (madds rs)) as (E1 & E2 & E3 & E4 & E5 & E6 & E7 & E8 & E9 & E10 & E11 & E12).
  unfold report_matches_ref. rewrite E1, E2, E3, E4, E5, E6, E7, E8, E9, E10, E11, E12.
  repeat match goal with |- _ /\ _ => split end; assumption.
Qed.

Definition report_same (m m' : metrics) : Prop :=
  m_requests m = m_requests m' /\
  (forall c, lookup c (m_codes m) = lookup c (m_codes m')) /\
  m_bin m = m_bin m' /\ m_bout m = m_bout m' /\
  m_ltotal m = m_ltotal m' /\ m_lmax m = m_lmax m' /\ m_lmin m = m_lmin m' /\
  m_earliest m = m_earliest m' /\ m_latest m = m_latest m' /\ m_end m = m_end m' /\
  m_success m = m_success m' /\
  (forall e, In e (m_errors m) <-> In e (m_errors m')) /\
  m_derived m = m_derived m'.

Lemma metrics_perm_lemma rs rs' : Permutation rs rs' -> no_overflow rs ->
  report_same (close (madds rs)) (close (madds rs')).
Proof.
  intros HP Hno. pose proof (no_overflow_perm _ _ HP Hno) as Hno'.
  destruct (metrics_eq_ref_lemma rs Hno) as (A1 & A2 & A3 & A4 & A5 & A6 & A7 & A8 & A9 & A10 & A11 & A12 & _ & A14).
  destruct (metrics_eq_ref_lemma rs' Hno') as (B1 & B2 & B3 & B4 & B5 & B6 & B7 & B8 & B9 & B10 & B11 & B12 & _ & B14).
  destruct (ref_perm _ _ HP).
  unfold report_same. repeat match goal with |- _ /\ _ => split end; try congruence.
  intros e. rewrite A12, B12. apply rs_errors0.
Qed.

(* the pinned LatencyMetrics.Add (Min == 0 means unset) is refuted *)
Lemma min_zero_refuted_lemma :
  exists rs, no_overflow rs /\ m_lmin (fold_left (add_gen false) rs init) <> ref_lmin rs.
Proof.
  exists [ {| r_code := 200; r_ts := 0; r_lat := 0; r_bout := 0; r_bin := 0; r_err := 0 |};
           {| r_code := 200; r_ts := 0; r_lat := 5; r_bout := 0; r_bin := 0; r_err := 0 |} ].
  split.
  - unfold no_overflow, result_ok. repeat split; cbn; try lia; repeat constructor; cbn; lia.
  - cbn. discriminate.
Qed.
