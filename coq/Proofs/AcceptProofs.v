(* Soundness of trace acceptance: every model state the acceptance keeps for a real trace is
   reachable in the LTS, so everything proved of reachable states holds of it. *)
From Coq Require Import ZArith List Bool Lia.
From V Require Import Model.AttackLTS Model.Accept Proofs.AttackProofs.
Import ListNotations.
Open Scope Z_scope.

Definition reach_from (c : cfg) (s s' : st) : Prop := exists ls, run c s ls = Some s'.

Lemma reach_refl c s : reach_from c s s. Proof. exists []. reflexivity. Qed.
Lemma reach_trans c a b d : reach_from c a b -> reach_from c b d -> reach_from c a d.
Proof. intros [l1 H1] [l2 H2]. exists (l1 ++ l2). rewrite run_app, H1. exact H2. Qed.
Lemma reach_step c s l s' : step c s l = Some s' -> reach_from c s s'.
Proof. intros H. exists [l]. cbn. rewrite H. reflexivity. Qed.

Lemma filter_map_in {A B} (f : A -> option B) l y : In y (filter_map f l) -> exists x, In x l /\ f x = Some y.
Proof.
  induction l as [|x tl IH]; cbn; [tauto|]. destruct (f x) eqn:E.
  - intros [<-|H]; [exists x; split; [left; reflexivity | exact E]|]. destruct (IH H) as (x' & H1 & H2). exists x'. split; [right; exact H1 | exact H2].
  - intros H. destruct (IH H) as (x' & H1 & H2). exists x'. split; [right; exact H1 | exact H2].
Qed.

Lemma auto_succs_reach c s s' : In s' (auto_succs c s) -> reach_from c s s'.
Proof. intros H. apply filter_map_in in H as (l & _ & E). eapply reach_step, E. Qed.

Lemma add_dedupe_in s l x : In x (add_dedupe s l) -> x = s \/ In x l.
Proof. unfold add_dedupe. destruct (existsb _ l); [right; assumption | intros [<-|H]; [left; reflexivity | right; exact H]]. Qed.

Lemma fold_dedupe_in succs : forall rest x, In x (fold_right add_dedupe rest succs) -> In x succs \/ In x rest.
Proof.
  induction succs as [|s tl IH]; intros rest x H; cbn in H; [right; exact H|].
  apply add_dedupe_in in H as [->|H]; [left; left; reflexivity|]. destruct (IH rest x H); [left; right; assumption | right; assumption].
Qed.

Lemma settle_sound c fuel : forall front acc out, settle fuel c front acc = Some out ->
  forall x, In x out -> In x acc \/ exists s0, In s0 front /\ reach_from c s0 x.
Proof.
  induction fuel as [|f IH]; intros front acc out H x Hx; cbn [settle] in H; [discriminate|].
  destruct front as [|s rest]; [injection H as <-; left; exact Hx|].
  destruct (auto_succs c s) as [|s1 succs] eqn:E.
  - destruct (IH rest (add_dedupe s acc) out H x Hx) as [Ha|(s0 & H0 & R)].
    + apply add_dedupe_in in Ha as [->|Ha]; [right; exists s; split; [left; reflexivity | apply reach_refl] | left; exact Ha].
    + right. exists s0. split; [right; exact H0 | exact R].
  - destruct (IH (fold_right add_dedupe rest (s1 :: succs)) acc out H x Hx) as [Ha|(s0 & H0 & R)]; [left; exact Ha|].
    apply fold_dedupe_in in H0 as [H0|H0].
    + right. exists s. split; [left; reflexivity|]. eapply reach_trans; [|exact R]. apply auto_succs_reach. rewrite E. exact H0.
    + right. exists s0. split; [right; exact H0 | exact R].
Qed.

Lemma settle_one c s out x : settle settle_fuel c [s] [] = Some out -> In x out -> reach_from c s x.
Proof.
  intros H Hx. destruct (settle_sound c settle_fuel [s] [] out H x Hx) as [[]|(s0 & [<-|[]] & R)]. exact R.
Qed.

Lemma advance_sound c fuel : forall s d out, advance fuel c s d = Some out -> forall x, In x out -> reach_from c s x.
Proof.
  induction fuel as [|f IH]; intros s d out H x Hx; cbn [advance] in H; [discriminate|].
  destruct (d <=? 0); [eapply settle_one; eassumption|].
  assert (forall dd, match step c s (Advance dd) with Some s1 => settle settle_fuel c [s1] [] | None => Some [] end = Some out -> reach_from c s x) as Plain.
  { intros dd H'. destruct (step c s (Advance dd)) as [s1|] eqn:E; [|injection H' as <-; destruct Hx].
    eapply reach_trans; [eapply reach_step, E | eapply settle_one; eassumption]. }
  destruct (pc s) as [| | u | | | | | | |]; try (eapply Plain; exact H).
  destruct ((now s <? u) && (u <? now s + d)); [|eapply Plain; exact H].
  destruct (step c s (Advance (u - now s))) as [s1|] eqn:E; [|injection H as <-; destruct Hx].
  destruct (settle settle_fuel c [s1] []) as [l|] eqn:El; [|discriminate].
  assert (forall l0 out0, (forall s2, In s2 l0 -> reach_from c s s2) ->
            fold_right (fun s2 acc => match acc, advance f c s2 (now s + d - u) with
                                      | Some a, Some b => Some (fold_right add_dedupe a b) | _, _ => None end) (Some []) l0 = Some out0 ->
            forall y, In y out0 -> reach_from c s y) as K.
  { induction l0 as [|s2 l0 IHl]; intros out0 Hr H0 y Hy; cbn [fold_right] in H0; [injection H0 as <-; destruct Hy|].
    destruct (fold_right _ (Some []) l0) as [a|] eqn:Ea; [|discriminate].
    destruct (advance f c s2 (now s + d - u)) as [b|] eqn:Eb; [|discriminate]. injection H0 as <-.
    apply fold_dedupe_in in Hy as [Hy|Hy].
    - eapply reach_trans; [apply Hr; left; reflexivity | eapply IH; eassumption].
    - eapply (IHl a); [intros; apply Hr; right; assumption | reflexivity | exact Hy]. }
  eapply (K l out); [|exact H | exact Hx].
  intros s2 H2. eapply reach_trans; [eapply reach_step, E | eapply settle_one; eassumption].
Qed.

Lemma apply_action_sound c a o s out x : apply_action c a o s = Some out -> In x out -> reach_from c s x.
Proof.
  intros H Hx. unfold apply_action in H.
  assert (forall l, match step c s l with Some s1 => settle settle_fuel c [s1] [] | None => Some [] end = Some out -> reach_from c s x) as One.
  { intros l H'. destruct (step c s l) as [s1|] eqn:E; [|injection H' as <-; destruct Hx].
    eapply reach_trans; [eapply reach_step, E | eapply settle_one; eassumption]. }
  destruct a as [w stop|d|y| | |].
  - eapply One, H.
  - eapply advance_sound; eassumption.
  - eapply One, H.
  - destruct (o_cons o =? 1); [eapply One, H|]. destruct (o_cons o =? 2).
    + destruct (results_closed s); injection H as <-; [destruct Hx as [<-|[]]; apply reach_refl | destruct Hx].
    + destruct (send s); [destruct (results_closed s); injection H as <-; [destruct Hx | destruct Hx as [<-|[]]; apply reach_refl] | injection H as <-; destruct Hx].
  - eapply One, H.
  - eapply settle_one; eassumption.
Qed.

Theorem drive_sound_lemma c steps : forall cands i out,
  (forall s, In s cands -> reachable c s) -> drive c steps cands i = inr out -> forall s, In s out -> reachable c s.
Proof.
  induction steps as [|[a o] tl IH]; intros cands i out Hc H s Hs; cbn [drive] in H.
  - injection H as <-. apply Hc, Hs.
  - destruct (fold_right _ (Some []) cands) as [l|] eqn:El; [|discriminate].
    destruct (filter (fun s0 => matches c o s0 && pending_args_ok o s0) l) as [|s1 l'] eqn:Ef; [discriminate|].
    eapply (IH (s1 :: l') (i + 1) out); [|exact H | exact Hs].
    intros s2 H2. rewrite <- Ef in H2. apply filter_In in H2 as [H2 _].
    (* every element of l comes from a candidate by apply_action *)
    clear - Hc El H2. revert l El s2 H2. induction cands as [|s0 cands IHc]; intros l El s2 H2; cbn [fold_right] in El.
    + injection El as <-. destruct H2.
    + destruct (fold_right _ (Some []) cands) as [l0|] eqn:E0; [|discriminate].
      destruct (apply_action c a o s0) as [l1|] eqn:E1; [|discriminate]. injection El as <-.
      apply fold_dedupe_in in H2 as [H2|H2].
      * destruct (Hc s0 (or_introl eq_refl)) as [ls R]. destruct (apply_action_sound c a o s0 l1 s2 E1 H2) as [ls2 R2].
        exists (ls ++ ls2). rewrite run_app, R. exact R2.
      * eapply (IHc (fun s Hs => Hc s (or_intror Hs)) l0 eq_refl); exact H2.
Qed.

Theorem accepted_reachable_lemma c steps out : drive c steps [init c] 0 = inr out -> forall s, In s out -> reachable c s.
Proof.
  intros H. eapply drive_sound_lemma; [|exact H]. intros s [<-|[]]. exists []. reflexivity.
Qed.
