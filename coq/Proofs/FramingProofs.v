From Coq Require Import ZArith List Bool Lia Arith.
From V Require Import Model.ResultCodec Model.DecoderFor.
Import ListNotations.
Open Scope Z_scope.

(* ---- DecoderFor ---------------------------------------------------------------------------- *)
Lemma decoder_for_replays_lemma ts : forall idx buf rest,
  match decoder_for ts idx buf rest with
  | Some (i, content) => content = buf ++ rest /\ first_accepting ts idx (buf ++ rest) = Some i
  | None => first_accepting ts idx (buf ++ rest) = None
  end.
Proof.
  induction ts as [|t tl IH]; intros idx buf rest; cbn [decoder_for first_accepting]; [reflexivity|].
  set (c := (Nat.min (pulls t (buf ++ rest)) (length (buf ++ rest)) - length buf)%nat).
  assert ((buf ++ firstn c rest) ++ skipn c rest = buf ++ rest) as E
    by (rewrite <- app_assoc, firstn_skipn; reflexivity).
  destruct (accepts t (buf ++ rest)) eqn:A.
  - split; [exact E | reflexivity].
  - specialize (IH (S idx) (buf ++ firstn c rest) (skipn c rest)). rewrite E in IH. exact IH.
Qed.

Lemma noreplay_loses : exists ts s, decoder_for_noreplay ts 0 [] s <> decoder_for ts 0 [] s.
Proof.
  exists [ {| pulls := fun _ => 1%nat; accepts := fun _ => true |} ], [1; 2; 3]. cbn. discriminate.
Qed.

(* ---- newline framing -------------------------------------------------------------------------- *)
Definition enc_lines (ls : list (list Z)) : list Z := concat (map (fun l => l ++ [10]) ls).

Lemma read_lines_partial p : forall cur, ~ In 10 p -> read_lines p cur = ([], negb (Nat.eqb (length (rev cur ++ p)) 0)).
Proof.
  induction p as [|c tl IH]; intros cur H; cbn [read_lines].
  - rewrite app_nil_r, rev_length. destruct cur; reflexivity.
  - destruct (c =? 10) eqn:E; [apply Z.eqb_eq in E; subst; exfalso; apply H; left; reflexivity|].
    rewrite IH by (intros X; apply H; right; exact X). cbn [rev]. rewrite <- app_assoc. reflexivity.
Qed.

Lemma read_lines_line l : forall cur tail, ~ In 10 l ->
  read_lines (l ++ 10 :: tail) cur = (let '(ls, p) := read_lines tail [] in ((rev cur ++ l) :: ls, p)).
Proof.
  induction l as [|c tl IH]; intros cur tail H; cbn [app read_lines].
  - rewrite Z.eqb_refl, app_nil_r. unfold rev'. rewrite <- rev_alt. reflexivity.
  - destruct (c =? 10) eqn:E; [apply Z.eqb_eq in E; subst; exfalso; apply H; left; reflexivity|].
    rewrite IH by (intros X; apply H; right; exact X). cbn [rev]. rewrite <- app_assoc. reflexivity.
Qed.

Lemma read_lines_complete ls p : Forall (fun l => ~ In 10 l) ls -> ~ In 10 p ->
  read_lines (enc_lines ls ++ p) [] = (ls, negb (Nat.eqb (length p) 0)).
Proof.
  induction ls as [|l tl IH]; intros H Hp; cbn [enc_lines map concat app].
  - rewrite (read_lines_partial p [] Hp). reflexivity.
  - inversion H; subst. rewrite <- !app_assoc. cbn [app]. rewrite read_lines_line by assumption.
    fold (enc_lines tl). rewrite IH by assumption. reflexivity.
Qed.

Lemma in_firstn {A} (x : A) k l : In x (firstn k l) -> In x l.
Proof. revert k; induction l as [|y tl IH]; intros [|k] H; cbn in *; try tauto. destruct H; [left; assumption | right; eapply IH; eassumption]. Qed.

(* every prefix of an encoded stream is: some complete lines, then a newline-free piece *)
Lemma prefix_shape ls : Forall (fun l => ~ In 10 l) ls -> forall k,
  exists j p, firstn k (enc_lines ls) = enc_lines (firstn j ls) ++ p /\ ~ In 10 p /\
              (j <= length ls)%nat /\ (length (enc_lines (firstn j ls)) <= k \/ p = [])%nat.
Proof.
  induction ls as [|l tl IH]; intros H k.
  - exists 0%nat, []. cbn. rewrite firstn_nil. repeat split; auto; lia.
  - inversion H as [|? ? Hl Ht]; subst. cbn [enc_lines map concat]. fold (enc_lines tl).
    destruct (le_lt_dec (length (l ++ [10%Z])) k) as [Hk|Hk].
    + rewrite firstn_app. rewrite firstn_all2 by exact Hk.
      destruct (IH Ht (k - length (l ++ [10%Z]))%nat) as (j & p & E & Np & Hj & Hlen).
      exists (S j), p. rewrite E. cbn [firstn enc_lines map concat]. fold (enc_lines (firstn j tl)).
      split; [rewrite <- !app_assoc; reflexivity|]. split; [exact Np|]. split; [cbn; lia|].
      destruct Hlen as [Hlen|Hlen]; [left; rewrite app_length; lia | right; exact Hlen].
    + exists 0%nat, (firstn k l). cbn [firstn enc_lines map concat app].
      rewrite app_length in Hk. cbn [length] in Hk.
      assert (firstn k ((l ++ [10]) ++ enc_lines tl) = firstn k l) as ->.
      { rewrite <- app_assoc. rewrite firstn_app. replace (k - length l)%nat with 0%nat by lia.
        cbn [firstn]. apply app_nil_r. }
      split; [reflexivity|]. split; [intros X; apply Hl; eapply in_firstn; exact X | split; [cbn; lia | left; cbn; lia]].
Qed.

(* ---- gob's length prefix ------------------------------------------------------------------------ *)
Lemma be_val_app a b v : be_val (a ++ b) v = be_val b (be_val a v).
Proof. revert v; induction a as [|x tl IH]; intros v; cbn; [reflexivity | apply IH]. Qed.

Lemma be_bytes_spec fuel : forall x acc, 0 <= x < 256 ^ Z.of_nat fuel ->
  exists bs, be_bytes fuel x acc = bs ++ acc /\ (length bs <= fuel)%nat /\
             (forall v, be_val bs v = v * 256 ^ Z.of_nat (length bs) + x) /\
             (0 < x -> bs <> []) /\ Forall (fun b => 0 <= b < 256) bs.
Proof.
  induction fuel as [|f IH]; intros x acc Hx.
  - cbn in Hx. assert (x = 0) by lia. subst. exists []. cbn. repeat split; auto; try lia.
  - cbn [be_bytes]. destruct (x =? 0) eqn:E.
    + apply Z.eqb_eq in E. subst. exists []. cbn. repeat split; auto; try lia.
    + apply Z.eqb_neq in E.
      pose proof (Z.div_mod x 256 ltac:(lia)) as D. pose proof (Z.mod_pos_bound x 256 ltac:(lia)) as Dr.
      assert (0 <= x / 256 < 256 ^ Z.of_nat f) as Hq.
      { rewrite Nat2Z.inj_succ, Z.pow_succ_r in Hx by lia. split; [apply Z.div_pos; lia | apply Z.div_lt_upper_bound; lia]. }
      destruct (IH (x / 256) (x mod 256 :: acc) Hq) as (bs & Eb & Hl & Hv & Hne & Hf).
      exists (bs ++ [x mod 256]). rewrite Eb, <- app_assoc. split; [reflexivity|]. split; [rewrite app_length; cbn; lia|].
      split; [|split].
      * intros v. rewrite be_val_app, Hv. cbn [be_val]. rewrite app_length. cbn [length].
        rewrite Nat.add_1_r, Nat2Z.inj_succ, Z.pow_succ_r by lia.
        set (q := x / 256) in *. set (r := x mod 256) in *. rewrite D. ring.
      * intros _. destruct bs; discriminate.
      * apply Forall_app. split; [exact Hf | constructor; [exact Dr | constructor]].
Qed.

Lemma pow256_8 : 256 ^ Z.of_nat 8 = 18446744073709551616. Proof. reflexivity. Qed.

Lemma read_gob_uint n rest : 0 <= n < 18446744073709551616 -> read_uint (gob_uint n ++ rest) = Some (n, rest).
Proof.
  intros H. unfold gob_uint. destruct (n <? 128) eqn:E.
  - cbn [app read_uint]. rewrite E. reflexivity.
  - apply Z.ltb_ge in E.
    destruct (be_bytes_spec 8 n [] ltac:(rewrite pow256_8; lia)) as (bs & Eb & Hl & Hv & Hne & Hf).
    rewrite app_nil_r in Eb. rewrite Eb. cbn [app read_uint].
    assert (1 <= length bs)%nat as Hl1 by (destruct bs; [exfalso; apply Hne; [lia | reflexivity] | cbn; lia]).
    assert (256 - Z.of_nat (length bs) <? 128 = false) as -> by (apply Z.ltb_ge; lia).
    replace (Z.to_nat (256 - (256 - Z.of_nat (length bs)))) with (length bs) by lia.
    assert (Nat.ltb (length (bs ++ rest)) (length bs) = false) as -> by (apply Nat.ltb_ge; rewrite app_length; lia).
    rewrite firstn_app, Nat.sub_diag, firstn_all, skipn_app, Nat.sub_diag, skipn_all. cbn [firstn skipn app].
    rewrite app_nil_r, Hv. cbn [Z.mul Z.add]. reflexivity.
Qed.

(* a strict prefix of a length prefix is never read as a complete one *)
Lemma read_gob_uint_cut n k : 0 <= n < 18446744073709551616 -> (k < length (gob_uint n))%nat ->
  read_uint (firstn k (gob_uint n)) = None.
Proof.
  intros H Hk. unfold gob_uint in *. destruct (n <? 128) eqn:E.
  - cbn [length] in Hk. assert (k = 0)%nat by lia. subst. reflexivity.
  - apply Z.ltb_ge in E.
    destruct (be_bytes_spec 8 n [] ltac:(rewrite pow256_8; lia)) as (bs & Eb & Hl & Hv & Hne & Hf).
    rewrite app_nil_r in Eb. rewrite Eb in *. cbn [length] in Hk. destruct k as [|k]; [reflexivity|].
    cbn [firstn read_uint].
    assert (1 <= length bs)%nat as Hl1 by (destruct bs; [exfalso; apply Hne; [lia | reflexivity] | cbn; lia]).
    assert (256 - Z.of_nat (length bs) <? 128 = false) as -> by (apply Z.ltb_ge; lia).
    replace (Z.to_nat (256 - (256 - Z.of_nat (length bs)))) with (length bs) by lia.
    assert (Nat.ltb (length (firstn k bs)) (length bs) = true) as -> by (apply Nat.ltb_lt; rewrite firstn_length; lia).
    reflexivity.
Qed.

Lemma read_frames_S f s : s <> [] ->
  read_frames (S f) s = match read_uint s with
             | None => ([], true)
             | Some (n, rest) =>
                 if Z.of_nat (length rest) <? n then ([], true)
                 else let '(fs, p) := read_frames f (skipn (Z.to_nat n) rest) in
                      (firstn (Z.to_nat n) rest :: fs, p)
             end.
Proof. destruct s; [congruence | reflexivity]. Qed.

Lemma gob_uint_app_ne n x : gob_uint n ++ x <> [].
Proof. unfold gob_uint. destruct (n <? 128); discriminate. Qed.

Definition payload_ok (p : list Z) : Prop := Z.of_nat (length p) < 18446744073709551616.

Lemma read_frames_complete ps : Forall payload_ok ps -> forall fuel tail, (length ps < fuel)%nat ->
  read_frames fuel (concat (map frame ps) ++ tail) =
  (let '(fs, p) := read_frames (fuel - length ps) tail in (ps ++ fs, p)).
Proof.
  induction ps as [|p tl IH]; intros H fuel tail Hf; cbn [map concat app length].
  - rewrite Nat.sub_0_r. destruct (read_frames fuel tail); reflexivity.
  - inversion H as [|? ? Hp Ht]; subst. destruct fuel as [|f]; [lia|].
    unfold frame at 1. rewrite <- !app_assoc. rewrite read_frames_S by apply gob_uint_app_ne.
    rewrite read_gob_uint by (unfold payload_ok in Hp; lia).
    assert (Z.of_nat (length (p ++ concat (map frame tl) ++ tail)) <? Z.of_nat (length p) = false) as ->
      by (apply Z.ltb_ge; rewrite app_length; lia).
    rewrite Nat2Z.id, firstn_app, Nat.sub_diag, firstn_all, skipn_app, Nat.sub_diag, skipn_all. cbn [firstn skipn app].
    rewrite app_nil_r. rewrite IH by (try assumption; cbn [length] in Hf; lia).
    replace (S f - S (length tl))%nat with (f - length tl)%nat by lia.
    destruct (read_frames (f - length tl) tail). reflexivity.
Qed.

(* a cut inside a frame: no frame is produced from the partial one, and the cut is noticed *)
Lemma read_frames_cut p k fuel : payload_ok p -> (k < length (frame p))%nat -> (0 < k)%nat -> (0 < fuel)%nat ->
  read_frames fuel (firstn k (frame p)) = ([], true).
Proof.
  intros Hp Hk Hk0 Hf. destruct fuel as [|f]; [lia|]. unfold frame in *.
  rewrite firstn_app.
  destruct (le_lt_dec (length (gob_uint (Z.of_nat (length p)))) k) as [Hge|Hlt].
  - (* the length prefix is complete, the payload is short *)
    rewrite firstn_all2 by exact Hge.
    rewrite read_frames_S by apply gob_uint_app_ne. rewrite read_gob_uint by (unfold payload_ok in Hp; lia).
    assert (Z.of_nat (length (firstn (k - length (gob_uint (Z.of_nat (length p)))) p)) <? Z.of_nat (length p) = true) as ->;
      [|reflexivity].
    apply Z.ltb_lt. rewrite firstn_length. rewrite app_length in Hk. lia.
  - replace (k - length (gob_uint (Z.of_nat (length p))))%nat with 0%nat by lia. cbn [firstn]. rewrite app_nil_r.
    rewrite read_frames_S by (destruct k; [lia|]; unfold gob_uint; destruct (Z.of_nat (length p) <? 128); discriminate).
    rewrite read_gob_uint_cut by (try exact Hlt; unfold payload_ok in Hp; lia). reflexivity.
Qed.

(* every cut of a framed stream: exactly the complete frames before the cut, partial flag set iff
   the cut is strictly inside a frame *)
Lemma frames_cut_prefix_lemma ps p k : Forall payload_ok ps -> payload_ok p -> (k < length (frame p))%nat ->
  read_frames (S (S (length ps))) (concat (map frame ps) ++ firstn k (frame p)) = (ps, negb (Nat.eqb k 0)).
Proof.
  intros H Hp Hk. rewrite read_frames_complete by (try assumption; lia).
  replace (S (S (length ps)) - length ps)%nat with 2%nat by lia.
  destruct k as [|k].
  - cbn [firstn read_frames]. rewrite app_nil_r. reflexivity.
  - rewrite read_frames_cut by (try assumption; lia). rewrite app_nil_r. reflexivity.
Qed.
