From Coq Require Import ZArith List Bool Lia.
From V Require Import Base.Base64.
Import ListNotations.
Open Scope Z_scope.
Ltac Zify.zify_post_hook ::= Z.div_mod_to_equations.

Lemma b64_val_char v : 0 <= v < 64 -> b64_val (b64_char v) = Some v.
Proof.
  intros H. unfold b64_char.
  destruct (v <? 26) eqn:E1; [apply Z.ltb_lt in E1|apply Z.ltb_ge in E1].
  - unfold b64_val. assert ((65 <=? 65 + v) && (65 + v <=? 90) = true) as -> by (apply andb_true_iff; split; apply Z.leb_le; lia).
    f_equal. lia.
  - destruct (v <? 52) eqn:E2; [apply Z.ltb_lt in E2|apply Z.ltb_ge in E2].
    + unfold b64_val.
      assert ((65 <=? 97 + (v - 26)) && (97 + (v - 26) <=? 90) = false) as -> by (apply andb_false_iff; right; apply Z.leb_gt; lia).
      assert ((97 <=? 97 + (v - 26)) && (97 + (v - 26) <=? 122) = true) as -> by (apply andb_true_iff; split; apply Z.leb_le; lia).
      f_equal. lia.
    + destruct (v <? 62) eqn:E3; [apply Z.ltb_lt in E3|apply Z.ltb_ge in E3].
      * unfold b64_val.
        assert ((65 <=? 48 + (v - 52)) && (48 + (v - 52) <=? 90) = false) as -> by (apply andb_false_iff; left; apply Z.leb_gt; lia).
        assert ((97 <=? 48 + (v - 52)) && (48 + (v - 52) <=? 122) = false) as -> by (apply andb_false_iff; left; apply Z.leb_gt; lia).
        assert ((48 <=? 48 + (v - 52)) && (48 + (v - 52) <=? 57) = true) as -> by (apply andb_true_iff; split; apply Z.leb_le; lia).
        f_equal. lia.
      * assert (v = 62 \/ v = 63) as [->| ->] by lia; reflexivity.
Qed.

Lemma b64_char_not_special v : 0 <= v < 64 -> b64_char v <> 61 /\ b64_char v <> 13 /\ b64_char v <> 10.
Proof.
  intros H. unfold b64_char.
  destruct (v <? 26) eqn:E1; [apply Z.ltb_lt in E1; lia|apply Z.ltb_ge in E1].
  destruct (v <? 52) eqn:E2; [apply Z.ltb_lt in E2; lia|apply Z.ltb_ge in E2].
  destruct (v <? 62) eqn:E3; [apply Z.ltb_lt in E3; lia|apply Z.ltb_ge in E3].
  destruct (v =? 62); lia.
Qed.

Lemma byte_bits a : is_byte a = true ->
  0 <= a / 4 < 64 /\ 0 <= a mod 4 < 4 /\ 0 <= a / 16 < 16 /\ 0 <= a mod 16 < 16 /\ 0 <= a / 64 < 4 /\ 0 <= a mod 64 < 64.
Proof.
  unfold is_byte. intros H. apply andb_true_iff in H as [H1 H2]. apply Z.leb_le in H1. apply Z.ltb_lt in H2.
  repeat split; try (apply Z.div_pos; lia); try (apply Z.mod_pos_bound; lia); try (apply Z.div_lt_upper_bound; lia).
Qed.

(* encoding never produces CR/LF, so the filter of the decoder is the identity on it *)
Lemma b64_encode_no_crlf bs : forallb is_byte bs = true ->
  filter (fun c => negb ((c =? 13) || (c =? 10))) (b64_encode bs) = b64_encode bs.
Proof.
  assert (forall v, 0 <= v < 64 -> negb ((b64_char v =? 13) || (b64_char v =? 10)) = true) as K.
  { intros v Hv. destruct (b64_char_not_special v Hv) as (_ & A & B).
    apply negb_true_iff, orb_false_iff. split; apply Z.eqb_neq; assumption. }
  revert bs. fix IH 1. intros [|a [|b [|c tl]]] H; cbn [b64_encode]; [reflexivity| | |].
  - cbn in H. apply andb_true_iff in H as [Ha _]. destruct (byte_bits a Ha) as (A1 & A2 & _).
    cbn [filter]. rewrite !K by lia. reflexivity.
  - cbn in H. apply andb_true_iff in H as [Ha H]. apply andb_true_iff in H as [Hb _].
    destruct (byte_bits a Ha) as (A1 & A2 & _). destruct (byte_bits b Hb) as (_ & _ & B3 & B4 & _).
    cbn [filter]. rewrite !K by lia. reflexivity.
  - cbn in H. apply andb_true_iff in H as [Ha H]. apply andb_true_iff in H as [Hb H]. apply andb_true_iff in H as [Hc H].
    destruct (byte_bits a Ha) as (A1 & A2 & _). destruct (byte_bits b Hb) as (_ & _ & B3 & B4 & _).
    destruct (byte_bits c Hc) as (_ & _ & _ & _ & C5 & C6).
    cbn [filter]. rewrite !K by lia. rewrite (IH tl H). reflexivity.
Qed.

Lemma char_neq_pad v : 0 <= v < 64 -> (b64_char v =? 61) = false.
Proof. intros H. apply Z.eqb_neq. apply (b64_char_not_special v H). Qed.

Lemma split4 a : 0 <= a -> (a / 4) * 4 + a mod 4 = a.
Proof. intros. pose proof (Z.div_mod a 4 ltac:(lia)). lia. Qed.

Lemma b64_groups_roundtrip : forall bs fuel, forallb is_byte bs = true -> (length (b64_encode bs) < fuel)%nat ->
  b64_decode_groups fuel (b64_encode bs) = Some bs.
Proof.
  fix IH 1. intros [|a [|b [|c tl]]] fuel H Hf.
  - destruct fuel; reflexivity.
  - destruct fuel as [|f]; [cbn in Hf; lia|].
    cbn in H. apply andb_true_iff in H as [Ha _]. destruct (byte_bits a Ha) as (A1 & A2 & _).
    cbn [b64_encode b64_decode_groups]. rewrite Z.eqb_refl, !b64_val_char by lia.
    f_equal. f_equal. lia.
  - destruct fuel as [|f]; [cbn in Hf; lia|].
    cbn in H. apply andb_true_iff in H as [Ha H]. apply andb_true_iff in H as [Hb _].
    destruct (byte_bits a Ha) as (A1 & A2 & _). destruct (byte_bits b Hb) as (_ & _ & B3 & B4 & _).
    cbn [b64_encode b64_decode_groups]. rewrite Z.eqb_refl, (char_neq_pad ((b mod 16) * 4)) by lia.
    rewrite !b64_val_char by lia. f_equal. f_equal; [|f_equal]; lia.
  - destruct fuel as [|f]; [cbn in Hf; lia|].
    cbn in H. apply andb_true_iff in H as [Ha H]. apply andb_true_iff in H as [Hb H]. apply andb_true_iff in H as [Hc H].
    destruct (byte_bits a Ha) as (A1 & A2 & _). destruct (byte_bits b Hb) as (_ & _ & B3 & B4 & _).
    destruct (byte_bits c Hc) as (_ & _ & _ & _ & C5 & C6).
    cbn [b64_encode b64_decode_groups]. rewrite (char_neq_pad (c mod 64)) by lia.
    rewrite !b64_val_char by lia. rewrite (IH tl f H) by (cbn [b64_encode length] in Hf; lia).
    f_equal. f_equal; [|f_equal; [|f_equal]]; lia.
Qed.

(* base64 round trip: for every byte string *)
Lemma b64_roundtrip_lemma bs : forallb is_byte bs = true -> b64_decode (b64_encode bs) = Some bs.
Proof.
  intros H. unfold b64_decode. rewrite (b64_encode_no_crlf bs H). apply b64_groups_roundtrip; [exact H | lia].
Qed.
