(* time.Duration.String followed by time.ParseDuration is the identity on positive durations
   (both are reference models of library code, Base/DurString.v and Base/Duration.v). *)
From Coq Require Import ZArith List Bool Lia.
From V Require Import Base.Duration Base.Str Base.DurString Model.Flags Proofs.DecimalProofs.
Import ListNotations.
Open Scope Z_scope.

Definition alldig (l : list Z) : Prop := Forall (fun c => is_digit c = true) l.
Definition dacc (ds : list Z) (x : Z) : Z := fold_left (fun a c => a * 10 + (c - 48)) ds x.
Definition zlen (l : list Z) : Z := Z.of_nat (length l).

Lemma is_digit_range c : is_digit c = true -> 0 <= c - 48 <= 9.
Proof. unfold is_digit. intros H. apply andb_true_iff in H as [A B]. apply Z.leb_le in A, B. lia. Qed.

Lemma dacc_mono ds : forall x, 0 <= x -> alldig ds -> x <= dacc ds x.
Proof.
  induction ds as [|c tl IH]; intros x Hx Hd; cbn; [lia|].
  inversion Hd as [|? ? Hc Ht]; subst. pose proof (is_digit_range c Hc).
  specialize (IH (x * 10 + (c - 48)) ltac:(lia) Ht). unfold dacc in IH. lia.
Qed.

Lemma dacc_pow ds : forall x, dacc ds x = x * 10 ^ zlen ds + dacc ds 0.
Proof.
  unfold zlen. induction ds as [|c tl IH]; intros x; cbn [dacc fold_left length].
  - cbn. lia.
  - fold (dacc tl (x * 10 + (c - 48))). fold (dacc tl (0 * 10 + (c - 48))).
    rewrite (IH (x * 10 + (c - 48))), (IH (0 * 10 + (c - 48))).
    rewrite Nat2Z.inj_succ, Z.pow_succ_r by lia. ring.
Qed.

Lemma dacc_nonneg ds : alldig ds -> 0 <= dacc ds 0.
Proof. intros H. apply (dacc_mono ds 0); [lia | exact H]. Qed.

Lemma digits_val_dacc ds : forall x, alldig ds -> digits_val ds x = Some (dacc ds x).
Proof.
  induction ds as [|c tl IH]; intros x Hd; cbn; [reflexivity|].
  inversion Hd as [|? ? Hc Ht]; subst. rewrite Hc. apply IH. exact Ht.
Qed.

Lemma alldig_digits_of fuel : forall m acc, 0 <= m -> alldig acc -> alldig (digits_of fuel m acc).
Proof.
  induction fuel as [|f IH]; intros m acc Hm Ha; cbn; [exact Ha|].
  destruct (m <? 10) eqn:E.
  - apply Z.ltb_lt in E. constructor; [apply (is_digit_48 m); lia | exact Ha].
  - apply Z.ltb_ge in E. apply IH; [apply Z.div_pos; lia|].
    constructor; [apply (is_digit_48 (m mod 10)); apply Z.mod_pos_bound; lia | exact Ha].
Qed.

Lemma Some_inj (a b : Z) : Some a = Some b -> a = b.
Proof. intros H. injection H. auto. Qed.

Lemma udec_spec n : 0 <= n < 18446744073709551616 ->
  alldig (udec n) /\ udec n <> [] /\ dacc (udec n) 0 = n.
Proof.
  intros H. unfold udec. pose proof big_enough as BE.
  destruct (digits_of_val 80 n ltac:(lia) ltac:(lia)) as (k & Hk & Hne & Hv).
  assert (alldig (digits_of 80 n [])) as A by (apply alldig_digits_of; [lia | constructor]).
  split; [exact A|]. split; [exact Hne|].
  specialize (Hv 0). rewrite (digits_val_dacc _ 0 A) in Hv. clear BE. apply Some_inj in Hv. rewrite Hv. lia.
Qed.

Definition nodig_head (rest : list Z) : Prop := match rest with [] => True | c :: _ => is_digit c = false end.

Lemma leading_int_digits ds : forall rest x, alldig ds -> 0 <= x -> dacc ds x <= two63 -> nodig_head rest ->
  leading_int (ds ++ rest) x = Some (dacc ds x, rest).
Proof.
  induction ds as [|c tl IH]; intros rest x Hd Hx Hb Hr.
  - cbn. destruct rest as [|c r]; [reflexivity|]. cbn in Hr. cbn. rewrite Hr. reflexivity.
  - inversion Hd as [|? ? Hc Ht]; subst. pose proof (is_digit_range c Hc) as Rc.
    cbn [app leading_int]. rewrite Hc.
    change (dacc (c :: tl) x) with (dacc tl (x * 10 + (c - 48))) in *.
    pose proof (dacc_mono tl (x * 10 + (c - 48)) ltac:(lia) Ht) as M.
    assert (two63 / 10 <? x = false) as ->.
    { apply Z.ltb_ge. apply Z.div_le_lower_bound; lia. }
    assert (two63 <? x * 10 + (c - 48) = false) as -> by (apply Z.ltb_ge; lia).
    apply IH; [exact Ht | lia | exact Hb | exact Hr].
Qed.

Lemma leading_fraction_digits ds : forall rest x sc, alldig ds -> 0 <= x -> dacc ds x <= (two63 - 1) / 10 -> nodig_head rest ->
  leading_fraction (ds ++ rest) x sc false = (dacc ds x, sc * 10 ^ zlen ds, rest).
Proof.
  unfold zlen. induction ds as [|c tl IH]; intros rest x sc Hd Hx Hb Hr.
  - cbn [app length dacc fold_left]. replace (sc * 10 ^ Z.of_nat 0) with sc by (cbn; lia).
    destruct rest as [|c r]; [reflexivity|]. cbn in Hr. cbn. rewrite Hr. reflexivity.
  - inversion Hd as [|? ? Hc Ht]; subst. pose proof (is_digit_range c Hc) as Rc.
    cbn [app leading_fraction]. rewrite Hc.
    change (dacc (c :: tl) x) with (dacc tl (x * 10 + (c - 48))) in *.
    pose proof (dacc_mono tl (x * 10 + (c - 48)) ltac:(lia) Ht) as M.
    assert ((two63 - 1) / 10 = 922337203685477580) as K by reflexivity. rewrite K in *.
    assert (922337203685477580 <? x = false) as -> by (apply Z.ltb_ge; lia).
    assert (two63 <? x * 10 + (c - 48) = false) as ->.
    { apply Z.ltb_ge. assert (two63 = 9223372036854775808) as -> by reflexivity. lia. }
    rewrite (IH rest (x * 10 + (c - 48)) (sc * 10) Ht ltac:(lia) Hb Hr).
    cbn [length]. rewrite Nat2Z.inj_succ, Z.pow_succ_r by lia. f_equal. f_equal. ring.
Qed.

(* ---- fmtFrac ---- *)
Definition frac_text (ds suf : list Z) : list Z := match ds with [] => suf | _ => 46 :: ds ++ suf end.

Lemma dacc_cons c tl : dacc (c :: tl) 0 = (c - 48) * 10 ^ zlen tl + dacc tl 0.
Proof. change (dacc (c :: tl) 0) with (dacc tl (0 * 10 + (c - 48))). rewrite dacc_pow. ring. Qed.

Lemma fmt_frac_spec p : forall v print ds suf, 0 <= v -> alldig ds -> (print = true <-> ds <> []) ->
  exists ds', fmt_frac p v print (ds ++ suf) = (frac_text ds' suf, v / 10 ^ Z.of_nat p)
    /\ alldig ds' /\ (length ds' <= p + length ds)%nat
    /\ dacc ds' 0 * 10 ^ (Z.of_nat p + zlen ds) = ((v mod 10 ^ Z.of_nat p) * 10 ^ zlen ds + dacc ds 0) * 10 ^ zlen ds'
    /\ (ds' = [] -> ds = [] /\ v mod 10 ^ Z.of_nat p = 0).
Proof.
  induction p as [|p IH]; intros v print ds suf Hv Hd Hp.
  - exists ds. cbn [fmt_frac]. split.
    + f_equal; [|cbn; now rewrite Z.div_1_r]. unfold frac_text. destruct print.
      * destruct ds; [exfalso; apply (proj1 Hp eq_refl); reflexivity | reflexivity].
      * destruct ds as [|c tl]; [reflexivity|]. assert (false = true) by (apply Hp; discriminate). discriminate.
    + split; [exact Hd|]. split; [lia|]. split.
      * change (10 ^ Z.of_nat 0) with 1. rewrite Z.mod_1_r. cbn [Z.of_nat Z.add]. ring.
      * intros ->. split; [reflexivity|]. change (10 ^ Z.of_nat 0) with 1. apply Z.mod_1_r.
  - cbn [fmt_frac].
    pose proof (Z.mod_pos_bound v 10 ltac:(lia)) as Hm. pose proof (Z.div_mod v 10 ltac:(lia)) as Hdm.
    assert (0 <= v / 10) as Hq by (apply Z.div_pos; lia).
    assert (v / 10 ^ Z.of_nat (S p) = v / 10 / 10 ^ Z.of_nat p) as Ediv.
    { rewrite Nat2Z.inj_succ, Z.pow_succ_r by lia. rewrite Z.div_div by lia. reflexivity. }
    assert (v mod 10 ^ Z.of_nat (S p) = 10 * ((v / 10) mod 10 ^ Z.of_nat p) + v mod 10) as Emod.
    { rewrite Nat2Z.inj_succ, Z.pow_succ_r by lia. rewrite Z.rem_mul_r by lia. ring. }
    destruct (print || negb (v mod 10 =? 0)) eqn:Pr.
    + (* the digit is printed *)
      assert (alldig ((48 + v mod 10) :: ds)) as Hd'.
      { constructor; [apply (is_digit_48 (v mod 10)); lia | exact Hd]. }
      destruct (IH (v / 10) true ((48 + v mod 10) :: ds) suf Hq Hd') as (ds' & E & A & L & R & N).
      { split; [discriminate | reflexivity]. }
      exists ds'. change (((48 + v mod 10) :: ds) ++ suf) with ((48 + v mod 10) :: ds ++ suf) in E.
      rewrite E, Ediv. split; [reflexivity|]. split; [exact A|]. split; [cbn [length] in L; lia|]. split.
      * rewrite dacc_cons in R. unfold zlen in *. cbn [length] in R. rewrite Nat2Z.inj_succ in R.
        rewrite Emod. replace (48 + v mod 10 - 48) with (v mod 10) in R by lia.
        rewrite Nat2Z.inj_succ.
        replace (Z.succ (Z.of_nat p) + Z.of_nat (length ds)) with (Z.of_nat p + Z.succ (Z.of_nat (length ds))) by lia.
        rewrite R. rewrite Z.pow_succ_r by lia. ring.
      * intros ->. destruct (N eq_refl) as [N1 _]. discriminate.
    + (* a trailing zero, dropped *)
      apply orb_false_iff in Pr as [Pr1 Pr2]. subst print.
      apply negb_false_iff, Z.eqb_eq in Pr2.
      assert (ds = []) as -> by (destruct ds; [reflexivity | assert (false = true) by (apply Hp; discriminate); discriminate]).
      destruct (IH (v / 10) false [] suf Hq Hd) as (ds' & E & A & L & R & N).
      { split; [discriminate | congruence]. }
      exists ds'. rewrite E, Ediv. split; [reflexivity|]. split; [exact A|]. split; [cbn [length] in *; lia|]. split.
      * unfold zlen in *. cbn [length dacc fold_left] in *. rewrite Emod, Pr2.
        rewrite Nat2Z.inj_succ. change (Z.of_nat 0) with 0 in *. rewrite Z.add_0_r in *.
        rewrite Z.pow_succ_r by lia. change (10 ^ 0) with 1 in *.
        transitivity (10 * (dacc ds' 0 * 10 ^ Z.of_nat p)); [ring|]. rewrite R. ring.
      * intros ->. destruct (N eq_refl) as [_ N2]. split; [reflexivity|]. rewrite Emod, N2, Pr2. reflexivity.
Qed.

(* ---- one group of ParseDuration: digits, optional fraction, unit ---- *)
Definition frac_scan (s1 : list Z) : Z * Z * list Z * bool :=
  match s1 with
  | 46 :: tl => let '(f, sc, r) := leading_fraction tl 0 1 false in
                (f, sc, r, negb (Nat.eqb (length r) (length tl)))
  | _ => (0, 1, s1, false)
  end.

Lemma pg_step fuel s d ix c0 s' v s1 f scale s2 post u0 utl s3 unit :
  s = c0 :: s' -> (c0 =? 46) || is_digit c0 = true ->
  leading_int s 0 = Some (v, s1) ->
  frac_scan s1 = (f, scale, s2, post) ->
  Nat.eqb (length s1) (length s) = false ->
  span_unit s2 [] = (u0 :: utl, s3) -> unit_ns (u0 :: utl) = Some unit ->
  two63 / unit <? v = false ->
  (0 <? f) && (two63 <? v * unit + (if 0 <? f then f * unit / scale else 0)) = false ->
  two63 <? d + (v * unit + (if 0 <? f then f * unit / scale else 0)) = false ->
  parse_groups (S fuel) s d ix =
  parse_groups fuel s3 (d + (v * unit + (if 0 <? f then f * unit / scale else 0)))
               (ix || (if 0 <? f then negb ((f * unit) mod scale =? 0) else false)).
Proof.
  intros Es Hc Hl Hfs Hlen Hsp Hun H1 H2 H3.
  rewrite Es in *. cbn [parse_groups]. rewrite Hc. cbn [negb]. rewrite Hl.
  unfold frac_scan in Hfs. rewrite Hfs. rewrite Hlen. cbn [negb andb].
  rewrite Hsp, Hun, H1, H2, H3. reflexivity.
Qed.

Definition units : list (list Z * Z) :=
  [([110; 115], 1); ([194; 181; 115], 1000); ([109; 115], 1000000); ([115], 1000000000);
   ([109], 60000000000); ([104], 3600000000000)].
Definition dig_head (rest : list Z) : Prop := match rest with [] => True | c :: _ => is_digit c = true end.

Lemma span_unit_stop acc rest : dig_head rest -> span_unit rest acc = (rev acc, rest).
Proof. destruct rest as [|c r]; cbn; [reflexivity|]. intros ->. rewrite orb_true_r. reflexivity. Qed.

Lemma unit_facts u uns rest : In (u, uns) units -> dig_head rest ->
  span_unit (u ++ rest) [] = (u, rest) /\ unit_ns u = Some uns /\ 1 <= uns /\
  exists u0 utl, u = u0 :: utl /\ is_digit u0 = false /\ frac_scan (u ++ rest) = (0, 1, u ++ rest, false).
Proof.
  intros Hu Hr. cbn in Hu.
  repeat (destruct Hu as [Hu|Hu]; [injection Hu as <- <-;
    (split; [cbn [app span_unit]; cbn [Z.eqb Pos.eqb is_digit Z.leb Z.compare Pos.compare Pos.compare_cont andb orb];
             rewrite span_unit_stop by exact Hr; reflexivity|]);
    (split; [reflexivity|]); (split; [lia|]); eexists; eexists; (split; [reflexivity|]); split; reflexivity|]).
  contradiction.
Qed.

Lemma length_neq (A : Type) (c : A) tl X : Nat.eqb (length X) (length ((c :: tl) ++ X)) = false.
Proof. apply Nat.eqb_neq. cbn [length app]. rewrite app_length. lia. Qed.

Lemma group_parse fuel ids fds u uns rest d ix :
  In (u, uns) units -> alldig ids -> ids <> [] -> alldig fds -> dig_head rest ->
  dacc ids 0 <= two63 / uns -> dacc fds 0 <= 922337203685477580 ->
  (dacc fds 0 * uns) mod 10 ^ zlen fds = 0 ->
  dacc ids 0 * uns + dacc fds 0 * uns / 10 ^ zlen fds <= two63 ->
  d + (dacc ids 0 * uns + dacc fds 0 * uns / 10 ^ zlen fds) <= two63 ->
  parse_groups (S fuel) (ids ++ frac_text fds (u ++ rest)) d ix =
  parse_groups fuel rest (d + (dacc ids 0 * uns + dacc fds 0 * uns / 10 ^ zlen fds)) ix.
Proof.
  intros Hu Hi Hne Hf Hr Bi Bf Ex Bv Bd.
  destruct (unit_facts u uns rest Hu Hr) as (Hsp & Hun & Hu1 & u0 & utl & Eu & Hu0 & Hfs0).
  destruct ids as [|c tl]; [congruence|]. clear Hne.
  assert (is_digit c = true) as Hc by (inversion Hi; assumption).
  set (iv := dacc (c :: tl) 0) in *. set (fv := dacc fds 0) in *.
  assert (0 <= iv) as Hiv by (apply dacc_nonneg; exact Hi).
  assert (0 <= fv) as Hfv by (apply dacc_nonneg; exact Hf).
  assert (two63 = 9223372036854775808) as T by reflexivity.
  assert (iv <= two63) as Bi2.
  { pose proof (Z.div_le_upper_bound two63 uns two63 ltac:(lia) ltac:(rewrite T; nia)). lia. }
  assert (nodig_head (u ++ rest)) as Nu by (rewrite Eu; cbn; exact Hu0).
  set (X := frac_text fds (u ++ rest)).
  assert (nodig_head X) as NX by (unfold X, frac_text; destruct fds; [exact Nu | reflexivity]).
  (* the fraction scan *)
  assert (exists post, frac_scan X = (fv, 10 ^ zlen fds, u ++ rest, post)) as (post & Hfs).
  { unfold X, frac_text. destruct fds as [|f0 ftl] eqn:Ef.
    - exists false. rewrite Hfs0. reflexivity.
    - eexists. unfold frac_scan.
      change ((f0 :: ftl) ++ u ++ rest) with ((f0 :: ftl) ++ (u ++ rest)).
      rewrite (leading_fraction_digits (f0 :: ftl) (u ++ rest) 0 1 Hf ltac:(lia) ltac:(fold fv; assert ((two63 - 1) / 10 = 922337203685477580) as -> by reflexivity; exact Bf) Nu).
      rewrite Z.mul_1_l. reflexivity. }
  assert (forall b : bool, (if 0 <? fv then fv * uns / 10 ^ zlen fds else 0) = fv * uns / 10 ^ zlen fds) as Eadd.
  { intros _. destruct (0 <? fv) eqn:E; [reflexivity|]. apply Z.ltb_ge in E. assert (fv = 0) as -> by lia. reflexivity. }
  rewrite (pg_step fuel ((c :: tl) ++ X) d ix c (tl ++ X) iv X fv (10 ^ zlen fds) (u ++ rest) post u0 utl rest uns).
  - rewrite (Eadd true). f_equal. destruct (0 <? fv); [|apply orb_false_r].
    rewrite Ex. cbn. apply orb_false_r.
  - reflexivity.
  - rewrite Hc. apply orb_true_r.
  - apply leading_int_digits; [exact Hi | lia | exact Bi2 | exact NX].
  - exact Hfs.
  - apply length_neq.
  - rewrite <- Eu. exact Hsp.
  - rewrite <- Eu. exact Hun.
  - apply Z.ltb_ge. exact Bi.
  - rewrite (Eadd true). apply andb_false_iff. right. apply Z.ltb_ge. exact Bv.
  - rewrite (Eadd true). apply Z.ltb_ge. exact Bd.
Qed.

(* ---- Duration.String then ParseDuration ---- *)
Lemma sign_split c t : is_digit c = true ->
  (match c :: t with 45 :: tl => (true, tl) | 43 :: tl => (false, tl) | _ => (false, c :: t) end) = (false, c :: t).
Proof.
  intros H. apply is_digit_range in H.
  destruct c as [|p|p]; try reflexivity.
  do 6 (destruct p as [p|p|]; try reflexivity); lia.
Qed.

Lemma bare_unit_digit c t : is_digit c = true -> bare_unit (c :: t) = false.
Proof.
  intros H. apply is_digit_range in H. unfold bare_unit, str_eqb. cbn [zlist_eqb].
  assert (c =? 110 = false) as -> by (apply Z.eqb_neq; lia).
  assert (c =? 117 = false) as -> by (apply Z.eqb_neq; lia).
  assert (c =? 194 = false) as -> by (apply Z.eqb_neq; lia).
  assert (c =? 109 = false) as -> by (apply Z.eqb_neq; lia).
  assert (c =? 115 = false) as -> by (apply Z.eqb_neq; lia).
  assert (c =? 104 = false) as -> by (apply Z.eqb_neq; lia).
  reflexivity.
Qed.

Lemma frac_arith fv r k p : 0 <= k <= p -> 0 <= r -> fv * 10 ^ p = r * 10 ^ k ->
  (fv * 10 ^ p) mod 10 ^ k = 0 /\ fv * 10 ^ p / 10 ^ k = r /\ fv <= r.
Proof.
  intros Hk Hr E. assert (0 < 10 ^ k) as P by (apply Z.pow_pos_nonneg; lia).
  rewrite E. split; [apply Z.mod_mul; lia|]. split; [apply Z.div_mul; lia|].
  assert (10 ^ k <= 10 ^ p) as M by (apply Z.pow_le_mono_r; lia). nia.
Qed.

Lemma udec_head n : 0 <= n < 18446744073709551616 -> exists c t, udec n = c :: t /\ is_digit c = true.
Proof.
  intros H. destruct (udec_spec n H) as (A & Ne & _). destruct (udec n) as [|c t]; [congruence|].
  exists c, t. split; [reflexivity|]. inversion A; assumption.
Qed.

Lemma dig_head_app n t : 0 <= n < 18446744073709551616 -> dig_head (udec n ++ t).
Proof. intros H. destruct (udec_head n H) as (c & t' & -> & Hc). exact Hc. Qed.

(* sub-second durations: one group "<int>[.<frac>]<unit>" with unit = 10^p ns *)
Lemma one_group p u uns d :
  In (u, uns) units -> uns = 10 ^ Z.of_nat p -> (p <= 9)%nat -> 0 < d < two63 ->
  let '(s, v) := fmt_frac p d false u in
  parse_duration (udec v ++ s) = Some (d, false) /\ bare_unit (udec v ++ s) = false.
Proof.
  intros Hu Euns Hp Hd.
  assert (two63 = 9223372036854775808) as T by reflexivity.
  destruct (fmt_frac_spec p d false [] u ltac:(lia) ltac:(constructor) ltac:(split; [discriminate | congruence]))
    as (ds' & E & A & L & R & N).
  cbn [app] in E. rewrite E.
  assert (0 < 10 ^ Z.of_nat p) as Ppos by (apply Z.pow_pos_nonneg; lia).
  assert (10 ^ Z.of_nat p <= 10 ^ 9) as Pmax by (apply Z.pow_le_mono_r; lia).
  change (10 ^ 9) with 1000000000 in Pmax.
  pose proof (Z.div_mod d (10 ^ Z.of_nat p) ltac:(lia)) as DM.
  pose proof (Z.mod_pos_bound d (10 ^ Z.of_nat p) ltac:(lia)) as MB.
  set (v := d / 10 ^ Z.of_nat p) in *. set (r := d mod 10 ^ Z.of_nat p) in *.
  assert (0 <= v) as Hv0 by (apply Z.div_pos; lia).
  assert (v <= d) as Hvd by nia.
  destruct (udec_spec v ltac:(lia)) as (Av & Nv & Vv).
  destruct (udec_head v ltac:(lia)) as (c & t & Ec & Hc).
  unfold zlen in R. cbn [length dacc fold_left] in R. change (Z.of_nat 0) with 0 in R.
  rewrite Z.add_0_r, Z.mul_1_r, Z.add_0_r in R. fold (zlen ds') in R.
  destruct (frac_arith (dacc ds' 0) r (zlen ds') (Z.of_nat p) ltac:(unfold zlen; cbn [length] in L; lia) ltac:(lia) R) as (F1 & F2 & F3).
  split.
  - unfold parse_duration. rewrite Ec. cbn [app]. rewrite (sign_split c _ Hc).
    assert (zlist_eqb (c :: t ++ frac_text ds' u) [48] = false) as ->.
    { cbn [zlist_eqb]. destruct (unit_facts u uns [] Hu I) as (_ & _ & _ & u0 & utl & Eu & _).
      destruct (t ++ frac_text ds' u) eqn:Et; [|apply andb_false_r].
      exfalso. apply app_eq_nil in Et as [_ Et]. unfold frac_text in Et. rewrite Eu in Et. destruct ds'; discriminate. }
    change (c :: t ++ frac_text ds' u) with ((c :: t) ++ frac_text ds' u). rewrite <- Ec.
    replace (frac_text ds' u) with (frac_text ds' (u ++ [])) by (rewrite app_nil_r; reflexivity).
    rewrite (group_parse _ (udec v) ds' u uns [] 0 false Hu Av Nv A I).
    + rewrite Vv, Euns, F2. destruct (length (udec v ++ frac_text ds' (u ++ []))) eqn:EL.
      * exfalso. rewrite Ec in EL. discriminate.
      * cbn [parse_groups]. replace (0 + (v * 10 ^ Z.of_nat p + r)) with d by lia.
        assert (two63 - 1 <? d = false) as -> by (apply Z.ltb_ge; lia). reflexivity.
    + rewrite Vv, Euns. apply Z.div_le_lower_bound; [lia|]. rewrite T. nia.
    + lia.
    + rewrite Euns. exact F1.
    + rewrite Vv, Euns, F2. lia.
    + rewrite Vv, Euns, F2. lia.
  - rewrite Ec. apply bare_unit_digit. exact Hc.
Qed.

Lemma nofrac uns : dacc [] 0 * uns / 10 ^ zlen [] = 0 /\ (dacc [] 0 * uns) mod 10 ^ zlen [] = 0.
Proof. split; reflexivity. Qed.

Lemma in_units_s : In ([115], 1000000000) units. Proof. cbn. tauto. Qed.
Lemma in_units_m : In ([109], 60000000000) units. Proof. cbn. tauto. Qed.
Lemma in_units_h : In ([104], 3600000000000) units. Proof. cbn. tauto. Qed.

(* a whole-number group "<int><unit>" in front of further groups *)
Lemma int_group fuel n u uns rest d ix :
  In (u, uns) units -> 0 <= n < 18446744073709551616 -> dig_head rest ->
  n <= two63 / uns -> n * uns <= two63 -> d + n * uns <= two63 ->
  parse_groups (S fuel) (udec n ++ u ++ rest) d ix = parse_groups fuel rest (d + n * uns) ix.
Proof.
  intros Hu Hn Hr B1 B2 B3. destruct (udec_spec n Hn) as (A & Ne & V).
  change (udec n ++ u ++ rest) with (udec n ++ frac_text [] (u ++ rest)).
  destruct (nofrac uns) as (N1 & N2).
  rewrite (group_parse fuel (udec n) [] u uns rest d ix Hu A Ne ltac:(constructor) Hr).
  - rewrite V, N1, Z.add_0_r. reflexivity.
  - rewrite V. exact B1.
  - cbn. lia.
  - exact N2.
  - rewrite V, N1. lia.
  - rewrite V, N1. lia.
Qed.

Lemma seconds_and_more d : 1000000000 <= d < two63 ->
  parse_duration (dur_string_abs d) = Some (d, false) /\ bare_unit (dur_string_abs d) = false.
Proof.
  intros Hd. assert (two63 = 9223372036854775808) as T by reflexivity.
  unfold dur_string_abs. assert (d <? 1000000000 = false) as -> by (apply Z.ltb_ge; lia).
  destruct (fmt_frac_spec 9 d false [] [115] ltac:(lia) ltac:(constructor) ltac:(split; [discriminate | congruence]))
    as (ds' & E & A & L & R & N).
  cbn [app] in E. rewrite E. change (10 ^ Z.of_nat 9) with 1000000000 in *.
  pose proof (Z.div_mod d 1000000000 ltac:(lia)) as DM.
  pose proof (Z.mod_pos_bound d 1000000000 ltac:(lia)) as MB.
  set (v := d / 1000000000) in *. set (r := d mod 1000000000) in *.
  assert (1 <= v <= 9223372036) as Hv by (rewrite T in Hd; lia).
  pose proof (Z.div_mod v 60 ltac:(lia)) as DMv. pose proof (Z.mod_pos_bound v 60 ltac:(lia)) as MBv.
  set (m := v / 60) in *. set (sec := v mod 60) in *.
  assert (0 <= m <= 153722867) as Hm by lia.
  pose proof (Z.div_mod m 60 ltac:(lia)) as DMm. pose proof (Z.mod_pos_bound m 60 ltac:(lia)) as MBm.
  set (h := m / 60) in *. set (mi := m mod 60) in *.
  assert (0 <= h <= 2562047) as Hh by lia.
  unfold zlen in R. cbn [length dacc fold_left] in R. change (Z.of_nat 0) with 0 in R.
  rewrite Z.add_0_r, Z.mul_1_r, Z.add_0_r in R. fold (zlen ds') in R.
  change (Z.of_nat 9) with 9 in R.
  destruct (frac_arith (dacc ds' 0) r (zlen ds') 9 ltac:(unfold zlen; cbn [length] in L; lia) ltac:(lia) R) as (F1 & F2 & F3).
  change (10 ^ 9) with 1000000000 in *.
  destruct (udec_spec sec ltac:(lia)) as (As & Ns & Vs).
  (* the seconds group, last in the text *)
  assert (forall fuel x, x + (sec * 1000000000 + r) <= two63 ->
            parse_groups (S (S fuel)) (udec sec ++ frac_text ds' [115]) x false = Some (x + (sec * 1000000000 + r), false)) as Gs.
  { intros fuel x Hx.
    replace (frac_text ds' [115]) with (frac_text ds' ([115] ++ [])) by reflexivity.
    rewrite (group_parse (S fuel) (udec sec) ds' [115] 1000000000 [] x false in_units_s As Ns A I).
    - rewrite Vs, F2. reflexivity.
    - rewrite Vs. apply Z.div_le_lower_bound; [lia|]. rewrite T. lia.
    - lia.
    - exact F1.
    - rewrite Vs, F2, T. lia.
    - rewrite Vs, F2. exact Hx. }
  assert (forall s : list Z, (3 <= length s)%nat -> exists k, length s = S (S (S k))) as Len3.
  { intros s Hs. destruct (length s) as [|[|[|k]]]; try lia. exists k. reflexivity. }
  assert (forall n t, 0 <= n < 18446744073709551616 -> (1 + length t <= length (udec n ++ t))%nat) as LenU.
  { intros n t Hn. destruct (udec_head n Hn) as (c & t' & -> & _). cbn [app length]. rewrite app_length. lia. }
  assert (forall s c t, s = c :: t -> is_digit c = true -> t <> [] ->
            parse_groups (S (length s)) s 0 false = Some (d, false) ->
            parse_duration s = Some (d, false) /\ bare_unit s = false) as Fin.
  { intros s c t -> Hc Ht Hp. split; [|apply bare_unit_digit; exact Hc].
    unfold parse_duration. rewrite (sign_split c t Hc).
    assert (zlist_eqb (c :: t) [48] = false) as -> by (cbn [zlist_eqb]; destruct t; [congruence | apply andb_false_r]).
    rewrite Hp. assert (two63 - 1 <? d = false) as -> by (apply Z.ltb_ge; lia). reflexivity. }
  destruct (0 <? m) eqn:Em.
  - apply Z.ltb_lt in Em. destruct (0 <? h) eqn:Eh.
    + (* hours, minutes, seconds *)
      apply Z.ltb_lt in Eh.
      set (S3 := udec sec ++ frac_text ds' [115]).
      set (S2 := udec mi ++ 109 :: S3). set (S1 := udec h ++ 104 :: S2).
      destruct (udec_head h ltac:(lia)) as (c & t & Ec & Hc).
      apply (Fin S1 c (t ++ 104 :: S2)); [unfold S1; rewrite Ec; reflexivity | exact Hc | destruct t; discriminate|].
      destruct (Len3 S1) as (k & ->).
      { unfold S1, S2, S3. pose proof (LenU h (104 :: udec mi ++ 109 :: udec sec ++ frac_text ds' [115]) ltac:(lia)).
        cbn [length] in *. pose proof (LenU mi (109 :: udec sec ++ frac_text ds' [115]) ltac:(lia)). cbn [length] in *. lia. }
      unfold S1. change (udec h ++ 104 :: S2) with (udec h ++ [104] ++ S2).
      rewrite (int_group _ h [104] 3600000000000 S2 0 false in_units_h ltac:(lia)
                 ltac:(unfold S2; apply dig_head_app; lia)
                 ltac:(apply Z.div_le_lower_bound; [lia | rewrite T; lia]) ltac:(rewrite T; lia) ltac:(rewrite T; lia)).
      unfold S2. change (udec mi ++ 109 :: S3) with (udec mi ++ [109] ++ S3).
      rewrite (int_group _ mi [109] 60000000000 S3 (0 + h * 3600000000000) false in_units_m ltac:(lia)
                 ltac:(unfold S3; apply dig_head_app; lia)
                 ltac:(apply Z.div_le_lower_bound; [lia | rewrite T; lia]) ltac:(rewrite T; lia) ltac:(rewrite T; lia)).
      unfold S3. rewrite Gs by (rewrite T; lia). f_equal. f_equal. lia.
    + (* minutes, seconds *)
      apply Z.ltb_ge in Eh. assert (h = 0) as H0 by lia.
      set (S3 := udec sec ++ frac_text ds' [115]). set (S2 := udec mi ++ 109 :: S3).
      destruct (udec_head mi ltac:(lia)) as (c & t & Ec & Hc).
      apply (Fin S2 c (t ++ 109 :: S3)); [unfold S2; rewrite Ec; reflexivity | exact Hc | destruct t; discriminate|].
      destruct (Len3 S2) as (k & ->).
      { unfold S2, S3. pose proof (LenU mi (109 :: udec sec ++ frac_text ds' [115]) ltac:(lia)). cbn [length] in *.
        pose proof (LenU sec (frac_text ds' [115]) ltac:(lia)). lia. }
      unfold S2. change (udec mi ++ 109 :: S3) with (udec mi ++ [109] ++ S3).
      rewrite (int_group _ mi [109] 60000000000 S3 0 false in_units_m ltac:(lia)
                 ltac:(unfold S3; apply dig_head_app; lia)
                 ltac:(apply Z.div_le_lower_bound; [lia | rewrite T; lia]) ltac:(rewrite T; lia) ltac:(rewrite T; lia)).
      unfold S3. rewrite Gs by (rewrite T; lia). f_equal. f_equal. lia.
  - (* seconds only *)
    apply Z.ltb_ge in Em. assert (m = 0) as M0 by lia.
    set (S3 := udec sec ++ frac_text ds' [115]).
    destruct (udec_head sec ltac:(lia)) as (c & t & Ec & Hc).
    assert (frac_text ds' [115] <> []) as Fne by (unfold frac_text; destruct ds'; discriminate).
    apply (Fin S3 c (t ++ frac_text ds' [115])); [unfold S3; rewrite Ec; reflexivity | exact Hc | destruct t; [exact Fne | discriminate]|].
    assert (exists k, length S3 = S k) as (k & ->).
    { unfold S3. pose proof (LenU sec (frac_text ds' [115]) ltac:(lia)). destruct (length (udec sec ++ frac_text ds' [115])); [lia|]. eexists; reflexivity. }
    unfold S3. rewrite Gs by (rewrite T; lia). f_equal. f_equal. lia.
Qed.

Theorem dur_string_parses_lemma d : 0 < d < two63 ->
  parse_duration (dur_string d) = Some (d, false) /\ bare_unit (dur_string d) = false.
Proof.
  intros Hd. assert (two63 = 9223372036854775808) as T by reflexivity.
  unfold dur_string. assert (d <? 0 = false) as -> by (apply Z.ltb_ge; lia).
  destruct (Z_lt_le_dec d 1000000000) as [Hs|Hs]; [|apply seconds_and_more; lia].
  unfold dur_string_abs. assert (d <? 1000000000 = true) as -> by (apply Z.ltb_lt; lia).
  assert (d =? 0 = false) as -> by (apply Z.eqb_neq; lia).
  destruct (d <? 1000) eqn:E1.
  - pose proof (one_group 0 [110; 115] 1 d ltac:(cbn; tauto) eq_refl ltac:(lia) Hd) as G.
    cbn [fmt_frac] in G. exact G.
  - destruct (d <? 1000000) eqn:E2.
    + pose proof (one_group 3 [194; 181; 115] 1000 d ltac:(cbn; tauto) eq_refl ltac:(lia) Hd) as G.
      destruct (fmt_frac 3 d false [194; 181; 115]) as [s v]. exact G.
    + pose proof (one_group 6 [109; 115] 1000000 d ltac:(cbn; tauto) eq_refl ltac:(lia) Hd) as G.
      destruct (fmt_frac 6 d false [109; 115]) as [s v]. exact G.
Qed.
