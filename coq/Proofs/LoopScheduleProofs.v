(* The real attack loop on a pacer's schedule: the closed-loop statement of C01 is about an idealised
   loop (sleep exactly as told plus a stall, then one hit); here it is carried over to every
   reachable state of the attack LTS (workers, rendezvous channels, the non-blocking select, Stop
   calls, late wake-ups): whatever the environment does, the hits released by the loop of
   lib/attack.go stay admissible, i.e. on the pacer's declared schedule. *)
From Coq Require Import ZArith List Bool Lia.
From V Require Import Model.Pacer Model.AttackLTS Proofs.AttackProofs.
Import ListNotations.
Open Scope Z_scope.

(* every tick that was released, and the answer still waiting for its tick, is an answer the pacer
   gave: (elapsed, hits, wait, stop = false) is among the recorded consultations *)
Definition inv_answers (s : st) : Prop :=
  (forall e h w t, In (e, h, w, t) (hist s) -> In (e, h, w, false) (paces s)) /\
  (forall e h w, pending s = Some (e, h, w) -> In (e, h, w, false) (paces s)).

Lemma inv_answers_init c : inv_answers (init c).
Proof. split; cbn; intros; [contradiction | discriminate]. Qed.

Lemma inv_answers_step c s l s' : inv_answers s -> step c s l = Some s' -> inv_answers s'.
Proof.
  intros [A B] H.
  step_cases H; split; intros; cbn [hist paces pending] in *;
    try (match goal with E : pending _ = Some _ |- _ => rewrite E in * end);
    try discriminate;
    try (match goal with X : Some _ = Some _ |- _ => injection X as <- <- <- end);
    try (match goal with X : In _ (_ :: _) |- _ => destruct X as [X|X]; [injection X as <- <- <- <-|] end);
    eauto using in_eq, in_cons.
Qed.

Lemma reach_answers c s : reachable c s -> inv_answers s.
Proof.
  intros (ls & H). eapply (run_invariant c inv_answers); [apply inv_answers_init | | exact H].
  intros; eapply inv_answers_step; eassumption.
Qed.

Section Schedule.
  Variable pace : Z -> Z -> outcome.
  Variables Adm Dom : Z -> Z -> Prop.
  Hypothesis Adm_mono : forall t t' k, Adm t k -> t <= t' -> Adm t' k.
  Hypothesis contract : forall t k w, Dom t k -> Adm t k -> pace t k = Wait w -> Adm (t + Z.max w 0) (k + 1).
  Hypothesis Adm0 : Adm 0 0.

  (* the released ticks form a chain: consulted at e_i (not before the previous tick), released at
     t_i >= e_i + wait_i; admissibility travels along it *)
  Lemma hist_chain hs :
    hist_ok hs ->
    (forall e h w t, In (e, h, w, t) hs -> Dom e h /\ pace e h = Wait w) ->
    Adm (head_time hs) (Z.of_nat (length hs)) /\
    Forall (fun p => let '(e, h, w, t) := p in Adm t (h + 1)) hs.
  Proof.
    induction hs as [|[[[e h] w] t] r IH]; intros Hok Hp.
    - cbn. split; [exact Adm0 | constructor].
    - cbn [hist_ok] in Hok. destruct Hok as (Hh & Ht & Hprev & Hr).
      destruct IH as [IHa IHf]; [exact Hr | intros; eapply Hp; right; eassumption |].
      destruct (Hp e h w t (or_introl eq_refl)) as [HD HP].
      assert (Ae : Adm e h).
      { subst h. apply Adm_mono with (t := head_time r); [exact IHa|].
        destruct r as [|[[[e1 h1] w1] t1] r1]; cbn in *; lia. }
      assert (At : Adm t (h + 1)).
      { apply Adm_mono with (t := e + Z.max w 0); [apply contract; assumption | lia]. }
      split.
      + cbn [head_time length]. rewrite Nat2Z.inj_succ. subst h. replace (Z.succ (Z.of_nat (length r))) with (Z.of_nat (length r) + 1) by lia. exact At.
      + constructor; [exact At | exact IHf].
  Qed.

  Lemma loop_on_schedule_lemma c s :
    reachable c s ->
    (forall e h w, In (e, h, w, false) (paces s) -> Dom e h /\ pace e h = Wait w) ->
    Adm (now s) (count s) /\
    Forall (fun p => let '(e, h, w, t) := p in Adm t (h + 1)) (hist s) /\
    seq s <= count s.
  Proof.
    intros R Hp. destruct (reach_pace c s R) as [P N Hh Hn C D PD HD PC].
    destruct (reach_answers c s R) as [A _]. destruct (reach_seqs c s R) as [_ _ Cn _].
    destruct (hist_chain (hist s) Hh) as [Ha Hf].
    { intros e h w t Hin. apply Hp. eapply A; eassumption. }
    split; [|split; [exact Hf | lia]].
    rewrite C. apply Adm_mono with (t := head_time (hist s)); assumption.
  Qed.
End Schedule.
