From Coq Require Import ZArith List Bool Lia Arith.
From V Require Import Model.Skel.
Import ListNotations.
Open Scope Z_scope.

Lemma memz_In x l : memz x l = true <-> In x l.
Proof.
  induction l as [|y tl IH]; cbn; [split; [discriminate | tauto]|].
  rewrite orb_true_iff, IH, Z.eqb_eq. split; intros [H|H]; auto.
Qed.

Lemma memz_removez_other x m l : x <> m -> memz x (removez m l) = memz x l.
Proof.
  intros Hne. induction l as [|y tl IH]; cbn; [reflexivity|].
  destruct (m =? y) eqn:E.
  - apply Z.eqb_eq in E. subst y. destruct (x =? m) eqn:E2; [apply Z.eqb_eq in E2; congruence | reflexivity].
  - cbn. now rewrite IH.
Qed.

Lemma memz_removez_same m l : NoDup l -> memz m (removez m l) = false.
Proof.
  induction l as [|y tl IH]; intros N; cbn; [reflexivity|]. inversion N as [|? ? Hn Hd]; subst.
  destruct (m =? y) eqn:E.
  - apply Z.eqb_eq in E. subst y. destruct (memz m tl) eqn:M; [apply memz_In in M; contradiction | reflexivity].
  - cbn. rewrite E. apply IH, Hd.
Qed.

Lemma NoDup_removez m l : NoDup l -> NoDup (removez m l).
Proof.
  induction l as [|y tl IH]; intros N; cbn; [constructor|]. inversion N as [|? ? Hn Hd]; subst.
  destruct (m =? y); [exact Hd|]. constructor; [|apply IH, Hd].
  intros Hin. apply Hn. clear -Hin. induction tl as [|z tl IH]; cbn in *; [tauto|].
  destruct (m =? z); [right; exact Hin|]. destruct Hin as [->|H]; [left; reflexivity | right; apply IH, H].
Qed.

Lemma held_at_S p i a : nth_error p i = Some a -> held_at p (S i) = held_step (held_at p i) a.
Proof.
  intros H. unfold held_at, held_after.
  assert (firstn (S i) p = firstn i p ++ [a]) as ->.
  { revert i H. induction p as [|x tl IH]; intros [|i] H; cbn in *; try discriminate.
    - injection H as ->. reflexivity.
    - f_equal. apply IH, H. }
  rewrite fold_left_app. reflexivity.
Qed.

(* per-position consequences of well-bracketedness *)
Lemma wb_positions p : forall h, wb h p = true -> NoDup h ->
  forall i a, nth_error p i = Some a ->
    NoDup (fold_left held_step (firstn i p) h) /\
    match a with
    | ALock m => memz m (fold_left held_step (firstn i p) h) = false
    | AUnlock m => memz m (fold_left held_step (firstn i p) h) = true
    | _ => True
    end.
Proof.
  induction p as [|x tl IH]; intros h W N i a H; [destruct i; discriminate|].
  destruct i as [|i]; cbn in H.
  - injection H as ->. cbn [firstn fold_left]. split; [exact N|].
    destruct a; cbn in W; try exact I; apply andb_true_iff in W as [W1 _]; [apply negb_true_iff in W1|]; exact W1.
  - cbn [firstn fold_left]. apply IH; [| |exact H].
    + destruct x; cbn in W |- *; try exact W; apply andb_true_iff in W as [_ W2]; exact W2.
    + destruct x; cbn in W |- *; try exact N.
      * apply andb_true_iff in W as [W1 _]. apply negb_true_iff in W1. constructor; [|exact N].
        intros Hin. apply memz_In in Hin. congruence.
      * apply NoDup_removez, N.
Qed.

Lemma guarded_positions v m p : forall h, guarded_by_aux v m h p = true ->
  forall i a, nth_error p i = Some a -> accesses a v = true ->
  memz m (fold_left held_step (firstn i p) h) = true.
Proof.
  induction p as [|x tl IH]; intros h G i a H A; [destruct i; discriminate|].
  cbn in G. apply andb_true_iff in G as [G1 G2]. destruct i as [|i]; cbn in H.
  - injection H as ->. cbn. rewrite A in G1. cbn in G1. exact G1.
  - cbn [firstn fold_left]. eapply IH; eassumption.
Qed.

(* ---- the invariant of the interleaving semantics ------------------------------------------ *)
Definition cinv (p : skel) (s : cstate) : Prop :=
  NoDup (map fst (holder s)) /\
  forall t pc, nth_error (pcs s) t = Some pc ->
    forall m, memz m (held_at p pc) = true <-> hlook m (holder s) = Some t.

Lemma hlook_hdel_same m h : NoDup (map fst h) -> hlook m (hdel m h) = None.
Proof.
  induction h as [|[k t] tl IH]; intros N; cbn; [reflexivity|]. inversion N as [|? ? Hn Hd]; subst.
  destruct (k =? m) eqn:E.
  - apply Z.eqb_eq in E. subst k. clear -Hn. induction tl as [|[k t'] tl IH]; cbn in *; [reflexivity|].
    destruct (k =? m) eqn:E; [apply Z.eqb_eq in E; subst; tauto | apply IH; tauto].
  - cbn. rewrite E. apply IH, Hd.
Qed.
Lemma hlook_hdel_other m m' h : m' <> m -> hlook m' (hdel m h) = hlook m' h.
Proof.
  intros Hne. induction h as [|[k t] tl IH]; cbn; [reflexivity|].
  destruct (k =? m) eqn:E.
  - apply Z.eqb_eq in E. subst k. destruct (m =? m') eqn:E2; [apply Z.eqb_eq in E2; congruence | reflexivity].
  - cbn. now rewrite IH.
Qed.
Lemma hdel_keys_nodup m h : NoDup (map fst h) -> NoDup (map fst (hdel m h)).
Proof.
  induction h as [|[k t] tl IH]; intros N; cbn; [constructor|]. inversion N as [|? ? Hn Hd]; subst.
  destruct (k =? m); [exact Hd|]. cbn. constructor; [|apply IH, Hd].
  intros Hin. apply Hn. clear -Hin. induction tl as [|[k' t'] tl IH]; cbn in *; [tauto|].
  destruct (k' =? m); [right; exact Hin|]. cbn in Hin. destruct Hin as [->|H]; [left; reflexivity | right; apply IH, H].
Qed.
Lemma hlook_none_notin m h : hlook m h = None -> ~ In m (map fst h).
Proof.
  induction h as [|[k t] tl IH]; cbn; [tauto|]. destruct (k =? m) eqn:E; [discriminate|].
  intros H [Hk|Hin]; [apply Z.eqb_neq in E; congruence | exact (IH H Hin)].
Qed.

Lemma nth_set_nth_same l t x pc : nth_error l t = Some pc -> nth_error (set_nth t x l) t = Some x.
Proof. revert t; induction l as [|y tl IH]; intros [|t] H; cbn in *; try discriminate; auto. Qed.
Lemma nth_set_nth_other l t t' x : t <> t' -> nth_error (set_nth t x l) t' = nth_error l t'.
Proof.
  revert t t'; induction l as [|y tl IH]; intros [|t] [|t'] H; cbn; try reflexivity; try lia.
  apply IH. lia.
Qed.

Lemma cinv_init p n : cinv p (cinit n).
Proof.
  split; [constructor|]. intros t pc H m. cbn in *.
  assert (pc = O) as ->.
  { revert t H. induction n as [|n IH]; intros [|t] H; cbn in H; try discriminate; [congruence | eapply IH; exact H]. }
  cbn. split; discriminate.
Qed.

Lemma cinv_step p s t s' : wb [] p = true -> cinv p s -> cstep p s t = Some s' -> cinv p s'.
Proof.
  intros W (N & I) H. unfold cstep in H.
  destruct (nth_error (pcs s) t) as [pc|] eqn:Et; [|discriminate].
  destruct (nth_error p pc) as [a|] eqn:Ea; [|discriminate].
  destruct (wb_positions p [] W (NoDup_nil _) pc a Ea) as (ND & WA). fold (held_at p pc) in ND, WA.
  pose proof (held_at_S p pc a Ea) as HS.
  assert (forall s0, s0 = {| pcs := set_nth t (S pc) (pcs s); holder := holder s |} ->
            held_step (held_at p pc) a = held_at p pc -> cinv p s0) as Kplain.
  { intros s0 -> Hh. split; [exact N|]. intros t' pc' H' m. cbn [pcs holder] in *.
    destruct (Nat.eq_dec t t') as [<-|Hne].
    - rewrite (nth_set_nth_same _ _ _ _ Et) in H'. injection H' as <-. rewrite HS, Hh. apply I, Et.
    - rewrite nth_set_nth_other in H' by exact Hne. apply I, H'. }
  destruct a; try (injection H as <-; apply Kplain; reflexivity).
  - (* Lock *)
    destruct (hlook m (holder s)) eqn:El; [discriminate|]. injection H as <-.
    split; cbn [pcs holder].
    + cbn. constructor; [apply hlook_none_notin, El | exact N].
    + intros t' pc' H' m'. destruct (Nat.eq_dec t t') as [<-|Hne].
      * rewrite (nth_set_nth_same _ _ _ _ Et) in H'. injection H' as <-. rewrite HS. cbn [held_step memz hlook].
        destruct (m =? m') eqn:E.
        -- apply Z.eqb_eq in E. subst m'. rewrite Z.eqb_refl. cbn. tauto.
        -- rewrite Z.eqb_sym, E. cbn. apply I, Et.
      * rewrite nth_set_nth_other in H' by exact Hne. cbn [hlook].
        destruct (m =? m') eqn:E.
        -- apply Z.eqb_eq in E. subst m'. split.
           ++ intros M. apply (I t' pc' H') in M. congruence.
           ++ intros M. injection M as M. congruence.
        -- apply I, H'.
  - (* Unlock *)
    destruct (hlook m (holder s)) as [t0|] eqn:El; [|discriminate].
    destruct (Nat.eqb t0 t) eqn:E0; [|discriminate]. apply Nat.eqb_eq in E0. subst t0. injection H as <-.
    split; cbn [pcs holder].
    + apply hdel_keys_nodup, N.
    + intros t' pc' H' m'. destruct (Nat.eq_dec t t') as [<-|Hne].
      * rewrite (nth_set_nth_same _ _ _ _ Et) in H'. injection H' as <-. rewrite HS. cbn [held_step].
        destruct (Z.eq_dec m' m) as [->|Hm].
        -- rewrite (memz_removez_same _ _ ND), (hlook_hdel_same _ _ N). split; discriminate.
        -- rewrite (memz_removez_other _ _ _ Hm), (hlook_hdel_other _ _ _ Hm). apply I, Et.
      * rewrite nth_set_nth_other in H' by exact Hne.
        destruct (Z.eq_dec m' m) as [->|Hm].
        -- rewrite (hlook_hdel_same _ _ N). split; [|discriminate].
           intros M. apply (I t' pc' H') in M. congruence.
        -- rewrite (hlook_hdel_other _ _ _ Hm). apply I, H'.
Qed.

Lemma cinv_run p n sched : wb [] p = true -> forall s, crun p (cinit n) sched = Some s -> cinv p s.
Proof.
  intros W. induction sched as [|t tl IH] using rev_ind; intros s H.
  - cbn in H. injection H as <-. apply cinv_init.
  - assert (forall l1 l2 s0, crun p s0 (l1 ++ l2) = match crun p s0 l1 with Some s1 => crun p s1 l2 | None => None end) as App.
    { induction l1 as [|x l1 IHl]; intros l2 s0; cbn; [reflexivity|]. destruct (cstep p s0 x); [apply IHl | reflexivity]. }
    rewrite App in H. destruct (crun p (cinit n) tl) as [s1|] eqn:E; [|discriminate]. cbn in H.
    destruct (cstep p s1 t) eqn:E2; [|discriminate]. injection H as <-.
    eapply cinv_step; [exact W | apply IH; reflexivity | exact E2].
Qed.

(* soundness of the lockset checker: for every skeleton it accepts, any number of threads and
   any interleaving, no state is reachable in which two threads are about to perform
   conflicting plain accesses to a variable that the skeleton writes *)
Lemma lockset_sound_lemma p : lockset_ok p = true ->
  forall n sched s, crun p (cinit n) sched = Some s ->
  forall v, In v (written_vars p) -> ~ race_on p s v.
Proof.
  intros L n sched s R v Hv (t1 & t2 & pc1 & pc2 & a1 & a2 & Hne & P1 & P2 & A1 & A2 & C1 & C2 & _).
  unfold lockset_ok in L. apply andb_true_iff in L as [W G].
  rewrite forallb_forall in G. specialize (G v Hv). apply existsb_exists in G as (m & _ & Gm).
  destruct (cinv_run p n sched W s R) as (_ & I).
  pose proof (guarded_positions v m p [] Gm pc1 a1 A1 C1) as M1.
  pose proof (guarded_positions v m p [] Gm pc2 a2 A2 C2) as M2.
  fold (held_at p pc1) in M1. fold (held_at p pc2) in M2.
  apply (I t1 pc1 P1) in M1. apply (I t2 pc2 P2) in M2. congruence.
Qed.

(* mutual exclusion of sections: two threads never hold the same mutex *)
Lemma mutex_exclusive p n sched s : wb [] p = true -> crun p (cinit n) sched = Some s ->
  forall t1 t2 pc1 pc2 m, nth_error (pcs s) t1 = Some pc1 -> nth_error (pcs s) t2 = Some pc2 ->
  memz m (held_at p pc1) = true -> memz m (held_at p pc2) = true -> t1 = t2.
Proof.
  intros W R t1 t2 pc1 pc2 m P1 P2 M1 M2. destruct (cinv_run p n sched W s R) as (_ & I).
  apply (I t1 pc1 P1) in M1. apply (I t2 pc2 P2) in M2. congruence.
Qed.

(* ---- the critical section of hit --------------------------------------------------------- *)
Lemma scan_positions m p : forall h sec i a, nth_error p i = Some a -> special a <> 0 ->
  exists s0, In (special a, memz m (fold_left held_step (firstn i p) h), s0) (scan m h sec p).
Proof.
  induction p as [|x tl IH]; intros h sec i a H Sp; [destruct i; discriminate|].
  destruct i as [|i]; cbn in H.
  - injection H as ->. cbn [scan firstn fold_left]. apply Z.eqb_neq in Sp. rewrite Sp.
    eexists. left. reflexivity.
  - cbn [scan firstn fold_left].
    destruct (IH (held_step h x) (match x with ALock y => if y =? m then S sec else sec | _ => sec end) i a H Sp) as (s0 & Hin).
    exists s0. destruct (special x =? 0); [exact Hin | right; exact Hin].
Qed.

Lemma section_of_held p m : section_of p m = true ->
  forall i a, nth_error p i = Some a -> special a <> 0 -> memz m (held_at p i) = true.
Proof.
  unfold section_of. intros S i a H Sp.
  destruct (scan_positions m p [] 0%nat i a H Sp) as (s0 & Hin). fold (held_at p i) in Hin.
  destruct (scan m [] 0 p) as [|[[k1 b1] s1] [|[[k2 b2] s2] [|[[k3 b3] s3] [|? ?]]]]; try discriminate.
  repeat (apply andb_true_iff in S as [S ?]). subst.
  destruct Hin as [E|[E|[E|[]]]]; injection E as _ E _; symmetry; exact E.
Qed.

(* if the checker accepts, no two threads are ever simultaneously at (or between) the clock
   read, the sequence read and the increment: the section is critical *)
Lemma same_section_critical p : same_section_ok p = true ->
  forall n sched s, crun p (cinit n) sched = Some s ->
  forall t1 t2 pc1 pc2 a1 a2,
    nth_error (pcs s) t1 = Some pc1 -> nth_error (pcs s) t2 = Some pc2 ->
    nth_error p pc1 = Some a1 -> nth_error p pc2 = Some a2 ->
    special a1 <> 0 -> special a2 <> 0 -> t1 = t2.
Proof.
  unfold same_section_ok. intros S n sched s R t1 t2 pc1 pc2 a1 a2 P1 P2 A1 A2 S1 S2.
  apply andb_true_iff in S as [W E]. apply existsb_exists in E as (m & _ & Sm).
  eapply (mutex_exclusive p n sched s W R t1 t2 pc1 pc2 m P1 P2);
    eapply section_of_held; eassumption.
Qed.
