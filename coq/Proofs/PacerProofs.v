From Coq Require Import ZArith List Bool Lia.
From V Require Import Model.Pacer.
Import ListNotations.
Open Scope Z_scope.

(* ---- generic closed-loop theorem --------------------------------------------------- *)
Section ClosedLoop.
  Variable pace : Z -> Z -> outcome.
  Variable Adm : Z -> Z -> Prop.         (* Adm t c: a count of c is admissible at time t *)
  Variable Dom : Z -> Z -> Prop.         (* arguments the contract is stated for *)
  Hypothesis Adm_mono : forall t t' c, Adm t c -> t <= t' -> Adm t' c.
  (* per-call contract, in invariant-preservation form *)
  Hypothesis contract : forall t k w,
    Dom t k -> Adm t k -> pace t k = Wait w -> Adm (t + Z.max w 0) (k + 1).

  Lemma loop_run_adm stalls : forall st,
    Adm (fst st) (snd st) ->
    (forall st' s, In st' (loop_run pace st stalls) -> Dom (fst st' + Z.max s 0) (snd st') \/ True) ->
    (forall t k, In (t, k) (loop_run pace st stalls) -> forall s, 0 <= s -> Dom (t + s) k) ->
    Forall (fun st' => Adm (fst st') (snd st')) (loop_run pace st stalls).
  Proof.
    induction stalls as [|s tl IH]; intros [t k] H0 _ HD; cbn [loop_run].
    - constructor; [exact H0 | constructor].
    - unfold loop_step. destruct (pace (t + Z.max s 0) k) as [w| |] eqn:E;
        try (constructor; [exact H0 | constructor]).
      constructor; [exact H0|].
      assert (In (t, k) (loop_run pace (t, k) (s :: tl))) as Hin.
      { cbn [loop_run]. unfold loop_step. rewrite E. left. reflexivity. }
      apply IH.
      + cbn [fst snd] in *. apply contract with (w := w).
        * apply (HD t k Hin). lia.
        * eapply Adm_mono; [exact H0 | lia].
        * exact E.
      + intros; right; exact I.
      + intros t' k' Hin' s' Hs'. apply HD; [|exact Hs'].
        cbn [loop_run]. unfold loop_step. rewrite E. right. exact Hin'.
  Qed.

  (* the same with the domain required only at the instants the pacer is actually called *)
  Fixpoint dom_along (st : Z * Z) (stalls : list Z) : Prop :=
    match stalls with
    | [] => True
    | s :: tl => Dom (fst st + Z.max s 0) (snd st) /\
                 match loop_step pace st s with Some st' => dom_along st' tl | None => True end
    end.

  Lemma loop_run_adm_calls stalls : forall st,
    Adm (fst st) (snd st) -> dom_along st stalls ->
    Forall (fun st' => Adm (fst st') (snd st')) (loop_run pace st stalls).
  Proof.
    induction stalls as [|s tl IH]; intros [t k] H0 HD; cbn [loop_run].
    - constructor; [exact H0 | constructor].
    - cbn [dom_along fst snd] in HD. destruct HD as [HD1 HD2]. unfold loop_step in *.
      destruct (pace (t + Z.max s 0) k) as [w| |] eqn:E; try (constructor; [exact H0 | constructor]).
      constructor; [exact H0|]. apply IH; [|exact HD2].
      cbn [fst snd] in *. apply contract with (w := w); [exact HD1 | eapply Adm_mono; [exact H0 | lia] | exact E].
  Qed.
End ClosedLoop.

(* ---- arithmetic helpers ----------------------------------------------------------------- *)

Lemma wrap64u_small x : 0 <= x < two64 -> wrap64u x = x.
Proof. intros. unfold wrap64u. now apply Z.mod_small. Qed.
Lemma wrap64u_le x : 0 <= x -> 0 <= wrap64u x <= x.
Proof.
  intros H. unfold wrap64u. assert (0 < two64) by (unfold two64; lia).
  split; [apply Z.mod_pos_bound; lia | apply Z.mod_le; lia].
Qed.
Lemma wrap64s_small x : - (two64 / 2) <= x < two64 / 2 -> wrap64s x = x.
Proof.
  intros H. unfold wrap64s. rewrite Z.mod_small; [lia|].
  unfold two64 in *. change (18446744073709551616 / 2) with 9223372036854775808 in *. lia.
Qed.

(* ceil(a/b) as computed by the code *)
Lemma ceil_div_spec a b : 0 <= a -> 0 < b ->
  let q := a / b in let r := a mod b in
  let c := if r =? 0 then q else q + 1 in
  c * b >= a /\ (c - 1) * b < a \/ (a = 0 /\ c = 0).
Proof.
  intros Ha Hb q r c. pose proof (Z.div_mod a b ltac:(lia)) as E.
  pose proof (Z.mod_pos_bound a b Hb) as Hr. subst q r c.
  destruct (a mod b =? 0) eqn:E0.
  - apply Z.eqb_eq in E0. destruct (Z.eq_dec a 0) as [->|Hne].
    + right. split; [reflexivity|]. rewrite Z.div_0_l by lia. reflexivity.
    + left. nia.
  - apply Z.eqb_neq in E0. left. nia.
Qed.

(* ---- the constant pacer -------------------------------------------------------------------- *)

Definition const_dom (F P t k : Z) : Prop :=
  0 < F < two64 / 2 /\ 0 < P < two64 / 2 /\ 0 <= t < two64 / 2 /\ 0 <= k < two64.

(* what a call returns, in exact arithmetic *)
Lemma const_pace_cases F P t k : const_dom F P t k ->
  (* catch-up: the count is strictly behind F * floor(t/P) *)
  (const_pace F P t k = Wait 0 /\ (k + 1) * P <= F * t) \/
  (* overflow: the next instant does not fit int64 *)
  (const_pace F P t k = Stop /\ (max_int64 * F <= (k + 1) * P \/ k + 1 = two64)) \/
  (* regular: wait until next = ceil((k+1)*P/F), exactly *)
  (exists next, const_pace F P t k = Wait (next - t) /\
     next * F >= (k + 1) * P /\ (next - 1) * F < (k + 1) * P /\ 0 < next <= max_int64).
Proof.
  intros (HF & HP & Ht & Hk).
  assert (two64 = 18446744073709551616) as T by reflexivity.
  assert (two64 / 2 = 9223372036854775808) as T2 by reflexivity.
  assert (max_int64 = 9223372036854775807) as TM by reflexivity.
  unfold const_pace.
  assert ((P =? 0) || (F =? 0) = false) as -> by (apply orb_false_iff; split; apply Z.eqb_neq; lia).
  assert ((P <? 0) || (F <? 0) = false) as -> by (apply orb_false_iff; split; apply Z.ltb_ge; lia).
  rewrite (wrap64u_small F), (wrap64u_small P) by lia.
  assert (0 <= Z.quot t P <= t) as Hq.
  { rewrite Z.quot_div_nonneg by lia. split; [apply Z.div_pos; lia|].
    apply Z.div_le_upper_bound; nia. }
  rewrite (wrap64u_small (Z.quot t P)) by lia.
  assert (Z.quot t P * P <= t) as Hqp.
  { rewrite Z.quot_div_nonneg by lia. pose proof (Z.mul_div_le t P ltac:(lia)). lia. }
  destruct (k <? wrap64u (F * Z.quot t P)) eqn:Ecatch.
  - left. split; [reflexivity|]. apply Z.ltb_lt in Ecatch.
    pose proof (wrap64u_le (F * Z.quot t P) ltac:(nia)) as Hw. nia.
  - clear Ecatch.
    destruct (Z.eq_dec (k + 1) two64) as [Emax|Emax].
    + (* hits+1 wraps to zero: stop *)
      right; left. unfold wrap64u at 1. rewrite Emax, Z.mod_same by lia. cbn [Z.eqb orb].
      split; [reflexivity|]. right. reflexivity.
    + rewrite (wrap64u_small (k + 1)) by lia.
      assert ((k + 1 =? 0) = false) as -> by (apply Z.eqb_neq; lia). cbn [orb].
      destruct (F <=? (k + 1) * P / two64) eqn:Ehi.
      * right; left. split; [reflexivity|]. left. apply Z.leb_le in Ehi.
        pose proof (Z.mul_div_le ((k + 1) * P) two64 ltac:(lia)). nia.
      * apply Z.leb_gt in Ehi.
        assert ((k + 1) * P < F * two64) as Hlt.
        { pose proof (Z.div_mod ((k + 1) * P) two64 ltac:(lia)).
          pose proof (Z.mod_pos_bound ((k + 1) * P) two64 ltac:(lia)). nia. }
        destruct (max_int64 <=? (k + 1) * P / F) eqn:Eov.
        -- right; left. split; [reflexivity|]. left. apply Z.leb_le in Eov.
           pose proof (Z.mul_div_le ((k + 1) * P) F ltac:(lia)). nia.
        -- apply Z.leb_gt in Eov. right; right.
           pose proof (ceil_div_spec ((k + 1) * P) F ltac:(nia) ltac:(lia)) as C.
           cbv zeta in C. set (next := if (k + 1) * P mod F =? 0 then (k + 1) * P / F else (k + 1) * P / F + 1) in *.
           assert (0 <= (k + 1) * P / F) by (apply Z.div_pos; nia).
           assert (next <= max_int64) as Hn1 by (subst next; destruct (_ =? 0); lia).
           destruct C as [(C1 & C2)|(C0 & _)]; [|nia].
           assert (0 < next) as Hn0 by nia.
           exists next. split; [|repeat split; lia].
           f_equal. apply wrap64s_small. lia.
Qed.

Definition const_adm (F P : Z) (t c : Z) : Prop := c * P <= F * t.   (* c <= S(t) = F*t/P *)

Lemma const_adm_mono F P t t' c : 0 < F -> const_adm F P t c -> t <= t' -> const_adm F P t' c.
Proof. unfold const_adm. intros. nia. Qed.

(* per-call contract: the released hit never puts the count above the schedule *)
Lemma const_contract_lemma F P t k w : const_dom F P t k ->
  const_pace F P t k = Wait w -> const_adm F P (t + Z.max w 0) (k + 1).
Proof.
  intros D E. pose proof D as (HF & HP & Ht & Hk).
  destruct (const_pace_cases F P t k D) as [(E1 & H1)|[(E1 & _)|(next & E1 & H1 & H2 & H3)]];
    rewrite E1 in E; try discriminate; injection E as <-; unfold const_adm.
  - cbn. nia.
  - destruct (Z.max_spec (next - t) 0) as [(Hm & ->)|(Hm & ->)]; nia.
Qed.

(* a positive wait is only returned when the count is on or ahead of the schedule *)
Lemma const_positive_wait_lemma F P t k w : const_dom F P t k ->
  const_pace F P t k = Wait w -> 0 < w -> F * t < (k + 1) * P.
Proof.
  intros D E Hw. pose proof D as (HF & HP & Ht & Hk).
  destruct (const_pace_cases F P t k D) as [(E1 & H1)|[(E1 & _)|(next & E1 & H1 & H2 & H3)]];
    rewrite E1 in E; try discriminate; injection E as <-; [lia|]. nia.
Qed.

(* lower bound of a stall-free run: the regular wait never overshoots by a full nanosecond *)
Definition const_low (F P : Z) (t c : Z) : Prop := F * t < c * P + F.   (* c > S(t) - F/P *)

Lemma const_lower_step F P t k w : const_dom F P t k -> const_low F P t k ->
  const_pace F P t k = Wait w -> const_low F P (t + Z.max w 0) (k + 1).
Proof.
  intros D L E. pose proof D as (HF & HP & Ht & Hk). unfold const_low in *.
  destruct (const_pace_cases F P t k D) as [(E1 & H1)|[(E1 & _)|(next & E1 & H1 & H2 & H3)]];
    rewrite E1 in E; try discriminate; injection E as <-.
  - cbn. nia.
  - destruct (Z.max_spec (next - t) 0) as [(Hm & ->)|(Hm & ->)]; nia.
Qed.

(* no panic, for all parameter values whatsoever *)
Lemma const_no_panic_lemma F P t k : const_pace F P t k <> Panic.
Proof.
  unfold const_pace.
  repeat match goal with |- context [if ?b then _ else _] => destruct b end; discriminate.
Qed.

Lemma const_neg_stops_lemma F P t k : P <> 0 -> F <> 0 -> (P < 0 \/ F < 0) -> const_pace F P t k = Stop.
Proof.
  intros HP HF Hneg. unfold const_pace.
  assert ((P =? 0) || (F =? 0) = false) as -> by (apply orb_false_iff; split; apply Z.eqb_neq; lia).
  assert ((P <? 0) || (F <? 0) = true) as ->; [|reflexivity].
  apply orb_true_iff. destruct Hneg; [left | right]; apply Z.ltb_lt; lia.
Qed.

Lemma const_zero_unlimited_lemma F P t k : (P = 0 \/ F = 0) -> const_pace F P t k = Wait 0.
Proof.
  intros H. unfold const_pace.
  assert ((P =? 0) || (F =? 0) = true) as ->; [|reflexivity].
  apply orb_true_iff. destruct H; [left | right]; apply Z.eqb_eq; lia.
Qed.

(* when a wait is returned nothing wrapped: it is the exact difference next - t, or zero *)
Lemma const_overflow_stops_lemma F P t k w : const_dom F P t k -> const_pace F P t k = Wait w ->
  w = 0 \/ exists next, w = next - t /\ 0 < next <= max_int64 /\
                        next * F >= (k + 1) * P /\ (next - 1) * F < (k + 1) * P.
Proof.
  intros D E.
  destruct (const_pace_cases F P t k D) as [(E1 & H1)|[(E1 & _)|(next & E1 & H1 & H2 & H3)]];
    rewrite E1 in E; try discriminate; injection E as <-; [left; reflexivity|].
  right. exists next. repeat split; lia.
Qed.

(* ---- the pinned code: three refutations --------------------------------------------------- *)
Lemma const_pinned_panics : exists F P t k, const_dom F P t k /\ const_pace_pinned F P t k = Panic.
Proof.
  exists 2000000000, 1000000000, 0, 0. split; [|reflexivity].
  unfold const_dom, two64. cbn. lia.
Qed.
(* 3 hits per 10ns: after 99 hits at t = 297ns the pinned code releases the 100th at 300ns
   although the schedule allows it only at 334ns *)
Lemma const_pinned_drifts : exists F P t k w,
  const_dom F P t k /\ const_pace_pinned F P t k = Wait w /\ ~ const_adm F P (t + Z.max w 0) (k + 1 - 1).
Proof.
  exists 3, 10, 297, 99, 3. split; [unfold const_dom, two64; cbn; lia|].
  split; [reflexivity|]. unfold const_adm. cbn. lia.
Qed.
(* the overflow guard is off by one: the product wraps to a negative duration *)
Lemma const_pinned_wraps : exists F P t k w,
  const_dom F P t k /\ const_pace_pinned F P t k = Wait w /\ w < 0 /\ F * t < (k + 1) * P.
Proof.
  exists 1, 3600000000000, 0, 2562047. eexists. split; [unfold const_dom, two64; cbn; lia|].
  split; [reflexivity|]. split; [cbn; lia | lia].
Qed.
