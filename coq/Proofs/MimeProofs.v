(* The MIME header block of the CSV codec: textproto-style reading of what http.Header.Write wrote
   gives the same header map back (as a map), for canonical keys and clean values. *)
From Coq Require Import ZArith List Bool Lia Permutation.
From V Require Import Base.Duration Base.Str Model.Flags Model.ResultCodec Proofs.FlagsProofs.
Import ListNotations.
Open Scope Z_scope.

Lemma rev'_rev' {A} (l : list A) : rev' l = rev l.
Proof. unfold rev'. symmetry. apply rev_alt. Qed.

(* ---- lines ---- *)
Lemma mime_lines_line l : forall rest cur, ~ In 10 l ->
  mime_lines (l ++ 13 :: 10 :: rest) cur = (rev cur ++ l) :: mime_lines rest [].
Proof.
  induction l as [|c tl IH]; intros rest cur H.
  - cbn [app mime_lines]. change (13 =? 10) with false. cbn [mime_lines]. rewrite Z.eqb_refl, rev'_rev', app_nil_r. reflexivity.
  - cbn [app mime_lines]. assert (c =? 10 = false) as -> by (apply Z.eqb_neq; intros ->; apply H; left; reflexivity).
    rewrite IH by (intros X; apply H; right; exact X). cbn [rev]. rewrite <- app_assoc. reflexivity.
Qed.

Definition entry_lines (kv : list Z * list (list Z)) : list (list Z) := map (fun v => fst kv ++ [58; 32] ++ v) (snd kv).
Definition entry_bytes (kv : list Z * list (list Z)) : list Z := flat_map (fun v => fst kv ++ [58; 32] ++ v ++ [13; 10]) (snd kv).

Definition key_ok (k : list Z) : Prop := k <> [] /\ ~ In 58 k /\ ~ In 10 k /\ canon_key k true = k.
Definition val_ok (v : list Z) : Prop := ~ In 10 v /\ trim_ws (32 :: v) = v.
Definition entry_ok (kv : list Z * list (list Z)) : Prop := key_ok (fst kv) /\ snd kv <> [] /\ Forall val_ok (snd kv).

Lemma entry_lines_bytes kv rest : entry_ok kv ->
  mime_lines (entry_bytes kv ++ rest) [] = entry_lines kv ++ mime_lines rest [].
Proof.
  intros ((_ & _ & K10 & _) & _ & Hv). unfold entry_bytes, entry_lines. destruct kv as [k vs]. cbn [fst snd] in *.
  induction vs as [|v tl IH]; [reflexivity|]. inversion Hv as [|? ? (V10 & _) Ht]; subst.
  cbn [flat_map map]. rewrite <- !app_assoc. cbn [app].
  replace (k ++ 58 :: 32 :: v ++ 13 :: 10 :: flat_map (fun v0 => k ++ 58 :: 32 :: v0 ++ [13; 10]) tl ++ rest)
    with ((k ++ 58 :: 32 :: v) ++ 13 :: 10 :: (flat_map (fun v0 => k ++ 58 :: 32 :: v0 ++ [13; 10]) tl ++ rest))
    by (rewrite <- app_assoc; reflexivity).
  rewrite mime_lines_line.
  - cbn [rev app]. f_equal. exact (IH Ht).
  - intros X. apply in_app_or in X as [X|[X|[X|X]]]; [apply K10, X | discriminate | discriminate | apply V10, X].
Qed.

Lemma all_lines l rest : Forall entry_ok l ->
  mime_lines (flat_map entry_bytes l ++ rest) [] = flat_map entry_lines l ++ mime_lines rest [].
Proof.
  induction 1 as [|kv tl Hk _ IH]; [reflexivity|]. cbn [flat_map]. rewrite <- !app_assoc, entry_lines_bytes by exact Hk. rewrite IH. reflexivity.
Qed.

(* ---- reading the lines back ---- *)
Definition add_entry (h : hmap) (kv : list Z * list (list Z)) : hmap := fold_left (fun h v => happend (fst kv) v h) (snd kv) h.

Lemma read_entry kv tl h : entry_ok kv -> mime_read_lines (entry_lines kv ++ tl) h = mime_read_lines tl (add_entry h kv).
Proof.
  intros ((Kne & K58 & _ & Kc) & _ & Hv). unfold entry_lines, add_entry. destruct kv as [k vs]. cbn [fst snd] in *.
  revert h. induction vs as [|v vt IH]; intros h; [reflexivity|]. inversion Hv as [|? ? (_ & Vt) Ht]; subst.
  cbn [map app fold_left]. destruct k as [|k0 k']; [congruence|].
  change ((k0 :: k') ++ [58; 32] ++ v) with (k0 :: (k' ++ 58 :: 32 :: v)). cbn [mime_read_lines].
  change (k0 :: k' ++ 58 :: 32 :: v) with ((k0 :: k') ++ 58 :: (32 :: v)).
  rewrite (splitn2_found 58 (k0 :: k') (32 :: v) [] K58). cbn [rev app].
  rewrite Kc, Vt. apply IH, Ht.
Qed.

Lemma read_all l : forall h, Forall entry_ok l ->
  mime_read_lines (flat_map entry_lines l ++ [[]]) h = Some (fold_left add_entry l h).
Proof.
  induction l as [|kv tl IH]; intros h H; [reflexivity|]. inversion H; subst.
  cbn [flat_map fold_left]. rewrite <- app_assoc, read_entry by assumption. apply IH. assumption.
Qed.

(* ---- rebuilding a map with distinct keys gives it back ---- *)
Definition keys (h : hmap) : list (list Z) := map fst h.

Lemma happend_new k v h : ~ In k (keys h) -> happend k v h = h ++ [(k, [v])].
Proof.
  induction h as [|[k' vs] tl IH]; intros H; [reflexivity|]. cbn [happend].
  destruct (str_eqb k' k) eqn:E; [apply str_eqb_eq in E; subst; exfalso; apply H; left; reflexivity|].
  cbn [app]. f_equal. apply IH. intros X. apply H. right. exact X.
Qed.

Lemma happend_last k vs v h : ~ In k (keys h) -> happend k v (h ++ [(k, vs)]) = h ++ [(k, vs ++ [v])].
Proof.
  induction h as [|[k' vs'] tl IH]; intros H; cbn [app happend].
  - rewrite str_eqb_refl. reflexivity.
  - destruct (str_eqb k' k) eqn:E; [apply str_eqb_eq in E; subst; exfalso; apply H; left; reflexivity|].
    f_equal. apply IH. intros X. apply H. right. exact X.
Qed.

Lemma add_entry_new h k vs : ~ In k (keys h) -> vs <> [] -> add_entry h (k, vs) = h ++ [(k, vs)].
Proof.
  intros Hk Hne. unfold add_entry. cbn [fst snd]. destruct vs as [|v vt]; [congruence|]. cbn [fold_left].
  rewrite happend_new by exact Hk. clear Hne.
  assert (forall acc, fold_left (fun h0 v0 => happend k v0 h0) vt (h ++ [(k, acc)]) = h ++ [(k, acc ++ vt)]) as K.
  { induction vt as [|w wt IHw]; intros acc; cbn [fold_left]; [rewrite app_nil_r; reflexivity|].
    rewrite happend_last by exact Hk. rewrite IHw, <- app_assoc. reflexivity. }
  apply K.
Qed.

Lemma rebuild l : forall h, NoDup (keys h ++ keys l) -> Forall (fun kv => snd kv <> []) l -> fold_left add_entry l h = h ++ l.
Proof.
  induction l as [|[k vs] tl IH]; intros h Hn Hv; cbn [fold_left]; [rewrite app_nil_r; reflexivity|].
  inversion Hv as [|? ? Hvs Hvt]; subst. cbn [snd] in Hvs.
  assert (~ In k (keys h)) as Hk.
  { cbn [keys map] in Hn. apply NoDup_remove_2 in Hn. intros X. apply Hn. apply in_or_app. left. exact X. }
  rewrite add_entry_new by assumption. rewrite IH; [rewrite <- app_assoc; reflexivity | | exact Hvt].
  unfold keys in *. rewrite map_app. cbn [map fst]. rewrite <- app_assoc. exact Hn.
Qed.

(* ---- sorting is a permutation ---- *)
Lemma insert_key_perm kv l : Permutation (insert_key kv l) (kv :: l).
Proof.
  induction l as [|x tl IH]; cbn [insert_key]; [apply Permutation_refl|].
  destruct (str_leb (fst kv) (fst x)); [apply Permutation_refl|].
  eapply Permutation_trans; [apply perm_skip, IH | apply perm_swap].
Qed.
Lemma sort_hmap_perm m : Permutation (sort_hmap m) m.
Proof.
  unfold sort_hmap. induction m as [|x tl IH]; cbn [fold_right]; [apply Permutation_refl|].
  eapply Permutation_trans; [apply insert_key_perm | apply perm_skip, IH].
Qed.

(* ---- lookups in maps with distinct keys ---- *)
Lemma hlookup_in h k vs : NoDup (keys h) -> In (k, vs) h -> hlookup k h = vs.
Proof.
  induction h as [|[k' vs'] tl IH]; intros Hn Hi; [destruct Hi|]. cbn [hlookup]. inversion Hn as [|? ? Hk Hn']; subst.
  destruct Hi as [E|Hi].
  - injection E as -> ->. rewrite str_eqb_refl. reflexivity.
  - destruct (str_eqb k' k) eqn:E; [|apply IH; assumption].
    apply str_eqb_eq in E. subst. exfalso. apply Hk. apply (in_map fst) in Hi. exact Hi.
Qed.

Lemma strs_eqb_refl l : strs_eqb l l = true.
Proof. induction l as [|x tl IH]; [reflexivity|]. cbn. rewrite str_eqb_refl, IH. reflexivity. Qed.

Lemma hmap_incl_perm a b : NoDup (keys b) -> (forall kv, In kv a -> In kv b) -> hmap_incl a b = true.
Proof.
  intros Hn Hi. unfold hmap_incl. apply forallb_forall. intros [k vs] Hkv. cbn [fst snd].
  rewrite (hlookup_in b k vs Hn (Hi _ Hkv)). apply strs_eqb_refl.
Qed.

(* the domain: canonical keys (as net/http yields them), pairwise distinct, each with at least one
   value; values without line breaks and without blanks at either end *)
Definition hdr_dom (m : hmap) : Prop := NoDup (keys m) /\ Forall entry_ok m.

Theorem mime_roundtrip_lemma m : hdr_dom m ->
  mime_read (mime_write m) = Some (sort_hmap m) /\ headers_equal (Some m) (Some (sort_hmap m)) = true.
Proof.
  intros [Hn He]. pose proof (sort_hmap_perm m) as P.
  assert (Forall entry_ok (sort_hmap m)) as Hs.
  { apply Forall_forall. intros kv Hk. rewrite Forall_forall in He. apply He. eapply Permutation_in; [exact P | exact Hk]. }
  assert (NoDup (keys (sort_hmap m))) as Hns.
  { unfold keys. eapply Permutation_NoDup; [apply Permutation_map, Permutation_sym, P | exact Hn]. }
  split.
  - unfold mime_read, mime_write. change (flat_map (fun kv => flat_map (fun v => fst kv ++ [58; 32] ++ v ++ [13; 10]) (snd kv)) (sort_hmap m))
      with (flat_map entry_bytes (sort_hmap m)).
    rewrite all_lines by exact Hs. change (mime_lines [13; 10] []) with [@nil Z].
    rewrite read_all by exact Hs. f_equal. rewrite rebuild; [reflexivity | exact Hns |].
    eapply Forall_impl; [|exact Hs]. intros kv (_ & H & _). exact H.
  - cbn [headers_equal]. rewrite (Permutation_length P), Nat.eqb_refl. cbn [andb].
    rewrite (hmap_incl_perm m (sort_hmap m) Hns) by (intros kv H; eapply Permutation_in; [apply Permutation_sym, P | exact H]).
    rewrite (hmap_incl_perm (sort_hmap m) m Hn) by (intros kv H; eapply Permutation_in; [exact P | exact H]). reflexivity.
Qed.

(* ---- the CSV theorems without the header hypothesis ---- *)
From V Require Import Base.Base64 Model.Csv Proofs.ResultCodecProofs.

Definition headers_dom (h : option hmap) : Prop := match h with None => True | Some m => hdr_dom m end.

Lemma headers_dom_roundtrips h : headers_dom h -> hdr_roundtrips h.
Proof.
  destruct h as [m|]; [|exact (fun _ => I)]. intros H. destruct (mime_roundtrip_lemma m H) as [E Q].
  exists (sort_hmap m). split; assumption.
Qed.

Theorem csv_stream_roundtrip_full rs :
  Forall cres_dom rs -> Forall (fun r => headers_dom (c_headers r)) rs -> Forall texts_ok rs ->
  exists rs', csv_decode_all (flat_map csv_encode rs) = Some rs' /\ Forall2 (fun a b => cres_equal a b = true) rs rs'.
Proof.
  intros HD HH HT. apply csv_stream_roundtrip_lemma; try assumption.
  eapply Forall_impl; [|exact HH]. intros r. apply headers_dom_roundtrips.
Qed.
