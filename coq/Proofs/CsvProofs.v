From Coq Require Import ZArith List Bool Lia.
From V Require Import Model.Csv.
Import ListNotations.
Open Scope Z_scope.

Definition term_of (t : Z) : term := if t =? 44 then TComma else TNewline.
Definition is_sep (t : Z) : Prop := t = 44 \/ t = 10.

(* the model reverses its accumulators with the linear [rev'] *)
Lemma rev'_rev {A} (l : list A) : rev' l = rev l.
Proof. unfold rev'. symmetry. apply rev_alt. Qed.
Ltac fin := cbn; rewrite ?rev'_rev; reflexivity.

Lemma quoted_escape f : forall acc t rest, is_sep t ->
  quoted (escape_quotes f ++ 34 :: t :: rest) acc false = Some (rev acc ++ f, term_of t, rest).
Proof.
  induction f as [|c tl IH]; intros acc t rest Ht; cbn [escape_quotes app].
  - rewrite app_nil_r. unfold term_of. destruct Ht as [-> | ->]; fin.
  - destruct (c =? 34) eqn:E.
    + apply Z.eqb_eq in E. subst c. change (quoted ((34 :: 34 :: escape_quotes tl) ++ 34 :: t :: rest) acc false)
        with (quoted (escape_quotes tl ++ 34 :: t :: rest) (34 :: acc) false).
      rewrite IH by exact Ht. cbn [rev]. rewrite <- app_assoc. reflexivity.
    + cbn [app quoted]. rewrite E. rewrite IH by exact Ht. cbn [rev]. rewrite <- app_assoc. reflexivity.
Qed.

Lemma unquoted_plain f : forall acc t rest, is_sep t ->
  existsb special_byte f = false ->
  unquoted (f ++ t :: rest) acc = (rev acc ++ f, term_of t, rest).
Proof.
  induction f as [|c tl IH]; intros acc t rest Ht Hs; cbn [app unquoted].
  - rewrite app_nil_r. unfold term_of. destruct Ht as [-> | ->]; fin.
  - cbn [existsb] in Hs. apply orb_false_iff in Hs as [Hc Hs]. unfold special_byte in Hc.
    repeat (apply orb_false_iff in Hc as [Hc ?]).
    rewrite Hc. assert (c =? 10 = false) as -> by assumption.
    rewrite IH by assumption. cbn [rev]. rewrite <- app_assoc. reflexivity.
Qed.

Lemma needs_quotes_false f : needs_quotes f = false -> existsb special_byte f = false.
Proof.
  destruct f as [|c tl]; [reflexivity|]. unfold needs_quotes. intros H.
  apply orb_false_iff in H as [H _]. apply orb_false_iff in H as [_ H]. exact H.
Qed.

Lemma read_write_field f t rest : is_sep t ->
  read_field (write_field f ++ t :: rest) = Some (f, term_of t, rest).
Proof.
  intros Ht. unfold write_field. destruct (needs_quotes f) eqn:N.
  - cbn [app read_field]. rewrite Z.eqb_refl. rewrite <- app_assoc. cbn [app].
    rewrite quoted_escape by exact Ht. reflexivity.
  - pose proof (needs_quotes_false f N) as Hs. destruct f as [|c tl].
    + cbn [app read_field]. destruct Ht as [-> | ->]; fin.
    + cbn [app read_field]. assert (c =? 34 = false) as ->.
      { cbn [existsb] in Hs. apply orb_false_iff in Hs as [Hc _]. unfold special_byte in Hc.
        repeat (apply orb_false_iff in Hc as [Hc ?]). assumption. }
      change (c :: tl ++ t :: rest) with ((c :: tl) ++ t :: rest). rewrite unquoted_plain by assumption. reflexivity.
Qed.

Lemma read_write_record fs : forall acc rest fuel, fs <> [] -> (length fs <= fuel)%nat ->
  read_record fuel (write_fields fs ++ 10 :: rest) acc = Some (rev acc ++ fs, rest).
Proof.
  induction fs as [|f tl IH]; intros acc rest fuel Hne Hf; [congruence|].
  destruct fuel as [|fuel]; [cbn in Hf; lia|]. cbn [read_record].
  destruct tl as [|f2 tl2].
  - cbn [write_fields]. rewrite (read_write_field f 10 rest) by (right; reflexivity). cbn [term_of Z.eqb].
    rewrite rev'_rev. cbn [rev]. rewrite <- ?app_assoc. reflexivity.
  - change (write_fields (f :: f2 :: tl2)) with (write_field f ++ 44 :: write_fields (f2 :: tl2)).
    rewrite <- app_assoc. cbn [app]. rewrite (read_write_field f 44 _) by (left; reflexivity). cbn [term_of Z.eqb].
    rewrite IH by (try discriminate; cbn [length] in *; lia). cbn [rev]. rewrite <- app_assoc. reflexivity.
Qed.

Lemma write_record_nonempty fs : write_record fs <> [].
Proof. unfold write_record. destruct (write_fields fs); discriminate. Qed.

Lemma length_write_field f : (1 <= length (write_field f) + 1)%nat.
Proof. lia. Qed.

(* the RFC 4180 reader recovers every record sequence from what the writer wrote - for ALL fields *)
Lemma rfc_roundtrip_lemma rs : Forall (fun r => r <> []) rs ->
  forall fuel, (length rs < fuel)%nat ->
  rfc_records fuel (concat (map write_record rs)) = Some rs.
Proof.
  induction rs as [|r tl IH]; intros Hne fuel Hf.
  - destruct fuel; [lia | reflexivity].
  - destruct fuel as [|fuel]; [lia|]. inversion Hne as [|? ? Hr Htl]; subst.
    cbn [map concat]. unfold write_record at 1. rewrite <- app_assoc. cbn [app].
    cbn [rfc_records].
    destruct (write_fields r ++ 10 :: concat (map write_record tl)) as [|c0 s0] eqn:Es.
    { destruct (write_fields r); discriminate. }
    rewrite <- Es.
    assert (length r <= S (length (write_fields r ++ 10%Z :: concat (map write_record tl))))%nat as Hl.
    { assert (forall fs, (length fs <= S (length (write_fields fs)))%nat) as K.
      { induction fs as [|f [|f2 tl2] IHf]; cbn [write_fields length]; try lia.
        rewrite app_length. cbn [length write_fields] in *. lia. }
      rewrite app_length. specialize (K r). lia. }
    rewrite (read_write_record r [] _ _ Hr Hl). cbn [rev app].
    rewrite IH by (try assumption; cbn [length] in Hf; lia). reflexivity.
Qed.

(* ---- "\r\n" ---- *)
Lemma crlf_norm_id s : has_crlf s = false -> crlf_norm s = s.
Proof.
  induction s as [|c tl IH]; intros H; [reflexivity|]. cbn [crlf_norm has_crlf] in *.
  destruct tl as [|d tl2]; [reflexivity|]. apply orb_false_iff in H as [H1 H2].
  rewrite H1. f_equal. apply IH, H2.
Qed.

Definition last_cr (s : list Z) : bool := match rev s with c :: _ => c =? 13 | [] => false end.
Definition first_nl (s : list Z) : bool := match s with c :: _ => c =? 10 | [] => false end.

Lemma has_crlf_cons c tl : has_crlf (c :: tl) = ((c =? 13) && first_nl tl) || has_crlf tl.
Proof. destruct tl as [|d tl2]; cbn; [now rewrite andb_false_r | reflexivity]. Qed.

Lemma last_cr_cons c tl : tl <> [] -> last_cr (c :: tl) = last_cr tl.
Proof.
  intros H. unfold last_cr. cbn [rev]. destruct (rev tl) eqn:E; [|reflexivity].
  apply (f_equal (@rev Z)) in E. rewrite rev_involutive in E. cbn in E. congruence.
Qed.

Lemma has_crlf_app a b : has_crlf a = false -> has_crlf b = false -> last_cr a && first_nl b = false ->
  has_crlf (a ++ b) = false.
Proof.
  induction a as [|c tl IH]; intros Ha Hb Hl; [exact Hb|].
  cbn [app]. rewrite has_crlf_cons in *. apply orb_false_iff in Ha as [H1 H2].
  destruct tl as [|d tl2].
  - cbn [app]. unfold last_cr in Hl. cbn in Hl. rewrite Hl, Hb. reflexivity.
  - rewrite last_cr_cons in Hl by discriminate. rewrite (IH H2 Hb Hl).
    change (first_nl ((d :: tl2) ++ b)) with (first_nl (d :: tl2)). rewrite H1. reflexivity.
Qed.

Lemma last_cr_app a b : b <> [] -> last_cr (a ++ b) = last_cr b.
Proof.
  intros H. unfold last_cr. rewrite rev_app_distr. destruct (rev b) eqn:E; [|reflexivity].
  apply (f_equal (@rev Z)) in E. rewrite rev_involutive in E. cbn in E. congruence.
Qed.

Lemma escape_head tl : match tl, escape_quotes tl with
                       | d :: _, e :: _ => e = d
                       | [], [] => True
                       | _, _ => False end.
Proof. destruct tl as [|d tl2]; cbn; [exact I|]. destruct (d =? 34) eqn:E; [apply Z.eqb_eq in E; subst|]; reflexivity. Qed.

Lemma has_crlf_escape f : has_crlf f = false -> has_crlf (escape_quotes f) = false.
Proof.
  induction f as [|c tl IH]; intros H; [reflexivity|].
  rewrite has_crlf_cons in H. apply orb_false_iff in H as [H1 H2]. specialize (IH H2).
  assert (first_nl (escape_quotes tl) = first_nl tl) as Hf.
  { pose proof (escape_head tl) as E. destruct tl as [|d tl2], (escape_quotes _) as [|e et]; try contradiction; [reflexivity|].
    cbn. now subst. }
  cbn [escape_quotes]. destruct (c =? 34) eqn:E.
  - apply Z.eqb_eq in E. subst c. rewrite !has_crlf_cons. cbn [Z.eqb andb orb]. exact IH.
  - rewrite has_crlf_cons, Hf, H1, IH. reflexivity.
Qed.

(* a written piece never ends with \r and, concatenated, never forms \r\n *)
Definition piece_ok (p : list Z) : Prop := has_crlf p = false /\ last_cr p = false /\ p <> [].

Lemma piece_app a b : (a = [] \/ piece_ok a) -> piece_ok b -> piece_ok (a ++ b).
Proof.
  intros [-> | (A1 & A2 & A3)] (B1 & B2 & B3); [split; [assumption | split; assumption]|].
  split; [|split].
  - apply has_crlf_app; [assumption | assumption | now rewrite A2].
  - rewrite last_cr_app by exact B3. exact B2.
  - destruct a; [congruence | discriminate].
Qed.

Lemma no_special_no_cr f : existsb special_byte f = false -> has_crlf f = false /\ last_cr f = false.
Proof.
  intros H. assert (Forall (fun c => (c =? 13) = false) f) as F.
  { rewrite Forall_forall. intros c Hc. destruct (c =? 13) eqn:E; [|reflexivity].
    assert (existsb special_byte f = true); [|congruence]. apply existsb_exists. exists c. split; [exact Hc|].
    unfold special_byte. rewrite E. now rewrite !orb_true_r. }
  split.
  - clear H. induction f as [|c tl IH]; [reflexivity|]. inversion F; subst. rewrite has_crlf_cons.
    match goal with E : (c =? 13) = false |- _ => rewrite E end. cbn. apply IH. assumption.
  - unfold last_cr. destruct (rev f) as [|c r] eqn:E; [reflexivity|].
    rewrite Forall_forall in F. apply F. apply in_rev. rewrite E. left. reflexivity.
Qed.

Lemma field_piece f : has_crlf f = false -> write_field f = [] \/ piece_ok (write_field f).
Proof.
  intros H. unfold write_field. destruct (needs_quotes f) eqn:N.
  - right. change (34 :: escape_quotes f ++ [34]) with ([34] ++ (escape_quotes f ++ [34])).
    apply piece_app; [right; split; [reflexivity | split; [reflexivity | discriminate]]|].
    destruct (escape_quotes f) as [|e et] eqn:Ee.
    + split; [reflexivity | split; [reflexivity | discriminate]].
    + rewrite <- Ee. split; [|split].
      * apply has_crlf_app; [apply has_crlf_escape, H | reflexivity | apply andb_false_r].
      * rewrite last_cr_app by discriminate. reflexivity.
      * rewrite Ee. discriminate.
  - destruct f as [|c tl]; [left; reflexivity|]. right.
    destruct (no_special_no_cr _ (needs_quotes_false _ N)) as (A & B). split; [exact A | split; [exact B | discriminate]].
Qed.

Lemma fields_piece fs : Forall (fun f => has_crlf f = false) fs -> write_fields fs = [] \/ piece_ok (write_fields fs).
Proof.
  induction fs as [|f tl IH]; intros H; [left; reflexivity|]. inversion H as [|? ? Hf Ht]; subst.
  destruct tl as [|f2 tl2]; [apply field_piece, Hf|].
  change (write_fields (f :: f2 :: tl2)) with (write_field f ++ ([44] ++ write_fields (f2 :: tl2))). right.
  apply piece_app; [apply field_piece, Hf|]. destruct (IH Ht) as [E|P].
  - rewrite E. rewrite app_nil_r. split; [reflexivity | split; [reflexivity | discriminate]].
  - apply piece_app; [right; split; [reflexivity | split; [reflexivity | discriminate]] | exact P].
Qed.

Lemma record_piece fs : Forall (fun f => has_crlf f = false) fs -> piece_ok (write_record fs).
Proof.
  intros H. unfold write_record. apply piece_app; [apply fields_piece, H|].
  split; [reflexivity | split; [reflexivity | discriminate]].
Qed.

Lemma records_no_crlf rs : Forall (Forall (fun f => has_crlf f = false)) rs ->
  concat (map write_record rs) = [] \/ piece_ok (concat (map write_record rs)).
Proof.
  induction rs as [|r tl IH]; intros H; [left; reflexivity|]. inversion H; subst. right. cbn [map concat].
  destruct (IH ltac:(assumption)) as [E|P].
  - rewrite E, app_nil_r. apply record_piece. assumption.
  - apply piece_app; [right; apply record_piece; assumption | exact P].
Qed.

(* Go's reader (CRLF-normalising) recovers every record sequence whose fields contain no "\r\n" *)
Lemma csv_fields_roundtrip_lemma rs : Forall (fun r => r <> []) rs ->
  Forall (Forall (fun f => has_crlf f = false)) rs ->
  go_csv_records (concat (map write_record rs)) = Some rs.
Proof.
  intros Hne Hc. unfold go_csv_records.
  assert (crlf_norm (concat (map write_record rs)) = concat (map write_record rs)) as ->.
  { apply crlf_norm_id. destruct (records_no_crlf rs Hc) as [E|(P & _)]; [rewrite E; reflexivity | exact P]. }
  apply rfc_roundtrip_lemma; [exact Hne|].
  (* every record contributes at least its newline *)
  clear. induction rs as [|r tl IH]; cbn [map concat length]; [lia|]. rewrite app_length. unfold write_record at 1. rewrite app_length. cbn [length]. lia.
Qed.

(* without the restriction the law is false: a field "a\r\nb" comes back as "a\nb" *)
Lemma csv_crlf_refuted_lemma : exists rs, Forall (fun r => r <> []) rs /\
  go_csv_records (concat (map write_record rs)) <> Some rs.
Proof. exists [[[97; 13; 10; 98]]]. split; [repeat constructor; discriminate | vm_compute; discriminate]. Qed.
