From Coq Require Import QArith Qminmax Qround Lqa List Bool ZArith Lia.
From V Require Import Model.Quantile.
Import ListNotations.
Open Scope Q_scope.

Lemma Qle_bool_true a b : Qle_bool a b = true <-> a <= b. Proof. apply Qle_bool_iff. Qed.
Lemma Qle_bool_false a b : Qle_bool a b = false -> b < a.
Proof. intros H. apply Qnot_le_lt. intros X. apply Qle_bool_iff in X. congruence. Qed.

Lemma clamp_range x lo hi : lo <= hi -> lo <= clamp x lo hi /\ clamp x lo hi <= hi.
Proof. intros H. unfold clamp. split; [apply Q.le_max_l | apply Q.max_lub; [exact H | apply Q.le_min_r]]. Qed.

Lemma clamp_mono x y lo hi : x <= y -> clamp x lo hi <= clamp y lo hi.
Proof. intros H. unfold clamp. apply Q.max_le_compat_l, Q.min_le_compat_r, H. Qed.

Lemma wavg_range x1 w1 x2 w2 : Qmin x1 x2 <= wavg x1 w1 x2 w2 /\ wavg x1 w1 x2 w2 <= Qmax x1 x2.
Proof.
  unfold wavg, wavg_sorted. destruct (Qle_bool x1 x2) eqn:E.
  - apply Qle_bool_true in E. rewrite (Q.min_l _ _ E), (Q.max_r _ _ E). apply clamp_range, E.
  - apply Qle_bool_false, Qlt_le_weak in E. rewrite (Q.min_r _ _ E), (Q.max_l _ _ E). apply clamp_range, E.
Qed.

Lemma wavg_between x1 w1 x2 w2 : x1 <= x2 -> x1 <= wavg x1 w1 x2 w2 /\ wavg x1 w1 x2 w2 <= x2.
Proof. intros H. pose proof (wavg_range x1 w1 x2 w2) as R. rewrite (Q.min_l _ _ H), (Q.max_r _ _ H) in R. exact R. Qed.

(* ---- range ---- *)
Lemma sorted_last m cs : sorted_from m cs -> m <= last_mean m cs.
Proof.
  revert m; induction cs as [|c tl IH]; intros m H; cbn in *; [apply Qle_refl|].
  destruct H as [H1 H2]. eapply Qle_trans; [exact H1 | apply IH, H2].
Qed.

Lemma walk_range rest : forall prev cprev before W index mx,
  sorted_from (cm prev) rest -> last_mean (cm prev) rest <= mx ->
  cm prev <= walk prev cprev before rest W index mx /\ walk prev cprev before rest W index mx <= mx.
Proof.
  induction rest as [|c tl IH]; intros prev cprev before W index mx Hs Hl; cbn [walk].
  - cbn in Hl. apply wavg_between, Hl.
  - cbn in Hs, Hl. destruct Hs as [H1 H2]. destruct (Qle_bool index (before + cw c / 2)).
    + destruct (wavg_between (cm prev) (before + cw c / 2 - index) (cm c) (index - cprev) H1) as [A B].
      split; [exact A|]. eapply Qle_trans; [exact B|]. eapply Qle_trans; [apply sorted_last, H2 | exact Hl].
    + destruct (IH c (before + cw c / 2) (before + cw c) W index mx H2 Hl) as [A B].
      split; [eapply Qle_trans; [exact H1 | exact A] | exact B].
Qed.

Lemma total_nonneg cs : Forall (fun c => 0 < cw c) cs -> 0 <= total cs.
Proof. induction 1 as [|c tl Hc _ IH]; unfold total in *; cbn [fold_right]; [apply Qle_refl | lra]. Qed.

Lemma head_range q w0 m0 mn W : 0 < w0 -> mn <= m0 -> 0 <= q * W -> q * W <= w0 / 2 ->
  mn <= mn + 2 * (q * W) / w0 * (m0 - mn) /\ mn + 2 * (q * W) / w0 * (m0 - mn) <= m0.
Proof.
  intros Hw Hm H0 H1. set (i := q * W) in *.
  assert (2 * i / w0 == (2 * i) * / w0) as E by reflexivity.
  assert (0 < / w0) as Hi by (apply Qinv_lt_0_compat; exact Hw).
  assert (0 <= 2 * i / w0) as T0 by (rewrite E; apply Qmult_le_0_compat; lra).
  assert (2 * i / w0 <= 1) as T1.
  { apply Qle_shift_div_r; [exact Hw|]. assert (w0 / 2 == w0 * (1 # 2)) as E2 by (unfold Qdiv; reflexivity). lra. }
  set (t := 2 * i / w0) in *. split; nra.
Qed.

Lemma quantile_in_range_lemma q d v : Inv d -> quantile q d = Some v -> dmin d <= v /\ v <= dmax d.
Proof.
  intros [Hw HI] H. unfold quantile in H.
  destruct (Qle_bool 0 q && Qle_bool q 1) eqn:Eq; [|discriminate].
  apply andb_true_iff in Eq as [Q0 Q1]. apply Qle_bool_true in Q0. apply Qle_bool_true in Q1.
  destruct (dcs d) as [|c0 [|c1 tl]] eqn:Ed; [discriminate| |].
  - injection H as <-. destruct HI as (A & _ & B). cbn in B. split; assumption.
  - destruct HI as (A & S & L).
    pose proof (total_nonneg _ Hw) as TW.
    destruct (Qle_bool (q * total (c0 :: c1 :: tl)) (cw c0 / 2)) eqn:E1; injection H as <-.
    + apply Qle_bool_true in E1. inversion Hw as [|? ? Hw0 _]; subst.
      destruct (head_range q (cw c0) (cm c0) (dmin d) (total (c0 :: c1 :: tl)) Hw0 A) as [X Y];
        [apply Qmult_le_0_compat; assumption | exact E1 |].
      split; [exact X|]. eapply Qle_trans; [exact Y|]. eapply Qle_trans; [apply (sorted_last _ _ S) | exact L].
    + destruct (walk_range (c1 :: tl) c0 (cw c0 / 2) (cw c0) (total (c0 :: c1 :: tl)) (q * total (c0 :: c1 :: tl)) (dmax d) S L) as [X Y].
      split; [eapply Qle_trans; [exact A | exact X] | exact Y].
Qed.

(* ---- monotonicity ---- *)
Lemma seg_mono x1 x2 cp cc i j : x1 <= x2 -> cp < cc -> i <= j ->
  wavg x1 (cc - i) x2 (i - cp) <= wavg x1 (cc - j) x2 (j - cp).
Proof.
  intros Hx Hc Hij. unfold wavg. apply Qle_bool_true in Hx. rewrite Hx. apply Qle_bool_true in Hx.
  unfold wavg_sorted. apply clamp_mono.
  assert (cc - i + (i - cp) == cc - cp) as -> by ring.
  assert (cc - j + (j - cp) == cc - cp) as -> by ring.
  apply Qmult_le_compat_r; [|apply Qlt_le_weak, Qinv_lt_0_compat; lra]. nra.
Qed.

Lemma last_is_max m w mx W idx : 0 < w -> m <= mx -> idx <= W ->
  mx <= wavg m (idx - W - w / 2) mx (w / 2 - (idx - W - w / 2)).
Proof.
  intros Hw Hm Hi. unfold wavg. apply Qle_bool_true in Hm. rewrite Hm. apply Qle_bool_true in Hm.
  unfold wavg_sorted, clamp. eapply Qle_trans; [|apply Q.le_max_r]. apply Q.min_glb; [|apply Qle_refl].
  assert (w / 2 == w * (1 # 2)) as Eh by (unfold Qdiv; reflexivity).
  assert (idx - W - w / 2 + (w / 2 - (idx - W - w / 2)) == w / 2) as -> by ring.
  apply Qle_shift_div_l; [lra|]. set (h := w / 2) in *. nra.
Qed.

Lemma walk_mono rest : forall prev cprev before W i j mx,
  sorted_from (cm prev) rest -> last_mean (cm prev) rest <= mx -> Forall (fun c => 0 < cw c) (prev :: rest) ->
  cprev <= before -> i <= j -> j <= W ->
  walk prev cprev before rest W i mx <= walk prev cprev before rest W j mx.
Proof.
  induction rest as [|c tl IH]; intros prev cprev before W i j mx Hs Hl Hw Hc Hij HjW; cbn [walk].
  - cbn in Hl. inversion Hw as [|? ? Hw0 _]; subst.
    eapply Qle_trans; [apply (wavg_between _ _ _ _ Hl) | apply last_is_max; assumption].
  - cbn in Hs, Hl. destruct Hs as [H1 H2]. inversion Hw as [|? ? Hwp Hwr]; subst. inversion Hwr as [|? ? Hwc _]; subst.
    assert (cw c / 2 == cw c * (1 # 2)) as Eh by (unfold Qdiv; reflexivity).
    destruct (Qle_bool i (before + cw c / 2)) eqn:Ei; destruct (Qle_bool j (before + cw c / 2)) eqn:Ej.
    + apply seg_mono; [exact H1 | lra | exact Hij].
    + eapply Qle_trans; [apply (wavg_between _ _ _ _ H1)|].
      apply (walk_range tl c (before + cw c / 2) (before + cw c) W j mx H2 Hl).
    + apply Qle_bool_true in Ej. apply Qle_bool_false in Ei. lra.
    + apply IH; try assumption. lra.
Qed.

Lemma quantile_mono_lemma q1 q2 d v1 v2 : Inv d -> q1 <= q2 ->
  quantile q1 d = Some v1 -> quantile q2 d = Some v2 -> v1 <= v2.
Proof.
  intros [Hw HI] Hq H1 H2. unfold quantile in *.
  destruct (Qle_bool 0 q1 && Qle_bool q1 1) eqn:E1; [|discriminate].
  destruct (Qle_bool 0 q2 && Qle_bool q2 1) eqn:E2; [|discriminate].
  apply andb_true_iff in E1 as [A1 B1]. apply andb_true_iff in E2 as [A2 B2].
  apply Qle_bool_true in A1, B1, A2, B2.
  destruct (dcs d) as [|c0 [|c1 tl]] eqn:Ed; [discriminate| |].
  - injection H1 as <-. injection H2 as <-. apply Qle_refl.
  - destruct HI as (A & S & L). pose proof (total_nonneg _ Hw) as TW. set (W := total (c0 :: c1 :: tl)) in *.
    inversion Hw as [|? ? Hw0 Hwr]; subst.
    assert (q1 * W <= q2 * W) as Hidx by nra.
    assert (q2 * W <= W) as HW by nra.
    assert (0 <= q1 * W) as H0 by (apply Qmult_le_0_compat; assumption).
    assert (0 <= q2 * W) as H0' by (apply Qmult_le_0_compat; assumption).
    assert (cw c0 / 2 == cw c0 * (1 # 2)) as Eh by (unfold Qdiv; reflexivity).
    destruct (Qle_bool (q1 * W) (cw c0 / 2)) eqn:F1; destruct (Qle_bool (q2 * W) (cw c0 / 2)) eqn:F2;
      injection H1 as <-; injection H2 as <-.
    + (* both in the head *)
      apply Qle_bool_true in F1, F2.
      assert (0 < / cw c0) as Hi by (apply Qinv_lt_0_compat; exact Hw0).
      assert (2 * (q1 * W) / cw c0 <= 2 * (q2 * W) / cw c0) as T
        by (apply Qmult_le_compat_r; [lra | apply Qlt_le_weak; exact Hi]).
      set (t1 := 2 * (q1 * W) / cw c0) in *. set (t2 := 2 * (q2 * W) / cw c0) in *. nra.
    + apply Qle_bool_true in F1.
      destruct (head_range q1 (cw c0) (cm c0) (dmin d) W Hw0 A H0 F1) as [_ Y].
      eapply Qle_trans; [exact Y|]. apply (walk_range (c1 :: tl) c0 _ _ W (q2 * W) (dmax d) S L).
    + apply Qle_bool_true in F2. apply Qle_bool_false in F1. lra.
    + apply (walk_mono (c1 :: tl) c0 (cw c0 / 2) (cw c0) W (q1 * W) (q2 * W) (dmax d) S L Hw); [lra | exact Hidx | exact HW].
Qed.

Lemma quantile_constant_lemma q d v : Inv d -> dmin d == dmax d -> quantile q d = Some v -> v == dmin d.
Proof.
  intros HI E H. destruct (quantile_in_range_lemma q d v HI H) as [A B]. rewrite <- E in B. apply Qle_antisym; assumption.
Qed.

(* a query inside [0,1] of a non-empty digest is never NaN *)
Lemma quantile_defined q d : 0 <= q -> q <= 1 -> dcs d <> [] -> exists v, quantile q d = Some v.
Proof.
  intros A B Hne. unfold quantile. apply Qle_bool_true in A, B. rewrite A, B. cbn [andb].
  destruct (dcs d) as [|c0 [|c1 tl]]; [congruence | eexists; reflexivity |].
  destruct (Qle_bool (q * total (c0 :: c1 :: tl)) (cw c0 / 2)); eexists; reflexivity.
Qed.

(* ---- Metrics.Close: truncation to whole nanoseconds keeps the order ---- *)
Lemma qtrunc_mono x y : x <= y -> (qtrunc x <= qtrunc y)%Z.
Proof.
  intros H. unfold qtrunc. destruct (Qle_bool 0 x) eqn:Ex; destruct (Qle_bool 0 y) eqn:Ey.
  - apply Qfloor_resp_le, H.
  - apply Qle_bool_true in Ex. apply Qle_bool_false in Ey. lra.
  - apply Qle_bool_true in Ey. apply Qle_bool_false in Ex.
    apply Z.le_trans with 0%Z.
    + assert (Qceiling x <= Qceiling 0)%Z as K by (apply Qceiling_resp_le; lra). exact K.
    + assert (Qfloor 0 <= Qfloor y)%Z as K by (apply Qfloor_resp_le; exact Ey). exact K.
  - apply Qceiling_resp_le, H.
Qed.

Lemma qtrunc_int (z : Z) : qtrunc (inject_Z z) = z.
Proof. unfold qtrunc. destruct (Qle_bool 0 (inject_Z z)); [apply Qfloor_Z | apply Qceiling_Z]. Qed.

Lemma percentiles_ordered_lemma d (mn mx : Z) p50 p90 p95 p99 : Inv d ->
  inject_Z mn <= dmin d -> dmax d <= inject_Z mx ->
  quantile (50 # 100) d = Some p50 -> quantile (90 # 100) d = Some p90 ->
  quantile (95 # 100) d = Some p95 -> quantile (99 # 100) d = Some p99 ->
  (mn <= qtrunc p50 <= qtrunc p90 /\ qtrunc p90 <= qtrunc p95 <= qtrunc p99 /\ qtrunc p99 <= mx)%Z.
Proof.
  intros HI Hmn Hmx H50 H90 H95 H99.
  destruct (quantile_in_range_lemma _ _ _ HI H50) as [A _]. destruct (quantile_in_range_lemma _ _ _ HI H99) as [_ B].
  assert (p50 <= p90) as M1 by (eapply (quantile_mono_lemma (50 # 100) (90 # 100)); try eassumption; unfold Qle; cbn; lia).
  assert (p90 <= p95) as M2 by (eapply (quantile_mono_lemma (90 # 100) (95 # 100)); try eassumption; unfold Qle; cbn; lia).
  assert (p95 <= p99) as M3 by (eapply (quantile_mono_lemma (95 # 100) (99 # 100)); try eassumption; unfold Qle; cbn; lia).
  rewrite <- (qtrunc_int mn), <- (qtrunc_int mx).
  repeat match goal with |- _ /\ _ => split end; apply qtrunc_mono; try assumption.
  - eapply Qle_trans; eassumption.
  - eapply Qle_trans; eassumption.
Qed.

(* the HDR ladder: values never decrease along any non-decreasing ladder of percentiles *)
Fixpoint ladder_sorted (qs : list Q) : Prop :=
  match qs with
  | [] => True
  | q :: tl => match tl with [] => True | q' :: _ => q <= q' end /\ ladder_sorted tl
  end.
Fixpoint vals_sorted (vs : list Z) : Prop :=
  match vs with
  | [] => True
  | v :: tl => match tl with [] => True | v' :: _ => (v <= v')%Z end /\ vals_sorted tl
  end.

Lemma hdr_monotone_lemma d qs vs : Inv d -> ladder_sorted qs ->
  map (fun q => quantile q d) qs = map Some vs -> vals_sorted (map qtrunc vs).
Proof.
  intros HI. revert vs. induction qs as [|q tl IH]; intros [|v vt] Hs E; try discriminate; cbn; [exact I|].
  cbn in E. injection E as E1 E2. cbn in Hs. destruct Hs as [H1 H2]. split; [|apply IH; assumption].
  destruct tl as [|q' tl']; destruct vt as [|v' vt']; try discriminate; cbn; [exact I|].
  cbn in E2. injection E2 as E2 _. apply qtrunc_mono. eapply quantile_mono_lemma; eassumption.
Qed.

(* ---- process(): the invariant under every merge policy ---- *)
Definition sorted_weights_ok (cs : list cen) : Prop :=
  Forall (fun c => 0 < cw c) cs /\ match cs with [] => True | c0 :: tl => sorted_from (cm c0) tl end.

Lemma cadd_between c r : 0 < cw c -> 0 < cw r -> cm c <= cm r ->
  cm c <= cm (cadd c r) /\ cm (cadd c r) <= cm r /\ 0 < cw (cadd c r).
Proof.
  intros Hc Hr Hm. unfold cadd. cbn [cm cw].
  assert (0 <= cw r * (cm r - cm c) / (cw c + cw r)) as A.
  { apply Qle_shift_div_l; [lra | nra]. }
  assert (cw r * (cm r - cm c) / (cw c + cw r) <= cm r - cm c) as B.
  { apply Qle_shift_div_r; [lra | nra]. }
  repeat split; lra.
Qed.

Lemma sorted_from_weaken m m' l : m' <= m -> sorted_from m l -> sorted_from m' l.
Proof. destruct l as [|c tl]; cbn; [auto|]. intros H [A B]. split; [lra | exact B]. Qed.

Lemma regroup_spec policy rest : forall cur k, 0 < cw cur -> Forall (fun c => 0 < cw c) rest ->
  sorted_from (cm cur) rest ->
  exists c0 tl, regroup policy cur rest k = c0 :: tl /\ cm cur <= cm c0 /\ sorted_from (cm c0) tl /\
                Forall (fun c => 0 < cw c) (c0 :: tl).
Proof.
  induction rest as [|c tl IH]; intros cur k Hw Hr Hs; cbn [regroup].
  - exists cur, []. repeat split; [apply Qle_refl | constructor; [exact Hw | constructor]].
  - cbn in Hs. destruct Hs as [H1 H2]. inversion Hr as [|? ? Hc Ht]; subst.
    destruct (policy cur c k).
    + destruct (cadd_between cur c Hw Hc H1) as (A & B & C).
      destruct (IH (cadd cur c) (S k) C Ht (sorted_from_weaken _ _ _ B H2)) as (c0 & tl0 & E & L & S0 & W0).
      exists c0, tl0. repeat split; try assumption. lra.
    + destruct (IH c (S k) Hc Ht H2) as (c0 & tl0 & E & L & S0 & W0).
      exists cur, (c0 :: tl0). rewrite E. repeat split; [apply Qle_refl | lra | exact S0 | constructor; assumption].
Qed.

Lemma process_inv_lemma policy all d : sorted_weights_ok all -> Inv d -> Inv (process policy all d).
Proof.
  intros [Hw Hs] HI. unfold process. destruct all as [|c0 tl]; [exact HI|].
  inversion Hw as [|? ? Hw0 Hwt]; subst.
  destruct (regroup_spec policy tl c0 0%nat Hw0 Hwt Hs) as (g0 & gt & E & L & S0 & W0).
  rewrite E. unfold Inv. cbn [dcs dmin dmax hd last_mean]. split; [exact W0|].
  split; [apply Q.le_min_r | split; [exact S0 | apply Q.le_max_r]].
Qed.

(* process() conserves the total weight *)
Lemma regroup_total policy rest : forall cur k, total (regroup policy cur rest k) == cw cur + total rest.
Proof.
  induction rest as [|c tl IH]; intros cur k; cbn [regroup].
  - unfold total; cbn. ring.
  - destruct (policy cur c k).
    + rewrite IH. unfold total; cbn [fold_right cadd cw]. ring.
    + unfold total in *; cbn [fold_right]. rewrite IH. ring.
Qed.
