(* C09 end to end on the models: a JSON result stream cut at ANY byte offset decodes to exactly the
   results whose lines were completely written; a CSV stream cut at a record boundary is the
   encoding of the prefix and decodes to it. *)
From Coq Require Import ZArith List Bool Lia.
From V Require Import Base.Str Base.Base64 Model.Flags Model.Csv Model.ResultCodec Model.Json.
From V Require Import Proofs.FramingProofs Proofs.ResultCodecProofs Proofs.MimeProofs Proofs.JsonProofs.
Import ListNotations.
Open Scope Z_scope.

Lemma in_firstn {A} (x : A) n l : In x (firstn n l) -> In x l.
Proof. revert n; induction l as [|y tl IH]; intros [|n] H; cbn in *; try contradiction. destruct H; [left; assumption | right; eapply IH; eassumption]. Qed.

Lemma decode_lines_of rs : Forall jres_dom rs ->
  exists rs', fold_right (fun l acc => match json_decode_line l, acc with Some r, Some t => Some (r :: t) | _, _ => None end)
                         (Some []) (map json_line rs) = Some rs' /\
              Forall2 (fun a b => cres_equal a b = true) rs rs'.
Proof.
  intros HD. induction rs as [|r tl IH]; cbn [map fold_right].
  - exists []. split; [reflexivity | constructor].
  - inversion HD as [|? ? D1 D2]; subst. destruct (json_record_roundtrip_lemma r D1) as (r' & E1 & Q1).
    destruct (IH D2) as (tl' & E2 & Q2). unfold json_line at 1. rewrite E1, E2. exists (r' :: tl'). split; [reflexivity | constructor; assumption].
Qed.

Lemma json_stream_lines rs : Forall jres_dom rs -> flat_map json_encode rs = enc_lines (map json_line rs).
Proof.
  intros HD. unfold enc_lines. rewrite map_map, flat_map_concat_map. f_equal.
  apply map_ext_in. intros r Hr. rewrite Forall_forall in HD. apply json_encode_line, (jd_body r (HD r Hr)).
Qed.

Lemma json_lines_no10 rs : Forall jres_dom rs -> Forall (fun l => ~ In 10 l) (map json_line rs).
Proof.
  intros HD. apply Forall_forall. intros l Hl. apply in_map_iff in Hl as (r & <- & Hr). rewrite Forall_forall in HD.
  unfold json_line. apply no10_cons; [discriminate|]. apply members_no10; [apply HD, Hr | apply no10_cons; [discriminate | intros []]].
Qed.

Theorem json_cut_decodes_written_lemma rs : Forall jres_dom rs -> forall k,
  exists j rs', (j <= length rs)%nat /\
    (* j results were written completely within the first k bytes, the next one was not *)
    (length (flat_map json_encode (firstn j rs)) <= k)%nat /\
    (j < length rs -> k < length (flat_map json_encode (firstn (S j) rs)))%nat /\
    json_decode_all (firstn k (flat_map json_encode rs)) = Some rs' /\
    Forall2 (fun a b => cres_equal a b = true) (firstn j rs) rs'.
Proof.
  intros HD k. pose proof (json_lines_no10 rs HD) as N10.
  destruct (prefix_shape (map json_line rs) N10 k) as (j & p & E & Np & Lj & Lk).
  rewrite map_length in Lj.
  assert (Forall jres_dom (firstn j rs)) as HDj by (apply Forall_forall; intros r Hr; rewrite Forall_forall in HD; apply HD; eapply in_firstn; exact Hr).
  destruct (decode_lines_of (firstn j rs) HDj) as (rs' & Ed & Q).
  (* the complete lines within the cut *)
  rewrite (json_stream_lines rs HD).
  rewrite firstn_map in E.
  assert (Forall (fun l => ~ In 10 l) (map json_line (firstn j rs))) as N10j by (apply json_lines_no10; exact HDj).
  (* j may be chosen maximal: if the piece p is the whole next line's text followed by more, prefix_shape would have counted it *)
  exists j, rs'. split; [exact Lj|].
  assert (length (enc_lines (map json_line (firstn j rs))) <= k)%nat as Lle.
  { assert (length (firstn k (enc_lines (map json_line rs))) <= k)%nat as F by apply firstn_le_length.
    rewrite E, app_length in F. lia. }
  split; [rewrite (json_stream_lines _ HDj); exact Lle|].
  split.
  - (* the next line is not complete within k bytes: p has no line break, and a complete next line would put one into p *)
    intros Hlt. rewrite (json_stream_lines (firstn (S j) rs)).
    2:{ apply Forall_forall; intros r Hr; rewrite Forall_forall in HD; apply HD; eapply in_firstn; exact Hr. }
    destruct (Nat.lt_ge_cases k (length (enc_lines (map json_line (firstn (S j) rs))))) as [|Ge]; [assumption|]. exfalso.
    (* the first k bytes then contain the whole of the first S j lines *)
    assert (exists r, nth_error rs j = Some r) as (r & Er) by (destruct (nth_error rs j) eqn:X; [eexists; reflexivity | apply nth_error_None in X; lia]).
    assert (firstn (S j) rs = firstn j rs ++ [r]) as ES.
    { clear - Er. revert j Er. induction rs as [|x tl IH]; intros [|j] Er; cbn in *; try discriminate; [congruence | f_equal; apply IH, Er]. }
    rewrite ES, map_app in Ge. unfold enc_lines in Ge. rewrite map_app, concat_app, app_length in Ge. cbn [map concat] in Ge. rewrite app_nil_r in Ge.
    fold (enc_lines (map json_line (firstn j rs))) in Ge.
    (* whole stream = lines of firstn j ++ (line r ++ [10]) ++ rest *)
    assert (exists rest, enc_lines (map json_line rs) = enc_lines (map json_line (firstn j rs)) ++ (json_line r ++ [10]) ++ rest) as (rest & Ew).
    { exists (enc_lines (map json_line (skipn (S j) rs))). rewrite <- (firstn_skipn (S j) rs) at 1. rewrite ES.
      unfold enc_lines. rewrite !map_app, !concat_app. cbn [map concat]. rewrite app_nil_r, <- !app_assoc. reflexivity. }
    rewrite Ew in E. set (A := enc_lines (map json_line (firstn j rs))) in *.
    assert (k = (length A + (k - length A))%nat) as Ek by lia. rewrite Ek, firstn_app_2 in E.
    apply app_inv_head in E.
    (* p = firstn (k - |A|) (line ++ [10] ++ rest) with k - |A| >= |line| + 1: p contains the 10 *)
    apply Np. rewrite <- E. rewrite <- app_assoc. rewrite firstn_app.
    apply in_or_app. right.
    assert (length (json_line r ++ [10]) = S (length (json_line r))) as Ll by (rewrite app_length; cbn [length]; lia).
    rewrite Ll in Ge.
    replace (k - length A - length (json_line r))%nat with (S (k - length A - length (json_line r) - 1)) by lia.
    cbn [app firstn]. left. reflexivity.
  - split; [|exact Q].
    unfold json_decode_all. rewrite E, read_lines_complete by assumption. exact Ed.
Qed.

(* CSV: a cut at a record boundary leaves exactly the encoding of the records written so far *)
Lemma flat_map_firstn {A B} (f : A -> list B) (l : list A) j :
  firstn (length (flat_map f (firstn j l))) (flat_map f l) = flat_map f (firstn j l).
Proof.
  rewrite <- (firstn_skipn j l) at 2. rewrite flat_map_app, firstn_app, Nat.sub_diag, firstn_O, app_nil_r.
  apply firstn_all.
Qed.

Theorem csv_cut_at_boundary_lemma rs j :
  Forall cres_dom rs -> Forall (fun r => headers_dom (c_headers r)) rs -> Forall texts_ok rs ->
  exists rs', csv_decode_all (firstn (length (flat_map csv_encode (firstn j rs))) (flat_map csv_encode rs)) = Some rs' /\
              Forall2 (fun a b => cres_equal a b = true) (firstn j rs) rs'.
Proof.
  intros D H T. rewrite flat_map_firstn.
  assert (forall (P : cres -> Prop), Forall P rs -> Forall P (firstn j rs)) as F.
  { intros P HP. apply Forall_forall. intros r Hr. rewrite Forall_forall in HP. apply HP. eapply in_firstn; exact Hr. }
  apply csv_stream_roundtrip_full; apply F; assumption.
Qed.
