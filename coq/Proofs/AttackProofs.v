From Coq Require Import ZArith List Bool Lia Permutation.
From V Require Import Model.AttackLTS.
Import ListNotations.
Open Scope Z_scope.

(* Case analysis of one step: after [step_cases H], H : step c s l = Some s' has been
   decomposed into the guards that held and s' is the updated record. *)
Ltac step_cases H :=
  unfold step, tick_taken, set_pc in H;
  repeat match type of H with
         | context [match ?x with _ => _ end] => destruct x eqn:?; try discriminate
         end;
  injection H as <-.

Definition wf_cfg (c : cfg) : Prop := 1 <= maxw c /\ 0 <= initw c.

Definition epilogue (p : lpc) : bool :=
  match p with LCloseTicks | LWait | LCloseRes | LFinalStop | LExited => true | _ => false end.
Definition after_close_ticks (p : lpc) : bool :=
  match p with LWait | LCloseRes | LFinalStop | LExited => true | _ => false end.
Definition after_wait (p : lpc) : bool :=
  match p with LCloseRes | LFinalStop | LExited => true | _ => false end.
Definition after_close_res (p : lpc) : bool :=
  match p with LFinalStop | LExited => true | _ => false end.

(* ---- workers: accounting, bound, closure flags ------------------------------------------ *)
Record inv_workers (c : cfg) (s : st) : Prop := {
  iw_total : Z.of_nat (idle s) + busy s + Z.of_nat (done s) = nworkers s;
  iw_le : nworkers s <= maxw c;
  iw_sel1 : pc s = LSel1 -> nworkers s < maxw c;
  iw_ticks_closed : ticks_closed s = after_close_ticks (pc s);
  iw_res_closed : results_closed s = after_close_res (pc s);
  iw_after_wait : after_wait (pc s) = true -> all_done s /\ Z.of_nat (done s) = nworkers s;
  iw_sel2 : pc s = LSel2 -> maxw c <= nworkers s \/ (1 <= idle s)%nat;
  iw_done0 : ticks_closed s = false -> done s = O }.

Lemma inv_workers_init c : wf_cfg c -> inv_workers c (init c).
Proof.
  intros (H1 & H2). unfold init, clamp. constructor; cbn; unfold busy; cbn; try discriminate; try reflexivity.
  - destruct (maxw c <? initw c) eqn:E; [apply Z.ltb_lt in E | apply Z.ltb_ge in E]; lia.
  - destruct (maxw c <? initw c) eqn:E; [apply Z.ltb_lt in E | apply Z.ltb_ge in E]; lia.
Qed.

Lemma length_remove1 x l : memz x l = true -> length l = S (length (remove1 x l)).
Proof.
  induction l as [|y tl IH]; cbn; [discriminate|].
  destruct (x =? y); cbn; [reflexivity|]. intros H. rewrite (IH H). reflexivity.
Qed.

Ltac norm_guards :=
  repeat match goal with
         | H : (_ && _) = true |- _ => apply andb_true_iff in H; destruct H
         | H : negb _ = true |- _ => apply negb_true_iff in H
         | H : (_ <? _) = true |- _ => apply Z.ltb_lt in H
         | H : (_ <? _) = false |- _ => apply Z.ltb_ge in H
         | H : (_ <=? _) = true |- _ => apply Z.leb_le in H
         | H : (_ <=? _) = false |- _ => apply Z.leb_gt in H
         | H : (_ =? _) = true |- _ => apply Z.eqb_eq in H
         | H : Bool.eqb _ _ = true |- _ => apply Bool.eqb_prop in H
         end.

Ltac contra_done :=
  match goal with
  | A : got ?s = O, B : got ?s = S _ |- _ => rewrite A in B; discriminate B
  | A : idle ?s = O, B : idle ?s = S _ |- _ => rewrite A in B; discriminate B
  | A : targ ?s = [], B : memz _ (targ ?s) = true |- _ => rewrite A in B; discriminate B
  | A : infl ?s = [], B : memz _ (infl ?s) = true |- _ => rewrite A in B; discriminate B
  | A : send ?s = [], B : memz _ (send ?s) = true |- _ => rewrite A in B; discriminate B
  end.

Lemma inv_workers_step c s l s' : inv_workers c s -> step c s l = Some s' -> inv_workers c s'.
Proof.
  intros [T L S1 TC RC AW S2 D0] H. unfold busy, all_done in *.
  step_cases H; norm_guards;
    repeat match goal with H : memz _ _ = true |- _ => pose proof (length_remove1 _ _ H); revert H end; intros;
    constructor; unfold busy, all_done;
    cbn [pc now count nworkers idle got targ infl send done seq stopped ticks_closed results_closed
         delivered after_close_ticks after_close_res after_wait length] in *;
    repeat match goal with E : pc s = _ |- _ => rewrite E in * end;
    cbn [after_close_ticks after_close_res after_wait] in *;
    repeat match goal with H : ?x = ?x -> _ |- _ => specialize (H eq_refl) end;
    try assumption; try reflexivity; try lia; try (intros; discriminate);
    try (intros P; rewrite P in *; cbn in *; discriminate);
    try (intros P; specialize (S2 P); destruct S2; [left; lia | right; lia]);
    try (intros _; specialize (S1 eq_refl); lia);
    try (intros P; destruct (AW P) as ((A1 & A2 & A3 & A4 & A5) & A6); try contra_done;
         repeat split; try assumption; try lia);
    try (intros _; repeat split; try reflexivity; try lia; try (apply length_zero_iff_nil; lia));
    try (intros _; first [left; lia | right; lia]);
    try (intros P; rewrite P in *; cbn in *; discriminate);
    try (intros P; specialize (S2 P); destruct S2; [left; lia | right; lia]);
    try (intros P; try discriminate P; try (rewrite TC in P; discriminate P); lia).
Qed.

(* ---- reachability ------------------------------------------------------------------------ *)
Lemma run_app c s ls1 ls2 :
  run c s (ls1 ++ ls2) = match run c s ls1 with Some s' => run c s' ls2 | None => None end.
Proof.
  revert s; induction ls1 as [|l tl IH]; intros s; cbn; [reflexivity|].
  destruct (step c s l); [apply IH | reflexivity].
Qed.

Lemma run_invariant c (I : st -> Prop) :
  I (init c) -> (forall s l s', I s -> step c s l = Some s' -> I s') ->
  forall ls s, run c (init c) ls = Some s -> I s.
Proof.
  intros H0 Hs ls. induction ls as [|l ls IH] using rev_ind; intros s H.
  - cbn in H. injection H as <-. exact H0.
  - rewrite run_app in H. destruct (run c (init c) ls) as [s1|] eqn:E; [|discriminate].
    cbn in H. destruct (step c s1 l) eqn:E2; [|discriminate]. injection H as <-.
    eapply Hs; [apply IH; reflexivity | exact E2].
Qed.

(* ---- sequence numbers ---------------------------------------------------------------------- *)
Definition held (s : st) : list Z := targ s ++ infl s ++ send s ++ delivered s.

Record inv_seqs (s : st) : Prop := {
  is_nodup : NoDup (held s);
  is_range : forall x, In x (held s) <-> 0 <= x < seq s;
  is_count : count s = Z.of_nat (got s) + seq s;
  is_seq0 : 0 <= seq s }.

Lemma memz_In x l : memz x l = true <-> In x l.
Proof.
  induction l as [|y tl IH]; cbn; [split; [discriminate | tauto]|].
  rewrite orb_true_iff, IH, Z.eqb_eq. split; intros [H|H]; auto.
Qed.

Lemma remove1_perm x l : In x l -> Permutation l (x :: remove1 x l).
Proof.
  induction l as [|y tl IH]; cbn; [tauto|]. intros [->|H].
  - rewrite Z.eqb_refl. reflexivity.
  - destruct (x =? y) eqn:E; [apply Z.eqb_eq in E; subst; reflexivity|].
    rewrite (IH H) at 1. apply perm_swap.
Qed.

Lemma move_perm (A B C D : list Z) x : In x B ->
  Permutation (A ++ remove1 x B ++ C ++ x :: D) (A ++ B ++ C ++ D).
Proof.
  intros H. apply Permutation_app_head.
  transitivity (x :: (remove1 x B ++ C) ++ D).
  - rewrite app_assoc. apply Permutation_sym, Permutation_middle.
  - rewrite <- app_assoc. change (x :: remove1 x B ++ C ++ D) with ((x :: remove1 x B) ++ C ++ D).
    apply Permutation_app_tail, Permutation_sym, remove1_perm, H.
Qed.

Lemma inv_seqs_init c : inv_seqs (init c).
Proof. constructor; cbn; [constructor | intros x; split; [tauto | lia] | lia | lia]. Qed.

Lemma inv_seqs_perm s s' :
  Permutation (held s') (held s) -> seq s' = seq s -> count s' = count s -> got s' = got s ->
  inv_seqs s -> inv_seqs s'.
Proof.
  intros HP Hs Hc Hg [N R C S0]. constructor.
  - eapply Permutation_NoDup; [apply Permutation_sym; exact HP | exact N].
  - intros x. rewrite Hs, <- R. split; intros H; eapply Permutation_in; try exact H; [exact HP | apply Permutation_sym; exact HP].
  - rewrite Hc, Hg, Hs. exact C.
  - rewrite Hs. exact S0.
Qed.

Lemma inv_seqs_step c s l s' : inv_seqs s -> step c s l = Some s' -> inv_seqs s'.
Proof.
  intros I H. pose proof I as [N R C S0].
  destruct l; try (step_cases H; norm_guards;
    first [ apply (inv_seqs_perm _ _ (Permutation_refl _) eq_refl eq_refl eq_refl I)
          | constructor; unfold held in *; cbn [targ infl send delivered seq count got] in *;
            try assumption; lia ]; fail).
  - (* AssignSeq *) step_cases H. constructor; unfold held in *; cbn [targ infl send delivered seq count got app] in *.
    + constructor; [|exact N]. intros Hin. apply R in Hin. lia.
    + intros x. cbn [In]. rewrite R. lia.
    + lia.
    + lia.
  - (* TargeterOk *) step_cases H; norm_guards;
      match goal with M : memz _ _ = true |- _ => apply memz_In in M; rename M into HM end;
      (apply (inv_seqs_perm s); [| reflexivity | reflexivity | reflexivity | exact I]);
      unfold held; cbn [targ infl send delivered]; apply (move_perm [] (targ s) [] _ _ HM).
  - (* TargeterFail *) step_cases H; norm_guards;
      match goal with M : memz _ (targ _) = true |- _ => apply memz_In in M; rename M into HM end;
      (apply (inv_seqs_perm s); [| reflexivity | reflexivity | reflexivity | exact I]);
      unfold held; cbn [targ infl send delivered]; apply (move_perm [] (targ s) (infl s) _ _ HM).
  - (* Complete *) step_cases H; norm_guards;
      match goal with M : memz _ _ = true |- _ => apply memz_In in M; rename M into HM end;
      (apply (inv_seqs_perm s); [| reflexivity | reflexivity | reflexivity | exact I]);
      unfold held; cbn [targ infl send delivered]; apply (move_perm (targ s) (infl s) [] _ _ HM).
  - (* Consume *) step_cases H; norm_guards;
      match goal with M : memz _ _ = true |- _ => apply memz_In in M; rename M into HM end;
      (apply (inv_seqs_perm s); [| reflexivity | reflexivity | reflexivity | exact I]);
      unfold held; cbn [targ infl send delivered];
      pose proof (move_perm (targ s ++ infl s) (send s) [] (delivered s) _ HM) as P;
      cbn [app] in P; rewrite <- !app_assoc in P; exact P.
Qed.

(* ---- Stop ---------------------------------------------------------------------------------- *)
Definition inv_stop (s : st) : Prop := stop_true s = if stopped s then 1 else 0.

Lemma inv_stop_step c s l s' : inv_stop s -> step c s l = Some s' -> inv_stop s'.
Proof.
  unfold inv_stop. intros I H. step_cases H; norm_guards; cbn [stop_true stopped] in *;
    try assumption; try (rewrite I; destruct (stopped s); try discriminate; reflexivity);
    try (destruct b; cbn in *; subst; rewrite I; destruct (stopped s); cbn in *; try discriminate; try reflexivity; lia).
Qed.

(* ---- pacing, duration, time ------------------------------------------------------------------ *)
Fixpoint paces_ok (ps : list (Z * Z * Z * bool)) : Prop :=
  match ps with
  | [] => True
  | (e, h, w, st) :: r =>
      h = Z.of_nat (length r) /\
      (match r with (e', _, _, st') :: _ => e' <= e /\ st' = false | [] => 0 <= e end) /\
      paces_ok r
  end.

Fixpoint hist_ok (hs : list (Z * Z * Z * Z)) : Prop :=
  match hs with
  | [] => True
  | (e, h, w, t) :: r =>
      h = Z.of_nat (length r) /\ e + Z.max w 0 <= t /\
      (match r with (_, _, _, t') :: _ => t' <= e | [] => 0 <= e end) /\
      hist_ok r
  end.

Definition head_time (hs : list (Z * Z * Z * Z)) : Z :=
  match hs with (_, _, _, t) :: _ => t | [] => 0 end.

Record inv_pace (c : cfg) (s : st) : Prop := {
  ip_paces : paces_ok (paces s);
  ip_now : match paces s with (e, _, _, _) :: _ => e <= now s | [] => 0 <= now s end;
  ip_hist : hist_ok (hist s);
  ip_hist_now : head_time (hist s) <= now s;
  ip_count : count s = Z.of_nat (length (hist s));
  ip_deadline : Forall (fun p => let '(e, _, _, _) := p in ~ (0 < du c /\ du c < e)) (paces s);
  ip_pending_dl : match pending s with Some (e, _, _) => ~ (0 < du c /\ du c < e) | None => True end;
  ip_hist_dl : Forall (fun p => let '(e, _, _, _) := p in ~ (0 < du c /\ du c < e)) (hist s);
  ip_pc : match pc s with
          | LTop => pending s = None /\ length (paces s) = length (hist s) /\
                    match paces s with (_, _, _, st) :: _ => st = false | [] => True end
          | LPace e0 =>
              pending s = None /\ length (paces s) = length (hist s) /\
              match paces s with (e', _, _, st) :: _ => st = false /\ e' <= e0 | [] => 0 <= e0 end /\
              e0 <= now s /\ head_time (hist s) <= e0 /\ ~ (0 < du c /\ du c < e0)
          | LSleep u =>
              exists e w r, pending s = Some (e, count s, w) /\ e + Z.max w 0 <= u /\
                            paces s = (e, count s, w, false) :: r /\ length r = length (hist s) /\
                            head_time (hist s) <= e
          | LSel1 | LSel2 =>
              exists e w r, pending s = Some (e, count s, w) /\ e + Z.max w 0 <= now s /\
                            paces s = (e, count s, w, false) :: r /\ length r = length (hist s) /\
                            head_time (hist s) <= e
          | _ => True
          end }.

Lemma inv_pace_init c : inv_pace c (init c).
Proof. constructor; cbn; auto; try lia. Qed.

Ltac ip_simpl := cbn [pc now count paces pending hist length head_time] in *.

Lemma inv_pace_step c s l s' : inv_pace c s -> step c s l = Some s' -> inv_pace c s'.
Proof.
  intros [P N Hh Hn C D PD HD PC] H.
  destruct l eqn:EL;
  try (step_cases H; norm_guards; constructor; ip_simpl;
            repeat match goal with E : pc s = _ |- _ => try rewrite E in * end;
            try assumption; try lia; try exact I; fail);
  match goal with
       | E : l = CallPace |- _ =>
           step_cases H; norm_guards; try rewrite Heql in PC; destruct PC as (PN & PL & PS);
           constructor; ip_simpl; try assumption; try lia; try exact I;
           (split; [exact PN|]; split; [exact PL|]; split;
             [destruct (paces s) as [|[[[e0 h0] w0] st0] r0]; [lia | split; [exact PS | lia]]|];
            split; [lia|]; split; [lia|];
            unfold over_deadline in *; intros (A & B);
            match goal with Hb : (_ && _) = false |- _ =>
              apply andb_false_iff in Hb as [E1|E1]; [apply Z.ltb_ge in E1 | apply Z.ltb_ge in E1]; lia end)
       | E : l = Pace _ _ |- _ =>
           step_cases H; norm_guards; try rewrite Heql in PC; destruct PC as (PN & PL & PS & PE & PH & PDL);
           constructor; ip_simpl; try assumption; try lia; try exact I;
           try (destruct (paces s) as [|[[[e0 h0] w0] st0] r0]; cbn in *; intuition lia);
           try (cbn; split; [lia|]; split; [|exact P];
                destruct (paces s) as [|[[[e0 h0] w0] st0] r0]; [lia | destruct PS; split; [lia | assumption]]);
           try (constructor; [exact PDL | exact D]);
           try (eexists _, w, (paces s); repeat split; lia)
       | E : l = Advance _ |- _ =>
           step_cases H; norm_guards; constructor; ip_simpl; try assumption; try lia;
           try (destruct (paces s) as [|[[[e0 h0] w0] st0] r0]; lia);
           try (destruct (pc s); try exact PC;
                first [ destruct PC as (e & w & r & A1 & A2 & A3 & A4 & A5);
                        exists e, w, r; repeat split; try assumption; lia
                      | destruct PC as (PN & PL & PS & PE & PH & PDL); repeat split; try assumption; lia ])
       | E : l = Wake |- _ =>
           step_cases H; norm_guards; try rewrite Heql in PC; destruct PC as (e & w & r & A1 & A2 & A3 & A4 & A5);
           constructor; ip_simpl; try assumption;
           exists e, w, r; repeat split; try assumption; lia
       | E : l = Sel1Default |- _ =>
           step_cases H; norm_guards; try rewrite Heql in PC; constructor; ip_simpl; assumption
       | _ =>
           (* the two tick rendezvous *)
           step_cases H; norm_guards; try rewrite Heql in PC; destruct PC as (e & w & r & A1 & A2 & A3 & A4 & A5);
           try discriminate A1; injection A1 as -> -> ->;
           constructor; ip_simpl; try assumption; try lia;
           try (cbn; split; [lia|]; split; [lia|]; split; [|exact Hh];
                destruct (hist s) as [|[[[e1 h1] w1] t1] r1]; cbn in *; [|lia];
                rewrite A3 in P; cbn in P; destruct P as (_ & P2 & _); destruct r; [lia | cbn in A4; discriminate]);
           try (rewrite A3; cbn; split; [reflexivity|]; split; [lia | reflexivity]);
           try (constructor; [exact PD | exact HD])
       end.
Qed.

(* ============================== derived statements ============================== *)
Definition reachable (c : cfg) (s : st) : Prop := exists ls, run c (init c) ls = Some s.

Lemma reach_workers c s : wf_cfg c -> reachable c s -> inv_workers c s.
Proof.
  intros W (ls & H). eapply (run_invariant c (inv_workers c)); [apply inv_workers_init, W | | exact H].
  intros; eapply inv_workers_step; eassumption.
Qed.
Lemma reach_seqs c s : reachable c s -> inv_seqs s.
Proof.
  intros (ls & H). eapply (run_invariant c inv_seqs); [apply inv_seqs_init | | exact H].
  intros; eapply inv_seqs_step; eassumption.
Qed.
Lemma reach_stop c s : reachable c s -> inv_stop s.
Proof.
  intros (ls & H). eapply (run_invariant c inv_stop); [reflexivity | | exact H].
  intros; eapply inv_stop_step; eassumption.
Qed.
Lemma reach_pace c s : reachable c s -> inv_pace c s.
Proof.
  intros (ls & H). eapply (run_invariant c (inv_pace c)); [apply inv_pace_init | | exact H].
  intros; eapply inv_pace_step; eassumption.
Qed.

(* ---- C02 ------------------------------------------------------------------------------------ *)
Lemma seqs_exact_lemma c s : reachable c s ->
  NoDup (held s) /\ (forall x, In x (held s) <-> 0 <= x < seq s) /\
  (forall x, In x (delivered s) -> 0 <= x < seq s) /\ NoDup (delivered s).
Proof.
  intros R. destruct (reach_seqs c s R) as [N Rg C S0].
  split; [exact N|]. split; [exact Rg|]. split.
  - intros x Hx. apply Rg. unfold held. rewrite !in_app_iff. tauto.
  - unfold held in N. rewrite !app_assoc in N. revert N. generalize ((targ s ++ infl s) ++ send s).
    intros pre. induction pre as [|a pre IH]; cbn; intros N; [exact N|].
    inversion N; subst. apply IH. assumption.
Qed.

Lemma close_after_all_lemma c s : wf_cfg c -> reachable c s -> results_closed s = true ->
  all_done s /\ Z.of_nat (done s) = nworkers s /\
  NoDup (delivered s) /\ (forall x, In x (delivered s) <-> 0 <= x < seq s).
Proof.
  intros W R Hc. destruct (reach_workers c s W R) as [T L S1 TC RC AW S2 D0].
  rewrite RC in Hc. assert (after_wait (pc s) = true) as Ha by (destruct (pc s); cbn in *; congruence).
  destruct (AW Ha) as (AD & Dn). split; [exact AD|]. split; [exact Dn|].
  destruct AD as (_ & _ & A3 & A4 & A5).
  destruct (reach_seqs c s R) as [N Rg C S0]. unfold held in *. rewrite A3, A4, A5 in *. cbn in *.
  split; assumption.
Qed.

Definition pc_rank (p : lpc) : nat :=
  match p with
  | LTop | LPace _ | LSleep _ | LSel1 | LSel2 => 0
  | LCloseTicks => 1 | LWait => 2 | LCloseRes => 3 | LFinalStop => 4 | LExited => 5
  end.

Lemma pc_rank_mono c s l s' : step c s l = Some s' -> (pc_rank (pc s) <= pc_rank (pc s'))%nat.
Proof.
  intros H. step_cases H; cbn [pc]; repeat match goal with E : pc s = _ |- _ => rewrite E end;
    cbn; try lia; try (destruct (pc s); cbn; lia).
Qed.

Definition is_close_results (l : label) : bool := match l with CloseResults => true | _ => false end.
Definition is_close_ticks (l : label) : bool := match l with CloseTicks => true | _ => false end.

Lemma close_results_rank c s s' : step c s CloseResults = Some s' -> pc_rank (pc s) = 3%nat /\ pc_rank (pc s') = 4%nat.
Proof. intros H. step_cases H. try match goal with E : pc s = _ |- _ => rewrite E end. split; reflexivity. Qed.
Lemma close_ticks_rank c s s' : step c s CloseTicks = Some s' -> pc_rank (pc s) = 1%nat /\ pc_rank (pc s') = 2%nat.
Proof. intros H. step_cases H. try match goal with E : pc s = _ |- _ => rewrite E end. split; reflexivity. Qed.

Lemma close_once_lemma c ls : forall s s', run c s ls = Some s' ->
  (length (filter is_close_results ls) <= (if Nat.leb (pc_rank (pc s)) 3 then 1 else 0))%nat /\
  (length (filter is_close_ticks ls) <= (if Nat.leb (pc_rank (pc s)) 1 then 1 else 0))%nat.
Proof.
  induction ls as [|l tl IH]; intros s s' H; cbn in *.
  - split; destruct (Nat.leb _ _); lia.
  - destruct (step c s l) as [s1|] eqn:E; [|discriminate].
    destruct (IH s1 s' H) as (I1 & I2). pose proof (pc_rank_mono _ _ _ _ E) as M. split.
    + destruct l; cbn [is_close_results filter length]; try (destruct (Nat.leb_spec (pc_rank (pc s)) 3), (Nat.leb_spec (pc_rank (pc s1)) 3); lia).
      destruct (close_results_rank _ _ _ E) as (R1 & R2). rewrite R1. rewrite R2 in I1. cbn in *. lia.
    + destruct l; cbn [is_close_ticks filter length]; try (destruct (Nat.leb_spec (pc_rank (pc s)) 1), (Nat.leb_spec (pc_rank (pc s1)) 1); lia).
      destruct (close_ticks_rank _ _ _ E) as (R1 & R2). rewrite R1. rewrite R2 in I2. cbn in *. lia.
Qed.

(* progress in the epilogue: something other than the clock, the pacer or Stop callers can move *)
Definition internal_or_response (l : label) : bool :=
  match l with Advance _ | StopCall _ | Pace _ _ => false | _ => true end.

Lemma hd_mem (l : list Z) : l <> [] -> exists x, memz x l = true.
Proof. destruct l as [|x tl]; [congruence|]. intros _. exists x. cbn. now rewrite Z.eqb_refl. Qed.

Lemma epilogue_progress_lemma c s : wf_cfg c -> reachable c s -> epilogue (pc s) = true ->
  pc s = LExited \/ exists l s', internal_or_response l = true /\ step c s l = Some s'.
Proof.
  intros W R E. destruct (reach_workers c s W R) as [T L S1 TC RC AW S2 D0].
  destruct (pc s) eqn:P; try discriminate E; cbn in *.
  - right. exists CloseTicks. eexists. split; [reflexivity|]. unfold step. rewrite P. reflexivity.
  - (* LWait *) right.
    destruct (idle s) as [|i] eqn:Ei.
    + destruct (got s) as [|g] eqn:Eg.
      * destruct (targ s) as [|x tl] eqn:Et.
        -- destruct (infl s) as [|x tl] eqn:Ef.
           ++ destruct (send s) as [|x tl] eqn:Es.
              ** exists WgDone. eexists. split; [reflexivity|]. unfold step. rewrite P.
                 assert (Z.of_nat (done s) =? nworkers s = true) as ->; [|reflexivity].
                 apply Z.eqb_eq. unfold busy in T. rewrite Eg, Et, Ef, Es in T. cbn in T. lia.
              ** exists (Consume x). eexists. split; [reflexivity|]. unfold step. rewrite Es. cbn [memz].
                 rewrite Z.eqb_refl, RC. cbn. reflexivity.
           ++ exists (Complete x). eexists. split; [reflexivity|]. unfold step. rewrite Ef. cbn [memz].
              rewrite Z.eqb_refl. cbn. reflexivity.
        -- destruct (memz (tcalls s) (fails c)) eqn:Ff.
           ++ exists (TargeterFail x). eexists. split; [reflexivity|]. unfold step. rewrite Et. cbn [memz].
              rewrite Z.eqb_refl, Ff. cbn. reflexivity.
           ++ exists (TargeterOk x). eexists. split; [reflexivity|]. unfold step. rewrite Et. cbn [memz].
              rewrite Z.eqb_refl, Ff. cbn. reflexivity.
      * exists AssignSeq. eexists. split; [reflexivity|]. unfold step. rewrite Eg. reflexivity.
    + exists WorkerExit. eexists. split; [reflexivity|]. unfold step. rewrite Ei, TC. reflexivity.
  - right. exists CloseResults. eexists. split; [reflexivity|]. unfold step. rewrite P. reflexivity.
  - right. exists FinalStop. eexists. split; [reflexivity|]. unfold step. rewrite P. reflexivity.
  - left. reflexivity.
Qed.

(* termination measure of the epilogue *)
Definition mu (s : st) : nat :=
  6 * got s + 5 * length (targ s) + 4 * length (infl s) + 3 * length (send s) + 2 * idle s
  + (5 - pc_rank (pc s)).

Lemma epilogue_closed_lemma c s l s' : epilogue (pc s) = true -> step c s l = Some s' ->
  epilogue (pc s') = true /\ count s' = count s /\ hist s' = hist s.
Proof.
  intros E H. step_cases H; cbn [pc count hist epilogue]; try rewrite Heql in E; try discriminate E;
    try (split; [assumption | split; reflexivity]); try (split; [reflexivity | split; reflexivity]).
Qed.

Lemma epilogue_measure_lemma c s l s' : epilogue (pc s) = true -> internal_or_response l = true ->
  step c s l = Some s' -> (mu s' < mu s)%nat.
Proof.
  intros E I H. unfold mu.
  step_cases H; cbn [internal_or_response] in I; try discriminate I; norm_guards;
    repeat match goal with M : memz _ _ = true |- _ => apply length_remove1 in M end;
    cbn [pc got targ infl send idle length pc_rank] in *;
    try rewrite Heql in *; cbn [epilogue pc_rank] in *; try discriminate E; try lia.
Qed.

Lemma exited_final_lemma c s : wf_cfg c -> reachable c s -> pc s = LExited ->
  all_done s /\ Z.of_nat (done s) = nworkers s /\ results_closed s = true /\ ticks_closed s = true.
Proof.
  intros W R P. destruct (reach_workers c s W R) as [T L S1 TC RC AW S2 D0]. rewrite P in *. cbn in *.
  destruct (AW eq_refl) as (A & B). split; [exact A|]. split; [exact B|]. split; assumption.
Qed.

Lemma stop_exactly_one_lemma c s : reachable c s ->
  stop_true s <= 1 /\ (stopped s = true -> stop_true s = 1) /\ (stopped s = false -> stop_true s = 0).
Proof. intros R. pose proof (reach_stop c s R) as I. unfold inv_stop in I. destruct (stopped s); repeat split; intros; try lia; congruence. Qed.

Lemma exited_stopped c ls : forall s s', run c s ls = Some s' -> pc s' = LExited -> pc s <> LExited -> stopped s' = true.
Proof.
  induction ls as [|l tl IH]; intros s s' H P NP; cbn in H.
  - injection H as <-. congruence.
  - destruct (step c s l) as [s1|] eqn:E; [|discriminate].
    destruct (pc s1) eqn:P1; try (eapply IH; [exact H | exact P | congruence]).
    (* s1 is Exited: the step was FinalStop, or s already Exited *)
    clear IH. assert (stopped s1 = true) as S1.
    { step_cases E; cbn [pc stopped] in *; try congruence; try reflexivity. }
    clear E. revert s1 S1 P1 H. induction tl as [|l2 tl2 IH2]; intros s1 S1 P1 H; cbn in H.
    + injection H as <-. exact S1.
    + destruct (step c s1 l2) as [s2|] eqn:E2; [|discriminate].
      apply (IH2 s2); [| |exact H].
      * step_cases E2; cbn [pc stopped] in *; try congruence; try reflexivity.
      * pose proof (pc_rank_mono _ _ _ _ E2) as M. rewrite P1 in M. cbn in M. destruct (pc s2); cbn in M; try lia. reflexivity.
Qed.

(* ---- C03 ------------------------------------------------------------------------------------ *)
Lemma inflight_le_max_lemma c s : wf_cfg c -> reachable c s ->
  0 <= busy s /\ busy s <= nworkers s /\ nworkers s <= maxw c.
Proof.
  intros W R. destruct (reach_workers c s W R) as [T L S1 TC RC AW S2 D0]. unfold busy in *. lia.
Qed.

Lemma free_capacity_lemma c s : wf_cfg c -> reachable c s ->
  (pc s = LSel1 \/ pc s = LSel2) -> stopped s = false -> busy s < maxw c ->
  exists ls s', (length ls <= 2)%nat /\ Forall (fun l => l = Sel1Tick \/ l = Sel1Default \/ l = Sel2Tick) ls /\
                run c s ls = Some s' /\ count s' = count s + 1 /\ got s' = S (got s) /\ pc s' = LTop.
Proof.
  intros W R P St B. destruct (reach_workers c s W R) as [T L S1 TC RC AW S2 D0].
  destruct (idle s) as [|i] eqn:Ei.
  - destruct P as [P|P].
    + (* spawn one more worker, then hand it the tick *)
      exists [Sel1Default; Sel2Tick]. eexists. split; [cbn; lia|]. split; [repeat (apply Forall_cons; [tauto|]); apply Forall_nil|].
      cbn [run]. unfold step at 1. rewrite P, Ei, St. unfold step. cbn [pc idle]. split; [reflexivity|].
      unfold tick_taken. cbn. repeat split; lia.
    + exfalso. rewrite P in *. cbn in TC. specialize (D0 TC). destruct (S2 eq_refl) as [H|H]; [|lia].
      unfold busy in *. lia.
  - destruct P as [P|P].
    + exists [Sel1Tick]. eexists. split; [cbn; lia|]. split; [repeat (apply Forall_cons; [tauto|]); apply Forall_nil|].
      cbn [run]. unfold step. rewrite P, Ei. split; [reflexivity|]. unfold tick_taken. cbn. repeat split.
    + exists [Sel2Tick]. eexists. split; [cbn; lia|]. split; [repeat (apply Forall_cons; [tauto|]); apply Forall_nil|].
      cbn [run]. unfold step. rewrite P, Ei. split; [reflexivity|]. unfold tick_taken. cbn. repeat split.
Qed.

Lemma busy_then_consume_lemma c s x : pc s = LSel2 -> memz x (send s) = true -> results_closed s = false ->
  exists s1 s2, step c s (Consume x) = Some s1 /\ step c s1 Sel2Tick = Some s2 /\ count s2 = count s + 1.
Proof.
  intros P M Rc. unfold step at 1. rewrite M, Rc. cbn [andb negb]. eexists. eexists. split; [reflexivity|].
  unfold step. cbn [pc idle]. rewrite P. split; [reflexivity|]. reflexivity.
Qed.

(* ---- C04 ------------------------------------------------------------------------------------ *)
Lemma paces_ok_nth ps : paces_ok ps -> forall i e h w st,
  nth_error (rev ps) i = Some (e, h, w, st) -> h = Z.of_nat i.
Proof.
  induction ps as [|[[[e0 h0] w0] st0] r IH]; intros P i e h w st H; cbn in *.
  - destruct i; discriminate.
  - destruct P as (P1 & P2 & P3). destruct (lt_dec i (length r)) as [Hi|Hi].
    + rewrite nth_error_app1 in H by (rewrite rev_length; exact Hi). eapply IH; eassumption.
    + rewrite nth_error_app2 in H by (rewrite rev_length; lia). rewrite rev_length in H.
      destruct (i - length r)%nat as [|k] eqn:E; cbn in H; [|destruct k; cbn in *; discriminate].
      injection H as <- <- <- <-. rewrite P1. f_equal. lia.
Qed.

Lemma paces_ok_sorted ps : paces_ok ps -> forall i j e1 h1 w1 s1 e2 h2 w2 s2, (i <= j)%nat ->
  nth_error (rev ps) i = Some (e1, h1, w1, s1) -> nth_error (rev ps) j = Some (e2, h2, w2, s2) -> e1 <= e2.
Proof.
  induction ps as [|[[[e0 h0] w0] st0] r IH]; intros P i j e1 h1 w1 s1 e2 h2 w2 s2 Hij H1 H2; cbn in *.
  - destruct i; discriminate.
  - destruct P as (P1 & P2 & P3).
    destruct (lt_dec j (length r)) as [Hj|Hj].
    + rewrite nth_error_app1 in H1, H2 by (rewrite rev_length; lia). exact (IH P3 i j _ _ _ _ _ _ _ _ Hij H1 H2).
    + rewrite nth_error_app2 in H2 by (rewrite rev_length; lia). rewrite rev_length in H2.
      destruct (j - length r)%nat as [|k] eqn:E; cbn in H2; [|destruct k; cbn in *; discriminate].
      injection H2 as <- <- <- <-.
      destruct (lt_dec i (length r)) as [Hi|Hi].
      * rewrite nth_error_app1 in H1 by (rewrite rev_length; exact Hi).
        destruct r as [|[[[e' h'] w'] st'] r']; [cbn in Hi; lia|]. destruct P2 as (P2 & _).
        assert (e1 <= e') as K; [|lia].
        assert (nth_error (rev ((e', h', w', st') :: r')) (length r') = Some (e', h', w', st')) as Hl.
        { cbn. rewrite nth_error_app2 by (rewrite rev_length; lia). rewrite rev_length, Nat.sub_diag. reflexivity. }
        eapply (IH P3 i (length r')); [cbn in Hi; lia | exact H1 | exact Hl].
      * rewrite nth_error_app2 in H1 by (rewrite rev_length; lia). rewrite rev_length in H1.
        destruct (i - length r)%nat as [|k] eqn:E2; cbn in H1; [|destruct k; cbn in *; discriminate].
        injection H1 as <- <- <- <-. lia.
Qed.

Lemma hist_ok_forall hs : hist_ok hs -> Forall (fun p => let '(e, _, w, t) := p in e + Z.max w 0 <= t) hs.
Proof.
  induction hs as [|[[[e h] w] t] r IH]; intros H; [constructor|]. cbn in H. destruct H as (_ & H2 & _ & H4).
  constructor; [exact H2 | apply IH, H4].
Qed.

Lemma hist_late_at_most_one c hs :
  hist_ok hs -> Forall (fun p => let '(e, _, _, _) := p in ~ (0 < du c /\ du c < e)) hs -> 0 < du c ->
  match hs with [] => True | _ :: r => Forall (fun p => let '(_, _, _, t) := p in t <= du c) r end.
Proof.
  intros H D Hd. destruct hs as [|[[[e h] w] t] r]; [exact I|].
  cbn in H. destruct H as (_ & _ & H3 & H4). inversion D as [|? ? D1 D2]; subst. clear D.
  revert e D1 H3. induction r as [|[[[e' h'] w'] t'] r' IH]; intros e D1 H3; [constructor|].
  constructor; [lia|]. cbn in H4. destruct H4 as (_ & _ & H5 & H6). inversion D2 as [|? ? D3 D4]; subst.
  apply (IH H6 D4 e' D3 H5).
Qed.

Lemma pace_stop_lemma c s w s' : step c s (Pace w true) = Some s' -> pc s' = LCloseTicks /\ epilogue (pc s') = true.
Proof. intros H. step_cases H. cbn. split; reflexivity. Qed.

(* ---- Stop: the once-guarded flag gives exactly one initiator, the pinned shape does not ---- *)
From V Require Import Model.StopRace.

Lemma trues_set_nth_start i p l : nth_error l i = Some Start ->
  length (filter (fun p => match p with Ret true => true | _ => false end) (set_nth i p l)) =
  (length (filter (fun p => match p with Ret true => true | _ => false end) l) +
   match p with Ret true => 1 | _ => 0 end)%nat.
Proof.
  revert i; induction l as [|x tl IH]; intros [|i] H; cbn in *; try discriminate.
  - injection H as ->. destruct p as [| |[|]]; cbn; lia.
  - specialize (IH i H). destruct x as [| |[|]]; cbn [length] in *; lia.
Qed.

Definition fixed_inv (s : sst) : Prop := trues s = if closed s then 1%nat else 0%nat.
Definition some_started (s : sst) : Prop := closed s = false -> Forall (fun p => p = Start) (callers s).

Lemma fixed_step_inv s i s' : fixed_inv s -> fixed_step s i = Some s' -> fixed_inv s' /\ closed s' = true.
Proof.
  unfold fixed_inv, fixed_step, trues. intros I H.
  destruct (nth_error (callers s) i) as [[| |b]|] eqn:E; try discriminate. injection H as <-. cbn [closed callers].
  split; [|reflexivity]. rewrite (trues_set_nth_start _ _ _ E), I. destruct (closed s); cbn; lia.
Qed.

Lemma fixed_exactly_one_lemma n is s : sched fixed_step (start_state n) is = Some s ->
  (trues s <= 1)%nat /\ (is <> [] -> trues s = 1%nat).
Proof.
  assert (forall is s0 s, fixed_inv s0 -> sched fixed_step s0 is = Some s ->
            fixed_inv s /\ (is <> [] -> closed s = true)) as K.
  { induction is0 as [|i tl IH]; intros s0 s1 I H; cbn in H.
    - injection H as <-. split; [exact I | congruence].
    - destruct (fixed_step s0 i) as [s2|] eqn:E; [|discriminate].
      destruct (fixed_step_inv _ _ _ I E) as (I2 & C2).
      destruct (IH _ _ I2 H) as (I3 & C3). split; [exact I3|]. intros _.
      destruct tl as [|j tl2]; [cbn in H; injection H as <-; exact C2 | apply C3; discriminate]. }
  intros H. assert (fixed_inv (start_state n)) as I0.
  { unfold fixed_inv, trues, start_state. cbn [closed callers]. clear H. induction n as [|m IHm]; cbn; [reflexivity | exact IHm]. }
  destruct (K _ _ _ I0 H) as (I & C). unfold fixed_inv in I. split.
  - rewrite I. destruct (closed s); lia.
  - intros Hne. rewrite I, (C Hne). reflexivity.
Qed.

Lemma pinned_two_true_lemma :
  exists is s, sched pinned_step (start_state 2) is = Some s /\ all_returned s = true /\ trues s = 2%nat.
Proof. exists [0; 1; 0; 1]%nat. eexists. repeat split. Qed.

(* ---- C05 at the granularity of the LTS: the critical section of hit is one step ------------ *)
Fixpoint stamps_ok (l : list (Z * Z)) : Prop :=
  match l with
  | [] => True
  | (s1, t1) :: r =>
      0 <= t1 /\
      (match r with (s2, t2) :: _ => s1 = s2 + 1 /\ t2 <= t1 | [] => s1 = 0 end) /\
      stamps_ok r
  end.

Definition stamp_of (x : Z) (l : list (Z * Z)) : option Z :=
  match find (fun p => fst p =? x) l with Some (_, t) => Some t | None => None end.

Record inv_stamps (s : st) : Prop := {
  ist_ok : stamps_ok (stamps s);
  ist_head : match stamps s with (s1, t1) :: _ => s1 = seq s - 1 /\ t1 <= now s | [] => seq s = 0 end;
  ist_now : 0 <= now s;
  ist_entered : Forall (fun e => exists t, stamp_of (fst e) (stamps s) = Some t /\ t <= snd e /\ snd e <= now s) (entered s);
  ist_targ : Forall (fun x => exists t, stamp_of x (stamps s) = Some t) (targ s) }.

Lemma stamp_of_cons x y t l : stamp_of x ((y, t) :: l) = if y =? x then Some t else stamp_of x l.
Proof. unfold stamp_of. cbn. destruct (y =? x); reflexivity. Qed.

Lemma in_remove1 x y l : In x (remove1 y l) -> In x l.
Proof.
  induction l as [|z tl IH]; cbn; [tauto|]. destruct (y =? z); [intros H; right; exact H|].
  intros [->|H]; [left; reflexivity | right; apply IH, H].
Qed.

Lemma inv_stamps_step c s l s' : inv_stamps s -> step c s l = Some s' -> inv_stamps s'.
Proof.
  intros [O Hd N E T] H.
  destruct l eqn:EL;
  try (step_cases H; norm_guards; constructor; cbn [stamps seq now entered targ] in *; try assumption; try lia; fail).
  - (* Advance *) step_cases H; norm_guards; constructor; cbn [stamps seq now entered targ] in *; try assumption; try lia.
    + destruct (stamps s) as [|[s1 t1] r]; [exact Hd | lia].
    + eapply Forall_impl; [|exact E]. intros e (t & A & B & C). exists t. repeat split; try assumption; lia.
  - (* AssignSeq *) step_cases H; constructor; cbn [stamps seq now entered targ] in *; try assumption; try lia.
    + cbn. split; [lia|]. split; [|exact O]. destruct (stamps s) as [|[s1 t1] r]; [lia | lia].
    + eapply Forall_impl; [|exact E]. intros e (t & A & B & C). exists t. rewrite stamp_of_cons.
      destruct (seq s =? fst e) eqn:Q; [|repeat split; assumption].
      (* a transport entry for the sequence number being assigned cannot exist yet *)
      apply Z.eqb_eq in Q. exfalso.
      assert (forall l x t0, stamps_ok l -> stamp_of x l = Some t0 ->
                match l with (s1, _) :: _ => x <= s1 | [] => False end) as K.
      { induction l0 as [|[s1 t1] r IHr]; intros x t0 Ok F; [discriminate|].
        rewrite stamp_of_cons in F. destruct (s1 =? x) eqn:Q2; [apply Z.eqb_eq in Q2; lia|].
        cbn in Ok. destruct Ok as (_ & O2 & O3). specialize (IHr x t0 O3 F).
        destruct r as [|[s2 t2] r2]; [contradiction | lia]. }
      specialize (K (stamps s) (fst e) t O A). destruct (stamps s) as [|[s1 t1] r]; [contradiction | lia].
    + constructor.
      * exists (now s). rewrite stamp_of_cons, Z.eqb_refl. reflexivity.
      * eapply Forall_impl; [|exact T]. intros x (t & A). rewrite stamp_of_cons.
        destruct (seq s =? x); eauto.
  - (* TargeterOk *) step_cases H; norm_guards; constructor; cbn [stamps seq now entered targ] in *; try assumption.
    + constructor; [|exact E]. cbn [fst snd].
      match goal with M : memz _ (targ s) = true |- _ => apply memz_In in M; rename M into HM end.
      rewrite Forall_forall in T. destruct (T _ HM) as (t & A). exists t. split; [exact A|]. split; [|lia].
      (* the stamp is not later than now: all stamps are <= head <= now *)
      assert (forall l x t0, stamps_ok l -> stamp_of x l = Some t0 ->
                match l with (_, t1) :: _ => t0 <= t1 | [] => False end) as K.
      { induction l0 as [|[s1 t1] r IHr]; intros x t0 Ok F; [discriminate|].
        rewrite stamp_of_cons in F. destruct (s1 =? x); [injection F as <-; lia|].
        cbn in Ok. destruct Ok as (_ & O2 & O3). specialize (IHr x t0 O3 F).
        destruct r as [|[s2 t2] r2]; [contradiction | lia]. }
      specialize (K (stamps s) _ t O A). destruct (stamps s) as [|[s1 t1] r]; [contradiction | lia].
    + rewrite Forall_forall in *. intros x Hx. apply T. eapply in_remove1, Hx.
  - (* TargeterFail *) step_cases H; norm_guards; constructor; cbn [stamps seq now entered targ] in *; try assumption;
      rewrite Forall_forall in *; intros x Hx; apply T; eapply in_remove1, Hx.
Qed.

Lemma inv_stamps_init c : inv_stamps (init c).
Proof. constructor; cbn; auto; try lia. Qed.

Lemma reach_stamps c s : reachable c s -> inv_stamps s.
Proof.
  intros (ls & H). eapply (run_invariant c inv_stamps); [apply inv_stamps_init | | exact H].
  intros; eapply inv_stamps_step; eassumption.
Qed.

(* sequence order and timestamp order agree *)
Lemma stamps_ordered_lemma l : stamps_ok l -> forall s1 t1 s2 t2,
  In (s1, t1) l -> In (s2, t2) l -> s1 < s2 -> t1 <= t2.
Proof.
  induction l as [|[sa ta] r IH]; intros Ok s1 t1 s2 t2 I1 I2 Lt; [destruct I1|].
  cbn in Ok. destruct Ok as (O1 & O2 & O3).
  assert (forall x t, In (x, t) r -> x < sa /\ t <= ta) as Below.
  { clear -O2 O3. revert sa ta O2. induction r as [|[sb tb] r2 IHr]; intros sa ta O2 x t Hin; [destruct Hin|].
    destruct O2 as (-> & Le). cbn in O3. destruct O3 as (_ & O4 & O5).
    destruct Hin as [E|Hin]; [injection E as -> ->; lia|].
    destruct (IHr O5 sb tb O4 x t Hin). lia. }
  destruct I1 as [E1|I1], I2 as [E2|I2].
  - injection E1 as -> ->. injection E2 as -> ->. lia.
  - injection E1 as -> ->. destruct (Below _ _ I2). lia.
  - injection E2 as -> ->. destruct (Below _ _ I1). lia.
  - eapply IH; eassumption.
Qed.
