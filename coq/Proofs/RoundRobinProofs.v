From Coq Require Import List Arith Lia Permutation.
From V Require Import Model.RoundRobin.
Import ListNotations.

Section RRP.
Context {A : Type}.
Implicit Types ds : list (list A).

Lemma replace_nth_length i x ds : length (replace_nth i x ds) = length ds.
Proof. revert i; induction ds as [|d tl IH]; intros [|k]; cbn; auto. Qed.

Lemma nth_replace_same i x ds : i < length ds -> nth i (replace_nth i x ds) [] = x.
Proof. revert i; induction ds as [|d tl IH]; intros [|k] H; cbn in *; try lia; auto. apply IH. lia. Qed.

Lemma nth_replace_other i j x ds : i <> j -> nth j (replace_nth i x ds) [] = nth j ds [].
Proof.
  revert i j; induction ds as [|d tl IH]; intros [|i] [|j] H; cbn; try reflexivity; try lia.
  apply IH. lia.
Qed.

Lemma concat_replace_perm i x tl ds :
  nth_error ds i = Some (x :: tl) ->
  Permutation (concat ds) (x :: concat (replace_nth i tl ds)).
Proof.
  revert i; induction ds as [|d rest IH]; intros [|i] H; cbn in *; try discriminate.
  - injection H as ->. cbn. reflexivity.
  - specialize (IH i H). rewrite IH. apply Permutation_sym, Permutation_middle.
Qed.

(* consecutive call counters hit every index *)
Lemma covers_all_residues seq k i : i < k -> exists j, j < k /\ (seq + j) mod k = i.
Proof.
  intros Hi. assert (k <> 0) as Hk by lia.
  pose proof (Nat.div_mod seq k Hk) as E.
  pose proof (Nat.mod_upper_bound seq k Hk) as Hp.
  set (p := seq mod k) in *. set (q := seq / k) in *.
  destruct (le_lt_dec p i) as [Hle|Hlt].
  - exists (i - p). split; [lia|]. symmetry. apply (Nat.mod_unique _ _ q); [exact Hi|]. lia.
  - exists (k + i - p). split; [lia|]. symmetry. apply (Nat.mod_unique _ _ (S q)); [exact Hi|].
    rewrite Nat.mul_succ_r. lia.
Qed.

Lemma rr_try_none n : forall seq ds seq' ds',
  rr_try n seq ds = (None, seq', ds') ->
  ds' = ds /\ forall j, j < n -> nth ((seq + j) mod length ds) ds [] = [].
Proof.
  induction n as [|n IH]; intros seq ds seq' ds' H; cbn in H.
  - injection H as _ <-. split; [reflexivity | intros; lia].
  - destruct (nth_error ds (seq mod length ds)) as [[|x tl]|] eqn:E; try discriminate.
    + destruct (IH _ _ _ _ H) as (-> & K). split; [reflexivity|].
      intros [|j] Hj.
      * rewrite Nat.add_0_r. now apply nth_error_nth.
      * replace (seq + S j) with (S seq + j) by lia. apply K. lia.
    + destruct (IH _ _ _ _ H) as (-> & K). split; [reflexivity|].
      intros [|j] Hj.
      * rewrite Nat.add_0_r. apply nth_overflow. now apply nth_error_None.
      * replace (seq + S j) with (S seq + j) by lia. apply K. lia.
Qed.

Lemma rr_try_none_all_empty seq ds seq' ds' :
  ds <> [] -> rr_try (length ds) seq ds = (None, seq', ds') ->
  ds' = ds /\ forall i, nth i ds [] = [].
Proof.
  intros Hne H. destruct (rr_try_none _ _ _ _ _ H) as (-> & K). split; [reflexivity|].
  intros i. destruct (lt_dec i (length ds)) as [Hi|Hi].
  - destruct (covers_all_residues seq (length ds) i Hi) as (j & Hj & <-). apply K, Hj.
  - apply nth_overflow. lia.
Qed.

Lemma rr_try_some n : forall seq ds i x seq' ds',
  rr_try n seq ds = (Some (i, x), seq', ds') ->
  exists tl, nth_error ds i = Some (x :: tl) /\ ds' = replace_nth i tl ds.
Proof.
  induction n as [|n IH]; intros seq ds i x seq' ds' H; cbn in H; [discriminate|].
  destruct (nth_error ds (seq mod length ds)) as [[|y tl]|] eqn:E.
  - eapply IH; eassumption.
  - injection H as <- <- _ <-. exists tl. split; [exact E | reflexivity].
  - eapply IH; eassumption.
Qed.

Lemma rr_try_all_empty_none n : forall seq ds, (forall i, nth i ds [] = []) ->
  exists seq', rr_try n seq ds = (None, seq', ds).
Proof.
  induction n as [|n IH]; intros seq ds Hall; cbn; [eauto|].
  destruct (nth_error ds (seq mod length ds)) as [[|x tl]|] eqn:E; try (apply IH; assumption).
  apply (nth_error_nth _ _ []) in E. rewrite Hall in E. discriminate.
Qed.

(* ---- one call ------------------------------------------------------------------- *)

Lemma rr_call_rec seq ds i x seq' ds' :
  rr_call seq ds = (Rec i x, seq', ds') ->
  exists tl, nth_error ds i = Some (x :: tl) /\ ds' = replace_nth i tl ds.
Proof.
  unfold rr_call. destruct ds as [|d [|d2 rest]]; [discriminate | |].
  - destruct d as [|y tl]; [discriminate|]. intros H. injection H as <- <- _ <-.
    exists tl. split; reflexivity.
  - destruct (rr_try _ _ _) as [[[[j y]|] s] dd] eqn:E; intros H; [|discriminate].
    injection H as <- <- _ <-. eapply rr_try_some; eassumption.
Qed.

Lemma rr_call_eof seq ds seq' ds' :
  rr_call seq ds = (Eof, seq', ds') -> ds' = ds /\ forall i, nth i ds [] = [].
Proof.
  unfold rr_call. destruct ds as [|d [|d2 rest]]; [discriminate | |].
  - destruct d as [|y tl]; [|discriminate]. intros H. injection H as _ <-.
    split; [reflexivity|]. intros [|[|i]]; reflexivity.
  - destruct (rr_try _ _ _) as [[[[j y]|] s] dd] eqn:E; intros H; [discriminate|].
    injection H as _ <-. eapply rr_try_none_all_empty; [discriminate | eassumption].
Qed.

Lemma rr_call_all_empty seq ds : ds <> [] -> (forall i, nth i ds [] = []) ->
  exists seq', rr_call seq ds = (Eof, seq', ds).
Proof.
  intros Hne Hall. unfold rr_call. destruct ds as [|d [|d2 rest]]; [congruence | |].
  - specialize (Hall 0). cbn in Hall. subst d. eauto.
  - destruct (rr_try_all_empty_none (length (d :: d2 :: rest)) seq _ Hall) as (s & ->). eauto.
Qed.

Lemma rr_call_nonempty seq ds : ds <> [] -> fst (fst (rr_call seq ds)) <> NoDecoders.
Proof.
  intros Hne. unfold rr_call. destruct ds as [|d [|d2 rest]]; [congruence | |].
  - destruct d; cbn; discriminate.
  - destruct (rr_try _ _ _) as [[[[j y]|] s] dd]; cbn; discriminate.
Qed.

(* ---- drain ------------------------------------------------------------------------ *)

Lemma total_replace i x tl ds :
  nth_error ds i = Some (x :: tl) -> total ds = S (total (replace_nth i tl ds)).
Proof.
  intros H. unfold total. rewrite (Permutation_length (concat_replace_perm _ _ _ _ H)). reflexivity.
Qed.

Lemma replace_nonempty i tl ds : ds <> [] -> replace_nth i tl ds <> [].
Proof. destruct ds, i; cbn; congruence. Qed.

Lemma rr_run_spec fuel : forall seq ds, ds <> [] -> total ds < fuel ->
  exists out, rr_run fuel seq ds = Some out /\
    Permutation (map snd out) (concat ds) /\
    (forall i, from_origin i out = nth i ds []).
Proof.
  induction fuel as [|f IH]; intros seq ds Hne Hf; [lia|].
  cbn [rr_run]. destruct (rr_call seq ds) as [[[i x| |] seq'] ds'] eqn:E.
  - destruct (rr_call_rec _ _ _ _ _ _ E) as (tl & Hn & ->).
    pose proof (total_replace _ _ _ _ Hn) as Ht.
    destruct (IH seq' (replace_nth i tl ds)) as (out & -> & HP & HO);
      [apply replace_nonempty, Hne | lia |].
    exists ((i, x) :: out). split; [reflexivity|]. split.
    + cbn [map snd]. rewrite HP. apply Permutation_sym, concat_replace_perm, Hn.
    + intros j. unfold from_origin. cbn [filter fst]. destruct (Nat.eqb_spec i j) as [->|Hij].
      * cbn [map snd]. fold (from_origin j out). rewrite HO, nth_replace_same.
        -- symmetry. now apply nth_error_nth.
        -- apply nth_error_Some. congruence.
      * fold (from_origin j out). rewrite HO. apply nth_replace_other, Hij.
  - destruct (rr_call_eof _ _ _ _ E) as (_ & Hall). exists []. split; [reflexivity|]. split.
    + cbn. assert (concat ds = []) as ->; [|constructor].
      clear -Hall. induction ds as [|d tl IH]; [reflexivity|]. cbn.
      rewrite (Hall 0 : d = []). cbn. apply IH. intros i. apply (Hall (S i)).
    + intros i. cbn. symmetry. apply Hall.
  - exfalso. pose proof (rr_call_nonempty seq ds Hne) as K. rewrite E in K. cbn in K. congruence.
Qed.

Lemma rr_exactly_once_lemma ds : ds <> [] ->
  exists out, rr_all ds = Some out /\
    Permutation (map snd out) (concat ds) /\
    (forall i, from_origin i out = nth i ds []) /\
    length out = total ds.
Proof.
  intros Hne. destruct (rr_run_spec (S (total ds)) 0 ds Hne) as (out & H1 & H2 & H3); [lia|].
  exists out. repeat split; try assumption.
  unfold total. rewrite <- (Permutation_length H2). now rewrite map_length.
Qed.

(* the end is signalled only when all inputs are exhausted, and then for ever *)
Lemma rr_eof_iff seq ds : ds <> [] ->
  (fst (fst (rr_call seq ds)) = Eof <-> forall i, nth i ds [] = []).
Proof.
  intros Hne. split.
  - destruct (rr_call seq ds) as [[r s] d] eqn:E. cbn. intros ->.
    apply (rr_call_eof _ _ _ _ E).
  - intros Hall. destruct (rr_call_all_empty seq ds Hne Hall) as (s & ->). reflexivity.
Qed.

Lemma rr_zero_decoders seq : rr_call seq ([] : list (list A)) = (NoDecoders, seq, []).
Proof. reflexivity. Qed.

End RRP.
