From Coq Require Import ZArith List Bool Lia Permutation.
From V Require Import Base.Assoc Model.Prom.
Import ListNotations.
Open Scope Z_scope.

Definition pobs (bounds : list Z) (rs : list pres) : pstate := fold_left (observe_gen true bounds) rs pinit.

Lemma pobs_snoc bounds rs r : pobs bounds (rs ++ [r]) = observe_gen true bounds (pobs bounds rs) r.
Proof. unfold pobs. now rewrite fold_left_app. Qed.

Lemma psum_snoc f rs r : psum f (rs ++ [r]) = psum f rs + f r.
Proof. unfold psum. rewrite map_app. induction (map f rs); cbn in *; lia. Qed.

Lemma with_label_snoc k rs r :
  with_label k (rs ++ [r]) = with_label k rs ++ (if p_label r =? k then [r] else []).
Proof. unfold with_label. rewrite filter_app. cbn. destruct (p_label r =? k); reflexivity. Qed.

Lemma pcount_snoc f rs r : pcount f (rs ++ [r]) = pcount f rs + (if f r then 1 else 0).
Proof. unfold pcount. rewrite filter_app, app_length. cbn. destruct (f r); cbn; lia. Qed.

(* counters *)
Lemma prom_bin bounds rs k : alookup k (s_bin (pobs bounds rs)) = psum p_bin (with_label k rs).
Proof.
  induction rs as [|r rs IH] using rev_ind; [reflexivity|].
  rewrite pobs_snoc. cbn [observe_gen s_bin]. rewrite alookup_upd_add, IH, with_label_snoc.
  destruct (p_label r =? k); [rewrite psum_snoc | rewrite app_nil_r]; lia.
Qed.
Lemma prom_bout bounds rs k : alookup k (s_bout (pobs bounds rs)) = psum p_bout (with_label k rs).
Proof.
  induction rs as [|r rs IH] using rev_ind; [reflexivity|].
  rewrite pobs_snoc. cbn [observe_gen s_bout]. rewrite alookup_upd_add, IH, with_label_snoc.
  destruct (p_label r =? k); [rewrite psum_snoc | rewrite app_nil_r]; lia.
Qed.
Lemma prom_fail bounds rs f : f <> 0 ->
  alookup f (s_fail (pobs bounds rs)) = pcount (fun r => p_fail r =? f) rs.
Proof.
  intros Hf. induction rs as [|r rs IH] using rev_ind; [reflexivity|].
  rewrite pobs_snoc, pcount_snoc. cbn [observe_gen s_fail].
  destruct (p_fail r =? 0) eqn:E0.
  - apply Z.eqb_eq in E0. rewrite E0. destruct (0 =? f) eqn:E; [apply Z.eqb_eq in E; congruence|]. lia.
  - rewrite alookup_upd_add, IH. reflexivity.
Qed.
(* a failure child exists exactly for the (label, message) pairs that occurred *)
Lemma prom_fail_keys bounds rs f :
  In f (akeys (s_fail (pobs bounds rs))) <-> (f <> 0 /\ exists r, In r rs /\ p_fail r = f).
Proof.
  induction rs as [|r rs IH] using rev_ind.
  - cbn. split; [tauto | intros (_ & x & [] & _)].
  - rewrite pobs_snoc. cbn [observe_gen s_fail].
    destruct (p_fail r =? 0) eqn:E0.
    + apply Z.eqb_eq in E0. rewrite IH. split; intros (Hf & x & Hin & Hx); (split; [exact Hf|]).
      * exists x. split; [apply in_app_iff; left; exact Hin | exact Hx].
      * apply in_app_iff in Hin as [Hin|[<-|[]]]; [exists x; split; assumption | congruence].
    + apply Z.eqb_neq in E0. rewrite In_akeys_upd_add, IH. split.
      * intros [->|(Hf & x & Hin & Hx)].
        -- split; [exact E0|]. exists r. split; [apply in_app_iff; right; left; reflexivity | reflexivity].
        -- split; [exact Hf|]. exists x. split; [apply in_app_iff; left; exact Hin | exact Hx].
      * intros (Hf & x & Hin & Hx). apply in_app_iff in Hin as [Hin|[<-|[]]].
        -- right. split; [exact Hf|]. exists x. split; assumption.
        -- left. symmetry. exact Hx.
Qed.

(* histogram *)
Definition hist_row_spec (bounds : list Z) (k : Z) (rs : list pres) (o : option hrow) : Prop :=
  match with_label k rs with
  | [] => o = None
  | l => exists row, o = Some row /\ h_label row = k /\
         h_count row = Z.of_nat (length l) /\ h_sum row = psum p_lat l /\
         h_cum row = map (fun b => pcount (fun r => p_lat r <=? b) l) bounds
  end.

Lemma hist_find_observe_other bounds k k' lat l : k' <> k ->
  hist_find k (hist_observe bounds k' lat l) = hist_find k l.
Proof.
  intros Hne. induction l as [|r tl IH]; cbn.
  - destruct (k' =? k) eqn:E; [apply Z.eqb_eq in E; congruence | reflexivity].
  - destruct (h_label r =? k') eqn:E1; cbn.
    + apply Z.eqb_eq in E1. destruct (k' =? k) eqn:E; [apply Z.eqb_eq in E; congruence|].
      rewrite E1, E. reflexivity.
    + destruct (h_label r =? k); [reflexivity | exact IH].
Qed.

Lemma hist_find_observe_same bounds k lat l :
  hist_find k (hist_observe bounds k lat l) =
  Some match hist_find k l with
       | None => {| h_label := k; h_count := 1; h_sum := lat;
                    h_cum := map (fun b => if lat <=? b then 1 else 0) bounds |}
       | Some r => {| h_label := k; h_count := h_count r + 1; h_sum := h_sum r + lat;
                      h_cum := map (fun '(b, c) => if lat <=? b then c + 1 else c) (combine bounds (h_cum r)) |}
       end.
Proof.
  induction l as [|r tl IH]; cbn.
  - now rewrite Z.eqb_refl.
  - destruct (h_label r =? k) eqn:E; cbn.
    + now rewrite Z.eqb_refl.
    + rewrite E. exact IH.
Qed.

Lemma cum_step lat bounds (f : Z -> Z) :
  map (fun '(b, c) => if lat <=? b then c + 1 else c) (combine bounds (map f bounds)) =
  map (fun b => f b + (if lat <=? b then 1 else 0)) bounds.
Proof.
  induction bounds as [|b tl IH]; cbn; [reflexivity|]. rewrite IH.
  destruct (lat <=? b); f_equal; lia.
Qed.

Lemma prom_hist bounds rs k : hist_row_spec bounds k rs (hist_find k (s_hist (pobs bounds rs))).
Proof.
  induction rs as [|r rs IH] using rev_ind; [reflexivity|].
  rewrite pobs_snoc. cbn [observe_gen s_hist]. unfold hist_row_spec in *.
  rewrite with_label_snoc. destruct (p_label r =? k) eqn:E.
  - apply Z.eqb_eq in E. subst k. rewrite hist_find_observe_same.
    destruct (with_label (p_label r) rs) as [|x l] eqn:EL.
    + rewrite IH. cbn [app]. eexists; split; [reflexivity|]. cbn.
      repeat split; try reflexivity.
      * unfold psum. cbn. lia.
      * apply map_ext. intros b. unfold pcount. cbn. destruct (p_lat r <=? b); reflexivity.
    + destruct IH as (row & -> & H1 & H2 & H3 & H4).
      assert ((x :: l) ++ [r] <> []) as Hne by (destruct l; discriminate).
      destruct ((x :: l) ++ [r]) as [|y l'] eqn:EA; [congruence|]. rewrite <- EA.
      eexists; split; [reflexivity|]. cbn [h_label h_count h_sum h_cum].
      repeat split.
      * rewrite H2, app_length. cbn [length]. lia.
      * rewrite H3, psum_snoc. reflexivity.
      * rewrite H4, cum_step. apply map_ext. intros b. rewrite pcount_snoc. reflexivity.
  - apply Z.eqb_neq in E. rewrite hist_find_observe_other by exact E. rewrite app_nil_r. exact IH.
Qed.

(* permutation invariance of the reference sums *)
Lemma with_label_perm k rs rs' : Permutation rs rs' -> Permutation (with_label k rs) (with_label k rs').
Proof.
  unfold with_label. induction 1; cbn.
  - constructor.
  - destruct (p_label x =? k); [constructor|]; assumption.
  - destruct (p_label x =? k), (p_label y =? k); try apply perm_swap; apply Permutation_refl.
  - etransitivity; eassumption.
Qed.
Lemma psum_perm f l l' : Permutation l l' -> psum f l = psum f l'.
Proof. unfold psum. induction 1; cbn in *; lia. Qed.
Lemma pcount_perm f l l' : Permutation l l' -> pcount f l = pcount f l'.
Proof.
  unfold pcount. intros H. f_equal. induction H; cbn; try lia.
  - destruct (f x); cbn; lia.
  - destruct (f x), (f y); cbn; lia.
Qed.

(* the pinned Observe never incremented the failure counter *)
Lemma fail_counter_refuted_lemma :
  exists rs f, f <> 0 /\ alookup f (s_fail (fold_left (observe_gen false def_bounds) rs pinit))
                       <> pcount (fun r => p_fail r =? f) rs.
Proof.
  exists [ {| p_label := 1; p_bin := 0; p_bout := 0; p_lat := 5; p_fail := 7 |} ], 7.
  split; [lia | cbn; discriminate].
Qed.
