(* -max-body in the documented notations and -dns-ttl, for all values. *)
From Coq Require Import ZArith List Bool Lia.
From V Require Import Base.Duration Base.Str Base.DurString Model.Flags Proofs.DecimalProofs Proofs.DurStringProofs.
Import ListNotations.
Open Scope Z_scope.

Lemma ds_digits_all ds : forall rest val i, alldig ds -> 0 <= val -> dacc ds val <= max_u64 -> nodig_head rest ->
  ds_digits (ds ++ rest) val i = Some (dacc ds val, rest, (i + length ds)%nat).
Proof.
  induction ds as [|c tl IH]; intros rest val i Hd Hv Hb Hr.
  - cbn [app length dacc fold_left]. rewrite Nat.add_0_r. destruct rest as [|c r]; [reflexivity|]. cbn in Hr. cbn. rewrite Hr. reflexivity.
  - inversion Hd as [|? ? Hc Ht]; subst. pose proof (is_digit_range c Hc) as Rc.
    cbn [app ds_digits]. rewrite Hc.
    change (dacc (c :: tl) val) with (dacc tl (val * 10 + (c - 48))) in *.
    pose proof (dacc_mono tl (val * 10 + (c - 48)) ltac:(lia) Ht) as M.
    assert (max_u64 / 10 <? val = false) as ->.
    { apply Z.ltb_ge. apply Z.div_le_lower_bound; lia. }
    assert (max_u64 <? val * 10 + (c - 48) = false) as -> by (apply Z.ltb_ge; lia).
    rewrite (IH rest (val * 10 + (c - 48)) (S i) Ht ltac:(lia) Hb Hr).
    cbn [length]. f_equal. f_equal. lia.
Qed.

(* "<n><blanks><unit>": n of the unit, for every n and every documented unit spelling (any case) *)
Theorem maxbody_notation_lemma n pad u sh :
  0 <= n -> unit_shift (map to_lower u) = Some sh -> bits_unit u = false ->
  nodig_head (pad ++ u) -> trim_space (pad ++ u) = u -> 0 <= sh -> n * 2 ^ sh < two63 ->
  maxbody_set (udec n ++ pad ++ u) = Some (n * 2 ^ sh).
Proof.
  intros Hn Hu Hb Hh Ht Hsh Hlt.
  assert (two63 = 9223372036854775808) as T by reflexivity.
  assert (1 <= 2 ^ sh) as P1 by (pose proof (Z.pow_pos_nonneg 2 sh ltac:(lia) Hsh); lia).
  assert (n < 18446744073709551616) as Hn64 by (rewrite T in Hlt; nia).
  destruct (udec_spec n ltac:(lia)) as (A & Ne & V).
  destruct (udec_head n ltac:(lia)) as (c & t & Ec & Hc).
  unfold maxbody_set.
  assert (str_eqb (udec n ++ pad ++ u) s_minus1 = false) as ->.
  { rewrite Ec. cbn [app]. unfold str_eqb, s_minus1. cbn [zlist_eqb].
    apply is_digit_range in Hc. assert (c =? 45 = false) as -> by (apply Z.eqb_neq; lia). reflexivity. }
  unfold datasize_parse.
  rewrite (ds_digits_all (udec n) (pad ++ u) 0 0 A ltac:(lia) ltac:(rewrite V; unfold max_u64; lia) Hh).
  rewrite V. cbn [Nat.add]. rewrite Ht, Hb, Hu.
  assert (max_u64 / 2 ^ sh <? n = false) as ->.
  { apply Z.ltb_ge. apply Z.div_le_lower_bound; [lia|]. unfold max_u64. rewrite T in Hlt. lia. }
  assert (length (udec n) = S (length t)) as -> by (rewrite Ec; reflexivity).
  assert (two63 - 1 <? n * 2 ^ sh = false) as L by (apply Z.ltb_ge; lia).
  destruct (pad ++ u); rewrite L; reflexivity.
Qed.

Lemma maxbody_minus1 : maxbody_set s_minus1 = Some (-1).
Proof. reflexivity. Qed.

(* -dns-ttl: -1, 0 and every printed duration *)
Theorem dnsttl_meaning_lemma :
  dnsttl_set s_minus1 = Some (-1) /\ dnsttl_set [48] = Some 0 /\
  forall d, 0 < d < two63 -> dnsttl_set (dur_string d) = Some d.
Proof.
  split; [reflexivity|]. split; [reflexivity|]. intros d Hd.
  destruct (dur_string_parses_lemma d Hd) as (P & _). unfold dnsttl_set. rewrite P.
  assert (str_eqb (dur_string d) s_minus1 = false) as ->; [|reflexivity].
  assert (two63 = 9223372036854775808) as T by reflexivity.
  unfold dur_string. assert (d <? 0 = false) as -> by (apply Z.ltb_ge; lia).
  (* the text of a positive duration starts with a digit *)
  assert (forall n t, 0 <= n < 18446744073709551616 -> str_eqb (udec n ++ t) s_minus1 = false) as K.
  { intros n t Hn. destruct (udec_head n Hn) as (c & t' & -> & Hc). cbn [app]. unfold str_eqb, s_minus1. cbn [zlist_eqb].
    apply is_digit_range in Hc. assert (c =? 45 = false) as -> by (apply Z.eqb_neq; lia). reflexivity. }
  unfold dur_string_abs. destruct (d <? 1000000000) eqn:E1.
  - assert (d =? 0 = false) as -> by (apply Z.eqb_neq; lia). apply Z.ltb_lt in E1.
    destruct (d <? 1000); [apply K; lia|].
    destruct (d <? 1000000).
    + destruct (fmt_frac 3 d false [194; 181; 115]) as [s v] eqn:E.
      pose proof (fmt_frac_spec 3 d false [] [194; 181; 115] ltac:(lia) ltac:(constructor) ltac:(split; [discriminate | congruence])) as (ds' & E' & _).
      cbn [app] in E'. rewrite E in E'. injection E' as _ ->. apply K. change (Z.pow_pos 10 3) with 1000.
      pose proof (Z.div_pos d 1000 ltac:(lia) ltac:(lia)). pose proof (Z.div_le_upper_bound d 1000 d ltac:(lia) ltac:(lia)). lia.
    + destruct (fmt_frac 6 d false [109; 115]) as [s v] eqn:E.
      pose proof (fmt_frac_spec 6 d false [] [109; 115] ltac:(lia) ltac:(constructor) ltac:(split; [discriminate | congruence])) as (ds' & E' & _).
      cbn [app] in E'. rewrite E in E'. injection E' as _ ->. apply K. change (Z.pow_pos 10 6) with 1000000.
      pose proof (Z.div_pos d 1000000 ltac:(lia) ltac:(lia)). pose proof (Z.div_le_upper_bound d 1000000 d ltac:(lia) ltac:(lia)). lia.
  - apply Z.ltb_ge in E1.
    destruct (fmt_frac 9 d false [115]) as [s v] eqn:E.
    pose proof (fmt_frac_spec 9 d false [] [115] ltac:(lia) ltac:(constructor) ltac:(split; [discriminate | congruence])) as (ds' & E' & _).
    cbn [app] in E'. rewrite E in E'. injection E' as _ ->. change (Z.pow_pos 10 9) with 1000000000.
    set (v := d / 1000000000).
    assert (0 <= v <= 9223372036) as Hv.
    { pose proof (Z.div_mod d 1000000000 ltac:(lia)) as DM. pose proof (Z.mod_pos_bound d 1000000000 ltac:(lia)) as MB.
      fold v in DM. rewrite T in Hd. lia. }
    pose proof (Z.mod_pos_bound v 60 ltac:(lia)). pose proof (Z.div_pos v 60 ltac:(lia) ltac:(lia)).
    pose proof (Z.div_le_upper_bound v 60 v ltac:(lia) ltac:(lia)).
    pose proof (Z.mod_pos_bound (v / 60) 60 ltac:(lia)). pose proof (Z.div_pos (v / 60) 60 ltac:(lia) ltac:(lia)).
    pose proof (Z.div_le_upper_bound (v / 60) 60 (v / 60) ltac:(lia) ltac:(lia)).
    destruct (0 <? v / 60); [|apply K; lia].
    destruct (0 <? v / 60 / 60); apply K; lia.
Qed.
