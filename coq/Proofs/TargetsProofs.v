(* C14: the HTTP target format decodes to exactly the described targets, for every layout of
   comments, blank lines, indentation and header spelling - stated over lines classified by what
   strings.TrimSpace leaves of them. *)
From Coq Require Import ZArith List Bool Lia Arith.
From V Require Import Base.Duration Base.Str Model.Flags Model.Targets.
Import ListNotations.
Open Scope Z_scope.

(* ---- the Z-literal matches of the model, as tests ---- *)
Lemma first_byte_case {A} (l : list Z) (x y z : A) (f : list Z -> A) :
  match l with [] => x | 35 :: _ => y | 64 :: p => f p | _ :: _ => z end =
  match l with [] => x | c :: tl => if c =? 35 then y else if c =? 64 then f tl else z end.
Proof.
  destruct l as [|c tl]; [reflexivity|]. destruct c as [|p|p]; try reflexivity.
  do 7 (try (destruct p as [p|p|]; try reflexivity)).
Qed.

Lemma hash_case {A} (l : list Z) (x y z : A) :
  match l with [] => x | 35 :: _ => y | _ :: _ => z end =
  match l with [] => x | c :: tl => if c =? 35 then y else z end.
Proof.
  destruct l as [|c tl]; [reflexivity|]. destruct c as [|p|p]; try reflexivity.
  do 6 (try (destruct p as [p|p|]; try reflexivity)).
Qed.

(* ---- the scanner, seen as the list of lines still to come ---- *)
Definition lines_of (s : psc) : list (list Z) := match peeked s with [] => rest s | p => p :: rest s end.
Definition inv (s : psc) : Prop := peeked s <> [] -> cur s = peeked s.

Lemma scan_text_cons s l L : inv s -> lines_of s = l :: L ->
  exists s1 s2, sc_scan s = (true, s1) /\ sc_text s1 = (l, s2) /\ lines_of s2 = L /\ peeked s2 = [].
Proof.
  intros I H. unfold lines_of in H. unfold sc_scan, sc_text. destruct (peeked s) as [|c p] eqn:P.
  - rewrite H. eexists. eexists. split; [reflexivity|]. cbn. split; [reflexivity|]. unfold lines_of; cbn. split; reflexivity.
  - injection H as <- <-. exists s. eexists. split; [reflexivity|]. rewrite P. split; [reflexivity|].
    unfold lines_of; cbn. split; reflexivity.
Qed.

Lemma scan_nil s : lines_of s = [] -> sc_scan s = (false, s).
Proof.
  unfold lines_of, sc_scan. destruct (peeked s); [|discriminate]. intros ->. reflexivity.
Qed.

(* ---- line classes (by what TrimSpace leaves) ---- *)
Definition blank (l : list Z) : Prop := trim_space l = [].
Definition comment (l : list Z) : Prop := exists r, trim_space l = 35 :: r.
Definition skippable (l : list Z) : Prop := blank l \/ comment l.

Lemma skip_pre pre : forall s fuel l L, inv s -> lines_of s = pre ++ l :: L -> Forall skippable pre ->
  (exists c tl, trim_space l = c :: tl /\ c <> 35) -> (length pre < fuel)%nat ->
  exists s', skip_to_request fuel s = (Some (trim_space l), s') /\ lines_of s' = L /\ peeked s' = [].
Proof.
  induction pre as [|x pre IH]; intros s fuel l L I H Hs (c & tl & Hl & Hc) Hf.
  - destruct fuel as [|f]; [cbn in Hf; lia|]. cbn [app] in H.
    destruct (scan_text_cons s l L I H) as (s1 & s2 & E1 & E2 & E3 & E4).
    cbn [skip_to_request]. rewrite E1. cbn [negb]. rewrite E2. rewrite hash_case, Hl.
    assert (c =? 35 = false) as -> by (apply Z.eqb_neq; exact Hc). exists s2. repeat split; assumption.
  - destruct fuel as [|f]; [cbn in Hf; lia|]. cbn [app] in H. inversion Hs as [|? ? Hx Hs']; subst.
    destruct (scan_text_cons s x (pre ++ l :: L) I H) as (s1 & s2 & E1 & E2 & E3 & E4).
    cbn [skip_to_request]. rewrite E1. cbn [negb]. rewrite E2. rewrite hash_case.
    assert (inv s2) as I2 by (intros X; congruence).
    destruct (IH s2 f l L I2 E3 Hs' (ex_intro _ c (ex_intro _ tl (conj Hl Hc))) ltac:(cbn in Hf; lia)) as (s' & K1 & K2 & K3).
    destruct Hx as [Hb|[r Hr]].
    + unfold blank in Hb. rewrite Hb. exists s'. repeat split; assumption.
    + rewrite Hr. rewrite Z.eqb_refl. exists s'. repeat split; assumption.
Qed.

Lemma skip_all pre : forall s fuel, inv s -> lines_of s = pre -> Forall skippable pre -> (length pre < fuel)%nat ->
  exists s', skip_to_request fuel s = (None, s').
Proof.
  induction pre as [|x pre IH]; intros s fuel I H Hs Hf.
  - destruct fuel as [|f]; [cbn in Hf; lia|]. cbn [skip_to_request]. rewrite (scan_nil s H). cbn. eexists; reflexivity.
  - destruct fuel as [|f]; [cbn in Hf; lia|]. inversion Hs as [|? ? Hx Hs']; subst.
    destruct (scan_text_cons s x pre I H) as (s1 & s2 & E1 & E2 & E3 & E4).
    cbn [skip_to_request]. rewrite E1. cbn [negb]. rewrite E2. rewrite hash_case.
    assert (inv s2) as I2 by (intros X; congruence).
    destruct (IH s2 f I2 E3 Hs' ltac:(cbn in Hf; lia)) as (s' & K).
    destruct Hx as [Hb|[r Hr]].
    + unfold blank in Hb. rewrite Hb. exists s'. exact K.
    + rewrite Hr, Z.eqb_refl. exists s'. exact K.
Qed.

Lemma is_comment_eqb l : is_comment l = match l with [] => false | c :: _ => c =? 35 end.
Proof. unfold is_comment. rewrite (hash_case l false true false). destruct l as [|c tl]; [reflexivity|]. destruct (c =? 35); reflexivity. Qed.

Lemma comment_is l : comment l -> is_comment (trim_space l) = true /\ l <> [].
Proof.
  intros [r H]. rewrite is_comment_eqb, H. split; [reflexivity|]. intros ->. cbn in H. discriminate.
Qed.

Definition not_comment (l : list Z) : Prop := is_comment (trim_space l) = false.

(* after the request line: comments are skipped, the next line is looked at but not consumed *)
Lemma peek_mid mid : forall s fuel X, peeked s = [] -> rest s = mid ++ X -> Forall comment mid -> (length mid < fuel)%nat ->
  match X with [] => True | x :: _ => not_comment x end ->
  exists s', peek_past_comments true fuel s = (match X with [] => [] | x :: _ => trim_space x end, s') /\ inv s' /\
             (lines_of s' = X \/ exists X', X = [] :: X' /\ lines_of s' = X').
Proof.
  induction mid as [|m mid IH]; intros s fuel X P R Hc Hf HX.
  - cbn [app] in R. destruct fuel as [|f]; [cbn in Hf; lia|]. cbn [peek_past_comments]. unfold sc_peek. rewrite R.
    destruct X as [|x X'].
    + change (trim_space []) with (@nil Z). cbn. exists s. split; [reflexivity|]. split; [intros Q; congruence|].
      left. unfold lines_of. rewrite P, R. reflexivity.
    + unfold not_comment in HX. rewrite HX. cbn [andb]. eexists. split; [reflexivity|]. split; [intros _; reflexivity|].
      unfold lines_of; cbn [peeked rest]. destruct x as [|c x']; [right; exists X'; split; reflexivity | left; reflexivity].
  - destruct fuel as [|f]; [cbn in Hf; lia|]. cbn [app] in R. inversion Hc as [|? ? Hm Hc']; subst.
    destruct (comment_is m Hm) as [Cm Nm].
    cbn [peek_past_comments]. unfold sc_peek at 1. rewrite R. rewrite Cm. cbn [andb].
    unfold sc_text. cbn [peeked rest cur]. destruct m as [|c m']; [congruence|].
    apply IH; try assumption; [reflexivity | reflexivity | cbn in Hf; lia].
Qed.

(* ---- header block ---- *)
Section Files.
Variable fs : files.

Definition hdr (l k v : list Z) : Prop :=
  exists c tl k0 v0, trim_space l = c :: tl /\ c <> 35 /\ c <> 64 /\ splitn2 58 (c :: tl) [] = (k0, Some v0) /\
                     trim_space k0 = k /\ trim_space v0 = v /\ k <> [] /\ v <> [].
Definition body_line (l content : list Z) : Prop := exists path, trim_space l = 64 :: path /\ read_file fs path = Some content.

Inductive hdr_block : list (list Z) -> hmap -> hmap -> Prop :=
| hb_nil h : hdr_block [] h h
| hb_comment l ls h h' : comment l -> hdr_block ls h h' -> hdr_block (l :: ls) h h'
| hb_hdr l k v ls h h' : hdr l k v -> hdr_block ls (happend k v h) h' -> hdr_block (l :: ls) h h'.

(* how a header block ends: end of input, a blank line, or the body line *)
Inductive block_end : list (list Z) -> list Z -> list Z -> list (list Z) -> Prop :=
| be_eof b : block_end [] b b []
| be_blank l E b : blank l -> block_end (l :: E) b b E
| be_body l E b content : body_line l content -> block_end (l :: E) b content E.

Lemma header_loop_eq fuel s body h :
  header_loop (S fuel) fs s body h =
  let '(ok, s1) := sc_scan s in
  if negb ok then (Some (body, h), 0, s1) else
  let '(t, s2) := sc_text s1 in
  let line := trim_space t in
  match line with
  | [] => (Some (body, h), 0, s2)
  | c :: tl =>
      if c =? 35 then header_loop fuel fs s2 body h
      else if c =? 64 then match read_file fs tl with Some b => (Some (b, h), 0, s2) | None => (None, 4, s2) end
      else match splitn2 58 line [] with
           | (_, None) => (None, 5, s2)
           | (k, Some v) =>
               match trim_space k, trim_space v with
               | [], _ => (None, 5, s2)
               | _, [] => (None, 5, s2)
               | _, _ => header_loop fuel fs s2 body (happend (trim_space k) (trim_space v) h)
               end
           end
  end.
Proof.
  cbn [header_loop]. destruct (sc_scan s) as [ok s1]. destruct (negb ok); [reflexivity|].
  destruct (sc_text s1) as [t s2]. cbv zeta.
  destruct (trim_space t) as [|c tl]; [reflexivity|].
  destruct c as [|p|p]; try reflexivity. do 7 (try (destruct p as [p|p|]; try reflexivity)).
Qed.

Lemma header_block_ok ls h h' : hdr_block ls h h' -> forall s fuel E body bfin Erest,
  inv s -> lines_of s = ls ++ E -> (length ls < fuel)%nat -> block_end E body bfin Erest ->
  exists s', header_loop fuel fs s body h = (Some (bfin, h'), 0, s') /\ lines_of s' = Erest /\ peeked s' = [].
Proof.
  induction 1 as [h|l ls h h' Hc Hb IH|l k v ls h h' Hh Hb IH]; intros s fuel E body bfin Erest Iv L Hf HE.
  - cbn [app] in L. destruct fuel as [|f]; [cbn in Hf; lia|]. rewrite header_loop_eq.
    destruct HE as [b|l E' b Hbl|l E' b content Hbo].
    + rewrite (scan_nil s L). cbn [negb]. exists s. split; [reflexivity|]. split; [exact L|].
      unfold lines_of in L. destruct (peeked s); [reflexivity | discriminate].
    + destruct (scan_text_cons s l E' Iv L) as (s1 & s2 & E1 & E2 & E3 & E4). rewrite E1. cbn [negb]. rewrite E2. cbv zeta.
      unfold blank in Hbl. rewrite Hbl. exists s2. repeat split; assumption.
    + destruct (scan_text_cons s l E' Iv L) as (s1 & s2 & E1 & E2 & E3 & E4). rewrite E1. cbn [negb]. rewrite E2. cbv zeta.
      destruct Hbo as (path & Hp & Hr). rewrite Hp. cbn [Z.eqb Pos.eqb]. rewrite Hr. exists s2. repeat split; assumption.
  - destruct fuel as [|f]; [cbn in Hf; lia|]. rewrite header_loop_eq. cbn [app] in L.
    destruct (scan_text_cons s l (ls ++ E) Iv L) as (s1 & s2 & E1 & E2 & E3 & E4). rewrite E1. cbn [negb]. rewrite E2. cbv zeta.
    destruct Hc as [r Hr]. rewrite Hr, Z.eqb_refl.
    apply (IH s2 f E body bfin Erest); [intros X; congruence | exact E3 | cbn in Hf; lia | exact HE].
  - destruct fuel as [|f]; [cbn in Hf; lia|]. rewrite header_loop_eq. cbn [app] in L.
    destruct (scan_text_cons s l (ls ++ E) Iv L) as (s1 & s2 & E1 & E2 & E3 & E4). rewrite E1. cbn [negb]. rewrite E2. cbv zeta.
    destruct Hh as (c & tl & k0 & v0 & Ht & C35 & C64 & Sp & Tk & Tv & Nk & Nv). rewrite Ht.
    assert (c =? 35 = false) as -> by (apply Z.eqb_neq; exact C35).
    assert (c =? 64 = false) as -> by (apply Z.eqb_neq; exact C64).
    rewrite Sp, Tk, Tv. destruct k as [|k1 k']; [congruence|]. destruct v as [|v1 v']; [congruence|].
    apply (IH s2 f E body bfin Erest); [intros X; congruence | exact E3 | cbn in Hf; lia | exact HE].
Qed.
End Files.

(* ---- one target, then the whole file ---- *)
Section File.
Variables (fs : files) (db : list Z) (dh : hmap).

(* a request line: "METHOD URL" after trimming *)
Definition request (l m u : list Z) : Prop :=
  trim_space l = m ++ 32 :: u /\ ~ In 32 m /\ starts_with_method (trim_space l) = true /\ url_ok u = true.

Lemma request_not_skippable l m u : request l m u -> exists c tl, trim_space l = c :: tl /\ c <> 35.
Proof.
  intros (E & _ & S & _). destruct (trim_space l) as [|c tl]; [cbn in S; discriminate|].
  exists c, tl. split; [reflexivity|]. intros ->. cbn in S. discriminate.
Qed.

(* what may follow a target without header lines and body: nothing, a blank line, or a line that
   looks like a request line *)
Definition follows_bare (F : list (list Z)) : Prop :=
  match F with [] => True | x :: _ => not_comment x /\ (trim_space x = [] \/ starts_with_method (trim_space x) = true) end.

(* the lines of a well-formed file and the targets they describe *)
Inductive file_lines : list (list Z) -> list target -> Prop :=
| fl_end trailing : Forall skippable trailing -> file_lines trailing []
| fl_bare pre l m u mid F ts :
    Forall skippable pre -> request l m u -> Forall comment mid -> follows_bare F -> file_lines F ts ->
    file_lines (pre ++ l :: mid ++ F) ({| t_method := m; t_url := u; t_body := db; t_header := dh |} :: ts)
| fl_block pre l m u mid block E h' bfin F ts :
    Forall skippable pre -> request l m u -> Forall comment mid ->
    hdr_block block dh h' -> block_end fs E db bfin F ->
    (* the first line after the comments opens the block: it is not blank and does not look like a request line *)
    (match block ++ E with x :: _ => not_comment x /\ trim_space x <> [] /\ starts_with_method (trim_space x) = false | [] => False end) ->
    file_lines F ts ->
    file_lines (pre ++ l :: mid ++ block ++ E) ({| t_method := m; t_url := u; t_body := bfin; t_header := h' |} :: ts).

Lemma skippable_blank_raw : skippable [].
Proof. left. reflexivity. Qed.

Lemma file_lines_drop_blank F ts : file_lines ([] :: F) ts -> file_lines F ts.
Proof.
  intros H. remember ([] :: F) as L eqn:EL. revert F EL.
  induction H as [tr Htr | pre l m u mid F0 ts Hp Hr Hm Hf Hrest IH | pre l m u mid block E h' bfin F0 ts Hp Hr Hm Hb He Hx Hrest IH]; intros F EL.
  - subst. inversion Htr; subst. apply fl_end. assumption.
  - destruct pre as [|p pre'].
    + cbn [app] in EL. injection EL as -> _. destruct (request_not_skippable _ _ _ Hr) as (c & tl & E1 & _). cbn in E1. discriminate.
    + cbn [app] in EL. injection EL as -> <-. inversion Hp; subst. apply fl_bare; assumption.
  - destruct pre as [|p pre'].
    + cbn [app] in EL. injection EL as -> _. destruct (request_not_skippable _ _ _ Hr) as (c & tl & E1 & _). cbn in E1. discriminate.
    + cbn [app] in EL. injection EL as -> <-. inversion Hp; subst. eapply fl_block; eassumption.
Qed.

Lemma lines_len s : (length (lines_of s) <= S (length (rest s)))%nat.
Proof. unfold lines_of. destruct (peeked s); cbn; lia. Qed.

Lemma http_next_bare s pre l m u mid F : inv s -> lines_of s = pre ++ l :: mid ++ F ->
  Forall skippable pre -> request l m u -> Forall comment mid -> follows_bare F ->
  exists s', http_next true fs db dh s = (TOk {| t_method := m; t_url := u; t_body := db; t_header := dh |}, s') /\ inv s' /\
             (lines_of s' = F \/ exists F', F = [] :: F' /\ lines_of s' = F').
Proof.
  intros Iv L Hp Hr Hm Hf. pose proof (lines_len s) as Len. rewrite L, app_length in Len. cbn [length] in Len. rewrite app_length in Len.
  unfold http_next.
  destruct (skip_pre pre s (S (S (length (rest s)))) l (mid ++ F) Iv L Hp (request_not_skippable _ _ _ Hr) ltac:(lia)) as (s1 & K1 & K2 & K3).
  rewrite K1. destruct Hr as (Et & Hn & Hs & Hu). rewrite Et, (splitn2_found 32 m u [] Hn). cbn [rev app].
  rewrite <- Et, Hs, Hu. cbn [negb]. try rewrite Et.
  assert (rest s1 = mid ++ F) as R1 by (unfold lines_of in K2; rewrite K3 in K2; exact K2).
  destruct (peek_mid mid s1 (S (length (rest s))) F K3 R1 Hm ltac:(lia)) as (s2 & P1 & P2 & P3).
  { destruct F as [|x F']; [exact I | exact (proj1 Hf)]. }
  rewrite P1.
  assert ((match (match F with [] => [] | x :: _ => trim_space x end) with [] => true | _ :: _ => starts_with_method (match F with [] => [] | x :: _ => trim_space x end) end) = true) as ->.
  { destruct F as [|x F']; [reflexivity|]. destruct Hf as [_ [E0|E1]]; [rewrite E0; reflexivity|].
    destruct (trim_space x); [reflexivity | exact E1]. }
  exists s2. split; [reflexivity|]. split; assumption.
Qed.

Lemma http_next_block s pre l m u mid block E h' bfin F : inv s -> lines_of s = pre ++ l :: mid ++ block ++ E ->
  Forall skippable pre -> request l m u -> Forall comment mid -> hdr_block block dh h' -> block_end fs E db bfin F ->
  (match block ++ E with x :: _ => not_comment x /\ trim_space x <> [] /\ starts_with_method (trim_space x) = false | [] => False end) ->
  exists s', http_next true fs db dh s = (TOk {| t_method := m; t_url := u; t_body := bfin; t_header := h' |}, s') /\ inv s' /\ lines_of s' = F.
Proof.
  intros Iv L Hp Hr Hm Hb He Hx. pose proof (lines_len s) as Len. rewrite L, app_length in Len. cbn [length] in Len. rewrite !app_length in Len.
  unfold http_next.
  destruct (skip_pre pre s (S (S (length (rest s)))) l (mid ++ block ++ E) Iv L Hp (request_not_skippable _ _ _ Hr) ltac:(lia)) as (s1 & K1 & K2 & K3).
  rewrite K1. destruct Hr as (Et & Hn & Hs & Hu). rewrite Et, (splitn2_found 32 m u [] Hn). cbn [rev app].
  rewrite <- Et, Hs, Hu. cbn [negb]. try rewrite Et.
  assert (rest s1 = mid ++ (block ++ E)) as R1 by (unfold lines_of in K2; rewrite K3 in K2; exact K2).
  destruct (block ++ E) as [|x X'] eqn:EX; [contradiction|]. destruct Hx as (Nc & Nb & Ns).
  destruct (peek_mid mid s1 (S (length (rest s))) (x :: X') K3 R1 Hm ltac:(lia) Nc) as (s2 & P1 & P2 & P3).
  rewrite P1.
  assert ((match trim_space x with [] => true | _ :: _ => starts_with_method (trim_space x) end) = false) as ->.
  { destruct (trim_space x); [congruence | exact Ns]. }
  assert (lines_of s2 = block ++ E) as L2.
  { rewrite EX. destruct P3 as [P3|(X'' & Q1 & _)]; [exact P3|]. injection Q1 as -> _. cbn in Nb. congruence. }
  destruct (header_block_ok fs block dh h' Hb s2 (S (S (length (rest s)))) E db bfin F P2 L2 ltac:(lia) He)
    as (s3 & H1 & H2 & H3).
  rewrite H1. exists s3. split; [reflexivity|]. split; [intros Q; congruence | exact H2].
Qed.

(* the targeter returns exactly the described targets, in order, and then reports exhaustion *)
Lemma file_lines_nil ls : file_lines ls [] -> Forall skippable ls.
Proof. intros H. inversion H; subst; assumption. Qed.

Theorem http_decodes_lemma ts : forall ls, file_lines ls ts -> forall s, inv s -> lines_of s = ls ->
  http_calls true fs db dh (S (length ts)) s = map TOk ts ++ [TNoTargets].
Proof.
  induction ts as [|t ts IH]; intros ls H s Iv L; subst ls.
  - pose proof (file_lines_nil _ H) as Htr.
    cbn [length http_calls map app]. unfold http_next.
    pose proof (lines_len s) as Len.
    destruct (skip_all (lines_of s) s (S (S (length (rest s)))) Iv eq_refl Htr ltac:(lia)) as (s' & K). rewrite K. reflexivity.
  - cbn [length]. change (http_calls true fs db dh (S (S (length ts))) s) with
      (let '(r, s') := http_next true fs db dh s in r :: http_calls true fs db dh (S (length ts)) s').
    inversion H as [| pre l m u mid F ts0 Hp Hr Hm Hf Hrest | pre l m u mid block E h' bfin F ts0 Hp Hr Hm Hb He Hx Hrest]; subst.
    + destruct (http_next_bare s pre l m u mid F Iv) as (s' & K1 & K2 & K3); try assumption.
      { symmetry; assumption. }
      rewrite K1. cbn [map app]. f_equal.
      destruct K3 as [K3|(F' & Q1 & Q2)].
      * apply (IH F); assumption.
      * subst F. apply (IH F'); [apply file_lines_drop_blank; exact Hrest | exact K2 | exact Q2].
    + destruct (http_next_block s pre l m u mid block E h' bfin F Iv) as (s' & K1 & K2 & K3); try assumption.
      { symmetry; assumption. }
      rewrite K1. cbn [map app]. f_equal. apply (IH F); assumption.
Qed.
End File.
