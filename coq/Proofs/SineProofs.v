(* The sine pacer's schedule over the reals: the Q enclosures of Model/SinePacer.v contain it,
   and it never decreases when 0 <= Amp <= Mean. *)
From Coq Require Import Reals ZArith QArith Qreals Qround Lra Lia.
From Interval Require Import Tactic.
From V Require Import Model.Trig Model.SinePacer Proofs.TrigProofs.
Open Scope R_scope.

(* the schedule and the rate, as documented in lib/pacer.go *)
Definition sine_angle (p : sine) (t : Z) : R := Q2R (s_start p) + 2 * PI * IZR t / IZR (s_period p).
Definition sine_H_R (p : sine) (t : Z) : R :=
  if (t <=? 0)%Z then 0 else
  Q2R (s_mean p) * IZR t +
  Q2R (s_amp p) * IZR (s_period p) / (2 * PI) * (cos (Q2R (s_start p)) - cos (sine_angle p t)).
Definition sine_rate_R (p : sine) (t : Z) : R := Q2R (s_mean p) + Q2R (s_amp p) * sin (sine_angle p t).

(* the angle modulo whole periods *)
Lemma angle_reduce p t : (0 < s_period p)%Z -> (0 <= t)%Z ->
  exists k : nat, sine_angle p t = Q2R (s_start p) + 2 * PI * Q2R (s_frac p t) + 2 * INR k * PI.
Proof.
  intros HP Ht. exists (Z.to_nat (t / s_period p)).
  unfold sine_angle, s_frac. rewrite Q2R_div by (unfold Qeq; simpl; lia). rewrite !Q2R_inject_Z.
  rewrite INR_IZR_INZ, Z2Nat.id by (apply Z.div_pos; lia).
  pose proof (Z.div_mod t (s_period p) ltac:(lia)) as D.
  assert (IZR t = IZR (s_period p) * IZR (t / s_period p) + IZR (t mod s_period p)) as E
    by (rewrite <- mult_IZR, <- plus_IZR, <- D; reflexivity).
  rewrite E. field. apply not_0_IZR. lia.
Qed.

Lemma frac_range p t : (0 < s_period p)%Z -> 0 <= Q2R (s_frac p t) < 1.
Proof.
  intros HP. unfold s_frac. rewrite Q2R_div by (unfold Qeq; simpl; lia). rewrite !Q2R_inject_Z.
  pose proof (Z.mod_pos_bound t (s_period p) HP) as [B1 B2].
  apply IZR_le in B1. apply IZR_lt in B2. assert (0 < IZR (s_period p)) as PP by (apply IZR_lt; exact HP).
  split; [apply Rmult_le_pos; [exact B1 | apply Rlt_le, Rinv_0_lt_compat, PP]|].
  apply (Rmult_lt_reg_r (IZR (s_period p))); [exact PP|]. unfold Rdiv. rewrite Rmult_assoc, Rinv_l by lra. lra.
Qed.

Definition start_ok (p : sine) : Prop := -500 <= Q2R (s_start p) <= 500.

Lemma two_pi_gap_R : Q2R two_pi_gap = 2 * (Q2R pi_hi - Q2R pi_lo).
Proof. unfold two_pi_gap. rewrite Q2R_mult, Q2R_minus. unfold Q2R at 1; simpl. lra. Qed.

Lemma pi_lo_val : 3 < Q2R pi_lo < 4. Proof. unfold pi_lo, Q2R; simpl. split; interval. Qed.
Lemma pi_hi_val : 3 < Q2R pi_hi < 4. Proof. unfold pi_hi, Q2R; simpl. split; interval. Qed.

(* enclosure of cos and sin of the angle *)
Lemma angle_cs_sound p t : (0 < s_period p)%Z -> (0 <= t)%Z -> start_ok p ->
  rin (fst (s_angle_cs p t)) (cos (sine_angle p t)) /\ rin (snd (s_angle_cs p t)) (sin (sine_angle p t)).
Proof.
  intros HP Ht [S1 S2]. destruct (angle_reduce p t HP Ht) as [k E]. rewrite E, cos_period, sin_period.
  pose proof (frac_range p t HP) as [F0 F1]. set (f := s_frac p t) in *.
  unfold s_angle_cs. fold f.
  set (theta0 := (s_start p + 2 * pi_lo * f)%Q).
  pose proof pi_lo_lt as L. pose proof pi_hi_gt as U. pose proof pi_lo_val as [L3 L4]. pose proof pi_hi_val as [U3 U4].
  assert (Q2R theta0 = Q2R (s_start p) + 2 * Q2R pi_lo * Q2R f) as Et.
  { unfold theta0. rewrite Q2R_plus, !Q2R_mult. unfold Q2R at 2; simpl. lra. }
  assert (-511 <= Q2R theta0 <= 511) as Tr by (rewrite Et; split; nra).
  destruct (cos_sin_sound theta0 Tr) as [C S]. destruct (cos_sin theta0) as [c s]. cbn [fst snd] in *.
  set (theta := Q2R (s_start p) + 2 * PI * Q2R f).
  assert (Rabs (theta - Q2R theta0) <= Q2R (two_pi_gap * f)) as D.
  { rewrite Q2R_mult, two_pi_gap_R, Et. unfold theta.
    replace (Q2R (s_start p) + 2 * PI * Q2R f - (Q2R (s_start p) + 2 * Q2R pi_lo * Q2R f)) with (2 * (PI - Q2R pi_lo) * Q2R f) by ring.
    apply Rabs_le. split; nra. }
  split; apply rin_round; eapply rin_widen; try eassumption.
  - eapply Rle_trans; [apply cos_lipschitz | exact D].
  - eapply Rle_trans; [apply sin_lipschitz | exact D].
Qed.

Lemma inv_two_pi_sound : rin inv_two_pi (/ (2 * PI)).
Proof.
  unfold rin, inv_two_pi; cbn [fst snd]. pose proof pi_lo_lt as L. pose proof pi_hi_gt as U.
  pose proof pi_lo_val as [L3 L4]. pose proof pi_hi_val as [U3 U4].
  rewrite !Q2R_div, !Q2R_mult by (unfold Qeq; simpl; lia). unfold Q2R at 1 2 4 5; simpl.
  replace (1 * / 1 / (2 * / 1 * Q2R pi_hi)) with (/ (2 * Q2R pi_hi)) by (field; lra).
  replace (1 * / 1 / (2 * / 1 * Q2R pi_lo)) with (/ (2 * Q2R pi_lo)) by (field; lra).
  split; apply Rinv_le_contravar; lra.
Qed.

Theorem sine_H_sound p t : (0 < s_period p)%Z -> start_ok p -> rin (sine_H p t) (sine_H_R p t).
Proof.
  intros HP HS. unfold sine_H, sine_H_with, sine_c0, sine_amp, sine_H_R. destruct (t <=? 0)%Z eqn:E.
  - unfold rin, i_pt; cbn [fst snd]. unfold Q2R; simpl. lra.
  - apply Z.leb_gt in E. apply rin_round.
    apply rin_add.
    + replace (Q2R (s_mean p) * IZR t) with (Q2R (s_mean p * inject_Z t)) by (rewrite Q2R_mult, Q2R_inject_Z; reflexivity).
      apply rin_pt.
    + apply rin_mul.
      * apply rin_round.
        replace (Q2R (s_amp p) * IZR (s_period p) / (2 * PI)) with (Q2R (s_amp p * inject_Z (s_period p)) * / (2 * PI))
          by (rewrite Q2R_mult, Q2R_inject_Z; unfold Rdiv; ring).
        apply rin_mul; [apply rin_pt | apply inv_two_pi_sound].
      * apply rin_sub.
        -- destruct HS as [S1 S2]. apply (cos_sin_sound (s_start p)); lra.
        -- apply (angle_cs_sound p t HP ltac:(lia) HS).
Qed.

Theorem sine_rate_sound p t : (0 < s_period p)%Z -> (0 <= t)%Z -> start_ok p -> rin (sine_rate p t) (sine_rate_R p t).
Proof.
  intros HP Ht HS. unfold sine_rate, sine_rate_R. apply rin_round, rin_add; [apply rin_pt|].
  apply rin_mul; [apply rin_pt | apply (angle_cs_sound p t HP Ht HS)].
Qed.

Lemma Rabs_le_inv_l x e : Rabs x <= e -> - e <= x <= e.
Proof. intros H. pose proof (Rle_abs x). pose proof (Rle_abs (- x)) as H2. rewrite Rabs_Ropp in H2. lra. Qed.

(* the schedule never decreases when 0 <= Amp <= Mean *)
Theorem sine_H_mono p t1 t2 : (0 < s_period p)%Z -> 0 <= Q2R (s_amp p) <= Q2R (s_mean p) -> (t1 <= t2)%Z ->
  sine_H_R p t1 <= sine_H_R p t2.
Proof.
  intros HP [A0 AM] Ht. assert (0 < IZR (s_period p)) as PP by (apply IZR_lt; exact HP).
  assert (forall t, (0 < t)%Z -> 0 <= Q2R (s_mean p) * IZR t +
            Q2R (s_amp p) * IZR (s_period p) / (2 * PI) * (cos (Q2R (s_start p)) - cos (sine_angle p t))) as NN.
  { intros t Hpos.
    pose proof (cos_lipschitz (Q2R (s_start p)) (sine_angle p t)) as Lp.
    assert (Q2R (s_start p) - sine_angle p t = - (2 * PI * IZR t / IZR (s_period p))) as Ed by (unfold sine_angle; ring).
    rewrite Ed, Rabs_Ropp in Lp.
    assert (0 < IZR t) as Tp by (apply IZR_lt; exact Hpos).
    assert (0 < 2 * PI * IZR t / IZR (s_period p)) as Ap.
    { apply Rmult_lt_0_compat; [|apply Rinv_0_lt_compat, PP]. pose proof PI_RGT_0. nra. }
    rewrite (Rabs_right _ (Rle_ge _ _ (Rlt_le _ _ Ap))) in Lp.
    apply Rabs_le_inv_l in Lp.
    set (K := Q2R (s_amp p) * IZR (s_period p) / (2 * PI)).
    assert (0 <= K) as K0.
    { unfold K. apply Rmult_le_pos; [apply Rmult_le_pos; lra|]. apply Rlt_le, Rinv_0_lt_compat. pose proof PI_RGT_0. lra. }
    assert (K * (2 * PI * IZR t / IZR (s_period p)) = Q2R (s_amp p) * IZR t) as EK.
    { unfold K. field. split; [lra | pose proof PI_RGT_0; lra]. }
    destruct Lp as [Lp1 Lp2].
    assert (- (Q2R (s_amp p) * IZR t) <= K * (cos (Q2R (s_start p)) - cos (sine_angle p t))) as Low.
    { rewrite <- EK. replace (- (K * (2 * PI * IZR t / IZR (s_period p)))) with (K * - (2 * PI * IZR t / IZR (s_period p))) by ring.
      apply Rmult_le_compat_l; [exact K0 | exact Lp1]. }
    assert (Q2R (s_amp p) * IZR t <= Q2R (s_mean p) * IZR t) by (apply Rmult_le_compat_r; lra).
    lra. }
  unfold sine_H_R. destruct (t1 <=? 0)%Z eqn:E1; destruct (t2 <=? 0)%Z eqn:E2.
  - lra.
  - apply Z.leb_gt in E2. apply NN, E2.
  - apply Z.leb_gt in E1. apply Z.leb_le in E2. lia.
  - apply Z.leb_gt in E1. apply Z.leb_gt in E2.
    pose proof (cos_lipschitz (sine_angle p t1) (sine_angle p t2)) as Lp.
    assert (sine_angle p t1 - sine_angle p t2 = - (2 * PI * (IZR t2 - IZR t1) / IZR (s_period p))) as Ed by (unfold sine_angle; field; lra).
    rewrite Ed, Rabs_Ropp in Lp.
    assert (0 <= IZR t2 - IZR t1) as Dp by (apply IZR_le in Ht; lra).
    assert (0 <= 2 * PI * (IZR t2 - IZR t1) / IZR (s_period p)) as Ap.
    { apply Rmult_le_pos; [|apply Rlt_le, Rinv_0_lt_compat, PP]. pose proof PI_RGT_0. nra. }
    rewrite (Rabs_right _ (Rle_ge _ _ Ap)) in Lp. apply Rabs_le_inv_l in Lp. destruct Lp as [Lp1 Lp2].
    set (K := Q2R (s_amp p) * IZR (s_period p) / (2 * PI)).
    assert (0 <= K) as K0.
    { unfold K. apply Rmult_le_pos; [apply Rmult_le_pos; lra|]. apply Rlt_le, Rinv_0_lt_compat. pose proof PI_RGT_0. lra. }
    assert (K * (2 * PI * (IZR t2 - IZR t1) / IZR (s_period p)) = Q2R (s_amp p) * (IZR t2 - IZR t1)) as EK.
    { unfold K. field. split; [lra | pose proof PI_RGT_0; lra]. }
    assert (- (Q2R (s_amp p) * (IZR t2 - IZR t1)) <= K * (cos (sine_angle p t1) - cos (sine_angle p t2))) as Low.
    { rewrite <- EK. replace (- (K * (2 * PI * (IZR t2 - IZR t1) / IZR (s_period p)))) with (K * - (2 * PI * (IZR t2 - IZR t1) / IZR (s_period p))) by ring.
      apply Rmult_le_compat_l; [exact K0 | exact Lp1]. }
    assert (Q2R (s_amp p) * (IZR t2 - IZR t1) <= Q2R (s_mean p) * (IZR t2 - IZR t1)) by (apply Rmult_le_compat_r; lra).
    fold K. nra.
Qed.
