(* C07: the CSV codec round-trips whole results (the twelve columns with their decimal, base64 and
   MIME sub-encodings), assembled from the component lemmas. *)
From Coq Require Import ZArith List Bool Lia.
From V Require Import Base.Duration Base.Str Base.Base64 Model.Flags Model.Csv Model.ResultCodec
  Proofs.FlagsProofs Proofs.Base64Proofs Proofs.DecimalProofs Proofs.CsvProofs.
Import ListNotations.
Open Scope Z_scope.

Definition two64v : Z := 18446744073709551616.

(* the representable domain of a result, as far as the CSV columns are concerned *)
Record cres_dom (r : cres) : Prop := {
  dom_ts : - two63 <= c_ts r < two63;
  dom_lat : - two63 <= c_lat r < two63;
  dom_code : 0 <= c_code r < 65536;
  dom_bout : 0 <= c_bout r < two64v;
  dom_bin : 0 <= c_bin r < two64v;
  dom_seq : 0 <= c_seq r < two64v;
  dom_body : forallb is_byte (opt_bytes (c_body r)) = true;
  dom_hdr : forallb is_byte (header_bytes (c_headers r)) = true }.

(* net/textproto reads back what http.Header.Write wrote (reference models mime_write / mime_read;
   sampled by the tie on every run) *)
Definition hdr_roundtrips (h : option hmap) : Prop :=
  match h with
  | None => True
  | Some m => exists m', mime_read (mime_write m) = Some m' /\ headers_equal (Some m) (Some m') = true
  end.

Lemma pow64 : 2 ^ 64 = two64v. Proof. reflexivity. Qed.
Lemma pow16 : 2 ^ 16 = 65536. Proof. reflexivity. Qed.

Lemma parse_uint64_itoa n : 0 <= n < two64v -> parse_uint 64 (itoa n) = Some n.
Proof.
  intros H. destruct (itoa_nonneg_val n H) as (Hne & Hv & _ & _).
  unfold parse_uint. destruct (itoa n) as [|c tl] eqn:E; [congruence|]. rewrite Hv, pow64.
  assert (n <? two64v = true) as -> by (apply Z.ltb_lt; lia). reflexivity.
Qed.

Lemma parse_uint16_itoa n : 0 <= n < 65536 -> parse_uint 16 (itoa n) = Some n.
Proof.
  intros H. destruct (itoa_nonneg_val n ltac:(unfold two64v; lia)) as (Hne & Hv & _ & _).
  unfold parse_uint. destruct (itoa n) as [|c tl] eqn:E; [congruence|]. rewrite Hv, pow16.
  assert (n <? 65536 = true) as -> by (apply Z.ltb_lt; lia). reflexivity.
Qed.

Lemma b64_encode_nonempty bs : bs <> [] -> b64_encode bs <> [].
Proof. destruct bs as [|a [|b [|c tl]]]; intros H; [congruence | | |]; cbn [b64_encode]; discriminate. Qed.

Lemma mime_write_nonempty m : mime_write m <> [].
Proof. unfold mime_write. destruct (flat_map _ (sort_hmap m)); discriminate. Qed.

Theorem csv_record_roundtrip_lemma r : cres_dom r -> hdr_roundtrips (c_headers r) ->
  exists r', csv_decode_fields (csv_fields r) = Some r' /\ cres_equal r r' = true.
Proof.
  intros D Hh. unfold csv_fields, csv_decode_fields.
  rewrite (atoi_itoa_lemma (c_ts r) (dom_ts r D)), (atoi_itoa_lemma (c_lat r) (dom_lat r D)).
  rewrite (parse_uint16_itoa (c_code r) (dom_code r D)).
  rewrite (parse_uint64_itoa (c_bout r) (dom_bout r D)), (parse_uint64_itoa (c_bin r) (dom_bin r D)), (parse_uint64_itoa (c_seq r) (dom_seq r D)).
  rewrite (b64_roundtrip_lemma _ (dom_body r D)).
  assert (forall h', headers_equal (c_headers r) h' = true ->
          cres_equal r {| c_attack := c_attack r; c_seq := c_seq r; c_code := c_code r; c_ts := c_ts r; c_zone := 0; c_lat := c_lat r;
                          c_bout := c_bout r; c_bin := c_bin r; c_error := c_error r; c_body := Some (opt_bytes (c_body r));
                          c_method := c_method r; c_url := c_url r; c_headers := h' |} = true) as Eq.
  { intros h' Hq. unfold cres_equal. cbn [c_attack c_seq c_code c_ts c_lat c_bin c_bout c_error c_body c_method c_url c_headers opt_bytes].
    rewrite !str_eqb_refl, !Z.eqb_refl, Hq. reflexivity. }
  destruct (c_headers r) as [m|] eqn:Eh.
  - cbn [header_bytes]. destruct (b64_encode (mime_write m)) as [|c tl] eqn:Eb.
    { exfalso. apply (b64_encode_nonempty (mime_write m) (mime_write_nonempty m)). exact Eb. }
    rewrite <- Eb. pose proof (dom_hdr r D) as Hb. rewrite Eh in Hb. cbn [header_bytes] in Hb.
    rewrite (b64_roundtrip_lemma _ Hb). cbn [hdr_roundtrips] in Hh. destruct Hh as (m' & Hm & He). rewrite Hm.
    eexists. split; [reflexivity|]. apply Eq. exact He.
  - cbn [header_bytes b64_encode]. eexists. split; [reflexivity|]. apply Eq. reflexivity.
Qed.

(* ---- whole streams ---- *)
Lemma no_cr_no_crlf s : Forall (fun c => c <> 13) s -> has_crlf s = false.
Proof.
  induction s as [|c tl IH]; intros H; [reflexivity|]. inversion H as [|? ? Hc Ht]; subst.
  cbn [has_crlf]. destruct tl as [|d tl']; [reflexivity|].
  assert (c =? 13 = false) as -> by (apply Z.eqb_neq; exact Hc). cbn [andb orb]. apply IH, Ht.
Qed.

Lemma itoa_chars n : Forall (fun c => c = 45 \/ is_digit c = true) (itoa n).
Proof.
  assert (forall fuel m acc, 0 <= m -> Forall (fun c => c = 45 \/ is_digit c = true) acc ->
            Forall (fun c => c = 45 \/ is_digit c = true) (digits_of fuel m acc)) as K.
  { induction fuel as [|f IH]; intros m acc Hm Ha; cbn; [exact Ha|].
    destruct (m <? 10) eqn:E.
    - apply Z.ltb_lt in E. constructor; [right; apply (is_digit_48 m); lia | exact Ha].
    - apply Z.ltb_ge in E. apply IH; [apply Z.div_pos; lia|]. constructor; [right; apply (is_digit_48 (m mod 10)); apply Z.mod_pos_bound; lia | exact Ha]. }
  unfold itoa. destruct (n <? 0) eqn:E.
  - apply Z.ltb_lt in E. constructor; [left; reflexivity | apply K; [lia | constructor]].
  - apply Z.ltb_ge in E. apply K; [lia | constructor].
Qed.

Lemma itoa_no_crlf n : has_crlf (itoa n) = false.
Proof.
  apply no_cr_no_crlf. eapply Forall_impl; [|apply itoa_chars]. intros c [->|H]; [discriminate|].
  intros ->. cbn in H. discriminate.
Qed.

Lemma filter_len {A} (f : A -> bool) l : (length (filter f l) <= length l)%nat.
Proof. induction l as [|x tl IH]; cbn; [lia|]. destruct (f x); cbn; lia. Qed.

Lemma filter_id_forall {A} (f : A -> bool) l : filter f l = l -> Forall (fun x => f x = true) l.
Proof.
  induction l as [|x tl IH]; intros H; [constructor|]. cbn [filter] in H. destruct (f x) eqn:E.
  - injection H as H. constructor; [exact E | apply IH, H].
  - exfalso. pose proof (filter_len f tl) as L. rewrite H in L. cbn in L. lia.
Qed.

Lemma b64_no_crlf bs : forallb is_byte bs = true -> has_crlf (b64_encode bs) = false.
Proof.
  intros H. apply no_cr_no_crlf. pose proof (filter_id_forall _ _ (b64_encode_no_crlf bs H)) as F.
  eapply Forall_impl; [|exact F]. intros c Hc ->. cbn in Hc. discriminate.
Qed.

Definition texts_ok (r : cres) : Prop :=
  has_crlf (c_attack r) = false /\ has_crlf (c_error r) = false /\ has_crlf (c_method r) = false /\ has_crlf (c_url r) = false.

Lemma csv_fields_no_crlf r : cres_dom r -> texts_ok r -> Forall (fun f => has_crlf f = false) (csv_fields r).
Proof.
  intros D (T1 & T2 & T3 & T4). unfold csv_fields.
  repeat constructor; try apply itoa_no_crlf; try assumption; apply b64_no_crlf; [apply (dom_body r D) | apply (dom_hdr r D)].
Qed.

Theorem csv_stream_roundtrip_lemma rs :
  Forall cres_dom rs -> Forall (fun r => hdr_roundtrips (c_headers r)) rs -> Forall texts_ok rs ->
  exists rs', csv_decode_all (flat_map csv_encode rs) = Some rs' /\ Forall2 (fun a b => cres_equal a b = true) rs rs'.
Proof.
  intros HD HH HT. unfold csv_decode_all.
  assert (flat_map csv_encode rs = concat (map write_record (map csv_fields rs))) as -> by (rewrite flat_map_concat_map, map_map; reflexivity).
  rewrite csv_fields_roundtrip_lemma.
  - clear HT. induction rs as [|r tl IH]; cbn [map fold_right].
    + exists []. split; [reflexivity | constructor].
    + inversion HD as [|? ? D1 D2]; inversion HH as [|? ? H1 H2]; subst.
      destruct (csv_record_roundtrip_lemma r D1 H1) as (r' & E1 & Q1). destruct (IH D2 H2) as (tl' & E2 & Q2).
      rewrite E1, E2. exists (r' :: tl'). split; [reflexivity | constructor; assumption].
  - apply Forall_forall. intros f Hf. apply in_map_iff in Hf as (r & <- & _). unfold csv_fields. discriminate.
  - apply Forall_forall. intros f Hf. apply in_map_iff in Hf as (r & <- & Hr).
    rewrite Forall_forall in HD, HT. apply csv_fields_no_crlf; [apply HD | apply HT]; exact Hr.
Qed.
