(* Soundness of the Q-interval evaluator of Model/Trig.v with respect to the real functions.
   Uses the standard library's real numbers (their axioms are listed by Print Assumptions in
   Props/C01.v) and the Interval tactic for the bounds on PI. *)
From Coq Require Import Reals ZArith QArith Qreals Qround Qminmax Lra Lia List.
From Interval Require Import Tactic.
From V Require Import Model.Trig.
Open Scope R_scope.

Definition rin (I : itv) (x : R) : Prop := Q2R (fst I) <= x <= Q2R (snd I).

Lemma Q2R_inject_Z z : Q2R (inject_Z z) = IZR z.
Proof. unfold Q2R, inject_Z; simpl. lra. Qed.

Lemma rin_pt q : rin (i_pt q) (Q2R q).
Proof. unfold rin, i_pt; simpl. lra. Qed.

Lemma rin_add a b x y : rin a x -> rin b y -> rin (i_add a b) (x + y).
Proof. unfold rin, i_add; simpl. rewrite !Q2R_plus. lra. Qed.

Lemma rin_neg a x : rin a x -> rin (i_neg a) (- x).
Proof. unfold rin, i_neg; simpl. rewrite !Q2R_opp. lra. Qed.

Lemma rin_sub a b x y : rin a x -> rin b y -> rin (i_sub a b) (x - y).
Proof. intros Ha Hb. unfold i_sub. replace (x - y) with (x + - y) by lra. apply rin_add; [exact Ha | apply rin_neg, Hb]. Qed.

Lemma rin_widen a x y e : rin a y -> Rabs (x - y) <= Q2R e -> rin (i_widen a e) x.
Proof.
  unfold rin, i_widen; simpl. rewrite Q2R_minus, Q2R_plus. intros [A B] H.
  pose proof (Rle_abs (x - y)) as H1. pose proof (Rle_abs (- (x - y))) as H2. rewrite Rabs_Ropp in H2. lra.
Qed.

Lemma rin_weaken (a b : itv) x : rin a x -> Q2R (fst b) <= Q2R (fst a) -> Q2R (snd a) <= Q2R (snd b) -> rin b x.
Proof. unfold rin. lra. Qed.

(* corners of a rectangle bound a product *)
Lemma prod_nn a b : 0 <= a -> 0 <= b -> 0 <= a * b. Proof. intros; apply Rmult_le_pos; assumption. Qed.
Lemma prod_pp a b : a <= 0 -> b <= 0 -> 0 <= a * b.
Proof. intros. replace (a * b) with ((- a) * (- b)) by ring. apply Rmult_le_pos; lra. Qed.

Lemma corner_low A B C D x y : A <= x <= B -> C <= y <= D ->
  A * C <= x * y \/ A * D <= x * y \/ B * C <= x * y \/ B * D <= x * y.
Proof.
  intros [Hx1 Hx2] [Hy1 Hy2].
  destruct (Rle_dec 0 y) as [Hy|Hy].
  - destruct (Rle_dec 0 A) as [HA|HA].
    + left. pose proof (prod_nn (x - A) y). pose proof (prod_nn A (y - C)). nra.
    + right. left. pose proof (prod_nn (x - A) y). pose proof (prod_pp A (y - D)). nra.
  - destruct (Rle_dec 0 B) as [HB|HB].
    + right. right. left. pose proof (prod_pp (x - B) y). pose proof (prod_nn B (y - C)). nra.
    + right. right. right. pose proof (prod_pp (x - B) y). pose proof (prod_pp B (y - D)). nra.
Qed.

Lemma corner_high A B C D x y : A <= x <= B -> C <= y <= D ->
  x * y <= A * C \/ x * y <= A * D \/ x * y <= B * C \/ x * y <= B * D.
Proof.
  intros Hx Hy.
  assert (- B <= - x <= - A) as Hx' by lra.
  destruct (corner_low (- B) (- A) C D (- x) y Hx' Hy) as [L|[L|[L|L]]].
  - right. right. left. lra.
  - right. right. right. lra.
  - left. lra.
  - right. left. lra.
Qed.

Lemma Q2R_min_l a b : Q2R (Qmin a b) <= Q2R a. Proof. apply Qle_Rle, Q.le_min_l. Qed.
Lemma Q2R_min_r a b : Q2R (Qmin a b) <= Q2R b. Proof. apply Qle_Rle, Q.le_min_r. Qed.
Lemma Q2R_max_l a b : Q2R a <= Q2R (Qmax a b). Proof. apply Qle_Rle, Q.le_max_l. Qed.
Lemma Q2R_max_r a b : Q2R b <= Q2R (Qmax a b). Proof. apply Qle_Rle, Q.le_max_r. Qed.

Lemma rin_mul a b x y : rin a x -> rin b y -> rin (i_mul a b) (x * y).
Proof.
  unfold rin, i_mul; cbv zeta; simpl fst; simpl snd. intros Ha Hb. unfold min4, max4.
  pose proof (Q2R_min_l (Qmin (fst a * fst b) (fst a * snd b)) (Qmin (snd a * fst b) (snd a * snd b))) as M1.
  pose proof (Q2R_min_r (Qmin (fst a * fst b) (fst a * snd b)) (Qmin (snd a * fst b) (snd a * snd b))) as M2.
  pose proof (Q2R_min_l (fst a * fst b) (fst a * snd b)) as M3. pose proof (Q2R_min_r (fst a * fst b) (fst a * snd b)) as M4.
  pose proof (Q2R_min_l (snd a * fst b) (snd a * snd b)) as M5. pose proof (Q2R_min_r (snd a * fst b) (snd a * snd b)) as M6.
  pose proof (Q2R_max_l (Qmax (fst a * fst b) (fst a * snd b)) (Qmax (snd a * fst b) (snd a * snd b))) as N1.
  pose proof (Q2R_max_r (Qmax (fst a * fst b) (fst a * snd b)) (Qmax (snd a * fst b) (snd a * snd b))) as N2.
  pose proof (Q2R_max_l (fst a * fst b) (fst a * snd b)) as N3. pose proof (Q2R_max_r (fst a * fst b) (fst a * snd b)) as N4.
  pose proof (Q2R_max_l (snd a * fst b) (snd a * snd b)) as N5. pose proof (Q2R_max_r (snd a * fst b) (snd a * snd b)) as N6.
  rewrite !Q2R_mult in *.
  destruct (corner_low _ _ _ _ x y Ha Hb) as [L|[L|[L|L]]]; destruct (corner_high _ _ _ _ x y Ha Hb) as [U|[U|[U|U]]]; lra.
Qed.

Lemma rin_scale c a x : rin a x -> rin (i_scale c a) (Q2R c * x).
Proof. intros H. unfold i_scale. apply rin_mul; [apply rin_pt | exact H]. Qed.

(* outward rounding *)
Lemma grid_pos : (0 < inject_Z (Zpos grid))%Q. Proof. reflexivity. Qed.

Lemma rdn_le x : (rdn x <= x)%Q.
Proof.
  unfold rdn. pose proof (Qfloor_le (x * inject_Z (Zpos grid))) as H.
  assert (Qmake (Qfloor (x * inject_Z (Zpos grid))) grid == inject_Z (Qfloor (x * inject_Z (Zpos grid))) / inject_Z (Zpos grid))%Q as ->.
  { unfold Qeq, Qdiv, Qmult, Qinv, inject_Z; simpl. lia. }
  apply Qle_shift_div_r; [apply grid_pos | exact H].
Qed.

Lemma rup_ge x : (x <= rup x)%Q.
Proof.
  unfold rup. pose proof (Qle_ceiling (x * inject_Z (Zpos grid))) as H.
  assert (Qmake (Qceiling (x * inject_Z (Zpos grid))) grid == inject_Z (Qceiling (x * inject_Z (Zpos grid))) / inject_Z (Zpos grid))%Q as ->.
  { unfold Qeq, Qdiv, Qmult, Qinv, inject_Z; simpl. lia. }
  apply Qle_shift_div_l; [apply grid_pos | exact H].
Qed.

Lemma rin_round a x : rin a x -> rin (i_round a) x.
Proof.
  intros H. apply (rin_weaken a); [exact H | |]; unfold i_round; simpl; apply Qle_Rle; [apply rdn_le | apply rup_ge].
Qed.

(* ---- Taylor partial sums ---- *)
Lemma Q2R_qpow a n : Q2R (qpow a n) = Q2R a ^ n.
Proof. induction n as [|n IH]; simpl; [unfold Q2R; simpl; lra | rewrite Q2R_mult, IH; reflexivity]. Qed.

Lemma zfact_pos n : (0 < zfact n)%Z.
Proof.
  induction n as [|n IH]; [reflexivity|].
  change (zfact (S n)) with (Z.of_nat (S n) * zfact n)%Z. apply Z.mul_pos_pos; [lia | exact IH].
Qed.

Lemma zfact_INR n : IZR (zfact n) = INR (fact n).
Proof.
  induction n as [|n IH]; [simpl; lra|].
  change (zfact (S n)) with (Z.of_nat (S n) * zfact n)%Z. rewrite mult_IZR, IH, <- INR_IZR_INZ.
  change (fact (S n)) with (S n * fact n)%nat. rewrite mult_INR. reflexivity.
Qed.

Lemma sgn_pow_R i : Q2R (sgn_pow i) = (-1) ^ i.
Proof.
  unfold sgn_pow. destruct (Nat.even i) eqn:E.
  - apply Nat.even_spec in E. destruct E as [m ->]. rewrite pow_1_even. unfold Q2R; simpl; lra.
  - assert (Nat.odd i = true) as O by (rewrite <- Nat.negb_even, E; reflexivity).
    apply Nat.odd_spec in O. destruct O as [m ->]. replace (2 * m + 1)%nat with (S (2 * m)) by lia.
    rewrite pow_1_odd. unfold Q2R; simpl; lra.
Qed.

Lemma zfact_Q_nz n : ~ (inject_Z (zfact n) == 0)%Q.
Proof. intros H. unfold Qeq in H; simpl in H. pose proof (zfact_pos n). lia. Qed.

Lemma cos_term_q_R a i : Q2R (cos_term_q a i) = cos_term (Q2R a) i.
Proof.
  unfold cos_term_q, cos_term. rewrite Q2R_mult, sgn_pow_R, Q2R_div by apply zfact_Q_nz.
  rewrite Q2R_qpow, Q2R_inject_Z, zfact_INR. reflexivity.
Qed.

Lemma sin_term_q_R a i : Q2R (sin_term_q a i) = sin_term (Q2R a) i.
Proof.
  unfold sin_term_q, sin_term. rewrite Q2R_mult, sgn_pow_R, Q2R_div by apply zfact_Q_nz.
  rewrite Q2R_qpow, Q2R_inject_Z, zfact_INR. reflexivity.
Qed.

Lemma qsum_R f g n : (forall i, Q2R (f i) = g i) -> Q2R (qsum f n) = sum_f_R0 g n.
Proof. intros H. induction n as [|n IH]; simpl; [apply H | rewrite Q2R_plus, IH, H; reflexivity]. Qed.

Lemma cos_small_sound a : -2 <= Q2R a <= 2 -> rin (cos_small a) (cos (Q2R a)).
Proof.
  intros [H1 H2]. unfold cos_small. apply rin_round. unfold rin; cbn [fst snd].
  rewrite (qsum_R _ (cos_term (Q2R a)) 5 (cos_term_q_R a)), (qsum_R _ (cos_term (Q2R a)) 6 (cos_term_q_R a)).
  pose proof (pre_cos_bound (Q2R a) 2 H1 H2) as B. exact B.
Qed.

Lemma sin_small_pos_sound a : 0 <= Q2R a <= 4 -> rin (sin_small_pos a) (sin (Q2R a)).
Proof.
  intros [H1 H2]. unfold sin_small_pos. apply rin_round. unfold rin; cbn [fst snd].
  rewrite (qsum_R _ (sin_term (Q2R a)) 5 (sin_term_q_R a)), (qsum_R _ (sin_term (Q2R a)) 6 (sin_term_q_R a)).
  pose proof (pre_sin_bound (Q2R a) 2 H1 H2) as B. exact B.
Qed.

Lemma Qle_bool_R0 a : Qle_bool 0 a = true -> 0 <= Q2R a.
Proof. intros H. apply Qle_bool_iff, Qle_Rle in H. unfold Q2R in H at 1; simpl in H. lra. Qed.
Lemma Qle_bool_R0f a : Qle_bool 0 a = false -> Q2R a < 0.
Proof.
  intros H. assert (a < 0)%Q as L by (apply Qnot_le_lt; intros X; apply Qle_bool_iff in X; congruence).
  apply Qlt_Rlt in L. unfold Q2R in L at 2; simpl in L. lra.
Qed.

Lemma sin_small_sound a : -4 <= Q2R a <= 4 -> rin (sin_small a) (sin (Q2R a)).
Proof.
  intros [H1 H2]. unfold sin_small. destruct (Qle_bool 0 a) eqn:E.
  - apply sin_small_pos_sound. apply Qle_bool_R0 in E. lra.
  - apply Qle_bool_R0f in E. replace (sin (Q2R a)) with (- sin (Q2R (- a))) by (rewrite Q2R_opp, sin_neg; lra).
    apply rin_neg, sin_small_pos_sound. rewrite Q2R_opp. lra.
Qed.

(* ---- doubling ---- *)
Lemma Q2R_2 : Q2R 2 = 2. Proof. unfold Q2R; simpl; lra. Qed.
Lemma Q2R_1 : Q2R 1 = 1. Proof. unfold Q2R; simpl; lra. Qed.

Lemma cs_double_sound c s x : rin c (cos x) -> rin s (sin x) ->
  rin (fst (cs_double (c, s))) (cos (2 * x)) /\ rin (snd (cs_double (c, s))) (sin (2 * x)).
Proof.
  intros Hc Hs. unfold cs_double; simpl fst; simpl snd. split; apply rin_round.
  - rewrite cos_2a_cos. replace (2 * cos x * cos x - 1) with (Q2R 2 * (cos x * cos x) - Q2R 1) by (rewrite Q2R_2, Q2R_1; ring).
    apply rin_sub; [apply rin_scale, rin_mul; assumption | apply rin_pt].
  - rewrite sin_2a. replace (2 * sin x * cos x) with (Q2R 2 * (sin x * cos x)) by (rewrite Q2R_2; ring).
    apply rin_scale, rin_mul; assumption.
Qed.

Lemma cs_iter_sound n : forall c s x, rin c (cos x) -> rin s (sin x) ->
  rin (fst (cs_iter n (c, s))) (cos (2 ^ n * x)) /\ rin (snd (cs_iter n (c, s))) (sin (2 ^ n * x)).
Proof.
  induction n as [|n IH]; intros c s x Hc Hs; cbn [cs_iter].
  - simpl pow. rewrite Rmult_1_l. split; assumption.
  - destruct (cs_double_sound c s x Hc Hs) as [Dc Ds].
    set (d := cs_double (c, s)) in *. destruct d as [c' s']. cbn [fst snd] in Dc, Ds.
    replace (2 ^ S n * x) with (2 ^ n * (2 * x)) by (simpl; ring). apply IH; assumption.
Qed.

(* ---- Lipschitz ---- *)
Lemma sin_abs_le x : Rabs (sin x) <= Rabs x.
Proof.
  assert (forall y, 0 < y -> Rabs (sin y) <= y) as P.
  { intros y Hy. apply Rabs_le. split.
    - destruct (Rle_dec y PI) as [Hp|Hp].
      + pose proof (sin_ge_0 y (Rlt_le _ _ Hy) Hp). lra.
      + pose proof (SIN_bound y) as [B _]. pose proof PI2_1. lra.
    - apply Rlt_le, sin_lt_x, Hy. }
  destruct (Rtotal_order x 0) as [H|[H|H]].
  - rewrite <- (Ropp_involutive x) at 1. rewrite sin_neg, Rabs_Ropp, (Rabs_left x H). apply P. lra.
  - subst. rewrite sin_0, Rabs_R0. lra.
  - rewrite (Rabs_right x) by lra. apply P, H.
Qed.

Lemma cos_lipschitz a b : Rabs (cos a - cos b) <= Rabs (a - b).
Proof.
  rewrite form2. rewrite !Rabs_mult. replace (Rabs (-2)) with 2 by (rewrite Rabs_left; lra).
  pose proof (sin_abs_le ((a - b) / 2)) as S1.
  assert (Rabs (sin ((a + b) / 2)) <= 1) as S2 by (apply Rabs_le; pose proof (SIN_bound ((a + b) / 2)); lra).
  assert (Rabs ((a - b) / 2) = Rabs (a - b) / 2) as E.
  { unfold Rdiv. rewrite Rabs_mult, (Rabs_right (/ 2)) by lra. reflexivity. }
  pose proof (Rabs_pos (sin ((a - b) / 2))). pose proof (Rabs_pos (sin ((a + b) / 2))). pose proof (Rabs_pos (a - b)).
  rewrite E in S1. nra.
Qed.

Lemma sin_lipschitz a b : Rabs (sin a - sin b) <= Rabs (a - b).
Proof.
  rewrite form4. rewrite !Rabs_mult. replace (Rabs 2) with 2 by (rewrite Rabs_right; lra).
  pose proof (sin_abs_le ((a - b) / 2)) as S1.
  assert (Rabs (cos ((a + b) / 2)) <= 1) as S2 by (apply Rabs_le; pose proof (COS_bound ((a + b) / 2)); lra).
  assert (Rabs ((a - b) / 2) = Rabs (a - b) / 2) as E.
  { unfold Rdiv. rewrite Rabs_mult, (Rabs_right (/ 2)) by lra. reflexivity. }
  pose proof (Rabs_pos (sin ((a - b) / 2))). pose proof (Rabs_pos (cos ((a + b) / 2))). pose proof (Rabs_pos (a - b)).
  rewrite E in S1. nra.
Qed.

(* ---- cos_sin ---- *)
Lemma rdn_gt x : (x - grid_eps <= rdn x)%Q.
Proof.
  unfold rdn, grid_eps. pose proof (Qlt_floor (x * inject_Z (Zpos grid))) as H.
  assert (Qmake (Qfloor (x * inject_Z (Zpos grid))) grid == inject_Z (Qfloor (x * inject_Z (Zpos grid))) / inject_Z (Zpos grid))%Q as ->.
  { unfold Qeq, Qdiv, Qmult, Qinv, inject_Z; simpl. lia. }
  assert (Qmake 1 grid == 1 / inject_Z (Zpos grid))%Q as -> by (unfold Qeq, Qdiv, Qmult, Qinv, inject_Z; simpl; lia).
  assert (x - 1 / inject_Z (Z.pos grid) == (x * inject_Z (Zpos grid) - 1) / inject_Z (Zpos grid))%Q as -> by (field; intros X; discriminate).
  apply Qmult_le_compat_r; [|apply Qlt_le_weak, Qinv_lt_0_compat, grid_pos].
  rewrite inject_Z_plus in H. change (inject_Z 1) with 1%Q in H.
  apply Qlt_le_weak. apply Qplus_lt_l with (z := 1%Q). ring_simplify. exact H.
Qed.

Lemma Q2R_two_pow_h : Q2R two_pow_h = 2 ^ 8.
Proof. unfold two_pow_h. rewrite Q2R_inject_Z. simpl. lra. Qed.

Lemma grid_eps_small : 0 <= Q2R grid_eps <= / 2 ^ 70.
Proof. unfold grid_eps, Q2R; simpl. split; interval. Qed.

Lemma cos_sin_sound theta : -511 <= Q2R theta <= 511 ->
  rin (fst (cos_sin theta)) (cos (Q2R theta)) /\ rin (snd (cos_sin theta)) (sin (Q2R theta)).
Proof.
  intros [H1 H2]. unfold cos_sin.
  set (p := rdn (theta / two_pow_h)).
  assert (~ (two_pow_h == 0)%Q) as Nz by (intros X; discriminate).
  assert (Q2R (theta / two_pow_h) = Q2R theta / 2 ^ 8) as Eq by (rewrite Q2R_div by exact Nz; rewrite Q2R_two_pow_h; reflexivity).
  assert (Q2R p <= Q2R theta / 2 ^ 8) as P1 by (rewrite <- Eq; apply Qle_Rle, rdn_le).
  assert (Q2R theta / 2 ^ 8 - Q2R grid_eps <= Q2R p) as P2.
  { rewrite <- Eq, <- Q2R_minus. apply Qle_Rle, rdn_gt. }
  pose proof grid_eps_small as [G0 G1].
  assert (2 ^ 8 = 256) as E8 by (simpl; lra). rewrite E8 in *.
  assert (/ 2 ^ 70 <= / 256) as G2 by interval.
  assert (-2 <= Q2R p <= 2) as Pr by (split; lra).
  assert (Rabs (Q2R theta / 256 - Q2R p) <= Q2R grid_eps) as D by (apply Rabs_le; lra).
  pose proof (cos_small_sound p Pr) as C0.
  assert (-4 <= Q2R p <= 4) as Pr4 by lra.
  pose proof (sin_small_sound p Pr4) as S0.
  assert (rin (i_widen (cos_small p) grid_eps) (cos (Q2R theta / 256))) as C1.
  { eapply rin_widen; [exact C0|]. eapply Rle_trans; [apply cos_lipschitz | exact D]. }
  assert (rin (i_widen (sin_small p) grid_eps) (sin (Q2R theta / 256))) as S1.
  { eapply rin_widen; [exact S0|]. eapply Rle_trans; [apply sin_lipschitz | exact D]. }
  pose proof (cs_iter_sound halvings _ _ _ C1 S1) as K.
  replace (2 ^ halvings * (Q2R theta / 256)) with (Q2R theta) in K by (unfold halvings; simpl; field).
  exact K.
Qed.

(* ---- pi ---- *)
Lemma pi_lo_lt : Q2R pi_lo < PI.
Proof. unfold pi_lo, Q2R; simpl. interval with (i_prec 100). Qed.
Lemma pi_hi_gt : PI < Q2R pi_hi.
Proof. unfold pi_hi, Q2R; simpl. interval with (i_prec 100). Qed.
