(* Targets written by the JSON target encoder decode back to equal targets, and a stream of them
   read by the JSON targeter yields exactly those targets (defaults merged) and then exhaustion. *)
From Coq Require Import ZArith List Bool Lia.
From V Require Import Base.Duration Base.Str Base.Base64 Model.Flags Model.Csv Model.ResultCodec Model.Json Model.Targets Model.JsonTarget.
From V Require Import Proofs.Base64Proofs Proofs.FramingProofs Proofs.JsonProofs.
Import ListNotations.
Open Scope Z_scope.

Record jt_dom (t : target) : Prop := {
  td_method : Forall jbyte (t_method t); td_url : Forall jbyte (t_url t);
  td_body : forallb Base64.is_byte (t_body t) = true;
  td_hdr : hdr_bytes (t_header t) /\ NoDup (map fst (t_header t)) }.

(* the text of one target, member by member *)
Definition tbody_part (b : list Z) (rest : list Z) : list Z :=
  match b with [] => rest | _ => mem false (kn tk_body) (json_string (b64_encode b)) rest end.
Definition thdr_part (h : hmap) (rest : list Z) : list Z :=
  match h with [] => rest | _ => mem false (kn tk_header) (json_headers (Some h)) rest end.
Definition jt_members (t : target) (rest : list Z) : list Z :=
  mem true (kn tk_method) (json_string (t_method t))
    (mem false (kn tk_url) (json_string (t_url t)) (tbody_part (t_body t) (thdr_part (t_header t) rest))).
Definition jt_line (t : target) : list Z := 123 :: jt_members t [125].

Lemma kw_method : kw tk_method = json_string (kn tk_method) ++ [58]. Proof. apply kw_string. reflexivity. Qed.
Lemma kw_url : kw tk_url = json_string (kn tk_url) ++ [58]. Proof. apply kw_string. reflexivity. Qed.
Lemma kw_body : kw tk_body = json_string (kn tk_body) ++ [58]. Proof. apply kw_string. reflexivity. Qed.
Lemma kw_header : kw tk_header = json_string (kn tk_header) ++ [58]. Proof. apply kw_string. reflexivity. Qed.

Lemma b64_string b : forallb Base64.is_byte b = true -> json_string (b64_encode b) = 34 :: b64_encode b ++ [34].
Proof. intros H. unfold json_string. rewrite (json_escape_plain _ (b64_plain _ H)). reflexivity. Qed.

Lemma jt_encode_line t : forallb Base64.is_byte (t_body t) = true -> jt_encode t = jt_line t ++ [10].
Proof.
  intros Hb. unfold jt_encode, jt_line, jt_members, tbody_part, thdr_part, mem.
  rewrite kw_method, kw_url.
  destruct (t_body t) as [|b0 bt] eqn:Eb; destruct (t_header t) as [|h0 ht] eqn:Eh;
    rewrite ?kw_body, ?kw_header, ?(b64_string _ Hb); cbn [json_headers];
    repeat (rewrite <- ?app_assoc; cbn [app]); reflexivity.
Qed.

Definition jt_members_value (t : target) : list (list Z * jv) :=
  [ (kn tk_method, JStr (t_method t)); (kn tk_url, JStr (t_url t)) ] ++
  (match t_body t with [] => [] | b => [(kn tk_body, JStr (b64_encode b))] end) ++
  (match t_header t with [] => [] | h => [(kn tk_header, Json.JObj (hdr_value h))] end).

Lemma tail_nonws b h rest : nonws (tbody_part b (thdr_part h (125 :: rest))).
Proof.
  unfold tbody_part, thdr_part. destruct b; [destruct h; [apply nonws_head; discriminate | apply mem_nonws] | apply mem_nonws].
Qed.
Lemma htail_nonws h rest : nonws (thdr_part h (125 :: rest)).
Proof. unfold thdr_part. destruct h; [apply nonws_head; discriminate | apply mem_nonws]. Qed.

Lemma jt_members_parse t F rest : jt_dom t -> (8 + length (t_header t) + total_vals (t_header t) <= F)%nat ->
  parse_members F (jt_members t (125 :: rest)) [] true = Some (Json.JObj (jt_members_value t), rest).
Proof.
  intros D HF. do 5 (destruct F as [|F]; [lia|]).
  unfold jt_members, jt_members_value.
  rewrite (pm_mem _ (kn tk_method) (JStr (t_method t))); [|apply key_bytes; reflexivity | apply pv_string, (td_method t D) | apply mem_nonws].
  rewrite (pm_mem _ (kn tk_url) (JStr (t_url t))); [|apply key_bytes; reflexivity | apply pv_string, (td_url t D) | apply tail_nonws].
  pose proof (td_body t D) as Hb. pose proof (td_hdr t D) as [Hh _].
  destruct (t_body t) as [|b0 bt] eqn:Eb; destruct (t_header t) as [|h0 ht] eqn:Eh; cbn [tbody_part thdr_part app].
  - apply pm_end.
  - rewrite (pm_mem _ (kn tk_header) (Json.JObj (hdr_value (h0 :: ht)))); [|apply key_bytes; reflexivity | apply pv_headers; [exact Hh | lia] | apply nonws_head; discriminate].
    apply pm_end.
  - rewrite (pm_mem _ (kn tk_body) (JStr (b64_encode (b0 :: bt)))); [|apply key_bytes; reflexivity | apply pv_string, plain_jbyte, b64_plain, Hb | apply nonws_head; discriminate].
    apply pm_end.
  - rewrite (pm_mem _ (kn tk_body) (JStr (b64_encode (b0 :: bt)))); [|apply key_bytes; reflexivity | apply pv_string, plain_jbyte, b64_plain, Hb | apply mem_nonws].
    rewrite (pm_mem _ (kn tk_header) (Json.JObj (hdr_value (h0 :: ht)))); [|apply key_bytes; reflexivity | apply pv_headers; [exact Hh | lia] | apply nonws_head; discriminate].
    apply pm_end.
Qed.

Lemma len_jt_members t rest : (8 + length (t_header t) + total_vals (t_header t) <= length (jt_members t rest) + 2)%nat.
Proof.
  unfold jt_members.
  set (tl := tbody_part (t_body t) (thdr_part (t_header t) rest)).
  pose proof (len_mem false (kn tk_url) (json_string (t_url t)) tl) as L2.
  pose proof (len_mem true (kn tk_method) (json_string (t_method t)) (mem false (kn tk_url) (json_string (t_url t)) tl)) as L1.
  pose proof (len_json_string (t_method t)). pose proof (len_json_string (t_url t)).
  assert (length (t_header t) + total_vals (t_header t) <= length tl + 2)%nat as Lt.
  { unfold tl, tbody_part, thdr_part.
    assert (length (t_header t) + total_vals (t_header t) <= length (match t_header t with [] => rest | _ :: _ => mem false (kn tk_header) (json_headers (Some (t_header t))) rest end) + 2)%nat as Lh.
    { destruct (t_header t) as [|h0 ht] eqn:Eh; [cbn; lia|].
      match goal with |- (_ <= length (mem ?a ?b ?c ?d) + 2)%nat => pose proof (len_mem a b c d) as L end.
      match type of L with (3 + length ?c + _ <= _)%nat =>
        assert (length c = 2 + length (hdr_members (h0 :: ht) true))%nat as E
          by (unfold json_headers; cbn [length]; rewrite app_length; cbn [length]; lia) end.
      pose proof (len_hdr (h0 :: ht) true) as H1. lia. }
    destruct (t_body t) as [|b0 bt]; [exact Lh|].
    pose proof (len_mem false (kn tk_body) (json_string (b64_encode (b0 :: bt))) (match t_header t with [] => rest | _ :: _ => mem false (kn tk_header) (json_headers (Some (t_header t))) rest end)). lia. }
  lia.
Qed.

Lemma jt_line_parses t : jt_dom t ->
  parse_value (S (S (length (jt_line t)))) (jt_line t) = Some (Json.JObj (jt_members_value t), []).
Proof.
  intros D. unfold jt_line. rewrite pv_object.
  assert (nonws (jt_members t [125])) as -> by (unfold jt_members; apply mem_true_nonws).
  apply jt_members_parse; [exact D|]. pose proof (len_jt_members t [125]). cbn [length]. lia.
Qed.

(* ---- set_field ---- *)
Lemma jsf_method t s : jt_set_field t (kn tk_method) (JStr s) = Some {| t_method := s; t_url := t_url t; t_body := t_body t; t_header := t_header t |}.
Proof. reflexivity. Qed.
Lemma jsf_url t s : jt_set_field t (kn tk_url) (JStr s) = Some {| t_method := t_method t; t_url := s; t_body := t_body t; t_header := t_header t |}.
Proof. reflexivity. Qed.
Lemma jsf_body t b : forallb Base64.is_byte b = true ->
  jt_set_field t (kn tk_body) (JStr (b64_encode b)) = Some {| t_method := t_method t; t_url := t_url t; t_body := b; t_header := t_header t |}.
Proof.
  intros H. change (jt_set_field t (kn tk_body) (JStr (b64_encode b))) with
    (match b64_decode (b64_encode b) with Some x => Some {| t_method := t_method t; t_url := t_url t; t_body := x; t_header := t_header t |} | None => None end).
  rewrite (b64_roundtrip_lemma b H). reflexivity.
Qed.
Lemma jsf_header t m : NoDup (map fst m) ->
  jt_set_field t (kn tk_header) (Json.JObj (hdr_value m)) = Some {| t_method := t_method t; t_url := t_url t; t_body := t_body t; t_header := m |}.
Proof.
  intros Hn. pose proof (headers_fold m [] Hn) as K. cbn [app] in K. unfold strs_of in K.
  change (jt_set_field t (kn tk_header) (Json.JObj (hdr_value m))) with
    (match jt_header_fold (hdr_value m) with
     | Some h => Some {| t_method := t_method t; t_url := t_url t; t_body := t_body t; t_header := h |}
     | None => None end).
  unfold jt_header_fold. rewrite K. reflexivity.
Qed.

Opaque jt_set_field parse_value parse_members parse_elems json_unescape json_escape b64_encode b64_decode json_headers.
Theorem jt_roundtrip_lemma t : jt_dom t -> jt_decode_line (jt_line t) = Some t.
Proof.
  intros D. unfold jt_decode_line. rewrite (jt_line_parses t D). cbn [skip_ws]. unfold jt_members_value.
  set (F := fun (acc : option target) (kv : list Z * jv) => match acc with Some t0 => jt_set_field t0 (fst kv) (snd kv) | None => None end).
  assert (forall k v tl t0, fold_left F ((k, v) :: tl) (Some t0) = fold_left F tl (jt_set_field t0 k v)) as Fs by reflexivity.
  cbn [app]. rewrite Fs, jsf_method. rewrite Fs, jsf_url. cbn [t_method t_url t_body t_header tgt0].
  pose proof (td_body t D) as Hb. pose proof (td_hdr t D) as [_ Hn].
  destruct t as [m u b h]. cbn [t_method t_url t_body t_header] in *.
  destruct b as [|b0 bt]; destruct h as [|h0 ht]; cbn [app].
  - reflexivity.
  - rewrite Fs, (jsf_header _ _ Hn). reflexivity.
  - rewrite Fs, (jsf_body _ _ Hb). reflexivity.
  - rewrite Fs, (jsf_body _ _ Hb). rewrite Fs, (jsf_header _ _ Hn). reflexivity.
Qed.
Transparent jt_set_field parse_value parse_members parse_elems json_unescape json_escape b64_encode b64_decode json_headers.

(* ---- a stream of targets: one line each, no raw line break inside ---- *)
Lemma jt_line_no10 t : jt_dom t -> no10 (jt_line t).
Proof.
  intros D. unfold jt_line, jt_members. apply no10_cons; [discriminate|].
  pose proof (td_hdr t D) as [Hh _]. pose proof (td_body t D) as Hb.
  assert (no10 [125]) as N125 by (apply no10_cons; [discriminate | intros []]).
  apply mem_no10; [apply key_bytes; reflexivity | apply json_string_no10, (td_method t D)|].
  apply mem_no10; [apply key_bytes; reflexivity | apply json_string_no10, (td_url t D)|].
  assert (no10 (thdr_part (t_header t) [125])) as Nh.
  { unfold thdr_part. destruct (t_header t) as [|h0 ht] eqn:Eh; [exact N125|].
    apply mem_no10; [apply key_bytes; reflexivity | | exact N125].
    unfold json_headers. apply no10_cons; [discriminate|]. apply no10_app; [apply hdr_no10, Hh | exact N125]. }
  unfold tbody_part. destruct (t_body t) as [|b0 bt] eqn:Eb; [exact Nh|].
  apply mem_no10; [apply key_bytes; reflexivity | apply json_string_no10, plain_jbyte, b64_plain, Hb | exact Nh].
Qed.

Definition merged (db : list Z) (dh : hmap) (t : target) : target :=
  {| t_method := t_method t; t_url := t_url t;
     t_body := match t_body t with [] => db | b => b end;
     t_header := hmerge (hmerge [] dh) (t_header t) |}.

Lemma jline_of_encoded t : jt_dom t ->
  jline_of true (jt_line t) = {| j_blank := false; j_terminated := true; j_mean := Targets.JObj t |}.
Proof.
  intros D. unfold jline_of. rewrite (jt_roundtrip_lemma t D). f_equal.
Qed.

Theorem json_targets_stream_lemma db dh ts :
  Forall jt_dom ts -> Forall (fun t => t_method t <> [] /\ t_url t <> []) ts ->
  json_calls db dh (S (length ts)) (jlines_of (flat_map jt_encode ts)) = map (fun t => TOk (merged db dh t)) ts ++ [TNoTargets].
Proof.
  intros HD HN. unfold jlines_of.
  assert (flat_map jt_encode ts = enc_lines (map jt_line ts) ++ []) as ->.
  { rewrite app_nil_r. unfold enc_lines. rewrite map_map, flat_map_concat_map. f_equal.
    apply map_ext_in. intros t Ht. rewrite Forall_forall in HD. apply jt_encode_line, (td_body t (HD t Ht)). }
  rewrite read_lines_complete.
  - cbn [length Nat.eqb negb]. rewrite app_nil_r. clear - HD HN.
    induction ts as [|t tl IH]; [reflexivity|].
    inversion HD as [|? ? D1 D2]; subst. inversion HN as [|? ? [Nm Nu] N2]; subst.
    cbn [map length]. rewrite (jline_of_encoded t D1).
    change (json_calls db dh (S (S (length tl))) ?l) with
      (let '(r, ls') := json_next db dh l in r :: json_calls db dh (S (length tl)) ls').
    cbn [json_next j_terminated j_blank j_mean negb].
    destruct (t_method t) as [|m0 mt] eqn:Em; [congruence|]. destruct (t_url t) as [|u0 ut] eqn:Eu; [congruence|].
    rewrite (IH D2 N2). cbn [app map]. unfold merged. rewrite Em, Eu. reflexivity.
  - apply Forall_forall. intros l Hl. apply in_map_iff in Hl as (t & <- & Ht). rewrite Forall_forall in HD. apply jt_line_no10, HD, Ht.
  - intros [].
Qed.
