From Coq Require Import ZArith List Bool Lia Arith.
From V Require Import Base.Duration Model.Histogram.
Import ListNotations.
Open Scope Z_scope.

(* count vector of the specification *)
Definition cvec (bs lats : list Z) : list Z :=
  map (count_in_bucket bs lats) (seq 0 (length bs)).

Lemma cvec_length bs lats : length (cvec bs lats) = length bs.
Proof. unfold cvec. now rewrite map_length, seq_length. Qed.

(* --- the scan finds the unique bucket ------------------------------------------ *)

Lemma scan_ge bs lat i : (i <= scan bs lat i)%nat.
Proof.
  revert i; induction bs as [|b0 tl IH]; intros i; cbn; [lia|].
  destruct tl as [|b1 tl']; [lia|].
  destruct ((b0 <=? lat) && (lat <? b1)); [lia|].
  specialize (IH (S i)). lia.
Qed.

Lemma scan_shift bs lat i : scan bs lat (S i) = S (scan bs lat i).
Proof.
  revert i; induction bs as [|b0 tl IH]; intros i; cbn; [reflexivity|].
  destruct tl as [|b1 tl']; [reflexivity|].
  destruct ((b0 <=? lat) && (lat <? b1)); [reflexivity|]. apply IH.
Qed.

Lemma scan_lt bs lat : bs <> [] -> (scan bs lat 0 < length bs)%nat.
Proof.
  induction bs as [|b0 tl IH]; intros H; [congruence|].
  cbn [scan]. destruct tl as [|b1 tl']; [cbn; lia|].
  destruct ((b0 <=? lat) && (lat <? b1)); [cbn; lia|].
  rewrite scan_shift. cbn [length] in *.
  assert (b1 :: tl' <> []) as Hne by congruence. specialize (IH Hne). lia.
Qed.

Lemma scan_cons2 b0 b1 tl lat i :
  scan (b0 :: b1 :: tl) lat i =
  if (b0 <=? lat) && (lat <? b1) then i else scan (b1 :: tl) lat (S i).
Proof. reflexivity. Qed.
Lemma si_cons2 b0 b1 tl :
  strictly_increasing (b0 :: b1 :: tl) = (b0 <? b1) && strictly_increasing (b1 :: tl).
Proof. reflexivity. Qed.
Lemma inb_S b tl k lat : in_bucket (b :: tl) (S k) lat = in_bucket tl k lat.
Proof. destruct tl; reflexivity. Qed.
Lemma inb_0 b0 b1 tl lat : in_bucket (b0 :: b1 :: tl) 0 lat = (b0 <=? lat) && (lat <? b1).
Proof. reflexivity. Qed.

(* below the first bound of an increasing list no bucket matches *)
Lemma in_bucket_below bs lat k :
  strictly_increasing bs = true -> bs <> [] -> lat < hd 0 bs -> in_bucket bs k lat = false.
Proof.
  revert k; induction bs as [|b0 tl IH]; intros k Hs Hne Hlt; [congruence|].
  destruct tl as [|b1 tl'].
  - cbn in *. destruct k; [apply Z.leb_gt; exact Hlt | destruct k; reflexivity].
  - rewrite si_cons2 in Hs. apply andb_true_iff in Hs as [Hc Hs]. apply Z.ltb_lt in Hc.
    cbn [hd] in Hlt. destruct k.
    + rewrite inb_0. apply andb_false_iff. left. apply Z.leb_gt. exact Hlt.
    + rewrite inb_S. apply IH; [exact Hs | congruence | cbn [hd]; lia].
Qed.

Lemma in_bucket_scan bs lat i :
  strictly_increasing bs = true -> bs <> [] -> hd 0 bs <= lat -> (i < length bs)%nat ->
  in_bucket bs i lat = Nat.eqb i (scan bs lat 0).
Proof.
  revert i; induction bs as [|b0 tl IH]; intros i Hs Hne Hhd Hi; [congruence|].
  destruct tl as [|b1 tl'].
  - cbn in *. destruct i; [|lia]. cbn. apply Z.leb_le. exact Hhd.
  - rewrite si_cons2 in Hs. apply andb_true_iff in Hs as [Hlt Hs].
    apply Z.ltb_lt in Hlt. cbn [hd] in Hhd.
    rewrite scan_cons2. destruct i as [|k].
    + rewrite inb_0.
      destruct ((b0 <=? lat) && (lat <? b1)) eqn:E; [reflexivity|].
      rewrite scan_shift. reflexivity.
    + rewrite inb_S.
      destruct ((b0 <=? lat) && (lat <? b1)) eqn:E.
      * apply andb_true_iff in E as [_ E]. apply Z.ltb_lt in E.
        cbn [Nat.eqb]. apply in_bucket_below; [exact Hs | congruence | cbn [hd]; exact E].
      * rewrite scan_shift. cbn [Nat.eqb]. apply IH.
        -- exact Hs.
        -- congruence.
        -- cbn [hd]. apply andb_false_iff in E as [E|E].
           ++ apply Z.leb_gt in E. lia.
           ++ apply Z.ltb_ge in E. exact E.
        -- cbn [length] in *. lia.
Qed.

(* --- bumping one counter ------------------------------------------------------- *)

Lemma incr_nth_map_seq (f : nat -> Z) (k n s : nat) :
  (k < n)%nat ->
  incr_nth (map f (seq s n)) k =
  Some (map (fun i => f i + (if Nat.eqb i (s + k) then 1 else 0)) (seq s n)).
Proof.
  revert k s; induction n as [|n IH]; intros k s Hk; [lia|].
  cbn [seq map]. destruct k as [|k].
  - cbn [incr_nth]. rewrite Nat.add_0_r, Nat.eqb_refl. f_equal. f_equal.
    apply map_ext_in. intros i Hi. apply in_seq in Hi.
    destruct (Nat.eqb_spec i s); [lia|]. lia.
  - cbn [incr_nth]. rewrite (IH k (S s)) by lia.
    destruct (Nat.eqb_spec s (s + S k)); [lia|]. rewrite Z.add_0_r.
    f_equal. f_equal. apply map_ext. intros i. now rewrite Nat.add_succ_r.
Qed.

Lemma count_snoc bs lats l i :
  count_in_bucket bs (lats ++ [l]) i =
  count_in_bucket bs lats i + (if in_bucket bs i l then 1 else 0).
Proof.
  unfold count_in_bucket. rewrite filter_app, app_length. cbn [filter].
  destruct (in_bucket bs i l); cbn [length]; lia.
Qed.

Lemma hist_adds_snoc h lats l :
  hist_adds h (lats ++ [l]) =
  match hist_adds h lats with Some h' => hist_add h' l | None => None end.
Proof.
  revert h; induction lats as [|x tl IH]; intros h; cbn [app hist_adds].
  - destruct (hist_add h l); reflexivity.
  - destruct (hist_add h x); [apply IH | reflexivity].
Qed.

Lemma zsum_map_bump (f : nat -> Z) k n s :
  (k < n)%nat ->
  zsum (map (fun i => f i + (if Nat.eqb i (s + k) then 1 else 0)) (seq s n)) =
  zsum (map f (seq s n)) + 1.
Proof.
  revert k s; induction n as [|n IH]; intros k s Hk; [lia|].
  cbn [seq map zsum fold_right]. destruct k as [|k].
  - rewrite Nat.add_0_r, Nat.eqb_refl.
    assert (map (fun i => f i + (if Nat.eqb i s then 1 else 0)) (seq (S s) n) = map f (seq (S s) n)) as ->.
    { apply map_ext_in. intros i Hi. apply in_seq in Hi.
      destruct (Nat.eqb_spec i s); lia. }
    unfold zsum. lia.
  - destruct (Nat.eqb_spec s (s + S k)); [lia|].
    assert (forall i, Nat.eqb i (s + S k) = Nat.eqb i (S s + k)) as E
      by (intros; now rewrite Nat.add_succ_r).
    erewrite map_ext by (intros i; rewrite E; reflexivity).
    fold (zsum (map (fun i => f i + (if Nat.eqb i (S s + k) then 1 else 0)) (seq (S s) n))).
    rewrite IH by lia. unfold zsum. lia.
Qed.

(* --- main invariant ------------------------------------------------------------ *)

Definition hist_inv (bs lats : list Z) (h : hist) : Prop :=
  buckets h = bs /\ sized_counts h = cvec bs lats /\ total h = Z.of_nat (length lats) /\
  zsum (sized_counts h) = total h.

Lemma zsum_repeat0 n : zsum (repeat 0 n) = 0.
Proof. induction n; cbn; [reflexivity|]. unfold zsum in *. cbn. lia. Qed.

Lemma cvec_nil bs : cvec bs [] = repeat 0 (length bs).
Proof.
  unfold cvec, count_in_bucket. cbn [filter length Z.of_nat].
  generalize 0%nat. induction (length bs) as [|n IH]; intros s; cbn; [reflexivity|].
  now rewrite IH.
Qed.

Lemma hist_inv_init bs : hist_inv bs [] (hist_init bs).
Proof.
  unfold hist_inv, hist_init, sized_counts; cbn [buckets counts total length].
  rewrite cvec_nil.
  destruct (Nat.eqb_spec 0 (length bs)) as [E|E].
  - rewrite <- E. cbn. repeat split; reflexivity.
  - rewrite zsum_repeat0. repeat split; reflexivity.
Qed.

Lemma hist_add_inv bs lats h l :
  strictly_increasing bs = true -> bs <> [] -> hd 0 bs <= l ->
  hist_inv bs lats h ->
  exists h', hist_add h l = Some h' /\ hist_inv bs (lats ++ [l]) h'.
Proof.
  intros Hs Hne Hl (Hb & Hc & Ht & Hz).
  unfold hist_add. fold (sized_counts h). rewrite Hc, Hb.
  unfold cvec at 1. rewrite (incr_nth_map_seq _ _ _ 0) by (apply scan_lt; exact Hne).
  eexists; split; [reflexivity|].
  unfold hist_inv, sized_counts; cbn [buckets counts total].
  rewrite map_length, seq_length, Nat.eqb_refl.
  assert (map (fun i => count_in_bucket bs lats i + (if Nat.eqb i (0 + scan bs l 0) then 1 else 0))
              (seq 0 (length bs)) = cvec bs (lats ++ [l])) as E.
  { unfold cvec. apply map_ext_in. intros i Hi. apply in_seq in Hi.
    rewrite count_snoc, in_bucket_scan by (try assumption; lia). reflexivity. }
  repeat split.
  - exact E.
  - rewrite Ht, app_length. cbn [length]. lia.
  - rewrite zsum_map_bump by (apply scan_lt; exact Hne).
    fold (cvec bs lats). rewrite <- Hc, Hz. reflexivity.
Qed.

Lemma hist_partition_lemma bs lats :
  strictly_increasing bs = true -> bs <> [] ->
  Forall (fun l => hd 0 bs <= l) lats ->
  exists h, hist_adds (hist_init bs) lats = Some h /\ hist_inv bs lats h.
Proof.
  intros Hs Hne. induction lats as [|l lats IH] using rev_ind; intros HF.
  - exists (hist_init bs). split; [reflexivity | apply hist_inv_init].
  - apply Forall_app in HF as [HF1 HF2]. inversion HF2 as [|? ? Hl _]; subst.
    destruct (IH HF1) as (h & Hh & Hinv).
    destruct (hist_add_inv bs lats h l Hs Hne Hl Hinv) as (h' & Hadd & Hinv').
    exists h'. split; [|exact Hinv']. rewrite hist_adds_snoc, Hh. exact Hadd.
Qed.

(* every result lies in exactly one bucket *)
Lemma exactly_one_bucket bs lat :
  strictly_increasing bs = true -> bs <> [] -> hd 0 bs <= lat ->
  exists k, (k < length bs)%nat /\
    forall i, (i < length bs)%nat -> (in_bucket bs i lat = true <-> i = k).
Proof.
  intros Hs Hne Hl. exists (scan bs lat 0). split; [apply scan_lt; exact Hne|].
  intros i Hi. rewrite in_bucket_scan by assumption. apply Nat.eqb_eq.
Qed.

(* never panics with a non-empty bucket list, whatever the latencies *)
Lemma hist_add_no_panic h l : buckets h <> [] -> exists h', hist_add h l = Some h' /\ buckets h' = buckets h.
Proof.
  intros Hne. unfold hist_add.
  set (cs := if Nat.eqb _ _ then _ else _).
  assert (length cs = length (buckets h)) as Hlen.
  { subst cs. destruct (Nat.eqb_spec (length (counts h)) (length (buckets h))); [assumption|].
    apply repeat_length. }
  assert (forall (l0 : list Z) k, (k < length l0)%nat -> exists r, incr_nth l0 k = Some r) as Hin.
  { induction l0 as [|x tl IH]; intros k Hk; cbn in Hk; [lia|].
    destruct k; cbn; [eauto|]. destruct (IH k) as (r & ->); [lia|]. eauto. }
  destruct (Hin cs (scan (buckets h) l 0)) as (r & Hr).
  { rewrite Hlen. apply scan_lt. exact Hne. }
  rewrite Hr. eexists; split; reflexivity.
Qed.

Lemma hist_adds_no_panic lats : forall h, buckets h <> [] -> exists h', hist_adds h lats = Some h'.
Proof.
  induction lats as [|l tl IH]; intros h Hne; cbn; [eauto|].
  destruct (hist_add_no_panic h l Hne) as (h' & -> & Hb). apply IH. congruence.
Qed.

(* --- rendering ----------------------------------------------------------------- *)

Lemma zip_idx_same_length bs cs :
  length cs = length bs -> zip_idx bs cs = Some (combine bs cs).
Proof.
  revert cs; induction bs as [|b bt IH]; intros cs H; cbn; [reflexivity|].
  destruct cs as [|c ct]; [cbn in H; lia|]. cbn in H. rewrite IH by lia. reflexivity.
Qed.

Lemma sized_counts_length h : length (sized_counts h) = length (buckets h).
Proof.
  unfold sized_counts. destruct (Nat.eqb_spec (length (counts h)) (length (buckets h))); [assumption|].
  apply repeat_length.
Qed.

Lemma render_json_total h : render_json h = Some (combine (buckets h) (sized_counts h)).
Proof. apply zip_idx_same_length, sized_counts_length. Qed.

(* --- UnmarshalText ------------------------------------------------------------- *)

(* the parsed list is the list of parsed durations, preceded by 0 iff the first is positive *)
Fixpoint parse_all_items (items : list (list Z)) : option (list Z) :=
  match items with
  | [] => Some []
  | v :: tl => match parse_duration (trim_space v), parse_all_items tl with
               | Some (d, _), Some r => Some (d :: r)
               | _, _ => None
               end
  end.

Lemma unmarshal_items_spec items : forall first acc,
  match unmarshal_items items first acc, parse_all_items items with
  | Some (r, _), Some ds =>
      r = acc ++ (match ds with
                  | d :: _ => if first && (0 <? d) then [0] else []
                  | [] => [] end) ++ ds
  | None, None => True
  | _, _ => False
  end.
Proof.
  induction items as [|v tl IH]; intros first acc; cbn [unmarshal_items parse_all_items].
  - now rewrite app_nil_r.
  - destruct (parse_duration (trim_space v)) as [[d ix]|]; [|exact I].
    specialize (IH false ((if first && (0 <? d) then acc ++ [0] else acc) ++ [d])).
    destruct (unmarshal_items tl false _) as [[r ix']|], (parse_all_items tl) as [ds|];
      try exact IH; try contradiction.
    subst r. cbn [andb].
    assert (match ds with [] => [] | d0 :: _ => @nil Z end = []) as -> by (destruct ds; reflexivity).
    destruct (first && (0 <? d)); cbn [app]; rewrite <- ?app_assoc; reflexivity.
Qed.

Lemma unmarshal_first_nonpositive items r ix :
  unmarshal_items items true [] = Some (r, ix) -> r <> [] -> hd 0 r <= 0.
Proof.
  intros H Hne. pose proof (unmarshal_items_spec items true []) as S. rewrite H in S.
  destruct (parse_all_items items) as [ds|]; [|contradiction].
  cbn [app] in S. subst r. destruct ds as [|d ds]; [cbn in Hne; congruence|].
  cbn [andb]. destruct (0 <? d) eqn:E; cbn; [lia|]. apply Z.ltb_ge in E. exact E.
Qed.
