From Coq Require Import ZArith List Bool Lia.
From V Require Import Base.Duration Base.Str.
From V Require Import Model.Json.
Import ListNotations.
Open Scope Z_scope.

Definition jbyte (c : Z) : Prop := 0 <= c < 256.

Lemma hex_small : forall c, 0 <= c < 128 -> hex4 48 48 (hexd (c / 16)) (hexd (c mod 16)) = Some c.
Proof.
  assert (forallb (fun c => match hex4 48 48 (hexd (c / 16)) (hexd (c mod 16)) with Some v => v =? c | None => false end)
            (map Z.of_nat (seq 0 128)) = true) as K by (vm_compute; reflexivity).
  intros c H. rewrite forallb_forall in K. specialize (K c).
  assert (In c (map Z.of_nat (seq 0 128))) as I.
  { apply in_map_iff. exists (Z.to_nat c). split; [lia | apply in_seq; lia]. }
  specialize (K I). destruct (hex4 48 48 (hexd (c / 16)) (hexd (c mod 16))) as [v|]; [|discriminate].
  apply Z.eqb_eq in K. congruence.
Qed.

(* one step of the decoder on a plain byte *)
Lemma unescape_plain f c tl acc : c <> 34 -> c <> 92 ->
  json_unescape (S f) (c :: tl) acc = json_unescape f tl (c :: acc).
Proof.
  intros H1 H2. cbn [json_unescape].
  assert (c =? 34 = false) as -> by (apply Z.eqb_neq; exact H1).
  assert (c =? 92 = false) as -> by (apply Z.eqb_neq; exact H2). reflexivity.
Qed.

Lemma unescape_simple f e x tl acc :
  (if e =? 117 then None else
   if e =? 110 then Some 10 else if e =? 116 then Some 9 else if e =? 114 then Some 13
   else if e =? 98 then Some 8 else if e =? 102 then Some 12
   else if (e =? 34) || (e =? 92) || (e =? 47) then Some e else None) = Some x ->
  json_unescape (S f) (92 :: e :: tl) acc = json_unescape f tl (x :: acc).
Proof.
  intros H. cbn [json_unescape]. change (92 =? 34) with false. change (92 =? 92) with true. cbn iota.
  destruct (e =? 117); [discriminate|]. rewrite H. reflexivity.
Qed.

Lemma unescape_u00 f c tl acc : 0 <= c < 128 ->
  json_unescape (S f) (92 :: 117 :: 48 :: 48 :: hexd (c / 16) :: hexd (c mod 16) :: tl) acc = json_unescape f tl (c :: acc).
Proof.
  intros H. cbn [json_unescape]. change (92 =? 34) with false. change (92 =? 92) with true. change (117 =? 117) with true. cbn iota.
  rewrite (hex_small c H).
  assert ((55296 <=? c) && (c <? 56320) = false) as -> by (apply andb_false_iff; left; apply Z.leb_gt; lia).
  assert ((56320 <=? c) && (c <? 57344) = false) as -> by (apply andb_false_iff; left; apply Z.leb_gt; lia).
  unfold utf8_of. assert (c <? 128 = true) as -> by (apply Z.ltb_lt; lia). reflexivity.
Qed.

Lemma unescape_u202 f d tl acc : d = 168 \/ d = 169 ->
  json_unescape (S f) (92 :: 117 :: 50 :: 48 :: 50 :: hexd (d - 160) :: tl) acc = json_unescape f tl (d :: 128 :: 226 :: acc).
Proof. intros [-> | ->]; reflexivity. Qed.

(* the round trip: decoding the escaped text gives the original bytes back, for every byte string *)
Lemma json_string_roundtrip_len n : forall s rest acc fuel, (length s <= n)%nat -> Forall jbyte s ->
  (length (json_escape s) < fuel)%nat ->
  json_unescape fuel (json_escape s ++ 34 :: rest) acc = Some (rev acc ++ s, rest).
Proof.
  induction n as [|n IH]; intros s rest acc fuel Hl Hb Hf.
  - destruct s; [|cbn in Hl; lia]. cbn [json_escape app]. destruct fuel as [|f]; [cbn in Hf; lia|].
    cbn [json_unescape]. rewrite Z.eqb_refl. unfold rev'. rewrite <- rev_alt, app_nil_r. reflexivity.
  - destruct s as [|c tl].
    { cbn [json_escape app]. destruct fuel as [|f]; [cbn in Hf; lia|]. cbn [json_unescape]. rewrite Z.eqb_refl.
      unfold rev'. rewrite <- rev_alt, app_nil_r. reflexivity. }
    inversion Hb as [|? ? Hc Ht]; subst. cbn [length] in Hl.
    assert (forall x, rev (x :: acc) ++ tl = rev acc ++ x :: tl) as Rv by (intros; cbn [rev]; rewrite <- app_assoc; reflexivity).
    cbn [json_escape] in *. destruct (c <? 128) eqn:E128.
    + apply Z.ltb_lt in E128.
      destruct (c =? 9) eqn:E9; [apply Z.eqb_eq in E9; subst c|].
      { cbn [app length] in *. destruct fuel as [|f]; [lia|]. rewrite (unescape_simple f 116 9) by reflexivity.
        rewrite IH by (try assumption; lia). rewrite Rv. reflexivity. }
      destruct (c =? 13) eqn:E13; [apply Z.eqb_eq in E13; subst c|].
      { cbn [app length] in *. destruct fuel as [|f]; [lia|]. rewrite (unescape_simple f 114 13) by reflexivity.
        rewrite IH by (try assumption; lia). rewrite Rv. reflexivity. }
      destruct (c =? 10) eqn:E10; [apply Z.eqb_eq in E10; subst c|].
      { cbn [app length] in *. destruct fuel as [|f]; [lia|]. rewrite (unescape_simple f 110 10) by reflexivity.
        rewrite IH by (try assumption; lia). rewrite Rv. reflexivity. }
      destruct (c =? 92) eqn:E92; [apply Z.eqb_eq in E92; subst c|].
      { cbn [app length] in *. destruct fuel as [|f]; [lia|]. rewrite (unescape_simple f 92 92) by reflexivity.
        rewrite IH by (try assumption; lia). rewrite Rv. reflexivity. }
      destruct (c =? 34) eqn:E34; [apply Z.eqb_eq in E34; subst c|].
      { cbn [app length] in *. destruct fuel as [|f]; [lia|]. rewrite (unescape_simple f 34 34) by reflexivity.
        rewrite IH by (try assumption; lia). rewrite Rv. reflexivity. }
      apply Z.eqb_neq in E92, E34.
      destruct ((c <? 32) || (c =? 38) || (c =? 60) || (c =? 62)).
      * cbn [app length] in *. destruct fuel as [|f]; [lia|]. rewrite unescape_u00 by (unfold jbyte in Hc; lia).
        rewrite IH by (try assumption; lia). rewrite Rv. reflexivity.
      * cbn [app length] in *. destruct fuel as [|f]; [lia|]. rewrite unescape_plain by assumption.
        rewrite IH by (try assumption; lia). rewrite Rv. reflexivity.
    + apply Z.ltb_ge in E128.
      assert (c <> 34 /\ c <> 92) as [N34 N92] by lia.
      assert (forall fuel', (length (c :: json_escape tl) < fuel')%nat ->
                json_unescape fuel' ((c :: json_escape tl) ++ 34 :: rest) acc = Some (rev acc ++ c :: tl, rest)) as Plain.
      { intros fuel' Hf'. cbn [app length] in *. destruct fuel' as [|f]; [lia|]. rewrite unescape_plain by assumption.
        rewrite IH by (try assumption; lia). rewrite Rv. reflexivity. }
      destruct tl as [|b [|d tl3]]; try (apply Plain; exact Hf).
      destruct ((c =? 226) && (b =? 128) && ((d =? 168) || (d =? 169))) eqn:E; [|apply Plain; exact Hf].
      apply andb_true_iff in E as [E Ed]. apply andb_true_iff in E as [Ec Eb].
      apply Z.eqb_eq in Ec, Eb. subst c b. apply orb_true_iff in Ed.
      assert (d = 168 \/ d = 169) as Dd by (destruct Ed as [X|X]; apply Z.eqb_eq in X; [left | right]; exact X).
      cbn [app length] in *. destruct fuel as [|f]; [lia|]. rewrite unescape_u202 by exact Dd.
      inversion Ht as [|? ? _ Ht2]; subst. inversion Ht2 as [|? ? _ Ht3]; subst.
      rewrite IH by (try assumption; cbn [length] in Hl; lia).
      cbn [rev]. rewrite <- !app_assoc. reflexivity.
Qed.

Theorem json_string_roundtrip_lemma s rest : Forall jbyte s ->
  json_unescape (S (length (json_escape s))) (json_escape s ++ 34 :: rest) [] = Some (s, rest).
Proof. intros H. apply (json_string_roundtrip_len (length s) s rest [] _ (le_n _) H). lia. Qed.

Ltac Zify.zify_post_hook ::= Z.div_mod_to_equations.

(* ---- calendar: a finite sweep over the days of 1970..2199 ---- *)
Definition day_ok (days : Z) : bool :=
  let '(y, m, d) := civil_of_days days in
  (days_of_civil y m d =? days) && (1970 <=? y) && (y <? 2200) && (1 <=? m) && (m <=? 12) && (1 <=? d) && (d <=? 31).

Fixpoint range_ok (f : Z -> bool) (lo : Z) (k : nat) : bool :=
  match k with O => f lo | S k' => range_ok f lo k' && range_ok f (lo + 2 ^ Z.of_nat k') k' end.

Lemma range_ok_all f k : forall lo, range_ok f lo k = true -> forall x, lo <= x < lo + 2 ^ Z.of_nat k -> f x = true.
Proof.
  induction k as [|k IH]; intros lo H x Hx; cbn [range_ok] in H.
  - change (2 ^ Z.of_nat 0) with 1 in Hx. assert (x = lo) by lia. subst. exact H.
  - apply andb_true_iff in H as [H1 H2]. rewrite Nat2Z.inj_succ, Z.pow_succ_r in Hx by lia.
    destruct (Z_lt_le_dec x (lo + 2 ^ Z.of_nat k)) as [L|L]; [apply (IH lo H1); lia | apply (IH _ H2); lia].
Qed.

Lemma days_sweep : range_ok (fun x => (84000 <=? x) || day_ok x) 0 17 = true.
Proof. vm_compute. reflexivity. Qed.

Lemma day_ok_all days : 0 <= days < 84000 -> day_ok days = true.
Proof.
  intros H. pose proof (range_ok_all _ 17 0 days_sweep days) as K.
  assert (2 ^ Z.of_nat 17 = 131072) as E by reflexivity. rewrite E in K. specialize (K ltac:(lia)).
  apply orb_true_iff in K as [K|K]; [apply Z.leb_le in K; lia | exact K].
Qed.

(* ---- two- and four-digit fields ---- *)
Lemma digit_ok d : 0 <= d < 10 -> is_digit (48 + d) = true /\ 48 + d - 48 = d.
Proof. intros H. unfold is_digit. split; [apply andb_true_iff; split; apply Z.leb_le; lia | lia]. Qed.

Lemma num2 x : 0 <= x < 100 -> num_of (pad 2 x []) = Some x.
Proof.
  intros H. cbn [pad]. unfold num_of. cbn [digits_val].
  destruct (digit_ok (x / 10 mod 10) ltac:(lia)) as [-> ->]. destruct (digit_ok (x mod 10) ltac:(lia)) as [-> ->].
  f_equal. lia.
Qed.

Lemma num4 x : 0 <= x < 10000 -> num_of (pad 4 x []) = Some x.
Proof.
  intros H. cbn [pad]. unfold num_of. cbn [digits_val].
  destruct (digit_ok (x / 10 / 10 / 10 mod 10) ltac:(lia)) as [-> ->].
  destruct (digit_ok (x / 10 / 10 mod 10) ltac:(lia)) as [-> ->].
  destruct (digit_ok (x / 10 mod 10) ltac:(lia)) as [-> ->]. destruct (digit_ok (x mod 10) ltac:(lia)) as [-> ->].
  f_equal. lia.
Qed.

(* ---- fraction ---- *)
Lemma trim_zeros_eq r : trim_zeros r = match r with c :: tl => if c =? 48 then trim_zeros tl else r | [] => [] end.
Proof.
  destruct r as [|c tl]; [reflexivity|]. cbn [trim_zeros]. destruct c as [|p|p]; try reflexivity.
  do 6 (try (destruct p as [p|p|]; try reflexivity)).
Qed.

(* a digit string = its part without trailing zeros, followed by zeros *)
Lemma trim_split l : exists p k, l = p ++ repeat 48 k /\ rev (trim_zeros (rev l)) = p.
Proof.
  induction l as [|c tl IH] using rev_ind.
  - exists [], 0%nat. split; reflexivity.
  - destruct IH as (p & k & E & T). rewrite rev_app_distr. cbn [rev app]. rewrite trim_zeros_eq.
    destruct (c =? 48) eqn:E48.
    + apply Z.eqb_eq in E48. subst c. exists p, (S k). split; [|exact T].
      rewrite E, <- app_assoc. f_equal. clear. induction k as [|k IHk]; [reflexivity|]. cbn [repeat app]. rewrite IHk. reflexivity.
    + exists (tl ++ [c]), 0%nat. cbn [repeat]. rewrite app_nil_r. split; [reflexivity|].
      cbn [rev]. rewrite rev_involutive. reflexivity.
Qed.

Lemma firstn_repeat (x : Z) k : forall m, firstn k (repeat x (m + k)) = repeat x k.
Proof.
  induction k as [|k IH]; intros m; [reflexivity|]. replace (m + S k)%nat with (S (m + k)) by lia.
  cbn [repeat firstn]. f_equal. apply IH.
Qed.

Lemma firstn_pad_zeros p k : firstn (length p + k) (p ++ repeat 48 (length p + k)) = p ++ repeat 48 k.
Proof. rewrite firstn_app_2. f_equal. apply firstn_repeat. Qed.

Lemma take_digits_all ds : forall acc c rest, forallb is_digit ds = true -> is_digit c = false ->
  take_digits (ds ++ c :: rest) acc = (rev acc ++ ds, c :: rest).
Proof.
  induction ds as [|d tl IH]; intros acc c rest Hd Hc; cbn [app take_digits].
  - rewrite Hc, app_nil_r. reflexivity.
  - cbn [forallb] in Hd. apply andb_true_iff in Hd as [H1 H2]. rewrite H1, IH by assumption. cbn [rev]. rewrite <- app_assoc. reflexivity.
Qed.

Lemma pad_digits n : forall x acc, forallb is_digit acc = true -> forallb is_digit (pad n x acc) = true.
Proof.
  induction n as [|n IH]; intros x acc H; cbn [pad]; [exact H|]. apply IH. cbn [forallb].
  destruct (digit_ok (x mod 10) ltac:(lia)) as [-> _]. exact H.
Qed.

Lemma pad_length n : forall x acc, length (pad n x acc) = (n + length acc)%nat.
Proof. induction n as [|n IH]; intros x acc; cbn [pad]; [reflexivity|]. rewrite IH. cbn [length]. lia. Qed.

Lemma pad_val n : forall x acc v, 0 <= x < 10 ^ Z.of_nat n ->
  digits_val (pad n x acc) v = digits_val acc (v * 10 ^ Z.of_nat n + x).
Proof.
  induction n as [|n IH]; intros x acc v H.
  - cbn [pad]. change (10 ^ Z.of_nat 0) with 1 in *. f_equal. lia.
  - cbn [pad]. rewrite Nat2Z.inj_succ, Z.pow_succ_r in * by lia. set (P := 10 ^ Z.of_nat n) in *.
    assert (0 < P) by (apply Z.pow_pos_nonneg; lia).
    rewrite IH by lia. cbn [digits_val]. destruct (digit_ok (x mod 10) ltac:(lia)) as [-> ->]. f_equal. lia.
Qed.

(* the fraction written for ns, followed by a non-digit, reads back as ns *)
Lemma frac_roundtrip ns c rest : 0 <= ns < 1000000000 -> is_digit c = false -> c <> 46 ->
  (let '(v, r) := match frac_digits ns ++ c :: rest with
                  | 46 :: tl => let '(ds, r) := take_digits tl [] in
                                (match digits_val (firstn 9 (ds ++ repeat 48 9)) 0 with Some v => v | None => 0 end, r)
                  | other => (0, other)
                  end in (v, r)) = (ns, c :: rest).
Proof.
  intros H Hc H46. unfold frac_digits. destruct (ns =? 0) eqn:E0.
  - apply Z.eqb_eq in E0. subst. cbn [app].
    destruct c as [|p|p]; try reflexivity. do 6 (try (destruct p as [p|p|]; try reflexivity)). congruence.
  - cbn [app]. destruct (trim_split (pad 9 ns [])) as (p & k & E & T). rewrite T.
    assert (forallb is_digit (pad 9 ns []) = true) as Hd by (apply pad_digits; reflexivity).
    assert (forallb is_digit p = true) as Hp by (rewrite E, forallb_app in Hd; apply andb_true_iff in Hd; tauto).
    rewrite (take_digits_all p [] c rest Hp Hc). cbn [rev app].
    pose proof (pad_length 9 ns []) as L. rewrite E, app_length, repeat_length in L. cbn [length] in L.
    replace 9%nat with (length p + k)%nat by lia. rewrite firstn_pad_zeros, <- E.
    rewrite (pad_val 9 ns [] 0) by (change (10 ^ Z.of_nat 9) with 1000000000; lia). cbn [digits_val].
    replace (0 * 10 ^ Z.of_nat 9 + ns) with ns by lia. reflexivity.
Qed.

Lemma parse_frac_roundtrip ns c rest : 0 <= ns < 1000000000 -> is_digit c = false -> c <> 46 ->
  parse_frac (frac_digits ns ++ c :: rest) = (ns, c :: rest).
Proof.
  intros H Hc H46. unfold parse_frac, frac_digits. destruct (ns =? 0) eqn:E0.
  - apply Z.eqb_eq in E0. subst. cbn [app]. assert (c =? 46 = false) as -> by (apply Z.eqb_neq; exact H46). reflexivity.
  - cbn [app]. rewrite Z.eqb_refl. destruct (trim_split (pad 9 ns [])) as (p & k & E & T). rewrite T.
    assert (forallb is_digit (pad 9 ns []) = true) as Hd by (apply pad_digits; reflexivity).
    assert (forallb is_digit p = true) as Hp by (rewrite E, forallb_app in Hd; apply andb_true_iff in Hd; tauto).
    rewrite (take_digits_all p [] c rest Hp Hc). cbn [rev app].
    pose proof (pad_length 9 ns []) as L. rewrite E, app_length, repeat_length in L. cbn [length] in L.
    replace 9%nat with (length p + k)%nat by lia. rewrite firstn_pad_zeros, <- E.
    rewrite (pad_val 9 ns [] 0) by (change (10 ^ Z.of_nat 9) with 1000000000; lia). cbn [digits_val].
    replace (0 * 10 ^ Z.of_nat 9 + ns) with ns by lia. reflexivity.
Qed.

(* ---- zone ---- *)
Definition zone_text (zone : Z) : list Z :=
  if zone =? 0 then [90]
  else (if zone <? 0 then [45] else [43]) ++ pad 2 (Z.abs zone / 3600) [] ++ [58] ++ pad 2 (Z.abs zone / 60 mod 60) [].

Definition zone_ok (zone : Z) : Prop := zone mod 60 = 0 /\ -86400 < zone < 86400.

Lemma parse_zone_roundtrip zone : zone_ok zone -> parse_zone (zone_text zone) = Some zone.
Proof.
  intros [Hm Hr]. unfold zone_text. destruct (zone =? 0) eqn:E0; [apply Z.eqb_eq in E0; subst; reflexivity|].
  apply Z.eqb_neq in E0.
  assert (0 <= Z.abs zone / 3600 < 100) as Hh by lia. assert (0 <= Z.abs zone / 60 mod 60 < 100) as Hmm by lia.
  pose proof (num2 _ Hh) as N1. pose proof (num2 _ Hmm) as N2. cbn [pad] in N1, N2.
  destruct (zone <? 0) eqn:En; cbn [pad app parse_zone]; change (58 =? 58) with true; cbv iota; rewrite N1, N2.
  - apply Z.ltb_lt in En. change (45 =? 43) with false. change (45 =? 45) with true. cbv iota. f_equal. lia.
  - apply Z.ltb_ge in En. change (43 =? 43) with true. cbv iota. f_equal. lia.
Qed.

Lemma zone_text_head zone : exists c rest, zone_text zone = c :: rest /\ is_digit c = false /\ c <> 46.
Proof.
  unfold zone_text. destruct (zone =? 0); [exists 90, []; repeat split; discriminate|].
  destruct (zone <? 0); eexists; eexists; cbn [app]; repeat split; discriminate.
Qed.

(* ---- the timestamp ---- *)
Theorem rfc3339_roundtrip_lemma ts zone : zone_ok zone ->
  0 <= ts + zone * 1000000000 < 84000 * 86400 * 1000000000 ->
  parse_rfc3339 (rfc3339 ts zone) = Some (ts, zone).
Proof.
  intros Hz Hl. unfold rfc3339. set (local := ts + zone * 1000000000) in *.
  set (secs := local / 1000000000). set (ns := local mod 1000000000).
  set (days := secs / 86400). set (sod := secs mod 86400).
  assert (0 <= days < 84000) as Hd by (unfold days, secs; lia).
  assert (0 <= sod < 86400) as Hs by (unfold sod; lia).
  assert (0 <= ns < 1000000000) as Hn by (unfold ns; lia).
  pose proof (day_ok_all days Hd) as K. unfold day_ok in K.
  destruct (civil_of_days days) as [[y m] d]. repeat (apply andb_true_iff in K as [K ?]).
  apply Z.eqb_eq in K. repeat match goal with H : (_ <=? _) = true |- _ => apply Z.leb_le in H | H : (_ <? _) = true |- _ => apply Z.ltb_lt in H end.
  fold (zone_text zone). destruct (zone_text_head zone) as (zc & zrest & Ez & Zd & Z46).
  assert (0 <= sod / 3600 < 100) as R1 by lia. assert (0 <= sod / 60 mod 60 < 100) as R2 by lia. assert (0 <= sod mod 60 < 100) as R3 by lia.
  pose proof (num4 y ltac:(lia)) as Ny. pose proof (num2 m ltac:(lia)) as Nm. pose proof (num2 d ltac:(lia)) as Nd.
  pose proof (num2 _ R1) as Nh. pose proof (num2 _ R2) as Nmi. pose proof (num2 _ R3) as Nse.
  cbn [pad] in Ny, Nm, Nd, Nh, Nmi, Nse. cbn [pad app]. unfold parse_rfc3339.
  change (45 =? 45) with true. change (58 =? 58) with true. change (84 =? 84) with true. cbn [andb orb negb].
  rewrite Ny, Nm, Nd, Nh, Nmi, Nse. rewrite Ez, parse_frac_roundtrip by assumption. rewrite <- Ez, parse_zone_roundtrip by exact Hz.
  assert ((1 <=? m) && (m <=? 12) && (1 <=? d) && (d <=? 31) && (sod / 3600 <? 24) && (sod / 60 mod 60 <? 60) && (sod mod 60 <? 60) = true) as ->.
  { repeat (apply andb_true_iff; split); try (apply Z.leb_le; lia); apply Z.ltb_lt; lia. }
  f_equal. f_equal. rewrite K. unfold days, sod, ns, secs in *. lia.
Qed.

(* ================= values ================= *)
From V Require Import Base.Base64 Model.Flags Model.Csv Model.ResultCodec Proofs.DecimalProofs Proofs.Base64Proofs.

Lemma json_unescape_string fuel s rest : Forall jbyte s -> (length (json_escape s) < fuel)%nat ->
  json_unescape fuel (json_escape s ++ 34 :: rest) [] = Some (s, rest).
Proof. intros H Hf. apply (json_string_roundtrip_len (length s) s rest [] fuel (le_n _) H Hf). Qed.

Lemma pv_string f s rest : Forall jbyte s -> parse_value (S f) (json_string s ++ rest) = Some (JStr s, rest).
Proof.
  intros H. unfold json_string. cbn [app parse_value skip_ws]. change (34 =? 32) with false. change (34 =? 9) with false.
  change (34 =? 10) with false. change (34 =? 13) with false. cbn [orb]. rewrite Z.eqb_refl.
  rewrite <- app_assoc. cbn [app]. rewrite json_unescape_string; [reflexivity | exact H | rewrite app_length; cbn; lia].
Qed.

Lemma pv_null f rest : parse_value (S f) (110 :: 117 :: 108 :: 108 :: rest) = Some (JNull, rest).
Proof. reflexivity. Qed.

(* numbers *)
Definition numch (c : Z) : bool := is_digit c || (c =? 45) || (c =? 43) || (c =? 46) || (c =? 101) || (c =? 69).

Lemma take_num_all ds : forall acc c rest, forallb numch ds = true -> numch c = false ->
  take_num (ds ++ c :: rest) acc = (rev acc ++ ds, c :: rest).
Proof.
  induction ds as [|d tl IH]; intros acc c rest Hd Hc; cbn [app take_num].
  - fold (numch c). rewrite Hc, app_nil_r. reflexivity.
  - cbn [forallb] in Hd. apply andb_true_iff in Hd as [H1 H2]. fold (numch d). rewrite H1, IH by assumption.
    cbn [rev]. rewrite <- app_assoc. reflexivity.
Qed.

Lemma digits_of_chars fuel : forall m acc, 0 <= m -> forallb numch acc = true -> forallb numch (digits_of fuel m acc) = true.
Proof.
  induction fuel as [|f IH]; intros m acc Hm Ha; cbn [digits_of]; [exact Ha|].
  destruct (m <? 10) eqn:E.
  - apply Z.ltb_lt in E. cbn [forallb]. unfold numch at 1. destruct (digit_ok m ltac:(lia)) as [-> _]. exact Ha.
  - apply Z.ltb_ge in E. apply IH; [lia|]. cbn [forallb]. unfold numch at 1. destruct (digit_ok (m mod 10) ltac:(lia)) as [-> _]. exact Ha.
Qed.

Lemma itoa_numch n : forallb numch (itoa n) = true.
Proof.
  unfold itoa. destruct (n <? 0) eqn:E.
  - apply Z.ltb_lt in E. cbn [forallb]. apply digits_of_chars; [lia | reflexivity].
  - apply Z.ltb_ge in E. apply digits_of_chars; [lia | reflexivity].
Qed.

Lemma digits_of_head fuel : forall m acc, 0 <= m -> exists c tl, digits_of (S fuel) m acc = c :: tl /\ is_digit c = true.
Proof.
  induction fuel as [|f IH]; intros m acc Hm.
  - cbn [digits_of]. destruct (m <? 10) eqn:E.
    + apply Z.ltb_lt in E. eexists; eexists; split; [reflexivity | apply (digit_ok m); lia].
    + eexists; eexists; split; [reflexivity | apply (digit_ok (m mod 10)); lia].
  - remember (S f) as f1. cbn [digits_of]. destruct (m <? 10) eqn:E.
    + apply Z.ltb_lt in E. eexists; eexists; split; [reflexivity | apply (digit_ok m); lia].
    + subst f1. apply IH. lia.
Qed.

Lemma itoa_head n : exists c tl, itoa n = c :: tl /\ (is_digit c = true \/ c = 45).
Proof.
  unfold itoa. destruct (n <? 0) eqn:E.
  - eexists; eexists; split; [reflexivity | right; reflexivity].
  - apply Z.ltb_ge in E. destruct (digits_of_head 79 n [] E) as (c & tl & H1 & H2). exists c, tl. split; [exact H1 | left; exact H2].
Qed.

Lemma pv_num f n c rest : numch c = false ->
  parse_value (S f) (itoa n ++ c :: rest) = Some (JNum (itoa n), c :: rest).
Proof.
  intros Hc. destruct (itoa_head n) as (c0 & tl & E & Hd). pose proof (itoa_numch n) as Hn.
  assert (skip_ws (itoa n ++ c :: rest) = itoa n ++ c :: rest) as Sk.
  { rewrite E. cbn [app skip_ws]. destruct Hd as [Hd| ->]; [|reflexivity].
    unfold is_digit in Hd. apply andb_true_iff in Hd as [D1 D2]. apply Z.leb_le in D1, D2.
    assert (c0 =? 32 = false) as -> by (apply Z.eqb_neq; lia). assert (c0 =? 9 = false) as -> by (apply Z.eqb_neq; lia).
    assert (c0 =? 10 = false) as -> by (apply Z.eqb_neq; lia). assert (c0 =? 13 = false) as -> by (apply Z.eqb_neq; lia). reflexivity. }
  cbn [parse_value]. rewrite Sk. rewrite E at 1. cbn [app].
  assert (c0 =? 34 = false /\ c0 =? 123 = false /\ c0 =? 91 = false /\ c0 =? 110 = false /\ c0 =? 116 = false /\ c0 =? 102 = false) as (A1 & A2 & A3 & A4 & A5 & A6).
  { destruct Hd as [Hd| ->]; [|repeat split; reflexivity]. unfold is_digit in Hd. apply andb_true_iff in Hd as [D1 D2]. apply Z.leb_le in D1, D2.
    repeat split; apply Z.eqb_neq; lia. }
  rewrite A1, A2, A3, A4, A5, A6.
  assert (is_digit c0 || (c0 =? 45) = true) as -> by (destruct Hd as [->| ->]; reflexivity).
  change (c0 :: tl ++ c :: rest) with ((c0 :: tl) ++ c :: rest). rewrite <- E.
  rewrite (take_num_all (itoa n) [] c rest Hn Hc). reflexivity.
Qed.

(* ================= arrays of strings, objects ================= *)
Definition nonws (r : list Z) : Prop := skip_ws r = r.

Lemma nonws_head c r : c <> 32 -> c <> 9 -> c <> 10 -> c <> 13 -> nonws (c :: r).
Proof.
  intros. unfold nonws. cbn [skip_ws].
  assert (c =? 32 = false) as -> by (apply Z.eqb_neq; assumption). assert (c =? 9 = false) as -> by (apply Z.eqb_neq; assumption).
  assert (c =? 10 = false) as -> by (apply Z.eqb_neq; assumption). assert (c =? 13 = false) as -> by (apply Z.eqb_neq; assumption). reflexivity.
Qed.

Lemma json_string_head s rest : exists tl, json_string s ++ rest = 34 :: tl.
Proof. unfold json_string. eexists. reflexivity. Qed.

Lemma pe_step_first f t acc : parse_elems (S f) (34 :: t) acc true =
  match parse_value f (34 :: t) with Some (v, r) => parse_elems f (skip_ws r) (v :: acc) false | None => None end.
Proof. reflexivity. Qed.
Lemma pe_step_next f t acc : parse_elems (S f) (44 :: 34 :: t) acc false =
  match parse_value f (34 :: t) with Some (v, r) => parse_elems f (skip_ws r) (v :: acc) false | None => None end.
Proof. reflexivity. Qed.

Lemma pe_strings vs : forall f acc first r, Forall (Forall jbyte) vs -> (length vs < f)%nat ->
  parse_elems f (vals_text vs first ++ 93 :: r) acc first = Some (JArr (rev acc ++ map JStr vs), r).
Proof.
  induction vs as [|x tl IH]; intros f acc first r Hb Hf.
  - destruct f as [|f]; [cbn in Hf; lia|]. cbn [vals_text app parse_elems]. unfold rev'. rewrite <- rev_alt, app_nil_r. reflexivity.
  - destruct f as [|f]; [cbn in Hf; lia|]. inversion Hb as [|? ? Hx Ht]; subst. cbn [vals_text]. rewrite <- !app_assoc.
    assert (parse_value f (json_string x ++ vals_text tl false ++ 93 :: r) = Some (JStr x, vals_text tl false ++ 93 :: r)) as Pv.
    { destruct f as [|f']; [cbn in Hf; lia|]. apply pv_string, Hx. }
    assert (nonws (vals_text tl false ++ 93 :: r)) as Nw.
    { destruct tl as [|y tl']; cbn [vals_text app]; apply nonws_head; discriminate. }
    destruct (json_string_head x (vals_text tl false ++ 93 :: r)) as (t0 & E0). rewrite E0 in *.
    destruct first; cbn [app]; [rewrite pe_step_first | rewrite pe_step_next]; rewrite Pv, Nw;
      rewrite IH by (try assumption; cbn [length] in Hf; lia); cbn [rev map]; rewrite <- app_assoc; reflexivity.
Qed.

Lemma pv_array f vs r : Forall (Forall jbyte) vs -> (length vs + 1 < f)%nat ->
  parse_value f (91 :: vals_text vs true ++ 93 :: r) = Some (JArr (map JStr vs), r).
Proof.
  intros Hb Hf. destruct f as [|f]; [lia|]. cbn [parse_value skip_ws]. change (91 =? 32) with false. change (91 =? 9) with false.
  change (91 =? 10) with false. change (91 =? 13) with false. cbn [orb]. change (91 =? 34) with false. change (91 =? 123) with false.
  change (91 =? 91) with true. cbv iota.
  assert (nonws (vals_text vs true ++ 93 :: r)) as Nw.
  { destruct vs as [|y tl']; cbn [vals_text app]; [apply nonws_head; discriminate|].
    destruct (json_string_head y (vals_text tl' false ++ 93 :: r)) as (t0 & E0). rewrite <- app_assoc, E0. apply nonws_head; discriminate. }
  rewrite Nw. rewrite pe_strings by (try assumption; lia). reflexivity.
Qed.

(* one member of an object *)
Lemma pm_member f key v vtext r acc (first : bool) : Forall jbyte key ->
  parse_value f (vtext ++ r) = Some (v, r) -> nonws r ->
  parse_members (S f) ((if first then [] else [44]) ++ json_string key ++ 58 :: vtext ++ r) acc first =
  parse_members f r ((key, v) :: acc) false.
Proof.
  intros Hk Pv Nw.
  assert (json_string key ++ 58 :: vtext ++ r = 34 :: json_escape key ++ 34 :: 58 :: vtext ++ r) as Es
    by (unfold json_string; cbn [app]; rewrite <- app_assoc; reflexivity).
  rewrite Es.
  assert (json_unescape (S (length (json_escape key ++ 34 :: 58 :: vtext ++ r))) (json_escape key ++ 34 :: 58 :: vtext ++ r) [] =
          Some (key, 58 :: vtext ++ r)) as Ju by (apply json_unescape_string; [exact Hk | rewrite app_length; lia]).
  destruct first; cbn [app parse_members].
  - rewrite Ju. cbn [skip_ws]. change (58 =? 32) with false. change (58 =? 9) with false. change (58 =? 10) with false.
    change (58 =? 13) with false. cbn [orb]. rewrite Pv, Nw. reflexivity.
  - cbn [skip_ws]. change (34 =? 32) with false. change (34 =? 9) with false. change (34 =? 10) with false.
    change (34 =? 13) with false. cbn [orb]. rewrite Ju. cbn [skip_ws]. change (58 =? 32) with false. change (58 =? 9) with false.
    change (58 =? 10) with false. change (58 =? 13) with false. cbn [orb]. rewrite Pv, Nw. reflexivity.
Qed.

Lemma pm_end f r acc : parse_members (S f) (125 :: r) acc false = Some (JObj (rev acc), r).
Proof. cbn [parse_members]. unfold rev'. rewrite <- rev_alt. reflexivity. Qed.

(* ================= the headers object ================= *)
Definition total_vals (m : hmap) : nat := fold_right (fun kv a => (length (snd kv) + a)%nat) 0%nat m.
Definition hdr_bytes (m : hmap) : Prop := Forall (fun kv => Forall jbyte (fst kv) /\ Forall (Forall jbyte) (snd kv)) m.
Definition hdr_value (m : hmap) : list (list Z * jv) := map (fun kv => (fst kv, JArr (map JStr (snd kv)))) m.

Lemma pm_headers m : forall f acc first r, hdr_bytes m -> (length m + total_vals m + 2 < f)%nat ->
  parse_members f (hdr_members m first ++ 125 :: r) acc first = Some (JObj (rev acc ++ hdr_value m), r).
Proof.
  induction m as [|[k vs] tl IH]; intros f acc first r Hb Hf.
  - destruct f as [|f]; [lia|]. cbn [hdr_members app]. cbn [parse_members]. unfold rev'. rewrite <- rev_alt, app_nil_r. reflexivity.
  - destruct f as [|f]; [lia|]. inversion Hb as [|? ? [Hk Hv] Ht]; subst. cbn [fst snd] in *.
    cbn [total_vals fold_right snd length] in Hf. fold (total_vals tl) in Hf.
    assert (hdr_members ((k, vs) :: tl) first ++ 125 :: r =
            (if first then [] else [44]) ++ json_string k ++ 58 :: (91 :: vals_text vs true ++ [93]) ++ (hdr_members tl false ++ 125 :: r)) as Eall.
    { cbn [hdr_members]. rewrite <- !app_assoc. f_equal. f_equal. cbn [app]. rewrite <- !app_assoc. reflexivity. }
    rewrite Eall.
    rewrite (pm_member f k (JArr (map JStr vs)) (91 :: vals_text vs true ++ [93]) (hdr_members tl false ++ 125 :: r) acc first Hk).
    + rewrite IH by (try assumption; lia). cbn [rev hdr_value map fst snd]. rewrite <- app_assoc. reflexivity.
    + cbn [app]. rewrite <- app_assoc. cbn [app]. apply pv_array; [exact Hv | lia].
    + destruct tl as [|[k2 vs2] tl2]; cbn [hdr_members app]; apply nonws_head; discriminate.
Qed.

Lemma pv_headers f m r : hdr_bytes m -> (length m + total_vals m + 3 < f)%nat ->
  parse_value f (json_headers (Some m) ++ r) = Some (JObj (hdr_value m), r).
Proof.
  intros Hb Hf. destruct f as [|f]; [lia|]. cbn [json_headers app parse_value skip_ws].
  change (123 =? 32) with false. change (123 =? 9) with false. change (123 =? 10) with false. change (123 =? 13) with false. cbn [orb].
  change (123 =? 34) with false. change (123 =? 123) with true. cbv iota.
  assert (nonws ((hdr_members m true ++ [125]) ++ r)) as Nw.
  { destruct m as [|[k vs] tl]; cbn [hdr_members app]; [apply nonws_head; discriminate|].
    unfold json_string. cbn [app]. apply nonws_head; discriminate. }
  rewrite Nw, <- app_assoc. cbn [app]. rewrite pm_headers by (try assumption; lia). reflexivity.
Qed.

(* ---- texts the escaper leaves alone ---- *)
Definition plainch (c : Z) : bool :=
  (32 <=? c) && (c <? 128) && negb ((c =? 34) || (c =? 92) || (c =? 38) || (c =? 60) || (c =? 62)).

Lemma json_escape_plain s : forallb plainch s = true -> json_escape s = s.
Proof.
  induction s as [|c tl IH]; intros H; [reflexivity|]. cbn [forallb] in H. apply andb_true_iff in H as [Hc Ht].
  unfold plainch in Hc. apply andb_true_iff in Hc as [Hc Hn]. apply andb_true_iff in Hc as [H32 H128].
  apply Z.leb_le in H32. apply negb_true_iff in Hn. repeat (apply orb_false_iff in Hn as [Hn ?]).
  cbn [json_escape]. rewrite H128.
  assert (c =? 9 = false) as -> by (apply Z.eqb_neq; lia). assert (c =? 13 = false) as -> by (apply Z.eqb_neq; lia).
  assert (c =? 10 = false) as -> by (apply Z.eqb_neq; lia).
  repeat match goal with H : (c =? _) = false |- _ => rewrite H; clear H end.
  assert (c <? 32 = false) as -> by (apply Z.ltb_ge; lia). cbn [orb]. rewrite IH by exact Ht. reflexivity.
Qed.

(* ================= a whole result ================= *)
From V Require Import Proofs.FlagsProofs Proofs.ResultCodecProofs Proofs.MimeProofs.

Definition kn (s : list nat) : list Z := map Z.of_nat s.
Definition k_attack := kn [97;116;116;97;99;107]%nat.
Definition k_seq := kn [115;101;113]%nat.
Definition k_code := kn [99;111;100;101]%nat.
Definition k_ts := kn [116;105;109;101;115;116;97;109;112]%nat.
Definition k_lat := kn [108;97;116;101;110;99;121]%nat.
Definition k_bout := kn [98;121;116;101;115;95;111;117;116]%nat.
Definition k_bin := kn [98;121;116;101;115;95;105;110]%nat.
Definition k_error := kn [101;114;114;111;114]%nat.
Definition k_body := kn [98;111;100;121]%nat.
Definition k_method := kn [109;101;116;104;111;100]%nat.
Definition k_url := kn [117;114;108]%nat.
Definition k_headers := kn [104;101;97;100;101;114;115]%nat.

Lemma kw_string name : forallb plainch (kn name) = true -> kw name = json_string (kn name) ++ [58].
Proof. intros H. unfold kw, json_string, kn in *. rewrite (json_escape_plain _ H). cbn [app]. rewrite <- app_assoc. reflexivity. Qed.

Lemma plain_jbyte s : forallb plainch s = true -> Forall jbyte s.
Proof.
  intros H. apply Forall_forall. intros c Hc. rewrite forallb_forall in H. specialize (H c Hc). unfold plainch in H.
  apply andb_true_iff in H as [H _]. apply andb_true_iff in H as [A B]. apply Z.leb_le in A. apply Z.ltb_lt in B. unfold jbyte. lia.
Qed.

(* the body text *)
Lemma b64_plain bs : forallb Base64.is_byte bs = true -> forallb plainch (b64_encode bs) = true.
Proof.
  assert (forall v, 0 <= v < 64 -> plainch (b64_char v) = true) as K.
  { assert (forallb (fun v => plainch (b64_char v)) (map Z.of_nat (seq 0 64)) = true) as S by (vm_compute; reflexivity).
    intros v Hv. rewrite forallb_forall in S. apply S. apply in_map_iff. exists (Z.to_nat v). split; [lia | apply in_seq; lia]. }
  revert bs. fix IH 1. intros [|a [|b [|c tl]]] H; cbn [b64_encode]; [reflexivity| | |].
  - cbn in H. apply andb_true_iff in H as [Ha _]. destruct (byte_bits a Ha) as (A1 & A2 & _).
    cbn [forallb]. rewrite !K by lia. reflexivity.
  - cbn in H. apply andb_true_iff in H as [Ha H]. apply andb_true_iff in H as [Hb _].
    destruct (byte_bits a Ha) as (A1 & A2 & _). destruct (byte_bits b Hb) as (_ & _ & B3 & B4 & _).
    cbn [forallb]. rewrite !K by lia. reflexivity.
  - cbn in H. apply andb_true_iff in H as [Ha H]. apply andb_true_iff in H as [Hb H]. apply andb_true_iff in H as [Hc H].
    destruct (byte_bits a Ha) as (A1 & A2 & _). destruct (byte_bits b Hb) as (_ & _ & B3 & B4 & _).
    destruct (byte_bits c Hc) as (_ & _ & _ & _ & C5 & C6).
    cbn [forallb]. rewrite !K by lia. rewrite (IH tl H). reflexivity.
Qed.

(* the headers member read back *)
Definition strs_of (vs : list jv) : option (list (list Z)) :=
  fold_right (fun x a => match x, a with JStr s, Some l => Some (s :: l) | _, _ => None end) (Some []) vs.

Lemma strs_of_map vs : strs_of (map JStr vs) = Some vs.
Proof. induction vs as [|v tl IH]; [reflexivity|]. cbn [map strs_of fold_right]. fold (strs_of (map JStr tl)). rewrite IH. reflexivity. Qed.

Lemma zeqb_true : forall a b, zeqb a b = true -> a = b.
Proof.
  induction a as [|x xs IH]; intros [|y ys] E; cbn in E; try discriminate; [reflexivity|].
  apply andb_true_iff in E as [E1 E2]. apply Z.eqb_eq in E1. subst. f_equal. apply IH, E2.
Qed.

Lemma filter_absent (k : list Z) (h : hmap) : ~ In k (map fst h) -> filter (fun e => negb (zeqb (fst e) k)) h = h.
Proof.
  induction h as [|[k' vs] tl IH]; intros H; [reflexivity|]. cbn [filter fst].
  assert (zeqb k' k = false) as ->.
  { destruct (zeqb k' k) eqn:E; [|reflexivity]. exfalso. apply H. left. cbn [fst]. apply zeqb_true, E. }
  cbn [negb]. f_equal. apply IH. intros X. apply H. right. exact X.
Qed.

Lemma headers_fold m : forall h, NoDup (map fst h ++ map fst m) ->
  fold_left (fun acc kv => match acc with
                           | None => None
                           | Some h0 => match snd kv with
                                        | JNull => Some (h0 ++ [(fst kv, [])])
                                        | JArr vs => match strs_of vs with
                                                     | Some l => Some (filter (fun e => negb (zeqb (fst e) (fst kv))) h0 ++ [(fst kv, l)])
                                                     | None => None end
                                        | _ => None end end) (hdr_value m) (Some h) = Some (h ++ m).
Proof.
  induction m as [|[k vs] tl IH]; intros h Hn; cbn [hdr_value map fold_left fst snd]; [rewrite app_nil_r; reflexivity|].
  rewrite strs_of_map. rewrite filter_absent.
  - fold (hdr_value tl). rewrite IH; [rewrite <- app_assoc; reflexivity|].
    rewrite map_app. cbn [map fst]. rewrite <- app_assoc. exact Hn.
  - cbn [map fst] in Hn. apply NoDup_remove_2 in Hn. intros X. apply Hn. apply in_or_app. left. exact X.
Qed.

(* ---- set_field, one lemma per documented field ---- *)
Definition upd_attack r s := {| c_attack := s; c_seq := c_seq r; c_code := c_code r; c_ts := c_ts r; c_zone := c_zone r; c_lat := c_lat r; c_bout := c_bout r; c_bin := c_bin r; c_error := c_error r; c_body := c_body r; c_method := c_method r; c_url := c_url r; c_headers := c_headers r |}.

Lemma sf_attack r s : set_field r k_attack (JStr s) = Some (upd_attack r s). Proof. reflexivity. Qed.
Lemma sf_seq r n : 0 <= n < two64v -> set_field r k_seq (JNum (itoa n)) =
  Some {| c_attack := c_attack r; c_seq := n; c_code := c_code r; c_ts := c_ts r; c_zone := c_zone r; c_lat := c_lat r; c_bout := c_bout r; c_bin := c_bin r; c_error := c_error r; c_body := c_body r; c_method := c_method r; c_url := c_url r; c_headers := c_headers r |}.
Proof. intros H. change (set_field r k_seq (JNum (itoa n))) with (match parse_uint 64 (itoa n) with Some x => Some {| c_attack := c_attack r; c_seq := x; c_code := c_code r; c_ts := c_ts r; c_zone := c_zone r; c_lat := c_lat r; c_bout := c_bout r; c_bin := c_bin r; c_error := c_error r; c_body := c_body r; c_method := c_method r; c_url := c_url r; c_headers := c_headers r |} | None => None end). rewrite (parse_uint64_itoa n H). reflexivity. Qed.
Lemma sf_code r n : 0 <= n < 65536 -> set_field r k_code (JNum (itoa n)) =
  Some {| c_attack := c_attack r; c_seq := c_seq r; c_code := n; c_ts := c_ts r; c_zone := c_zone r; c_lat := c_lat r; c_bout := c_bout r; c_bin := c_bin r; c_error := c_error r; c_body := c_body r; c_method := c_method r; c_url := c_url r; c_headers := c_headers r |}.
Proof. intros H. change (set_field r k_code (JNum (itoa n))) with (match parse_uint 16 (itoa n) with Some x => Some {| c_attack := c_attack r; c_seq := c_seq r; c_code := x; c_ts := c_ts r; c_zone := c_zone r; c_lat := c_lat r; c_bout := c_bout r; c_bin := c_bin r; c_error := c_error r; c_body := c_body r; c_method := c_method r; c_url := c_url r; c_headers := c_headers r |} | None => None end). rewrite (parse_uint16_itoa n H). reflexivity. Qed.
Lemma sf_ts r ts z : zone_ok z -> 0 <= ts + z * 1000000000 < 84000 * 86400 * 1000000000 -> set_field r k_ts (JStr (rfc3339 ts z)) =
  Some {| c_attack := c_attack r; c_seq := c_seq r; c_code := c_code r; c_ts := ts; c_zone := z; c_lat := c_lat r; c_bout := c_bout r; c_bin := c_bin r; c_error := c_error r; c_body := c_body r; c_method := c_method r; c_url := c_url r; c_headers := c_headers r |}.
Proof. intros Hz Hl. change (set_field r k_ts (JStr (rfc3339 ts z))) with (match parse_rfc3339 (rfc3339 ts z) with Some (t, zz) => Some {| c_attack := c_attack r; c_seq := c_seq r; c_code := c_code r; c_ts := t; c_zone := zz; c_lat := c_lat r; c_bout := c_bout r; c_bin := c_bin r; c_error := c_error r; c_body := c_body r; c_method := c_method r; c_url := c_url r; c_headers := c_headers r |} | None => None end). rewrite (rfc3339_roundtrip_lemma ts z Hz Hl). reflexivity. Qed.
Lemma sf_lat r n : - two63 <= n < two63 -> set_field r k_lat (JNum (itoa n)) =
  Some {| c_attack := c_attack r; c_seq := c_seq r; c_code := c_code r; c_ts := c_ts r; c_zone := c_zone r; c_lat := n; c_bout := c_bout r; c_bin := c_bin r; c_error := c_error r; c_body := c_body r; c_method := c_method r; c_url := c_url r; c_headers := c_headers r |}.
Proof. intros H. change (set_field r k_lat (JNum (itoa n))) with (match atoi (itoa n) with Some x => Some {| c_attack := c_attack r; c_seq := c_seq r; c_code := c_code r; c_ts := c_ts r; c_zone := c_zone r; c_lat := x; c_bout := c_bout r; c_bin := c_bin r; c_error := c_error r; c_body := c_body r; c_method := c_method r; c_url := c_url r; c_headers := c_headers r |} | None => None end). rewrite (atoi_itoa_lemma n H). reflexivity. Qed.
Lemma sf_bout r n : 0 <= n < two64v -> set_field r k_bout (JNum (itoa n)) =
  Some {| c_attack := c_attack r; c_seq := c_seq r; c_code := c_code r; c_ts := c_ts r; c_zone := c_zone r; c_lat := c_lat r; c_bout := n; c_bin := c_bin r; c_error := c_error r; c_body := c_body r; c_method := c_method r; c_url := c_url r; c_headers := c_headers r |}.
Proof. intros H. change (set_field r k_bout (JNum (itoa n))) with (match parse_uint 64 (itoa n) with Some x => Some {| c_attack := c_attack r; c_seq := c_seq r; c_code := c_code r; c_ts := c_ts r; c_zone := c_zone r; c_lat := c_lat r; c_bout := x; c_bin := c_bin r; c_error := c_error r; c_body := c_body r; c_method := c_method r; c_url := c_url r; c_headers := c_headers r |} | None => None end). rewrite (parse_uint64_itoa n H). reflexivity. Qed.
Lemma sf_bin r n : 0 <= n < two64v -> set_field r k_bin (JNum (itoa n)) =
  Some {| c_attack := c_attack r; c_seq := c_seq r; c_code := c_code r; c_ts := c_ts r; c_zone := c_zone r; c_lat := c_lat r; c_bout := c_bout r; c_bin := n; c_error := c_error r; c_body := c_body r; c_method := c_method r; c_url := c_url r; c_headers := c_headers r |}.
Proof. intros H. change (set_field r k_bin (JNum (itoa n))) with (match parse_uint 64 (itoa n) with Some x => Some {| c_attack := c_attack r; c_seq := c_seq r; c_code := c_code r; c_ts := c_ts r; c_zone := c_zone r; c_lat := c_lat r; c_bout := c_bout r; c_bin := x; c_error := c_error r; c_body := c_body r; c_method := c_method r; c_url := c_url r; c_headers := c_headers r |} | None => None end). rewrite (parse_uint64_itoa n H). reflexivity. Qed.
Lemma sf_error r s : set_field r k_error (JStr s) =
  Some {| c_attack := c_attack r; c_seq := c_seq r; c_code := c_code r; c_ts := c_ts r; c_zone := c_zone r; c_lat := c_lat r; c_bout := c_bout r; c_bin := c_bin r; c_error := s; c_body := c_body r; c_method := c_method r; c_url := c_url r; c_headers := c_headers r |}.
Proof. reflexivity. Qed.
Lemma sf_body r b : forallb Base64.is_byte b = true -> set_field r k_body (JStr (b64_encode b)) =
  Some {| c_attack := c_attack r; c_seq := c_seq r; c_code := c_code r; c_ts := c_ts r; c_zone := c_zone r; c_lat := c_lat r; c_bout := c_bout r; c_bin := c_bin r; c_error := c_error r; c_body := Some b; c_method := c_method r; c_url := c_url r; c_headers := c_headers r |}.
Proof. intros H. change (set_field r k_body (JStr (b64_encode b))) with (match b64_decode (b64_encode b) with Some x => Some {| c_attack := c_attack r; c_seq := c_seq r; c_code := c_code r; c_ts := c_ts r; c_zone := c_zone r; c_lat := c_lat r; c_bout := c_bout r; c_bin := c_bin r; c_error := c_error r; c_body := Some x; c_method := c_method r; c_url := c_url r; c_headers := c_headers r |} | None => None end). rewrite (b64_roundtrip_lemma b H). reflexivity. Qed.
Lemma sf_method r s : set_field r k_method (JStr s) =
  Some {| c_attack := c_attack r; c_seq := c_seq r; c_code := c_code r; c_ts := c_ts r; c_zone := c_zone r; c_lat := c_lat r; c_bout := c_bout r; c_bin := c_bin r; c_error := c_error r; c_body := c_body r; c_method := s; c_url := c_url r; c_headers := c_headers r |}.
Proof. reflexivity. Qed.
Lemma sf_url r s : set_field r k_url (JStr s) =
  Some {| c_attack := c_attack r; c_seq := c_seq r; c_code := c_code r; c_ts := c_ts r; c_zone := c_zone r; c_lat := c_lat r; c_bout := c_bout r; c_bin := c_bin r; c_error := c_error r; c_body := c_body r; c_method := c_method r; c_url := s; c_headers := c_headers r |}.
Proof. reflexivity. Qed.
Lemma sf_null r k : set_field r k JNull = Some {| c_attack := c_attack r; c_seq := c_seq r; c_code := c_code r; c_ts := c_ts r; c_zone := c_zone r; c_lat := c_lat r; c_bout := c_bout r; c_bin := c_bin r; c_error := c_error r; c_body := c_body r; c_method := c_method r; c_url := c_url r; c_headers := c_headers r |}.
Proof. reflexivity. Qed.
Lemma sf_headers r m : NoDup (map fst m) -> set_field r k_headers (JObj (hdr_value m)) =
  Some {| c_attack := c_attack r; c_seq := c_seq r; c_code := c_code r; c_ts := c_ts r; c_zone := c_zone r; c_lat := c_lat r; c_bout := c_bout r; c_bin := c_bin r; c_error := c_error r; c_body := c_body r; c_method := c_method r; c_url := c_url r; c_headers := Some m |}.
Proof.
  intros Hn. pose proof (headers_fold m [] Hn) as K. cbn [app] in K. unfold strs_of in K.
  change (set_field r k_headers (JObj (hdr_value m))) with
    (match fold_left (fun acc kv => match acc with
                           | None => None
                           | Some h0 => match snd kv with
                                        | JNull => Some (h0 ++ [(fst kv, [])])
                                        | JArr vs => match fold_right (fun x a => match x, a with JStr s, Some l => Some (s :: l) | _, _ => None end) (Some []) vs with
                                                     | Some l => Some (filter (fun e => negb (zeqb (fst e) (fst kv))) h0 ++ [(fst kv, l)])
                                                     | None => None end
                                        | _ => None end end) (hdr_value m) (Some []) with
     | Some h => Some {| c_attack := c_attack r; c_seq := c_seq r; c_code := c_code r; c_ts := c_ts r; c_zone := c_zone r; c_lat := c_lat r; c_bout := c_bout r; c_bin := c_bin r; c_error := c_error r; c_body := c_body r; c_method := c_method r; c_url := c_url r; c_headers := Some h |}
     | None => None end).
  rewrite K. reflexivity.
Qed.
