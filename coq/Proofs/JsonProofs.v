From Coq Require Import ZArith List Bool Lia.
From V Require Import Base.Duration Base.Str.
From V Require Import Model.Json.
Import ListNotations.
Open Scope Z_scope.

Definition jbyte (c : Z) : Prop := 0 <= c < 256.

Lemma hex_small : forall c, 0 <= c < 128 -> hex4 48 48 (hexd (c / 16)) (hexd (c mod 16)) = Some c.
Proof.
  assert (forallb (fun c => match hex4 48 48 (hexd (c / 16)) (hexd (c mod 16)) with Some v => v =? c | None => false end)
            (map Z.of_nat (seq 0 128)) = true) as K by (vm_compute; reflexivity).
  intros c H. rewrite forallb_forall in K. specialize (K c).
  assert (In c (map Z.of_nat (seq 0 128))) as I.
  { apply in_map_iff. exists (Z.to_nat c). split; [lia | apply in_seq; lia]. }
  specialize (K I). destruct (hex4 48 48 (hexd (c / 16)) (hexd (c mod 16))) as [v|]; [|discriminate].
  apply Z.eqb_eq in K. congruence.
Qed.

(* one step of the decoder on a plain byte *)
Lemma unescape_plain f c tl acc : c <> 34 -> c <> 92 ->
  json_unescape (S f) (c :: tl) acc = json_unescape f tl (c :: acc).
Proof.
  intros H1 H2. cbn [json_unescape].
  assert (c =? 34 = false) as -> by (apply Z.eqb_neq; exact H1).
  assert (c =? 92 = false) as -> by (apply Z.eqb_neq; exact H2). reflexivity.
Qed.

Lemma unescape_simple f e x tl acc :
  (if e =? 117 then None else
   if e =? 110 then Some 10 else if e =? 116 then Some 9 else if e =? 114 then Some 13
   else if e =? 98 then Some 8 else if e =? 102 then Some 12
   else if (e =? 34) || (e =? 92) || (e =? 47) then Some e else None) = Some x ->
  json_unescape (S f) (92 :: e :: tl) acc = json_unescape f tl (x :: acc).
Proof.
  intros H. cbn [json_unescape]. change (92 =? 34) with false. change (92 =? 92) with true. cbn iota.
  destruct (e =? 117); [discriminate|]. rewrite H. reflexivity.
Qed.

Lemma unescape_u00 f c tl acc : 0 <= c < 128 ->
  json_unescape (S f) (92 :: 117 :: 48 :: 48 :: hexd (c / 16) :: hexd (c mod 16) :: tl) acc = json_unescape f tl (c :: acc).
Proof.
  intros H. cbn [json_unescape]. change (92 =? 34) with false. change (92 =? 92) with true. change (117 =? 117) with true. cbn iota.
  rewrite (hex_small c H).
  assert ((55296 <=? c) && (c <? 56320) = false) as -> by (apply andb_false_iff; left; apply Z.leb_gt; lia).
  assert ((56320 <=? c) && (c <? 57344) = false) as -> by (apply andb_false_iff; left; apply Z.leb_gt; lia).
  unfold utf8_of. assert (c <? 128 = true) as -> by (apply Z.ltb_lt; lia). reflexivity.
Qed.

Lemma unescape_u202 f d tl acc : d = 168 \/ d = 169 ->
  json_unescape (S f) (92 :: 117 :: 50 :: 48 :: 50 :: hexd (d - 160) :: tl) acc = json_unescape f tl (d :: 128 :: 226 :: acc).
Proof. intros [-> | ->]; reflexivity. Qed.

(* the round trip: decoding the escaped text gives the original bytes back, for every byte string *)
Lemma json_string_roundtrip_len n : forall s rest acc fuel, (length s <= n)%nat -> Forall jbyte s ->
  (length (json_escape s) < fuel)%nat ->
  json_unescape fuel (json_escape s ++ 34 :: rest) acc = Some (rev acc ++ s, rest).
Proof.
  induction n as [|n IH]; intros s rest acc fuel Hl Hb Hf.
  - destruct s; [|cbn in Hl; lia]. cbn [json_escape app]. destruct fuel as [|f]; [cbn in Hf; lia|].
    cbn [json_unescape]. rewrite Z.eqb_refl. unfold rev'. rewrite <- rev_alt, app_nil_r. reflexivity.
  - destruct s as [|c tl].
    { cbn [json_escape app]. destruct fuel as [|f]; [cbn in Hf; lia|]. cbn [json_unescape]. rewrite Z.eqb_refl.
      unfold rev'. rewrite <- rev_alt, app_nil_r. reflexivity. }
    inversion Hb as [|? ? Hc Ht]; subst. cbn [length] in Hl.
    assert (forall x, rev (x :: acc) ++ tl = rev acc ++ x :: tl) as Rv by (intros; cbn [rev]; rewrite <- app_assoc; reflexivity).
    cbn [json_escape] in *. destruct (c <? 128) eqn:E128.
    + apply Z.ltb_lt in E128.
      destruct (c =? 9) eqn:E9; [apply Z.eqb_eq in E9; subst c|].
      { cbn [app length] in *. destruct fuel as [|f]; [lia|]. rewrite (unescape_simple f 116 9) by reflexivity.
        rewrite IH by (try assumption; lia). rewrite Rv. reflexivity. }
      destruct (c =? 13) eqn:E13; [apply Z.eqb_eq in E13; subst c|].
      { cbn [app length] in *. destruct fuel as [|f]; [lia|]. rewrite (unescape_simple f 114 13) by reflexivity.
        rewrite IH by (try assumption; lia). rewrite Rv. reflexivity. }
      destruct (c =? 10) eqn:E10; [apply Z.eqb_eq in E10; subst c|].
      { cbn [app length] in *. destruct fuel as [|f]; [lia|]. rewrite (unescape_simple f 110 10) by reflexivity.
        rewrite IH by (try assumption; lia). rewrite Rv. reflexivity. }
      destruct (c =? 92) eqn:E92; [apply Z.eqb_eq in E92; subst c|].
      { cbn [app length] in *. destruct fuel as [|f]; [lia|]. rewrite (unescape_simple f 92 92) by reflexivity.
        rewrite IH by (try assumption; lia). rewrite Rv. reflexivity. }
      destruct (c =? 34) eqn:E34; [apply Z.eqb_eq in E34; subst c|].
      { cbn [app length] in *. destruct fuel as [|f]; [lia|]. rewrite (unescape_simple f 34 34) by reflexivity.
        rewrite IH by (try assumption; lia). rewrite Rv. reflexivity. }
      apply Z.eqb_neq in E92, E34.
      destruct ((c <? 32) || (c =? 38) || (c =? 60) || (c =? 62)).
      * cbn [app length] in *. destruct fuel as [|f]; [lia|]. rewrite unescape_u00 by (unfold jbyte in Hc; lia).
        rewrite IH by (try assumption; lia). rewrite Rv. reflexivity.
      * cbn [app length] in *. destruct fuel as [|f]; [lia|]. rewrite unescape_plain by assumption.
        rewrite IH by (try assumption; lia). rewrite Rv. reflexivity.
    + apply Z.ltb_ge in E128.
      assert (c <> 34 /\ c <> 92) as [N34 N92] by lia.
      assert (forall fuel', (length (c :: json_escape tl) < fuel')%nat ->
                json_unescape fuel' ((c :: json_escape tl) ++ 34 :: rest) acc = Some (rev acc ++ c :: tl, rest)) as Plain.
      { intros fuel' Hf'. cbn [app length] in *. destruct fuel' as [|f]; [lia|]. rewrite unescape_plain by assumption.
        rewrite IH by (try assumption; lia). rewrite Rv. reflexivity. }
      destruct tl as [|b [|d tl3]]; try (apply Plain; exact Hf).
      destruct ((c =? 226) && (b =? 128) && ((d =? 168) || (d =? 169))) eqn:E; [|apply Plain; exact Hf].
      apply andb_true_iff in E as [E Ed]. apply andb_true_iff in E as [Ec Eb].
      apply Z.eqb_eq in Ec, Eb. subst c b. apply orb_true_iff in Ed.
      assert (d = 168 \/ d = 169) as Dd by (destruct Ed as [X|X]; apply Z.eqb_eq in X; [left | right]; exact X).
      cbn [app length] in *. destruct fuel as [|f]; [lia|]. rewrite unescape_u202 by exact Dd.
      inversion Ht as [|? ? _ Ht2]; subst. inversion Ht2 as [|? ? _ Ht3]; subst.
      rewrite IH by (try assumption; cbn [length] in Hl; lia).
      cbn [rev]. rewrite <- !app_assoc. reflexivity.
Qed.

Theorem json_string_roundtrip_lemma s rest : Forall jbyte s ->
  json_unescape (S (length (json_escape s))) (json_escape s ++ 34 :: rest) [] = Some (s, rest).
Proof. intros H. apply (json_string_roundtrip_len (length s) s rest [] _ (le_n _) H). lia. Qed.

Ltac Zify.zify_post_hook ::= Z.div_mod_to_equations.

(* ---- calendar: a finite sweep over the days of 1970..2199 ---- *)
Definition day_ok (days : Z) : bool :=
  let '(y, m, d) := civil_of_days days in
  (days_of_civil y m d =? days) && (1970 <=? y) && (y <? 2200) && (1 <=? m) && (m <=? 12) && (1 <=? d) && (d <=? 31).

Fixpoint range_ok (f : Z -> bool) (lo : Z) (k : nat) : bool :=
  match k with O => f lo | S k' => range_ok f lo k' && range_ok f (lo + 2 ^ Z.of_nat k') k' end.

Lemma range_ok_all f k : forall lo, range_ok f lo k = true -> forall x, lo <= x < lo + 2 ^ Z.of_nat k -> f x = true.
Proof.
  induction k as [|k IH]; intros lo H x Hx; cbn [range_ok] in H.
  - change (2 ^ Z.of_nat 0) with 1 in Hx. assert (x = lo) by lia. subst. exact H.
  - apply andb_true_iff in H as [H1 H2]. rewrite Nat2Z.inj_succ, Z.pow_succ_r in Hx by lia.
    destruct (Z_lt_le_dec x (lo + 2 ^ Z.of_nat k)) as [L|L]; [apply (IH lo H1); lia | apply (IH _ H2); lia].
Qed.

Lemma days_sweep : range_ok (fun x => (84000 <=? x) || day_ok x) 0 17 = true.
Proof. vm_compute. reflexivity. Qed.

Lemma day_ok_all days : 0 <= days < 84000 -> day_ok days = true.
Proof.
  intros H. pose proof (range_ok_all _ 17 0 days_sweep days) as K.
  assert (2 ^ Z.of_nat 17 = 131072) as E by reflexivity. rewrite E in K. specialize (K ltac:(lia)).
  apply orb_true_iff in K as [K|K]; [apply Z.leb_le in K; lia | exact K].
Qed.

(* ---- two- and four-digit fields ---- *)
Lemma digit_ok d : 0 <= d < 10 -> is_digit (48 + d) = true /\ 48 + d - 48 = d.
Proof. intros H. unfold is_digit. split; [apply andb_true_iff; split; apply Z.leb_le; lia | lia]. Qed.

Lemma num2 x : 0 <= x < 100 -> num_of (pad 2 x []) = Some x.
Proof.
  intros H. cbn [pad]. unfold num_of. cbn [digits_val].
  destruct (digit_ok (x / 10 mod 10) ltac:(lia)) as [-> ->]. destruct (digit_ok (x mod 10) ltac:(lia)) as [-> ->].
  f_equal. lia.
Qed.

Lemma num4 x : 0 <= x < 10000 -> num_of (pad 4 x []) = Some x.
Proof.
  intros H. cbn [pad]. unfold num_of. cbn [digits_val].
  destruct (digit_ok (x / 10 / 10 / 10 mod 10) ltac:(lia)) as [-> ->].
  destruct (digit_ok (x / 10 / 10 mod 10) ltac:(lia)) as [-> ->].
  destruct (digit_ok (x / 10 mod 10) ltac:(lia)) as [-> ->]. destruct (digit_ok (x mod 10) ltac:(lia)) as [-> ->].
  f_equal. lia.
Qed.

(* ---- fraction ---- *)
Lemma trim_zeros_eq r : trim_zeros r = match r with c :: tl => if c =? 48 then trim_zeros tl else r | [] => [] end.
Proof.
  destruct r as [|c tl]; [reflexivity|]. cbn [trim_zeros]. destruct c as [|p|p]; try reflexivity.
  do 6 (try (destruct p as [p|p|]; try reflexivity)).
Qed.

(* a digit string = its part without trailing zeros, followed by zeros *)
Lemma trim_split l : exists p k, l = p ++ repeat 48 k /\ rev (trim_zeros (rev l)) = p.
Proof.
  induction l as [|c tl IH] using rev_ind.
  - exists [], 0%nat. split; reflexivity.
  - destruct IH as (p & k & E & T). rewrite rev_app_distr. cbn [rev app]. rewrite trim_zeros_eq.
    destruct (c =? 48) eqn:E48.
    + apply Z.eqb_eq in E48. subst c. exists p, (S k). split; [|exact T].
      rewrite E, <- app_assoc. f_equal. clear. induction k as [|k IHk]; [reflexivity|]. cbn [repeat app]. rewrite IHk. reflexivity.
    + exists (tl ++ [c]), 0%nat. cbn [repeat]. rewrite app_nil_r. split; [reflexivity|].
      cbn [rev]. rewrite rev_involutive. reflexivity.
Qed.

Lemma firstn_repeat (x : Z) k : forall m, firstn k (repeat x (m + k)) = repeat x k.
Proof.
  induction k as [|k IH]; intros m; [reflexivity|]. replace (m + S k)%nat with (S (m + k)) by lia.
  cbn [repeat firstn]. f_equal. apply IH.
Qed.

Lemma firstn_pad_zeros p k : firstn (length p + k) (p ++ repeat 48 (length p + k)) = p ++ repeat 48 k.
Proof. rewrite firstn_app_2. f_equal. apply firstn_repeat. Qed.

Lemma take_digits_all ds : forall acc c rest, forallb is_digit ds = true -> is_digit c = false ->
  take_digits (ds ++ c :: rest) acc = (rev acc ++ ds, c :: rest).
Proof.
  induction ds as [|d tl IH]; intros acc c rest Hd Hc; cbn [app take_digits].
  - rewrite Hc, app_nil_r. reflexivity.
  - cbn [forallb] in Hd. apply andb_true_iff in Hd as [H1 H2]. rewrite H1, IH by assumption. cbn [rev]. rewrite <- app_assoc. reflexivity.
Qed.

Lemma pad_digits n : forall x acc, forallb is_digit acc = true -> forallb is_digit (pad n x acc) = true.
Proof.
  induction n as [|n IH]; intros x acc H; cbn [pad]; [exact H|]. apply IH. cbn [forallb].
  destruct (digit_ok (x mod 10) ltac:(lia)) as [-> _]. exact H.
Qed.

Lemma pad_length n : forall x acc, length (pad n x acc) = (n + length acc)%nat.
Proof. induction n as [|n IH]; intros x acc; cbn [pad]; [reflexivity|]. rewrite IH. cbn [length]. lia. Qed.

Lemma pad_val n : forall x acc v, 0 <= x < 10 ^ Z.of_nat n ->
  digits_val (pad n x acc) v = digits_val acc (v * 10 ^ Z.of_nat n + x).
Proof.
  induction n as [|n IH]; intros x acc v H.
  - cbn [pad]. change (10 ^ Z.of_nat 0) with 1 in *. f_equal. lia.
  - cbn [pad]. rewrite Nat2Z.inj_succ, Z.pow_succ_r in * by lia. set (P := 10 ^ Z.of_nat n) in *.
    assert (0 < P) by (apply Z.pow_pos_nonneg; lia).
    rewrite IH by lia. cbn [digits_val]. destruct (digit_ok (x mod 10) ltac:(lia)) as [-> ->]. f_equal. lia.
Qed.

(* the fraction written for ns, followed by a non-digit, reads back as ns *)
Lemma frac_roundtrip ns c rest : 0 <= ns < 1000000000 -> is_digit c = false -> c <> 46 ->
  (let '(v, r) := match frac_digits ns ++ c :: rest with
                  | 46 :: tl => let '(ds, r) := take_digits tl [] in
                                (match digits_val (firstn 9 (ds ++ repeat 48 9)) 0 with Some v => v | None => 0 end, r)
                  | other => (0, other)
                  end in (v, r)) = (ns, c :: rest).
Proof.
  intros H Hc H46. unfold frac_digits. destruct (ns =? 0) eqn:E0.
  - apply Z.eqb_eq in E0. subst. cbn [app].
    destruct c as [|p|p]; try reflexivity. do 6 (try (destruct p as [p|p|]; try reflexivity)). congruence.
  - cbn [app]. destruct (trim_split (pad 9 ns [])) as (p & k & E & T). rewrite T.
    assert (forallb is_digit (pad 9 ns []) = true) as Hd by (apply pad_digits; reflexivity).
    assert (forallb is_digit p = true) as Hp by (rewrite E, forallb_app in Hd; apply andb_true_iff in Hd; tauto).
    rewrite (take_digits_all p [] c rest Hp Hc). cbn [rev app].
    pose proof (pad_length 9 ns []) as L. rewrite E, app_length, repeat_length in L. cbn [length] in L.
    replace 9%nat with (length p + k)%nat by lia. rewrite firstn_pad_zeros, <- E.
    rewrite (pad_val 9 ns [] 0) by (change (10 ^ Z.of_nat 9) with 1000000000; lia). cbn [digits_val].
    replace (0 * 10 ^ Z.of_nat 9 + ns) with ns by lia. reflexivity.
Qed.

Lemma parse_frac_roundtrip ns c rest : 0 <= ns < 1000000000 -> is_digit c = false -> c <> 46 ->
  parse_frac (frac_digits ns ++ c :: rest) = (ns, c :: rest).
Proof.
  intros H Hc H46. unfold parse_frac, frac_digits. destruct (ns =? 0) eqn:E0.
  - apply Z.eqb_eq in E0. subst. cbn [app]. assert (c =? 46 = false) as -> by (apply Z.eqb_neq; exact H46). reflexivity.
  - cbn [app]. rewrite Z.eqb_refl. destruct (trim_split (pad 9 ns [])) as (p & k & E & T). rewrite T.
    assert (forallb is_digit (pad 9 ns []) = true) as Hd by (apply pad_digits; reflexivity).
    assert (forallb is_digit p = true) as Hp by (rewrite E, forallb_app in Hd; apply andb_true_iff in Hd; tauto).
    rewrite (take_digits_all p [] c rest Hp Hc). cbn [rev app].
    pose proof (pad_length 9 ns []) as L. rewrite E, app_length, repeat_length in L. cbn [length] in L.
    replace 9%nat with (length p + k)%nat by lia. rewrite firstn_pad_zeros, <- E.
    rewrite (pad_val 9 ns [] 0) by (change (10 ^ Z.of_nat 9) with 1000000000; lia). cbn [digits_val].
    replace (0 * 10 ^ Z.of_nat 9 + ns) with ns by lia. reflexivity.
Qed.

(* ---- zone ---- *)
Definition zone_text (zone : Z) : list Z :=
  if zone =? 0 then [90]
  else (if zone <? 0 then [45] else [43]) ++ pad 2 (Z.abs zone / 3600) [] ++ [58] ++ pad 2 (Z.abs zone / 60 mod 60) [].

Definition zone_ok (zone : Z) : Prop := zone mod 60 = 0 /\ -86400 < zone < 86400.

Lemma parse_zone_roundtrip zone : zone_ok zone -> parse_zone (zone_text zone) = Some zone.
Proof.
  intros [Hm Hr]. unfold zone_text. destruct (zone =? 0) eqn:E0; [apply Z.eqb_eq in E0; subst; reflexivity|].
  apply Z.eqb_neq in E0.
  assert (0 <= Z.abs zone / 3600 < 100) as Hh by lia. assert (0 <= Z.abs zone / 60 mod 60 < 100) as Hmm by lia.
  pose proof (num2 _ Hh) as N1. pose proof (num2 _ Hmm) as N2. cbn [pad] in N1, N2.
  destruct (zone <? 0) eqn:En; cbn [pad app parse_zone]; change (58 =? 58) with true; cbv iota; rewrite N1, N2.
  - apply Z.ltb_lt in En. change (45 =? 43) with false. change (45 =? 45) with true. cbv iota. f_equal. lia.
  - apply Z.ltb_ge in En. change (43 =? 43) with true. cbv iota. f_equal. lia.
Qed.

Lemma zone_text_head zone : exists c rest, zone_text zone = c :: rest /\ is_digit c = false /\ c <> 46.
Proof.
  unfold zone_text. destruct (zone =? 0); [exists 90, []; repeat split; discriminate|].
  destruct (zone <? 0); eexists; eexists; cbn [app]; repeat split; discriminate.
Qed.

(* ---- the timestamp ---- *)
Theorem rfc3339_roundtrip_lemma ts zone : zone_ok zone ->
  0 <= ts + zone * 1000000000 < 84000 * 86400 * 1000000000 ->
  parse_rfc3339 (rfc3339 ts zone) = Some (ts, zone).
Proof.
  intros Hz Hl. unfold rfc3339. set (local := ts + zone * 1000000000) in *.
  set (secs := local / 1000000000). set (ns := local mod 1000000000).
  set (days := secs / 86400). set (sod := secs mod 86400).
  assert (0 <= days < 84000) as Hd by (unfold days, secs; lia).
  assert (0 <= sod < 86400) as Hs by (unfold sod; lia).
  assert (0 <= ns < 1000000000) as Hn by (unfold ns; lia).
  pose proof (day_ok_all days Hd) as K. unfold day_ok in K.
  destruct (civil_of_days days) as [[y m] d]. repeat (apply andb_true_iff in K as [K ?]).
  apply Z.eqb_eq in K. repeat match goal with H : (_ <=? _) = true |- _ => apply Z.leb_le in H | H : (_ <? _) = true |- _ => apply Z.ltb_lt in H end.
  fold (zone_text zone). destruct (zone_text_head zone) as (zc & zrest & Ez & Zd & Z46).
  assert (0 <= sod / 3600 < 100) as R1 by lia. assert (0 <= sod / 60 mod 60 < 100) as R2 by lia. assert (0 <= sod mod 60 < 100) as R3 by lia.
  pose proof (num4 y ltac:(lia)) as Ny. pose proof (num2 m ltac:(lia)) as Nm. pose proof (num2 d ltac:(lia)) as Nd.
  pose proof (num2 _ R1) as Nh. pose proof (num2 _ R2) as Nmi. pose proof (num2 _ R3) as Nse.
  cbn [pad] in Ny, Nm, Nd, Nh, Nmi, Nse. cbn [pad app]. unfold parse_rfc3339.
  change (45 =? 45) with true. change (58 =? 58) with true. change (84 =? 84) with true. cbn [andb orb negb].
  rewrite Ny, Nm, Nd, Nh, Nmi, Nse. rewrite Ez, parse_frac_roundtrip by assumption. rewrite <- Ez, parse_zone_roundtrip by exact Hz.
  assert ((1 <=? m) && (m <=? 12) && (1 <=? d) && (d <=? 31) && (sod / 3600 <? 24) && (sod / 60 mod 60 <? 60) && (sod mod 60 <? 60) = true) as ->.
  { repeat (apply andb_true_iff; split); try (apply Z.leb_le; lia); apply Z.ltb_lt; lia. }
  f_equal. f_equal. rewrite K. unfold days, sod, ns, secs in *. lia.
Qed.

(* ================= values ================= *)
From V Require Import Base.Base64 Model.Flags Model.Csv Model.ResultCodec Proofs.DecimalProofs Proofs.Base64Proofs.

Lemma json_unescape_string fuel s rest : Forall jbyte s -> (length (json_escape s) < fuel)%nat ->
  json_unescape fuel (json_escape s ++ 34 :: rest) [] = Some (s, rest).
Proof. intros H Hf. apply (json_string_roundtrip_len (length s) s rest [] fuel (le_n _) H Hf). Qed.

Lemma pv_string f s rest : Forall jbyte s -> parse_value (S f) (json_string s ++ rest) = Some (JStr s, rest).
Proof.
  intros H. unfold json_string. cbn [app parse_value skip_ws]. change (34 =? 32) with false. change (34 =? 9) with false.
  change (34 =? 10) with false. change (34 =? 13) with false. cbn [orb]. rewrite Z.eqb_refl.
  rewrite <- app_assoc. cbn [app]. rewrite json_unescape_string; [reflexivity | exact H | rewrite app_length; cbn; lia].
Qed.

Lemma pv_null f rest : parse_value (S f) (110 :: 117 :: 108 :: 108 :: rest) = Some (JNull, rest).
Proof. reflexivity. Qed.

(* numbers *)
Definition numch (c : Z) : bool := is_digit c || (c =? 45) || (c =? 43) || (c =? 46) || (c =? 101) || (c =? 69).

Lemma take_num_all ds : forall acc c rest, forallb numch ds = true -> numch c = false ->
  take_num (ds ++ c :: rest) acc = (rev acc ++ ds, c :: rest).
Proof.
  induction ds as [|d tl IH]; intros acc c rest Hd Hc; cbn [app take_num].
  - fold (numch c). rewrite Hc, app_nil_r. reflexivity.
  - cbn [forallb] in Hd. apply andb_true_iff in Hd as [H1 H2]. fold (numch d). rewrite H1, IH by assumption.
    cbn [rev]. rewrite <- app_assoc. reflexivity.
Qed.

Lemma digits_of_chars fuel : forall m acc, 0 <= m -> forallb numch acc = true -> forallb numch (digits_of fuel m acc) = true.
Proof.
  induction fuel as [|f IH]; intros m acc Hm Ha; cbn [digits_of]; [exact Ha|].
  destruct (m <? 10) eqn:E.
  - apply Z.ltb_lt in E. cbn [forallb]. unfold numch at 1. destruct (digit_ok m ltac:(lia)) as [-> _]. exact Ha.
  - apply Z.ltb_ge in E. apply IH; [lia|]. cbn [forallb]. unfold numch at 1. destruct (digit_ok (m mod 10) ltac:(lia)) as [-> _]. exact Ha.
Qed.

Lemma itoa_numch n : forallb numch (itoa n) = true.
Proof.
  unfold itoa. destruct (n <? 0) eqn:E.
  - apply Z.ltb_lt in E. cbn [forallb]. apply digits_of_chars; [lia | reflexivity].
  - apply Z.ltb_ge in E. apply digits_of_chars; [lia | reflexivity].
Qed.

Lemma digits_of_head fuel : forall m acc, 0 <= m -> exists c tl, digits_of (S fuel) m acc = c :: tl /\ is_digit c = true.
Proof.
  induction fuel as [|f IH]; intros m acc Hm.
  - cbn [digits_of]. destruct (m <? 10) eqn:E.
    + apply Z.ltb_lt in E. eexists; eexists; split; [reflexivity | apply (digit_ok m); lia].
    + eexists; eexists; split; [reflexivity | apply (digit_ok (m mod 10)); lia].
  - remember (S f) as f1. cbn [digits_of]. destruct (m <? 10) eqn:E.
    + apply Z.ltb_lt in E. eexists; eexists; split; [reflexivity | apply (digit_ok m); lia].
    + subst f1. apply IH. lia.
Qed.

Lemma itoa_head n : exists c tl, itoa n = c :: tl /\ (is_digit c = true \/ c = 45).
Proof.
  unfold itoa. destruct (n <? 0) eqn:E.
  - eexists; eexists; split; [reflexivity | right; reflexivity].
  - apply Z.ltb_ge in E. destruct (digits_of_head 79 n [] E) as (c & tl & H1 & H2). exists c, tl. split; [exact H1 | left; exact H2].
Qed.

Lemma pv_num f n c rest : numch c = false ->
  parse_value (S f) (itoa n ++ c :: rest) = Some (JNum (itoa n), c :: rest).
Proof.
  intros Hc. destruct (itoa_head n) as (c0 & tl & E & Hd). pose proof (itoa_numch n) as Hn.
  assert (skip_ws (itoa n ++ c :: rest) = itoa n ++ c :: rest) as Sk.
  { rewrite E. cbn [app skip_ws]. destruct Hd as [Hd| ->]; [|reflexivity].
    unfold is_digit in Hd. apply andb_true_iff in Hd as [D1 D2]. apply Z.leb_le in D1, D2.
    assert (c0 =? 32 = false) as -> by (apply Z.eqb_neq; lia). assert (c0 =? 9 = false) as -> by (apply Z.eqb_neq; lia).
    assert (c0 =? 10 = false) as -> by (apply Z.eqb_neq; lia). assert (c0 =? 13 = false) as -> by (apply Z.eqb_neq; lia). reflexivity. }
  cbn [parse_value]. rewrite Sk. rewrite E at 1. cbn [app].
  assert (c0 =? 34 = false /\ c0 =? 123 = false /\ c0 =? 91 = false /\ c0 =? 110 = false /\ c0 =? 116 = false /\ c0 =? 102 = false) as (A1 & A2 & A3 & A4 & A5 & A6).
  { destruct Hd as [Hd| ->]; [|repeat split; reflexivity]. unfold is_digit in Hd. apply andb_true_iff in Hd as [D1 D2]. apply Z.leb_le in D1, D2.
    repeat split; apply Z.eqb_neq; lia. }
  rewrite A1, A2, A3, A4, A5, A6.
  assert (is_digit c0 || (c0 =? 45) = true) as -> by (destruct Hd as [->| ->]; reflexivity).
  change (c0 :: tl ++ c :: rest) with ((c0 :: tl) ++ c :: rest). rewrite <- E.
  rewrite (take_num_all (itoa n) [] c rest Hn Hc). reflexivity.
Qed.

(* ================= arrays of strings, objects ================= *)
Definition nonws (r : list Z) : Prop := skip_ws r = r.

Lemma nonws_head c r : c <> 32 -> c <> 9 -> c <> 10 -> c <> 13 -> nonws (c :: r).
Proof.
  intros. unfold nonws. cbn [skip_ws].
  assert (c =? 32 = false) as -> by (apply Z.eqb_neq; assumption). assert (c =? 9 = false) as -> by (apply Z.eqb_neq; assumption).
  assert (c =? 10 = false) as -> by (apply Z.eqb_neq; assumption). assert (c =? 13 = false) as -> by (apply Z.eqb_neq; assumption). reflexivity.
Qed.

Lemma json_string_head s rest : exists tl, json_string s ++ rest = 34 :: tl.
Proof. unfold json_string. eexists. reflexivity. Qed.

Lemma pe_step_first f t acc : parse_elems (S f) (34 :: t) acc true =
  match parse_value f (34 :: t) with Some (v, r) => parse_elems f (skip_ws r) (v :: acc) false | None => None end.
Proof. reflexivity. Qed.
Lemma pe_step_next f t acc : parse_elems (S f) (44 :: 34 :: t) acc false =
  match parse_value f (34 :: t) with Some (v, r) => parse_elems f (skip_ws r) (v :: acc) false | None => None end.
Proof. reflexivity. Qed.

Lemma pe_strings vs : forall f acc first r, Forall (Forall jbyte) vs -> (length vs < f)%nat ->
  parse_elems f (vals_text vs first ++ 93 :: r) acc first = Some (JArr (rev acc ++ map JStr vs), r).
Proof.
  induction vs as [|x tl IH]; intros f acc first r Hb Hf.
  - destruct f as [|f]; [cbn in Hf; lia|]. cbn [vals_text app parse_elems]. unfold rev'. rewrite <- rev_alt, app_nil_r. reflexivity.
  - destruct f as [|f]; [cbn in Hf; lia|]. inversion Hb as [|? ? Hx Ht]; subst. cbn [vals_text]. rewrite <- !app_assoc.
    assert (parse_value f (json_string x ++ vals_text tl false ++ 93 :: r) = Some (JStr x, vals_text tl false ++ 93 :: r)) as Pv.
    { destruct f as [|f']; [cbn in Hf; lia|]. apply pv_string, Hx. }
    assert (nonws (vals_text tl false ++ 93 :: r)) as Nw.
    { destruct tl as [|y tl']; cbn [vals_text app]; apply nonws_head; discriminate. }
    destruct (json_string_head x (vals_text tl false ++ 93 :: r)) as (t0 & E0). rewrite E0 in *.
    destruct first; cbn [app]; [rewrite pe_step_first | rewrite pe_step_next]; rewrite Pv, Nw;
      rewrite IH by (try assumption; cbn [length] in Hf; lia); cbn [rev map]; rewrite <- app_assoc; reflexivity.
Qed.

Lemma pv_array f vs r : Forall (Forall jbyte) vs -> (length vs + 1 < f)%nat ->
  parse_value f (91 :: vals_text vs true ++ 93 :: r) = Some (JArr (map JStr vs), r).
Proof.
  intros Hb Hf. destruct f as [|f]; [lia|]. cbn [parse_value skip_ws]. change (91 =? 32) with false. change (91 =? 9) with false.
  change (91 =? 10) with false. change (91 =? 13) with false. cbn [orb]. change (91 =? 34) with false. change (91 =? 123) with false.
  change (91 =? 91) with true. cbv iota.
  assert (nonws (vals_text vs true ++ 93 :: r)) as Nw.
  { destruct vs as [|y tl']; cbn [vals_text app]; [apply nonws_head; discriminate|].
    destruct (json_string_head y (vals_text tl' false ++ 93 :: r)) as (t0 & E0). rewrite <- app_assoc, E0. apply nonws_head; discriminate. }
  rewrite Nw. rewrite pe_strings by (try assumption; lia). reflexivity.
Qed.

(* one member of an object *)
Lemma pm_member f key v vtext r acc (first : bool) : Forall jbyte key ->
  parse_value f (vtext ++ r) = Some (v, r) -> nonws r ->
  parse_members (S f) ((if first then [] else [44]) ++ json_string key ++ 58 :: vtext ++ r) acc first =
  parse_members f r ((key, v) :: acc) false.
Proof.
  intros Hk Pv Nw.
  assert (json_string key ++ 58 :: vtext ++ r = 34 :: json_escape key ++ 34 :: 58 :: vtext ++ r) as Es
    by (unfold json_string; cbn [app]; rewrite <- app_assoc; reflexivity).
  rewrite Es.
  assert (json_unescape (S (length (json_escape key ++ 34 :: 58 :: vtext ++ r))) (json_escape key ++ 34 :: 58 :: vtext ++ r) [] =
          Some (key, 58 :: vtext ++ r)) as Ju by (apply json_unescape_string; [exact Hk | rewrite app_length; lia]).
  destruct first; cbn [app parse_members].
  - rewrite Ju. cbn [skip_ws]. change (58 =? 32) with false. change (58 =? 9) with false. change (58 =? 10) with false.
    change (58 =? 13) with false. cbn [orb]. rewrite Pv, Nw. reflexivity.
  - cbn [skip_ws]. change (34 =? 32) with false. change (34 =? 9) with false. change (34 =? 10) with false.
    change (34 =? 13) with false. cbn [orb]. rewrite Ju. cbn [skip_ws]. change (58 =? 32) with false. change (58 =? 9) with false.
    change (58 =? 10) with false. change (58 =? 13) with false. cbn [orb]. rewrite Pv, Nw. reflexivity.
Qed.

Lemma pm_end f r acc : parse_members (S f) (125 :: r) acc false = Some (JObj (rev acc), r).
Proof. cbn [parse_members]. unfold rev'. rewrite <- rev_alt. reflexivity. Qed.

(* ================= the headers object ================= *)
Definition total_vals (m : hmap) : nat := fold_right (fun kv a => (length (snd kv) + a)%nat) 0%nat m.
Definition hdr_bytes (m : hmap) : Prop := Forall (fun kv => Forall jbyte (fst kv) /\ Forall (Forall jbyte) (snd kv)) m.
Definition hdr_value (m : hmap) : list (list Z * jv) := map (fun kv => (fst kv, JArr (map JStr (snd kv)))) m.

Lemma pm_headers m : forall f acc first r, hdr_bytes m -> (length m + total_vals m + 2 < f)%nat ->
  parse_members f (hdr_members m first ++ 125 :: r) acc first = Some (JObj (rev acc ++ hdr_value m), r).
Proof.
  induction m as [|[k vs] tl IH]; intros f acc first r Hb Hf.
  - destruct f as [|f]; [lia|]. cbn [hdr_members app]. cbn [parse_members]. unfold rev'. rewrite <- rev_alt, app_nil_r. reflexivity.
  - destruct f as [|f]; [lia|]. inversion Hb as [|? ? [Hk Hv] Ht]; subst. cbn [fst snd] in *.
    cbn [total_vals fold_right snd length] in Hf. fold (total_vals tl) in Hf.
    assert (hdr_members ((k, vs) :: tl) first ++ 125 :: r =
            (if first then [] else [44]) ++ json_string k ++ 58 :: (91 :: vals_text vs true ++ [93]) ++ (hdr_members tl false ++ 125 :: r)) as Eall.
    { cbn [hdr_members]. rewrite <- !app_assoc. f_equal. f_equal. cbn [app]. rewrite <- !app_assoc. reflexivity. }
    rewrite Eall.
    rewrite (pm_member f k (JArr (map JStr vs)) (91 :: vals_text vs true ++ [93]) (hdr_members tl false ++ 125 :: r) acc first Hk).
    + rewrite IH by (try assumption; lia). cbn [rev hdr_value map fst snd]. rewrite <- app_assoc. reflexivity.
    + cbn [app]. rewrite <- app_assoc. cbn [app]. apply pv_array; [exact Hv | lia].
    + destruct tl as [|[k2 vs2] tl2]; cbn [hdr_members app]; apply nonws_head; discriminate.
Qed.

Lemma pv_headers f m r : hdr_bytes m -> (length m + total_vals m + 3 < f)%nat ->
  parse_value f (json_headers (Some m) ++ r) = Some (JObj (hdr_value m), r).
Proof.
  intros Hb Hf. destruct f as [|f]; [lia|]. cbn [json_headers app parse_value skip_ws].
  change (123 =? 32) with false. change (123 =? 9) with false. change (123 =? 10) with false. change (123 =? 13) with false. cbn [orb].
  change (123 =? 34) with false. change (123 =? 123) with true. cbv iota.
  assert (nonws ((hdr_members m true ++ [125]) ++ r)) as Nw.
  { destruct m as [|[k vs] tl]; cbn [hdr_members app]; [apply nonws_head; discriminate|].
    unfold json_string. cbn [app]. apply nonws_head; discriminate. }
  rewrite Nw, <- app_assoc. cbn [app]. rewrite pm_headers by (try assumption; lia). reflexivity.
Qed.

(* ---- texts the escaper leaves alone ---- *)
Definition plainch (c : Z) : bool :=
  (32 <=? c) && (c <? 128) && negb ((c =? 34) || (c =? 92) || (c =? 38) || (c =? 60) || (c =? 62)).

Lemma json_escape_plain s : forallb plainch s = true -> json_escape s = s.
Proof.
  induction s as [|c tl IH]; intros H; [reflexivity|]. cbn [forallb] in H. apply andb_true_iff in H as [Hc Ht].
  unfold plainch in Hc. apply andb_true_iff in Hc as [Hc Hn]. apply andb_true_iff in Hc as [H32 H128].
  apply Z.leb_le in H32. apply negb_true_iff in Hn. repeat (apply orb_false_iff in Hn as [Hn ?]).
  cbn [json_escape]. rewrite H128.
  assert (c =? 9 = false) as -> by (apply Z.eqb_neq; lia). assert (c =? 13 = false) as -> by (apply Z.eqb_neq; lia).
  assert (c =? 10 = false) as -> by (apply Z.eqb_neq; lia).
  repeat match goal with H : (c =? _) = false |- _ => rewrite H; clear H end.
  assert (c <? 32 = false) as -> by (apply Z.ltb_ge; lia). cbn [orb]. rewrite IH by exact Ht. reflexivity.
Qed.

(* ================= a whole result ================= *)
From V Require Import Proofs.FlagsProofs Proofs.ResultCodecProofs Proofs.MimeProofs.

Definition kn (s : list nat) : list Z := map Z.of_nat s.
Definition k_attack := kn [97;116;116;97;99;107]%nat.
Definition k_seq := kn [115;101;113]%nat.
Definition k_code := kn [99;111;100;101]%nat.
Definition k_ts := kn [116;105;109;101;115;116;97;109;112]%nat.
Definition k_lat := kn [108;97;116;101;110;99;121]%nat.
Definition k_bout := kn [98;121;116;101;115;95;111;117;116]%nat.
Definition k_bin := kn [98;121;116;101;115;95;105;110]%nat.
Definition k_error := kn [101;114;114;111;114]%nat.
Definition k_body := kn [98;111;100;121]%nat.
Definition k_method := kn [109;101;116;104;111;100]%nat.
Definition k_url := kn [117;114;108]%nat.
Definition k_headers := kn [104;101;97;100;101;114;115]%nat.

Lemma kw_string name : forallb plainch (kn name) = true -> kw name = json_string (kn name) ++ [58].
Proof. intros H. unfold kw, json_string, kn in *. rewrite (json_escape_plain _ H). cbn [app]. rewrite <- app_assoc. reflexivity. Qed.

Lemma plain_jbyte s : forallb plainch s = true -> Forall jbyte s.
Proof.
  intros H. apply Forall_forall. intros c Hc. rewrite forallb_forall in H. specialize (H c Hc). unfold plainch in H.
  apply andb_true_iff in H as [H _]. apply andb_true_iff in H as [A B]. apply Z.leb_le in A. apply Z.ltb_lt in B. unfold jbyte. lia.
Qed.

(* the body text *)
Lemma b64_plain bs : forallb Base64.is_byte bs = true -> forallb plainch (b64_encode bs) = true.
Proof.
  assert (forall v, 0 <= v < 64 -> plainch (b64_char v) = true) as K.
  { assert (forallb (fun v => plainch (b64_char v)) (map Z.of_nat (seq 0 64)) = true) as S by (vm_compute; reflexivity).
    intros v Hv. rewrite forallb_forall in S. apply S. apply in_map_iff. exists (Z.to_nat v). split; [lia | apply in_seq; lia]. }
  revert bs. fix IH 1. intros [|a [|b [|c tl]]] H; cbn [b64_encode]; [reflexivity| | |].
  - cbn in H. apply andb_true_iff in H as [Ha _]. destruct (byte_bits a Ha) as (A1 & A2 & _).
    cbn [forallb]. rewrite !K by lia. reflexivity.
  - cbn in H. apply andb_true_iff in H as [Ha H]. apply andb_true_iff in H as [Hb _].
    destruct (byte_bits a Ha) as (A1 & A2 & _). destruct (byte_bits b Hb) as (_ & _ & B3 & B4 & _).
    cbn [forallb]. rewrite !K by lia. reflexivity.
  - cbn in H. apply andb_true_iff in H as [Ha H]. apply andb_true_iff in H as [Hb H]. apply andb_true_iff in H as [Hc H].
    destruct (byte_bits a Ha) as (A1 & A2 & _). destruct (byte_bits b Hb) as (_ & _ & B3 & B4 & _).
    destruct (byte_bits c Hc) as (_ & _ & _ & _ & C5 & C6).
    cbn [forallb]. rewrite !K by lia. rewrite (IH tl H). reflexivity.
Qed.

(* the headers member read back *)
Definition strs_of (vs : list jv) : option (list (list Z)) :=
  fold_right (fun x a => match x, a with JStr s, Some l => Some (s :: l) | _, _ => None end) (Some []) vs.

Lemma strs_of_map vs : strs_of (map JStr vs) = Some vs.
Proof. induction vs as [|v tl IH]; [reflexivity|]. cbn [map strs_of fold_right]. fold (strs_of (map JStr tl)). rewrite IH. reflexivity. Qed.

Lemma zeqb_true : forall a b, zeqb a b = true -> a = b.
Proof.
  induction a as [|x xs IH]; intros [|y ys] E; cbn in E; try discriminate; [reflexivity|].
  apply andb_true_iff in E as [E1 E2]. apply Z.eqb_eq in E1. subst. f_equal. apply IH, E2.
Qed.

Lemma filter_absent (k : list Z) (h : hmap) : ~ In k (map fst h) -> filter (fun e => negb (zeqb (fst e) k)) h = h.
Proof.
  induction h as [|[k' vs] tl IH]; intros H; [reflexivity|]. cbn [filter fst].
  assert (zeqb k' k = false) as ->.
  { destruct (zeqb k' k) eqn:E; [|reflexivity]. exfalso. apply H. left. cbn [fst]. apply zeqb_true, E. }
  cbn [negb]. f_equal. apply IH. intros X. apply H. right. exact X.
Qed.

Lemma headers_fold m : forall h, NoDup (map fst h ++ map fst m) ->
  fold_left (fun acc kv => match acc with
                           | None => None
                           | Some h0 => match snd kv with
                                        | JNull => Some (h0 ++ [(fst kv, [])])
                                        | JArr vs => match strs_of vs with
                                                     | Some l => Some (filter (fun e => negb (zeqb (fst e) (fst kv))) h0 ++ [(fst kv, l)])
                                                     | None => None end
                                        | _ => None end end) (hdr_value m) (Some h) = Some (h ++ m).
Proof.
  induction m as [|[k vs] tl IH]; intros h Hn; cbn [hdr_value map fold_left fst snd]; [rewrite app_nil_r; reflexivity|].
  rewrite strs_of_map. rewrite filter_absent.
  - fold (hdr_value tl). rewrite IH; [rewrite <- app_assoc; reflexivity|].
    rewrite map_app. cbn [map fst]. rewrite <- app_assoc. exact Hn.
  - cbn [map fst] in Hn. apply NoDup_remove_2 in Hn. intros X. apply Hn. apply in_or_app. left. exact X.
Qed.

(* ---- set_field, one lemma per documented field ---- *)
Definition upd_attack r s := {| c_attack := s; c_seq := c_seq r; c_code := c_code r; c_ts := c_ts r; c_zone := c_zone r; c_lat := c_lat r; c_bout := c_bout r; c_bin := c_bin r; c_error := c_error r; c_body := c_body r; c_method := c_method r; c_url := c_url r; c_headers := c_headers r |}.

Lemma sf_attack r s : set_field r k_attack (JStr s) = Some (upd_attack r s). Proof. reflexivity. Qed.
Lemma sf_seq r n : 0 <= n < two64v -> set_field r k_seq (JNum (itoa n)) =
  Some {| c_attack := c_attack r; c_seq := n; c_code := c_code r; c_ts := c_ts r; c_zone := c_zone r; c_lat := c_lat r; c_bout := c_bout r; c_bin := c_bin r; c_error := c_error r; c_body := c_body r; c_method := c_method r; c_url := c_url r; c_headers := c_headers r |}.
Proof. intros H. change (set_field r k_seq (JNum (itoa n))) with (match parse_uint 64 (itoa n) with Some x => Some {| c_attack := c_attack r; c_seq := x; c_code := c_code r; c_ts := c_ts r; c_zone := c_zone r; c_lat := c_lat r; c_bout := c_bout r; c_bin := c_bin r; c_error := c_error r; c_body := c_body r; c_method := c_method r; c_url := c_url r; c_headers := c_headers r |} | None => None end). rewrite (parse_uint64_itoa n H). reflexivity. Qed.
Lemma sf_code r n : 0 <= n < 65536 -> set_field r k_code (JNum (itoa n)) =
  Some {| c_attack := c_attack r; c_seq := c_seq r; c_code := n; c_ts := c_ts r; c_zone := c_zone r; c_lat := c_lat r; c_bout := c_bout r; c_bin := c_bin r; c_error := c_error r; c_body := c_body r; c_method := c_method r; c_url := c_url r; c_headers := c_headers r |}.
Proof. intros H. change (set_field r k_code (JNum (itoa n))) with (match parse_uint 16 (itoa n) with Some x => Some {| c_attack := c_attack r; c_seq := c_seq r; c_code := x; c_ts := c_ts r; c_zone := c_zone r; c_lat := c_lat r; c_bout := c_bout r; c_bin := c_bin r; c_error := c_error r; c_body := c_body r; c_method := c_method r; c_url := c_url r; c_headers := c_headers r |} | None => None end). rewrite (parse_uint16_itoa n H). reflexivity. Qed.
Lemma sf_ts r ts z : zone_ok z -> 0 <= ts + z * 1000000000 < 84000 * 86400 * 1000000000 -> set_field r k_ts (JStr (rfc3339 ts z)) =
  Some {| c_attack := c_attack r; c_seq := c_seq r; c_code := c_code r; c_ts := ts; c_zone := z; c_lat := c_lat r; c_bout := c_bout r; c_bin := c_bin r; c_error := c_error r; c_body := c_body r; c_method := c_method r; c_url := c_url r; c_headers := c_headers r |}.
Proof. intros Hz Hl. change (set_field r k_ts (JStr (rfc3339 ts z))) with (match parse_rfc3339 (rfc3339 ts z) with Some (t, zz) => Some {| c_attack := c_attack r; c_seq := c_seq r; c_code := c_code r; c_ts := t; c_zone := zz; c_lat := c_lat r; c_bout := c_bout r; c_bin := c_bin r; c_error := c_error r; c_body := c_body r; c_method := c_method r; c_url := c_url r; c_headers := c_headers r |} | None => None end). rewrite (rfc3339_roundtrip_lemma ts z Hz Hl). reflexivity. Qed.
Lemma sf_lat r n : - two63 <= n < two63 -> set_field r k_lat (JNum (itoa n)) =
  Some {| c_attack := c_attack r; c_seq := c_seq r; c_code := c_code r; c_ts := c_ts r; c_zone := c_zone r; c_lat := n; c_bout := c_bout r; c_bin := c_bin r; c_error := c_error r; c_body := c_body r; c_method := c_method r; c_url := c_url r; c_headers := c_headers r |}.
Proof. intros H. change (set_field r k_lat (JNum (itoa n))) with (match atoi (itoa n) with Some x => Some {| c_attack := c_attack r; c_seq := c_seq r; c_code := c_code r; c_ts := c_ts r; c_zone := c_zone r; c_lat := x; c_bout := c_bout r; c_bin := c_bin r; c_error := c_error r; c_body := c_body r; c_method := c_method r; c_url := c_url r; c_headers := c_headers r |} | None => None end). rewrite (atoi_itoa_lemma n H). reflexivity. Qed.
Lemma sf_bout r n : 0 <= n < two64v -> set_field r k_bout (JNum (itoa n)) =
  Some {| c_attack := c_attack r; c_seq := c_seq r; c_code := c_code r; c_ts := c_ts r; c_zone := c_zone r; c_lat := c_lat r; c_bout := n; c_bin := c_bin r; c_error := c_error r; c_body := c_body r; c_method := c_method r; c_url := c_url r; c_headers := c_headers r |}.
Proof. intros H. change (set_field r k_bout (JNum (itoa n))) with (match parse_uint 64 (itoa n) with Some x => Some {| c_attack := c_attack r; c_seq := c_seq r; c_code := c_code r; c_ts := c_ts r; c_zone := c_zone r; c_lat := c_lat r; c_bout := x; c_bin := c_bin r; c_error := c_error r; c_body := c_body r; c_method := c_method r; c_url := c_url r; c_headers := c_headers r |} | None => None end). rewrite (parse_uint64_itoa n H). reflexivity. Qed.
Lemma sf_bin r n : 0 <= n < two64v -> set_field r k_bin (JNum (itoa n)) =
  Some {| c_attack := c_attack r; c_seq := c_seq r; c_code := c_code r; c_ts := c_ts r; c_zone := c_zone r; c_lat := c_lat r; c_bout := c_bout r; c_bin := n; c_error := c_error r; c_body := c_body r; c_method := c_method r; c_url := c_url r; c_headers := c_headers r |}.
Proof. intros H. change (set_field r k_bin (JNum (itoa n))) with (match parse_uint 64 (itoa n) with Some x => Some {| c_attack := c_attack r; c_seq := c_seq r; c_code := c_code r; c_ts := c_ts r; c_zone := c_zone r; c_lat := c_lat r; c_bout := c_bout r; c_bin := x; c_error := c_error r; c_body := c_body r; c_method := c_method r; c_url := c_url r; c_headers := c_headers r |} | None => None end). rewrite (parse_uint64_itoa n H). reflexivity. Qed.
Lemma sf_error r s : set_field r k_error (JStr s) =
  Some {| c_attack := c_attack r; c_seq := c_seq r; c_code := c_code r; c_ts := c_ts r; c_zone := c_zone r; c_lat := c_lat r; c_bout := c_bout r; c_bin := c_bin r; c_error := s; c_body := c_body r; c_method := c_method r; c_url := c_url r; c_headers := c_headers r |}.
Proof. reflexivity. Qed.
Lemma sf_body r b : forallb Base64.is_byte b = true -> set_field r k_body (JStr (b64_encode b)) =
  Some {| c_attack := c_attack r; c_seq := c_seq r; c_code := c_code r; c_ts := c_ts r; c_zone := c_zone r; c_lat := c_lat r; c_bout := c_bout r; c_bin := c_bin r; c_error := c_error r; c_body := Some b; c_method := c_method r; c_url := c_url r; c_headers := c_headers r |}.
Proof. intros H. change (set_field r k_body (JStr (b64_encode b))) with (match b64_decode (b64_encode b) with Some x => Some {| c_attack := c_attack r; c_seq := c_seq r; c_code := c_code r; c_ts := c_ts r; c_zone := c_zone r; c_lat := c_lat r; c_bout := c_bout r; c_bin := c_bin r; c_error := c_error r; c_body := Some x; c_method := c_method r; c_url := c_url r; c_headers := c_headers r |} | None => None end). rewrite (b64_roundtrip_lemma b H). reflexivity. Qed.
Lemma sf_method r s : set_field r k_method (JStr s) =
  Some {| c_attack := c_attack r; c_seq := c_seq r; c_code := c_code r; c_ts := c_ts r; c_zone := c_zone r; c_lat := c_lat r; c_bout := c_bout r; c_bin := c_bin r; c_error := c_error r; c_body := c_body r; c_method := s; c_url := c_url r; c_headers := c_headers r |}.
Proof. reflexivity. Qed.
Lemma sf_url r s : set_field r k_url (JStr s) =
  Some {| c_attack := c_attack r; c_seq := c_seq r; c_code := c_code r; c_ts := c_ts r; c_zone := c_zone r; c_lat := c_lat r; c_bout := c_bout r; c_bin := c_bin r; c_error := c_error r; c_body := c_body r; c_method := c_method r; c_url := s; c_headers := c_headers r |}.
Proof. reflexivity. Qed.
Lemma sf_null r k : set_field r k JNull = Some {| c_attack := c_attack r; c_seq := c_seq r; c_code := c_code r; c_ts := c_ts r; c_zone := c_zone r; c_lat := c_lat r; c_bout := c_bout r; c_bin := c_bin r; c_error := c_error r; c_body := c_body r; c_method := c_method r; c_url := c_url r; c_headers := c_headers r |}.
Proof. reflexivity. Qed.
Lemma sf_headers r m : NoDup (map fst m) -> set_field r k_headers (JObj (hdr_value m)) =
  Some {| c_attack := c_attack r; c_seq := c_seq r; c_code := c_code r; c_ts := c_ts r; c_zone := c_zone r; c_lat := c_lat r; c_bout := c_bout r; c_bin := c_bin r; c_error := c_error r; c_body := c_body r; c_method := c_method r; c_url := c_url r; c_headers := Some m |}.
Proof.
  intros Hn. pose proof (headers_fold m [] Hn) as K. cbn [app] in K. unfold strs_of in K.
  change (set_field r k_headers (JObj (hdr_value m))) with
    (match fold_left (fun acc kv => match acc with
                           | None => None
                           | Some h0 => match snd kv with
                                        | JNull => Some (h0 ++ [(fst kv, [])])
                                        | JArr vs => match fold_right (fun x a => match x, a with JStr s, Some l => Some (s :: l) | _, _ => None end) (Some []) vs with
                                                     | Some l => Some (filter (fun e => negb (zeqb (fst e) (fst kv))) h0 ++ [(fst kv, l)])
                                                     | None => None end
                                        | _ => None end end) (hdr_value m) (Some []) with
     | Some h => Some {| c_attack := c_attack r; c_seq := c_seq r; c_code := c_code r; c_ts := c_ts r; c_zone := c_zone r; c_lat := c_lat r; c_bout := c_bout r; c_bin := c_bin r; c_error := c_error r; c_body := c_body r; c_method := c_method r; c_url := c_url r; c_headers := Some h |}
     | None => None end).
  rewrite K. reflexivity.
Qed.

(* ================= the record ================= *)
Definition mem (first : bool) (key vtext rest : list Z) : list Z :=
  (if first then [] else [44]) ++ json_string key ++ 58 :: vtext ++ rest.

Definition body_text (b : option (list Z)) : list Z :=
  match b with None => [110; 117; 108; 108] | Some x => json_string (b64_encode x) end.

Definition members_text (r : cres) (rest : list Z) : list Z :=
  mem true k_attack (json_string (c_attack r))
 (mem false k_seq (itoa (c_seq r))
 (mem false k_code (itoa (c_code r))
 (mem false k_ts (json_string (rfc3339 (c_ts r) (c_zone r)))
 (mem false k_lat (itoa (c_lat r))
 (mem false k_bout (itoa (c_bout r))
 (mem false k_bin (itoa (c_bin r))
 (mem false k_error (json_string (c_error r))
 (mem false k_body (body_text (c_body r))
 (mem false k_method (json_string (c_method r))
 (mem false k_url (json_string (c_url r))
 (mem false k_headers (json_headers (c_headers r)) rest))))))))))).

Record jres_dom (r : cres) : Prop := {
  jd_attack : Forall jbyte (c_attack r); jd_error : Forall jbyte (c_error r);
  jd_method : Forall jbyte (c_method r); jd_url : Forall jbyte (c_url r);
  jd_seq : 0 <= c_seq r < two64v; jd_code : 0 <= c_code r < 65536; jd_lat : - two63 <= c_lat r < two63;
  jd_bout : 0 <= c_bout r < two64v; jd_bin : 0 <= c_bin r < two64v;
  jd_zone : zone_ok (c_zone r);
  jd_ts : 0 <= c_ts r + c_zone r * 1000000000 < 84000 * 86400 * 1000000000;
  jd_body : forallb Base64.is_byte (opt_bytes (c_body r)) = true;
  jd_hdr : match c_headers r with None => True | Some m => hdr_bytes m /\ NoDup (map fst m) end }.

Definition hneed (r : cres) : nat := match c_headers r with None => 1%nat | Some m => (length m + total_vals m + 4)%nat end.

Definition body_value (b : option (list Z)) : jv := match b with None => JNull | Some x => JStr (b64_encode x) end.
Definition headers_value (h : option hmap) : jv := match h with None => JNull | Some m => JObj (hdr_value m) end.

Definition members_value (r : cres) : list (list Z * jv) :=
  [ (k_attack, JStr (c_attack r)); (k_seq, JNum (itoa (c_seq r))); (k_code, JNum (itoa (c_code r)));
    (k_ts, JStr (rfc3339 (c_ts r) (c_zone r))); (k_lat, JNum (itoa (c_lat r))); (k_bout, JNum (itoa (c_bout r)));
    (k_bin, JNum (itoa (c_bin r))); (k_error, JStr (c_error r)); (k_body, body_value (c_body r));
    (k_method, JStr (c_method r)); (k_url, JStr (c_url r)); (k_headers, headers_value (c_headers r)) ].

Lemma mem_nonws key vtext rest : nonws (mem false key vtext rest).
Proof. unfold mem. cbn [app]. apply nonws_head; discriminate. Qed.

Lemma rfc_bytes ts z : Forall jbyte (rfc3339 ts z) -> True. Proof. trivial. Qed.

(* the timestamp text is plain: digits, '-', ':', 'T', '.', 'Z', '+' *)
Lemma pad_plain n : forall x acc, forallb plainch acc = true -> forallb plainch (pad n x acc) = true.
Proof.
  induction n as [|n IH]; intros x acc H; cbn [pad]; [exact H|]. apply IH. cbn [forallb]. rewrite H, andb_true_r.
  unfold plainch. pose proof (Z.mod_pos_bound x 10 ltac:(lia)) as B.
  assert (32 <=? 48 + x mod 10 = true) as -> by (apply Z.leb_le; lia). assert (48 + x mod 10 <? 128 = true) as -> by (apply Z.ltb_lt; lia).
  assert (48 + x mod 10 =? 34 = false) as -> by (apply Z.eqb_neq; lia). assert (48 + x mod 10 =? 92 = false) as -> by (apply Z.eqb_neq; lia).
  assert (48 + x mod 10 =? 38 = false) as -> by (apply Z.eqb_neq; lia). assert (48 + x mod 10 =? 60 = false) as -> by (apply Z.eqb_neq; lia).
  assert (48 + x mod 10 =? 62 = false) as -> by (apply Z.eqb_neq; lia). reflexivity.
Qed.

Lemma forallb_rev {A} (f : A -> bool) l : forallb f (rev l) = forallb f l.
Proof. induction l as [|x tl IH]; [reflexivity|]. cbn [rev forallb]. rewrite forallb_app, IH. cbn. rewrite andb_true_r, andb_comm. reflexivity. Qed.

Lemma trim_zeros_plain r : forallb plainch r = true -> forallb plainch (trim_zeros r) = true.
Proof.
  induction r as [|c tl IH]; intros H; [reflexivity|]. rewrite trim_zeros_eq. destruct (c =? 48); [|exact H].
  cbn [forallb] in H. apply andb_true_iff in H as [_ H]. apply IH, H.
Qed.

Lemma rfc3339_plain ts z : forallb plainch (rfc3339 ts z) = true.
Proof.
  unfold rfc3339. destruct (civil_of_days ((ts + z * 1000000000) / 1000000000 / 86400)) as [[y m] d].
  rewrite !forallb_app. rewrite !pad_plain by reflexivity. cbn [forallb andb].
  assert (forallb plainch (frac_digits ((ts + z * 1000000000) mod 1000000000)) = true) as ->.
  { unfold frac_digits. destruct (_ =? 0); [reflexivity|]. cbn [forallb]. rewrite forallb_rev.
    rewrite trim_zeros_plain; [reflexivity|]. rewrite forallb_rev. apply pad_plain. reflexivity. }
  destruct (z =? 0); [reflexivity|]. rewrite !forallb_app. rewrite !pad_plain by reflexivity. destruct (z <? 0); reflexivity.
Qed.

(* json_encode is the members text between braces *)
Lemma json_encode_members r : forallb Base64.is_byte (opt_bytes (c_body r)) = true ->
  json_encode r = 123 :: members_text r [125; 10].
Proof.
  intros Hb. unfold json_encode, members_text, mem.
  rewrite !kw_string by reflexivity.
  assert ([34] ++ rfc3339 (c_ts r) (c_zone r) ++ [34] = json_string (rfc3339 (c_ts r) (c_zone r))) as Et
    by (unfold json_string; rewrite (json_escape_plain _ (rfc3339_plain _ _)); reflexivity).
  assert ((match c_body r with None => [110; 117; 108; 108] | Some b => 34 :: b64_encode b ++ [34] end) = body_text (c_body r)) as Eb.
  { unfold body_text. destruct (c_body r) as [b|]; [|reflexivity]. unfold json_string. cbn [opt_bytes] in Hb.
    rewrite (json_escape_plain _ (b64_plain b Hb)). reflexivity. }
  rewrite Eb. rewrite <- Et. fold k_attack k_seq k_code k_ts k_lat k_bout k_bin k_error k_body k_method k_url k_headers.
  cbn [app]. rewrite <- !app_assoc. cbn [app]. reflexivity.
Qed.

Lemma pv_body f b r : forallb Base64.is_byte (opt_bytes b) = true ->
  parse_value (S f) (body_text b ++ r) = Some (body_value b, r).
Proof.
  intros Hb. destruct b as [x|]; cbn [body_text body_value].
  - apply pv_string. apply plain_jbyte, b64_plain. exact Hb.
  - apply pv_null.
Qed.

Lemma pv_hdrs f h r : match h with None => True | Some m => hdr_bytes m /\ NoDup (map fst m) end ->
  (match h with None => 1%nat | Some m => (length m + total_vals m + 4)%nat end <= f)%nat ->
  parse_value f (json_headers h ++ r) = Some (headers_value h, r).
Proof.
  intros Hh Hf. destruct h as [m|]; cbn [headers_value].
  - destruct Hh as [Hb _]. apply pv_headers; [exact Hb | lia].
  - destruct f as [|f]; [lia|]. apply pv_null.
Qed.

Lemma key_bytes k : forallb plainch k = true -> Forall jbyte k. Proof. apply plain_jbyte. Qed.

Lemma numch44 : numch 44 = false. Proof. reflexivity. Qed.

Lemma pm_mem f key v vtext r acc (first : bool) : Forall jbyte key ->
  parse_value f (vtext ++ r) = Some (v, r) -> nonws r ->
  parse_members (S f) (mem first key vtext r) acc first = parse_members f r ((key, v) :: acc) false.
Proof. intros. unfold mem. apply pm_member; assumption. Qed.

Lemma members_parse r F rest : jres_dom r -> (12 + hneed r <= F)%nat ->
  parse_members F (members_text r (125 :: rest)) [] true = Some (JObj (members_value r), rest).
Proof.
  intros D HF. unfold hneed in HF. do 12 (destruct F as [|F]; [lia|]).
  unfold members_text.
  rewrite (pm_mem _ k_attack (JStr (c_attack r))); [|apply key_bytes; reflexivity | apply pv_string, (jd_attack r D) | apply mem_nonws].
  rewrite (pm_mem _ k_seq (JNum (itoa (c_seq r)))); [|apply key_bytes; reflexivity | unfold mem; cbn [app]; apply pv_num, numch44 | apply mem_nonws].
  rewrite (pm_mem _ k_code (JNum (itoa (c_code r)))); [|apply key_bytes; reflexivity | unfold mem; cbn [app]; apply pv_num, numch44 | apply mem_nonws].
  rewrite (pm_mem _ k_ts (JStr (rfc3339 (c_ts r) (c_zone r)))); [|apply key_bytes; reflexivity | apply pv_string, plain_jbyte, rfc3339_plain | apply mem_nonws].
  rewrite (pm_mem _ k_lat (JNum (itoa (c_lat r)))); [|apply key_bytes; reflexivity | unfold mem; cbn [app]; apply pv_num, numch44 | apply mem_nonws].
  rewrite (pm_mem _ k_bout (JNum (itoa (c_bout r)))); [|apply key_bytes; reflexivity | unfold mem; cbn [app]; apply pv_num, numch44 | apply mem_nonws].
  rewrite (pm_mem _ k_bin (JNum (itoa (c_bin r)))); [|apply key_bytes; reflexivity | unfold mem; cbn [app]; apply pv_num, numch44 | apply mem_nonws].
  rewrite (pm_mem _ k_error (JStr (c_error r))); [|apply key_bytes; reflexivity | apply pv_string, (jd_error r D) | apply mem_nonws].
  rewrite (pm_mem _ k_body (body_value (c_body r))); [|apply key_bytes; reflexivity | apply pv_body, (jd_body r D) | apply mem_nonws].
  rewrite (pm_mem _ k_method (JStr (c_method r))); [|apply key_bytes; reflexivity | apply pv_string, (jd_method r D) | apply mem_nonws].
  rewrite (pm_mem _ k_url (JStr (c_url r))); [|apply key_bytes; reflexivity | apply pv_string, (jd_url r D) | apply mem_nonws].
  rewrite (pm_mem _ k_headers (headers_value (c_headers r))); [|apply key_bytes; reflexivity | apply pv_hdrs; [apply (jd_hdr r D) | lia] | apply nonws_head; discriminate].
  destruct F as [|F]; [destruct (c_headers r); lia|]. rewrite pm_end. reflexivity.
Qed.

(* ---- lengths: the fuel json_decode_line gives is enough ---- *)
Lemma len_json_string s : (2 <= length (json_string s))%nat.
Proof. unfold json_string. cbn [length]. rewrite app_length. cbn. lia. Qed.

Lemma len_vals vs : forall f, (length vs <= length (vals_text vs f))%nat.
Proof.
  induction vs as [|x tl IH]; intros f; cbn [vals_text length]; [lia|]. rewrite !app_length.
  pose proof (len_json_string x). specialize (IH false). lia.
Qed.

Lemma len_hdr m : forall f, (length m + total_vals m <= length (hdr_members m f))%nat.
Proof.
  induction m as [|[k vs] tl IH]; intros f; cbn [hdr_members length total_vals fold_right snd]; [lia|].
  fold (total_vals tl). rewrite !app_length. pose proof (len_json_string k). pose proof (len_vals vs true). specialize (IH false).
  cbn [length]. lia.
Qed.

Lemma len_mem f k v rest : (3 + length v + length rest <= length (mem f k v rest))%nat.
Proof. unfold mem. rewrite !app_length. cbn [length]. rewrite app_length. pose proof (len_json_string k). lia. Qed.

Lemma len_members r rest : (12 + hneed r <= length (members_text r rest))%nat.
Proof.
  unfold members_text.
  set (m12 := mem false k_headers (json_headers (c_headers r)) rest).
  set (m11 := mem false k_url (json_string (c_url r)) m12). set (m10 := mem false k_method (json_string (c_method r)) m11).
  set (m9 := mem false k_body (body_text (c_body r)) m10). set (m8 := mem false k_error (json_string (c_error r)) m9).
  set (m7 := mem false k_bin (itoa (c_bin r)) m8). set (m6 := mem false k_bout (itoa (c_bout r)) m7).
  set (m5 := mem false k_lat (itoa (c_lat r)) m6). set (m4 := mem false k_ts (json_string (rfc3339 (c_ts r) (c_zone r))) m5).
  set (m3 := mem false k_code (itoa (c_code r)) m4). set (m2 := mem false k_seq (itoa (c_seq r)) m3).
  pose proof (len_mem false k_headers (json_headers (c_headers r)) rest) as L12. fold m12 in L12.
  pose proof (len_mem false k_url (json_string (c_url r)) m12) as L11. fold m11 in L11.
  pose proof (len_mem false k_method (json_string (c_method r)) m11) as L10. fold m10 in L10.
  pose proof (len_mem false k_body (body_text (c_body r)) m10) as L9. fold m9 in L9.
  pose proof (len_mem false k_error (json_string (c_error r)) m9) as L8. fold m8 in L8.
  pose proof (len_mem false k_bin (itoa (c_bin r)) m8) as L7. fold m7 in L7.
  pose proof (len_mem false k_bout (itoa (c_bout r)) m7) as L6. fold m6 in L6.
  pose proof (len_mem false k_lat (itoa (c_lat r)) m6) as L5. fold m5 in L5.
  pose proof (len_mem false k_ts (json_string (rfc3339 (c_ts r) (c_zone r))) m5) as L4. fold m4 in L4.
  pose proof (len_mem false k_code (itoa (c_code r)) m4) as L3. fold m3 in L3.
  pose proof (len_mem false k_seq (itoa (c_seq r)) m3) as L2. fold m2 in L2.
  pose proof (len_mem true k_attack (json_string (c_attack r)) m2) as L1.
  assert (hneed r <= 3 + length (json_headers (c_headers r)))%nat as Hh.
  { unfold hneed, json_headers. destruct (c_headers r) as [m|]; [|cbn; lia]. cbn [length]. rewrite app_length. pose proof (len_hdr m true). cbn [length]. lia. }
  lia.
Qed.

Ltac prj := cbn [c_attack c_seq c_code c_ts c_zone c_lat c_bout c_bin c_error c_body c_method c_url c_headers upd_attack res0].

(* ---- the round trip of one result through the JSON codec ---- *)
Lemma pv_object f t : parse_value (S f) (123 :: t) = parse_members f (skip_ws t) [] true.
Proof. reflexivity. Qed.

Lemma mem_true_nonws k v rest : nonws (mem true k v rest).
Proof. unfold mem, json_string. cbn [app]. apply nonws_head; discriminate. Qed.

Lemma members_text_nonws r rest : nonws (members_text r rest).
Proof. unfold members_text. apply mem_true_nonws. Qed.

Lemma json_line_parses r : jres_dom r ->
  parse_value (S (S (length (123 :: members_text r [125])))) (123 :: members_text r [125]) = Some (JObj (members_value r), []).
Proof.
  intros D. rewrite pv_object. rewrite (members_text_nonws r [125]).
  apply members_parse; [exact D|]. pose proof (len_members r [125]). cbn [length]. lia.
Qed.

(* the component lemmas carry everything: keep the big definitions folded for the kernel too *)
Opaque set_field parse_value parse_members parse_elems json_unescape json_escape rfc3339 parse_rfc3339 itoa b64_encode b64_decode members_text json_headers.
Theorem json_record_roundtrip_lemma r : jres_dom r ->
  exists r', json_decode_line (123 :: members_text r [125]) = Some r' /\ cres_equal r r' = true.
Proof.
  intros D. unfold json_decode_line.
  pose proof (json_line_parses r D) as Pv.
  rewrite Pv. cbn [skip_ws]. unfold members_value.
  set (F := fun (acc : option cres) (kv : list Z * jv) => match acc with Some r0 => set_field r0 (fst kv) (snd kv) | None => None end).
  assert (forall k v tl r0, fold_left F ((k, v) :: tl) (Some r0) = fold_left F tl (set_field r0 k v)) as Fs by reflexivity.
  rewrite Fs, sf_attack; prj. rewrite Fs, sf_seq by apply (jd_seq r D); prj. rewrite Fs, sf_code by apply (jd_code r D); prj.
  rewrite Fs, sf_ts by (try apply (jd_zone r D); apply (jd_ts r D)); prj.
  rewrite Fs, sf_lat by apply (jd_lat r D); prj. rewrite Fs, sf_bout by apply (jd_bout r D); prj. rewrite Fs, sf_bin by apply (jd_bin r D); prj.
  rewrite Fs, sf_error; prj.
  assert (forall r0, exists b', set_field r0 k_body (body_value (c_body r)) =
            Some {| c_attack := c_attack r0; c_seq := c_seq r0; c_code := c_code r0; c_ts := c_ts r0; c_zone := c_zone r0; c_lat := c_lat r0;
                    c_bout := c_bout r0; c_bin := c_bin r0; c_error := c_error r0; c_body := b'; c_method := c_method r0; c_url := c_url r0; c_headers := c_headers r0 |}
            /\ opt_bytes b' = opt_bytes (match c_body r with None => c_body r0 | Some b => Some b end)) as Hbody.
  { intros r0. pose proof (jd_body r D) as Hb. destruct (c_body r) as [b|]; cbn [body_value opt_bytes] in *.
    - eexists. split; [apply sf_body; exact Hb | reflexivity].
    - eexists. split; [apply sf_null | reflexivity]. }
  rewrite Fs. match goal with |- context [set_field ?r0 k_body _] => destruct (Hbody r0) as (b' & Eb & Ob) end. rewrite Eb; prj. cbn [c_body] in Ob.
  rewrite Fs, sf_method; prj. rewrite Fs, sf_url; prj.
  assert (forall r0, c_headers r0 = None -> exists h', set_field r0 k_headers (headers_value (c_headers r)) =
            Some {| c_attack := c_attack r0; c_seq := c_seq r0; c_code := c_code r0; c_ts := c_ts r0; c_zone := c_zone r0; c_lat := c_lat r0;
                    c_bout := c_bout r0; c_bin := c_bin r0; c_error := c_error r0; c_body := c_body r0; c_method := c_method r0; c_url := c_url r0; c_headers := h' |}
            /\ h' = c_headers r) as Hhdr.
  { intros r0 H0. pose proof (jd_hdr r D) as Hh. destruct (c_headers r) as [m|]; cbn [headers_value].
    - eexists. split; [apply sf_headers; apply Hh | reflexivity].
    - eexists. split; [rewrite sf_null, H0; reflexivity | reflexivity]. }
  rewrite Fs. match goal with |- context [set_field ?r0 k_headers _] => destruct (Hhdr r0 eq_refl) as (h' & Eh & Oh) end. rewrite Eh; prj.
  cbn [fold_left].
  eexists. split; [reflexivity|].
  unfold cres_equal. cbn [c_attack c_seq c_code c_ts c_lat c_bin c_bout c_error c_body c_method c_url c_headers upd_attack res0].
  rewrite !str_eqb_refl, !Z.eqb_refl. cbn [andb].
  assert (str_eqb (opt_bytes (c_body r)) (opt_bytes b') = true) as ->.
  { rewrite Ob. cbn [c_body res0]. destruct (c_body r); cbn [opt_bytes]; apply str_eqb_refl. }
  cbn [andb]. subst h'. pose proof (jd_hdr r D) as Hh. destruct (c_headers r) as [m|]; [|reflexivity].
  cbn [headers_equal]. rewrite Nat.eqb_refl. destruct Hh as [_ Hn].
  rewrite (hmap_incl_perm m m Hn (fun kv H => H)). reflexivity.
Qed.
Transparent set_field parse_value parse_members parse_elems json_unescape json_escape rfc3339 parse_rfc3339 itoa b64_encode b64_decode members_text json_headers.

(* ================= streams: one line per record, no raw line break inside ================= *)
Definition no10 (s : list Z) : Prop := ~ In 10 s.

Lemma no10_app a b : no10 a -> no10 b -> no10 (a ++ b).
Proof. unfold no10. intros Ha Hb H. apply in_app_or in H as [H|H]; auto. Qed.

Lemma no10_cons c s : c <> 10 -> no10 s -> no10 (c :: s).
Proof. unfold no10. intros Hc Hs [H|H]; [congruence | auto]. Qed.

Lemma hexd_no10 v : 0 <= v < 16 -> hexd v <> 10.
Proof. intros H. unfold hexd. destruct (v <? 10) eqn:E; [apply Z.ltb_lt in E | apply Z.ltb_ge in E]; lia. Qed.

Lemma escape_no10_len n : forall s, (length s <= n)%nat -> Forall jbyte s -> no10 (json_escape s).
Proof.
  induction n as [|n IH]; intros s Hl Hb.
  - destruct s; [intros []|cbn in Hl; lia].
  - destruct s as [|c tl]; [intros []|]. inversion Hb as [|? ? Hc Ht]; subst. cbn [length] in Hl. unfold jbyte in Hc.
    assert (no10 (json_escape tl)) as Itl by (apply IH; [lia | exact Ht]).
    cbn [json_escape]. destruct (c <? 128) eqn:E128.
    + apply Z.ltb_lt in E128.
      destruct (c =? 9); [repeat apply no10_cons; try discriminate; exact Itl|].
      destruct (c =? 13); [repeat apply no10_cons; try discriminate; exact Itl|].
      destruct (c =? 10) eqn:E10; [repeat apply no10_cons; try discriminate; exact Itl|]. apply Z.eqb_neq in E10.
      destruct (c =? 92); [repeat apply no10_cons; try discriminate; exact Itl|].
      destruct (c =? 34); [repeat apply no10_cons; try discriminate; exact Itl|].
      destruct ((c <? 32) || (c =? 38) || (c =? 60) || (c =? 62)).
      * repeat apply no10_cons; try discriminate; try (apply hexd_no10; lia); exact Itl.
      * apply no10_cons; assumption.
    + apply Z.ltb_ge in E128. assert (c <> 10) as Nc by lia.
      destruct tl as [|b [|d tl3]]; try (apply no10_cons; assumption).
      destruct ((c =? 226) && (b =? 128) && ((d =? 168) || (d =? 169))) eqn:E; [|apply no10_cons; assumption].
      apply andb_true_iff in E as [_ Ed]. apply orb_true_iff in Ed.
      inversion Ht as [|? ? _ Ht2]; subst. inversion Ht2 as [|? ? _ Ht3]; subst.
      assert (no10 (json_escape tl3)) as I3 by (apply IH; [cbn [length] in Hl; lia | exact Ht3]).
      repeat apply no10_cons; try discriminate; [|exact I3].
      destruct Ed as [X|X]; apply Z.eqb_eq in X; subst d; discriminate.
Qed.

Lemma json_string_no10 s : Forall jbyte s -> no10 (json_string s).
Proof.
  intros H. unfold json_string. apply no10_cons; [discriminate|]. apply no10_app; [apply (escape_no10_len (length s)); [lia | exact H]|].
  apply no10_cons; [discriminate | intros []].
Qed.

Lemma itoa_no10 n : no10 (itoa n).
Proof.
  pose proof (itoa_numch n) as H. intros X. rewrite forallb_forall in H. specialize (H 10 X). discriminate.
Qed.

Lemma mem_no10 f k v rest : Forall jbyte k -> no10 v -> no10 rest -> no10 (mem f k v rest).
Proof.
  intros Hk Hv Hr. unfold mem. apply no10_app; [destruct f; [intros [] | apply no10_cons; [discriminate | intros []]]|].
  apply no10_app; [apply json_string_no10, Hk|]. apply no10_cons; [discriminate|]. apply no10_app; assumption.
Qed.

Lemma vals_no10 vs : forall f, Forall (Forall jbyte) vs -> no10 (vals_text vs f).
Proof.
  induction vs as [|x tl IH]; intros f H; cbn [vals_text]; [intros []|]. inversion H; subst.
  apply no10_app; [destruct f; [intros [] | apply no10_cons; [discriminate | intros []]]|].
  apply no10_app; [apply json_string_no10; assumption | apply IH; assumption].
Qed.

Lemma hdr_no10 m : forall f, hdr_bytes m -> no10 (hdr_members m f).
Proof.
  induction m as [|[k vs] tl IH]; intros f H; cbn [hdr_members]; [intros []|]. inversion H as [|? ? [Hk Hv] Ht]; subst. cbn [fst snd] in *.
  apply no10_app; [destruct f; [intros [] | apply no10_cons; [discriminate | intros []]]|].
  apply no10_app; [apply json_string_no10, Hk|]. apply no10_app; [repeat apply no10_cons; try discriminate; intros []|].
  apply no10_app; [apply vals_no10, Hv|]. apply no10_app; [apply no10_cons; [discriminate | intros []] | apply IH, Ht].
Qed.

Lemma members_no10 r rest : jres_dom r -> no10 rest -> no10 (members_text r rest).
Proof.
  intros D Hr. unfold members_text.
  repeat (apply mem_no10; [apply key_bytes; reflexivity | |]);
    try apply itoa_no10; try (apply json_string_no10; first [apply (jd_attack r D) | apply (jd_error r D) | apply (jd_method r D) | apply (jd_url r D) | apply plain_jbyte, rfc3339_plain]);
    try exact Hr.
  - unfold body_text. destruct (c_body r) as [b|] eqn:Eb; [|repeat apply no10_cons; try discriminate; intros []].
    apply json_string_no10, plain_jbyte, b64_plain. pose proof (jd_body r D) as Hb. rewrite Eb in Hb. exact Hb.
  - unfold json_headers. pose proof (jd_hdr r D) as Hh. destruct (c_headers r) as [m|]; [|repeat apply no10_cons; try discriminate; intros []].
    apply no10_cons; [discriminate|]. apply no10_app; [apply hdr_no10, Hh | apply no10_cons; [discriminate | intros []]].
Qed.

From V Require Import Proofs.FramingProofs.

Definition json_line (r : cres) : list Z := 123 :: members_text r [125].

Lemma mem_app f k v a b : mem f k v (a ++ b) = mem f k v a ++ b.
Proof. unfold mem. rewrite <- !app_assoc. cbn [app]. rewrite <- app_assoc. reflexivity. Qed.

Lemma members_text_app r a b : members_text r (a ++ b) = members_text r a ++ b.
Proof. unfold members_text. rewrite !mem_app. reflexivity. Qed.

Lemma json_encode_line r : forallb Base64.is_byte (opt_bytes (c_body r)) = true -> json_encode r = json_line r ++ [10].
Proof.
  intros H. rewrite (json_encode_members r H). unfold json_line. cbn [app]. f_equal.
  change [125; 10] with ([125] ++ [10]). apply members_text_app.
Qed.

(* every stream of results in the domain: encoding with the JSON encoder writes one line per
   result without a raw line break inside, and decoding returns an equal sequence *)
Theorem json_stream_roundtrip_lemma rs : Forall jres_dom rs ->
  exists rs', json_decode_all (flat_map json_encode rs) = Some rs' /\ Forall2 (fun a b => cres_equal a b = true) rs rs'.
Proof.
  intros HD. unfold json_decode_all.
  assert (flat_map json_encode rs = enc_lines (map json_line rs) ++ []) as ->.
  { rewrite app_nil_r. unfold enc_lines. rewrite map_map, flat_map_concat_map. f_equal.
    apply map_ext_in. intros r Hr. rewrite Forall_forall in HD. apply json_encode_line, (jd_body r (HD r Hr)). }
  rewrite read_lines_complete.
  - clear - HD. induction rs as [|r tl IH]; cbn [map fold_right].
    + exists []. split; [reflexivity | constructor].
    + inversion HD as [|? ? D1 D2]; subst. destruct (json_record_roundtrip_lemma r D1) as (r' & E1 & Q1).
      destruct (IH D2) as (tl' & E2 & Q2). unfold json_line at 1. rewrite E1, E2. exists (r' :: tl'). split; [reflexivity | constructor; assumption].
  - apply Forall_forall. intros l Hl. apply in_map_iff in Hl as (r & <- & Hr). rewrite Forall_forall in HD.
    unfold json_line. apply no10_cons; [discriminate|]. apply members_no10; [apply HD, Hr | apply no10_cons; [discriminate | intros []]].
  - intros [].
Qed.
