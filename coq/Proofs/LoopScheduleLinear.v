(* the linear pacer's closed-loop bound carried to the attack LTS (see LoopScheduleProofs.v) *)
From Coq Require Import ZArith QArith Qround List Bool Lia Lqa.
From V Require Import Model.Pacer Model.LinearPacer Proofs.LinearProofs Model.AttackLTS Proofs.AttackProofs Proofs.LoopScheduleProofs.
Import ListNotations.
Open Scope Q_scope.

Lemma lin_loop_lts_lemma : forall F P a c s, 0 <= a -> (0 < F)%Z -> (0 < P)%Z -> reachable c s ->
  (forall e h w, In (e, h, w, false) (paces s) -> lin_dom F P a e h /\ lin_pace_o F P a e h = Wait w) ->
  lin_adm F P a (now s) (count s) /\ (AttackLTS.seq s <= count s)%Z.
Proof.
  intros F P a c s Ha HF HP R Hp.
  destruct (loop_on_schedule_lemma (lin_pace_o F P a) (lin_adm F P a) (lin_dom F P a)) with (c := c) (s := s) as (A & _ & B).
  - intros t t' k Adm Ht. unfold lin_adm in *. pose proof (lin_H_mono_all F P a t t' Ha HF HP Ht). lra.
  - intros t k w (Dt & Dk & Dr) Adm E. unfold lin_pace_o in E.
    destruct (lin_pace F P a t k) as [w'| |] eqn:E'; try discriminate. injection E as <-.
    eapply lin_adm_step; eassumption.
  - unfold lin_adm. pose proof (lin_H_nonneg F P a 0 Ha HF HP ltac:(lia)). change (inject_Z 0) with 0. lra.
  - exact R.
  - exact Hp.
  - split; [exact A | exact B].
Qed.
