From Coq Require Import ZArith List Bool Arith Lia Permutation.
From V Require Import Model.Dial.
Import ListNotations.

Lemma first_of_each_incl ips : incl (first_of_each ips) ips.
Proof.
  destruct ips as [|x tl]; cbn; [apply incl_nil_l|].
  destruct (find (fun y => negb (Bool.eqb (snd y) (snd x))) tl) as [y|] eqn:F.
  - apply find_some in F as (Hin & _). intros z [<-|[<-|[]]]; [left; reflexivity | right; exact Hin].
  - intros z [<-|[]]. left. reflexivity.
Qed.

Lemma first_of_each_len ips : (length (first_of_each ips) <= 2)%nat.
Proof. destruct ips as [|x tl]; cbn; [lia|]. destruct (find (fun y => negb (Bool.eqb (snd y) (snd x))) tl); cbn; lia. Qed.

(* at most one address per family, and one for every family that is present *)
Lemma first_of_each_families ips :
  NoDup (map snd (first_of_each ips)) /\
  forall fam, (exists a, In a ips /\ snd a = fam) -> exists b, In b (first_of_each ips) /\ snd b = fam.
Proof.
  destruct ips as [|x tl]; cbn.
  - split; [constructor | intros fam (a & [] & _)].
  - destruct (find (fun y => negb (Bool.eqb (snd y) (snd x))) tl) as [y|] eqn:F.
    + pose proof (find_some _ _ F) as (Hin & Hd). apply negb_true_iff in Hd. split.
      * cbn. constructor; [|constructor; [intros [] | constructor]].
        intros [E|[]]. rewrite E in Hd. destruct (snd x); discriminate.
      * intros fam (a & _ & <-). destruct (Bool.eqb (snd a) (snd x)) eqn:E.
        -- apply eqb_prop in E. exists x. split; [left; reflexivity | congruence].
        -- exists y. split; [right; left; reflexivity|].
           destruct (snd a), (snd x), (snd y); cbn in *; congruence.
    + split; [cbn; constructor; [intros [] | constructor]|].
      intros fam (a & Ha & <-). exists x. split; [left; reflexivity|].
      destruct Ha as [<-|Ha]; [reflexivity|].
      pose proof (find_none _ _ F a Ha) as N. apply negb_false_iff, eqb_prop in N. congruence.
Qed.

(* every resolved address can be the one that is dialled: put it first *)
Lemma every_address_possible_lemma cache a : In a cache ->
  exists shuffled, Permutation cache shuffled /\ In a (first_of_each shuffled).
Proof.
  intros H. apply in_split in H as (l1 & l2 & ->). exists (a :: l1 ++ l2). split.
  - apply Permutation_sym, Permutation_middle.
  - cbn. left. reflexivity.
Qed.

Lemma dial_fixed_preserves cache shuffled : snd (dial_fixed cache shuffled) = cache.
Proof. reflexivity. Qed.

(* the pinned in-place dial loses an address for good *)
Lemma cache_collapse_refuted_lemma :
  exists shuffled, ~ Permutation (snd (dial_pinned shuffled)) shuffled.
Proof.
  exists [(1, true); (2, true); (3, false)]%Z. cbn. intros P.
  assert (In (2%Z, true) [(1, true); (3, false); (3, false)]%Z) as H
    by (eapply Permutation_in; [apply Permutation_sym; exact P | right; left; reflexivity]).
  cbn in H. repeat (destruct H as [H|H]; [discriminate|]). exact H.
Qed.

(* ---- rotation: any window of n consecutive counter values spreads evenly over k slots ------ *)
Lemma mod_inj_window k a i j : (0 < k)%nat -> (i < k)%nat -> (j < k)%nat ->
  (a + i) mod k = (a + j) mod k -> i = j.
Proof.
  intros Hk Hi Hj E.
  pose proof (Nat.div_mod (a + i) k ltac:(lia)) as D1. pose proof (Nat.div_mod (a + j) k ltac:(lia)) as D2.
  rewrite E in D1. assert ((a + i) / k = (a + j) / k \/ (a + i) / k < (a + j) / k \/ (a + j) / k < (a + i) / k)%nat as [Q|[Q|Q]] by lia.
  - rewrite Q in D1. lia.
  - exfalso. assert (k * ((a + i) / k) + k <= k * ((a + j) / k))%nat by nia. lia.
  - exfalso. assert (k * ((a + j) / k) + k <= k * ((a + i) / k))%nat by nia. lia.
Qed.

Lemma window_nodup k a r : (0 < k)%nat -> (r <= k)%nat -> NoDup (map (fun i => i mod k) (seq a r)).
Proof.
  intros Hk Hr. rewrite <- (Nat.add_0_r a) at 1.
  assert (forall b, (b + r <= k)%nat -> NoDup (map (fun i => i mod k) (seq (a + b) r))) as K; [|apply (K 0%nat); lia].
  induction r as [|r IH]; intros b Hb; cbn; [constructor|].
  constructor.
  - intros Hin. apply in_map_iff in Hin as (x & E & Hx). apply in_seq in Hx.
    replace x with (a + (x - a))%nat in E by lia.
    apply mod_inj_window in E; lia.
  - replace (S (a + b)) with (a + S b)%nat by lia. apply IH; lia.
Qed.

Lemma block_count k a j : (0 < k)%nat -> (j < k)%nat ->
  count_occ Nat.eq_dec (map (fun i => i mod k) (seq a k)) j = 1%nat.
Proof.
  intros Hk Hj. pose proof (window_nodup k a k Hk (le_n k)) as ND.
  assert (In j (map (fun i => i mod k) (seq a k))) as Hin.
  { assert (incl (seq 0 k) (map (fun i => i mod k) (seq a k))) as I.
    { apply NoDup_length_incl; [exact ND | rewrite map_length, !seq_length; lia|].
      intros x Hx. apply in_map_iff in Hx as (y & <- & _). apply in_seq. split; [lia|].
      apply Nat.mod_upper_bound. lia. }
    apply I, in_seq. lia. }
  apply (NoDup_count_occ' Nat.eq_dec) in Hin; assumption.
Qed.

Lemma count_occ_app' (l1 l2 : list nat) j :
  count_occ Nat.eq_dec (l1 ++ l2) j = (count_occ Nat.eq_dec l1 j + count_occ Nat.eq_dec l2 j)%nat.
Proof. apply count_occ_app. Qed.

Lemma rotation_even_lemma k : (0 < k)%nat -> forall q r a j, (r < k)%nat -> (j < k)%nat ->
  (q <= count_occ Nat.eq_dec (rot_draws k a (q * k + r)) j <= q + 1)%nat.
Proof.
  intros Hk q. unfold rot_draws. induction q as [|q IH]; intros r a j Hr Hj.
  - cbn [Nat.mul Nat.add]. pose proof (window_nodup k a r Hk ltac:(lia)) as ND.
    pose proof (proj1 (NoDup_count_occ Nat.eq_dec _) ND j). lia.
  - replace (S q * k + r)%nat with (k + (q * k + r))%nat by lia.
    rewrite seq_app, map_app, count_occ_app', (block_count k a j Hk Hj).
    specialize (IH r (a + k)%nat j Hr Hj). lia.
Qed.
