(* C16: the fuel of the HTTP target parser's loops is never exhausted: with any larger fuel every
   call returns the same result, for every input (each iteration consumes a line). *)
From Coq Require Import ZArith List Bool Lia Arith.
From V Require Import Base.Duration Base.Str Model.Flags Model.Targets Proofs.TotalityProofs.
Import ListNotations.
Open Scope Z_scope.

Lemma skip_fuel f1 : forall f2 s, (pmeasure s < f1)%nat -> (pmeasure s < f2)%nat ->
  skip_to_request f1 s = skip_to_request f2 s.
Proof.
  induction f1 as [|f1 IH]; intros f2 s H1 H2; [lia|]. destruct f2 as [|f2]; [lia|]. cbn [skip_to_request].
  pose proof (scan_text_consumes s) as K. destruct (sc_scan s) as [ok s1]. destruct ok; cbn [negb]; [|reflexivity].
  destruct (sc_text s1) as [t s2]. destruct (K eq_refl) as [K1 _].
  assert (skip_to_request f1 s2 = skip_to_request f2 s2) as E by (apply IH; lia).
  destruct (trim_space t) as [|c tl]; [exact E|].
  destruct c as [|p|p]; try reflexivity. do 6 (try (destruct p as [p|p|]; try reflexivity)). exact E.
Qed.

Lemma sc_peek_peeked s : peeked s = [] -> let '(p, s1) := sc_peek s in
  (pmeasure s1 <= pmeasure s)%nat /\ (peeked s1 = [] \/ (peeked s1 = p /\ p <> [] /\ (pmeasure s1 = pmeasure s)%nat /\ rest s1 = tl (rest s))).
Proof.
  intros P. unfold sc_peek, pmeasure. rewrite P. destruct (rest s) as [|l r] eqn:R; cbn [peeked rest length tl].
  - rewrite P, R. cbn. split; [lia | left; reflexivity].
  - destruct l as [|c l']; cbn; [split; [lia | left; reflexivity]|].
    split; [lia | right; repeat split; try discriminate; lia].
Qed.

(* peeking: comments are consumed one per iteration *)
Lemma peek_fuel fixed f1 : forall f2 s, peeked s = [] -> (length (rest s) < f1)%nat -> (length (rest s) < f2)%nat ->
  peek_past_comments fixed f1 s = peek_past_comments fixed f2 s.
Proof.
  induction f1 as [|f1 IH]; intros f2 s P H1 H2; [lia|]. destruct f2 as [|f2]; [lia|]. cbn [peek_past_comments].
  unfold sc_peek. destruct (rest s) as [|l r] eqn:R.
  { change (is_comment (trim_space [])) with false. rewrite !Bool.andb_false_r. reflexivity. }
  destruct (fixed && is_comment (trim_space l)); [|reflexivity].
  unfold sc_text. cbn [peeked rest cur]. destruct l as [|c l'].
  - (* an empty line is not a comment: is_comment [] = false, handled above only if the test was true *)
    cbn [length] in *. apply IH; cbn [peeked rest]; [reflexivity | lia | lia].
  - cbn [length] in *. apply IH; cbn [peeked rest]; [reflexivity | lia | lia].
Qed.

Lemma header_fuel f1 : forall f2 fs s body h, (pmeasure s < f1)%nat -> (pmeasure s < f2)%nat ->
  header_loop f1 fs s body h = header_loop f2 fs s body h.
Proof.
  induction f1 as [|f1 IH]; intros f2 fs s body h H1 H2; [lia|]. destruct f2 as [|f2]; [lia|]. cbn [header_loop].
  pose proof (scan_text_consumes s) as K. destruct (sc_scan s) as [ok s1]. destruct ok; cbn [negb]; [|reflexivity].
  destruct (sc_text s1) as [t s2]. destruct (K eq_refl) as [K1 _].
  assert (forall b' h', header_loop f1 fs s2 b' h' = header_loop f2 fs s2 b' h') as E by (intros; apply IH; lia).
  destruct (trim_space t) as [|c tl]; [reflexivity|].
  assert (match splitn2 58 (c :: tl) [] with
          | (_, None) => (None, 5, s2)
          | (k, Some v) => match trim_space k, trim_space v with
                           | [], _ => (None, 5, s2) | _, [] => (None, 5, s2)
                           | _, _ => header_loop f1 fs s2 body (happend (trim_space k) (trim_space v) h) end end =
          match splitn2 58 (c :: tl) [] with
          | (_, None) => (None, 5, s2)
          | (k, Some v) => match trim_space k, trim_space v with
                           | [], _ => (None, 5, s2) | _, [] => (None, 5, s2)
                           | _, _ => header_loop f2 fs s2 body (happend (trim_space k) (trim_space v) h) end end) as G.
  { destruct (splitn2 58 (c :: tl) []) as [k [v|]]; [|reflexivity]. destruct (trim_space k); [reflexivity|].
    destruct (trim_space v); [reflexivity | apply E]. }
  destruct c as [|p|p]; [exact G | | exact G].
  do 7 (try (destruct p as [p|p|])); first [exact G | apply E | reflexivity].
Qed.

(* http_next with explicit fuels *)
Definition http_next_f (f1 f2 f3 : nat) (fixed : bool) (fs : files) (dbody : list Z) (dhdr : hmap) (s : psc) : tres * psc :=
  match skip_to_request f1 s with
  | (None, s1) => (TNoTargets, s1)
  | (Some line, s1) =>
      match splitn2 32 line [] with
      | (_, None) => (TErr 1, s1)
      | (m, Some u) =>
          if negb (starts_with_method line) then (TErr 2, s1) else
          if negb (url_ok u) then (TErr 3, s1) else
          let '(pl, s2) := peek_past_comments fixed f2 s1 in
          if match pl with [] => true | _ => starts_with_method pl end
          then (TOk {| t_method := m; t_url := u; t_body := dbody; t_header := dhdr |}, s2)
          else match header_loop f3 fs s2 dbody dhdr with
               | (Some (b, h), _, s3) => (TOk {| t_method := m; t_url := u; t_body := b; t_header := h |}, s3)
               | (None, code, s3) => (TErr code, s3)
               end
      end
  end.

Lemma http_next_is_f fixed fs db dh s :
  http_next fixed fs db dh s = http_next_f (S (S (length (rest s)))) (S (length (rest s))) (S (S (length (rest s)))) fixed fs db dh s.
Proof. reflexivity. Qed.

Lemma pmeasure_bound s : (pmeasure s <= S (length (rest s)))%nat.
Proof. unfold pmeasure. destruct (peeked s); lia. Qed.

Theorem http_fuel_suffices_lemma fixed fs db dh s f1 f2 f3 :
  (S (S (length (rest s))) <= f1)%nat -> (S (length (rest s)) <= f2)%nat -> (S (S (length (rest s))) <= f3)%nat ->
  http_next_f f1 f2 f3 fixed fs db dh s = http_next fixed fs db dh s.
Proof.
  intros H1 H2 H3. rewrite http_next_is_f. unfold http_next_f. pose proof (pmeasure_bound s) as B.
  rewrite (skip_fuel f1 (S (S (length (rest s)))) s) by lia.
  pose proof (skip_measure (S (S (length (rest s)))) s) as K.
  destruct (skip_to_request (S (S (length (rest s)))) s) as [[line|] s1]; [|reflexivity].
  destruct K as [K0 K]. destruct (K ltac:(discriminate)) as [K1 K2].
  destruct (splitn2 32 line []) as [m [u|]]; [|reflexivity].
  destruct (negb (starts_with_method line)); [reflexivity|]. destruct (negb (url_ok u)); [reflexivity|].
  assert (length (rest s1) = pmeasure s1) as Er by (unfold pmeasure; rewrite K2; lia).
  rewrite (peek_fuel fixed f2 (S (length (rest s))) s1 K2) by lia.
  pose proof (peek_measure fixed (S (length (rest s))) s1 K2) as P.
  destruct (peek_past_comments fixed (S (length (rest s))) s1) as [pl s2]. cbv beta iota in P.
  destruct (match pl with [] => true | _ :: _ => starts_with_method pl end); [reflexivity|].
  rewrite (header_fuel f3 (S (S (length (rest s)))) fs s2 db dh) by lia. reflexivity.
Qed.
