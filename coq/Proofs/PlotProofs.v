From Coq Require Import ZArith List Bool Lia Sorting.Sorted Permutation.
From V Require Import Model.Plot.
Import ListNotations.
Open Scope Z_scope.

(* ---- LTTB ------------------------------------------------------------------------------------ *)
Lemma lo_bound_step count th i : 3 <= th < count -> 0 <= i ->
  lo_bound count th i + 1 <= lo_bound count th (i + 1).
Proof.
  intros H Hi. unfold lo_bound.
  replace ((i + 1 + 1) * (count - 2)) with ((i + 1) * (count - 2) + (count - 2)) by lia.
  assert (((i + 1) * (count - 2) + (th - 2)) / (th - 2) <= ((i + 1) * (count - 2) + (count - 2)) / (th - 2)) as M
    by (apply Z.div_le_mono; lia).
  replace ((i + 1) * (count - 2) + (th - 2)) with ((i + 1) * (count - 2) + 1 * (th - 2)) in M by lia.
  rewrite Z.div_add in M by lia. lia.
Qed.

Lemma lo_bound_first count th : 3 <= th < count -> lo_bound count th 0 = 1 + (count - 2) / (th - 2) /\ 2 <= lo_bound count th 0.
Proof.
  intros H. unfold lo_bound. rewrite Z.mul_1_l. split; [lia|].
  assert (1 <= (count - 2) / (th - 2)) by (apply Z.div_le_lower_bound; lia). lia.
Qed.

Lemma lo_bound_last count th : 3 <= th < count -> lo_bound count th (th - 3) = count - 1.
Proof.
  intros H. unfold lo_bound. replace (th - 3 + 1) with (th - 2) by lia.
  rewrite Z.mul_comm, Z.div_mul by lia. lia.
Qed.

Lemma lo_bound_mono count th i j : 3 <= th < count -> 0 <= i <= j -> lo_bound count th i <= lo_bound count th j.
Proof.
  intros H Hij. unfold lo_bound. assert ((i + 1) * (count - 2) / (th - 2) <= (j + 1) * (count - 2) / (th - 2)); [|lia].
  apply Z.div_le_mono; [lia|]. apply Z.mul_le_mono_nonneg_r; lia.
Qed.

Lemma bucket_nonempty count th i : 3 <= th < count -> 0 <= i <= th - 3 ->
  let '(l, h) := bucket count th i in 1 <= l /\ l < h /\ h <= count - 1.
Proof.
  intros H Hi. unfold bucket. destruct (i =? 0) eqn:E.
  - apply Z.eqb_eq in E. subst i. destruct (lo_bound_first count th H) as (E1 & E2).
    rewrite <- E1. split; [lia|]. split; [lia|].
    rewrite <- (lo_bound_last count th H). apply lo_bound_mono; lia.
  - apply Z.eqb_neq in E. pose proof (lo_bound_step count th (i - 1) H ltac:(lia)) as S.
    replace (i - 1 + 1) with i in S by lia.
    destruct (lo_bound_first count th H) as (_ & E2).
    pose proof (lo_bound_mono count th 0 (i - 1) H ltac:(lia)).
    split; [lia|]. split; [lia|].
    rewrite <- (lo_bound_last count th H). apply lo_bound_mono; lia.
Qed.

Lemma bucket_chain count th i : 3 <= th < count -> 0 <= i -> snd (bucket count th i) = fst (bucket count th (i + 1)).
Proof.
  intros H Hi. unfold bucket. destruct (i =? 0) eqn:E.
  - apply Z.eqb_eq in E. subst i. cbn [Z.add]. replace (0 + 1 =? 0) with false by reflexivity. cbn [fst snd].
    replace (0 + 1 - 1) with 0 by lia. symmetry. apply lo_bound_first, H.
  - assert (i + 1 =? 0 = false) as -> by (apply Z.eqb_neq; lia). cbn [fst snd]. f_equal. lia.
Qed.

Definition pick_ok (pick : Z -> Z -> Z -> Z) : Prop := forall i l h, l < h -> l <= pick i l h < h.

(* strictly increasing list of integers, each between its own bounds *)
Lemma picks_sorted count th pick n : 3 <= th < count -> pick_ok pick -> forall s, 0 <= s -> s + Z.of_nat n <= th - 2 ->
  let l := map (fun i => let '(lo, hi) := bucket count th i in pick i lo hi) (map Z.of_nat (seq (Z.to_nat s) n)) in
  StronglySorted Z.lt l /\
  Forall (fun x => fst (bucket count th s) <= x < count - 1) l.
Proof.
  intros H P. induction n as [|n IH]; intros s Hs Hn; cbn [seq map]; [split; constructor|].
  rewrite Z2Nat.id by lia.
  pose proof (bucket_nonempty count th s H ltac:(lia)) as B. destruct (bucket count th s) as [lo hi] eqn:EB.
  destruct B as (B1 & B2 & B3). pose proof (P s lo hi B2) as Pk.
  specialize (IH (s + 1) ltac:(lia) ltac:(lia)).
  replace (S (Z.to_nat s)) with (Z.to_nat (s + 1)) by lia.
  cbv zeta in IH. destruct IH as (IH1 & IH2).
  pose proof (bucket_chain count th s H Hs) as Ch. rewrite EB in Ch. cbn [snd] in Ch.
  split.
  - constructor; [exact IH1|]. eapply Forall_impl; [|exact IH2]. intros x Hx. cbn beta in Hx. lia.
  - constructor; [cbn [fst]; lia|]. eapply Forall_impl; [|exact IH2]. intros x Hx. cbn beta in Hx. cbn [fst]. lia.
Qed.

Lemma lttb_structure_lemma count th pick : 3 <= th < count -> pick_ok pick ->
  exists l, downsample count th pick = LPoints l /\
    Z.of_nat (length l) = th /\ StronglySorted Z.lt l /\
    hd 0 l = 0 /\ last l 0 = count - 1 /\ Forall (fun x => 0 <= x < count) l.
Proof.
  intros H P. unfold downsample.
  assert ((count <=? th) || (th =? 0) = false) as ->
    by (apply orb_false_iff; split; [apply Z.leb_gt | apply Z.eqb_neq]; lia).
  assert (th <? 3 = false) as -> by (apply Z.ltb_ge; lia).
  cbv zeta.
  assert (existsb (fun i => let '(l, h) := bucket count th i in h <=? l) (map Z.of_nat (seq 0 (Z.to_nat (th - 2)))) = false) as ->.
  { destruct (existsb _ _) eqn:E; [|reflexivity]. apply existsb_exists in E as (i & Hin & Hi).
    apply in_map_iff in Hin as (k & <- & Hk). apply in_seq in Hk.
    pose proof (bucket_nonempty count th (Z.of_nat k) H ltac:(lia)) as B.
    destruct (bucket count th (Z.of_nat k)) as [lo hi]. apply Z.leb_le in Hi. lia. }
  eexists. split; [reflexivity|].
  pose proof (picks_sorted count th pick (Z.to_nat (th - 2)) H P 0 ltac:(lia) ltac:(lia)) as (S1 & S2).
  cbv zeta in S1, S2. change (Z.to_nat 0) with 0%nat in S1, S2.
  set (picks := map (fun i => let '(lo, hi) := bucket count th i in pick i lo hi) (map Z.of_nat (seq 0 (Z.to_nat (th - 2))))) in *.
  assert (fst (bucket count th 0) = 1) as F0 by reflexivity. rewrite F0 in S2.
  assert (Z.of_nat (length picks) = th - 2) as Lp by (subst picks; rewrite !map_length, seq_length; lia).
  split; [cbn [length]; rewrite app_length; cbn [length]; lia|].
  split.
  - constructor.
    + (* picks ++ [count-1] sorted *)
      clear -S1 S2. induction picks as [|x tl IH]; cbn; [constructor; constructor|].
      inversion S1; subst. inversion S2; subst. constructor; [apply IH; assumption|].
      apply Forall_app. split; [assumption | constructor; [lia | constructor]].
    + apply Forall_app. split; [eapply Forall_impl; [|exact S2]; intros x Hx; cbn beta in Hx; lia | constructor; [lia | constructor]].
  - split; [reflexivity|]. split.
    + cbn [last]. destruct (picks ++ [count - 1]) eqn:E; [destruct picks; discriminate|]. rewrite <- E. apply last_last.
    + constructor; [lia|]. apply Forall_app. split; [eapply Forall_impl; [|exact S2]; intros x Hx; cbn beta in Hx; lia | constructor; [lia | constructor]].
Qed.

Lemma lttb_identity_lemma count th pick : 0 <= count -> (count <= th \/ th = 0) ->
  downsample count th pick = LPoints (map Z.of_nat (seq 0 (Z.to_nat count))).
Proof.
  intros Hc H. unfold downsample.
  assert ((count <=? th) || (th =? 0) = true) as ->; [|reflexivity].
  apply orb_true_iff. destruct H; [left; apply Z.leb_le | right; apply Z.eqb_eq]; lia.
Qed.

Lemma lttb_rejects_lemma count th pick : 0 < th < 3 -> th < count -> downsample count th pick = LErr.
Proof.
  intros H Hc. unfold downsample.
  assert ((count <=? th) || (th =? 0) = false) as ->
    by (apply orb_false_iff; split; [apply Z.leb_gt | apply Z.eqb_neq]; lia).
  assert (th <? 3 = true) as -> by (apply Z.ltb_lt; lia). reflexivity.
Qed.

(* the iterator is asked for exactly the points: the chunk sizes sum to at least count *)

(* ---- the re-ordering buffer -------------------------------------------------------------------- *)
Definition pt (began : Z) (r : pres) : point := (p_err r, (p_ts r - began) / 1000000, p_lat r).

Record wf_sorted (sorted : list pres) : Prop := {
  wf_seq : forall i r, nth_error sorted i = Some r -> p_seq r = Z.of_nat i;
  wf_ts : forall i j ri rj, (i <= j)%nat -> nth_error sorted i = Some ri -> nth_error sorted j = Some rj -> p_ts ri <= p_ts rj;
  wf_range : forall r r0, In r sorted -> nth_error sorted 0 = Some r0 -> p_ts r - p_ts r0 < two64 }.

Lemma wf_unique sorted a b : wf_sorted sorted -> In a sorted -> In b sorted -> p_seq a = p_seq b -> a = b.
Proof.
  intros W Ha Hb E. apply In_nth_error in Ha as (i & Hi). apply In_nth_error in Hb as (j & Hj).
  pose proof (wf_seq _ W i a Hi). pose proof (wf_seq _ W j b Hj). assert (i = j) by lia. subst j. congruence.
Qed.

Lemma buf_put_fresh r b : (forall x, In x b -> p_seq x <> p_seq r) -> buf_put r b = b ++ [r].
Proof.
  induction b as [|x tl IH]; intros H; cbn; [reflexivity|].
  destruct (p_seq x =? p_seq r) eqn:E; [apply Z.eqb_eq in E; exfalso; apply (H x); [left; reflexivity | exact E]|].
  rewrite IH; [reflexivity|]. intros y Hy. apply H. right. exact Hy.
Qed.

Lemma buf_take_spec k b :
  match buf_take k b with
  | Some (r, b') => exists b1 b2, b = b1 ++ r :: b2 /\ b' = b1 ++ b2 /\ p_seq r = k
  | None => forall x, In x b -> p_seq x <> k
  end.
Proof.
  induction b as [|y tl IH]; cbn; [tauto|].
  destruct (p_seq y =? k) eqn:E.
  - apply Z.eqb_eq in E. exists [], tl. repeat split; auto.
  - apply Z.eqb_neq in E. destruct (buf_take k tl) as [[r b']|].
    + destruct IH as (b1 & b2 & -> & -> & Hk). exists (y :: b1), b2. repeat split; auto.
    + intros x [->|H]; [exact E | apply IH, H].
Qed.

Lemma nth_error_firstn' {A} (l : list A) k i : (i < k)%nat -> nth_error (firstn k l) i = nth_error l i.
Proof.
  revert k i. induction l as [|x tl IH]; intros [|k] [|i] H; cbn; try reflexivity; try lia.
  apply IH. lia.
Qed.

Lemma expected_points_hd l r0 : nth_error l 0 = Some r0 -> expected_points l = map (pt (p_ts r0)) l.
Proof. destruct l as [|x tl]; cbn; [discriminate|]. intros E. injection E as ->. reflexivity. Qed.

Section Reorder.
  Variable sorted : list pres.
  Variable r0 : pres.
  Hypothesis W : wf_sorted sorted.
  Hypothesis Hr0 : nth_error sorted 0 = Some r0.
  Let n := Z.of_nat (length sorted).

  Record core (Sd : list pres) (s : ls) : Prop := {
    c_err : l_err s = false;
    c_next : 0 <= l_next s <= n;
    c_rel : l_rel s = map (pt (l_began s)) (firstn (Z.to_nat (l_next s)) sorted);
    c_buf : forall r, In r (l_buf s) -> In r Sd /\ l_next s <= p_seq r;
    c_nodup : NoDup (map p_seq (l_buf s));
    c_S : forall r, In r Sd -> p_seq r < l_next s \/ In r (l_buf s);
    c_incl : incl Sd sorted;
    c_prefix : forall i r, (Z.of_nat i < l_next s) -> nth_error sorted i = Some r -> In r Sd }.

  Definition at_rest (s : ls) : Prop := forall r, In r (l_buf s) -> l_next s < p_seq r.

  Lemma firstn_snoc (l : list pres) k r : nth_error l k = Some r -> firstn (S k) l = firstn k l ++ [r].
  Proof.
    revert k. induction l as [|x tl IH]; intros [|k] H; cbn in *; try discriminate.
    - injection H as ->. reflexivity.
    - f_equal. apply IH, H.
  Qed.

  Lemma prev_of_le began k lab xk :
    (forall i r, (i < k)%nat -> nth_error sorted i = Some r -> (p_ts r - began) / 1000000 <= xk) -> 0 <= xk ->
    prev_of lab (map (pt began) (firstn k sorted)) <= xk.
  Proof.
    intros Hall H0. unfold prev_of.
    destruct (filter _ _) as [|[[l x] v] tl] eqn:F; [exact H0|].
    assert (In (l, x, v) (filter (fun q => Bool.eqb (fst (fst q)) lab) (rev (map (pt began) (firstn k sorted))))) as Hin
      by (rewrite F; left; reflexivity).
    apply filter_In in Hin as (Hin & _). apply in_rev in Hin. apply in_map_iff in Hin as (r & E & Hr).
    apply In_nth_error in Hr as (i & Hi).
    assert (i < k)%nat as Hik.
    { assert (nth_error (firstn k sorted) i <> None) as Hn by congruence.
      apply nth_error_Some in Hn. rewrite firstn_length in Hn. lia. }
    rewrite nth_error_firstn' in Hi by exact Hik.
    unfold pt in E. injection E as _ <- _. eapply Hall; eassumption.
  Qed.

  Lemma drain_inv fuel : forall Sd s, core Sd s -> l_began s = p_ts r0 -> (length (l_buf s) <= fuel)%nat ->
    core Sd (drain fuel s) /\ l_began (drain fuel s) = p_ts r0 /\
    ((length (l_buf s) < fuel)%nat -> at_rest (drain fuel s)).
  Proof.
    induction fuel as [|f IH]; intros Sd s C Hb Hf.
    - cbn. split; [exact C|]. split; [exact Hb|]. intros; lia.
    - cbn [drain]. pose proof C as [Ce Cn Cr Cbuf Cnd CS Ci Cp]. rewrite Ce.
      pose proof (buf_take_spec (l_next s) (l_buf s)) as T.
      destruct (buf_take (l_next s) (l_buf s)) as [[r b']|] eqn:ET.
      + destruct T as (b1 & b2 & Eb & Eb' & Hk).
        assert (In r (l_buf s)) as Hrb by (rewrite Eb; apply in_app_iff; right; left; reflexivity).
        destruct (Cbuf r Hrb) as (HrS & _).
        pose proof (Ci r HrS) as Hrs. apply In_nth_error in Hrs as (i & Hi).
        pose proof (wf_seq _ W i r Hi) as Hseq. rewrite Hk in Hseq.
        assert (Z.to_nat (l_next s) = i) as Ei by lia.
        assert (i < length sorted)%nat as Hil by (apply nth_error_Some; congruence).
        (* the x coordinate: no wrap-around, not below the series' previous x *)
        assert (0 <= p_ts r - p_ts r0 < two64) as Hrange.
        { split; [pose proof (wf_ts _ W 0%nat i r0 r ltac:(lia) Hr0 Hi); lia|].
          apply (wf_range _ W r r0); [eapply nth_error_In; exact Hi | exact Hr0]. }
        rewrite Hb. rewrite (Z.mod_small _ _ Hrange).
        set (x := (p_ts r - p_ts r0) / 1000000).
        assert (0 <= x) as Hx0 by (apply Z.div_pos; lia).
        assert (prev_of (p_err r) (l_rel s) <= x) as Hprev.
        { rewrite Cr, Hb, Ei. apply prev_of_le; [|exact Hx0].
          intros j rj Hj Hnj. unfold x. apply Z.div_le_mono; [lia|].
          pose proof (wf_ts _ W j i rj r ltac:(lia) Hnj Hi). lia. }
        assert (x <? prev_of (p_err r) (l_rel s) = false) as -> by (apply Z.ltb_ge; exact Hprev).
        (* the state after releasing r *)
        set (s1 := {| l_began := p_ts r0; l_next := l_next s + 1; l_buf := b'; l_rel := l_rel s ++ [(p_err r, x, p_lat r)]; l_err := false |}).
        assert (NoDup (map p_seq b') /\ ~ In (l_next s) (map p_seq b')) as (Nd' & Nin).
        { rewrite Eb in Cnd. rewrite map_app in Cnd. cbn [map] in Cnd. rewrite Eb', map_app.
          split; [eapply NoDup_remove_1; exact Cnd | rewrite <- Hk; eapply NoDup_remove_2; exact Cnd]. }
        assert (core Sd s1) as C1.
        { unfold s1. constructor; cbn [l_err l_next l_rel l_began l_buf]; try reflexivity.
          - unfold n in *. lia.
          - replace (Z.to_nat (l_next s + 1)) with (S i) by lia. rewrite (firstn_snoc _ _ _ Hi), map_app, Cr, Ei, Hb.
            reflexivity.
          - intros y Hy. assert (In y (l_buf s)) as Hyb.
            { rewrite Eb. rewrite Eb' in Hy. apply in_app_iff in Hy as [H|H]; apply in_app_iff; [left | right; right]; exact H. }
            destruct (Cbuf y Hyb) as (A & B). split; [exact A|].
            assert (p_seq y <> l_next s); [|lia]. intros E. apply Nin. rewrite <- E. apply in_map, Hy.
          - exact Nd'.
          - intros y Hy. destruct (CS y Hy) as [H|H]; [left; lia|].
            rewrite Eb in H. apply in_app_iff in H as [H|[<-|H]].
            + right. rewrite Eb'. apply in_app_iff. left. exact H.
            + left. lia.
            + right. rewrite Eb'. apply in_app_iff. right. exact H.
          - exact Ci.
          - intros j rj Hj Hnj. destruct (Z_lt_le_dec (Z.of_nat j) (l_next s)) as [L|L]; [eapply Cp; eassumption|].
            assert (j = i) by lia. subst j. congruence. }
        assert (length b' <= f)%nat as Hf1.
        { rewrite Eb in Hf. rewrite Eb'. rewrite !app_length in *. cbn [length] in Hf. lia. }
        destruct (IH Sd s1 C1 eq_refl Hf1) as (I1 & I2 & I3). split; [exact I1|]. split; [exact I2|].
        intros Hlt. apply I3. unfold s1. cbn [l_buf]. rewrite Eb in Hlt. rewrite Eb'. rewrite !app_length in *. cbn [length] in Hlt. lia.
      + split; [exact C|]. split; [exact Hb|]. intros _ r Hr.
        destruct (Cbuf r Hr) as (_ & Hle). specialize (T r Hr). lia.
  Qed.

  Record rinv (Sd : list pres) (s : ls) : Prop := {
    r_core : core Sd s; r_rest : at_rest s; r_began : 0 < l_next s -> l_began s = p_ts r0 }.

  Lemma rinv_init : rinv [] ls0.
  Proof.
    constructor.
    - constructor; cbn [ls0 l_err l_next l_rel l_began l_buf].
      + reflexivity.
      + unfold n. lia.
      + reflexivity.
      + intros r [].
      + constructor.
      + intros r [].
      + intros x [].
      + intros i r H. lia.
    - intros r [].
    - cbn. lia.
  Qed.

  Lemma ls_add_inv Sd s r : rinv Sd s -> In r sorted -> ~ In r Sd ->
    rinv (r :: Sd) (ls_add s r).
  Proof.
    intros [C R B] Hr Hn. pose proof C as [Ce Cn Cr Cbuf Cnd CS Ci Cp]. unfold ls_add. rewrite Ce.
    assert (forall x, In x (l_buf s) -> p_seq x <> p_seq r) as Fresh.
    { intros x Hx E. destruct (Cbuf x Hx) as (HxS & _). apply Hn.
      rewrite <- (wf_unique sorted x r W (Ci x HxS) Hr E). exact HxS. }
    rewrite (buf_put_fresh r _ Fresh).
    apply In_nth_error in Hr as (i & Hi). pose proof (wf_seq _ W i r Hi) as Hseq.
    assert (i < length sorted)%nat as Hil by (apply nth_error_Some; congruence).
    assert (l_next s <= p_seq r) as Hge.
    { destruct (Z_lt_le_dec (p_seq r) (l_next s)) as [L|L]; [|exact L]. exfalso. apply Hn.
      apply (Cp i r); [lia | exact Hi]. }
    assert (NoDup (map p_seq (l_buf s ++ [r]))) as Nd.
    { rewrite map_app. cbn [map].
      apply (Permutation_NoDup (l := p_seq r :: map p_seq (l_buf s))); [apply Permutation_cons_append|].
      constructor; [|exact Cnd]. intros Hin. apply in_map_iff in Hin as (x & E & Hx). exact (Fresh x Hx E). }
    assert (core (r :: Sd) {| l_began := l_began s; l_next := l_next s; l_buf := l_buf s ++ [r]; l_rel := l_rel s; l_err := false |}) as C1.
    { constructor; cbn [l_err l_next l_rel l_began l_buf]; try assumption; try reflexivity.
      - intros y Hy. apply in_app_iff in Hy as [Hy|[<-|[]]].
        + destruct (Cbuf y Hy). split; [right; assumption | assumption].
        + split; [left; reflexivity | exact Hge].
      - intros y [<-|Hy]; [right; apply in_app_iff; right; left; reflexivity|].
        destruct (CS y Hy); [left; assumption | right; apply in_app_iff; left; assumption].
      - intros y [<-|Hy]; [eapply nth_error_In; exact Hi | apply Ci, Hy].
      - intros j rj Hj Hnj. right. eapply Cp; eassumption. }
    destruct (p_seq r =? l_next s) eqn:E; cbn [negb].
    - apply Z.eqb_eq in E.
      set (began := if l_next s =? 0 then p_ts r else l_began s).
      assert (began = p_ts r0) as Hbg.
      { subst began. destruct (l_next s =? 0) eqn:E0.
        - apply Z.eqb_eq in E0. assert (i = 0)%nat by lia. subst i. congruence.
        - apply Z.eqb_neq in E0. apply B. lia. }
      set (s1 := {| l_began := began; l_next := l_next s; l_buf := l_buf s ++ [r]; l_rel := l_rel s; l_err := false |}).
      assert (core (r :: Sd) s1) as C2.
      { unfold s1. destruct C1. constructor; cbn [l_err l_next l_rel l_began l_buf] in *; try assumption.
        (* rel is empty when next = 0, and began is unchanged otherwise *)
        subst began. destruct (l_next s =? 0) eqn:E0; [|assumption].
        apply Z.eqb_eq in E0. rewrite c_rel0, E0. reflexivity. }
      destruct (drain_inv (S (length (l_buf s ++ [r]))) (r :: Sd) s1 C2 Hbg ltac:(cbn; lia)) as (D1 & D2 & D3).
      constructor; [exact D1 | apply D3; cbn; lia | intros _; exact D2].
    - apply Z.eqb_neq in E. constructor; [exact C1 | | exact B].
      intros y Hy. cbn [l_buf l_next] in *. apply in_app_iff in Hy as [Hy|[<-|[]]]; [apply R, Hy | lia].
  Qed.

  (* any arrival order of the whole set releases exactly the expected points, in sequence order *)
  Lemma reorder_lemma order : Permutation order sorted ->
    l_rel (ls_adds order) = expected_points sorted /\ l_err (ls_adds order) = false /\ l_buf (ls_adds order) = [].
  Proof.
    intros P.
    assert (NoDup sorted) as NdS.
    { apply NoDup_nth_error. intros i j Hi E.
      destruct (nth_error sorted i) as [a|] eqn:Ea; [|apply nth_error_None in Ea; lia].
      symmetry in E. pose proof (wf_seq _ W i a Ea). pose proof (wf_seq _ W j a E). lia. }
    assert (NoDup order) as NdO by (eapply Permutation_NoDup; [apply Permutation_sym; exact P | exact NdS]).
    assert (forall l Sd s, rinv Sd s -> incl l sorted -> NoDup l -> (forall x, In x l -> ~ In x Sd) ->
              rinv (rev l ++ Sd) (fold_left ls_add l s)) as K.
    { induction l as [|x tl IH]; intros Sd s R I N D; cbn [fold_left rev app]; [exact R|].
      inversion N as [|? ? Nx Nt]; subst. rewrite <- app_assoc. cbn [app].
      apply IH; [apply ls_add_inv; [exact R | apply I; left; reflexivity | apply D; left; reflexivity] | | exact Nt |].
      - intros y Hy. apply I. right. exact Hy.
      - intros y Hy [<-|Hs]; [exact (Nx Hy) | exact (D y (or_intror Hy) Hs)]. }
    specialize (K order [] ls0 rinv_init ltac:(intros x Hx; eapply Permutation_in; eassumption) NdO ltac:(intros x _ [])).
    rewrite app_nil_r in K. fold (ls_adds order) in K. destruct K as [C R B].
    destruct C as [Ce Cn Cr Cbuf Cnd CS Ci Cp].
    (* every result was processed, none is waiting: next = n *)
    assert (l_next (ls_adds order) = n) as En.
    { destruct (Z_lt_le_dec (l_next (ls_adds order)) n) as [L|L]; [|lia]. exfalso.
      set (k := Z.to_nat (l_next (ls_adds order))). assert (k < length sorted)%nat as Hk by (unfold n in L; lia).
      destruct (nth_error sorted k) as [rk|] eqn:Ek; [|apply nth_error_None in Ek; lia].
      assert (In rk (rev order)) as Hin by (apply -> in_rev; eapply Permutation_in; [apply Permutation_sym; exact P | eapply nth_error_In; exact Ek]).
      pose proof (wf_seq _ W k rk Ek) as Hs. destruct (CS rk Hin) as [H|H]; [lia|].
      specialize (R rk H). lia. }
    split; [|split; [exact Ce|]].
    - rewrite Cr, En. unfold n. rewrite Nat2Z.id, firstn_all, (expected_points_hd _ _ Hr0).
      assert (l_began (ls_adds order) = p_ts r0) as ->; [|reflexivity].
      apply B. rewrite En. unfold n.
      assert (length sorted <> 0)%nat by (intros E0; apply length_zero_iff_nil in E0; rewrite E0 in Hr0; discriminate). lia.
    - destruct (l_buf (ls_adds order)) as [|y tl] eqn:Eb; [reflexivity|]. exfalso.
      assert (In y (y :: tl)) as Hy by (left; reflexivity).
      destruct (Cbuf y Hy) as (HyS & _). assert (In y (l_buf (ls_adds order))) as Hy2 by (rewrite Eb; exact Hy). specialize (R y Hy2).
      apply in_rev in HyS. pose proof (Permutation_in _ P HyS) as Hys. apply In_nth_error in Hys as (j & Hj).
      pose proof (wf_seq _ W j y Hj). assert (j < length sorted)%nat by (apply nth_error_Some; congruence). unfold n in *. lia.
  Qed.
End Reorder.

(* rows: a sorted permutation of the points *)
Lemma insert_row_perm p l : Permutation (insert_row p l) (p :: l).
Proof.
  induction l as [|q tl IH]; cbn; [reflexivity|]. destruct (snd (fst p) <=? snd (fst q)); [reflexivity|].
  rewrite IH. apply perm_swap.
Qed.
Lemma rows_perm ps : Permutation (rows ps) ps.
Proof. induction ps as [|p tl IH]; cbn; [constructor|]. rewrite insert_row_perm. constructor. exact IH. Qed.
Lemma insert_row_sorted p l : Sorted (fun a b => snd (fst a) <= snd (fst b)) l ->
  Sorted (fun a b => snd (fst a) <= snd (fst b)) (insert_row p l).
Proof.
  induction l as [|q tl IH]; intros S; cbn; [constructor; constructor|].
  destruct (snd (fst p) <=? snd (fst q)) eqn:E.
  - apply Z.leb_le in E. constructor; [exact S | constructor; exact E].
  - apply Z.leb_gt in E. inversion S as [|? ? S1 H1]; subst. constructor; [apply IH, S1|].
    destruct tl as [|q2 tl2]; cbn; [constructor; lia|].
    destruct (snd (fst p) <=? snd (fst q2)); constructor; [lia | inversion H1; assumption].
Qed.
Lemma rows_sorted_lemma ps : Sorted (fun a b => snd (fst a) <= snd (fst b)) (rows ps).
Proof. induction ps as [|p tl IH]; cbn; [constructor | apply insert_row_sorted, IH]. Qed.
