From Coq Require Import ZArith List Bool Lia.
From V Require Import Base.Duration Base.Str Model.Flags Model.Pacer Proofs.PacerProofs.
Import ListNotations.
Open Scope Z_scope.

Lemma str_eqb_eq a b : str_eqb a b = true <-> a = b.
Proof. apply zlist_eqb_eq. Qed.
Lemma str_eqb_refl a : str_eqb a a = true.
Proof. apply str_eqb_eq. reflexivity. Qed.
Lemma str_eqb_neq a b : a <> b -> str_eqb a b = false.
Proof. intros H. destruct (str_eqb a b) eqn:E; [apply str_eqb_eq in E; congruence | reflexivity]. Qed.

Lemma not_infinity_with_slash a d : a ++ 47 :: d <> s_infinity.
Proof.
  intros E. assert (In 47 s_infinity) as H by (rewrite <- E; apply in_app_iff; right; left; reflexivity).
  cbn in H. repeat (destruct H as [H|H]; [discriminate|]). exact H.
Qed.

(* -rate N/D *)
Lemma rate_meaning_lemma fixed cur a d freq per ix :
  ~ In 47 a -> atoi a = Some freq -> freq <> 0 -> bare_unit d = false ->
  parse_duration d = Some (per, ix) ->
  rate_set fixed cur (a ++ 47 :: d) = Some (freq, per).
Proof.
  intros Hs Ha Hf Hb Hd. unfold rate_set.
  rewrite (str_eqb_neq _ _ (not_infinity_with_slash a d)).
  rewrite (splitn2_found 47 a d [] Hs). cbn [rev app]. rewrite Ha.
  apply Z.eqb_neq in Hf. rewrite Hf, Hb, Hd. reflexivity.
Qed.

(* -rate N : the time unit defaults to one second *)
Lemma rate_default_unit_lemma fixed cur a freq :
  ~ In 47 a -> a <> s_infinity -> atoi a = Some freq -> freq <> 0 ->
  rate_set fixed cur a = Some (freq, 1000000000).
Proof.
  intros Hs Hi Ha Hf. unfold rate_set.
  rewrite (str_eqb_neq _ _ Hi), (splitn2_none 47 a [] Hs). cbn [rev app]. rewrite Ha.
  apply Z.eqb_neq in Hf. rewrite Hf. reflexivity.
Qed.

(* -rate N/unit : a bare unit means one of it *)
Lemma rate_bare_unit_lemma fixed cur a u freq per ix :
  ~ In 47 a -> atoi a = Some freq -> freq <> 0 -> bare_unit u = true ->
  parse_duration (49 :: u) = Some (per, ix) ->
  rate_set fixed cur (a ++ 47 :: u) = Some (freq, per).
Proof.
  intros Hs Ha Hf Hb Hd. unfold rate_set.
  rewrite (str_eqb_neq _ _ (not_infinity_with_slash a u)).
  rewrite (splitn2_found 47 a u [] Hs). cbn [rev app]. rewrite Ha.
  apply Z.eqb_neq in Hf. rewrite Hf, Hb, Hd. reflexivity.
Qed.

Lemma bare_units_values :
  map (fun u => option_map fst (parse_duration (49 :: u)))
      [[110; 115]; [117; 115]; [194; 181; 115]; [109; 115]; [115]; [109]; [104]] =
  map Some [1; 1000; 1000; 1000000; 1000000000; 60000000000; 3600000000000].
Proof. reflexivity. Qed.

(* 0 and infinity both mean an unlimited rate and trip the max-workers guard *)
Lemma rate_zero_lemma fixed cur a od :
  ~ In 47 a -> atoi a = Some 0 ->
  let v := match od with Some d => a ++ 47 :: d | None => a end in
  v <> s_infinity ->
  rate_set fixed cur v = Some (0, snd cur) /\ unlimited_guard (0, snd cur) = true /\
  forall t k, const_pace 0 (snd cur) t k = Wait 0.
Proof.
  intros Hs Ha v Hi. split; [|split; [reflexivity | intros; apply const_zero_unlimited_lemma; right; reflexivity]].
  unfold rate_set. rewrite (str_eqb_neq _ _ Hi). subst v. destruct od as [d|].
  - rewrite (splitn2_found 47 a d [] Hs). cbn [rev app]. rewrite Ha. reflexivity.
  - rewrite (splitn2_none 47 a [] Hs). cbn [rev app]. rewrite Ha. reflexivity.
Qed.

Lemma rate_infinity_lemma cur :
  rate_set true cur s_infinity = Some (0, snd cur) /\ unlimited_guard (0, snd cur) = true /\
  forall t k, const_pace 0 (snd cur) t k = Wait 0.
Proof. split; [reflexivity | split; [reflexivity | intros; apply const_zero_unlimited_lemma; right; reflexivity]]. Qed.

Lemma rate_infinity_pinned_refuted :
  rate_set false (50, 1000000000) s_infinity = Some (50, 1000000000) /\
  unlimited_guard (50, 1000000000) = false.
Proof. split; reflexivity. Qed.

(* malformed values are rejected: the frequency must be an integer literal *)
Lemma rate_rejects_lemma fixed cur v :
  v <> s_infinity -> atoi (fst (splitn2 47 v [])) = None -> rate_set fixed cur v = None.
Proof.
  intros Hi Ha. unfold rate_set. rewrite (str_eqb_neq _ _ Hi).
  destruct (splitn2 47 v []) as [a ob]. cbn in Ha. rewrite Ha. reflexivity.
Qed.
Lemma rate_rejects_bad_duration fixed cur a d freq :
  ~ In 47 a -> atoi a = Some freq -> freq <> 0 -> bare_unit d = false -> parse_duration d = None ->
  rate_set fixed cur (a ++ 47 :: d) = None.
Proof.
  intros Hs Ha Hf Hb Hd. unfold rate_set.
  rewrite (str_eqb_neq _ _ (not_infinity_with_slash a d)).
  rewrite (splitn2_found 47 a d [] Hs). cbn [rev app]. rewrite Ha.
  apply Z.eqb_neq in Hf. rewrite Hf, Hb, Hd. reflexivity.
Qed.

(* print / parse: for any printer of durations whose output parses back, a rate's printed
   form N/D parses back to the same rate (time.Duration.String is library code; the law is
   assumed here and sampled by the correspondence) *)
Section PrintParse.
  Variable dstr : Z -> list Z.
  Hypothesis dstr_parses : forall d, 0 < d < two63 -> parse_duration (dstr d) = Some (d, false) /\ bare_unit (dstr d) = false.
  Hypothesis atoi_itoa : forall n, - two63 <= n < two63 -> atoi (itoa n) = Some n /\ ~ In 47 (itoa n).

  Lemma rate_print_parse_lemma fixed cur freq per :
    - two63 <= freq < two63 -> freq <> 0 -> 0 < per < two63 ->
    rate_set fixed cur (itoa freq ++ 47 :: dstr per) = Some (freq, per).
  Proof.
    intros Hf Hf0 Hp. destruct (atoi_itoa freq Hf) as (Ha & Hs). destruct (dstr_parses per Hp) as (Hd & Hb).
    eapply rate_meaning_lemma; eassumption.
  Qed.
End PrintParse.

(* -header *)
Lemma hlookup_happend k' k v h :
  hlookup k' (happend k v h) = if str_eqb k k' then hlookup k' h ++ [v] else hlookup k' h.
Proof.
  induction h as [|[k0 vs] tl IH]; cbn.
  - destruct (str_eqb k k'); reflexivity.
  - destruct (str_eqb k0 k) eqn:E; cbn.
    + apply str_eqb_eq in E. subst k0. destruct (str_eqb k k'); reflexivity.
    + destruct (str_eqb k0 k') eqn:E2; [|exact IH].
      apply str_eqb_eq in E2. subst k0.
      destruct (str_eqb k k') eqn:E3; [|reflexivity].
      apply str_eqb_eq in E3. subst k. rewrite str_eqb_refl in E. discriminate.
Qed.

Definition clean (s : list Z) : Prop := trim_space s = s /\ s <> [].

Lemma headers_set_line h k v pad1 pad2 :
  ~ In 58 k -> clean k -> clean v ->
  trim_space (k ++ pad1) = k -> trim_space (pad2 ++ v) = v -> ~ In 58 pad1 ->
  headers_set h (k ++ pad1 ++ 58 :: pad2 ++ v) = Some (happend k v h).
Proof.
  intros Hk (Ck & Nk) (Cv & Nv) T1 T2 Hp. unfold headers_set.
  rewrite app_assoc, (splitn2_found 58 (k ++ pad1) (pad2 ++ v) []).
  - cbn [rev app]. rewrite T1, T2. destruct k; [congruence|]. destruct v; [congruence|]. reflexivity.
  - intros Hin. apply in_app_iff in Hin as [H|H]; [exact (Hk H) | exact (Hp H)].
Qed.

Lemma headers_accumulate_lemma (pairs : list (list Z * list Z)) : forall h k',
  hlookup k' (fold_left (fun h p => happend (fst p) (snd p) h) pairs h) =
  hlookup k' h ++ map snd (filter (fun p => str_eqb (fst p) k') pairs).
Proof.
  induction pairs as [|[k v] tl IH]; intros h k'; cbn [fold_left filter map].
  - now rewrite app_nil_r.
  - rewrite IH, hlookup_happend. cbn [fst snd]. destruct (str_eqb k k'); cbn [map].
    + now rewrite <- app_assoc.
    + reflexivity.
Qed.

(* -connect-to *)
Lemma split_on_app sep a rest : forall cur, ~ In sep a ->
  split_on sep (a ++ sep :: rest) cur = (rev cur ++ a) :: split_on sep rest [].
Proof.
  induction a as [|c tl IH]; intros cur Hn; cbn.
  - rewrite Z.eqb_refl, app_nil_r. reflexivity.
  - destruct (c =? sep) eqn:E; [apply Z.eqb_eq in E; subst; exfalso; apply Hn; left; reflexivity|].
    rewrite IH by (intros H; apply Hn; right; exact H). cbn. now rewrite <- app_assoc.
Qed.
Lemma split_on_last sep a : forall cur, ~ In sep a -> split_on sep a cur = [rev cur ++ a].
Proof.
  induction a as [|c tl IH]; intros cur Hn; cbn.
  - now rewrite app_nil_r.
  - destruct (c =? sep) eqn:E; [apply Z.eqb_eq in E; subst; exfalso; apply Hn; left; reflexivity|].
    rewrite IH by (intros H; apply Hn; right; exact H). cbn. now rewrite <- app_assoc.
Qed.

Lemma connect_to_map_lemma m p0 p1 p2 p3 :
  ~ In 58 p0 -> ~ In 58 p1 -> ~ In 58 p2 -> ~ In 58 p3 ->
  valid_host_port p0 p1 = true -> valid_host_port p2 p3 = true ->
  connect_to_set m (p0 ++ 58 :: p1 ++ 58 :: p2 ++ 58 :: p3) =
  Some (happend (p0 ++ 58 :: p1) (p2 ++ 58 :: p3) m).
Proof.
  intros H0 H1 H2 H3 V1 V2. unfold connect_to_set.
  rewrite (split_on_app 58 p0 _ [] H0), (split_on_app 58 p1 _ [] H1), (split_on_app 58 p2 _ [] H2),
    (split_on_last 58 p3 [] H3). cbn [rev app]. rewrite V1, V2. reflexivity.
Qed.
Lemma connect_to_rejects m s : length (split_on 58 s []) <> 4%nat -> connect_to_set m s = None.
Proof.
  intros H. unfold connect_to_set. destruct (split_on 58 s []) as [|a [|b [|c [|d [|e tl]]]]]; try reflexivity.
  cbn in H. congruence.
Qed.

(* -resolvers: an address without a port gets port 53 *)
Lemma resolver_default_port_lemma a :
  ~ In 58 a -> is_ipv4 a = true -> has_bracket a = false ->
  normalize_addr a = Some (a ++ [58; 53; 51]).
Proof.
  intros Hc Hip Hb. unfold normalize_addr.
  assert (existsb (Z.eqb 58) a = false) as ->.
  { destruct (existsb (Z.eqb 58) a) eqn:E; [|reflexivity].
    apply existsb_exists in E as (x & Hin & Hx). apply Z.eqb_eq in Hx. subst x. contradiction. }
  change (a ++ [58; 53; 51]) with (a ++ 58 :: [53; 51]).
  rewrite (split_on_app 58 a [53; 51] [] Hc). cbn [rev app split_on Z.eqb].
  rewrite Hb, Hip. reflexivity.
Qed.
