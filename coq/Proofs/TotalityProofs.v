(* C16: progress of the loops vegeta owns - every value a parser yields consumes input, so the
   number of values is bounded by the size of the input and no call loops without consuming. *)
From Coq Require Import ZArith List Bool Lia Arith.
From V Require Import Base.Duration Base.Str Model.Flags Model.Targets Model.ResultCodec Model.DecoderFor Model.Csv.
Import ListNotations.
Open Scope Z_scope.

(* ---- HTTP targeter: lines still to be scanned ---- *)
Definition pmeasure (s : psc) : nat := (length (rest s) + match peeked s with [] => 0 | _ => 1 end)%nat.

Lemma sc_scan_measure s : let '(ok, s1) := sc_scan s in
  (ok = true -> (pmeasure s1 <= pmeasure s)%nat /\ (peeked s = [] -> (pmeasure s1 < pmeasure s)%nat)) /\
  (ok = false -> s1 = s).
Proof.
  unfold sc_scan, pmeasure. destruct (peeked s) eqn:P.
  - destruct (rest s) eqn:R; cbn; rewrite ?P, ?R; cbn; split; intros; try discriminate; try reflexivity; split; intros; lia.
  - cbn. rewrite P. split; intros; [split; [lia | intros X; discriminate] | discriminate].
Qed.

Lemma sc_text_measure s : let '(t, s1) := sc_text s in (pmeasure s1 <= pmeasure s)%nat /\
  (peeked s <> [] -> (pmeasure s1 < pmeasure s)%nat) /\ peeked s1 = [].
Proof.
  unfold sc_text, pmeasure. destruct (peeked s) eqn:P; cbn; rewrite ?P; cbn.
  - repeat split; [lia | intros X; congruence].
  - repeat split; [lia | intros _; lia].
Qed.

(* scan followed by text: one line is gone *)
Lemma scan_text_consumes s : let '(ok, s1) := sc_scan s in let '(t, s2) := sc_text s1 in
  ok = true -> (pmeasure s2 < pmeasure s)%nat /\ peeked s2 = [].
Proof.
  unfold sc_scan, sc_text, pmeasure. destruct (peeked s) eqn:P.
  - destruct (rest s) eqn:R; cbn; rewrite ?P, ?R; cbn; intros; try discriminate. split; [lia | reflexivity].
  - cbn. rewrite P. cbn. intros _. split; [lia | reflexivity].
Qed.

Lemma skip_measure fuel : forall s, let '(r, s') := skip_to_request fuel s in
  (pmeasure s' <= pmeasure s)%nat /\ (r <> None -> (pmeasure s' < pmeasure s)%nat /\ peeked s' = []).
Proof.
  induction fuel as [|f IH]; intros s; cbn [skip_to_request].
  - split; [lia | congruence].
  - pose proof (scan_text_consumes s) as K. pose proof (sc_scan_measure s) as M.
    destruct (sc_scan s) as [ok s1]. destruct ok; cbn [negb].
    + destruct (sc_text s1) as [t s2]. destruct (K eq_refl) as [K1 K2].
      destruct (trim_space t) as [|c tl] eqn:T.
      * specialize (IH s2). destruct (skip_to_request f s2) as [r s3]. destruct IH as [A B].
        split; [lia | intros X; destruct (B X); split; [lia | assumption]].
      * assert (forall (X : option (list Z) * psc), X = (let '(r, s3) := skip_to_request f s2 in (r, s3)) -> True) by auto.
        destruct (c =? 35) eqn:E35.
        -- apply Z.eqb_eq in E35. subst c. specialize (IH s2). destruct (skip_to_request f s2) as [r s3]. destruct IH as [A B].
           split; [lia | intros X; destruct (B X); split; [lia | assumption]].
        -- assert (match c :: tl with [] => skip_to_request f s2 | 35 :: _ => skip_to_request f s2 | _ => (Some (c :: tl), s2) end = (Some (c :: tl), s2)) as ->.
           { destruct c as [|p|p]; try reflexivity. do 6 (destruct p as [p|p|]; try reflexivity). cbn in E35. discriminate. }
           split; [lia | intros _; split; [lia | assumption]].
    + destruct M as [_ M]. rewrite (M eq_refl). split; [lia | congruence].
Qed.

Lemma sc_peek_measure s : peeked s = [] -> let '(p, s1) := sc_peek s in (pmeasure s1 <= pmeasure s)%nat.
Proof.
  intros P. unfold sc_peek, pmeasure. rewrite P. destruct (rest s) as [|l r] eqn:R; cbn; [rewrite P, R; cbn; lia|].
  destruct l; cbn; lia.
Qed.

Lemma peek_measure fixed fuel : forall s, peeked s = [] ->
  let '(l, s') := peek_past_comments fixed fuel s in (pmeasure s' <= pmeasure s)%nat.
Proof.
  induction fuel as [|f IH]; intros s P; cbn [peek_past_comments]; pose proof (sc_peek_measure s P) as K;
    destruct (sc_peek s) as [p s1].
  - exact K.
  - destruct (fixed && is_comment (trim_space p)); [|exact K].
    pose proof (sc_text_measure s1) as T. destruct (sc_text s1) as [t s2]. destruct T as (T1 & _ & T3).
    specialize (IH s2 T3). destruct (peek_past_comments fixed f s2) as [l s3]. lia.
Qed.

Lemma header_measure fuel : forall fs s body h,
  let '(r, code, s') := header_loop fuel fs s body h in (pmeasure s' <= pmeasure s)%nat.
Proof.
  induction fuel as [|f IH]; intros fs s body h; cbn [header_loop]; [lia|].
  pose proof (sc_scan_measure s) as M. destruct (sc_scan s) as [ok s1]. destruct ok; cbn [negb].
  - destruct M as [M _]. destruct (M eq_refl) as [M1 _].
    pose proof (sc_text_measure s1) as T. destruct (sc_text s1) as [t s2]. destruct T as (T1 & _ & _).
    assert (forall (X : option (list Z * hmap) * Z * psc), (let '(r, code, s') := X in (pmeasure s' <= pmeasure s2)%nat) ->
            let '(r, code, s') := X in (pmeasure s' <= pmeasure s)%nat) as W.
    { intros [[r code] s'] HX. lia. }
    apply W. clear W.
    destruct (trim_space t) as [|c tl]; [lia|].
    assert (let '(r, code, s') :=
              match splitn2 58 (c :: tl) [] with
              | (_, None) => (None, 5, s2)
              | (k, Some v) => match trim_space k, trim_space v with
                               | [], _ => (None, 5, s2)
                               | _, [] => (None, 5, s2)
                               | _, _ => header_loop f fs s2 body (happend (trim_space k) (trim_space v) h)
                               end
              end in (pmeasure s' <= pmeasure s2)%nat) as G.
    { destruct (splitn2 58 (c :: tl) []) as [k [v|]]; [|lia].
      destruct (trim_space k); [lia|]. destruct (trim_space v); [lia|]. apply IH. }
    destruct c as [|p|p]; [exact G | | exact G].
    do 7 (try (destruct p as [p|p|])); first [exact G | apply IH | (destruct (read_file fs tl); lia)].
  - destruct M as [_ M]. rewrite (M eq_refl). lia.
Qed.

(* one Targeter call never grows what is left, and a returned target consumed at least a line *)
Lemma http_next_measure fixed fs db dh s :
  let '(r, s') := http_next fixed fs db dh s in
  (pmeasure s' <= pmeasure s)%nat /\ (forall t, r = TOk t -> (pmeasure s' < pmeasure s)%nat).
Proof.
  unfold http_next. pose proof (skip_measure (S (S (length (rest s)))) s) as K.
  destruct (skip_to_request (S (S (length (rest s)))) s) as [[line|] s1].
  - destruct K as [K0 K]. destruct (K ltac:(discriminate)) as [K1 K2].
    destruct (splitn2 32 line []) as [m [u|]]; [|cbv beta iota; split; [lia | discriminate]].
    destruct (negb (starts_with_method line)); [cbv beta iota; split; [lia | discriminate]|].
    destruct (negb (url_ok u)); [cbv beta iota; split; [lia | discriminate]|].
    pose proof (peek_measure fixed (S (length (rest s))) s1 K2) as P.
    destruct (peek_past_comments fixed (S (length (rest s))) s1) as [pl s2]. cbv beta iota in P.
    destruct (match pl with [] => true | _ :: _ => starts_with_method pl end); [cbv beta iota; split; [lia | intros; lia]|].
    pose proof (header_measure (S (S (length (rest s)))) fs s2 db dh) as H.
    destruct (header_loop (S (S (length (rest s)))) fs s2 db dh) as [[[[b h]|] code] s3]; cbv beta iota in H;
      cbv beta iota; split; intros; try lia; discriminate.
  - destruct K as [K0 _]. cbv beta iota. split; [lia | discriminate].
Qed.

Definition count_ok (l : list tres) : nat := length (filter (fun r => match r with TOk _ => true | _ => false end) l).

(* however often the targeter is called, it yields at most one target per remaining line *)
Lemma http_calls_bound_lemma fixed fs db dh n : forall s,
  (count_ok (http_calls fixed fs db dh n s) <= pmeasure s)%nat.
Proof.
  induction n as [|n IH]; intros s; cbn [http_calls]; [cbn; lia|].
  pose proof (http_next_measure fixed fs db dh s) as M. destruct (http_next fixed fs db dh s) as [r s'].
  destruct M as [M1 M2]. specialize (IH s'). unfold count_ok in *. cbn [filter].
  destruct r as [t| |c]; cbn [length]; try lia. specialize (M2 t eq_refl). lia.
Qed.

Lemma http_calls_bound_src fixed fs db dh n src :
  (count_ok (http_calls fixed fs db dh n (psc_of src)) <= length (scan_lines src))%nat.
Proof.
  assert (pmeasure (psc_of src) = length (scan_lines src)) as <- by (unfold pmeasure, psc_of; cbn; lia).
  apply http_calls_bound_lemma.
Qed.

(* ---- JSON targeter ---- *)
Lemma json_next_measure db dh ls : let '(r, ls') := json_next db dh ls in
  (length ls' <= length ls)%nat /\ (forall t, r = TOk t -> (length ls' < length ls)%nat).
Proof.
  induction ls as [|l tl IH]; cbn [json_next]; [split; [lia | discriminate]|].
  destruct (negb (j_terminated l)); [split; [cbn; lia | discriminate]|].
  destruct (j_blank l).
  - destruct (json_next db dh tl) as [r ls']. destruct IH as [A B]. split; [cbn; lia | intros t E; specialize (B t E); cbn; lia].
  - destruct (j_mean l) as [|t]; [split; [cbn; lia | discriminate]|].
    destruct (t_method t); [split; [cbn; lia | discriminate]|]. destruct (t_url t); split; cbn; intros; try lia; discriminate.
Qed.

Lemma json_calls_bound_lemma db dh n : forall ls, (count_ok (json_calls db dh n ls) <= length ls)%nat.
Proof.
  induction n as [|n IH]; intros ls; cbn [json_calls]; [cbn; lia|].
  pose proof (json_next_measure db dh ls) as M. destruct (json_next db dh ls) as [r ls']. destruct M as [M1 M2].
  specialize (IH ls'). unfold count_ok in *. cbn [filter]. destruct r as [t| |c]; cbn [length]; try lia.
  specialize (M2 t eq_refl). lia.
Qed.

(* ---- DecoderFor tries each decoder at most once ---- *)
Lemma decoder_for_bounded_lemma ts : forall idx buf rest i c,
  decoder_for ts idx buf rest = Some (i, c) -> (idx <= i < idx + length ts)%nat.
Proof.
  induction ts as [|t tl IH]; intros idx buf rest i c H; cbn [decoder_for] in H; [discriminate|].
  destruct (accepts t (buf ++ rest)).
  - injection H as <- _. cbn [length]. lia.
  - apply IH in H. cbn [length]. lia.
Qed.

(* ---- framings: every record consumes input ---- *)
Lemma read_lines_count s : forall cur, (length (fst (read_lines s cur)) <= length s)%nat.
Proof.
  induction s as [|c tl IH]; intros cur; cbn [read_lines]; [cbn; lia|].
  destruct (c =? 10).
  - specialize (IH []). destruct (read_lines tl []) as [ls p]. cbn in *. lia.
  - specialize (IH (c :: cur)). cbn [length]. lia.
Qed.

Lemma read_uint_consumes s n rest : read_uint s = Some (n, rest) -> (length rest < length s)%nat.
Proof.
  destruct s as [|b tl]; cbn [read_uint]; [discriminate|]. destruct (b <? 128).
  - intros H. injection H as _ <-. cbn. lia.
  - destruct (Nat.ltb (length tl) (Z.to_nat (256 - b))); [discriminate|]. intros H. injection H as _ <-.
    rewrite skipn_length. cbn. lia.
Qed.

Lemma read_frames_count fuel : forall s, (length (fst (read_frames fuel s)) <= length s)%nat.
Proof.
  induction fuel as [|f IH]; intros s; cbn [read_frames]; [cbn; lia|].
  destruct s as [|b tl]; [cbn; lia|].
  destruct (read_uint (b :: tl)) as [[n rest]|] eqn:E; [|cbn; lia].
  apply read_uint_consumes in E.
  destruct (Z.of_nat (length rest) <? n); [cbn; lia|].
  specialize (IH (skipn (Z.to_nat n) rest)). destruct (read_frames f (skipn (Z.to_nat n) rest)) as [fs p].
  cbn [fst length] in *. rewrite skipn_length in IH. lia.
Qed.
