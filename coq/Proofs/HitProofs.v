From Coq Require Import ZArith List Bool Lia.
From V Require Import Base.Duration Base.Str Model.Flags Model.Hit Proofs.FlagsProofs.
Import ListNotations.
Open Scope Z_scope.

Lemma hlookup_hset k' k v h :
  hlookup k' (hset k v h) = if str_eqb k k' then [v] else hlookup k' h.
Proof.
  induction h as [|[k0 vs] tl IH]; cbn.
  - destruct (str_eqb k k'); reflexivity.
  - destruct (str_eqb k0 k) eqn:E; cbn.
    + apply str_eqb_eq in E. subst k0. destruct (str_eqb k k'); reflexivity.
    + destruct (str_eqb k0 k') eqn:E2; [|exact IH].
      apply str_eqb_eq in E2. subst k0.
      destruct (str_eqb k k') eqn:E3; [|reflexivity].
      apply str_eqb_eq in E3. subst k. rewrite str_eqb_refl in E. discriminate.
Qed.

Lemma k_attack_neq_seq : str_eqb k_seq k_attack = false.
Proof. reflexivity. Qed.

(* ---- the request that reaches the transport -------------------------------------------- *)
Lemma request_basic t c :
  let q := build_request t c in
  q_method q = t_method t /\ q_url q = t_url t /\ q_body q = t_body t /\
  q_content_length q = Z.of_nat (length (t_body t)) /\ q_chunked q = c_chunked c.
Proof. cbn. repeat split. Qed.

Lemma request_headers_preserved t c k :
  k <> k_attack -> k <> k_seq ->
  hlookup k (q_header (build_request t c)) = hlookup k (t_header t).
Proof.
  intros H1 H2. unfold build_request. cbn [q_header].
  rewrite hlookup_hset, (str_eqb_neq k_seq k) by congruence.
  destruct (c_name c) as [|n0 n]; [reflexivity|].
  rewrite hlookup_hset, (str_eqb_neq k_attack k) by congruence. reflexivity.
Qed.

Lemma request_seq_header t c :
  hlookup k_seq (q_header (build_request t c)) = [itoa (c_seq c)].
Proof. unfold build_request. cbn [q_header]. rewrite hlookup_hset, str_eqb_refl. reflexivity. Qed.

Lemma request_attack_header t c :
  hlookup k_attack (q_header (build_request t c)) =
  match c_name c with [] => hlookup k_attack (t_header t) | n => [n] end.
Proof.
  unfold build_request. cbn [q_header]. rewrite hlookup_hset, k_attack_neq_seq.
  destruct (c_name c) as [|n0 n]; [reflexivity|]. rewrite hlookup_hset, str_eqb_refl. reflexivity.
Qed.

Lemma request_host t c :
  q_host (build_request t c) =
  match hlookup k_host (t_header t) with
  | (_ :: _) as v :: _ => Some v
  | _ => None end.
Proof. unfold build_request. cbn [q_host]. destruct (hlookup k_host (t_header t)) as [|[|] ?]; reflexivity. Qed.

(* ---- the result --------------------------------------------------------------------------- *)
Definition is_completed (c : config) (x : exchange) : option (Z * list Z * hmap * list Z) :=
  match redirect_policy (c_redirects c) (x_hops x) with
  | TooMany => None
  | UseFirst3xx => Some (hop_status, hop_text, x_hop_hdr x, [])
  | Followed =>
      match x_answer x with
      | TransportErr => None
      | Response st txt hdr body fault =>
          match fault with
          | Some k => if Nat.leb k (length body) then None else Some (st, txt, hdr, body)
          | None => Some (st, txt, hdr, body)
          end
      end
  end.

Definition captured_spec (maxbody : Z) (body : list Z) : list Z :=
  if maxbody <? 0 then body else firstn (Z.to_nat maxbody) body.

Lemma firstn_min l (b : list Z) : Nat.leb l (length b) = false -> firstn (length b) b = firstn l b.
Proof. intros H. apply Nat.leb_gt in H. rewrite firstn_all, firstn_all2 by lia. reflexivity. Qed.

Lemma hit_always t c x :
  let '(q, io, r) := hit_model t c x in
  q = build_request t c /\ r_method r = t_method t /\ r_url r = t_url t /\
  r_bytes_in r = Z.of_nat (length (r_body r)).
Proof.
  unfold hit_model. destruct (redirect_policy _ _).
  - unfold consume. cbn. repeat split.
  - cbn. repeat split.
  - destruct (x_answer x) as [|st txt hdr body fault]; [cbn; repeat split|].
    unfold consume. destruct (match fault with Some k => Nat.leb k (length body) | None => false end);
      cbn; repeat split.
Qed.

Lemma hit_completed t c x st txt hdr body :
  is_completed c x = Some (st, txt, hdr, body) ->
  let '(_, io, r) := hit_model t c x in
  r_code r = st /\ r_headers r = Some hdr /\ r_body r = captured_spec (c_maxbody c) body /\
  r_bytes_in r = Z.of_nat (length (r_body r)) /\ r_bytes_out r = Z.of_nat (length (t_body t)) /\
  (r_error r = if (st <? 200) || (400 <=? st) then txt else []) /\
  io_read io = length body /\ io_ended io = true /\ io_closes io = 1%nat.
Proof.
  unfold is_completed, hit_model. destruct (redirect_policy _ _); try discriminate; intros H0.
  - injection H0 as <- <- <- <-. unfold consume, captured_spec. cbn.
    destruct (c_maxbody c <? 0); [repeat split|].
    destruct (Z.to_nat (c_maxbody c)); repeat split.
  - destruct (x_answer x) as [|st' txt' hdr' body' fault]; [discriminate|].
    assert (match fault with Some k => Nat.leb k (length body') | None => false end = false /\
            Some (st', txt', hdr', body') = Some (st, txt, hdr, body)) as (E & H).
    { destruct fault as [k|]; [destruct (Nat.leb k (length body')); [discriminate|] |]; auto. }
    clear H0. injection H as -> -> -> ->. unfold consume. rewrite E.
    assert ((match fault with Some k => if Nat.leb k (length body) then k else length body | None => length body end)
            = length body) as -> by (destruct fault as [k|]; [rewrite E|]; reflexivity).
    unfold captured_spec. cbn [r_code r_headers r_body r_bytes_in r_bytes_out r_error io_read io_ended io_closes].
    destruct (c_maxbody c <? 0).
    + rewrite firstn_all. repeat split.
    + destruct (Nat.leb (Z.to_nat (c_maxbody c)) (length body)) eqn:EL; [repeat split|].
      rewrite (firstn_min _ _ EL). repeat split.
Qed.

Lemma hit_failed t c x :
  is_completed c x = None ->
  let '(_, io, r) := hit_model t c x in
  r_error r <> [] /\ ~ (200 <= r_code r < 400) /\ r_headers r = None /\
  r_bytes_in r = Z.of_nat (length (r_body r)) /\
  (io_closes io = 0%nat \/ (io_ended io = true /\ io_closes io = 1%nat /\
                            r_bytes_out r = Z.of_nat (length (t_body t)))).
Proof.
  unfold is_completed, hit_model. destruct (redirect_policy _ _); try discriminate.
  - intros _. cbn. repeat split; try discriminate; try lia.
  - destruct (x_answer x) as [|st txt hdr body fault].
    + intros _. cbn. repeat split; try discriminate; try lia.
    + destruct fault as [k|]; [|discriminate]. destruct (Nat.leb k (length body)) eqn:E; [|discriminate].
      intros _. unfold consume. rewrite E. cbn. repeat split; try discriminate; try lia.
      all: try (right; repeat split).
Qed.

(* captured prefix: exactly the first max-body bytes, all of it when unlimited *)
Lemma captured_spec_prefix maxbody body :
  exists rest, body = captured_spec maxbody body ++ rest /\
    (maxbody < 0 -> rest = []) /\
    (0 <= maxbody -> length (captured_spec maxbody body) = Nat.min (Z.to_nat maxbody) (length body)).
Proof.
  unfold captured_spec. destruct (maxbody <? 0) eqn:E.
  - exists []. rewrite app_nil_r. repeat split. intros. apply Z.ltb_lt in E. lia.
  - exists (skipn (Z.to_nat maxbody) body). rewrite firstn_skipn. repeat split.
    + intros H. apply Z.ltb_ge in E. lia.
    + intros _. apply firstn_length.
Qed.

(* the pinned hit returned before setting the byte counts on a body read error *)
Definition pinned_read_fault_bytes_in : Z := 0.
Lemma bytes_in_on_read_fault_refuted_lemma :
  exists captured : list Z, captured <> [] /\ pinned_read_fault_bytes_in <> Z.of_nat (length captured).
Proof. exists [104; 101; 108; 108; 111]. split; [discriminate | cbn; discriminate]. Qed.
