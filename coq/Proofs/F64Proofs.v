(* The rounding of Base/F64.v: rn53 returns a 53-bit mantissa and an exponent whose value is within
   half a unit in the last place of num/den (round to nearest). *)
From Coq Require Import ZArith Bool Lia.
From V Require Import Base.F64.
Open Scope Z_scope.

(* num/den scaled by 2^-e, as a fraction of integers *)
Definition sN (num e : Z) : Z := if 0 <=? e then num else num * 2 ^ (- e).
Definition sD (den e : Z) : Z := if 0 <=? e then den * 2 ^ e else den.

Lemma sD_pos den e : 0 < den -> 0 < sD den e.
Proof. intros H. unfold sD. destruct (0 <=? e) eqn:E; [|exact H]. apply Z.leb_le in E. pose proof (Z.pow_pos_nonneg 2 e ltac:(lia) E). nia. Qed.

(* one step down in the exponent doubles the scaled value *)
Lemma scale_down num den e : 0 < num -> 0 < den -> sN num (e - 1) * sD den e = 2 * sN num e * sD den (e - 1).
Proof.
  intros Hn Hd. unfold sN, sD.
  destruct (0 <=? e) eqn:E; destruct (0 <=? e - 1) eqn:E1;
    try apply Z.leb_le in E; try apply Z.leb_le in E1; try apply Z.leb_gt in E; try apply Z.leb_gt in E1; try lia.
  - assert (2 ^ e = 2 * 2 ^ (e - 1)) as P by (rewrite <- Z.pow_succ_r by lia; f_equal; lia). rewrite P. ring.
  - assert (e = 0) as -> by lia. change (- (0 - 1)) with 1. change (2 ^ 1) with 2. change (2 ^ 0) with 1. ring.
  - assert (2 ^ (- (e - 1)) = 2 * 2 ^ (- e)) as P by (rewrite <- Z.pow_succ_r by lia; f_equal; lia). rewrite P. ring.
Qed.

(* the real value num/(den 2^e) lies strictly between 2^(a-b-1-e) and 2^(a-b+1-e), a = log2 num, b = log2 den;
   used at e0 = a - b - 52 *)
Lemma scaled_bounds num den : 0 < num -> 0 < den ->
  let e0 := Z.log2 num - Z.log2 den - 52 in
  2 ^ 51 * sD den e0 < sN num e0 /\ sN num e0 < 2 ^ 53 * sD den e0.
Proof.
  intros Hn Hd e0. destruct (Z.log2_spec num Hn) as [A1 A2]. destruct (Z.log2_spec den Hd) as [B1 B2].
  set (a := Z.log2 num) in *. set (b := Z.log2 den) in *.
  pose proof (Z.log2_nonneg num) as Ha. pose proof (Z.log2_nonneg den) as Hb. fold a in Ha. fold b in Hb.
  rewrite Z.pow_succ_r in A2, B2 by lia.
  unfold sN, sD. destruct (0 <=? e0) eqn:E.
  - apply Z.leb_le in E. assert (a = b + 52 + e0) as Ea by (unfold e0; lia).
    rewrite Ea in A1, A2. rewrite !Z.pow_add_r in A1, A2 by lia.
    change (2 ^ 52) with 4503599627370496 in *. change (2 ^ 51) with 2251799813685248. change (2 ^ 53) with 9007199254740992.
    pose proof (Z.pow_pos_nonneg 2 e0 ltac:(lia) E). pose proof (Z.pow_pos_nonneg 2 b ltac:(lia) Hb). split; nia.
  - apply Z.leb_gt in E. assert (b + 52 = a + (- e0)) as Ea by (unfold e0; lia).
    assert (2 ^ b * 2 ^ 52 = 2 ^ a * 2 ^ (- e0)) as Ep by (rewrite <- !Z.pow_add_r by lia; f_equal; exact Ea).
    change (2 ^ 52) with 4503599627370496 in *. change (2 ^ 51) with 2251799813685248. change (2 ^ 53) with 9007199254740992.
    pose proof (Z.pow_pos_nonneg 2 (- e0) ltac:(lia) ltac:(lia)). pose proof (Z.pow_pos_nonneg 2 b ltac:(lia) Hb).
    pose proof (Z.pow_pos_nonneg 2 a ltac:(lia) Ha). split; nia.
Qed.

(* what rn53 returns, with the fraction it rounded *)
Definition near (num den m e : Z) : Prop := 2 * Z.abs (sN num e - m * sD den e) <= sD den e.

Lemma near_carry num den e : 0 < num -> 0 < den -> near num den two53 e -> near num den two52 (e + 1).
Proof.
  intros Hn Hd. unfold near. pose proof (scale_down num den (e + 1) Hn Hd) as S.
  replace (e + 1 - 1) with e in S by lia.
  pose proof (sD_pos den e Hd) as D0. pose proof (sD_pos den (e + 1) Hd) as D1.
  (* sN e / sD e = 2 sN (e+1) / sD (e+1) *)
  unfold two53, two52. intros H.
  assert (forall x y, 0 < y -> 2 * Z.abs x <= y <-> (-y <= 2 * x <= y)) as Ab by (intros; lia).
  apply (Ab _ _ D0) in H. apply (Ab _ _ D1).
  set (N0 := sN num e) in *. set (N1 := sN num (e + 1)) in *. set (d0 := sD den e) in *. set (d1 := sD den (e + 1)) in *.
  (* N0 d1 = 2 N1 d0 *)
  split; nia.
Qed.

Theorem rn53_spec num den : 0 < num -> 0 < den ->
  let '(m, e) := rn53 num den in two52 <= m < two53 /\ near num den m e.
Proof.
  intros Hn Hd. unfold rn53.
  assert ((num <=? 0) || (den <=? 0) = false) as -> by (apply orb_false_iff; split; apply Z.leb_gt; lia).
  set (e0 := Z.log2 num - Z.log2 den - 52).
  assert (forall e, (if 0 <=? e then num / (den * 2 ^ e) else num * 2 ^ (- e) / den) = sN num e / sD den e) as Sc
    by (intros e; unfold sN, sD; destruct (0 <=? e); reflexivity).
  rewrite !Sc.
  destruct (scaled_bounds num den Hn Hd) as [L U]. fold e0 in L, U.
  pose proof (sD_pos den e0 Hd) as D0.
  assert (two53 <=? sN num e0 / sD den e0 = false) as F53.
  { apply Z.leb_gt. apply Z.div_lt_upper_bound; [lia|]. unfold two53. change (2 ^ 53) with 9007199254740992 in U. lia. }
  rewrite F53.
  (* the chosen exponent and the bounds of the quotient there *)
  set (e := if sN num e0 / sD den e0 <? two52 then e0 - 1 else e0).
  assert (two52 * sD den e <= sN num e /\ sN num e < two53 * sD den e) as [Lo Hi].
  { unfold e. destruct (sN num e0 / sD den e0 <? two52) eqn:E.
    - apply Z.ltb_lt in E. pose proof (scale_down num den e0 Hn Hd) as S.
      pose proof (sD_pos den (e0 - 1) Hd) as D1.
      assert (sN num e0 < two52 * sD den e0) as Lt.
      { destruct (Z_lt_le_dec (sN num e0) (two52 * sD den e0)) as [|G]; [assumption|]. exfalso.
        assert (two52 <= sN num e0 / sD den e0) by (apply Z.div_le_lower_bound; lia). lia. }
      unfold two52, two53 in *. change (2 ^ 51) with 2251799813685248 in L.
      set (N0 := sN num e0) in *. set (N1 := sN num (e0 - 1)) in *. set (d0 := sD den e0) in *. set (d1 := sD den (e0 - 1)) in *.
      split; nia.
    - apply Z.ltb_ge in E. split.
      + pose proof (Z.mul_div_le (sN num e0) (sD den e0) D0). nia.
      + unfold two53. change (2 ^ 53) with 9007199254740992 in U. lia. }
  assert ((if 0 <=? e then num else num * 2 ^ (- e)) = sN num e) as -> by reflexivity.
  assert ((if 0 <=? e then den * 2 ^ e else den) = sD den e) as -> by reflexivity.
  pose proof (sD_pos den e Hd) as De.
  set (N := sN num e) in *. set (D := sD den e) in *.
  pose proof (Z.div_mod N D ltac:(lia)) as DM. pose proof (Z.mod_pos_bound N D De) as MB.
  set (m := N / D) in *. set (r := N mod D) in *.
  assert (two52 <= m < two53) as Hm.
  { split; [apply Z.div_le_lower_bound; lia | apply Z.div_lt_upper_bound; lia]. }
  assert (forall x y, 0 < y -> (2 * Z.abs x <= y <-> (-y <= 2 * x <= y))) as Ab by (intros; lia).
  destruct ((D <? 2 * r) || ((2 * r =? D) && Z.odd m)) eqn:Up.
  - (* rounded up *)
    assert (D <= 2 * r) as Hr.
    { apply orb_true_iff in Up as [Up|Up]; [apply Z.ltb_lt in Up; lia | apply andb_true_iff in Up as [Up _]; apply Z.eqb_eq in Up; lia]. }
    assert (near num den (m + 1) e) as Nr.
    { unfold near. fold N D. apply (Ab _ _ De). nia. }
    destruct (m + 1 =? two53) eqn:C.
    + apply Z.eqb_eq in C. split; [unfold two52, two53; lia|]. apply near_carry; [assumption | assumption|]. rewrite <- C. exact Nr.
    + apply Z.eqb_neq in C. split; [lia | exact Nr].
  - (* rounded down *)
    assert (2 * r <= D) as Hr.
    { apply orb_false_iff in Up as [U1 _]. apply Z.ltb_ge in U1. exact U1. }
    assert (m =? two53 = false) as -> by (apply Z.eqb_neq; lia).
    split; [exact Hm|]. unfold near. fold N D. apply (Ab _ _ De). nia.
Qed.
