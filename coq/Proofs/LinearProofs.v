From Coq Require Import ZArith QArith Qround Qminmax Lqa Lia Bool.
From Coq Require Import List.
From V Require Import Model.LinearPacer Model.Pacer Proofs.PacerProofs.
Open Scope Q_scope.

Lemma Qle_bool_t a b : Qle_bool a b = true -> a <= b. Proof. apply Qle_bool_iff. Qed.
Lemma Qle_bool_f a b : Qle_bool a b = false -> b < a.
Proof. intros H. apply Qnot_le_lt. intros X. apply Qle_bool_iff in X. congruence. Qed.

Lemma e9_pos : 0 < e9. Proof. reflexivity. Qed.

Lemma lin_x_nonneg t : (0 <= t)%Z -> 0 <= lin_x t.
Proof.
  intros H. unfold lin_x. apply Qle_shift_div_l; [apply e9_pos|]. rewrite Qmult_0_l.
  unfold Qle; cbn. lia.
Qed.

Lemma lin_x_plus t w : lin_x (t + w) == lin_x t + lin_x w.
Proof. unfold lin_x. rewrite inject_Z_plus. field. intros X. discriminate. Qed.

Lemma lin_H_nonneg_t a b t : (0 <= t)%Z -> lin_H a b t == a * (lin_x t * lin_x t) / 2 + b * lin_x t.
Proof. intros H. unfold lin_H. assert ((t <? 0)%Z = false) as -> by (apply Z.ltb_ge; exact H). reflexivity. Qed.

(* the schedule is convex for a >= 0: a step of w >= 0 gains at least rate(t) * w *)
Lemma lin_H_step a b t w : 0 <= a -> (0 <= t)%Z -> (0 <= w)%Z ->
  lin_H a b t + lin_rate a b t * lin_x w <= lin_H a b (t + w).
Proof.
  intros Ha Ht Hw. rewrite (lin_H_nonneg_t a b t Ht), (lin_H_nonneg_t a b (t + w)) by lia.
  unfold lin_rate. rewrite lin_x_plus. pose proof (lin_x_nonneg t Ht) as X. pose proof (lin_x_nonneg w Hw) as W.
  set (x := lin_x t) in *. set (y := lin_x w) in *.
  assert (a * ((x + y) * (x + y)) / 2 + b * (x + y) - (a * (x * x) / 2 + b * x + (a * x + b) * y) == a * (y * y) / 2) as E by field.
  assert (0 <= a * (y * y) / 2) as P.
  { apply Qle_shift_div_l; [reflexivity|]. rewrite Qmult_0_l. apply Qmult_le_0_compat; [exact Ha | apply Qmult_le_0_compat; exact W]. }
  lra.
Qed.

Lemma lin_H_mono a b t1 t2 : 0 <= a -> 0 <= b -> (0 <= t1 <= t2)%Z -> lin_H a b t1 <= lin_H a b t2.
Proof.
  intros Ha Hb [H1 H2]. replace t2 with (t1 + (t2 - t1))%Z by lia.
  eapply Qle_trans; [|apply lin_H_step; try assumption; lia].
  assert (0 <= lin_rate a b t1 * lin_x (t2 - t1)) as P.
  { apply Qmult_le_0_compat; [|apply lin_x_nonneg; lia]. unfold lin_rate.
    pose proof (lin_x_nonneg t1 H1). pose proof (Qmult_le_0_compat _ _ Ha H). lra. }
  lra.
Qed.

Lemma qround_ge x : 0 <= x -> x - (1 # 2) <= inject_Z (qround x) /\ (0 <= qround x)%Z.
Proof.
  intros H. unfold qround. apply Qle_bool_iff in H. rewrite H. apply Qle_bool_iff in H.
  pose proof (Qlt_floor (x + (1 # 2))) as F. rewrite inject_Z_plus in F. split; [change (inject_Z 1) with 1 in F; lra|].
  assert (inject_Z 0 <= x + (1 # 2)) as Z0 by (change (inject_Z 0) with 0; lra).
  apply Qfloor_resp_le in Z0. rewrite Qfloor_Z in Z0. exact Z0.
Qed.

Lemma qtrunc0_ge x : 0 <= x -> x - 1 <= inject_Z (qtrunc0 x) /\ inject_Z (qtrunc0 x) <= x /\ (0 <= qtrunc0 x)%Z.
Proof.
  intros H. unfold qtrunc0. apply Qle_bool_iff in H. rewrite H. apply Qle_bool_iff in H.
  pose proof (Qlt_floor x) as F. rewrite inject_Z_plus in F. change (inject_Z 1) with 1 in F.
  pose proof (Qfloor_le x) as G.
  split; [lra | split; [exact G|]].
  assert (inject_Z 0 <= x) as Z0 by (change (inject_Z 0) with 0; lra).
  apply Qfloor_resp_le in Z0. rewrite Qfloor_Z in Z0. exact Z0.
Qed.

(* what a returned wait is *)
Lemma lin_pace_inv F P a t k w : (0 < F)%Z -> (0 < P)%Z -> (k <> 0)%Z -> lin_pace F P a t k = LWait w ->
  let e := lin_H a (lin_b F P) t in let r := lin_rate a (lin_b F P) t in
  0 <= e /\ (((k < Qfloor e)%Z /\ w = 0%Z) \/
             ((Qfloor e <= k)%Z /\ 0 < r /\ w = qtrunc0 (inject_Z (qround (e9 / r)) * (inject_Z (k + 1) - e)))).
Proof.
  intros HF HP Hk H. unfold lin_pace in H.
  assert (((P =? 0) || (F =? 0))%Z = false) as E1 by (apply orb_false_iff; split; apply Z.eqb_neq; lia).
  assert (((P <? 0) || (F <? 0))%Z = false) as E2 by (apply orb_false_iff; split; apply Z.ltb_ge; lia).
  assert ((k =? 0)%Z = false) as E3 by (apply Z.eqb_neq; exact Hk).
  rewrite E1, E2, E3 in H. cbv zeta in H. cbv zeta.
  set (e := lin_H a (lin_b F P) t) in *. set (r := lin_rate a (lin_b F P) t) in *.
  destruct (Qle_bool 0 e) eqn:E0; cbn [negb orb] in H; [|discriminate].
  apply Qle_bool_t in E0. split; [exact E0|].
  destruct (Qle_bool (inject_Z two_64) e); [discriminate|].
  destruct (k <? Qfloor e)%Z eqn:Ek.
  - apply Z.ltb_lt in Ek. injection H as <-. left. split; [exact Ek | reflexivity].
  - apply Z.ltb_ge in Ek. destruct (Qle_bool r 0) eqn:Er; [discriminate|]. apply Qle_bool_f in Er.
    destruct (two_64 <=? qround (e9 / r))%Z; [discriminate|].
    destruct (negb (qround (e9 / r) =? 0) && (max_i64 / qround (e9 / r) <? k))%Z; [discriminate|].
    destruct (max_i64 <? qtrunc0 (inject_Z (qround (e9 / r)) * (inject_Z (k + 1) - e)))%Z; [discriminate|].
    injection H as <-. right. split; [exact Ek | split; [exact Er | reflexivity]].
Qed.

(* the contract for a non-decreasing rate: after the wait the schedule has reached the new count, up
   to the rounding of the interval and the truncation of the wait: rate * (delta/2 + 1) ns *)
Lemma lin_contract_pos_lemma F P a t k w : 0 <= a -> (0 < F)%Z -> (0 < P)%Z -> (0 <= t)%Z -> (k <> 0)%Z ->
  lin_pace F P a t k = LWait w ->
  let b := lin_b F P in let e := lin_H a b t in let r := lin_rate a b t in let d := inject_Z (k + 1) - e in
  (0 <= w)%Z /\
  (((k < Qfloor e)%Z /\ w = 0%Z) \/
   ((Qfloor e <= k)%Z /\ inject_Z (k + 1) - r * (d / 2 + 1) / e9 <= lin_H a b (t + w))).
Proof.
  intros Ha HF HP Ht Hk H. destruct (lin_pace_inv F P a t k w HF HP Hk H) as (He & [[K1 K2]|(K1 & Kr & Kw)]); cbv zeta.
  - split; [lia | left; split; assumption].
  - set (b := lin_b F P) in *. set (e := lin_H a b t) in *. set (r := lin_rate a b t) in *.
    set (d := inject_Z (k + 1) - e) in *.
    (* d > 0 *)
    assert (0 < d) as Hd.
    { unfold d. pose proof (Qlt_floor e) as Fl. assert (inject_Z (Qfloor e + 1) <= inject_Z (k + 1)) as Q1 by (rewrite <- Zle_Qle; lia). lra. }
    assert (0 <= e9 / r) as Hq by (apply Qle_shift_div_l; [exact Kr | rewrite Qmult_0_l; apply Qlt_le_weak, e9_pos]).
    destruct (qround_ge (e9 / r) Hq) as [I1 I2]. set (i := qround (e9 / r)) in *.
    assert (0 <= inject_Z i) as Hi by (change 0 with (inject_Z 0); rewrite <- Zle_Qle; exact I2).
    assert (0 <= inject_Z i * d) as Hid by (apply Qmult_le_0_compat; [exact Hi | apply Qlt_le_weak, Hd]).
    destruct (qtrunc0_ge (inject_Z i * d) Hid) as (W1 & W2 & W3). rewrite <- Kw in W1, W2, W3.
    split; [exact W3|]. right. split; [exact K1|].
    pose proof (lin_H_step a b t w Ha Ht W3) as S. fold e r in S.
    (* lin_x w = w / e9 >= (i d - 1)/e9 *)
    assert (lin_x w == inject_Z w / e9) as Xw by reflexivity.
    assert (e9 / r * r == e9) as Er by (field; intros X; rewrite X in Kr; apply (Qlt_irrefl 0 Kr)).
    (* r * w / e9 >= d - r (d/2 + 1)/e9 *)
    assert (d - r * (d / 2 + 1) / e9 <= r * lin_x w) as Key.
    { rewrite Xw.
      assert (r * (inject_Z w / e9) == r * inject_Z w / e9) as -> by (field; intros X; discriminate).
      assert (d - r * (d / 2 + 1) / e9 == (d * e9 - r * (d / 2 + 1)) / e9) as -> by (field; intros X; discriminate).
      apply Qmult_le_compat_r; [|apply Qlt_le_weak, Qinv_lt_0_compat, e9_pos].
      (* r * w >= r * (i d - 1) >= r * ((e9/r - 1/2) d - 1) = e9 d - r d/2 - r *)
      assert (r * (inject_Z i * d - 1) <= r * inject_Z w) as A1 by (apply Qmult_le_l; [exact Kr | exact W1]).
      assert (r * ((e9 / r - (1 # 2)) * d - 1) <= r * (inject_Z i * d - 1)) as A2.
      { apply Qmult_le_l; [exact Kr|]. assert ((e9 / r - (1 # 2)) * d <= inject_Z i * d) by (apply Qmult_le_compat_r; [exact I1 | apply Qlt_le_weak, Hd]). lra. }
      assert (r * ((e9 / r - (1 # 2)) * d - 1) == d * e9 - r * (d / 2 + 1)) as A3.
      { assert (r * ((e9 / r - (1 # 2)) * d - 1) == (e9 / r * r) * d - r * (d / 2 + 1)) as -> by (field; intros X; rewrite X in Kr; apply (Qlt_irrefl 0 Kr)).
        rewrite Er. ring. }
      lra. }
    unfold d in Key at 1. lra.
Qed.

(* admissible: the count is at most one hit above the schedule *)
Definition lin_adm (F P : Z) (a : Q) (t k : Z) : Prop := inject_Z k <= lin_H a (lin_b F P) t + 1.

Lemma lin_b_pos F P : (0 < F)%Z -> (0 < P)%Z -> 0 < lin_b F P.
Proof.
  intros HF HP. unfold lin_b. apply Qmult_lt_0_compat; [|apply e9_pos].
  apply Qlt_shift_div_l; [unfold Qlt; cbn; lia | rewrite Qmult_0_l; unfold Qlt; cbn; lia].
Qed.

Lemma lin_H_nonneg F P a t : 0 <= a -> (0 < F)%Z -> (0 < P)%Z -> (0 <= t)%Z -> 0 <= lin_H a (lin_b F P) t.
Proof.
  intros Ha HF HP Ht. rewrite lin_H_nonneg_t by exact Ht. pose proof (lin_x_nonneg t Ht) as X. pose proof (lin_b_pos F P HF HP) as B.
  set (x := lin_x t) in *. set (b := lin_b F P) in *.
  assert (0 <= a * (x * x) / 2) by (apply Qle_shift_div_l; [reflexivity | rewrite Qmult_0_l; apply Qmult_le_0_compat; [exact Ha | apply Qmult_le_0_compat; exact X]]).
  assert (0 <= b * x) by (apply Qmult_le_0_compat; [apply Qlt_le_weak, B | exact X]). lra.
Qed.

(* one step of the closed loop keeps the count admissible, for every non-decreasing rate of at
   most 5*10^8 hits/s at the call (the interval is then at least 2 ns) *)
Lemma lin_adm_step F P a t k w : 0 <= a -> (0 < F)%Z -> (0 < P)%Z -> (0 <= t)%Z -> (0 <= k)%Z ->
  lin_rate a (lin_b F P) t <= inject_Z (5 * 10 ^ 8) ->
  lin_adm F P a t k -> lin_pace F P a t k = LWait w -> lin_adm F P a (t + Z.max w 0) (k + 1).
Proof.
  intros Ha HF HP Ht Hk0 Hr Adm H. unfold lin_adm in *.
  destruct (Z.eq_dec k 0) as [->|Hk].
  - (* the first hit goes out at once *)
    unfold lin_pace in H.
    assert (((P =? 0) || (F =? 0))%Z = false) as E1 by (apply orb_false_iff; split; apply Z.eqb_neq; lia).
    assert (((P <? 0) || (F <? 0))%Z = false) as E2 by (apply orb_false_iff; split; apply Z.ltb_ge; lia).
    rewrite E1, E2 in H. cbn in H. injection H as <-. cbn [Z.max Z.add]. rewrite Z.add_0_r.
    pose proof (lin_H_nonneg F P a t Ha HF HP Ht). change (inject_Z 1) with 1. lra.
  - destruct (lin_contract_pos_lemma F P a t k w Ha HF HP Ht Hk H) as (Hw & [[K1 K2]|[K1 K2]]).
    + subst w. cbn [Z.max]. rewrite Z.add_0_r.
      assert (inject_Z (k + 1) <= inject_Z (Qfloor (lin_H a (lin_b F P) t))) as Q1 by (rewrite <- Zle_Qle; lia).
      pose proof (Qfloor_le (lin_H a (lin_b F P) t)). lra.
    + rewrite Z.max_l by lia. cbv zeta in K2.
      set (b := lin_b F P) in *. set (e := lin_H a b t) in *. set (r := lin_rate a b t) in *.
      (* d <= 2 and r <= 5e8: r (d/2 + 1) / e9 <= 1 *)
      assert (inject_Z (k + 1) - e <= 2) as Hd by (rewrite inject_Z_plus; change (inject_Z 1) with 1; lra).
      assert (0 < r) as Hr0.
      { unfold r, lin_rate. pose proof (lin_x_nonneg t Ht). pose proof (lin_b_pos F P HF HP). fold b in H1.
        pose proof (Qmult_le_0_compat _ _ Ha H0). lra. }
      assert (r * ((inject_Z (k + 1) - e) / 2 + 1) / e9 <= 1) as Small.
      { apply Qle_shift_div_r; [apply e9_pos|]. rewrite Qmult_1_l.
        assert ((inject_Z (k + 1) - e) / 2 + 1 <= 2) as D2.
        { assert ((inject_Z (k + 1) - e) / 2 == (inject_Z (k + 1) - e) * (1 # 2)) as -> by (unfold Qdiv; reflexivity). lra. }
        assert (r * ((inject_Z (k + 1) - e) / 2 + 1) <= r * 2) as M1 by (apply Qmult_le_l; [exact Hr0 | exact D2]).
        assert (r * 2 <= inject_Z (5 * 10 ^ 8) * 2) as M2 by (apply Qmult_le_compat_r; [exact Hr | discriminate]).
        assert (inject_Z (5 * 10 ^ 8) * 2 == e9) as M3 by reflexivity. lra. }
      lra.
Qed.

(* a positive wait is returned only when the count is on or ahead of the schedule *)
Lemma lin_positive_wait_lemma F P a t k w : (0 < F)%Z -> (0 < P)%Z ->
  lin_pace F P a t k = LWait w -> (0 < w)%Z -> (Qfloor (lin_H a (lin_b F P) t) <= k)%Z.
Proof.
  intros HF HP H Hw. destruct (Z.eq_dec k 0) as [->|Hk].
  - unfold lin_pace in H.
    assert (((P =? 0) || (F =? 0))%Z = false) as E1 by (apply orb_false_iff; split; apply Z.eqb_neq; lia).
    assert (((P <? 0) || (F <? 0))%Z = false) as E2 by (apply orb_false_iff; split; apply Z.ltb_ge; lia).
    rewrite E1, E2 in H. cbn in H. injection H as <-. lia.
  - destruct (lin_pace_inv F P a t k w HF HP Hk H) as (_ & [[K1 K2]|(K1 & _)]); [lia | exact K1].
Qed.

Lemma lin_neg_stops_lemma F P a t k : (P <> 0)%Z -> (F <> 0)%Z -> (P < 0 \/ F < 0)%Z -> lin_pace F P a t k = LStop.
Proof.
  intros HP HF Hn. unfold lin_pace.
  assert (((P =? 0) || (F =? 0))%Z = false) as -> by (apply orb_false_iff; split; apply Z.eqb_neq; assumption).
  assert (((P <? 0) || (F <? 0))%Z = true) as -> by (apply orb_true_iff; destruct Hn; [left | right]; apply Z.ltb_lt; assumption).
  reflexivity.
Qed.

Lemma lin_zero_unlimited_lemma F P a t k : (P = 0 \/ F = 0)%Z -> lin_pace F P a t k = LWait 0.
Proof.
  intros H. unfold lin_pace.
  assert (((P =? 0) || (F =? 0))%Z = true) as -> by (apply orb_true_iff; destruct H; [left | right]; apply Z.eqb_eq; assumption).
  reflexivity.
Qed.

(* a decreasing rate: the contract is false.  Linear{100/1s, slope -10} called at t = 9.9 s with
   500 hits released *)
Lemma lin_neg_refuted_lemma : exists F P a t k w,
  (0 < F)%Z /\ (0 < P)%Z /\ lin_pace F P a t k = LWait w /\ lin_adm F P a t k /\ ~ lin_adm F P a (t + Z.max w 0) (k + 1).
Proof.
  exists 100%Z, 1000000000%Z, (- (10 # 1)), 9900000000%Z, 500%Z.
  eexists. split; [reflexivity|]. split; [reflexivity|]. split; [vm_compute; reflexivity|].
  split; [vm_compute; discriminate | vm_compute; intros X; apply X; reflexivity].
Qed.

(* ---- the closed loop ---- *)

Definition lin_pace_o (F P : Z) (a : Q) (t k : Z) : outcome :=
  match lin_pace F P a t k with LWait w => Wait w | LStop => Stop | LUndef => Stop end.

Lemma lin_H_mono_all F P a t t' : 0 <= a -> (0 < F)%Z -> (0 < P)%Z -> (t <= t')%Z ->
  lin_H a (lin_b F P) t <= lin_H a (lin_b F P) t'.
Proof.
  intros Ha HF HP Ht. destruct (Z_lt_le_dec t 0) as [Hn|Hp].
  - unfold lin_H at 1. assert ((t <? 0)%Z = true) as -> by (apply Z.ltb_lt; exact Hn).
    destruct (Z_lt_le_dec t' 0) as [Hn'|Hp'].
    + unfold lin_H. assert ((t' <? 0)%Z = true) as -> by (apply Z.ltb_lt; exact Hn'). apply Qle_refl.
    + apply lin_H_nonneg; assumption.
  - apply lin_H_mono; [exact Ha | apply Qlt_le_weak, lin_b_pos; assumption | lia].
Qed.

Definition lin_dom (F P : Z) (a : Q) (t k : Z) : Prop :=
  (0 <= t)%Z /\ (0 <= k)%Z /\ lin_rate a (lin_b F P) t <= inject_Z (5 * 10 ^ 8).

Lemma lin_closed_loop_lemma F P a stalls : 0 <= a -> (0 < F)%Z -> (0 < P)%Z ->
  dom_along (lin_pace_o F P a) (lin_dom F P a) (0, 0)%Z stalls ->
  Forall (fun st => lin_adm F P a (fst st) (snd st)) (loop_run (lin_pace_o F P a) (0, 0)%Z stalls).
Proof.
  intros Ha HF HP HD.
  apply (loop_run_adm_calls (lin_pace_o F P a) (lin_adm F P a) (lin_dom F P a)).
  - intros t t' c Adm Ht. unfold lin_adm in *. pose proof (lin_H_mono_all F P a t t' Ha HF HP Ht). lra.
  - intros t k w (Dt & Dk & Dr) Adm E. unfold lin_pace_o in E.
    destruct (lin_pace F P a t k) as [w'| |] eqn:E'; try discriminate. injection E as <-.
    eapply lin_adm_step; eassumption.
  - unfold lin_adm. cbn [fst snd]. pose proof (lin_H_nonneg F P a 0 Ha HF HP ltac:(lia)). change (inject_Z 0) with 0. lra.
  - exact HD.
Qed.
