(* constant pacer + duration on the attack LTS: the total number of hits of an attack *)
From Coq Require Import ZArith List Bool Lia.
From V Require Import Model.Pacer Proofs.PacerProofs Model.AttackLTS Proofs.AttackProofs Proofs.LoopScheduleProofs.
Import ListNotations.
Open Scope Z_scope.

Lemma const_loop_lts_lemma F P c s : 0 < F -> 0 < P -> reachable c s ->
  (forall e h w, In (e, h, w, false) (paces s) -> const_dom F P e h /\ const_pace F P e h = Wait w) ->
  count s * P <= F * now s /\ AttackLTS.seq s * P <= F * now s /\
  Forall (fun p => let '(e, h, w, t) := p in (h + 1) * P <= F * t) (hist s).
Proof.
  intros HF HP R Hp.
  destruct (loop_on_schedule_lemma (const_pace F P) (const_adm F P) (const_dom F P)) with (c := c) (s := s) as (A & H & B).
  - intros t t' k H Ht. exact (const_adm_mono F P t t' k HF H Ht).
  - intros t k w D _ E. unfold const_adm. exact (const_contract_lemma F P t k w D E).
  - unfold const_adm. lia.
  - exact R.
  - exact Hp.
  - unfold const_adm in *. split; [exact A | split; [nia | exact H]].
Qed.

(* with a duration: all ticks but the last were released by the deadline, on the schedule *)
Lemma const_total_hits_lemma F P c s : 0 < F -> 0 < P -> 0 < du c -> reachable c s ->
  (forall e h w, In (e, h, w, false) (paces s) -> const_dom F P e h /\ const_pace F P e h = Wait w) ->
  (count s - 1) * P <= F * du c /\ (AttackLTS.seq s - 1) * P <= F * du c.
Proof.
  intros HF HP Hd R Hp.
  destruct (const_loop_lts_lemma F P c s HF HP R Hp) as (_ & _ & Hs).
  destruct (reach_pace c s R) as [Pp N Hh Hn C D PD HD PC].
  destruct (reach_seqs c s R) as [_ _ Cn _].
  pose proof (hist_late_at_most_one c (hist s) Hh HD Hd) as Hl.
  assert (Hc : (count s - 1) * P <= F * du c).
  { assert (0 <= F * du c) by nia.
    rewrite C. destruct (hist s) as [|[[[e h] w] t] r]; [cbn [length]; change (Z.of_nat 0) with 0; nia|].
    destruct r as [|[[[e1 h1] w1] t1] r1]; [cbn [length]; change (Z.of_nat 1) with 1; nia|].
    inversion Hl as [|x l Ht1 _]; subst. inversion Hs as [|x l _ Hs']; subst. inversion Hs' as [|x l H1 _]; subst.
    cbn [hist_ok] in Hh. destruct Hh as (_ & _ & _ & (Hh1 & _)).
    cbn [length]. rewrite !Nat2Z.inj_succ. subst h1.
    assert (F * t1 <= F * du c) by nia. lia. }
  split; [exact Hc | nia].
Qed.
