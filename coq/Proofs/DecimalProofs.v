From Coq Require Import ZArith List Bool Lia.
From V Require Import Base.Duration Base.Str.
Import ListNotations.
Open Scope Z_scope.

Lemma digits_val_app l1 l2 v :
  digits_val (l1 ++ l2) v = match digits_val l1 v with Some v' => digits_val l2 v' | None => None end.
Proof.
  revert v. induction l1 as [|c tl IH]; intros v; cbn; [reflexivity|].
  destruct (is_digit c); [apply IH | reflexivity].
Qed.

Lemma digits_of_acc fuel : forall n acc, digits_of fuel n acc = digits_of fuel n [] ++ acc.
Proof.
  induction fuel as [|f IH]; intros n acc; cbn; [reflexivity|].
  destruct (n <? 10); [reflexivity|]. rewrite (IH (n / 10) (_ :: acc)), (IH (n / 10) [_]), <- app_assoc. reflexivity.
Qed.

Lemma is_digit_48 d : 0 <= d < 10 -> is_digit (48 + d) = true /\ 48 + d - 48 = d.
Proof. intros H. unfold is_digit. split; [apply andb_true_iff; split; apply Z.leb_le; lia | lia]. Qed.

Lemma digits_of_val fuel : forall n, 0 <= n < 10 ^ Z.of_nat fuel -> (0 < fuel)%nat ->
  exists k, 0 <= k /\ digits_of fuel n [] <> [] /\ forall v, digits_val (digits_of fuel n []) v = Some (v * 10 ^ k + n).
Proof.
  induction fuel as [|f IH]; intros n Hn Hf; [lia|]. cbn [digits_of].
  destruct (n <? 10) eqn:E.
  - apply Z.ltb_lt in E. exists 1. split; [lia|]. split; [discriminate|]. intros v. cbn [digits_val].
    destruct (is_digit_48 n ltac:(lia)) as (-> & ->). cbn [digits_val]. f_equal; change (10 ^ 1) with 10; lia.
  - apply Z.ltb_ge in E. rewrite digits_of_acc.
    pose proof (Z.div_mod n 10 ltac:(lia)) as D. pose proof (Z.mod_pos_bound n 10 ltac:(lia)) as Dr.
    assert (0 < f)%nat as Hf0.
    { destruct f; [|lia]. cbn in Hn. lia. }
    assert (0 <= n / 10 < 10 ^ Z.of_nat f) as Hq.
    { rewrite Nat2Z.inj_succ, Z.pow_succ_r in Hn by lia. set (P := 10 ^ Z.of_nat f) in *.
      split; [apply Z.div_pos; lia|]. apply Z.div_lt_upper_bound; lia. }
    destruct (IH (n / 10) Hq Hf0) as (k & Hk & Hne & Hv).
    exists (k + 1). split; [lia|]. split; [destruct (digits_of f (n / 10) []); [congruence | discriminate]|].
    intros v. rewrite digits_val_app, Hv. cbn [digits_val].
    destruct (is_digit_48 (n mod 10) ltac:(lia)) as (-> & ->). f_equal.
    rewrite Z.pow_add_r by lia. change (10 ^ 1) with 10.
    set (q := n / 10) in *. set (r := n mod 10) in *. rewrite D. ring.
Qed.

Lemma big_enough : 18446744073709551616 < 10 ^ Z.of_nat 80.
Proof. vm_compute. reflexivity. Qed.

(* FormatUint / FormatInt followed by the matching parser *)
Lemma itoa_nonneg_val n : 0 <= n < 18446744073709551616 -> itoa n <> [] /\ digits_val (itoa n) 0 = Some n /\ hd 0 (itoa n) <> 45 /\ hd 0 (itoa n) <> 43.
Proof.
  intros H. unfold itoa. assert (n <? 0 = false) as -> by (apply Z.ltb_ge; lia).
  pose proof big_enough as BE.
  destruct (digits_of_val 80 n ltac:(lia) ltac:(lia)) as (k & Hk & Hne & Hv).
  split; [exact Hne|]. split; [rewrite Hv; f_equal; lia|].
  (* first character is a digit *)
  destruct (digits_of 80 n []) as [|c tl] eqn:E; [congruence|]. cbn [hd].
  specialize (Hv 0). cbn [digits_val] in Hv. destruct (is_digit c) eqn:D; [|discriminate].
  unfold is_digit in D. apply andb_true_iff in D as [D1 D2]. apply Z.leb_le in D1. lia.
Qed.

Lemma atoi_itoa_lemma n : - two63 <= n < two63 -> atoi (itoa n) = Some n.
Proof.
  intros H. assert (two63 = 9223372036854775808) as T by reflexivity.
  destruct (Z_lt_le_dec n 0) as [Hneg|Hpos].
  - unfold itoa. assert (n <? 0 = true) as -> by (apply Z.ltb_lt; lia).
    pose proof big_enough as BE.
    destruct (digits_of_val 80 (- n) ltac:(lia) ltac:(lia)) as (k & Hk & Hne & Hv).
    unfold atoi. destruct (digits_of 80 (- n) []) as [|c tl] eqn:E; [congruence|].
    rewrite Hv. replace (0 * 10 ^ k + - n) with (- n) by lia.
    assert ((- two63 <=? - - n) && (- - n <? two63) = true) as ->
      by (apply andb_true_iff; split; [apply Z.leb_le | apply Z.ltb_lt]; lia).
    f_equal. lia.
  - destruct (itoa_nonneg_val n ltac:(lia)) as (Hne & Hv & H45 & H43).
    unfold atoi. destruct (itoa n) as [|c tl] eqn:E; [congruence|]. cbn [hd] in H45, H43.
    assert (match c :: tl with 45 :: tl0 => (true, tl0) | 43 :: tl0 => (false, tl0) | _ => (false, c :: tl) end = (false, c :: tl)) as ->.
    { destruct c as [|p|p]; try reflexivity.
      do 6 (destruct p as [p|p|]; try reflexivity); try congruence. }
    rewrite Hv.
    assert ((- two63 <=? n) && (n <? two63) = true) as -> by (apply andb_true_iff; split; [apply Z.leb_le | apply Z.ltb_lt]; lia).
    reflexivity.
Qed.

Lemma itoa_no_slash n : - two63 <= n < two63 -> ~ In 47 (itoa n).
Proof.
  (* every character of itoa is '-' or a digit *)
  intros H.
  assert (forall fuel m acc, 0 <= m -> Forall (fun c => c = 45 \/ is_digit c = true) acc ->
            Forall (fun c => c = 45 \/ is_digit c = true) (digits_of fuel m acc)) as K.
  { induction fuel as [|f IH]; intros m acc Hm Ha; cbn; [exact Ha|].
    destruct (m <? 10) eqn:E.
    - apply Z.ltb_lt in E. constructor; [right; apply (is_digit_48 m); lia | exact Ha].
    - apply Z.ltb_ge in E. apply IH; [apply Z.div_pos; lia|]. constructor; [right; apply (is_digit_48 (m mod 10)); apply Z.mod_pos_bound; lia | exact Ha]. }
  intros Hin. unfold itoa in Hin.
  assert (Forall (fun c => c = 45 \/ is_digit c = true) (if n <? 0 then 45 :: digits_of 80 (- n) [] else digits_of 80 n [])) as F.
  { destruct (n <? 0) eqn:E; [apply Z.ltb_lt in E; constructor; [left; reflexivity | apply K; [lia | constructor]] | apply Z.ltb_ge in E; apply K; [lia | constructor]]. }
  rewrite Forall_forall in F. destruct (F 47 Hin) as [F1|F1]; [discriminate | cbn in F1; discriminate].
Qed.
