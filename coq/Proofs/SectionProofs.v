(* The reduction behind C05, mechanised: when the checker accepts a skeleton (the clock read, the
   read of the sequence number and its increment lie in one Lock m .. Unlock m section), then in
   EVERY interleaving of any number of threads, with a clock that never runs backwards, the
   sequence numbers the threads read are pairwise different and ordered like their timestamps. *)
From Coq Require Import ZArith List Bool Lia.
From V Require Import Model.Skel Model.SkelData Proofs.SkelProofs.
Import ListNotations.
Open Scope Z_scope.

Definition specials (p : skel) : list act := filter (fun a => negb (special a =? 0)) p.
Definition is_lock (m : Z) (a : act) : bool := match a with ALock x => x =? m | _ => false end.
Definition nlocks (m : Z) (l : skel) : nat := length (filter (is_lock m) l).
Definition nsp (p : skel) (pc : nat) : nat := length (specials (firstn pc p)).

Lemma scan_kinds m p : forall h sec, map (fun e => fst (fst e)) (scan m h sec p) = map special (specials p).
Proof.
  induction p as [|a tl IH]; intros h sec; [reflexivity|]. cbn [scan specials filter].
  fold (specials tl). destruct (special a =? 0) eqn:E; cbn [negb]; [apply IH|].
  cbn [map fst]. f_equal. apply IH.
Qed.

Lemma scan_at m p : forall h sec i a, nth_error p i = Some a -> special a <> 0 ->
  In (special a, memz m (fold_left held_step (firstn i p) h), (sec + nlocks m (firstn i p))%nat) (scan m h sec p).
Proof.
  induction p as [|x tl IH]; intros h sec i a H Sp; [destruct i; discriminate|].
  destruct i as [|i]; cbn in H.
  - injection H as ->. cbn [scan firstn fold_left nlocks filter length]. apply Z.eqb_neq in Sp. rewrite Sp.
    rewrite Nat.add_0_r. left. reflexivity.
  - cbn [scan firstn fold_left].
    pose proof (IH (held_step h x) (match x with ALock y => if y =? m then S sec else sec | _ => sec end) i a H Sp) as Hin.
    assert ((match x with ALock y => if (y =? m)%Z then S sec else sec | _ => sec end + nlocks m (firstn i tl))%nat =
            (sec + nlocks m (x :: firstn i tl))%nat) as E.
    { unfold nlocks. cbn [filter]. destruct x; cbn [is_lock length]; try lia. destruct (m0 =? m); cbn [length]; lia. }
    rewrite E in Hin. destruct (special x =? 0); [exact Hin | right; exact Hin].
Qed.

(* positions of the special actions *)
Lemma firstn_S_nth (p : skel) i a : nth_error p i = Some a -> firstn (S i) p = firstn i p ++ [a].
Proof.
  revert i. induction p as [|x tl IH]; intros [|i] H; cbn in *; try discriminate.
  - injection H as ->. reflexivity.
  - f_equal. apply IH, H.
Qed.

Lemma nsp_S p pc a : nth_error p pc = Some a -> nsp p (S pc) = (nsp p pc + (if (special a =? 0)%Z then 0 else 1))%nat.
Proof.
  intros H. unfold nsp, specials. rewrite (firstn_S_nth p pc a H), filter_app, app_length. cbn [filter].
  destruct (special a =? 0); cbn; lia.
Qed.

Lemma nsp_end p pc : nth_error p pc = None -> nsp p (S pc) = nsp p pc.
Proof.
  intros H. apply nth_error_None in H. unfold nsp. rewrite !firstn_all2 by lia. reflexivity.
Qed.

Lemma nsp_mono p : forall a b, (a <= b)%nat -> (nsp p a <= nsp p b)%nat.
Proof.
  intros a b H. induction H as [|b H IH]; [lia|].
  destruct (nth_error p b) as [x|] eqn:E; [rewrite (nsp_S p b x E) | rewrite (nsp_end p b E)]; lia.
Qed.

Lemma special_pos p : forall j a, nth_error (specials p) j = Some a ->
  exists i, nth_error p i = Some a /\ nsp p i = j.
Proof.
  induction p as [|x tl IH]; intros j a H; [destruct j; discriminate|].
  unfold specials in H. cbn [filter] in H. fold (specials tl) in H.
  destruct (special x =? 0) eqn:E; cbn [negb] in H.
  - destruct (IH j a H) as (i & Hi & Hn). exists (S i). split; [exact Hi|].
    unfold nsp, specials in *. cbn [firstn filter]. rewrite E. cbn [negb]. exact Hn.
  - destruct j as [|j]; cbn in H.
    + injection H as ->. exists O. split; reflexivity.
    + destruct (IH j a H) as (i & Hi & Hn). exists (S i). split; [exact Hi|].
      unfold nsp, specials in *. cbn [firstn filter]. rewrite E. cbn [negb length]. lia.
Qed.

(* a mutex that is not re-locked stays released *)
Lemma nlocks_S m p i a : nth_error p i = Some a ->
  nlocks m (firstn (S i) p) = (nlocks m (firstn i p) + (if is_lock m a then 1 else 0))%nat.
Proof.
  intros H. unfold nlocks. rewrite (firstn_S_nth p i a H), filter_app, app_length. cbn [filter].
  destruct (is_lock m a); cbn; lia.
Qed.

Lemma nlocks_mono m p : forall a b, (a <= b)%nat -> (nlocks m (firstn a p) <= nlocks m (firstn b p))%nat.
Proof.
  intros a b H. induction H as [|b H IH]; [lia|].
  destruct (nth_error p b) as [x|] eqn:E; [rewrite (nlocks_S m p b x E); lia|].
  apply nth_error_None in E. rewrite (firstn_all2 (n := S b)) by lia. rewrite (firstn_all2 (n := b)) in IH by lia. exact IH.
Qed.

Lemma held_back m h a : is_lock m a = false -> memz m (held_step h a) = true -> memz m h = true.
Proof.
  intros L H. destruct a; cbn [held_step] in H; try exact H.
  - cbn [is_lock] in L. cbn [memz] in H. rewrite Z.eqb_sym, L in H. exact H.
  - (* unlock: removal only removes *)
    clear L. induction h as [|y tl IH]; cbn in *; [discriminate|].
    destruct (m0 =? y) eqn:E.
    + destruct (m =? y); [reflexivity | exact H].
    + cbn [memz] in H. destruct (m =? y); [reflexivity | apply IH, H].
Qed.

Lemma held_between m p i k : (i <= k)%nat -> nlocks m (firstn i p) = nlocks m (firstn k p) ->
  memz m (held_at p k) = true -> forall j, (i <= j <= k)%nat -> memz m (held_at p j) = true.
Proof.
  intros Hik En Hk j Hj. assert (exists d, k = (j + d)%nat) as (d & ->) by (exists (k - j)%nat; lia).
  clear Hik. revert Hk En Hj. induction d as [|d IH]; intros Hk En Hj; [rewrite Nat.add_0_r in Hk; exact Hk|].
  replace (j + S d)%nat with (S (j + d)) in * by lia.
  destruct (nth_error p (j + d)) as [a|] eqn:Ea.
  - rewrite (held_at_S p (j + d) a Ea) in Hk.
    pose proof (nlocks_S m p (j + d) a Ea) as NS.
    pose proof (nlocks_mono m p i (j + d) ltac:(lia)) as M1.
    assert (is_lock m a = false) as L by (destruct (is_lock m a); [lia | reflexivity]).
    apply IH; [eapply held_back; eassumption | lia | lia].
  - apply nth_error_None in Ea. unfold held_at in *. rewrite (firstn_all2 (n := S (j + d))) in * by lia.
    apply IH; [rewrite (firstn_all2 (n := j + d)) by lia; exact Hk | rewrite (firstn_all2 (n := j + d)) by lia; exact En | lia].
Qed.

(* what the checker's acceptance gives about the skeleton *)
Record sect (p : skel) (m : Z) : Prop := {
  s_wb : wb [] p = true;
  s_kinds : map special (specials p) = [1; 2; 3];
  s_held : forall pc, (1 <= nsp p pc <= 2)%nat -> memz m (held_at p pc) = true }.

Lemma section_of_sect p m : wb [] p = true -> section_of p m = true -> sect p m.
Proof.
  intros W S. unfold section_of in S.
  pose proof (scan_kinds m p [] 0%nat) as K.
  destruct (scan m [] 0 p) as [|[[k1 b1] s1] [|[[k2 b2] s2] [|[[k3 b3] s3] [|? ?]]]] eqn:Esc; try discriminate.
  repeat (apply andb_true_iff in S as [S ?]).
  repeat match goal with H : (_ =? _) = true |- _ => apply Z.eqb_eq in H end.
  repeat match goal with H : Nat.eqb _ _ = true |- _ => apply Nat.eqb_eq in H end. subst.
  cbn [map fst] in K. symmetry in K.
  split; [exact W | exact K|]. intros pc Hpc.
  (* positions of the clock read and of the increment *)
  destruct (specials p) as [|a1 [|a2 [|a3 [|? ?]]]] eqn:Esp; try discriminate. cbn [map] in K.
  injection K as K1 K2 K3.
  destruct (special_pos p 0 a1 ltac:(rewrite Esp; reflexivity)) as (i1 & P1 & N1).
  destruct (special_pos p 2 a3 ltac:(rewrite Esp; reflexivity)) as (i3 & P3 & N3).
  pose proof (scan_at m p [] 0%nat i1 a1 P1 ltac:(lia)) as In1. rewrite Esc, K1 in In1. fold (held_at p i1) in In1.
  pose proof (scan_at m p [] 0%nat i3 a3 P3 ltac:(lia)) as In3. rewrite Esc, K3 in In3. fold (held_at p i3) in In3.
  destruct In1 as [E1|[E1|[E1|[]]]]; try discriminate. destruct In3 as [E3|[E3|[E3|[]]]]; try discriminate.
  injection E1 as _ L1. injection E3 as H3 L3. cbn [Nat.add] in L1, L3.
  assert (i1 < pc)%nat as A1.
  { destruct (Nat.lt_ge_cases i1 pc) as [|G]; [assumption|]. pose proof (nsp_mono p pc i1 G). lia. }
  assert (pc <= i3)%nat as A3.
  { destruct (Nat.le_gt_cases pc i3) as [|G]; [assumption|]. pose proof (nsp_mono p (S i3) pc G) as M.
    rewrite (nsp_S p i3 a3 P3) in M. assert (special a3 =? 0 = false) as E by (apply Z.eqb_neq; lia). rewrite E in M. lia. }
  apply (held_between m p i1 i3); [lia | congruence | symmetry; exact H3 | lia].
Qed.

(* ---- the kind of the next special action is determined by how many have been executed ---- *)
Lemma specials_split (p : skel) k : specials p = specials (firstn k p) ++ specials (skipn k p).
Proof. unfold specials. rewrite <- filter_app, firstn_skipn. reflexivity. Qed.

Lemma next_kind p pc a : nth_error p pc = Some a -> special a <> 0 ->
  nth_error (map special (specials p)) (nsp p pc) = Some (special a).
Proof.
  intros H Sp. rewrite (specials_split p (S pc)). unfold specials at 1. rewrite (firstn_S_nth p pc a H), filter_app.
  cbn [filter]. apply Z.eqb_neq in Sp. rewrite Sp. cbn [negb]. fold (specials (firstn pc p)).
  rewrite map_app, map_app. rewrite <- app_assoc. rewrite nth_error_app2 by (unfold nsp; rewrite map_length; lia).
  unfold nsp. rewrite map_length, Nat.sub_diag. reflexivity.
Qed.

Lemma nsp_le p pc : (nsp p pc <= length (specials p))%nat.
Proof. rewrite (specials_split p pc), app_length. unfold nsp. lia. Qed.

Lemma cstep_pcs p b t b' pc : nth_error (pcs b) t = Some pc -> cstep p b t = Some b' ->
  pcs b' = set_nth t (S pc) (pcs b) /\ exists a, nth_error p pc = Some a.
Proof.
  intros Et H. unfold cstep in H. rewrite Et in H.
  destruct (nth_error p pc) as [a|] eqn:Ea; [|discriminate]. split; [|exists a; reflexivity].
  destruct a; try (injection H as <-; reflexivity).
  - destruct (hlook m (holder b)); [discriminate|]. injection H as <-. reflexivity.
  - destruct (hlook m (holder b)) as [t0|]; [|discriminate]. destruct (Nat.eqb t0 t); [|discriminate]. injection H as <-. reflexivity.
Qed.

Section Invariant.
Variable p : skel.
Variable m : Z.
Hypothesis SE : sect p m.

Definition ph (s : dstate) (t : nat) : nat :=
  match nth_error (pcs (base s)) t with Some pc => nsp p pc | None => 0%nat end.

Record J (s : dstate) : Prop := {
  j_cinv : cinv p (base s);
  j_ts1 : forall t, (1 <= ph s t)%nat -> exists x, tsr s t = Some x;
  j_ts2 : forall t x, tsr s t = Some x -> (1 <= ph s t)%nat /\ x <= clock s;
  j_sq1 : forall t, (2 <= ph s t)%nat -> exists q, sqr s t = Some q;
  j_sq2 : forall t q, sqr s t = Some q -> (2 <= ph s t)%nat;
  j_cur : forall t q, ph s t = 2%nat -> sqr s t = Some q -> q = seqc s;
  j_done : forall t q, ph s t = 3%nat -> sqr s t = Some q -> q < seqc s;
  j_ord : forall t1 t2 q1 q2 x1 x2, sqr s t1 = Some q1 -> sqr s t2 = Some q2 ->
            tsr s t1 = Some x1 -> tsr s t2 = Some x2 -> q1 < q2 -> x1 <= x2;
  j_in : forall t u x y, ph s t = 3%nat -> (1 <= ph s u <= 2)%nat -> tsr s t = Some x -> tsr s u = Some y -> x <= y;
  j_dist : forall t1 t2 q, sqr s t1 = Some q -> sqr s t2 = Some q -> t1 = t2 }.

Lemma ph_le3 s t : (ph s t <= 3)%nat.
Proof.
  unfold ph. destruct (nth_error (pcs (base s)) t) as [pc|]; [|lia].
  pose proof (nsp_le p pc) as L. pose proof (s_kinds p m SE) as K.
  assert (length (specials p) = 3%nat) as E by (rewrite <- (map_length special), K; reflexivity). lia.
Qed.

(* mutual exclusion: at most one thread is inside the section *)
Lemma inside_unique s t u : cinv p (base s) -> (1 <= ph s t <= 2)%nat -> (1 <= ph s u <= 2)%nat -> t = u.
Proof.
  intros (_ & I) Ht Hu. unfold ph in *.
  destruct (nth_error (pcs (base s)) t) as [pct|] eqn:Et; [|lia].
  destruct (nth_error (pcs (base s)) u) as [pcu|] eqn:Eu; [|lia].
  pose proof (s_held p m SE pct Ht) as M1. pose proof (s_held p m SE pcu Hu) as M2.
  apply (I t pct Et) in M1. apply (I u pcu Eu) in M2. congruence.
Qed.

Lemma J_init n c0 q0 : J (dinit n c0 q0).
Proof.
  assert (forall t, ph (dinit n c0 q0) t = 0%nat) as P0.
  { intros t. unfold ph, dinit. cbn [base pcs cinit].
    destruct (nth_error (repeat 0%nat n) t) as [pc|] eqn:E; [|reflexivity].
    apply nth_error_In, repeat_spec in E. subst. reflexivity. }
  constructor; cbn [dinit base tsr sqr clock seqc]; try (intros; rewrite ?P0 in *; try discriminate; try lia).
  apply cinv_init.
Qed.
End Invariant.

Lemma kind_idx k v : nth_error [1; 2; 3] k = Some v -> k = Z.to_nat (v - 1).
Proof. destruct k as [|[|[|k]]]; cbn; intros H; try (injection H as <-; reflexivity). destruct k; discriminate. Qed.

Tactic Notation "casebt" constr(u) constr(t) "as" ident(E) :=
  destruct (Nat.eqb u t) eqn:E;
  repeat match goal with H : context [Nat.eqb u t] |- _ => tryif constr_eq H E then fail else rewrite E in H end;
  cbv iota in *.

Section Step.
Variable p : skel.
Variable m : Z.
Hypothesis SE : sect p m.

Lemma kind_phase pc a k : nth_error p pc = Some a -> special a = k -> k <> 0 ->
  nth_error [1; 2; 3] (nsp p pc) = Some k.
Proof. intros H E K. rewrite <- (s_kinds p m SE), <- E. apply next_kind; [exact H | congruence]. Qed.

Lemma J_step s ev s' : J p s -> dstep p s ev = Some s' -> J p s'.
Proof.
  intros Js H. destruct ev as [t adv]. unfold dstep in H.
  destruct (adv <? 0) eqn:Eadv; [discriminate|]. apply Z.ltb_ge in Eadv.
  destruct (nth_error (pcs (base s)) t) as [pc|] eqn:Et; [|discriminate].
  destruct (cstep p (base s) t) as [b'|] eqn:Ec; [|discriminate].
  destruct (cstep_pcs p (base s) t b' pc Et Ec) as (Epcs & a & Ea).
  rewrite Ea in H.
  pose proof (cinv_step p (base s) t b' (s_wb p m SE) (j_cinv p s Js) Ec) as Cinv'.
  assert (forall s1, base s1 = b' -> forall u, ph p s1 u = if Nat.eqb u t then nsp p (S pc) else ph p s u) as Ph.
  { intros s1 Eb u. unfold ph. rewrite Eb, Epcs. destruct (Nat.eqb u t) eqn:E.
    - apply Nat.eqb_eq in E. subst u. rewrite (nth_set_nth_same _ _ _ _ Et). reflexivity.
    - apply Nat.eqb_neq in E. rewrite nth_set_nth_other by lia. reflexivity. }
  assert (ph p s t = nsp p pc) as Pt by (unfold ph; rewrite Et; reflexivity).
  pose proof (nsp_S p pc a Ea) as NS.
  pose proof (ph_le3 p m SE) as Le3.
  pose proof (inside_unique p m SE s) as Uniq.
  destruct Js as [Jc Jt1 Jt2 Jq1 Jq2 Jcur Jdone Jord Jin Jdist].
  (* steps that are none of the three actions *)
  assert (special a = 0 -> s' = {| base := b'; clock := clock s + adv; seqc := seqc s; tsr := tsr s; sqr := sqr s |} -> J p s') as Plain.
  { intros Sp ->. rewrite Sp in NS. change (0 =? 0) with true in NS. cbv iota in NS. rewrite Nat.add_0_r in NS.
    set (s1 := {| base := b'; clock := clock s + adv; seqc := seqc s; tsr := tsr s; sqr := sqr s |}).
    assert (forall u, ph p s1 u = ph p s u) as Same.
    { intros u. rewrite (Ph s1 eq_refl u). destruct (Nat.eqb u t) eqn:E; [apply Nat.eqb_eq in E; subst; lia | reflexivity]. }
    constructor; cbn [base clock seqc tsr sqr s1]; try exact Cinv'; intros; rewrite ?Same in *; eauto.
    match goal with Hx : tsr s _ = Some _ |- _ => destruct (Jt2 _ _ Hx) end. split; [assumption | lia]. }
  destruct a; try (apply Plain; [reflexivity | injection H as <-; reflexivity]).
  - (* the clock read *)
    pose proof (kind_phase pc AClock 1 Ea eq_refl ltac:(lia)) as K.
    assert (nsp p pc = 0%nat) as P0 by (apply kind_idx in K; exact K).
    cbn [special] in NS. match type of NS with context [if ?c then _ else _] => change c with false in NS end. cbv iota in NS. injection H as <-.
    set (s1 := {| base := b'; clock := clock s + adv; seqc := seqc s; tsr := upd (tsr s) t (clock s + adv); sqr := sqr s |}).
    assert (forall u, ph p s1 u = if Nat.eqb u t then 1%nat else ph p s u) as P1 by (intros u; rewrite (Ph s1 eq_refl u), NS, P0; reflexivity).
    assert (forall u q, sqr s u = Some q -> Nat.eqb u t = false) as NotT.
    { intros u q Hq. apply Jq2 in Hq. casebt u t as E; [apply Nat.eqb_eq in E; subst; lia | reflexivity]. }
    subst s1. constructor; cbn [base clock seqc tsr sqr]; unfold upd.
    + exact Cinv'.
    + intros u Hu. rewrite P1 in Hu. casebt u t as E; [eexists; reflexivity | apply Jt1, Hu].
    + intros u x Hx. rewrite P1. casebt u t as E; [injection Hx as <-; lia|]. destruct (Jt2 _ _ Hx). lia.
    + intros u Hu. rewrite P1 in Hu. casebt u t as E; [lia | apply Jq1, Hu].
    + intros u q Hq. rewrite P1, (NotT u q Hq). apply Jq2 in Hq. exact Hq.
    + intros u q Hu Hq. rewrite P1, (NotT u q Hq) in Hu. eapply Jcur; eassumption.
    + intros u q Hu Hq. rewrite P1, (NotT u q Hq) in Hu. eapply Jdone; eassumption.
    + intros t1 t2 q1 q2 x1 x2 Q1 Q2 X1 X2 Lt. rewrite (NotT t1 q1 Q1) in X1. rewrite (NotT t2 q2 Q2) in X2. cbv iota in X1, X2. exact (Jord t1 t2 q1 q2 x1 x2 Q1 Q2 X1 X2 Lt).
    + intros t' u x y Ht' Hu X Y. rewrite P1 in Ht', Hu.
      casebt t' t as E1; [lia|]. casebt u t as E2.
      * injection Y as <-. destruct (Jt2 _ _ X). lia.
      * eapply Jin; eassumption.
    + exact Jdist.
  - (* the read of the sequence number *)
    pose proof (kind_phase pc ASeqRead 2 Ea eq_refl ltac:(lia)) as K.
    assert (nsp p pc = 1%nat) as P0 by (apply kind_idx in K; exact K).
    cbn [special] in NS. match type of NS with context [if ?c then _ else _] => change c with false in NS end. cbv iota in NS. injection H as <-.
    set (s1 := {| base := b'; clock := clock s + adv; seqc := seqc s; tsr := tsr s; sqr := upd (sqr s) t (seqc s) |}).
    assert (forall u, ph p s1 u = if Nat.eqb u t then 2%nat else ph p s u) as P1 by (intros u; rewrite (Ph s1 eq_refl u), NS, P0; reflexivity).
    assert (ph p s t = 1%nat) as Pt1 by lia.
    (* any other thread that has a sequence number is done, with a smaller one *)
    assert (forall u q, Nat.eqb u t = false -> sqr s u = Some q -> ph p s u = 3%nat /\ q < seqc s) as Others.
    { intros u q Ne Hq. pose proof (Jq2 _ _ Hq) as G. pose proof (Le3 s u) as L.
      assert (ph p s u = 3%nat) as P3.
      { destruct (Nat.eq_dec (ph p s u) 2) as [E2|]; [|lia]. apply Nat.eqb_neq in Ne. exfalso. apply Ne. apply (Uniq u t Jc); lia. }
      split; [exact P3 | eapply Jdone; eassumption]. }
    subst s1. constructor; cbn [base clock seqc tsr sqr]; unfold upd.
    + exact Cinv'.
    + intros u Hu. rewrite P1 in Hu. casebt u t as E; [apply Nat.eqb_eq in E; subst; apply Jt1; lia | apply Jt1, Hu].
    + intros u x Hx. rewrite P1. destruct (Jt2 _ _ Hx). casebt u t as E; lia.
    + intros u Hu. rewrite P1 in Hu. casebt u t as E; [eexists; reflexivity | apply Jq1, Hu].
    + intros u q Hq. rewrite P1. casebt u t as E; [lia | apply Jq2 in Hq; exact Hq].
    + intros u q Hu Hq. rewrite P1 in Hu. casebt u t as E; [congruence|].
      destruct (Others u q E Hq). lia.
    + intros u q Hu Hq. rewrite P1 in Hu. casebt u t as E; [lia|]. eapply Jdone; eassumption.
    + intros t1 t2 q1 q2 x1 x2 Q1 Q2 X1 X2 Lt.
      casebt t1 t as E1; casebt t2 t as E2.
      * injection Q1 as <-. injection Q2 as <-. lia.
      * injection Q1 as <-. destruct (Others t2 q2 E2 Q2). lia.
      * injection Q2 as <-. apply Nat.eqb_eq in E2. subst t2. destruct (Others t1 q1 E1 Q1) as (P3 & _).
        eapply (Jin t1 t); try eassumption. lia.
      * exact (Jord t1 t2 q1 q2 x1 x2 Q1 Q2 X1 X2 Lt).
    + intros t' u x y Ht' Hu X Y. rewrite P1 in Ht', Hu.
      casebt t' t as E1; [lia|]. casebt u t as E2.
      * apply Nat.eqb_eq in E2. subst u. eapply (Jin t' t); try eassumption. lia.
      * eapply Jin; eassumption.
    + intros t1 t2 q Q1 Q2.
      casebt t1 t as E1; casebt t2 t as E2.
      * apply Nat.eqb_eq in E1, E2. congruence.
      * injection Q1 as <-. destruct (Others t2 _ E2 Q2). lia.
      * injection Q2 as <-. destruct (Others t1 _ E1 Q1). lia.
      * eapply Jdist; eassumption.
  - (* the increment *)
    pose proof (kind_phase pc ASeqInc 3 Ea eq_refl ltac:(lia)) as K.
    assert (nsp p pc = 2%nat) as P0 by (apply kind_idx in K; exact K).
    cbn [special] in NS. match type of NS with context [if ?c then _ else _] => change c with false in NS end. cbv iota in NS. injection H as <-.
    set (s1 := {| base := b'; clock := clock s + adv; seqc := seqc s + 1; tsr := tsr s; sqr := sqr s |}).
    assert (forall u, ph p s1 u = if Nat.eqb u t then 3%nat else ph p s u) as P1 by (intros u; rewrite (Ph s1 eq_refl u), NS, P0; reflexivity).
    assert (ph p s t = 2%nat) as Pt2 by lia.
    assert (forall u, Nat.eqb u t = false -> (1 <= ph p s u <= 2)%nat -> False) as Alone.
    { intros u Ne Hu. apply Nat.eqb_neq in Ne. apply Ne. apply (Uniq u t Jc); lia. }
    subst s1. constructor; cbn [base clock seqc tsr sqr].
    + exact Cinv'.
    + intros u Hu. rewrite P1 in Hu. casebt u t as E; [apply Nat.eqb_eq in E; subst; apply Jt1; lia | apply Jt1, Hu].
    + intros u x Hx. rewrite P1. destruct (Jt2 _ _ Hx). casebt u t as E; lia.
    + intros u Hu. rewrite P1 in Hu. casebt u t as E; [apply Nat.eqb_eq in E; subst; apply Jq1; lia | apply Jq1, Hu].
    + intros u q Hq. rewrite P1. apply Jq2 in Hq. casebt u t as E; lia.
    + intros u q Hu Hq. rewrite P1 in Hu. casebt u t as E; [lia|]. exfalso. apply (Alone u E). lia.
    + intros u q Hu Hq. rewrite P1 in Hu. casebt u t as E.
      * apply Nat.eqb_eq in E. subst u. rewrite (Jcur t q Pt2 Hq). lia.
      * pose proof (Jdone u q Hu Hq). lia.
    + exact Jord.
    + intros t' u x y Ht' Hu X Y. rewrite P1 in Ht', Hu.
      casebt u t as E2; [lia|]. exfalso. apply (Alone u E2 Hu).
    + exact Jdist.
Qed.

Lemma J_run evs : forall s s', J p s -> drun p s evs = Some s' -> J p s'.
Proof.
  induction evs as [|e tl IH]; intros s s' Js H; cbn in H; [injection H as <-; exact Js|].
  destruct (dstep p s e) as [s1|] eqn:E; [|discriminate]. eapply IH; [eapply J_step; eassumption | exact H].
Qed.
End Step.

(* ---- the statement ---- *)
Theorem section_orders_stamps_lemma p : same_section_ok p = true ->
  forall n c0 q0 evs s, drun p (dinit n c0 q0) evs = Some s ->
  (forall t1 t2 q1 q2 x1 x2, sqr s t1 = Some q1 -> sqr s t2 = Some q2 ->
     tsr s t1 = Some x1 -> tsr s t2 = Some x2 -> q1 < q2 -> x1 <= x2) /\
  (forall t1 t2 q, sqr s t1 = Some q -> sqr s t2 = Some q -> t1 = t2).
Proof.
  unfold same_section_ok. intros S n c0 q0 evs s R.
  apply andb_true_iff in S as [W E]. apply existsb_exists in E as (m & _ & Sm).
  pose proof (section_of_sect p m W Sm) as SE.
  pose proof (J_run p m SE evs _ _ (J_init p n c0 q0) R) as Js.
  split; [exact (j_ord p s Js) | exact (j_dist p s Js)].
Qed.
