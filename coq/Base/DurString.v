(* Reference model of Go's time.Duration.String (library code, modelled not verified; compared
   with the printed form of every rate on each run of C19).  Mirrors time.Duration.format:
   fmtInt is the decimal rendering, fmtFrac drops trailing zeros and the point of a zero fraction. *)
From Coq Require Import ZArith List Bool.
From V Require Import Base.Duration Base.Str.
Import ListNotations.
Open Scope Z_scope.

Definition udec (n : Z) : list Z := digits_of 80 n [].

(* fmtFrac: the digits are produced from the least significant one, in front of [acc];
   returns the text and v / 10^prec *)
Fixpoint fmt_frac (prec : nat) (v : Z) (print : bool) (acc : list Z) : list Z * Z :=
  match prec with
  | O => ((if print then 46 :: acc else acc), v)
  | S p =>
      let digit := v mod 10 in
      let print' := print || negb (digit =? 0) in
      fmt_frac p (v / 10) print' (if print' then (48 + digit) :: acc else acc)
  end.

Definition dur_string_abs (u : Z) : list Z :=
  if u <? 1000000000 then
    if u =? 0 then [48; 115]
    else if u <? 1000 then udec u ++ [110; 115]
    else if u <? 1000000 then let '(s, v) := fmt_frac 3 u false [194; 181; 115] in udec v ++ s
    else let '(s, v) := fmt_frac 6 u false [109; 115] in udec v ++ s
  else
    let '(s, v) := fmt_frac 9 u false [115] in
    let sec := udec (v mod 60) ++ s in
    let m := v / 60 in
    if 0 <? m then
      let ms := udec (m mod 60) ++ 109 :: sec in
      let h := m / 60 in
      if 0 <? h then udec h ++ 104 :: ms else ms
    else sec.

Definition dur_string (d : Z) : list Z :=
  if d <? 0 then 45 :: dur_string_abs (- d) else dur_string_abs d.
