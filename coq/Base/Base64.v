(* base64.StdEncoding: EncodeToString / DecodeString (with '=' padding; the decoder skips
   '\r' and '\n' as Go's does).  Bytes and characters are integers. *)
From Coq Require Import ZArith List Bool Lia.
Import ListNotations.
Open Scope Z_scope.

Definition b64_char (v : Z) : Z :=
  if v <? 26 then 65 + v
  else if v <? 52 then 97 + (v - 26)
  else if v <? 62 then 48 + (v - 52)
  else if v =? 62 then 43 else 47.

Definition b64_val (c : Z) : option Z :=
  if (65 <=? c) && (c <=? 90) then Some (c - 65)
  else if (97 <=? c) && (c <=? 122) then Some (c - 97 + 26)
  else if (48 <=? c) && (c <=? 57) then Some (c - 48 + 52)
  else if c =? 43 then Some 62
  else if c =? 47 then Some 63
  else None.

Fixpoint b64_encode (bs : list Z) : list Z :=
  match bs with
  | [] => []
  | [a] => [b64_char (a / 4); b64_char ((a mod 4) * 16); 61; 61]
  | [a; b] => [b64_char (a / 4); b64_char ((a mod 4) * 16 + b / 16); b64_char ((b mod 16) * 4); 61]
  | a :: b :: c :: tl =>
      b64_char (a / 4) :: b64_char ((a mod 4) * 16 + b / 16)
      :: b64_char ((b mod 16) * 4 + c / 64) :: b64_char (c mod 64) :: b64_encode tl
  end.

(* decoding: groups of four characters; '=' padding only in the last group (Go's non-strict
   mode: trailing bits are not checked) *)
Fixpoint b64_decode_groups (fuel : nat) (cs : list Z) : option (list Z) :=
  match fuel with
  | O => match cs with [] => Some [] | _ => None end
  | S f =>
      match cs with
      | [] => Some []
      | c1 :: c2 :: c3 :: c4 :: tl =>
          if c4 =? 61 then
            match tl with
            | [] =>
                if c3 =? 61 then
                  match b64_val c1, b64_val c2 with
                  | Some v1, Some v2 => Some [v1 * 4 + v2 / 16]
                  | _, _ => None
                  end
                else
                  match b64_val c1, b64_val c2, b64_val c3 with
                  | Some v1, Some v2, Some v3 => Some [v1 * 4 + v2 / 16; (v2 mod 16) * 16 + v3 / 4]
                  | _, _, _ => None
                  end
            | _ => None
            end
          else
            match b64_val c1, b64_val c2, b64_val c3, b64_val c4, b64_decode_groups f tl with
            | Some v1, Some v2, Some v3, Some v4, Some r =>
                Some (v1 * 4 + v2 / 16 :: (v2 mod 16) * 16 + v3 / 4 :: (v3 mod 4) * 64 + v4 :: r)
            | _, _, _, _, _ => None
            end
      | _ => None
      end
  end.

Definition b64_decode (cs : list Z) : option (list Z) :=
  let cs' := filter (fun c => negb ((c =? 13) || (c =? 10))) cs in
  b64_decode_groups (S (length cs')) cs'.

Definition is_byte (b : Z) : bool := (0 <=? b) && (b <? 256).
