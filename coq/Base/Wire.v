(* Wire protocol between the Go harness and the model: every case is a flat list of
   integers.  Decoding of the case structure happens here, in Gallina, so that the
   OCaml driver stays a dumb pipe (read integers, call [Dispatch.run], print integers). *)
From Coq Require Import ZArith List Bool.
Import ListNotations.
Open Scope Z_scope.

Definition rd (A : Type) := list Z -> option (A * list Z).

Definition ret {A} (a : A) : rd A := fun s => Some (a, s).
Definition fail {A} : rd A := fun _ => None.
Definition bind {A B} (m : rd A) (f : A -> rd B) : rd B :=
  fun s => match m s with Some (a, s') => f a s' | None => None end.

Declare Scope rd_scope.
Delimit Scope rd_scope with rd.
Notation "x <- m ;; k" := (bind m (fun x => k))
  (at level 61, m at next level, right associativity) : rd_scope.
Notation "' p <- m ;; k" := (bind m (fun x => let 'p := x in k))
  (at level 61, p pattern, m at next level, right associativity) : rd_scope.

Definition getz : rd Z :=
  fun s => match s with x :: s' => Some (x, s') | [] => None end.

Definition getbool : rd bool := bind getz (fun z => ret (negb (z =? 0))).

(* tail recursive: case sizes reach 10^5 *)
Fixpoint getn_acc {A} (n : nat) (m : rd A) (acc : list A) : rd (list A) :=
  match n with
  | O => ret (rev' acc)
  | S k => bind m (fun a => getn_acc k m (a :: acc))
  end.
Definition getn {A} (n : nat) (m : rd A) : rd (list A) := getn_acc n m [].

Definition getlist {A} (m : rd A) : rd (list A) :=
  bind getz (fun n => if n <? 0 then fail else getn (Z.to_nat n) m).

(* byte strings travel as length-prefixed lists of integers 0..255 *)
Definition getbytes : rd (list Z) := getlist getz.

Definition getopt {A} (m : rd A) : rd (option A) :=
  bind getz (fun t => if t =? 0 then ret None else bind m (fun a => ret (Some a))).

Definition getpair {A B} (ma : rd A) (mb : rd B) : rd (A * B) :=
  bind ma (fun a => bind mb (fun b => ret (a, b))).

Definition parse_all {A} (m : rd A) (s : list Z) : option A :=
  match m s with Some (a, []) => Some a | _ => None end.

(* Verdicts returned to the driver, flattened to integers:
     0            agreement and the property clause holds on the observation
     1 code ...   model and implementation disagree on a projected observable
     2 clause ... the verified checker rejects the implementation's observation
     3            guard-band don't-care
     4            the case could not be decoded (harness/model protocol mismatch) *)
Inductive verdict :=
| VOk
| VDiff (code : Z) (detail : list Z)
| VProp (clause : Z) (detail : list Z)
| VDontCare
| VBad.

Definition verdict_wire (v : verdict) : list Z :=
  match v with
  | VOk => [0]
  | VDiff c d => 1 :: c :: d
  | VProp c d => 2 :: c :: d
  | VDontCare => [3]
  | VBad => [4]
  end.

(* first non-OK verdict of a list, property failures before differences *)
Fixpoint first_prop (vs : list verdict) : option verdict :=
  match vs with
  | [] => None
  | (VProp _ _ as v) :: _ => Some v
  | _ :: tl => first_prop tl
  end.
Fixpoint first_diff (vs : list verdict) : option verdict :=
  match vs with
  | [] => None
  | (VDiff _ _ as v) :: _ => Some v
  | (VBad as v) :: _ => Some v
  | _ :: tl => first_diff tl
  end.
Definition combine_verdicts (vs : list verdict) : verdict :=
  match first_prop vs with
  | Some v => v
  | None => match first_diff vs with
            | Some v => v
            | None => if existsb (fun v => match v with VDontCare => true | _ => false end) vs
                      then VDontCare else VOk
            end
  end.

Definition check_eqz (code : Z) (model impl : Z) : verdict :=
  if model =? impl then VOk else VDiff code [model; impl].

Fixpoint list_eqb (a b : list Z) : bool :=
  match a, b with
  | [], [] => true
  | x :: a', y :: b' => (x =? y) && list_eqb a' b'
  | _, _ => false
  end.

Definition check_eql (code : Z) (model impl : list Z) : verdict :=
  if list_eqb model impl then VOk
  else VDiff code (Z.of_nat (length model) :: Z.of_nat (length impl) :: firstn 8 model ++ firstn 8 impl).

Definition prop_ok (clause : Z) (b : bool) (detail : list Z) : verdict :=
  if b then VOk else VProp clause detail.
