(* Reference model of Go's time.ParseDuration (library code, modelled not verified;
   sampled by the correspondence of C12 and C19).  Strings are lists of byte values.
   The fraction is computed exactly; Go computes it in float64, so the model also
   reports whether the exact value needed rounding ([inexact]) and the harness
   treats a 1 ns difference on such inputs as don't-care. *)
From Coq Require Import ZArith List Bool Lia.
Import ListNotations.
Open Scope Z_scope.

Definition is_digit (c : Z) : bool := (48 <=? c) && (c <=? 57).

Definition two63 : Z := 9223372036854775808.

(* leadingInt: digits consumed, None on overflow *)
Fixpoint leading_int (s : list Z) (x : Z) : option (Z * list Z) :=
  match s with
  | c :: tl =>
      if is_digit c then
        if two63 / 10 <? x then None
        else let x' := x * 10 + (c - 48) in
             if two63 <? x' then None else leading_int tl x'
      else Some (x, s)
  | [] => Some (x, s)
  end.

(* leadingFraction: digits after the point; once the accumulator would overflow the
   remaining digits are skipped (as Go does) *)
Fixpoint leading_fraction (s : list Z) (x scale : Z) (ovf : bool) : Z * Z * list Z :=
  match s with
  | c :: tl =>
      if is_digit c then
        if ovf then leading_fraction tl x scale true
        else if (two63 - 1) / 10 <? x then leading_fraction tl x scale true
        else let y := x * 10 + (c - 48) in
             if two63 <? y then leading_fraction tl x scale true
             else leading_fraction tl y (scale * 10) false
      else (x, scale, s)
  | [] => (x, scale, s)
  end.

Fixpoint span_unit (s : list Z) (acc : list Z) : list Z * list Z :=
  match s with
  | c :: tl => if (c =? 46) || is_digit c then (rev acc, s) else span_unit tl (c :: acc)
  | [] => (rev acc, s)
  end.

Fixpoint zlist_eqb (a b : list Z) : bool :=
  match a, b with
  | [], [] => true
  | x :: a', y :: b' => (x =? y) && zlist_eqb a' b'
  | _, _ => false
  end.

Definition unit_ns (u : list Z) : option Z :=
  if zlist_eqb u [110; 115] then Some 1                         (* ns *)
  else if zlist_eqb u [117; 115] then Some 1000                 (* us *)
  else if zlist_eqb u [194; 181; 115] then Some 1000            (* U+00B5 s *)
  else if zlist_eqb u [206; 188; 115] then Some 1000            (* U+03BC s *)
  else if zlist_eqb u [109; 115] then Some 1000000              (* ms *)
  else if zlist_eqb u [115] then Some 1000000000                (* s *)
  else if zlist_eqb u [109] then Some 60000000000               (* m *)
  else if zlist_eqb u [104] then Some 3600000000000             (* h *)
  else None.

(* result: Some (d, inexact) or None for an error *)
Fixpoint parse_groups (fuel : nat) (s : list Z) (d : Z) (inexact : bool) : option (Z * bool) :=
  match fuel with
  | O => None
  | S fuel' =>
    match s with
    | [] => Some (d, inexact)
    | c :: _ =>
      if negb ((c =? 46) || is_digit c) then None else
      match leading_int s 0 with
      | None => None
      | Some (v, s1) =>
        let pre := negb (Nat.eqb (length s1) (length s)) in
        let '(f, scale, s2, post) :=
          match s1 with
          | 46 :: tl => let '(f, sc, r) := leading_fraction tl 0 1 false in
                        (f, sc, r, negb (Nat.eqb (length r) (length tl)))
          | _ => (0, 1, s1, false)
          end in
        if negb pre && negb post then None else
        let '(u, s3) := span_unit s2 [] in
        match u with
        | [] => None
        | _ =>
          match unit_ns u with
          | None => None
          | Some unit =>
            if two63 / unit <? v then None else
            let v1 := v * unit in
            let add := if 0 <? f then (f * unit) / scale else 0 in
            let inex := if 0 <? f then negb ((f * unit) mod scale =? 0) else false in
            let v2 := v1 + add in
            if (0 <? f) && (two63 <? v2) then None else
            let d' := d + v2 in
            if two63 <? d' then None else
            parse_groups fuel' s3 d' (inexact || inex)
          end
        end
      end
    end
  end.

Definition parse_duration (s : list Z) : option (Z * bool) :=
  let '(neg, s1) :=
    match s with
    | 45 :: tl => (true, tl)
    | 43 :: tl => (false, tl)
    | _ => (false, s)
    end in
  if zlist_eqb s1 [48] then Some (0, false) else
  match s1 with
  | [] => None
  | _ =>
    match parse_groups (S (length s1)) s1 0 false with
    | None => None
    | Some (d, ix) =>
      if neg then Some (- d, ix)
      else if two63 - 1 <? d then None else Some (d, ix)
    end
  end.

(* strings.TrimSpace restricted to ASCII white space (the harness generates only
   ASCII blanks around bucket values) *)
Definition is_space (c : Z) : bool :=
  (c =? 32) || (c =? 9) || (c =? 10) || (c =? 11) || (c =? 12) || (c =? 13).

Fixpoint trim_left (s : list Z) : list Z :=
  match s with
  | c :: tl => if is_space c then trim_left tl else s
  | [] => []
  end.
Definition trim_space (s : list Z) : list Z := rev (trim_left (rev (trim_left s))).

(* strings.Split on one separator byte; never returns the empty list *)
Fixpoint split_on (sep : Z) (s : list Z) (cur : list Z) : list (list Z) :=
  match s with
  | [] => [rev cur]
  | c :: tl => if c =? sep then rev cur :: split_on sep tl [] else split_on sep tl (c :: cur)
  end.
