(* Comparison of an implementation float (sent exactly as kind, mantissa, exponent) with an
   exact rational of the model, inside a relative guard band of 2^-40. *)
From Coq Require Import ZArith List Bool.
From V Require Import Base.Wire.
Import ListNotations.
Open Scope Z_scope.

Record fl := { fl_kind : Z (* 0 finite, 1 NaN, 2 +Inf, 3 -Inf *); fl_m : Z; fl_e : Z }.

Definition getfl : rd fl :=
  bind getz (fun k => bind getz (fun m => bind getz (fun e => ret {| fl_kind := k; fl_m := m; fl_e := e |}))).

(* the float as a fraction a/b with b > 0 *)
Definition fl_frac (f : fl) : Z * Z :=
  if 0 <=? fl_e f then (fl_m f * 2 ^ (fl_e f), 1) else (fl_m f, 2 ^ (- fl_e f)).

Definition approx_eq_bits (bits : Z) (num den : Z) (f : fl) : bool :=
  (fl_kind f =? 0) &&
  let '(a, b) := fl_frac f in
  Z.abs (num * b - a * den) * 2 ^ bits <=? Z.abs num * b.

Definition approx_eq := approx_eq_bits 40.

(* a/b <= c/d for positive denominators *)
Definition q_le (a b c d : Z) : bool := a * d <=? c * b.
Definition q_lt (a b c d : Z) : bool := a * d <? c * b.
