(* Reference model of the three binary64 operations lttb.Downsample performs on positive values:
   float64(a)/float64(b) for integers below 2^53, float64(k)*x, and the truncation int(x).
   A positive double is (m, e) with 2^52 <= m < 2^53, value m * 2^e; zero is (0, 0).  Rounding is
   to nearest, ties to even.  No subnormals, infinities or NaNs arise for the operands used
   (counts below 2^53).  Reference model, not verified: compared with the real code on every run
   of C17 (library code: the Go compiler's float arithmetic).  Definitions only. *)
From Coq Require Import ZArith Bool.
Open Scope Z_scope.

Definition two52 : Z := 4503599627370496.
Definition two53 : Z := 9007199254740992.

(* round num/den (both positive) to 53 significant bits *)
Definition rn53 (num den : Z) : Z * Z :=
  if (num <=? 0) || (den <=? 0) then (0, 0) else
  let e0 := Z.log2 num - Z.log2 den - 52 in
  let scaled (e : Z) := if 0 <=? e then num / (den * 2 ^ e) else (num * 2 ^ (- e)) / den in
  let e := if scaled e0 <? two52 then e0 - 1 else if two53 <=? scaled e0 then e0 + 1 else e0 in
  let N := if 0 <=? e then num else num * 2 ^ (- e) in
  let D := if 0 <=? e then den * 2 ^ e else den in
  let m := N / D in
  let r := N mod D in
  let m' := if (D <? 2 * r) || ((2 * r =? D) && Z.odd m) then m + 1 else m in
  if m' =? two53 then (two52, e + 1) else (m', e).

Definition fdiv_int (a b : Z) : Z * Z := rn53 a b.
Definition fmul_int (k : Z) (x : Z * Z) : Z * Z :=
  let '(m, e) := x in
  if 0 <=? e then rn53 (k * m * 2 ^ e) 1 else rn53 (k * m) (2 ^ (- e)).
Definition ftrunc (x : Z * Z) : Z :=
  let '(m, e) := x in if 0 <=? e then m * 2 ^ e else m / 2 ^ (- e).

Definition fadd1 (x : Z * Z) : Z * Z :=
  let '(m, e) := x in
  if 0 <=? e then rn53 (m * 2 ^ e + 1) 1 else rn53 (m + 2 ^ (- e)) (2 ^ (- e)).
