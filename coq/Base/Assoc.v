(* Association lists keyed by integers with additive update: the functional model of a Go
   map (or a Prometheus metric vector) whose iteration order is not observable. *)
From Coq Require Import ZArith List Bool Lia.
Import ListNotations.
Open Scope Z_scope.

Fixpoint upd_add (k v : Z) (l : list (Z * Z)) : list (Z * Z) :=
  match l with
  | [] => [(k, v)]
  | (k', v') :: tl => if k' =? k then (k', v' + v) :: tl else (k', v') :: upd_add k v tl
  end.

Fixpoint alookup (k : Z) (l : list (Z * Z)) : Z :=
  match l with
  | [] => 0
  | (k', v') :: tl => if k' =? k then v' else alookup k tl
  end.

Definition akeys (l : list (Z * Z)) : list Z := map fst l.

Lemma alookup_upd_add k k' v l :
  alookup k (upd_add k' v l) = alookup k l + (if k' =? k then v else 0).
Proof.
  induction l as [|[a b] tl IH]; cbn.
  - destruct (k' =? k); lia.
  - destruct (a =? k') eqn:E; cbn.
    + apply Z.eqb_eq in E; subst a. destruct (k' =? k); lia.
    + destruct (a =? k) eqn:E2; [|exact IH].
      apply Z.eqb_eq in E2; subst a. rewrite Z.eqb_sym in E. rewrite E. lia.
Qed.

Lemma In_akeys_upd_add k k' v l :
  In k (akeys (upd_add k' v l)) <-> k = k' \/ In k (akeys l).
Proof.
  unfold akeys. induction l as [|[a b] tl IH]; cbn.
  - intuition.
  - destruct (a =? k') eqn:E; cbn.
    + apply Z.eqb_eq in E; subst a. intuition.
    + rewrite IH. intuition.
Qed.

Lemma NoDup_akeys_upd_add k v l : NoDup (akeys l) -> NoDup (akeys (upd_add k v l)).
Proof.
  unfold akeys. induction l as [|[a b] tl IH]; cbn; intros H.
  - constructor; [intros [] | constructor].
  - inversion H as [|? ? Hn Hd]; subst. destruct (a =? k) eqn:E; cbn.
    + constructor; assumption.
    + constructor; [|apply IH, Hd].
      intros Hin. apply (In_akeys_upd_add a k v tl) in Hin as [->|Hin]; [|exact (Hn Hin)].
      rewrite Z.eqb_refl in E. discriminate.
Qed.
