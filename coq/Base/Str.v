(* Byte-string helpers shared by the text-level models (strings are lists of byte values). *)
From Coq Require Import ZArith List Bool Lia.
From V Require Import Base.Duration.
Import ListNotations.
Open Scope Z_scope.

(* strings.SplitN(s, sep, 2) *)
Fixpoint splitn2 (sep : Z) (s : list Z) (acc : list Z) : list Z * option (list Z) :=
  match s with
  | [] => (rev acc, None)
  | c :: tl => if c =? sep then (rev acc, Some tl) else splitn2 sep tl (c :: acc)
  end.

Lemma splitn2_found sep a b : forall acc, ~ In sep a ->
  splitn2 sep (a ++ sep :: b) acc = (rev acc ++ a, Some b).
Proof.
  induction a as [|c tl IH]; intros acc Hn; cbn.
  - rewrite Z.eqb_refl, app_nil_r. reflexivity.
  - destruct (c =? sep) eqn:E; [apply Z.eqb_eq in E; subst; exfalso; apply Hn; left; reflexivity|].
    rewrite IH by (intros H; apply Hn; right; exact H). cbn. now rewrite <- app_assoc.
Qed.
Lemma splitn2_none sep s : forall acc, ~ In sep s -> splitn2 sep s acc = (rev acc ++ s, None).
Proof.
  induction s as [|c tl IH]; intros acc Hn; cbn.
  - now rewrite app_nil_r.
  - destruct (c =? sep) eqn:E; [apply Z.eqb_eq in E; subst; exfalso; apply Hn; left; reflexivity|].
    rewrite IH by (intros H; apply Hn; right; exact H). cbn. now rewrite <- app_assoc.
Qed.

(* all digits, at least one: value *)
Fixpoint digits_val (s : list Z) (acc : Z) : option Z :=
  match s with
  | [] => Some acc
  | c :: tl => if is_digit c then digits_val tl (acc * 10 + (c - 48)) else None
  end.

(* strconv.Atoi on a 64-bit platform *)
Definition atoi (s : list Z) : option Z :=
  let '(neg, body) := match s with
                      | 45 :: tl => (true, tl)
                      | 43 :: tl => (false, tl)
                      | _ => (false, s) end in
  match body with
  | [] => None
  | _ => match digits_val body 0 with
         | None => None
         | Some v => let x := if neg then - v else v in
                     if (- two63 <=? x) && (x <? two63) then Some x else None
         end
  end.

(* decimal rendering of a non-negative integer (strconv.Itoa / %d) *)
Fixpoint digits_of (fuel : nat) (n : Z) (acc : list Z) : list Z :=
  match fuel with
  | O => acc
  | S f => if n <? 10 then (48 + n) :: acc else digits_of f (n / 10) ((48 + n mod 10) :: acc)
  end.
Definition itoa (n : Z) : list Z :=
  if n <? 0 then 45 :: digits_of 80 (- n) [] else digits_of 80 n [].

Definition str_eqb := zlist_eqb.

Lemma zlist_eqb_eq a : forall b, zlist_eqb a b = true <-> a = b.
Proof.
  induction a as [|x a IH]; intros [|y b]; cbn; try (split; [discriminate | congruence]); [tauto|].
  rewrite andb_true_iff, Z.eqb_eq, IH. split; [intros (-> & ->); reflexivity | intros E; injection E; auto].
Qed.
