(* Model of DecoderFor (lib/results.go:107-120) over a stream algebra.  The source reader is the
   list of bytes it still holds; how many bytes a trial decoder pulls (its read-ahead, and the
   chunk sizes of the reader underneath) is arbitrary: a trial is any pair of functions of the
   content it can see.  bytes.Buffer, io.TeeReader and io.MultiReader are concrete.
   Definitions only. *)
From Coq Require Import ZArith List Bool Arith.
Import ListNotations.

Record trial := {
  pulls : list Z -> nat;      (* how many bytes of its reader it consumes (capped by what exists) *)
  accepts : list Z -> bool }. (* whether decoding one record from that reader succeeds *)

(* state: the tee buffer and what the source still holds *)
Fixpoint decoder_for (ts : list trial) (idx : nat) (buf rest : list Z) : option (nat * list Z) :=
  match ts with
  | [] => None
  | t :: tl =>
      (* MultiReader(bytes.NewReader(buf.Bytes()), TeeReader(r, &buf)) *)
      let content := buf ++ rest in
      let c := Nat.min (pulls t content) (length content) in
      let from_src := c - length buf in
      let buf' := buf ++ firstn from_src rest in
      let rest' := skipn from_src rest in
      if accepts t content
      then Some (idx, buf' ++ rest')          (* dec(MultiReader(&buf, r)) *)
      else decoder_for tl (S idx) buf' rest'
  end.

(* the variant that forgets to replay the sniffed prefix (a planned mutant) *)
Fixpoint decoder_for_noreplay (ts : list trial) (idx : nat) (buf rest : list Z) : option (nat * list Z) :=
  match ts with
  | [] => None
  | t :: tl =>
      let content := buf ++ rest in
      let c := Nat.min (pulls t content) (length content) in
      let from_src := c - length buf in
      if accepts t content then Some (idx, skipn from_src rest)
      else decoder_for_noreplay tl (S idx) (buf ++ firstn from_src rest) (skipn from_src rest)
  end.

Fixpoint first_accepting (ts : list trial) (idx : nat) (s : list Z) : option nat :=
  match ts with
  | [] => None
  | t :: tl => if accepts t s then Some idx else first_accepting tl (S idx) s
  end.
