(* Verified enclosures of cos and sin over rationals, for the sine pacer's schedule: interval
   arithmetic over Q with outward rounding to a 2^-80 grid; Taylor partial sums at an argument
   scaled into [-2,2] (the alternating-series bounds of the standard library apply there),
   then angle doubling.  Definitions only; soundness with respect to the real functions is in
   Proofs/TrigProofs.v. *)
From Coq Require Import ZArith QArith Qround Qminmax List.
Import ListNotations.
Open Scope Q_scope.

Definition itv := (Q * Q)%type.

Definition grid : positive := (2 ^ 80)%positive.
Definition rdn (x : Q) : Q := Qmake (Qfloor (x * inject_Z (Zpos grid))) grid.
Definition rup (x : Q) : Q := Qmake (Qceiling (x * inject_Z (Zpos grid))) grid.
Definition i_round (i : itv) : itv := (rdn (fst i), rup (snd i)).

Definition i_pt (q : Q) : itv := (q, q).
Definition i_add (a b : itv) : itv := (fst a + fst b, snd a + snd b).
Definition i_neg (a : itv) : itv := (- snd a, - fst a).
Definition i_sub (a b : itv) : itv := i_add a (i_neg b).
Definition min4 (a b c d : Q) : Q := Qmin (Qmin a b) (Qmin c d).
Definition max4 (a b c d : Q) : Q := Qmax (Qmax a b) (Qmax c d).
Definition i_mul (a b : itv) : itv :=
  let p1 := fst a * fst b in let p2 := fst a * snd b in let p3 := snd a * fst b in let p4 := snd a * snd b in
  (min4 p1 p2 p3 p4, max4 p1 p2 p3 p4).
Definition i_widen (a : itv) (e : Q) : itv := (fst a - e, snd a + e).
Definition i_scale (c : Q) (a : itv) : itv := i_mul (i_pt c) a.

Fixpoint qpow (q : Q) (n : nat) : Q := match n with O => 1 | S k => q * qpow q k end.
Fixpoint zfact (n : nat) : Z := match n with O => 1%Z | S k => (Z.of_nat (S k) * zfact k)%Z end.

Definition sgn_pow (i : nat) : Q := if Nat.even i then 1 else -1.
Definition cos_term_q (a : Q) (i : nat) : Q := sgn_pow i * (qpow a (2 * i) / inject_Z (zfact (2 * i))).
Definition sin_term_q (a : Q) (i : nat) : Q := sgn_pow i * (qpow a (2 * i + 1) / inject_Z (zfact (2 * i + 1))).
Fixpoint qsum (f : nat -> Q) (n : nat) : Q := match n with O => f O | S k => qsum f k + f (S k) end.

(* |a| <= 2: cos a in [partial sum 5, partial sum 6]; 0 <= a <= 4: sin a likewise *)
Definition cos_small (a : Q) : itv := i_round (qsum (cos_term_q a) 5, qsum (cos_term_q a) 6).
Definition sin_small_pos (a : Q) : itv := i_round (qsum (sin_term_q a) 5, qsum (sin_term_q a) 6).
Definition sin_small (a : Q) : itv := if Qle_bool 0 a then sin_small_pos a else i_neg (sin_small_pos (- a)).

(* (cos 2x, sin 2x) from (cos x, sin x) *)
Definition cs_double (cs : itv * itv) : itv * itv :=
  let '(c, s) := cs in
  (i_round (i_sub (i_scale 2 (i_mul c c)) (i_pt 1)), i_round (i_scale 2 (i_mul s c))).

Fixpoint cs_iter (n : nat) (cs : itv * itv) : itv * itv :=
  match n with O => cs | S k => cs_iter k (cs_double cs) end.

Definition halvings : nat := 8.
Definition two_pow_h : Q := inject_Z (2 ^ 8).
Definition grid_eps : Q := Qmake 1 grid.

(* cos and sin of theta, |theta| <= 512 *)
Definition cos_sin (theta : Q) : itv * itv :=
  let p := rdn (theta / two_pow_h) in                (* theta/256 - p in [0, 2^-80] *)
  cs_iter halvings (i_widen (cos_small p) grid_eps, i_widen (sin_small p) grid_eps).

(* pi, to 18 digits *)
Definition pi_lo : Q := 3141592653589793238 # 1000000000000000000.
Definition pi_hi : Q := 3141592653589793239 # 1000000000000000000.
Definition pi_itv : itv := (pi_lo, pi_hi).
