(* Labelled transition system of Attacker.Attack / attack / hit / Stop (lib/attack.go:446-569,
   with the once-guarded Stop).  One goroutine runs the loop, [nworkers] goroutines run the
   worker body; unbuffered channels are rendezvous transitions; the non-blocking select may
   take any ready case and `default` only when none is ready.  The pacer, the transport,
   the consumer, Stop callers and the clock are the environment.  Workers are identical, so
   they are kept as counters / lists of the sequence numbers they hold.  Definitions only. *)
From Coq Require Import ZArith List Bool.
Import ListNotations.
Open Scope Z_scope.

Inductive lpc :=
| LTop                 (* about to read the elapsed time and check the duration *)
| LPace (e : Z)        (* inside Pacer.Pace, called with elapsed e and hits = count *)
| LSleep (until : Z)   (* time.Sleep(wait) *)
| LSel1                (* first, non-blocking select (workers < maxWorkers) *)
| LSel2                (* second, blocking select *)
| LCloseTicks | LWait | LCloseRes | LFinalStop | LExited.   (* the deferred epilogue *)

Record cfg := { maxw : Z; initw : Z; du : Z; fails : list Z }.

Record st := {
  pc : lpc; now : Z; count : Z; nworkers : Z;
  idle : nat;            (* workers blocked in `range ticks` *)
  got : nat;             (* workers that received a tick and have not yet taken a sequence number *)
  targ : list Z;         (* in the targeter call, by sequence number *)
  infl : list Z;         (* in the transport *)
  send : list Z;         (* blocked sending their result *)
  done : nat;            (* returned (wg.Done) *)
  seq : Z; stopped : bool; ticks_closed : bool; results_closed : bool;
  delivered : list Z;    (* sequence numbers taken by the consumer, most recent first *)
  entered : list (Z * Z);(* transport entries (seq, time), most recent first *)
  stamps : list (Z * Z); (* (seq, timestamp) assigned, most recent first *)
  paces : list (Z * Z * Z * bool);   (* pacer consultations (elapsed, hits, wait, stop), most recent first *)
  pending : option (Z * Z * Z);      (* the pacer answer (elapsed, hits, wait) whose tick is still to come *)
  hist : list (Z * Z * Z * Z);       (* released ticks: (elapsed, hits, wait, instant of the rendezvous), most recent first *)
  stop_true : Z;         (* number of Stop calls that returned true *)
  tcalls : Z             (* number of targeter calls made so far *)
}.

Definition clamp (c : cfg) : Z := if maxw c <? initw c then maxw c else initw c.

Definition init (c : cfg) : st :=
  {| pc := LTop; now := 0; count := 0; nworkers := clamp c;
     idle := Z.to_nat (clamp c); got := 0; targ := []; infl := []; send := []; done := 0;
     seq := 0; stopped := false; ticks_closed := false; results_closed := false;
     delivered := []; entered := []; stamps := []; paces := []; pending := None; hist := []; stop_true := 0; tcalls := 0 |}.

Inductive label :=
| CallPace                          (* loop: elapsed := time.Since(began); duration not exceeded; call Pace *)
| Pace (w : Z) (stop : bool)        (* env: the pacer's answer *)
| DurationOver                      (* loop: du > 0 && elapsed > du *)
| Advance (d : Z)                   (* env: the clock *)
| Wake                              (* loop: sleep over *)
| Sel1Tick | Sel1Stop | Sel1Default | Sel2Tick | Sel2Stop
| AssignSeq                         (* worker: critical section of hit *)
| TargeterOk (s : Z) | TargeterFail (s : Z)
| Complete (s : Z)                  (* env: the transport answers hit s *)
| Consume (s : Z)                   (* env: the consumer receives result s *)
| CloseTicks | WorkerExit | WgDone | CloseResults | FinalStop
| StopCall (b : bool).              (* env: a Stop() call returning b *)

Fixpoint memz (x : Z) (l : list Z) : bool :=
  match l with [] => false | y :: tl => (x =? y) || memz x tl end.
Fixpoint remove1 (x : Z) (l : list Z) : list Z :=
  match l with [] => [] | y :: tl => if x =? y then tl else y :: remove1 x tl end.

(* record updates *)
Definition set_pc (s : st) (p : lpc) : st :=
  {| pc := p; now := now s; count := count s; nworkers := nworkers s; idle := idle s; got := got s;
     targ := targ s; infl := infl s; send := send s; done := done s; seq := seq s; stopped := stopped s;
     ticks_closed := ticks_closed s; results_closed := results_closed s; delivered := delivered s;
     entered := entered s; stamps := stamps s; paces := paces s; pending := pending s; hist := hist s; stop_true := stop_true s; tcalls := tcalls s |}.

Definition tick_taken (s : st) : st :=
  {| pc := LTop; now := now s; count := count s + 1; nworkers := nworkers s;
     idle := pred (idle s); got := S (got s);
     targ := targ s; infl := infl s; send := send s; done := done s; seq := seq s; stopped := stopped s;
     ticks_closed := ticks_closed s; results_closed := results_closed s; delivered := delivered s;
     entered := entered s; stamps := stamps s; paces := paces s; pending := None;
     hist := match pending s with Some (e, h, w) => (e, h, w, now s) :: hist s | None => hist s end;
     stop_true := stop_true s; tcalls := tcalls s |}.

Definition over_deadline (c : cfg) (s : st) : bool := (0 <? du c) && (du c <? now s).

Definition step (c : cfg) (s : st) (l : label) : option st :=
  match l with
  | CallPace =>
      match pc s with
      | LTop => if over_deadline c s then None else Some (set_pc s (LPace (now s)))
      | _ => None
      end
  | Pace w stop =>
      match pc s with
      | LPace e =>
          Some {| pc := if stop then LCloseTicks else LSleep (now s + Z.max w 0);
                  now := now s; count := count s; nworkers := nworkers s; idle := idle s; got := got s;
                  targ := targ s; infl := infl s; send := send s; done := done s; seq := seq s;
                  stopped := stopped s; ticks_closed := ticks_closed s; results_closed := results_closed s;
                  delivered := delivered s; entered := entered s; stamps := stamps s;
                  paces := (e, count s, w, stop) :: paces s;
                  pending := if stop then None else Some (e, count s, w); hist := hist s;
                  stop_true := stop_true s; tcalls := tcalls s |}
      | _ => None
      end
  | DurationOver =>
      match pc s with
      | LTop => if over_deadline c s then Some (set_pc s LCloseTicks) else None
      | _ => None
      end
  | Advance d =>
      (* time may pass at any moment (a sleeping loop may be woken late, never early) *)
      if d <=? 0 then None else
      Some {| pc := pc s; now := now s + d; count := count s; nworkers := nworkers s; idle := idle s; got := got s;
              targ := targ s; infl := infl s; send := send s; done := done s; seq := seq s;
              stopped := stopped s; ticks_closed := ticks_closed s; results_closed := results_closed s;
              delivered := delivered s; entered := entered s; stamps := stamps s; paces := paces s;
              pending := pending s; hist := hist s; stop_true := stop_true s; tcalls := tcalls s |}
  | Wake =>
      match pc s with
      | LSleep u => if u <=? now s then Some (set_pc s (if nworkers s <? maxw c then LSel1 else LSel2)) else None
      | _ => None
      end
  | Sel1Tick =>
      match pc s, idle s with
      | LSel1, S _ => Some (tick_taken s)
      | _, _ => None
      end
  | Sel1Stop =>
      match pc s with
      | LSel1 => if stopped s then Some (set_pc s LCloseTicks) else None
      | _ => None
      end
  | Sel1Default =>
      match pc s, idle s with
      | LSel1, O =>
          if stopped s then None else
          Some {| pc := LSel2; now := now s; count := count s; nworkers := nworkers s + 1;
                  idle := 1; got := got s; targ := targ s; infl := infl s; send := send s; done := done s;
                  seq := seq s; stopped := stopped s; ticks_closed := ticks_closed s;
                  results_closed := results_closed s; delivered := delivered s; entered := entered s;
                  stamps := stamps s; paces := paces s; pending := pending s; hist := hist s; stop_true := stop_true s; tcalls := tcalls s |}
      | _, _ => None
      end
  | Sel2Tick =>
      match pc s, idle s with
      | LSel2, S _ => Some (tick_taken s)
      | _, _ => None
      end
  | Sel2Stop =>
      match pc s with
      | LSel2 => if stopped s then Some (set_pc s LCloseTicks) else None
      | _ => None
      end
  | AssignSeq =>
      match got s with
      | S g =>
          Some {| pc := pc s; now := now s; count := count s; nworkers := nworkers s; idle := idle s; got := g;
                  targ := seq s :: targ s; infl := infl s; send := send s; done := done s;
                  seq := seq s + 1; stopped := stopped s; ticks_closed := ticks_closed s;
                  results_closed := results_closed s; delivered := delivered s; entered := entered s;
                  stamps := (seq s, now s) :: stamps s; paces := paces s; pending := pending s; hist := hist s; stop_true := stop_true s; tcalls := tcalls s |}
      | O => None
      end
  | TargeterOk x =>
      if memz x (targ s) && negb (memz (tcalls s) (fails c)) then
        Some {| pc := pc s; now := now s; count := count s; nworkers := nworkers s; idle := idle s; got := got s;
                targ := remove1 x (targ s); infl := x :: infl s; send := send s; done := done s;
                seq := seq s; stopped := stopped s; ticks_closed := ticks_closed s;
                results_closed := results_closed s; delivered := delivered s;
                entered := (x, now s) :: entered s; stamps := stamps s; paces := paces s; pending := pending s; hist := hist s;
                stop_true := stop_true s; tcalls := tcalls s + 1 |}
      else None
  | TargeterFail x =>
      if memz x (targ s) && memz (tcalls s) (fails c) then
        Some {| pc := pc s; now := now s; count := count s; nworkers := nworkers s; idle := idle s; got := got s;
                targ := remove1 x (targ s); infl := infl s; send := x :: send s; done := done s;
                seq := seq s; stopped := true; ticks_closed := ticks_closed s;
                results_closed := results_closed s; delivered := delivered s;
                entered := entered s; stamps := stamps s; paces := paces s; pending := pending s; hist := hist s;
                stop_true := stop_true s + (if stopped s then 0 else 1); tcalls := tcalls s + 1 |}
      else None
  | Complete x =>
      if memz x (infl s) then
        Some {| pc := pc s; now := now s; count := count s; nworkers := nworkers s; idle := idle s; got := got s;
                targ := targ s; infl := remove1 x (infl s); send := x :: send s; done := done s;
                seq := seq s; stopped := stopped s; ticks_closed := ticks_closed s;
                results_closed := results_closed s; delivered := delivered s;
                entered := entered s; stamps := stamps s; paces := paces s; pending := pending s; hist := hist s;
                stop_true := stop_true s; tcalls := tcalls s |}
      else None
  | Consume x =>
      if memz x (send s) && negb (results_closed s) then
        (* the worker loops: back to `range ticks`, or returns when ticks is closed (WorkerExit) *)
        Some {| pc := pc s; now := now s; count := count s; nworkers := nworkers s; idle := S (idle s); got := got s;
                targ := targ s; infl := infl s; send := remove1 x (send s); done := done s;
                seq := seq s; stopped := stopped s; ticks_closed := ticks_closed s;
                results_closed := results_closed s; delivered := x :: delivered s;
                entered := entered s; stamps := stamps s; paces := paces s; pending := pending s; hist := hist s;
                stop_true := stop_true s; tcalls := tcalls s |}
      else None
  | CloseTicks =>
      match pc s with
      | LCloseTicks =>
          Some {| pc := LWait; now := now s; count := count s; nworkers := nworkers s; idle := idle s; got := got s;
                  targ := targ s; infl := infl s; send := send s; done := done s; seq := seq s;
                  stopped := stopped s; ticks_closed := true; results_closed := results_closed s;
                  delivered := delivered s; entered := entered s; stamps := stamps s; paces := paces s;
                  pending := pending s; hist := hist s; stop_true := stop_true s; tcalls := tcalls s |}
      | _ => None
      end
  | WorkerExit =>
      match idle s with
      | S i => if ticks_closed s then
          Some {| pc := pc s; now := now s; count := count s; nworkers := nworkers s; idle := i; got := got s;
                  targ := targ s; infl := infl s; send := send s; done := S (done s); seq := seq s;
                  stopped := stopped s; ticks_closed := ticks_closed s; results_closed := results_closed s;
                  delivered := delivered s; entered := entered s; stamps := stamps s; paces := paces s;
                  pending := pending s; hist := hist s; stop_true := stop_true s; tcalls := tcalls s |}
          else None
      | O => None
      end
  | WgDone =>
      match pc s with
      | LWait => if Z.of_nat (done s) =? nworkers s then Some (set_pc s LCloseRes) else None
      | _ => None
      end
  | CloseResults =>
      match pc s with
      | LCloseRes =>
          Some {| pc := LFinalStop; now := now s; count := count s; nworkers := nworkers s; idle := idle s; got := got s;
                  targ := targ s; infl := infl s; send := send s; done := done s; seq := seq s;
                  stopped := stopped s; ticks_closed := ticks_closed s; results_closed := true;
                  delivered := delivered s; entered := entered s; stamps := stamps s; paces := paces s;
                  pending := pending s; hist := hist s; stop_true := stop_true s; tcalls := tcalls s |}
      | _ => None
      end
  | FinalStop =>
      match pc s with
      | LFinalStop =>
          Some {| pc := LExited; now := now s; count := count s; nworkers := nworkers s; idle := idle s; got := got s;
                  targ := targ s; infl := infl s; send := send s; done := done s; seq := seq s;
                  stopped := true; ticks_closed := ticks_closed s; results_closed := results_closed s;
                  delivered := delivered s; entered := entered s; stamps := stamps s; paces := paces s;
                  pending := pending s; hist := hist s; stop_true := stop_true s + (if stopped s then 0 else 1); tcalls := tcalls s |}
      | _ => None
      end
  | StopCall b =>
      if Bool.eqb b (negb (stopped s)) then
        Some {| pc := pc s; now := now s; count := count s; nworkers := nworkers s; idle := idle s; got := got s;
                targ := targ s; infl := infl s; send := send s; done := done s; seq := seq s;
                stopped := true; ticks_closed := ticks_closed s; results_closed := results_closed s;
                delivered := delivered s; entered := entered s; stamps := stamps s; paces := paces s;
                pending := pending s; hist := hist s; stop_true := stop_true s + (if b then 1 else 0); tcalls := tcalls s |}
      else None
  end.

Fixpoint run (c : cfg) (s : st) (ls : list label) : option st :=
  match ls with
  | [] => Some s
  | l :: tl => match step c s l with Some s' => run c s' tl | None => None end
  end.

Definition busy (s : st) : Z :=
  Z.of_nat (got s) + Z.of_nat (length (targ s)) + Z.of_nat (length (infl s)) + Z.of_nat (length (send s)).

Definition all_done (s : st) : Prop :=
  idle s = O /\ got s = O /\ targ s = [] /\ infl s = [] /\ send s = [].
