(* Trace acceptance for the attack LTS: the harness drives a real attack (under
   testing/synctest) by environment actions and, after each one, waits for quiescence and
   takes a snapshot.  [drive] replays the actions through the LTS, closing over the steps
   that happen by themselves, and keeps the set of model states compatible with the
   snapshots.  An empty set means the real trace is one the model cannot produce.
   Definitions only. *)
From Coq Require Import ZArith List Bool.
From V Require Import Model.AttackLTS.
Import ListNotations.
Open Scope Z_scope.

(* labels that need no environment decision *)
Definition auto_labels (s : st) : list label :=
  [DurationOver; CallPace; Wake; Sel1Tick; Sel1Stop; Sel1Default; Sel2Tick; Sel2Stop; AssignSeq;
   CloseTicks; WorkerExit; WgDone; CloseResults; FinalStop]
  ++ map TargeterOk (targ s) ++ map TargeterFail (targ s).

Fixpoint filter_map {A B} (f : A -> option B) (l : list A) : list B :=
  match l with
  | [] => []
  | x :: tl => match f x with Some y => y :: filter_map f tl | None => filter_map f tl end
  end.

Definition auto_succs (c : cfg) (s : st) : list st := filter_map (step c s) (auto_labels s).

(* canonical key of a state (order of concurrent workers and of same-instant log entries is
   irrelevant) *)
Fixpoint insert_sorted (x : Z) (l : list Z) : list Z :=
  match l with
  | [] => [x]
  | y :: tl => if x <=? y then x :: l else y :: insert_sorted x tl
  end.
Definition sortz (l : list Z) : list Z := fold_right insert_sorted [] l.
Fixpoint insert_pair (x : Z * Z) (l : list (Z * Z)) : list (Z * Z) :=
  match l with
  | [] => [x]
  | y :: tl => if fst x <=? fst y then x :: l else y :: insert_pair x tl
  end.
Definition sort_pairs (l : list (Z * Z)) : list (Z * Z) := fold_right insert_pair [] l.

Definition pc_code (p : lpc) : list Z :=
  match p with
  | LTop => [0; 0] | LPace e => [9; e] | LSleep u => [1; u] | LSel1 => [2; 0] | LSel2 => [3; 0] | LCloseTicks => [4; 0]
  | LWait => [5; 0] | LCloseRes => [6; 0] | LFinalStop => [7; 0] | LExited => [8; 0]
  end.
Definition b2z (b : bool) : Z := if b then 1 else 0.

Definition st_key (s : st) : list Z :=
  pc_code (pc s) ++
  [now s; count s; nworkers s; Z.of_nat (idle s); Z.of_nat (got s); Z.of_nat (done s); seq s;
   b2z (stopped s); b2z (ticks_closed s); b2z (results_closed s); stop_true s; tcalls s;
   Z.of_nat (length (paces s)); Z.of_nat (length (hist s))]
  ++ (-1 :: sortz (targ s)) ++ (-1 :: sortz (infl s)) ++ (-1 :: sortz (send s))
  ++ (-1 :: delivered s) ++ (-1 :: flat_map (fun p => [fst p; snd p]) (sort_pairs (entered s))).

Fixpoint keys_eqb (a b : list Z) : bool :=
  match a, b with
  | [], [] => true
  | x :: a', y :: b' => (x =? y) && keys_eqb a' b'
  | _, _ => false
  end.

Definition add_dedupe (s : st) (l : list st) : list st :=
  if existsb (fun s' => keys_eqb (st_key s) (st_key s')) l then l else s :: l.

(* all quiescent states reachable by automatic steps; None = out of fuel *)
Fixpoint settle (fuel : nat) (c : cfg) (front acc : list st) : option (list st) :=
  match fuel with
  | O => None
  | S f =>
      match front with
      | [] => Some acc
      | s :: rest =>
          match auto_succs c s with
          | [] => settle f c rest (add_dedupe s acc)
          | succs => settle f c (fold_right add_dedupe rest succs) acc
          end
      end
  end.

Definition settle_fuel : nat := Z.to_nat 20000.

Inductive action :=
| APace (w : Z) (stop : bool) | AAdvance (d : Z) | AComplete (x : Z) | AConsume | AStop | ANone.

Record snap := {
  o_now : Z; o_npaces : Z; o_pending : bool; o_pe : Z; o_ph : Z;
  o_entries : list (Z * Z);         (* (seq, instant) of every transport entry so far, by seq *)
  o_cons : Z; o_cons_seq : Z;       (* consume: 0 nothing ready, 1 got o_cons_seq, 2 closed *)
  o_stop : bool;                    (* return value of the Stop action *)
  o_tfails : Z }.                   (* targeter calls that failed so far *)

(* advance the clock by d, stopping at every expiring sleep on the way *)
Fixpoint advance (fuel : nat) (c : cfg) (s : st) (d : Z) : option (list st) :=
  match fuel with
  | O => None
  | S f =>
      if d <=? 0 then settle settle_fuel c [s] [] else
      match pc s with
      | LSleep u =>
          if (now s <? u) && (u <? now s + d) then
            match step c s (Advance (u - now s)) with
            | None => Some []
            | Some s1 =>
                match settle settle_fuel c [s1] [] with
                | None => None
                | Some l =>
                    fold_right (fun s2 acc =>
                                  match acc, advance f c s2 (now s + d - u) with
                                  | Some a, Some b => Some (fold_right add_dedupe a b)
                                  | _, _ => None
                                  end) (Some []) l
                end
            end
          else match step c s (Advance d) with
               | Some s1 => settle settle_fuel c [s1] []
               | None => Some []
               end
      | _ => match step c s (Advance d) with
             | Some s1 => settle settle_fuel c [s1] []
             | None => Some []
             end
      end
  end.

Definition apply_action (c : cfg) (a : action) (o : snap) (s : st) : option (list st) :=
  let one (l : label) := match step c s l with
                         | Some s1 => settle settle_fuel c [s1] []
                         | None => Some [] end in
  match a with
  | APace w stop => one (Pace w stop)
  | AAdvance d => advance 64 c s d
  | AComplete x => one (Complete x)
  | AConsume =>
      if o_cons o =? 1 then one (Consume (o_cons_seq o))
      else if o_cons o =? 2 then (if results_closed s then Some [s] else Some [])
      else (match send s with [] => if results_closed s then Some [] else Some [s] | _ => Some [] end)
  | AStop => one (StopCall (o_stop o))
  | ANone => settle settle_fuel c [s] []
  end.

Fixpoint pairs_eqb (a b : list (Z * Z)) : bool :=
  match a, b with
  | [], [] => true
  | (x1, y1) :: a', (x2, y2) :: b' => (x1 =? x2) && (y1 =? y2) && pairs_eqb a' b'
  | _, _ => false
  end.

Definition tfails_of (c : cfg) (s : st) : Z :=
  Z.of_nat (length (filter (fun i => i <? tcalls s) (fails c))).

Definition matches (c : cfg) (o : snap) (s : st) : bool :=
  (now s =? o_now o) && (Z.of_nat (length (paces s)) + b2z (o_pending o) =? o_npaces o) &&
  Bool.eqb (match pc s with LPace _ => true | _ => false end) (o_pending o) &&
  pairs_eqb (sort_pairs (entered s)) (o_entries o) &&
  (tfails_of c s =? o_tfails o).

(* the pending consultation's arguments as the model computes them *)
Definition pending_args_ok (o : snap) (s : st) : bool :=
  negb (o_pending o) || match pc s with LPace e => (o_pe o =? e) && (o_ph o =? count s) | _ => false end.

(* result: the surviving candidates, or the index of the first step nobody survives *)
Fixpoint drive (c : cfg) (steps : list (action * snap)) (cands : list st) (i : Z) : Z + list st :=
  match steps with
  | [] => inr cands
  | (a, o) :: tl =>
      let next :=
        fold_right (fun s acc =>
                      match acc, apply_action c a o s with
                      | Some l, Some l' => Some (fold_right add_dedupe l l')
                      | _, _ => None
                      end) (Some []) cands in
      match next with
      | None => inl (-1 - i)                      (* out of fuel: not a verdict *)
      | Some l =>
          match filter (fun s => matches c o s && pending_args_ok o s) l with
          | [] => inl i
          | l' => drive c tl l' (i + 1)
          end
      end
  end.
