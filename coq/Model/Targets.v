(* Model of NewHTTPTargeter / NewJSONTargeter / ReadAllTargets (lib/targets.go).
   bufio.Scanner(ScanLines), strings.TrimSpace (ASCII), the ^[A-Z]+\s check and the
   peekingScanner with its empty-string sentinel are modelled concretely;
   url.ParseRequestURI is a reference predicate; os.ReadFile is a finite map.
   The JSON object decoder (generated easyjson code) is an oracle: each input line comes with
   its meaning as read by an independent decoder.  Definitions only. *)
From Coq Require Import ZArith List Bool.
From V Require Import Base.Duration Base.Str Model.Flags.
Import ListNotations.
Open Scope Z_scope.

Record target := { t_method : list Z; t_url : list Z; t_body : list Z; t_header : hmap }.

(* bufio.ScanLines: split at \n, drop one trailing \r, a final line without \n counts, an
   empty remainder does not *)
Definition drop_cr (l : list Z) : list Z :=
  match rev l with 13 :: r => rev r | _ => l end.
Fixpoint scan_lines_aux (s cur : list Z) : list (list Z) :=
  match s with
  | [] => match cur with [] => [] | _ => [drop_cr (rev cur)] end
  | 10 :: tl => drop_cr (rev cur) :: scan_lines_aux tl []
  | c :: tl => scan_lines_aux tl (c :: cur)
  end.
Definition scan_lines (s : list Z) : list (list Z) := scan_lines_aux s [].

(* peekingScanner *)
Record psc := { rest : list (list Z); peeked : list Z; cur : list Z }.
Definition sc_scan (s : psc) : bool * psc :=
  match peeked s with
  | [] => match rest s with
          | [] => (false, s)
          | l :: r => (true, {| rest := r; peeked := []; cur := l |})
          end
  | _ => (true, s)
  end.
Definition sc_text (s : psc) : list Z * psc :=
  match peeked s with
  | [] => (cur s, s)
  | p => (p, {| rest := rest s; peeked := []; cur := cur s |})
  end.
Definition sc_peek (s : psc) : list Z * psc :=
  match rest s with
  | [] => ([], s)
  | l :: r => (l, {| rest := r; peeked := l; cur := l |})
  end.

Definition is_upper (c : Z) : bool := (65 <=? c) && (c <=? 90).
Definition is_re_space (c : Z) : bool := (c =? 9) || (c =? 10) || (c =? 12) || (c =? 13) || (c =? 32).
Fixpoint after_upper (s : list Z) : bool :=
  match s with
  | c :: tl => if is_upper c then after_upper tl else is_re_space c
  | [] => false
  end.
Definition starts_with_method (s : list Z) : bool :=
  match s with c :: tl => is_upper c && after_upper tl | [] => false end.

(* url.ParseRequestURI, reference predicate: no blank/control byte; absolute path or
   scheme://...; scheme = letter (letter | digit | + - .)* *)
Definition is_alpha (c : Z) : bool := ((65 <=? c) && (c <=? 90)) || ((97 <=? c) && (c <=? 122)).
Fixpoint scheme_rest (s : list Z) : bool :=
  match s with
  | 58 :: _ => true
  | c :: tl => (is_alpha c || is_digit c || (c =? 43) || (c =? 45) || (c =? 46)) && scheme_rest tl
  | [] => false
  end.
Definition url_ok (u : list Z) : bool :=
  forallb (fun c => (32 <? c) && negb (c =? 127)) u &&
  match u with
  | 47 :: _ => true
  | c :: tl => is_alpha c && scheme_rest tl
  | [] => false
  end.

Inductive tres := TOk (t : target) | TNoTargets | TErr (code : Z).
(* error codes: 1 bad target, 2 bad method, 3 bad URL, 4 bad body, 5 bad header *)

Definition files := list (list Z * list Z).
Fixpoint read_file (fs : files) (p : list Z) : option (list Z) :=
  match fs with
  | [] => None
  | (q, c) :: tl => if str_eqb q p then Some c else read_file tl p
  end.

Definition is_comment (l : list Z) : bool := match l with 35 :: _ => true | _ => false end.

(* skip blank and comment lines before a request line *)
Fixpoint skip_to_request (fuel : nat) (s : psc) : option (list Z) * psc :=
  match fuel with
  | O => (None, s)
  | S f =>
      let '(ok, s1) := sc_scan s in
      if negb ok then (None, s1) else
      let '(t, s2) := sc_text s1 in
      let line := trim_space t in
      match line with
      | [] => skip_to_request f s2
      | 35 :: _ => skip_to_request f s2
      | _ => (Some line, s2)
      end
  end.

(* [fixed]: comments are skipped while peeking after the request line *)
Fixpoint peek_past_comments (fixed : bool) (fuel : nat) (s : psc) : list Z * psc :=
  let '(p, s1) := sc_peek s in
  let line := trim_space p in
  match fuel with
  | O => (line, s1)
  | S f => if fixed && is_comment line
           then let '(_, s2) := sc_text s1 in peek_past_comments fixed f s2
           else (line, s1)
  end.

(* the header / body loop *)
Fixpoint header_loop (fuel : nat) (fs : files) (s : psc) (body : list Z) (h : hmap)
  : option (list Z * hmap) * Z * psc :=
  match fuel with
  | O => (Some (body, h), 0, s)
  | S f =>
      let '(ok, s1) := sc_scan s in
      if negb ok then (Some (body, h), 0, s1) else
      let '(t, s2) := sc_text s1 in
      let line := trim_space t in
      match line with
      | [] => (Some (body, h), 0, s2)
      | 35 :: _ => header_loop f fs s2 body h
      | 64 :: path =>
          match read_file fs path with
          | Some b => (Some (b, h), 0, s2)
          | None => (None, 4, s2)
          end
      | _ =>
          match splitn2 58 line [] with
          | (_, None) => (None, 5, s2)
          | (k, Some v) =>
              let k' := trim_space k in let v' := trim_space v in
              match k', v' with
              | [], _ => (None, 5, s2)
              | _, [] => (None, 5, s2)
              | _, _ => header_loop f fs s2 body (happend k' v' h)
              end
          end
      end
  end.

Definition http_next (fixed : bool) (fs : files) (dbody : list Z) (dhdr : hmap) (s : psc) : tres * psc :=
  let fuel := S (length (rest s)) in
  match skip_to_request (S fuel) s with
  | (None, s1) => (TNoTargets, s1)
  | (Some line, s1) =>
      match splitn2 32 line [] with
      | (_, None) => (TErr 1, s1)
      | (m, Some u) =>
          if negb (starts_with_method line) then (TErr 2, s1) else
          if negb (url_ok u) then (TErr 3, s1) else
          let '(pl, s2) := peek_past_comments fixed fuel s1 in
          if match pl with [] => true | _ => starts_with_method pl end
          then (TOk {| t_method := m; t_url := u; t_body := dbody; t_header := dhdr |}, s2)
          else match header_loop (S fuel) fs s2 dbody dhdr with
               | (Some (b, h), _, s3) => (TOk {| t_method := m; t_url := u; t_body := b; t_header := h |}, s3)
               | (None, code, s3) => (TErr code, s3)
               end
      end
  end.

Definition psc_of (src : list Z) : psc := {| rest := scan_lines src; peeked := []; cur := [] |}.

(* repeated calls: results of [n] successive Targeter calls *)
Fixpoint http_calls (fixed : bool) (fs : files) (dbody : list Z) (dhdr : hmap) (n : nat) (s : psc) : list tres :=
  match n with
  | O => []
  | S k => let '(r, s') := http_next fixed fs dbody dhdr s in r :: http_calls fixed fs dbody dhdr k s'
  end.

(* ---- JSON format ---------------------------------------------------------------------- *)
(* one input line: is it blank after TrimSpace, is it newline-terminated, and its meaning *)
Inductive jmeaning := JBad | JObj (t : target).
Record jline := { j_blank : bool; j_terminated : bool; j_mean : jmeaning }.

Fixpoint hmerge (h : hmap) (extra : hmap) : hmap :=
  match extra with
  | [] => h
  | (k, vs) :: tl => hmerge (fold_left (fun acc v => happend k v acc) vs h) tl
  end.

(* error codes: 6 json syntax, 7 method missing, 8 url missing *)
Fixpoint json_next (dbody : list Z) (dhdr : hmap) (ls : list jline) : tres * list jline :=
  match ls with
  | [] => (TNoTargets, [])
  | l :: tl =>
      if negb (j_terminated l) then (TNoTargets, [])        (* ReadBytes hit EOF: the partial line is dropped *)
      else if j_blank l then json_next dbody dhdr tl
      else match j_mean l with
           | JBad => (TErr 6, tl)
           | JObj t =>
               match t_method t, t_url t with
               | [], _ => (TErr 7, tl)
               | _, [] => (TErr 8, tl)
               | _, _ =>
                   (TOk {| t_method := t_method t; t_url := t_url t;
                           t_body := match t_body t with [] => dbody | b => b end;
                           t_header := hmerge (hmerge [] dhdr) (t_header t) |}, tl)
               end
           end
  end.

Fixpoint json_calls (dbody : list Z) (dhdr : hmap) (n : nat) (ls : list jline) : list tres :=
  match n with
  | O => []
  | S k => let '(r, ls') := json_next dbody dhdr ls in r :: json_calls dbody dhdr k ls'
  end.
