(* Model of lib/histogram.go: Histogram.Add, Buckets.UnmarshalText, and the data shown
   by MarshalJSON / the text histogram reporter.  Definitions only. *)
From Coq Require Import ZArith List Bool.
From V Require Import Base.Duration.
Import ListNotations.
Open Scope Z_scope.

Record hist := { buckets : list Z; counts : list Z; total : Z }.

Definition hist_init (bs : list Z) : hist := {| buckets := bs; counts := []; total := 0 |}.

(* the `for ; i < len(Buckets)-1; i++` scan, lower inclusive / upper exclusive *)
Fixpoint scan (bs : list Z) (lat : Z) (i : nat) : nat :=
  match bs with
  | b0 :: ((b1 :: _) as tl) =>
      if (b0 <=? lat) && (lat <? b1) then i else scan tl lat (S i)
  | _ => i
  end.

Fixpoint incr_nth (l : list Z) (i : nat) : option (list Z) :=
  match l, i with
  | [], _ => None                                   (* index out of range: Go panics *)
  | x :: tl, O => Some ((x + 1) :: tl)
  | x :: tl, S k => match incr_nth tl k with Some tl' => Some (x :: tl') | None => None end
  end.

(* None = panic (index out of range with an empty bucket list) *)
Definition hist_add (h : hist) (lat : Z) : option hist :=
  let cs := if Nat.eqb (length (counts h)) (length (buckets h)) then counts h
            else repeat 0 (length (buckets h)) in
  match incr_nth cs (scan (buckets h) lat 0) with
  | Some cs' => Some {| buckets := buckets h; counts := cs'; total := total h + 1 |}
  | None => None
  end.

Fixpoint hist_adds (h : hist) (lats : list Z) : option hist :=
  match lats with
  | [] => Some h
  | l :: tl => match hist_add h l with Some h' => hist_adds h' tl | None => None end
  end.

(* Rendering: the (bucket, count) pairs printed by MarshalJSON (`"%d": %d` for every
   bucket, indexing Counts[i]) and by the text reporter (which ranges over Counts).
   [render_json_code] models the code; [render_json] is what the property demands. *)
Fixpoint zip_idx (bs cs : list Z) : option (list (Z * Z)) :=
  match bs with
  | [] => Some []
  | b :: bt => match cs with
               | [] => None                          (* Counts[i] out of range: panic *)
               | c :: ct => match zip_idx bt ct with
                            | Some r => Some ((b, c) :: r) | None => None end
               end
  end.

(* as written in the pinned source before the repair: indexes Counts directly *)
Definition render_json_unsized (h : hist) : option (list (Z * Z)) :=
  zip_idx (buckets h) (counts h).

(* current source: Counts is sized to the buckets before rendering *)
Definition sized_counts (h : hist) : list Z :=
  if Nat.eqb (length (counts h)) (length (buckets h)) then counts h
  else repeat 0 (length (buckets h)).
Definition render_json (h : hist) : option (list (Z * Z)) :=
  zip_idx (buckets h) (sized_counts h).
Definition render_text (h : hist) : option (list (Z * Z)) :=
  zip_idx (buckets h) (sized_counts h).
(* text reporter before the repair: ranges over Counts, so no rows when empty *)
Definition render_text_unsized (h : hist) : list (Z * Z) :=
  combine (buckets h) (counts h).

(* Buckets.UnmarshalText *)
Fixpoint unmarshal_items (items : list (list Z)) (first : bool) (acc : list Z)
  : option (list Z * bool) :=
  match items with
  | [] => Some (acc, false)
  | v :: tl =>
      match parse_duration (trim_space v) with
      | None => None
      | Some (d, ix) =>
          let acc1 := if first && (0 <? d) then acc ++ [0] else acc in
          match unmarshal_items tl false (acc1 ++ [d]) with
          | Some (r, ix') => Some (r, ix || ix')
          | None => None
          end
      end
  end.

Definition buckets_unmarshal (value : list Z) : option (list Z * bool) :=
  match value with
  | 91 :: rest =>                                            (* '[' *)
      match rev rest with
      | 93 :: rinner =>                                      (* ']' *)
          match unmarshal_items (split_on 44 (rev rinner) []) true [] with
          | Some ([], _) => None
          | r => r
          end
      | _ => None
      end
  | _ => None
  end.

(* Specification side *)
Fixpoint in_bucket (bs : list Z) (i : nat) (lat : Z) : bool :=
  match bs, i with
  | [b], O => b <=? lat                                      (* last bucket: unbounded above *)
  | b0 :: b1 :: _, O => (b0 <=? lat) && (lat <? b1)
  | _ :: tl, S k => in_bucket tl k lat
  | [], _ => false
  end.

Definition count_in_bucket (bs : list Z) (lats : list Z) (i : nat) : Z :=
  Z.of_nat (length (filter (in_bucket bs i) lats)).

Fixpoint strictly_increasing (bs : list Z) : bool :=
  match bs with
  | b0 :: ((b1 :: _) as tl) => (b0 <? b1) && strictly_increasing tl
  | _ => true
  end.

Definition zsum (l : list Z) : Z := fold_right Z.add 0 l.
