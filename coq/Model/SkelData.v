(* The interleaving semantics of Model/Skel.v with the data the timestamp / sequence-number
   section works on: a global clock that never runs backwards (the environment advances it by any
   non-negative amount before each step), the shared sequence counter, and per thread the
   timestamp and sequence number it has read.  Definitions only. *)
From Coq Require Import ZArith List Bool.
From V Require Import Model.Skel.
Import ListNotations.
Open Scope Z_scope.

Record dstate := {
  base : cstate; clock : Z; seqc : Z;
  tsr : nat -> option Z;      (* the timestamp thread t read, if it has *)
  sqr : nat -> option Z }.    (* the sequence number thread t read, if it has *)

Definition upd (f : nat -> option Z) (t : nat) (x : Z) : nat -> option Z :=
  fun u => if Nat.eqb u t then Some x else f u.

(* one event: thread t takes a step after the clock advanced by adv >= 0 *)
Definition dstep (p : skel) (s : dstate) (ev : nat * Z) : option dstate :=
  let '(t, adv) := ev in
  if adv <? 0 then None else
  let now := clock s + adv in
  match nth_error (pcs (base s)) t with
  | None => None
  | Some pc =>
      match cstep p (base s) t with
      | None => None
      | Some b' =>
          match nth_error p pc with
          | Some AClock => Some {| base := b'; clock := now; seqc := seqc s; tsr := upd (tsr s) t now; sqr := sqr s |}
          | Some ASeqRead => Some {| base := b'; clock := now; seqc := seqc s; tsr := tsr s; sqr := upd (sqr s) t (seqc s) |}
          | Some ASeqInc => Some {| base := b'; clock := now; seqc := seqc s + 1; tsr := tsr s; sqr := sqr s |}
          | _ => Some {| base := b'; clock := now; seqc := seqc s; tsr := tsr s; sqr := sqr s |}
          end
      end
  end.

Fixpoint drun (p : skel) (s : dstate) (evs : list (nat * Z)) : option dstate :=
  match evs with
  | [] => Some s
  | e :: tl => match dstep p s e with Some s' => drun p s' tl | None => None end
  end.

Definition dinit (n : nat) (c0 q0 : Z) : dstate :=
  {| base := cinit n; clock := c0; seqc := q0; tsr := fun _ => None; sqr := fun _ => None |}.
