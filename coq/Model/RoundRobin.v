(* Model of NewRoundRobinDecoder (lib/results.go:124-142).  A decoder is the list of the
   records it still has to deliver; once empty it returns its sticky error (io.EOF) on
   every call.  [seq] is the closure's call counter.  Definitions only. *)
From Coq Require Import List Arith.
Import ListNotations.

Section RR.
Context {A : Type}.

Fixpoint replace_nth (i : nat) (x : list A) (ds : list (list A)) : list (list A) :=
  match ds, i with
  | [], _ => []
  | _ :: tl, O => x :: tl
  | d :: tl, S k => d :: replace_nth k x tl
  end.

(* the `for range dec` loop of one call: at most [n] attempts *)
Fixpoint rr_try (n : nat) (seq : nat) (ds : list (list A)) : option (nat * A) * nat * list (list A) :=
  match n with
  | O => (None, seq, ds)                      (* every decoder failed: the last error *)
  | S n' =>
      let i := seq mod (length ds) in
      match nth_error ds i with
      | Some (x :: tl) => (Some (i, x), S seq, replace_nth i tl ds)
      | _ => rr_try n' (S seq) ds
      end
  end.

(* one Decode call.  With a single decoder the code returns that decoder itself; with none
   the loop body never runs and the call "succeeds" without decoding anything. *)
Inductive call_result := Rec (origin : nat) (x : A) | Eof | NoDecoders.

Definition rr_call (seq : nat) (ds : list (list A)) : call_result * nat * list (list A) :=
  match ds with
  | [] => (NoDecoders, seq, ds)
  | [d] => match d with
           | x :: tl => (Rec 0 x, seq, [tl])
           | [] => (Eof, seq, ds)
           end
  | _ => match rr_try (length ds) seq ds with
         | (Some (i, x), seq', ds') => (Rec i x, seq', ds')
         | (None, seq', ds') => (Eof, seq', ds')
         end
  end.

(* drain: call until the first error; None = out of fuel *)
Fixpoint rr_run (fuel : nat) (seq : nat) (ds : list (list A)) : option (list (nat * A)) :=
  match fuel with
  | O => None
  | S f =>
      match rr_call seq ds with
      | (Rec i x, seq', ds') =>
          match rr_run f seq' ds' with Some out => Some ((i, x) :: out) | None => None end
      | (Eof, _, _) => Some []
      | (NoDecoders, _, _) => None
      end
  end.

Definition total (ds : list (list A)) : nat := length (concat ds).
Definition rr_all (ds : list (list A)) : option (list (nat * A)) := rr_run (S (total ds)) 0 ds.

Definition from_origin (i : nat) (out : list (nat * A)) : list A :=
  map snd (filter (fun p => Nat.eqb (fst p) i) out).

End RR.
