(* Result codecs (lib/results.go, lib/results_easyjson.go): the CSV column mapping with its
   base64 / decimal / MIME-header sub-encodings, the JSON object layout with easyjson string
   escaping and RFC 3339 timestamps, and gob's message framing.  The CSV and JSON layouts are
   written from the documentation (encode.go usage text, README "vegeta encode"), so the
   decoders here are the independently written readers the property speaks of.
   Library pieces (encoding/csv, net/textproto, time formatting, easyjson lexer, gob payload)
   are reference models.  Strings are lists of byte values.  Definitions only. *)
From Coq Require Import ZArith List Bool.
From V Require Import Base.Duration Base.Str Base.Base64 Model.Flags Model.Csv.
Import ListNotations.
Open Scope Z_scope.

Record cres := {
  c_attack : list Z; c_seq : Z; c_code : Z; c_ts : Z (* unix ns *); c_zone : Z (* offset seconds, printing only *);
  c_lat : Z; c_bout : Z; c_bin : Z; c_error : list Z; c_body : option (list Z); c_method : list Z;
  c_url : list Z; c_headers : option hmap }.

(* ---- MIME header block: http.Header.Write + "\r\n", textproto.ReadMIMEHeader ---------------- *)
Fixpoint str_leb (a b : list Z) : bool :=
  match a, b with
  | [], _ => true
  | _ :: _, [] => false
  | x :: a', y :: b' => if x <? y then true else if y <? x then false else str_leb a' b'
  end.
Fixpoint insert_key (kv : list Z * list (list Z)) (l : hmap) : hmap :=
  match l with
  | [] => [kv]
  | x :: tl => if str_leb (fst kv) (fst x) then kv :: l else x :: insert_key kv tl
  end.
Definition sort_hmap (h : hmap) : hmap := fold_right insert_key [] h.

Definition mime_write (h : hmap) : list Z :=
  flat_map (fun kv => flat_map (fun v => fst kv ++ [58; 32] ++ v ++ [13; 10]) (snd kv)) (sort_hmap h)
  ++ [13; 10].

Definition header_bytes (h : option hmap) : list Z :=
  match h with None => [] | Some m => mime_write m end.

(* lines of a MIME block: split at \n, drop one trailing \r *)
Fixpoint mime_lines (s cur : list Z) : list (list Z) :=
  match s with
  | [] => match cur with [] => [] | _ => [rev' cur] end
  | c :: tl => if c =? 10 then (match cur with 13 :: r => rev' r | _ => rev' cur end) :: mime_lines tl []
               else mime_lines tl (c :: cur)
  end.

Definition is_lower (c : Z) : bool := (97 <=? c) && (c <=? 122).
Definition is_upper (c : Z) : bool := (65 <=? c) && (c <=? 90).
(* textproto.CanonicalMIMEHeaderKey on a valid token *)
Fixpoint canon_key (k : list Z) (upper : bool) : list Z :=
  match k with
  | [] => []
  | c :: tl => let c' := if upper then (if is_lower c then c - 32 else c) else (if is_upper c then c + 32 else c) in
               c' :: canon_key tl (c =? 45)
  end.

Definition trim_ws (s : list Z) : list Z :=
  let l := (fix tl (s : list Z) := match s with c :: r => if (c =? 32) || (c =? 9) then tl r else s | [] => [] end) in
  rev (l (rev (l s))).

(* None = malformed *)
Fixpoint mime_read_lines (ls : list (list Z)) (h : hmap) : option hmap :=
  match ls with
  | [] => Some h
  | [] :: _ => Some h                                    (* blank line ends the block *)
  | l :: tl =>
      match splitn2 58 l [] with
      | (_, None) => None
      | (k, Some v) => match k with
                       | [] => None
                       | _ => mime_read_lines tl (happend (canon_key k true) (trim_ws v) h)
                       end
      end
  end.
Definition mime_read (s : list Z) : option hmap := mime_read_lines (mime_lines s []) [].

(* ---- CSV ---------------------------------------------------------------------------------- *)
Definition opt_bytes (o : option (list Z)) : list Z := match o with Some b => b | None => [] end.

Definition csv_fields (r : cres) : list (list Z) :=
  [ itoa (c_ts r); itoa (c_code r); itoa (c_lat r); itoa (c_bout r); itoa (c_bin r); c_error r;
    b64_encode (opt_bytes (c_body r)); c_attack r; itoa (c_seq r); c_method r; c_url r;
    b64_encode (header_bytes (c_headers r)) ].

Definition csv_encode (r : cres) : list Z := write_record (csv_fields r).

(* strconv.ParseUint(s, 10, bits) *)
Definition parse_uint (bits : Z) (s : list Z) : option Z :=
  match s with
  | [] => None
  | _ => match digits_val s 0 with
         | Some v => if v <? 2 ^ bits then Some v else None
         | None => None
         end
  end.

Definition csv_decode_fields (fs : list (list Z)) : option cres :=
  match fs with
  | [f0; f1; f2; f3; f4; f5; f6; f7; f8; f9; f10; f11] =>
      match atoi f0, parse_uint 16 f1, atoi f2, parse_uint 64 f3, parse_uint 64 f4, b64_decode f6, parse_uint 64 f8 with
      | Some ts, Some code, Some lat, Some bout, Some bin, Some body, Some seq =>
          let mk := fun h =>
            Some {| c_attack := f7; c_seq := seq; c_code := code; c_ts := ts; c_zone := 0; c_lat := lat;
                    c_bout := bout; c_bin := bin; c_error := f5; c_body := Some body; c_method := f9;
                    c_url := f10; c_headers := h |} in
          match f11 with
          | [] => mk None
          | _ => match b64_decode f11 with
                 | Some hb => match mime_read hb with Some h => mk (Some h) | None => None end
                 | None => None
                 end
          end
      | _, _, _, _, _, _, _ => None
      end
  | _ => None
  end.

(* decode a whole stream: all records, then EOF (None = some record is malformed) *)
Definition csv_decode_all (s : list Z) : option (list cres) :=
  match go_csv_records s with
  | None => None
  | Some recs =>
      fold_right (fun fs acc => match csv_decode_fields fs, acc with
                                | Some r, Some l => Some (r :: l) | _, _ => None end) (Some []) recs
  end.

(* Result.Equal: instants, nil = empty body, header maps (nil distinguished from empty) *)
Fixpoint strs_eqb (a b : list (list Z)) : bool :=
  match a, b with
  | [], [] => true
  | x :: a', y :: b' => str_eqb x y && strs_eqb a' b'
  | _, _ => false
  end.
Definition hmap_incl (a b : hmap) : bool := forallb (fun kv => strs_eqb (hlookup (fst kv) b) (snd kv)) a.
Definition headers_equal (a b : option hmap) : bool :=
  match a, b with
  | None, None => true
  | Some x, Some y => Nat.eqb (length x) (length y) && hmap_incl x y && hmap_incl y x
  | _, _ => false
  end.
Definition cres_equal (a b : cres) : bool :=
  str_eqb (c_attack a) (c_attack b) && (c_seq a =? c_seq b) && (c_code a =? c_code b) && (c_ts a =? c_ts b) &&
  (c_lat a =? c_lat b) && (c_bin a =? c_bin b) && (c_bout a =? c_bout b) && str_eqb (c_error a) (c_error b) &&
  str_eqb (opt_bytes (c_body a)) (opt_bytes (c_body b)) && str_eqb (c_method a) (c_method b) &&
  str_eqb (c_url a) (c_url b) && headers_equal (c_headers a) (c_headers b).

(* ---- gob framing ---------------------------------------------------------------------------- *)
(* gob's unsigned integer: one byte below 128, otherwise the negated byte count then big endian *)
Fixpoint be_bytes (fuel : nat) (x : Z) (acc : list Z) : list Z :=
  match fuel with
  | O => acc
  | S f => if x =? 0 then acc else be_bytes f (x / 256) (x mod 256 :: acc)
  end.
Definition gob_uint (x : Z) : list Z :=
  if x <? 128 then [x] else let bs := be_bytes 8 x [] in (256 - Z.of_nat (length bs)) :: bs.

Definition frame (payload : list Z) : list Z := gob_uint (Z.of_nat (length payload)) ++ payload.

Fixpoint be_val (bs : list Z) (acc : Z) : Z :=
  match bs with [] => acc | b :: tl => be_val tl (acc * 256 + b) end.

(* read one length prefix: Some (n, rest) or None when the prefix itself is cut *)
Definition read_uint (s : list Z) : option (Z * list Z) :=
  match s with
  | [] => None
  | b :: tl => if b <? 128 then Some (b, tl)
               else let n := Z.to_nat (256 - b) in
                    if Nat.ltb (length tl) n then None else Some (be_val (firstn n tl) 0, skipn n tl)
  end.

(* complete frames of a stream, and whether a partial frame follows *)
Fixpoint read_frames (fuel : nat) (s : list Z) : list (list Z) * bool :=
  match fuel with
  | O => ([], true)
  | S f =>
      match s with
      | [] => ([], false)
      | _ => match read_uint s with
             | None => ([], true)
             | Some (n, rest) =>
                 if Z.of_nat (length rest) <? n then ([], true)
                 else let '(fs, p) := read_frames f (skipn (Z.to_nat n) rest) in
                      (firstn (Z.to_nat n) rest :: fs, p)
             end
      end
  end.

(* ---- newline framing (JSON) ------------------------------------------------------------------ *)
(* the JSON decoder hands complete newline-terminated lines to the lexer; a final piece without
   newline is reported as end-of-stream *)
Fixpoint read_lines (s cur : list Z) : list (list Z) * bool :=
  match s with
  | [] => ([], match cur with [] => false | _ => true end)
  | c :: tl => if c =? 10 then let '(ls, p) := read_lines tl [] in (rev' cur :: ls, p)
               else read_lines tl (c :: cur)
  end.
