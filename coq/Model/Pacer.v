(* Model of lib/pacer.go, constant pacer (bit-exact integer arithmetic with the uint64 /
   int64 conversions and wrap-arounds written out) and of the closed loop that consumes
   (wait, stop).  Definitions only. *)
From Coq Require Import ZArith List Bool.
Import ListNotations.
Open Scope Z_scope.

Inductive outcome := Wait (w : Z) | Stop | Panic.

Definition two64 : Z := 18446744073709551616.
Definition max_int64 : Z := 9223372036854775807.
Definition wrap64u (x : Z) : Z := x mod two64.
Definition wrap64s (x : Z) : Z := (x + two64 / 2) mod two64 - two64 / 2.

(* ConstantPacer.Pace as repaired (next hit time = ceil((hits+1)*Per/Freq) in 128 bits). *)
Definition const_pace (F P t k : Z) : outcome :=
  if (P =? 0) || (F =? 0) then Wait 0
  else if (P <? 0) || (F <? 0) then Stop
  else
    let expected := wrap64u (wrap64u F * wrap64u (Z.quot t P)) in
    if k <? expected then Wait 0 else
    let n := wrap64u (k + 1) in
    let prod := n * wrap64u P in                    (* bits.Mul64: hi = prod / 2^64 *)
    if (n =? 0) || (wrap64u F <=? prod / two64) then Stop else
    let q := prod / wrap64u F in                    (* bits.Div64 *)
    let r := prod mod wrap64u F in
    if max_int64 <=? q then Stop else
    let next := if r =? 0 then q else q + 1 in
    Wait (wrap64s (next - t)).

(* ConstantPacer.Pace as in the pinned source. *)
Definition const_pace_pinned (F P t k : Z) : outcome :=
  if (P =? 0) || (F =? 0) then Wait 0
  else if (P <? 0) || (F <? 0) then Stop
  else
    let expected := wrap64u (wrap64u F * wrap64u (Z.quot t P)) in
    if k <? expected then Wait 0 else
    let interval := wrap64u (Z.quot P F) in
    if interval =? 0 then Panic                      (* integer divide by zero *)
    else if max_int64 / interval <? k then Stop
    else Wait (wrap64s (wrap64s (wrap64u ((k + 1) * interval)) - t)).

(* ---- closed loop in virtual time --------------------------------------------------- *)
(* State: (t, k) = the instant of the last release and the number of hits released so
   far.  One step: the attacker arrives [stall >= 0] later, calls Pace(t + stall, k),
   sleeps max(w, 0) and releases hit k+1.  The loop ends on Stop (or Panic). *)

Definition loop_step (pace : Z -> Z -> outcome) (st : Z * Z) (stall : Z) : option (Z * Z) :=
  let '(t, k) := st in
  let tc := t + Z.max stall 0 in
  match pace tc k with
  | Wait w => Some (tc + Z.max w 0, k + 1)
  | _ => None
  end.

(* all states visited by a loop driven by the given stall history, most recent first *)
Fixpoint loop_run (pace : Z -> Z -> outcome) (st : Z * Z) (stalls : list Z) : list (Z * Z) :=
  match stalls with
  | [] => [st]
  | s :: tl => match loop_step pace st s with
               | Some st' => st :: loop_run pace st' tl
               | None => [st]
               end
  end.
