(* CSV as written by encoding/csv.Writer (Comma ',', UseCRLF false) and an RFC 4180 reader.
   Go's csv.Reader additionally turns every "\r\n" of the input into "\n" (also inside quoted
   fields), trims leading white space of unquoted fields and skips empty lines; on the output
   of the writer only the first of these matters, so Go's reader is modelled on such input as
   [rfc_records] after [crlf_norm].  Strings are lists of byte values.  Definitions only. *)
From Coq Require Import ZArith List Bool.
Import ListNotations.
Open Scope Z_scope.

(* unicode.IsSpace of the first rune, on UTF-8 bytes *)
Definition first_rune_space (f : list Z) : bool :=
  match f with
  | c :: _ => if (c =? 32) || ((9 <=? c) && (c <=? 13)) then true else
      match f with
      | 194 :: d :: _ => (d =? 133) || (d =? 160)                      (* U+0085, U+00A0 *)
      | 225 :: 154 :: 128 :: _ => true                                 (* U+1680 *)
      | 226 :: 128 :: d :: _ => ((128 <=? d) && (d <=? 138)) || (d =? 168) || (d =? 169) || (d =? 175)
      | 226 :: 129 :: 159 :: _ => true                                 (* U+205F *)
      | 227 :: 128 :: 128 :: _ => true                                 (* U+3000 *)
      | _ => false
      end
  | [] => false
  end.

Definition special_byte (c : Z) : bool := (c =? 44) || (c =? 34) || (c =? 13) || (c =? 10).

Fixpoint zeqb (a b : list Z) : bool :=
  match a, b with
  | [], [] => true
  | x :: a', y :: b' => (x =? y) && zeqb a' b'
  | _, _ => false
  end.

Definition needs_quotes (f : list Z) : bool :=
  match f with
  | [] => false
  | _ => zeqb f [92; 46] (* the field \. *) || existsb special_byte f || first_rune_space f
  end.

Fixpoint escape_quotes (f : list Z) : list Z :=
  match f with
  | [] => []
  | c :: tl => if c =? 34 then 34 :: 34 :: escape_quotes tl else c :: escape_quotes tl
  end.

Definition write_field (f : list Z) : list Z :=
  if needs_quotes f then 34 :: escape_quotes f ++ [34] else f.

Fixpoint write_fields (fs : list (list Z)) : list Z :=
  match fs with
  | [] => []
  | [f] => write_field f
  | f :: tl => write_field f ++ 44 :: write_fields tl
  end.

Definition write_record (fs : list (list Z)) : list Z := write_fields fs ++ [10].

(* ---- reader ---- *)
Inductive term := TComma | TNewline | TEof.

Fixpoint unquoted (s acc : list Z) : list Z * term * list Z :=
  match s with
  | [] => (rev' acc, TEof, [])
  | c :: tl => if c =? 44 then (rev' acc, TComma, tl)
               else if c =? 10 then (rev' acc, TNewline, tl)
               else unquoted tl (c :: acc)
  end.

(* inside a quoted field; [pending] = a quote was just seen *)
Fixpoint quoted (s acc : list Z) (pending : bool) : option (list Z * term * list Z) :=
  match s with
  | [] => if pending then Some (rev' acc, TEof, []) else None          (* unterminated *)
  | c :: tl =>
      if pending then
        if c =? 34 then quoted tl (34 :: acc) false                    (* "" is a quote *)
        else if c =? 44 then Some (rev' acc, TComma, tl)
        else if c =? 10 then Some (rev' acc, TNewline, tl)
        else None                                                      (* text after the closing quote *)
      else if c =? 34 then quoted tl acc true
      else quoted tl (c :: acc) false
  end.

Definition read_field (s : list Z) : option (list Z * term * list Z) :=
  match s with
  | c :: tl => if c =? 34 then quoted tl [] false else Some (unquoted s [])
  | [] => Some (unquoted s [])
  end.

Fixpoint read_record (fuel : nat) (s : list Z) (acc : list (list Z)) : option (list (list Z) * list Z) :=
  match fuel with
  | O => None
  | S f =>
      match read_field s with
      | None => None
      | Some (fld, TComma, rest) => read_record f rest (fld :: acc)
      | Some (fld, _, rest) => Some (rev' (fld :: acc), rest)
      end
  end.

Fixpoint rfc_records (fuel : nat) (s : list Z) : option (list (list (list Z))) :=
  match fuel with
  | O => None
  | S f =>
      match s with
      | [] => Some []
      | _ => match read_record (S (length s)) s [] with
             | None => None
             | Some (r, rest) => match rfc_records f rest with Some rs => Some (r :: rs) | None => None end
             end
      end
  end.

Fixpoint crlf_norm (s : list Z) : list Z :=
  match s with
  | c :: tl => match tl with
               | d :: tl2 => if (c =? 13) && (d =? 10) then 10 :: crlf_norm tl2 else c :: crlf_norm tl
               | [] => [c]
               end
  | [] => []
  end.

Definition go_csv_records (s : list Z) : option (list (list (list Z))) :=
  let s' := crlf_norm s in rfc_records (S (length s')) s'.

Fixpoint has_crlf (s : list Z) : bool :=
  match s with
  | c :: tl => match tl with d :: _ => ((c =? 13) && (d =? 10)) || has_crlf tl | [] => false end
  | [] => false
  end.
