(* LinearPacer (lib/pacer.go:259-309) over exact rationals: H(t) = a x^2/2 + b x and
   rate(t) = a x + b with x = t / 10^9 s are polynomials; math.Round and the time.Duration
   conversion are Q -> Z functions.  Float rounding is not modelled (the tie carries a guard
   band); calls whose float computation meets a special value (zero or negative rate, values
   outside the integer ranges: platform-defined conversions) are [LUndef].  Definitions only. *)
From Coq Require Import ZArith QArith Qround Bool.
Open Scope Q_scope.

Inductive loutcome := LWait (w : Z) | LStop | LUndef.

Definition e9 : Q := inject_Z (10 ^ 9).
Definition lin_x (t : Z) : Q := inject_Z t / e9.
Definition lin_b (F P : Z) : Q := inject_Z F / inject_Z P * e9.            (* hits per second *)
Definition lin_H (a b : Q) (t : Z) : Q :=
  if (t <? 0)%Z then 0 else a * (lin_x t * lin_x t) / 2 + b * lin_x t.
Definition lin_rate (a b : Q) (t : Z) : Q := a * lin_x t + b.

(* math.Round: half away from zero *)
Definition qround (x : Q) : Z := if Qle_bool 0 x then Qfloor (x + (1 # 2)) else Qceiling (x - (1 # 2)).
(* float -> integer conversion of an in-range value: toward zero *)
Definition qtrunc0 (x : Q) : Z := if Qle_bool 0 x then Qfloor x else Qceiling x.

Definition max_i64 : Z := 9223372036854775807.
Definition two_64 : Z := 18446744073709551616.

Definition lin_pace (F P : Z) (a : Q) (t k : Z) : loutcome :=
  if ((P =? 0) || (F =? 0))%Z then LWait 0
  else if ((P <? 0) || (F <? 0))%Z then LStop
  else if (k =? 0)%Z then LWait 0
  else
    let b := lin_b F P in
    let e := lin_H a b t in
    if negb (Qle_bool 0 e) || Qle_bool (inject_Z two_64) e then LUndef
    else if (k <? Qfloor e)%Z then LWait 0
    else
      let r := lin_rate a b t in
      if Qle_bool r 0 then LUndef
      else
        let i := qround (e9 / r) in
        if (two_64 <=? i)%Z then LUndef
        else if (negb (i =? 0) && (max_i64 / i <? k))%Z then LStop
        else
          let d := inject_Z (k + 1) - e in
          let w := qtrunc0 (inject_Z i * d) in
          if (max_i64 <? w)%Z then LUndef else LWait w.
