(* SinePacer (lib/pacer.go:150-249): the declared schedule
     H(t) = M t + (A P / 2 pi) (cos O - cos (O + 2 pi t / P))        (hits by elapsed time t ns)
   and rate  R(t) = M + A sin (O + 2 pi t / P)                        (hits per ns)
   as verified enclosures over Q (Model/Trig.v).  Pace itself inverts H numerically in float64
   (five fixed-point steps) and is not modelled: its results are judged against the enclosures of
   the schedule.  Definitions only. *)
From Coq Require Import ZArith QArith Qround.
From V Require Import Model.Trig.
Open Scope Q_scope.

Record sine := { s_period : Z; s_mf : Z; s_mp : Z; s_af : Z; s_ap : Z; s_start : Q }.

Definition s_mean (p : sine) : Q := inject_Z (s_mf p) / inject_Z (s_mp p).
Definition s_amp (p : sine) : Q := inject_Z (s_af p) / inject_Z (s_ap p).

(* the documented constraints: Period > 0, Mean > 0, Amp < Mean; the schedule theorems also need 0 <= Amp *)
Definition sine_valid (p : sine) : bool :=
  (0 <? s_period p)%Z && negb (Qle_bool (s_mean p) 0) && negb (Qle_bool (s_mean p) (s_amp p)).

(* fraction of the period elapsed, in [0,1) *)
Definition s_frac (p : sine) (t : Z) : Q := inject_Z (t mod s_period p) / inject_Z (s_period p).

Definition two_pi_gap : Q := 2 * (pi_hi - pi_lo).

(* enclosure of cos / sin of the angle O + 2 pi t / P *)
Definition s_angle_cs (p : sine) (t : Z) : itv * itv :=
  let f := s_frac p t in
  let theta0 := s_start p + 2 * pi_lo * f in
  let eps := two_pi_gap * f in
  let '(c, s) := cos_sin theta0 in
  (i_round (i_widen c eps), i_round (i_widen s eps)).

Definition inv_two_pi : itv := (1 / (2 * pi_hi), 1 / (2 * pi_lo)).

(* [c0] = enclosure of cos O, [amp] = enclosure of A P / 2 pi: the same for every t *)
Definition sine_c0 (p : sine) : itv := fst (cos_sin (s_start p)).
Definition sine_amp (p : sine) : itv := i_round (i_mul (i_pt (s_amp p * inject_Z (s_period p))) inv_two_pi).
Definition sine_H_with (c0 amp : itv) (p : sine) (t : Z) : itv :=
  if (t <=? 0)%Z then i_pt 0 else
  let ct := fst (s_angle_cs p t) in
  i_round (i_add (i_pt (s_mean p * inject_Z t)) (i_mul amp (i_sub c0 ct))).
Definition sine_H (p : sine) (t : Z) : itv := sine_H_with (sine_c0 p) (sine_amp p) p t.

Definition sine_rate (p : sine) (t : Z) : itv :=
  i_round (i_add (i_pt (s_mean p)) (i_mul (i_pt (s_amp p)) (snd (s_angle_cs p t)))).
