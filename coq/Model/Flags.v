(* Model of flags.go (rateFlag, headers, maxBodyFlag, dnsTTLFlag, connectToFlag, csl), of the
   unlimited-rate guard of attack.go:117-121 and of internal/resolver.normalizeAddrs.
   Strings are lists of byte values.  Library parsers are reference models:
   time.ParseDuration (Base/Duration.v), strconv.Atoi (Base/Str.v), datasize.UnmarshalText,
   net.SplitHostPort (bracket rules), net.ParseIP (dotted IPv4 only).  Definitions only. *)
From Coq Require Import ZArith List Bool.
From V Require Import Base.Duration Base.Str.
Import ListNotations.
Open Scope Z_scope.

Definition s_infinity : list Z := [105; 110; 102; 105; 110; 105; 116; 121].
Definition s_1s : list Z := [49; 115].
Definition s_minus1 : list Z := [45; 49].

Definition bare_unit (u : list Z) : bool :=
  str_eqb u [110; 115] || str_eqb u [117; 115] || str_eqb u [194; 181; 115] ||
  str_eqb u [109; 115] || str_eqb u [115] || str_eqb u [109] || str_eqb u [104].

(* rateFlag.Set on a rate currently (freq, per); [fixed] = "infinity" stores Freq = 0 *)
Definition rate_set (fixed : bool) (cur : Z * Z) (v : list Z) : option (Z * Z) :=
  if str_eqb v s_infinity then Some (if fixed then (0, snd cur) else cur) else
  let '(a, ob) := splitn2 47 v [] in
  let b := match ob with Some b => b | None => s_1s end in
  match atoi a with
  | None => None
  | Some freq =>
      if freq =? 0 then Some (0, snd cur) else
      let b' := if bare_unit b then 49 :: b else b in
      match parse_duration b' with
      | Some (per, _) => Some (freq, per)
      | None => None
      end
  end.

(* the guard: an unlimited rate demands -max-workers *)
Definition unlimited_guard (rate : Z * Z) : bool := fst rate =? 0.

(* headers.Set: the header map as an association list in insertion order *)
Definition hmap := list (list Z * list (list Z)).
Fixpoint happend (k v : list Z) (h : hmap) : hmap :=
  match h with
  | [] => [(k, [v])]
  | (k', vs) :: tl => if str_eqb k' k then (k', vs ++ [v]) :: tl else (k', vs) :: happend k v tl
  end.
Fixpoint hlookup (k : list Z) (h : hmap) : list (list Z) :=
  match h with
  | [] => []
  | (k', vs) :: tl => if str_eqb k' k then vs else hlookup k tl
  end.

Definition headers_set (h : hmap) (v : list Z) : option hmap :=
  match splitn2 58 v [] with
  | (_, None) => None
  | (k, Some rest) =>
      let k' := trim_space k in let v' := trim_space rest in
      match k', v' with
      | [], _ => None
      | _, [] => None
      | _, _ => Some (happend k' v' h)
      end
  end.

(* datasize.ByteSize.UnmarshalText *)
Definition max_u64 : Z := 18446744073709551615.
Fixpoint ds_digits (s : list Z) (val : Z) (i : nat) : option (Z * list Z * nat) :=
  match s with
  | c :: tl =>
      if is_digit c then
        if max_u64 / 10 <? val then None
        else let v10 := val * 10 in
             if max_u64 <? v10 + (c - 48) then None else ds_digits tl (v10 + (c - 48)) (S i)
      else Some (val, s, i)
  | [] => Some (val, s, i)
  end.
Definition to_lower (c : Z) : Z := if (65 <=? c) && (c <=? 90) then c + 32 else c.
Definition ascii (s : list nat) : list Z := map Z.of_nat s.
Definition unit_shift (u : list Z) : option Z :=
  let is := fun (names : list (list Z)) => existsb (str_eqb u) names in
  if is [[]; [98]; [98; 121; 116; 101]] then Some 0
  else if is [[107]; [107; 98]; [107; 105; 108; 111]; [107; 105; 108; 111; 98; 121; 116; 101]; [107; 105; 108; 111; 98; 121; 116; 101; 115]] then Some 10
  else if is [[109]; [109; 98]; [109; 101; 103; 97]; [109; 101; 103; 97; 98; 121; 116; 101]; [109; 101; 103; 97; 98; 121; 116; 101; 115]] then Some 20
  else if is [[103]; [103; 98]; [103; 105; 103; 97]; [103; 105; 103; 97; 98; 121; 116; 101]; [103; 105; 103; 97; 98; 121; 116; 101; 115]] then Some 30
  else if is [[116]; [116; 98]; [116; 101; 114; 97]; [116; 101; 114; 97; 98; 121; 116; 101]; [116; 101; 114; 97; 98; 121; 116; 101; 115]] then Some 40
  else if is [[112]; [112; 98]; [112; 101; 116; 97]; [112; 101; 116; 97; 98; 121; 116; 101]; [112; 101; 116; 97; 98; 121; 116; 101; 115]] then Some 50
  else if is [[101]; [101; 98]; [101; 120; 97]; [101; 120; 97; 98; 121; 116; 101]; [101; 120; 97; 98; 121; 116; 101; 115]] then Some 60
  else None.
Definition bits_unit (u : list Z) : bool :=
  match u with
  | [c; 98] => existsb (Z.eqb c) [75; 77; 71; 84; 80; 69]     (* Kb Mb Gb Tb Pb Eb *)
  | _ => false
  end.
Definition datasize_parse (t : list Z) : option Z :=
  match ds_digits t 0 0 with
  | None => None
  | Some (_, _ :: _, O) => None                                 (* first byte is not a digit *)
  | Some (val, rest, _) =>
      let unit := trim_space rest in
      if bits_unit unit then None else
      match unit_shift (map to_lower unit) with
      | None => None
      | Some sh => if max_u64 / 2 ^ sh <? val then None else Some (val * 2 ^ sh)
      end
  end.

Definition maxbody_set (v : list Z) : option Z :=
  if str_eqb v s_minus1 then Some (-1) else
  match datasize_parse v with
  | Some n => if two63 - 1 <? n then None else Some n
  | None => None
  end.

Definition dnsttl_set (v : list Z) : option Z :=
  if str_eqb v s_minus1 then Some (-1) else
  match parse_duration v with Some (d, _) => Some d | None => None end.

(* net.SplitHostPort restricted to pieces that contain no colon *)
Definition has_bracket (s : list Z) : bool := existsb (fun c => (c =? 91) || (c =? 93)) s.
Definition valid_host_port (host port : list Z) : bool :=
  negb (has_bracket port) &&
  (negb (has_bracket host) ||
   match host with
   | 91 :: tl => match rev tl with
                 | 93 :: rinner => negb (has_bracket rinner)
                 | _ => false end
   | _ => false
   end).

Definition connect_to_set (m : hmap) (s : list Z) : option hmap :=
  match split_on 58 s [] with
  | [p0; p1; p2; p3] =>
      if valid_host_port p0 p1 && valid_host_port p2 p3
      then Some (happend (p0 ++ 58 :: p1) (p2 ++ 58 :: p3) m) else None
  | _ => None
  end.

(* net.ParseIP for dotted-quad IPv4: four fields of 1..3 digits, value <= 255, no leading zero *)
Definition ipv4_field (f : list Z) : bool :=
  match f with
  | [] => false
  | [d] => is_digit d
  | d :: _ => negb (d =? 48) && (Nat.leb (length f) 3) &&
              match digits_val f 0 with Some v => v <=? 255 | None => false end
  end.
Definition is_ipv4 (h : list Z) : bool :=
  match split_on 46 h [] with
  | [a; b; c; d] => ipv4_field a && ipv4_field b && ipv4_field c && ipv4_field d
  | _ => false
  end.

Definition port_ok (p : list Z) : bool :=
  match p with
  | [] => false
  | _ => match digits_val p 0 with Some v => v <=? 65535 | None => false end
  end.

(* normalizeAddrs on one address without IPv6 syntax: Some normalised, None = rejected *)
Definition normalize_addr (a : list Z) : option (list Z) :=
  let a' := if existsb (Z.eqb 58) a then a else a ++ [58; 53; 51] in
  match split_on 58 a' [] with
  | [host; port] =>
      if negb (has_bracket host) && negb (has_bracket port) && port_ok port && is_ipv4 host
      then Some a' else None
  | _ => None
  end.
