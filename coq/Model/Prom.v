(* Model of lib/prom/prom.go: Metrics.Observe over the Prometheus client.  Label tuples
   (method, url, status) and (method, url, status, message) are identified by integers.
   The Prometheus client itself is library code: it is modelled at the level of what a
   registry exports (a counter vector is a map label -> value with additive update; a
   histogram vector exports per label the sample count, the sum and one cumulative count
   per upper bound).  Latencies are integer nanoseconds, bounds too.  Definitions only. *)
From Coq Require Import ZArith List Bool.
From V Require Import Base.Assoc.
Import ListNotations.
Open Scope Z_scope.

Record pres := { p_label : Z; p_bin : Z; p_bout : Z; p_lat : Z; p_fail : Z (* 0: no error *) }.

(* prometheus.DefBuckets in nanoseconds *)
Definition def_bounds : list Z :=
  [5000000; 10000000; 25000000; 50000000; 100000000; 250000000; 500000000;
   1000000000; 2500000000; 5000000000; 10000000000].

Record hrow := { h_label : Z; h_count : Z; h_sum : Z; h_cum : list Z }.

Fixpoint hist_observe (bounds : list Z) (k lat : Z) (l : list hrow) : list hrow :=
  match l with
  | [] => [ {| h_label := k; h_count := 1; h_sum := lat;
               h_cum := map (fun b => if lat <=? b then 1 else 0) bounds |} ]
  | r :: tl =>
      if h_label r =? k then
        {| h_label := k; h_count := h_count r + 1; h_sum := h_sum r + lat;
           h_cum := map (fun '(b, c) => if lat <=? b then c + 1 else c) (combine bounds (h_cum r)) |} :: tl
      else r :: hist_observe bounds k lat tl
  end.

Fixpoint hist_find (k : Z) (l : list hrow) : option hrow :=
  match l with
  | [] => None
  | r :: tl => if h_label r =? k then Some r else hist_find k tl
  end.

Record pstate := { s_bin : list (Z * Z); s_bout : list (Z * Z); s_hist : list hrow; s_fail : list (Z * Z) }.

Definition pinit : pstate := {| s_bin := []; s_bout := []; s_hist := []; s_fail := [] |}.

(* [fixed = false] is the pinned source: the failure counter child is looked up (created at
   zero) but never incremented. *)
Definition observe_gen (fixed : bool) (bounds : list Z) (s : pstate) (r : pres) : pstate :=
  {| s_bin := upd_add (p_label r) (p_bin r) (s_bin s);
     s_bout := upd_add (p_label r) (p_bout r) (s_bout s);
     s_hist := hist_observe bounds (p_label r) (p_lat r) (s_hist s);
     s_fail := if p_fail r =? 0 then s_fail s
               else upd_add (p_fail r) (if fixed then 1 else 0) (s_fail s) |}.

Definition observe := observe_gen true def_bounds.

(* reference sums *)
Definition with_label (k : Z) (rs : list pres) : list pres := filter (fun r => p_label r =? k) rs.
Definition psum (f : pres -> Z) (rs : list pres) : Z := fold_right Z.add 0 (map f rs).
Definition pcount (f : pres -> bool) (rs : list pres) : Z := Z.of_nat (length (filter f rs)).
