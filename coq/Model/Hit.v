(* Model of Attacker.hit (lib/attack.go:529-618, after the read-fault repair) and
   Target.Request (lib/targets.go:33-54) as a function of the HTTP exchange.  net/http is
   library code: the transport is an oracle (the [exchange]), redirect following is
   modelled only through the vegeta-owned CheckRedirect policy.  Definitions only. *)
From Coq Require Import ZArith List Bool.
From V Require Import Base.Duration Base.Str Model.Flags.
Import ListNotations.
Open Scope Z_scope.

Record target := { t_method : list Z; t_url : list Z; t_header : hmap; t_body : list Z }.

Record config := { c_name : list Z; c_seq : Z; c_maxbody : Z; c_chunked : bool; c_redirects : Z }.

(* what the server side does: [redirects] 3xx hops first, then the final answer *)
Inductive answer :=
| TransportErr
| Response (status : Z) (status_text : list Z) (hdr : hmap) (body : list Z) (fault : option nat).
Record exchange := { x_hops : nat; x_hop_hdr : hmap; x_answer : answer }.

Record request_seen := {
  q_method : list Z; q_url : list Z; q_header : hmap; q_host : option (list Z);
  q_body : list Z; q_content_length : Z; q_chunked : bool }.

Record iolog := { io_read : nat; io_ended : bool (* EOF or the read error was observed *); io_closes : nat }.

Record result := {
  r_method : list Z; r_url : list Z; r_code : Z; r_headers : option hmap; r_body : list Z;
  r_bytes_in : Z; r_bytes_out : Z; r_error : list Z }.

(* http.Header.Set with an already canonical key *)
Fixpoint hset (k v : list Z) (h : hmap) : hmap :=
  match h with
  | [] => [(k, [v])]
  | (k', vs) :: tl => if str_eqb k' k then (k', [v]) :: tl else (k', vs) :: hset k v tl
  end.

Definition k_attack : list Z := [88; 45; 86; 101; 103; 101; 116; 97; 45; 65; 116; 116; 97; 99; 107].
Definition k_seq : list Z := [88; 45; 86; 101; 103; 101; 116; 97; 45; 83; 101; 113].
Definition k_host : list Z := [72; 111; 115; 116].

Definition build_request (t : target) (c : config) : request_seen :=
  let h0 := t_header t in
  let host := match hlookup k_host h0 with
              | v :: _ => match v with [] => None | _ => Some v end
              | [] => None end in
  let h1 := match c_name c with [] => h0 | n => hset k_attack n h0 end in
  let h2 := hset k_seq (itoa (c_seq c)) h1 in
  {| q_method := t_method t; q_url := t_url t; q_header := h2; q_host := host;
     q_body := t_body t; q_content_length := Z.of_nat (length (t_body t)); q_chunked := c_chunked c |}.

(* vegeta's CheckRedirect: policy n, hops k.  NoFollow = -1. *)
Inductive redirect_outcome := UseFirst3xx | TooMany | Followed.
Definition redirect_policy (n : Z) (hops : nat) : redirect_outcome :=
  match hops with
  | O => Followed
  | _ => if n =? -1 then UseFirst3xx
         else if n <? Z.of_nat hops then TooMany else Followed
  end.

Definition s_err : list Z := [101; 114; 114].       (* any non-empty text: the error's message *)

Definition empty_result (t : target) : result :=
  {| r_method := t_method t; r_url := t_url t; r_code := 0; r_headers := None; r_body := [];
     r_bytes_in := 0; r_bytes_out := 0; r_error := [] |}.

Definition no_io : iolog := {| io_read := 0; io_ended := false; io_closes := 0 |}.

(* Reading one response body through LimitReader / ReadAll / drain / deferred Close.
   The stream delivers [avail] bytes and then ends with EOF, or - with [fault = Some k],
   k <= length body - with a read error after k bytes.  ReadAll over the limit reader stops
   at the limit without touching the stream further; the drain reads the rest.  Whichever
   of the two meets the error, the result is the same. *)
Definition consume (t : target) (c : config) (status : Z) (status_text : list Z) (hdr : hmap)
  (body : list Z) (fault : option nat) : iolog * result :=
  let len := length body in
  let faulty := match fault with Some k => Nat.leb k len | None => false end in
  let avail := match fault with Some k => if Nat.leb k len then k else len | None => len end in
  let captured :=
    if c_maxbody c <? 0 then firstn avail body
    else let l := Z.to_nat (c_maxbody c) in
         if Nat.leb l avail then firstn l body else firstn avail body in
  let bout := Z.of_nat (length (t_body t)) in
  if faulty then
    ({| io_read := avail; io_ended := true; io_closes := 1 |},
     {| r_method := t_method t; r_url := t_url t; r_code := 0; r_headers := None;
        r_body := captured; r_bytes_in := Z.of_nat (length captured); r_bytes_out := bout;
        r_error := s_err |})
  else
    ({| io_read := len; io_ended := true; io_closes := 1 |},
     {| r_method := t_method t; r_url := t_url t; r_code := status; r_headers := Some hdr;
        r_body := captured; r_bytes_in := Z.of_nat (length captured); r_bytes_out := bout;
        r_error := if (status <? 200) || (400 <=? status) then status_text else [] |}).

Definition failed (t : target) : result :=
  {| r_method := t_method t; r_url := t_url t; r_code := 0; r_headers := None; r_body := [];
     r_bytes_in := 0; r_bytes_out := 0; r_error := s_err |}.

(* a 3xx hop as delivered under NoFollow *)
Definition hop_status : Z := 302.
Definition hop_text : list Z := [51; 48; 50; 32; 70; 111; 117; 110; 100].

Definition hit_model (t : target) (c : config) (x : exchange) : request_seen * iolog * result :=
  let q := build_request t c in
  match redirect_policy (c_redirects c) (x_hops x) with
  | TooMany => (q, no_io, failed t)
  | UseFirst3xx =>
      let '(io, r) := consume t c hop_status hop_text (x_hop_hdr x) [] None in (q, io, r)
  | Followed =>
      match x_answer x with
      | TransportErr => (q, no_io, failed t)
      | Response st txt hdr body fault =>
          let '(io, r) := consume t c st txt hdr body fault in (q, io, r)
      end
  end.
