(* The two shapes of Attacker.Stop, as interleavings of n callers.
   pinned:  select { case <-stopch: return false; default: stopOnce.Do(close(stopch)); return true }
   fixed :  stopOnce.Do(func() { close(stopch); stopped = true }); return stopped
   Definitions only. *)
From Coq Require Import List Bool Arith.
Import ListNotations.

Inductive phase := Start | InDefault | Ret (b : bool).

Record sst := { closed : bool; callers : list phase }.

Fixpoint set_nth (i : nat) (p : phase) (l : list phase) : list phase :=
  match l, i with
  | [], _ => []
  | _ :: tl, O => p :: tl
  | x :: tl, S k => x :: set_nth k p tl
  end.

(* one scheduling step of caller i *)
Definition pinned_step (s : sst) (i : nat) : option sst :=
  match nth_error (callers s) i with
  | Some Start =>
      Some {| closed := closed s;
              callers := set_nth i (if closed s then Ret false else InDefault) (callers s) |}
  | Some InDefault => Some {| closed := true; callers := set_nth i (Ret true) (callers s) |}
  | _ => None
  end.

Definition fixed_step (s : sst) (i : nat) : option sst :=
  match nth_error (callers s) i with
  | Some Start => Some {| closed := true; callers := set_nth i (Ret (negb (closed s))) (callers s) |}
  | _ => None
  end.

Fixpoint sched (step : sst -> nat -> option sst) (s : sst) (is : list nat) : option sst :=
  match is with
  | [] => Some s
  | i :: tl => match step s i with Some s' => sched step s' tl | None => None end
  end.

Definition trues (s : sst) : nat :=
  length (filter (fun p => match p with Ret true => true | _ => false end) (callers s)).
Definition all_returned (s : sst) : bool :=
  forallb (fun p => match p with Ret _ => true | _ => false end) (callers s).
Definition start_state (n : nat) : sst := {| closed := false; callers := repeat Start n |}.
