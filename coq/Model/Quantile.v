(* Latency percentiles (lib/metrics.go:110-114,166-201 over influxdata/tdigest v0.0.1,
   lib/reporters.go:141-261).  The digest *query* Quantile(q) as an exact function over Q of a
   digest state (processed centroids, min, max), mirroring its three branches, the search over
   the cumulative weights and weightedAverage with its swap and clamp - including the last
   branch exactly as written (z1 = index - W - w/2).  [process] re-merges a mean-sorted list of
   centroids into groups chosen by an ARBITRARY policy (the sin/asin scale function of the real
   digest is one such policy and never enters).  Float rounding inside the digest is not
   modelled (the tie compares inside a guard band).  Definitions only. *)
From Coq Require Import QArith Qminmax Qround List Bool ZArith.
Import ListNotations.
Open Scope Q_scope.

Record cen := { cm : Q; cw : Q }.
Record digest := { dcs : list cen; dmin : Q; dmax : Q }.

Definition total (cs : list cen) : Q := fold_right (fun c a => cw c + a) 0 cs.

Definition clamp (x lo hi : Q) : Q := Qmax lo (Qmin x hi).
Definition wavg_sorted (x1 w1 x2 w2 : Q) : Q := clamp ((x1 * w1 + x2 * w2) / (w1 + w2)) x1 x2.
Definition wavg (x1 w1 x2 w2 : Q) : Q :=
  if Qle_bool x1 x2 then wavg_sorted x1 w1 x2 w2 else wavg_sorted x2 w2 x1 w1.

(* prev = c_{i-1}; cprev = cumulative[i-1]; before = w_0 + .. + w_{i-1}; rest = c_i .. *)
Fixpoint walk (prev : cen) (cprev before : Q) (rest : list cen) (W index mx : Q) : Q :=
  match rest with
  | [] => let z1 := index - W - cw prev / 2 in
          let z2 := cw prev / 2 - z1 in
          wavg (cm prev) z1 mx z2
  | c :: tl =>
      let ccur := before + cw c / 2 in
      if Qle_bool index ccur then wavg (cm prev) (ccur - index) (cm c) (index - cprev)
      else walk c ccur (before + cw c) tl W index mx
  end.

(* None = NaN *)
Definition quantile (q : Q) (d : digest) : option Q :=
  if Qle_bool 0 q && Qle_bool q 1 then
    match dcs d with
    | [] => None
    | [c] => Some (cm c)
    | c0 :: rest =>
        let W := total (dcs d) in
        let index := q * W in
        if Qle_bool index (cw c0 / 2) then Some (dmin d + 2 * index / cw c0 * (cm c0 - dmin d))
        else Some (walk c0 (cw c0 / 2) (cw c0) rest W index (dmax d))
    end
  else None.

(* the state invariant the real digest maintains (in exact arithmetic) *)
Fixpoint sorted_from (m : Q) (cs : list cen) : Prop :=
  match cs with [] => True | c :: tl => m <= cm c /\ sorted_from (cm c) tl end.
Fixpoint last_mean (m : Q) (cs : list cen) : Q := match cs with [] => m | c :: tl => last_mean (cm c) tl end.
Definition Inv (d : digest) : Prop :=
  Forall (fun c => 0 < cw c) (dcs d) /\
  match dcs d with
  | [] => True
  | c0 :: tl => dmin d <= cm c0 /\ sorted_from (cm c0) tl /\ last_mean (cm c0) tl <= dmax d
  end.

(* ---- process(): re-merge a mean-sorted list under an arbitrary policy ---------------------------- *)
(* Centroid.Add in exact arithmetic *)
Definition cadd (c r : cen) : cen :=
  {| cm := cm c + cw r * (cm r - cm c) / (cw c + cw r); cw := cw c + cw r |}.

(* policy: given the group built so far and the next centroid, merge (true) or start a new group *)
Fixpoint regroup (policy : cen -> cen -> nat -> bool) (cur : cen) (rest : list cen) (k : nat) : list cen :=
  match rest with
  | [] => [cur]
  | c :: tl => if policy cur c k then regroup policy (cadd cur c) tl (S k)
               else cur :: regroup policy c tl (S k)
  end.

Definition process (policy : cen -> cen -> nat -> bool) (sorted_all : list cen) (d : digest) : digest :=
  match sorted_all with
  | [] => d
  | c0 :: tl =>
      let cs := regroup policy c0 tl 0 in
      {| dcs := cs; dmin := Qmin (dmin d) (cm (hd c0 cs)); dmax := Qmax (dmax d) (last_mean (cm c0) cs) |}
  end.

(* Metrics.Close: time.Duration(float) truncates toward zero *)
Definition qtrunc (x : Q) : Z := if Qle_bool 0 x then Qfloor x else Qceiling x.
