(* Model of lib/plot: labeledSeries.add (re-ordering buffer), timeSeries.add, Plot.data rows,
   and of lib/lttb.Downsample over a chunk iterator.  go-tsz (the compressed series) is
   assumed lossless; the triangle-area selection of LTTB is an oracle (any point of the
   current bucket).  Definitions only. *)
From Coq Require Import ZArith List Bool.
Import ListNotations.
Open Scope Z_scope.

Record pres := { p_seq : Z; p_ts : Z; p_lat : Z; p_err : bool }.

(* a released point: label (true = ERROR), x in ms since the first request, latency in ns *)
Definition point := (bool * Z * Z)%type.

Record ls := { l_began : Z; l_next : Z; l_buf : list pres; l_rel : list point; l_err : bool }.
Definition ls0 : ls := {| l_began := 0; l_next := 0; l_buf := []; l_rel := []; l_err := false |}.

(* the map assignment ls.buf[p.seq] = p *)
Fixpoint buf_put (r : pres) (b : list pres) : list pres :=
  match b with
  | [] => [r]
  | x :: tl => if p_seq x =? p_seq r then r :: tl else x :: buf_put r tl
  end.
Fixpoint buf_take (k : Z) (b : list pres) : option (pres * list pres) :=
  match b with
  | [] => None
  | x :: tl => if p_seq x =? k then Some (x, tl)
               else match buf_take k tl with Some (r, tl') => Some (r, x :: tl') | None => None end
  end.

Definition two64 : Z := 18446744073709551616.

(* last x of the series with this label (timeSeries.prev) *)
Fixpoint last_x (lab : bool) (rel : list point) : Z :=
  match rel with
  | [] => 0
  | (l, x, _) :: tl => let r := last_x lab tl in
                       if Bool.eqb l lab then (match tl with _ => if existsb (fun q => Bool.eqb (fst (fst q)) lab) tl then r else x end) else r
  end.

(* rel is kept in release order (oldest first) *)
Definition prev_of (lab : bool) (rel : list point) : Z :=
  match filter (fun q => Bool.eqb (fst (fst q)) lab) (rev rel) with
  | (_, x, _) :: _ => x
  | [] => 0
  end.

Fixpoint drain (fuel : nat) (s : ls) : ls :=
  match fuel with
  | O => s
  | S f =>
      if l_err s then s else
      match buf_take (l_next s) (l_buf s) with
      | None => s
      | Some (r, b') =>
          let x := ((p_ts r - l_began s) mod two64) / 1000000 in       (* uint64(t.Sub(began))/1e6 *)
          if x <? prev_of (p_err r) (l_rel s)
          then {| l_began := l_began s; l_next := l_next s; l_buf := b'; l_rel := l_rel s; l_err := true |}
          else drain f {| l_began := l_began s; l_next := l_next s + 1; l_buf := b';
                          l_rel := l_rel s ++ [(p_err r, x, p_lat r)]; l_err := false |}
      end
  end.

Definition ls_add (s : ls) (r : pres) : ls :=
  if l_err s then s else
  let b := buf_put r (l_buf s) in
  if negb (p_seq r =? l_next s) then
    {| l_began := l_began s; l_next := l_next s; l_buf := b; l_rel := l_rel s; l_err := false |}
  else
    let began := if l_next s =? 0 then p_ts r else l_began s in
    drain (S (length b)) {| l_began := began; l_next := l_next s; l_buf := b; l_rel := l_rel s; l_err := false |}.

Definition ls_adds (rs : list pres) : ls := fold_left ls_add rs ls0.

(* the points a result set should produce: in sequence order, x relative to the first request *)
Definition expected_points (sorted : list pres) : list point :=
  match sorted with
  | [] => []
  | r0 :: _ => map (fun r => (p_err r, (p_ts r - p_ts r0) / 1000000, p_lat r)) sorted
  end.

(* rows of Plot.data: all points sorted by x (insertion sort; the code's sort is not stable,
   rows with equal x are compared as a multiset by the harness) *)
Fixpoint insert_row (p : point) (l : list point) : list point :=
  match l with
  | [] => [p]
  | q :: tl => if snd (fst p) <=? snd (fst q) then p :: l else q :: insert_row p tl
  end.
Definition rows (ps : list point) : list point := fold_right insert_row [] ps.

(* ---- LTTB ---------------------------------------------------------------------------------- *)
(* bucket bounds with exact rational size (count-2)/(threshold-2) *)
Definition lo_bound (count th i : Z) : Z := ((i + 1) * (count - 2)) / (th - 2) + 1.

Inductive lttb_out := LPoints (idx : list Z) | LErr | LPanic.

(* the chunk sizes Downsample asks its iterator for, in order *)
Definition chunk_sizes (count th : Z) : list Z :=
  if (count <=? th) || (th =? 0) then [count]
  else if th <? 3 then []
  else (1 + (count - 2) / (th - 2))
       :: map (fun i => lo_bound count th (i + 1) - lo_bound count th i) (map Z.of_nat (seq 0 (Z.to_nat (th - 2))))
       ++ [count - (th - 1)].

(* Downsample over point indices 0..count-1; [pick i lo hi] is the oracle's choice in bucket i,
   which the model only requires to lie in the current bucket [lo, hi) *)
(* current bucket of iteration i: points[1 : 1+floor(size)] first, then [lo(i-1), lo(i)) *)
Definition bucket (count th i : Z) : Z * Z :=
  if i =? 0 then (1, 1 + (count - 2) / (th - 2)) else (lo_bound count th (i - 1), lo_bound count th i).

Definition downsample (count th : Z) (pick : Z -> Z -> Z -> Z) : lttb_out :=
  if (count <=? th) || (th =? 0) then LPoints (map Z.of_nat (seq 0 (Z.to_nat count)))
  else if th <? 3 then LErr
  else
    let buckets := map Z.of_nat (seq 0 (Z.to_nat (th - 2))) in
    if existsb (fun i => let '(l, h) := bucket count th i in h <=? l) buckets then LPanic   (* current[index] on an empty bucket *)
    else LPoints (0 :: map (fun i => let '(l, h) := bucket count th i in pick i l h) buckets ++ [count - 1]).
