(* Model of lib/metrics.go: Metrics.Add, Metrics.Close, LatencyMetrics.Add (percentiles are
   C11).  Instants are Z nanoseconds; the Go zero time.Time ("unset") is None.  Error texts
   and status codes are identified by integers (0 = empty error text).  Rational fields are
   (numerator, denominator) pairs with positive denominator.  Definitions only. *)
From Coq Require Import ZArith List Bool.
Import ListNotations.
Open Scope Z_scope.

Record result := { r_code : Z; r_ts : Z; r_lat : Z; r_bout : Z; r_bin : Z; r_err : Z }.

Definition two64 : Z := 18446744073709551616.
Definition wrap64u (x : Z) : Z := x mod two64.
Definition wrap64s (x : Z) : Z := (x + two64 / 2) mod two64 - two64 / 2.

Fixpoint bump (c : Z) (l : list (Z * Z)) : list (Z * Z) :=
  match l with
  | [] => [(c, 1)]
  | (k, v) :: tl => if k =? c then (k, v + 1) :: tl else (k, v) :: bump c tl
  end.
Fixpoint lookup (c : Z) (l : list (Z * Z)) : Z :=
  match l with
  | [] => 0
  | (k, v) :: tl => if k =? c then v else lookup c tl
  end.

Fixpoint memz (x : Z) (l : list Z) : bool :=
  match l with [] => false | y :: tl => (x =? y) || memz x tl end.

Record derived := {
  d_rate : Z * Z; d_throughput : Z * Z; d_duration : Z; d_wait : Z;
  d_bin_mean : Z * Z; d_bout_mean : Z * Z; d_success : Z * Z; d_lat_mean : Z * Z }.

Definition derived0 : derived :=
  {| d_rate := (0, 1); d_throughput := (0, 1); d_duration := 0; d_wait := 0;
     d_bin_mean := (0, 1); d_bout_mean := (0, 1); d_success := (0, 1); d_lat_mean := (0, 1) |}.

Record metrics := {
  m_requests : Z; m_codes : list (Z * Z); m_bin : Z; m_bout : Z;
  m_ltotal : Z; m_lmax : Z; m_lmin : Z; m_lseen : bool;
  m_earliest : option Z; m_latest : option Z; m_end : option Z;
  m_success : Z; m_errors : list Z;
  m_derived : derived }.

Definition init : metrics :=
  {| m_requests := 0; m_codes := []; m_bin := 0; m_bout := 0;
     m_ltotal := 0; m_lmax := 0; m_lmin := 0; m_lseen := false;
     m_earliest := None; m_latest := None; m_end := None;
     m_success := 0; m_errors := []; m_derived := derived0 |}.

(* [fixed] selects the repaired LatencyMetrics.Add (first sample initialises Min); with
   [fixed = false] it is the pinned code's `latency < Min || Min == 0`. *)
Definition min_step (fixed : bool) (seen : bool) (cur lat : Z) : Z :=
  if fixed then (if negb seen || (lat <? cur) then lat else cur)
  else (if (lat <? cur) || (cur =? 0) then lat else cur).

Definition add_gen (fixed : bool) (m : metrics) (r : result) : metrics :=
  let ts := r_ts r in
  let en := r_ts r + r_lat r in
  {| m_requests := wrap64u (m_requests m + 1);
     m_codes := bump (r_code r) (m_codes m);
     m_bin := wrap64u (m_bin m + r_bin r);
     m_bout := wrap64u (m_bout m + r_bout r);
     m_ltotal := wrap64s (m_ltotal m + r_lat r);
     m_lmax := if m_lmax m <? r_lat r then r_lat r else m_lmax m;
     m_lmin := min_step fixed (m_lseen m) (m_lmin m) (r_lat r);
     m_lseen := true;
     m_earliest := match m_earliest m with
                   | None => Some ts
                   | Some e => if ts <? e then Some ts else Some e end;
     m_latest := match m_latest m with
                 | None => Some ts
                 | Some l => if l <? ts then Some ts else Some l end;
     m_end := match m_end m with
              | None => Some en
              | Some l => if l <? en then Some en else Some l end;
     m_success := if (200 <=? r_code r) && (r_code r <? 400) then m_success m + 1 else m_success m;
     m_errors := if r_err r =? 0 then m_errors m
                 else if memz (r_err r) (m_errors m) then m_errors m
                 else m_errors m ++ [r_err r];
     m_derived := m_derived m |}.

Definition add := add_gen true.

Definition oz (o : option Z) : Z := match o with Some x => x | None => 0 end.

Definition with_derived (m : metrics) (d : derived) : metrics :=
  {| m_requests := m_requests m; m_codes := m_codes m; m_bin := m_bin m; m_bout := m_bout m;
     m_ltotal := m_ltotal m; m_lmax := m_lmax m; m_lmin := m_lmin m; m_lseen := m_lseen m;
     m_earliest := m_earliest m; m_latest := m_latest m; m_end := m_end m;
     m_success := m_success m; m_errors := m_errors m; m_derived := d |}.

Definition compute_derived (m : metrics) : derived :=
  let dur := oz (m_latest m) - oz (m_earliest m) in
  let wait := oz (m_end m) - oz (m_latest m) in
  {| d_rate := if 0 <? dur then (m_requests m * 1000000000, dur) else (m_requests m, 1);
     d_throughput := if 0 <? dur then (m_success m * 1000000000, dur + wait) else (m_success m, 1);
     d_duration := dur; d_wait := wait;
     d_bin_mean := (m_bin m, m_requests m);
     d_bout_mean := (m_bout m, m_requests m);
     d_success := (m_success m, m_requests m);
     d_lat_mean := (m_ltotal m, m_requests m) |}.

(* Close: nothing when no request was added, otherwise only the derived fields are written *)
Definition close (m : metrics) : metrics :=
  if m_requests m =? 0 then m else with_derived m (compute_derived m).

Inductive op := OAdd (r : result) | OClose.

Definition step (m : metrics) (o : op) : metrics :=
  match o with OAdd r => add m r | OClose => close m end.
Definition run (ops : list op) (m : metrics) : metrics := fold_left step ops m.
Fixpoint adds (ops : list op) : list result :=
  match ops with
  | [] => []
  | OAdd r :: tl => r :: adds tl
  | OClose :: tl => adds tl
  end.

(* ---- reference computation, written from the documented field meanings --------- *)

Definition zmin_list (d : Z) (l : list Z) : Z := fold_left Z.min l d.
Definition zmax_list (d : Z) (l : list Z) : Z := fold_left Z.max l d.
Definition zsum (l : list Z) : Z := fold_right Z.add 0 l.

Definition ref_requests (rs : list result) : Z := Z.of_nat (length rs).
Definition ref_code (rs : list result) (c : Z) : Z :=
  Z.of_nat (length (filter (fun r => r_code r =? c) rs)).
Definition ref_bin rs := zsum (map r_bin rs).
Definition ref_bout rs := zsum (map r_bout rs).
Definition ref_ltotal rs := zsum (map r_lat rs).
Definition ref_lmin (rs : list result) : Z :=
  match rs with [] => 0 | r :: tl => zmin_list (r_lat r) (map r_lat tl) end.
Definition ref_lmax (rs : list result) : Z :=
  match rs with [] => 0 | r :: tl => zmax_list (r_lat r) (map r_lat tl) end.
Definition ref_earliest (rs : list result) : option Z :=
  match rs with [] => None | r :: tl => Some (zmin_list (r_ts r) (map r_ts tl)) end.
Definition ref_latest (rs : list result) : option Z :=
  match rs with [] => None | r :: tl => Some (zmax_list (r_ts r) (map r_ts tl)) end.
Definition r_end (r : result) : Z := r_ts r + r_lat r.
Definition ref_end (rs : list result) : option Z :=
  match rs with [] => None | r :: tl => Some (zmax_list (r_end r) (map r_end tl)) end.
Definition is_success (r : result) : bool := (200 <=? r_code r) && (r_code r <? 400).
Definition ref_success rs : Z := Z.of_nat (length (filter is_success rs)).
Definition ref_has_error (rs : list result) (e : Z) : Prop :=
  e <> 0 /\ exists r, In r rs /\ r_err r = e.

Definition ref_derived (rs : list result) : derived :=
  match rs with
  | [] => derived0
  | _ =>
    let dur := oz (ref_latest rs) - oz (ref_earliest rs) in
    let wait := oz (ref_end rs) - oz (ref_latest rs) in
    {| d_rate := if 0 <? dur then (ref_requests rs * 1000000000, dur) else (ref_requests rs, 1);
       d_throughput := if 0 <? dur then (ref_success rs * 1000000000, dur + wait) else (ref_success rs, 1);
       d_duration := dur; d_wait := wait;
       d_bin_mean := (ref_bin rs, ref_requests rs);
       d_bout_mean := (ref_bout rs, ref_requests rs);
       d_success := (ref_success rs, ref_requests rs);
       d_lat_mean := (ref_ltotal rs, ref_requests rs) |}
  end.

(* the domain of the property: non-negative quantities and sums that fit the counters *)
Definition result_ok (r : result) : Prop :=
  0 <= r_lat r /\ 0 <= r_bin r /\ 0 <= r_bout r.
Definition no_overflow (rs : list result) : Prop :=
  Forall result_ok rs /\
  ref_requests rs < two64 /\ ref_bin rs < two64 /\ ref_bout rs < two64 /\ ref_ltotal rs < two64 / 2.
