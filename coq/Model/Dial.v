(* Model of the dial functions installed by DNSCaching and ConnectTo (lib/attack.go:281-432)
   and of the custom resolver's rotation (internal/resolver/resolver.go:72-78).
   An address is (id, is_v4).  The random shuffle is an oracle permutation.  Definitions only. *)
From Coq Require Import ZArith List Bool Arith Permutation.
Import ListNotations.

Definition addr := (Z * bool)%type.

(* firstOfEachIPFamily: the first address, then the first later one of the other family *)
Definition first_of_each (ips : list addr) : list addr :=
  match ips with
  | [] => []
  | x :: tl =>
      x :: match find (fun y => negb (Bool.eqb (snd y) (snd x))) tl with
           | Some y => [y]
           | None => []
           end
  end.

(* the repaired dial: works on a copy of the cached slice, so the cache is what it was *)
Definition dial_fixed (cache shuffled : list addr) : list addr * list addr :=
  (first_of_each shuffled, cache).

(* the pinned dial: shuffles the cache's own array and compacts into ips[:0] in place;
   the array afterwards is the selected addresses followed by the untouched tail *)
Definition dial_pinned (shuffled : list addr) : list addr * list addr :=
  let each := first_of_each shuffled in
  (each, each ++ skipn (length each) shuffled).

(* rotation by an atomic fetch-and-add counter: the n-th call (n = 1, 2, ...) gets value n *)
Definition rot_index (k n : nat) : nat := n mod k.
Definition rot_draws (k : nat) (first n : nat) : list nat := map (fun i => i mod k) (seq first n).
