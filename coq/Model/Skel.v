(* Concurrency skeletons regenerated from the Go source by harness/cmd/skel (translator, T2)
   and the static checkers whose soundness is proved in Proofs/SkelProofs.v.
   A skeleton is the ordered list of the synchronisation-relevant actions of one function
   body (branches flattened conservatively).  Mutexes and shared variables are numbered by
   the translator.  Any number of threads execute the same skeleton concurrently under a
   sequentially consistent interleaving semantics.  Definitions only. *)
From Coq Require Import ZArith List Bool.
Import ListNotations.
Open Scope Z_scope.

Inductive act :=
| ALock (m : Z) | AUnlock (m : Z)
| ARead (v : Z) | AWrite (v : Z) | AAtomic (v : Z)
| AClock            (* the clock read that defines the result's timestamp *)
| ASeqRead          (* res.Seq = atk.seq *)
| ASeqInc           (* atk.seq++ *)
| AOther.

Definition skel := list act.

Fixpoint memz (x : Z) (l : list Z) : bool :=
  match l with [] => false | y :: tl => (x =? y) || memz x tl end.
Fixpoint removez (x : Z) (l : list Z) : list Z :=
  match l with [] => [] | y :: tl => if x =? y then tl else y :: removez x tl end.

(* mutexes held after executing the prefix (by one thread, alone) *)
Definition held_step (h : list Z) (a : act) : list Z :=
  match a with ALock m => m :: h | AUnlock m => removez m h | _ => h end.
Definition held_after (p : skel) : list Z := fold_left held_step p [].
Definition held_at (p : skel) (i : nat) : list Z := held_after (firstn i p).

(* well bracketed: never locks a mutex it holds, never unlocks one it does not hold *)
Fixpoint wb (h : list Z) (p : skel) : bool :=
  match p with
  | [] => true
  | ALock m :: tl => negb (memz m h) && wb (m :: h) tl
  | AUnlock m :: tl => memz m h && wb (removez m h) tl
  | _ :: tl => wb h tl
  end.

Definition accesses (a : act) (v : Z) : bool :=
  match a with ARead x | AWrite x => x =? v | _ => false end.
Definition writes (a : act) (v : Z) : bool := match a with AWrite x => x =? v | _ => false end.

Definition written_vars (p : skel) : list Z :=
  flat_map (fun a => match a with AWrite v => [v] | _ => [] end) p.
Definition mutexes (p : skel) : list Z :=
  flat_map (fun a => match a with ALock m => [m] | _ => [] end) p.

(* every plain access to v happens while holding m *)
Fixpoint guarded_by_aux (v m : Z) (h : list Z) (p : skel) : bool :=
  match p with
  | [] => true
  | a :: tl => (negb (accesses a v) || memz m h) && guarded_by_aux v m (held_step h a) tl
  end.
Definition guarded_by (p : skel) (v m : Z) : bool := guarded_by_aux v m [] p.

Definition lockset_ok (p : skel) : bool :=
  wb [] p && forallb (fun v => existsb (guarded_by p v) (mutexes p)) (written_vars p).

(* ---- interleaving semantics ------------------------------------------------------------ *)
Record cstate := { pcs : list nat; holder : list (Z * nat) }.   (* mutex -> thread holding it *)

Fixpoint hlook (m : Z) (h : list (Z * nat)) : option nat :=
  match h with [] => None | (k, t) :: tl => if k =? m then Some t else hlook m tl end.
Fixpoint hdel (m : Z) (h : list (Z * nat)) : list (Z * nat) :=
  match h with [] => [] | (k, t) :: tl => if k =? m then tl else (k, t) :: hdel m tl end.

Fixpoint set_nth (i : nat) (x : nat) (l : list nat) : list nat :=
  match l, i with
  | [], _ => []
  | _ :: tl, O => x :: tl
  | y :: tl, S k => y :: set_nth k x tl
  end.

Definition cstep (p : skel) (s : cstate) (t : nat) : option cstate :=
  match nth_error (pcs s) t with
  | None => None
  | Some pc =>
      match nth_error p pc with
      | None => None                                               (* thread finished *)
      | Some (ALock m) =>
          match hlook m (holder s) with
          | None => Some {| pcs := set_nth t (S pc) (pcs s); holder := (m, t) :: holder s |}
          | Some _ => None                                         (* blocked *)
          end
      | Some (AUnlock m) =>
          match hlook m (holder s) with
          | Some t' => if Nat.eqb t' t
                       then Some {| pcs := set_nth t (S pc) (pcs s); holder := hdel m (holder s) |}
                       else None
          | None => None
          end
      | Some _ => Some {| pcs := set_nth t (S pc) (pcs s); holder := holder s |}
      end
  end.

Fixpoint crun (p : skel) (s : cstate) (sched : list nat) : option cstate :=
  match sched with
  | [] => Some s
  | t :: tl => match cstep p s t with Some s' => crun p s' tl | None => None end
  end.

Definition cinit (n : nat) : cstate := {| pcs := repeat O n; holder := [] |}.

(* two distinct threads are both about to access v, one of them writing, non-atomically *)
Definition race_on (p : skel) (s : cstate) (v : Z) : Prop :=
  exists t1 t2 pc1 pc2 a1 a2, t1 <> t2 /\
    nth_error (pcs s) t1 = Some pc1 /\ nth_error (pcs s) t2 = Some pc2 /\
    nth_error p pc1 = Some a1 /\ nth_error p pc2 = Some a2 /\
    accesses a1 v = true /\ accesses a2 v = true /\ (writes a1 v = true \/ writes a2 v = true).

(* ---- the timestamp / sequence-number section (C05) ------------------------------------- *)
Definition special (a : act) : Z :=
  match a with AClock => 1 | ASeqRead => 2 | ASeqInc => 3 | _ => 0 end.

(* for every special action: its kind, whether m is held there, and how many times m has been
   locked so far (which section instance it lies in) *)
Fixpoint scan (m : Z) (h : list Z) (sec : nat) (p : skel) : list (Z * bool * nat) :=
  match p with
  | [] => []
  | a :: tl =>
      let sec' := match a with ALock x => if x =? m then S sec else sec | _ => sec end in
      let rest := scan m (held_step h a) sec' tl in
      if special a =? 0 then rest else (special a, memz m h, sec) :: rest
  end.

(* the clock read that defines the timestamp, the read of the sequence number and its
   increment occur exactly once each, in this order, inside one and the same Lock m ..
   Unlock m section *)
Definition section_of (p : skel) (m : Z) : bool :=
  match scan m [] 0 p with
  | [(k1, b1, a); (k2, b2, b); (k3, b3, c)] =>
      (k1 =? 1) && b1 && (k2 =? 2) && b2 && (k3 =? 3) && b3 && Nat.eqb a b && Nat.eqb b c
  | _ => false
  end.
Definition same_section_ok (p : skel) : bool := wb [] p && existsb (section_of p) (mutexes p).
