// Command skel is the source-to-model translator (T2): it reads lib/attack.go and
// lib/targets.go and internal/resolver/resolver.go of the tree given by -repo and prints
// coq/Gen/Skel.v: for seven function bodies the ordered list of their
// synchronisation-relevant actions (lock/unlock, plain and atomic accesses to variables that
// are shared between concurrent executions of the body, the clock read and the
// sequence-number accesses of hit).  Branches and loops are flattened conservatively: every
// action of every branch appears once, in source order.  It works on syntax only (go/ast
// with the parser's object resolution); what it treats as shared is documented below and is
// part of the trusted base.
package main

import (
	"flag"
	"fmt"
	"go/ast"
	"go/parser"
	"go/token"
	"os"
	"path/filepath"
	"sort"
	"strings"
)

type action struct {
	kind string // Lock Unlock Read Write Atomic Clock SeqRead SeqInc Other
	name string
}

type ctx struct {
	fset     *token.FileSet
	outer    ast.Node          // the enclosing function declaration
	lit      ast.Node          // the function literal / declaration whose body is one concurrent execution
	shared   map[string]bool   // extra shared roots (receiver and pointer parameters of methods)
	tainted  map[string]string // local variable -> name of the shared object it aliases
	acts     []action
	deferred []action
	isHit    bool
}

// methods that only read / are safe for concurrent use on the shared objects vegeta uses them on
var safeMethods = map[string]bool{
	"Do": true, "LookupHost": true, "DialContext": true, "Done": true, "Err": false, "Get": true,
	// value-receiver methods of time.Time / time.Duration
	"Add": true, "Sub": true, "Equal": true, "Before": true, "After": true, "Seconds": true, "Nanoseconds": true, "UnixNano": true,
}

// methods known to mutate their receiver (not safe for concurrent use)
var mutatingMethods = map[string]bool{
	"Scan": true, "Text": true, "Peek": true, "Err": true, "ReadBytes": true, "ReadString": true, "Read": true,
	"Shuffle": true, "Intn": true, "Int63": true, "Int": true, "Seed": true, "Perm": true,
}

func (c *ctx) emit(kind, name string) { c.acts = append(c.acts, action{kind, name}) }

// isCaptured reports whether id is a variable declared outside the concurrent body (a free
// variable of the closure) or one of the configured shared roots.
func (c *ctx) isCaptured(id *ast.Ident) bool {
	if id == nil || id.Name == "_" {
		return false
	}
	if c.shared[id.Name] {
		return true
	}
	if id.Obj == nil || id.Obj.Kind != ast.Var {
		return false
	}
	pos := id.Obj.Pos()
	if c.outer != nil && !(pos >= c.outer.Pos() && pos <= c.outer.End()) {
		return false // package-level declaration
	}
	return !(pos >= c.lit.Pos() && pos <= c.lit.End())
}

// root returns the leftmost identifier of a selector/index/slice/star/paren chain and a
// printable path.
func root(e ast.Expr) (*ast.Ident, string) {
	switch x := e.(type) {
	case *ast.Ident:
		return x, x.Name
	case *ast.SelectorExpr:
		r, p := root(x.X)
		return r, p + "." + x.Sel.Name
	case *ast.IndexExpr:
		r, p := root(x.X)
		return r, p + "[]"
	case *ast.SliceExpr:
		r, p := root(x.X)
		return r, p
	case *ast.StarExpr:
		return root(x.X)
	case *ast.ParenExpr:
		return root(x.X)
	case *ast.UnaryExpr:
		return root(x.X)
	case *ast.CallExpr:
		// value returned by a method of a shared object: aliases that object's state
		if s, ok := x.Fun.(*ast.SelectorExpr); ok {
			r, p := root(s.X)
			return r, p + "." + s.Sel.Name + "()"
		}
	}
	return nil, ""
}

// sharedName returns the name of the shared object an expression denotes ("" if local).
func (c *ctx) sharedName(e ast.Expr) string {
	r, p := root(e)
	if r == nil {
		return ""
	}
	if t, ok := c.tainted[r.Name]; ok && r.Obj != nil && !c.isCaptured(r) {
		return t + strings.TrimPrefix(p, r.Name)
	}
	if c.isCaptured(r) {
		return p
	}
	return ""
}

func isFresh(e ast.Expr) bool {
	// append([]T(nil), x...), append([]T{}, x...), make(...), composite literals, slices.Clone(x)
	call, ok := e.(*ast.CallExpr)
	if !ok {
		_, lit := e.(*ast.CompositeLit)
		return lit
	}
	if id, ok := call.Fun.(*ast.Ident); ok {
		switch id.Name {
		case "make", "new":
			return true
		case "append":
			if len(call.Args) > 0 {
				switch a := call.Args[0].(type) {
				case *ast.CallExpr: // []T(nil)
					if _, isArr := a.Fun.(*ast.ArrayType); isArr {
						return true
					}
				case *ast.CompositeLit:
					return len(a.Elts) == 0
				}
			}
		}
	}
	if s, ok := call.Fun.(*ast.SelectorExpr); ok && s.Sel.Name == "Clone" {
		return true
	}
	return false
}

func (c *ctx) expr(e ast.Expr) {
	switch x := e.(type) {
	case nil:
	case *ast.CallExpr:
		c.call(x)
	case *ast.FuncLit:
		c.block(x.Body) // nested closures run inside this execution: inline
	case *ast.Ident:
		if c.isCaptured(x) {
			c.emit("Read", x.Name)
		}
	case *ast.SelectorExpr, *ast.IndexExpr, *ast.SliceExpr, *ast.StarExpr:
		if n := c.sharedName(x); n != "" {
			c.emit("Read", n)
		}
		if ix, ok := x.(*ast.IndexExpr); ok {
			c.expr(ix.Index)
		}
	case *ast.BinaryExpr:
		c.expr(x.X)
		c.expr(x.Y)
	case *ast.UnaryExpr:
		if x.Op == token.ARROW { // channel receive: synchronisation, not a data access
			return
		}
		c.expr(x.X)
	case *ast.ParenExpr:
		c.expr(x.X)
	case *ast.CompositeLit:
		for _, el := range x.Elts {
			c.expr(el)
		}
	case *ast.KeyValueExpr:
		c.expr(x.Value)
	case *ast.TypeAssertExpr:
		c.expr(x.X)
	}
}

func (c *ctx) call(x *ast.CallExpr) {
	if sel, ok := x.Fun.(*ast.SelectorExpr); ok {
		recvRoot, recvPath := root(sel.X)
		m := sel.Sel.Name
		// sync primitives
		switch m {
		case "Lock", "RLock":
			if n := c.sharedName(sel.X); n != "" || recvRoot != nil {
				if n == "" {
					n = recvPath
				}
				c.emit("Lock", n)
				return
			}
		case "Unlock", "RUnlock":
			n := c.sharedName(sel.X)
			if n == "" {
				n = recvPath
			}
			c.emit("Unlock", n)
			return
		}
		if pkg, ok := sel.X.(*ast.Ident); ok && pkg.Obj == nil && pkg.Name == "atomic" {
			for _, a := range x.Args {
				if u, ok := a.(*ast.UnaryExpr); ok && u.Op == token.AND {
					if n := c.sharedName(u.X); n != "" {
						c.emit("Atomic", n)
						continue
					}
				}
				c.expr(a)
			}
			return
		}
		if pkg, ok := sel.X.(*ast.Ident); ok && pkg.Obj == nil && pkg.Name == "time" && (m == "Since" || m == "Now") {
			c.emit("Other", "time."+m)
			for _, a := range x.Args {
				c.expr(a)
			}
			return
		}
		if n := c.sharedName(sel.X); n != "" {
			switch {
			case safeMethods[m]:
				c.emit("Read", n)
			case m == "Do" || strings.HasSuffix(n, "Once"):
				c.emit("Other", n+".Do")
			default:
				// a method of a shared object that is not known to be safe for concurrent use
				c.emit("Write", n)
			}
		} else {
			c.expr(sel.X)
		}
		for _, a := range x.Args {
			c.expr(a)
		}
		return
	}
	if id, ok := x.Fun.(*ast.Ident); ok {
		switch id.Name {
		case "append":
			// append(s, ...) writes into the spare capacity of s
			if len(x.Args) > 0 {
				if n := c.sharedName(x.Args[0]); n != "" && !isFresh(x) {
					c.emit("Write", n)
				}
				for _, a := range x.Args[1:] {
					c.expr(a)
				}
			}
			return
		case "len", "cap", "copy", "delete", "close", "make", "new", "panic", "string", "uint64", "int64", "int", "uint16", "float64":
			for _, a := range x.Args {
				c.expr(a)
			}
			return
		}
		if c.isCaptured(id) {
			c.emit("Read", id.Name) // calling a captured function value
			for _, a := range x.Args {
				c.expr(a)
			}
			return
		}
		// a function of this package: it may modify what its slice/map/pointer arguments refer to
		for _, a := range x.Args {
			c.arg(a)
		}
		return
	}
	c.expr(x.Fun)
	for _, a := range x.Args {
		c.expr(a)
	}
}

// arg: a shared slice/map/pointer handed to another function may be modified there
func (c *ctx) arg(a ast.Expr) {
	switch v := a.(type) {
	case *ast.Ident:
		if t, ok := c.tainted[v.Name]; ok && !c.isCaptured(v) {
			c.emit("Write", t)
			return
		}
	case *ast.UnaryExpr:
		if v.Op == token.AND {
			if n := c.sharedName(v.X); n != "" {
				c.emit("Write", n)
				return
			}
		}
	}
	c.expr(a)
}

func (c *ctx) assign(lhs []ast.Expr, rhs []ast.Expr, tok token.Token) {
	for _, r := range rhs {
		c.expr(r)
	}
	for i, l := range lhs {
		var r ast.Expr
		if len(rhs) == len(lhs) {
			r = rhs[i]
		} else if len(rhs) == 1 {
			r = rhs[0]
		}
		// hit: the timestamp / sequence-number statements
		if c.isHit {
			if _, p := root(l); strings.HasSuffix(p, ".Timestamp") && r != nil && mentionsClock(r) {
				c.emit("Clock", p)
				continue
			}
			if _, p := root(l); strings.HasSuffix(p, ".Seq") && r != nil {
				if _, rp := root(r); strings.HasSuffix(rp, ".seq") {
					// replace the Read just emitted for the right-hand side
					if n := len(c.acts); n > 0 && c.acts[n-1].kind == "Read" {
						c.acts = c.acts[:n-1]
					}
					c.emit("SeqRead", rp)
					continue
				}
			}
		}
		switch lv := l.(type) {
		case *ast.Ident:
			if c.isCaptured(lv) {
				c.emit("Write", lv.Name)
			} else if r != nil && lv.Name != "_" {
				// local: does it alias shared state?
				if isFresh(r) {
					delete(c.tainted, lv.Name)
				} else if n := aliasSource(c, r); n != "" {
					c.tainted[lv.Name] = n
				} else if tok == token.DEFINE || tok == token.ASSIGN {
					if _, was := c.tainted[lv.Name]; was && !keepsTaint(c, lv.Name, r) {
						delete(c.tainted, lv.Name)
					}
				}
			}
		default:
			if n := c.sharedName(l); n != "" {
				c.emit("Write", n)
			}
			if ix, ok := l.(*ast.IndexExpr); ok {
				c.expr(ix.Index)
			}
		}
	}
}

func mentionsClock(e ast.Expr) bool {
	found := false
	ast.Inspect(e, func(n ast.Node) bool {
		if s, ok := n.(*ast.SelectorExpr); ok {
			if id, ok := s.X.(*ast.Ident); ok && id.Name == "time" && (s.Sel.Name == "Since" || s.Sel.Name == "Now") {
				found = true
			}
		}
		return true
	})
	return found
}

// aliasSource: the expression yields (part of) a shared object that can be mutated through
// the new name: index/selector of shared state, a slice of it, or the result of a method call on it.
func aliasSource(c *ctx, r ast.Expr) string {
	switch x := r.(type) {
	case *ast.IndexExpr, *ast.SliceExpr:
		return c.sharedName(x)
	case *ast.CallExpr:
		if s, ok := x.Fun.(*ast.SelectorExpr); ok {
			if n := c.sharedName(s.X); n != "" && !safeReturn[s.Sel.Name] {
				return n + "." + s.Sel.Name + "()"
			}
		}
		// f(tainted) may return its argument
		for _, a := range x.Args {
			if id, ok := a.(*ast.Ident); ok {
				if t, ok := c.tainted[id.Name]; ok {
					return t
				}
			}
		}
	case *ast.Ident:
		if t, ok := c.tainted[x.Name]; ok {
			return t
		}
	}
	return ""
}

// results of these methods are values (strings, errors, fresh slices), not aliases
var safeReturn = map[string]bool{"Text": true, "Peek": true, "Err": true, "ReadBytes": true, "Scan": true, "Error": true, "Get": true, "String": true}

func keepsTaint(c *ctx, name string, r ast.Expr) bool {
	keeps := false
	ast.Inspect(r, func(n ast.Node) bool {
		if id, ok := n.(*ast.Ident); ok && id.Name == name {
			keeps = true
		}
		return true
	})
	return keeps
}

func (c *ctx) block(b *ast.BlockStmt) {
	if b == nil {
		return
	}
	for _, s := range b.List {
		c.stmt(s)
	}
}

func (c *ctx) stmt(s ast.Stmt) {
	switch x := s.(type) {
	case nil:
	case *ast.ExprStmt:
		c.expr(x.X)
	case *ast.AssignStmt:
		c.assign(x.Lhs, x.Rhs, x.Tok)
	case *ast.IncDecStmt:
		if c.isHit {
			if _, p := root(x.X); strings.HasSuffix(p, ".seq") {
				c.emit("SeqInc", p)
				return
			}
		}
		if id, ok := x.X.(*ast.Ident); ok && c.isCaptured(id) {
			c.emit("Write", id.Name)
		} else if n := c.sharedName(x.X); n != "" {
			c.emit("Write", n)
		}
	case *ast.DeclStmt:
		if g, ok := x.Decl.(*ast.GenDecl); ok {
			for _, sp := range g.Specs {
				if vs, ok := sp.(*ast.ValueSpec); ok {
					for _, v := range vs.Values {
						c.expr(v)
					}
				}
			}
		}
	case *ast.DeferStmt:
		// deferred unlock: the section extends to the end of the body
		sub := &ctx{fset: c.fset, outer: c.outer, lit: c.lit, shared: c.shared, tainted: c.tainted, isHit: c.isHit}
		sub.call(x.Call)
		if fl, ok := x.Call.Fun.(*ast.FuncLit); ok {
			sub.acts = nil
			sub.block(fl.Body)
		}
		c.deferred = append(sub.acts, c.deferred...)
	case *ast.GoStmt:
		c.call(x.Call)
		if fl, ok := x.Call.Fun.(*ast.FuncLit); ok {
			c.block(fl.Body)
		}
	case *ast.ReturnStmt:
		for _, r := range x.Results {
			c.expr(r)
		}
	case *ast.BlockStmt:
		c.block(x)
	case *ast.IfStmt:
		c.stmt(x.Init)
		c.expr(x.Cond)
		c.block(x.Body)
		c.stmt(x.Else)
	case *ast.ForStmt:
		c.stmt(x.Init)
		c.expr(x.Cond)
		c.block(x.Body)
		c.stmt(x.Post)
	case *ast.RangeStmt:
		c.expr(x.X)
		c.block(x.Body)
	case *ast.SwitchStmt:
		c.stmt(x.Init)
		c.expr(x.Tag)
		c.block(x.Body)
	case *ast.CaseClause:
		for _, e := range x.List {
			c.expr(e)
		}
		for _, st := range x.Body {
			c.stmt(st)
		}
	case *ast.SelectStmt:
		c.block(x.Body)
	case *ast.CommClause:
		for _, st := range x.Body {
			c.stmt(st)
		}
	case *ast.SendStmt:
		c.expr(x.Value)
	case *ast.LabeledStmt:
		c.stmt(x.Stmt)
	}
}

func skeletonOf(fset *token.FileSet, outer ast.Node, lit ast.Node, body *ast.BlockStmt, shared []string, isHit bool) []action {
	c := &ctx{fset: fset, outer: outer, lit: lit, shared: map[string]bool{}, tainted: map[string]string{}, isHit: isHit}
	for _, s := range shared {
		c.shared[s] = true
	}
	c.block(body)
	return append(c.acts, c.deferred...)
}

func findFunc(f *ast.File, name string) *ast.FuncDecl {
	for _, d := range f.Decls {
		if fd, ok := d.(*ast.FuncDecl); ok && fd.Name.Name == name {
			return fd
		}
	}
	return nil
}

// returnedLit finds the function literal returned by (or assigned to field `field` in) fd.
func findLit(fd *ast.FuncDecl, assignedTo string) *ast.FuncLit {
	var out *ast.FuncLit
	ast.Inspect(fd.Body, func(n ast.Node) bool {
		switch x := n.(type) {
		case *ast.ReturnStmt:
			if assignedTo == "" && len(x.Results) == 1 {
				if fl, ok := x.Results[0].(*ast.FuncLit); ok && out == nil {
					out = fl
				}
			}
		case *ast.AssignStmt:
			if assignedTo != "" && len(x.Lhs) == 1 && len(x.Rhs) == 1 {
				if _, p := root(x.Lhs[0]); strings.HasSuffix(p, assignedTo) {
					if fl, ok := x.Rhs[0].(*ast.FuncLit); ok {
						out = fl // the last one assigned
					}
				}
			}
		}
		return true
	})
	return out
}

// stopShape classifies the body of Attacker.Stop: 1 = the returned flag is set inside the
// sync.Once body and nowhere else and no channel test decides the result; 2 = select on the
// stop channel with a default branch that returns true; 0 = anything else.
func stopShape(fd *ast.FuncDecl) int {
	hasSelect, onceSetsFlag, returnsVar := false, false, ""
	flagSetOutside := false
	var onceBody *ast.BlockStmt
	ast.Inspect(fd.Body, func(n ast.Node) bool {
		switch x := n.(type) {
		case *ast.SelectStmt:
			hasSelect = true
		case *ast.CallExpr:
			if s, ok := x.Fun.(*ast.SelectorExpr); ok && s.Sel.Name == "Do" && len(x.Args) == 1 {
				if fl, ok := x.Args[0].(*ast.FuncLit); ok {
					onceBody = fl.Body
				}
			}
		case *ast.ReturnStmt:
			if len(x.Results) == 1 {
				if id, ok := x.Results[0].(*ast.Ident); ok && id.Name != "true" && id.Name != "false" {
					returnsVar = id.Name
				}
			}
		}
		return true
	})
	if returnsVar != "" {
		ast.Inspect(fd.Body, func(n ast.Node) bool {
			if as, ok := n.(*ast.AssignStmt); ok && as.Tok == token.ASSIGN {
				for i, l := range as.Lhs {
					if id, ok := l.(*ast.Ident); ok && id.Name == returnsVar {
						inside := onceBody != nil && as.Pos() >= onceBody.Pos() && as.End() <= onceBody.End()
						isTrue := false
						if i < len(as.Rhs) {
							if v, ok := as.Rhs[i].(*ast.Ident); ok && v.Name == "true" {
								isTrue = true
							}
						}
						if inside && isTrue {
							onceSetsFlag = true
						} else {
							flagSetOutside = true
						}
					}
				}
			}
			return true
		})
	}
	switch {
	case !hasSelect && onceSetsFlag && !flagSetOutside:
		return 1
	case hasSelect:
		return 2
	}
	return 0
}

func main() {
	repo := flag.String("repo", "/repo", "path to the vegeta working tree")
	out := flag.String("out", "", "output .v file (default stdout)")
	flag.Parse()
	fset := token.NewFileSet()
	parse := func(rel string) *ast.File {
		f, err := parser.ParseFile(fset, filepath.Join(*repo, rel), nil, 0)
		if err != nil {
			fmt.Fprintln(os.Stderr, "skel:", err)
			os.Exit(2)
		}
		return f
	}
	attack := parse("lib/attack.go")
	targets := parse("lib/targets.go")
	resolver := parse("internal/resolver/resolver.go")

	type item struct {
		name string
		acts []action
		ok   bool
	}
	var items []item
	add := func(name string, fd *ast.FuncDecl, lit *ast.FuncLit, shared []string, isHit bool) {
		switch {
		case fd == nil:
			items = append(items, item{name: name})
		case lit != nil:
			items = append(items, item{name, skeletonOf(fset, fd, lit, lit.Body, shared, isHit), true})
		default:
			items = append(items, item{name, skeletonOf(fset, fd, fd, fd.Body, shared, isHit), true})
		}
	}
	hit := findFunc(attack, "hit")
	add("hit_skel", hit, nil, []string{"atk"}, true)
	for _, t := range []struct{ name, fn, field string }{
		{"static_targeter_skel", "NewStaticTargeter", ""},
		{"json_targeter_skel", "NewJSONTargeter", ""},
		{"http_targeter_skel", "NewHTTPTargeter", ""},
	} {
		fd := findFunc(targets, t.fn)
		var lit *ast.FuncLit
		if fd != nil {
			lit = findLit(fd, t.field)
			if lit == nil {
				fd = nil
			}
		}
		add(t.name, fd, lit, nil, false)
	}
	for _, t := range []struct{ name, fn string }{{"connect_to_skel", "ConnectTo"}, {"dns_caching_skel", "DNSCaching"}} {
		fd := findFunc(attack, t.fn)
		var lit *ast.FuncLit
		if fd != nil {
			lit = findLit(fd, "DialContext")
			if lit == nil {
				fd = nil
			}
		}
		add(t.name, fd, lit, nil, false)
	}
	add("resolver_address_skel", findFunc(resolver, "address"), nil, []string{"r"}, false)

	shape := 0
	if fd := findFunc(attack, "Stop"); fd != nil {
		shape = stopShape(fd)
	}

	var b strings.Builder
	b.WriteString("(* GENERATED by harness/cmd/skel from the current source tree - do not edit. *)\n")
	b.WriteString("From Coq Require Import ZArith List.\nFrom V Require Import Model.Skel.\nImport ListNotations.\nOpen Scope Z_scope.\n\n")
	for _, it := range items {
		if !it.ok {
			fmt.Fprintf(&b, "(* %s: function not found in the source *)\nDefinition %s : skel := [AWrite 0; AWrite 0].\nDefinition %s_found : bool := false.\n\n", it.name, it.name, it.name)
			continue
		}
		ids := map[string]int{}
		id := func(n string) int {
			if _, ok := ids[n]; !ok {
				ids[n] = len(ids) + 1
			}
			return ids[n]
		}
		var parts []string
		for _, a := range it.acts {
			switch a.kind {
			case "Lock":
				parts = append(parts, fmt.Sprintf("ALock %d", id("mutex "+a.name)))
			case "Unlock":
				parts = append(parts, fmt.Sprintf("AUnlock %d", id("mutex "+a.name)))
			case "Read":
				parts = append(parts, fmt.Sprintf("ARead %d", id(a.name)))
			case "Write":
				parts = append(parts, fmt.Sprintf("AWrite %d", id(a.name)))
			case "Atomic":
				parts = append(parts, fmt.Sprintf("AAtomic %d", id(a.name)))
			case "Clock":
				parts = append(parts, "AClock")
			case "SeqRead":
				parts = append(parts, "ASeqRead")
			case "SeqInc":
				parts = append(parts, "ASeqInc")
			default:
				parts = append(parts, "AOther")
			}
		}
		names := make([]string, 0, len(ids))
		for n, i := range ids {
			names = append(names, fmt.Sprintf("%d=%s", i, n))
		}
		sort.Strings(names)
		fmt.Fprintf(&b, "(* %s: %s *)\nDefinition %s : skel :=\n  [%s].\nDefinition %s_found : bool := true.\n\n",
			it.name, strings.Join(names, "; "), it.name, strings.Join(parts, "; "), it.name)
	}
	fmt.Fprintf(&b, "(* shape of Attacker.Stop: 1 once-guarded flag, 2 select/default, 0 unknown *)\nDefinition stop_shape : Z := %d.\n", shape)
	// writers of the per-attack sequence counter: every statement of lib/attack.go that assigns to,
	// increments / decrements, or takes the address of a field called like the counter incremented in
	// hit's critical section (".seq"), other than that one increment
	writers := 0
	isSeq := func(e ast.Expr) bool {
		sel, ok := e.(*ast.SelectorExpr)
		return ok && sel.Sel.Name == "seq"
	}
	ast.Inspect(attack, func(n ast.Node) bool {
		switch x := n.(type) {
		case *ast.AssignStmt:
			for _, l := range x.Lhs {
				if isSeq(l) {
					writers++
				}
			}
		case *ast.IncDecStmt:
			if isSeq(x.X) {
				writers++
			}
		case *ast.UnaryExpr:
			if x.Op == token.AND && isSeq(x.X) {
				writers++
			}
		}
		return true
	})
	fmt.Fprintf(&b, "(* statements of lib/attack.go that write a field named like the sequence counter (one is hit's increment) *)\nDefinition seq_writers : Z := %d.\n", writers)
	if *out == "" {
		fmt.Print(b.String())
		return
	}
	if err := os.WriteFile(*out, []byte(b.String()), 0o644); err != nil {
		fmt.Fprintln(os.Stderr, err)
		os.Exit(2)
	}
}
