package main

import (
	"fmt"
	"math/rand"
	"strconv"
	"sync"
	"time"

	"github.com/prometheus/client_golang/prometheus"
	dto "github.com/prometheus/client_model/go"
	vegeta "github.com/tsenart/vegeta/v12/lib"
	"github.com/tsenart/vegeta/v12/lib/prom"
)

func init() {
	register("C20", &Prop{ID: 20,
		N: func(tier string) int {
			if tier == "thorough" {
				return 3000
			}
			return 500
		},
		Run: runC20,
	})
}

var c20Bounds = []int64{5e6, 10e6, 25e6, 50e6, 100e6, 250e6, 500e6, 1e9, 2500e6, 5e9, 10e9}

func runC20(idx int, rng *rand.Rand, tier string) []Case {
	if idx%60 == 11 {
		return c20CLI(idx, rng)
	}
	n := rng.Intn(40)
	switch rng.Intn(8) {
	case 0:
		n = 0
	case 1:
		n = 500 + rng.Intn(1500)
	}
	if idx%50 == 7 {
		n = 10000
	}
	if idx < 2 {
		n = 3
	}
	methods := []string{"GET", "POST", "PUT"}
	urls := []string{"http://a/", "http://b/x", "http://c/?q=1"}
	codes := []uint16{200, 201, 404, 500, 0}
	long := "Get \"http://a-rather-long-host-name.example.com:8080/with/a/long/path/that/goes/on/and/on/and/on?and=a&query=string&of=some&length=too\": "
	msgs := []string{"", "500 Internal Server Error", "EOF", "timeout", long + "context deadline exceeded", long + "connection refused"}
	concurrent := idx%3 == 0
	rs := make([]vegeta.Result, n)
	for i := range rs {
		r := &rs[i]
		r.Method = methods[rng.Intn(1+rng.Intn(len(methods)))]
		r.URL = urls[rng.Intn(1+rng.Intn(len(urls)))]
		r.Code = codes[rng.Intn(len(codes))]
		r.BytesIn = uint64(rng.Intn(100000))
		r.BytesOut = uint64(rng.Intn(1000))
		switch rng.Intn(4) {
		case 0: // on / just around a bucket bound
			r.Latency = time.Duration(c20Bounds[rng.Intn(len(c20Bounds))] + int64(rng.Intn(3)-1))
		case 1:
			r.Latency = time.Duration(rng.Int63n(2e10))
		default:
			r.Latency = time.Duration(rng.Int63n(3e8))
		}
		if r.Code >= 400 || r.Code < 200 || rng.Intn(10) == 0 {
			r.Error = msgs[1+rng.Intn(len(msgs)-1)]
		}
		if idx < 2 {
			r.Error = "EOF" // corpus: failures present
		}
	}
	labelID := map[string]int{}
	failID := map[string]int{}
	lid := func(m, u, c string) int {
		k := m + "\x00" + u + "\x00" + c
		if _, ok := labelID[k]; !ok {
			labelID[k] = len(labelID) + 1
		}
		return labelID[k]
	}
	fid := func(m, u, c, msg string) int {
		k := m + "\x00" + u + "\x00" + c + "\x00" + msg
		if _, ok := failID[k]; !ok {
			failID[k] = len(failID) + 1
		}
		return failID[k]
	}
	var c Case
	w := &c.W
	w.Z(1)
	w.I(n)
	nfail := 0
	for i := range rs {
		r := &rs[i]
		code := strconv.Itoa(int(r.Code))
		w.I(lid(r.Method, r.URL, code))
		w.U(r.BytesIn)
		w.U(r.BytesOut)
		w.Z(int64(r.Latency))
		if r.Error != "" {
			w.I(fid(r.Method, r.URL, code, r.Error))
			nfail++
		} else {
			w.Z(0)
		}
	}
	pm := prom.NewMetrics()
	reg := prometheus.NewRegistry()
	if err := pm.Register(reg); err != nil {
		panic(err)
	}
	if concurrent {
		var wg sync.WaitGroup
		for g := 0; g < 16; g++ {
			wg.Add(1)
			go func(g int) {
				defer wg.Done()
				for i := g; i < n; i += 16 {
					pm.Observe(&rs[i])
				}
			}(g)
		}
		wg.Wait()
	} else {
		for i := range rs {
			pm.Observe(&rs[i])
		}
	}
	mfs, err := reg.Gather()
	if err != nil {
		// the registry refuses to export what Observe left behind: an observation, not a harness fault
		var bad Case
		bad.W.Z(2)
		bad.W.I(n)
		bad.Tag = "prom.gather;nt"
		bad.Dist = "gather failed"
		bad.Sample = map[string]interface{}{"results": n, "concurrent": concurrent, "gather_error": err.Error()}
		return []Case{bad}
	}
	fam := map[string]*dto.MetricFamily{}
	for _, mf := range mfs {
		fam[mf.GetName()] = mf
	}
	lab := func(m *dto.Metric) (string, string, string, string) {
		var me, u, s, msg string
		for _, lp := range m.GetLabel() {
			switch lp.GetName() {
			case "method":
				me = lp.GetValue()
			case "url":
				u = lp.GetValue()
			case "status":
				s = lp.GetValue()
			case "message":
				msg = lp.GetValue()
			}
		}
		return me, u, s, msg
	}
	known := func(m *dto.Metric) int {
		me, u, s, _ := lab(m)
		if id, ok := labelID[me+"\x00"+u+"\x00"+s]; ok {
			return id
		}
		return -1
	}
	for _, name := range []string{"request_bytes_in", "request_bytes_out"} {
		var ms []*dto.Metric
		if f := fam[name]; f != nil {
			ms = f.GetMetric()
		}
		w.I(len(ms))
		for _, m := range ms {
			w.I(known(m))
			w.F(m.GetCounter().GetValue())
		}
	}
	var hs []*dto.Metric
	if f := fam["request_seconds"]; f != nil {
		hs = f.GetMetric()
	}
	w.I(len(hs))
	for _, m := range hs {
		h := m.GetHistogram()
		w.I(known(m))
		w.U(h.GetSampleCount())
		w.F(h.GetSampleSum())
		w.I(len(h.GetBucket()))
		for _, b := range h.GetBucket() {
			w.U(b.GetCumulativeCount())
		}
	}
	var fs []*dto.Metric
	if f := fam["request_fail_count"]; f != nil {
		fs = f.GetMetric()
	}
	w.I(len(fs))
	for _, m := range fs {
		me, u, s, msg := lab(m)
		id, ok := failID[me+"\x00"+u+"\x00"+s+"\x00"+msg]
		if !ok {
			id = -1
		}
		w.I(id)
		w.F(m.GetCounter().GetValue())
	}
	c.Tag = "seq"
	if concurrent {
		c.Tag = "conc"
	}
	if nfail > 0 {
		c.Tag += ".fail"
	}
	if n >= 2 {
		c.Tag += ";nt"
	}
	c.Dist = fmt.Sprintf("%s/n%d/labels%d", c.Tag, sizeClass(n), sizeClass(len(labelID)))
	c.Sample = map[string]interface{}{"results": n, "label_sets": len(labelID), "failure_children": len(failID), "concurrent": concurrent}
	return []Case{c}
}
