package main

import (
	"time"
	"bytes"
	"fmt"
	"math/rand"
	"net/http"
	"strconv"
	"strings"
	"sync"
	"sync/atomic"

	vegeta "github.com/tsenart/vegeta/v12/lib"
)

func init() {
	register("C15", &Prop{ID: 15,
		N: func(tier string) int {
			if tier == "thorough" {
				return 1500
			}
			return 240
		},
		Run: runC15,
	})
}

func runC15(idx int, rng *rand.Rand, tier string) []Case {
	callers := []int{1, 2, 3, 8, 16, 64}[rng.Intn(6)]
	n := []int{0, 1, 2, 7, 100, 1000, 5000}[rng.Intn(7)]
	kind := idx % 3
	if idx%8 == 5 {
		return c15Attack(idx, rng)
	}
	var stamp int64
	tick := func() int64 { return atomic.AddInt64(&stamp, 1) }
	if kind == 2 && idx == 2 && tier == "thorough" {
		return c15LongRun()
	}
	if kind == 2 {
		// static targeter: n draws over k targets
		k := 1 + rng.Intn(7)
		tgts := make([]vegeta.Target, k)
		for i := range tgts {
			tgts[i] = vegeta.Target{Method: "GET", URL: "http://s.example/" + strconv.Itoa(i)}
		}
		tr := vegeta.NewStaticTargeter(tgts...)
		draws := make([][]int64, callers)
		per := n/callers + 1
		var wg sync.WaitGroup
		for g := 0; g < callers; g++ {
			wg.Add(1)
			go func(g int) {
				defer wg.Done()
				for i := 0; i < per; i++ {
					var t vegeta.Target
					if err := tr(&t); err != nil {
						draws[g] = append(draws[g], -1)
						continue
					}
					id, _ := strconv.ParseInt(strings.TrimPrefix(t.URL, "http://s.example/"), 10, 64)
					draws[g] = append(draws[g], id)
				}
			}(g)
		}
		wg.Wait()
		var c Case
		w := &c.W
		w.Z(2)
		w.I(k)
		var all []int64
		for _, d := range draws {
			all = append(all, d...)
		}
		w.Zs(all)
		w.Bool(false)
		w.Bool(callers == 1) // one caller: the draws are listed in the order they were made
		c.Tag = "static;nt"
		c.Dist = fmt.Sprintf("static/callers%d/k%d/n%d", callers, k, sizeClass(len(all)))
		c.Sample = map[string]interface{}{"targeter": "static", "callers": callers, "targets": k, "draws": len(all)}
		return []Case{c}
	}
	// stream targeters
	var src bytes.Buffer
	format := "http"
	if kind == 1 {
		format = "json"
		enc := vegeta.NewJSONTargetEncoder(&src)
		for i := 0; i < n; i++ {
			t := vegeta.Target{Method: "POST", URL: "http://t.example/" + strconv.Itoa(i), Header: http.Header{"X-Id": {strconv.Itoa(i)}}, Body: []byte(strconv.Itoa(i))}
			enc.Encode(&t)
			if i%37 == 5 { // blank lines between targets are skipped by the reader
				src.WriteString([]string{"\n", "  \n", "\t\n"}[i%3])
			}
		}
	} else {
		for i := 0; i < n; i++ {
			if i%5 == 2 { // a target without header lines, an indented comment, the next request line directly after it
				fmt.Fprintf(&src, "POST http://t.example/%d\n%s# comment %d\n", i, []string{" ", "\t", "   "}[i%3], i)
				continue
			}
			fmt.Fprintf(&src, "POST http://t.example/%d\nX-Id: %d\n", i, i)
			if rng.Intn(3) == 0 {
				fmt.Fprintf(&src, "# comment %d\n", i)
			}
			src.WriteString("\n")
		}
	}
	// every other case: default headers as repeated -header flags build them (three values for the key
	// the targets also set themselves: a slice with spare capacity), which every target must get as
	// its own copy, followed by its own value
	var defaults http.Header
	if n%2 == 1 {
		defaults = http.Header{}
		for _, v := range []string{"d0", "d1", "d2"} {
			defaults["X-Id"] = append(defaults["X-Id"], v)
		}
		defaults["X-Def"] = []string{"a"}
	}
	var tr vegeta.Targeter
	if kind == 1 {
		tr = vegeta.NewJSONTargeter(bytes.NewReader(src.Bytes()), nil, defaults)
	} else {
		tr = vegeta.NewHTTPTargeter(bytes.NewReader(src.Bytes()), nil, defaults)
	}
	// the header a drawn target must carry, now and when every draw is over
	headerOK := func(t *vegeta.Target, id string) bool {
		v := t.Header["X-Id"]
		own := 1
		if n, _ := strconv.Atoi(id); format == "http" && n%5 == 2 {
			own = 0 // written without header lines
		}
		if defaults == nil {
			return len(t.Header) == own && len(v) == own && (own == 0 || v[0] == id)
		}
		d := t.Header["X-Def"]
		return len(t.Header) == 2 && len(v) == 3+own && v[0] == "d0" && v[1] == "d1" && v[2] == "d2" && (own == 0 || v[3] == id) && len(d) == 1 && d[0] == "a"
	}
	type call struct{ s, e, out int64 }
	calls := make([][]call, callers)
	type keptT struct {
		t  *vegeta.Target
		at int
	}
	kept := make([][]keptT, callers)
	var wg sync.WaitGroup
	for g := 0; g < callers; g++ {
		wg.Add(1)
		go func(g int) {
			defer wg.Done()
			exhausted := 0
			for exhausted < 3 {
				var t vegeta.Target
				s := tick()
				err := tr(&t)
				e := tick()
				out := int64(-2)
				switch {
				case err == vegeta.ErrNoTargets:
					out = -1
					exhausted++
				case err == nil:
					id, perr := strconv.ParseInt(strings.TrimPrefix(t.URL, "http://t.example/"), 10, 64)
					hid := strconv.FormatInt(id, 10)
					if perr != nil || !headerOK(&t, hid) || t.Method != "POST" || (format == "json" && string(t.Body) != hid) {
						out = -3
					} else {
						out = id
						tc := t
						kept[g] = append(kept[g], keptT{&tc, len(calls[g])})
					}
				}
				calls[g] = append(calls[g], call{s, e, out})
			}
		}(g)
	}
	// a targeter that never lets a caller return (a lock left held) must not hang the harness
	stuck := false
	waited := make(chan struct{})
	go func() { wg.Wait(); close(waited) }()
	select {
	case <-waited:
		// every target handed out is looked at again now that all draws are over: a later draw must
		// not have changed it (targets sharing a header slice or a body buffer)
		for g := range kept {
			for _, k := range kept[g] {
				hid := strconv.FormatInt(calls[g][k.at].out, 10)
				if !headerOK(k.t, hid) || (format == "json" && string(k.t.Body) != hid) {
					calls[g][k.at].out = -3
				}
			}
		}
	case <-time.After(20 * time.Second):
		stuck = true
		calls = make([][]call, callers) // the blocked callers still own their slices
	}
	var c Case
	w := &c.W
	w.Z(1)
	w.I(n)
	total := 0
	for _, cs := range calls {
		total += len(cs)
	}
	w.I(total)
	for _, cs := range calls {
		for _, x := range cs {
			w.Z(x.s); w.Z(x.e); w.Z(x.out)
		}
	}
	w.Bool(stuck)
	c.Tag = format + ";nt"
	c.Dist = fmt.Sprintf("%s/callers%d/n%d", format, callers, sizeClass(n))
	c.Sample = map[string]interface{}{"targeter": format, "callers": callers, "targets": n, "calls": total}
	return []Case{c}
}


// a real attack drawing from a stream targeter: every request the transport sees must be one
// target of the input, whole - its own URL, body and header lines and nobody else's
type c15RT struct {
	mu   sync.Mutex
	reqs []c15Req
}

type c15Req struct {
	id, body int64
	xids     []int64
	owners   []int64
	method   bool
}

func (rt *c15RT) RoundTrip(r *http.Request) (*http.Response, error) {
	q := c15Req{id: -1, body: -1, method: r.Method == "POST"}
	if v, err := strconv.ParseInt(strings.TrimPrefix(r.URL.String(), "http://t.example/"), 10, 64); err == nil {
		q.id = v
	}
	if r.Body != nil {
		var b bytes.Buffer
		b.ReadFrom(r.Body)
		r.Body.Close()
		if v, err := strconv.ParseInt(b.String(), 10, 64); err == nil {
			q.body = v
		}
	}
	for k, vs := range r.Header {
		switch {
		case k == "X-Id":
			for _, v := range vs {
				n, err := strconv.ParseInt(v, 10, 64)
				if err != nil {
					n = -1
				}
				q.xids = append(q.xids, n)
			}
		case strings.HasPrefix(k, "X-Own-"):
			n, err := strconv.ParseInt(strings.TrimPrefix(k, "X-Own-"), 10, 64)
			if err != nil {
				n = -1
			}
			for range vs {
				q.owners = append(q.owners, n)
			}
		}
	}
	rt.mu.Lock()
	rt.reqs = append(rt.reqs, q)
	rt.mu.Unlock()
	return &http.Response{StatusCode: 200, Status: "200 OK", Proto: "HTTP/1.1", ProtoMajor: 1, ProtoMinor: 1,
		Header: http.Header{}, Body: http.NoBody, Request: r}, nil
}

func c15Attack(idx int, rng *rand.Rand) []Case {
	n := []int{1, 2, 7, 50, 300, 1500}[rng.Intn(6)]
	format := []string{"json", "http"}[rng.Intn(2)]
	var src bytes.Buffer
	owned := 0
	for i := 0; i < n; i++ {
		h := http.Header{"X-Id": {strconv.Itoa(i)}}
		switch rng.Intn(3) {
		case 1:
			h["X-Own-"+strconv.Itoa(i)] = []string{"a"}
			owned++
		case 2:
			h["X-Own-"+strconv.Itoa(i)] = []string{"a", "b"}
			owned += 2
		}
		if format == "json" {
			t := vegeta.Target{Method: "POST", URL: "http://t.example/" + strconv.Itoa(i), Header: h, Body: []byte(strconv.Itoa(i))}
			vegeta.NewJSONTargetEncoder(&src).Encode(&t)
		} else {
			fmt.Fprintf(&src, "POST http://t.example/%d\n", i)
			for k, vs := range h {
				for _, v := range vs {
					fmt.Fprintf(&src, "%s: %s\n", k, v)
				}
			}
			src.WriteString("\n")
		}
	}
	var tr vegeta.Targeter
	if format == "json" {
		tr = vegeta.NewJSONTargeter(bytes.NewReader(src.Bytes()), nil, nil)
	} else {
		tr = vegeta.NewHTTPTargeter(bytes.NewReader(src.Bytes()), nil, nil)
	}
	rt := &c15RT{}
	workers := []uint64{1, 2, 8, 32}[rng.Intn(4)]
	atk := vegeta.NewAttacker(vegeta.Client(&http.Client{Transport: rt}), vegeta.Workers(workers), vegeta.MaxWorkers(workers+uint64(rng.Intn(8))))
	results := 0
	stuck := false
	done := make(chan struct{})
	go func() {
		for range atk.Attack(tr, vegeta.Rate{Freq: 0, Per: time.Second}, 0, "c15") {
			results++
		}
		close(done)
	}()
	select {
	case <-done:
	case <-time.After(30 * time.Second):
		stuck = true
		atk.Stop()
	}
	rt.mu.Lock()
	reqs := append([]c15Req(nil), rt.reqs...)
	rt.mu.Unlock()
	var c Case
	w := &c.W
	w.Z(3)
	w.I(n)
	w.I(len(reqs))
	for _, q := range reqs {
		w.Z(q.id); w.Z(q.body); w.Zs(q.xids); w.Zs(q.owners); w.Bool(q.method)
	}
	w.Bool(format == "json")
	w.Bool(stuck)
	c.Tag = "attack." + format + ";nt"
	c.Dist = fmt.Sprintf("attack/%s/workers%d/n%d", format, workers, sizeClass(n))
	c.Sample = map[string]interface{}{"targeter": format, "workers": workers, "targets": n, "requests_seen": len(reqs), "own_header_lines": owned}
	return []Case{c}
}


// a static targeter drawn more than 2^31 times (a long soak): the rotation must simply go on
func c15LongRun() []Case {
	k := 3
	tgts := make([]vegeta.Target, k)
	for i := range tgts {
		tgts[i] = vegeta.Target{Method: "GET", URL: "http://s.example/" + strconv.Itoa(i)}
	}
	tr := vegeta.NewStaticTargeter(tgts...)
	const pre = int64(1)<<31 - 40
	bad := false
	func() {
		defer func() {
			if recover() != nil {
				bad = true
			}
		}()
		var t vegeta.Target
		for i := int64(0); i < pre; i++ {
			tr(&t)
		}
	}()
	var draws []int64
	for i := 0; i < 120 && !bad; i++ {
		func() {
			defer func() {
				if recover() != nil {
					bad = true
				}
			}()
			var t vegeta.Target
			if err := tr(&t); err != nil {
				draws = append(draws, -1)
				return
			}
			id, _ := strconv.ParseInt(strings.TrimPrefix(t.URL, "http://s.example/"), 10, 64)
			draws = append(draws, id)
		}()
	}
	if bad {
		draws = append(draws, -1) // the targeter panicked: no target
	}
	var c Case
	w := &c.W
	w.Z(2)
	w.I(k)
	w.Zs(draws)
	w.Bool(false)
	w.Bool(true)
	c.Tag = "static.long;nt"
	c.Dist = "static/after 2^31-40 draws"
	c.Sample = map[string]interface{}{"targeter": "static", "draws_before": pre, "draws_observed": len(draws)}
	return []Case{c}
}
