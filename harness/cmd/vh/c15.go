package main

import (
	"time"
	"bytes"
	"fmt"
	"math/rand"
	"net/http"
	"strconv"
	"strings"
	"sync"
	"sync/atomic"

	vegeta "github.com/tsenart/vegeta/v12/lib"
)

func init() {
	register("C15", &Prop{ID: 15,
		N: func(tier string) int {
			if tier == "thorough" {
				return 1500
			}
			return 240
		},
		Run: runC15,
	})
}

func runC15(idx int, rng *rand.Rand, tier string) []Case {
	callers := []int{1, 2, 3, 8, 16, 64}[rng.Intn(6)]
	n := []int{0, 1, 2, 7, 100, 1000, 5000}[rng.Intn(7)]
	kind := idx % 3
	var stamp int64
	tick := func() int64 { return atomic.AddInt64(&stamp, 1) }
	if kind == 2 {
		// static targeter: n draws over k targets
		k := 1 + rng.Intn(7)
		tgts := make([]vegeta.Target, k)
		for i := range tgts {
			tgts[i] = vegeta.Target{Method: "GET", URL: "http://s.example/" + strconv.Itoa(i)}
		}
		tr := vegeta.NewStaticTargeter(tgts...)
		draws := make([][]int64, callers)
		per := n/callers + 1
		var wg sync.WaitGroup
		for g := 0; g < callers; g++ {
			wg.Add(1)
			go func(g int) {
				defer wg.Done()
				for i := 0; i < per; i++ {
					var t vegeta.Target
					if err := tr(&t); err != nil {
						draws[g] = append(draws[g], -1)
						continue
					}
					id, _ := strconv.ParseInt(strings.TrimPrefix(t.URL, "http://s.example/"), 10, 64)
					draws[g] = append(draws[g], id)
				}
			}(g)
		}
		wg.Wait()
		var c Case
		w := &c.W
		w.Z(2)
		w.I(k)
		var all []int64
		for _, d := range draws {
			all = append(all, d...)
		}
		w.Zs(all)
		w.Bool(false)
		c.Tag = "static;nt"
		c.Dist = fmt.Sprintf("static/callers%d/k%d/n%d", callers, k, sizeClass(len(all)))
		c.Sample = map[string]interface{}{"targeter": "static", "callers": callers, "targets": k, "draws": len(all)}
		return []Case{c}
	}
	// stream targeters
	var src bytes.Buffer
	format := "http"
	if kind == 1 {
		format = "json"
		enc := vegeta.NewJSONTargetEncoder(&src)
		for i := 0; i < n; i++ {
			t := vegeta.Target{Method: "POST", URL: "http://t.example/" + strconv.Itoa(i), Header: http.Header{"X-Id": {strconv.Itoa(i)}}, Body: []byte(strconv.Itoa(i))}
			enc.Encode(&t)
		}
	} else {
		for i := 0; i < n; i++ {
			fmt.Fprintf(&src, "POST http://t.example/%d\nX-Id: %d\n", i, i)
			if rng.Intn(3) == 0 {
				fmt.Fprintf(&src, "# comment %d\n", i)
			}
			src.WriteString("\n")
		}
	}
	var tr vegeta.Targeter
	if kind == 1 {
		tr = vegeta.NewJSONTargeter(bytes.NewReader(src.Bytes()), nil, nil)
	} else {
		tr = vegeta.NewHTTPTargeter(bytes.NewReader(src.Bytes()), nil, nil)
	}
	type call struct{ s, e, out int64 }
	calls := make([][]call, callers)
	var wg sync.WaitGroup
	for g := 0; g < callers; g++ {
		wg.Add(1)
		go func(g int) {
			defer wg.Done()
			exhausted := 0
			for exhausted < 3 {
				var t vegeta.Target
				s := tick()
				err := tr(&t)
				e := tick()
				out := int64(-2)
				switch {
				case err == vegeta.ErrNoTargets:
					out = -1
					exhausted++
				case err == nil:
					id, perr := strconv.ParseInt(strings.TrimPrefix(t.URL, "http://t.example/"), 10, 64)
					hid := ""
					if v := t.Header["X-Id"]; len(v) == 1 {
						hid = v[0]
					}
					if perr != nil || hid != strconv.FormatInt(id, 10) || t.Method != "POST" || (format == "json" && string(t.Body) != hid) {
						out = -3
					} else {
						out = id
					}
				}
				calls[g] = append(calls[g], call{s, e, out})
			}
		}(g)
	}
	// a targeter that never lets a caller return (a lock left held) must not hang the harness
	stuck := false
	waited := make(chan struct{})
	go func() { wg.Wait(); close(waited) }()
	select {
	case <-waited:
	case <-time.After(20 * time.Second):
		stuck = true
		calls = make([][]call, callers) // the blocked callers still own their slices
	}
	var c Case
	w := &c.W
	w.Z(1)
	w.I(n)
	total := 0
	for _, cs := range calls {
		total += len(cs)
	}
	w.I(total)
	for _, cs := range calls {
		for _, x := range cs {
			w.Z(x.s); w.Z(x.e); w.Z(x.out)
		}
	}
	w.Bool(stuck)
	c.Tag = format + ";nt"
	c.Dist = fmt.Sprintf("%s/callers%d/n%d", format, callers, sizeClass(n))
	c.Sample = map[string]interface{}{"targeter": format, "callers": callers, "targets": n, "calls": total}
	return []Case{c}
}
