package main

import (
	"fmt"
	"math"
	"math/rand"
	"time"

	vegeta "github.com/tsenart/vegeta/v12/lib"
)

func init() {
	register("C01", &Prop{ID: 1,
		N: func(tier string) int {
			if tier == "thorough" {
				return 60000
			}
			return 8000
		},
		Run: runC01,
	})
}

var c01Lattice = []int64{0, 1, 2, 3, 7, 10, 999, 1000, 1001, 1e6, 1e9 - 1, 1e9, 1e9 + 1, 2e9, 60e9, 3600e9,
	1 << 31, 1<<31 + 1, 1 << 32, 1 << 62, math.MaxInt64 / 10, math.MaxInt64 - 1, math.MaxInt64,
	-1, -2, -1e9, math.MinInt64}

func pick64(rng *rand.Rand) int64 {
	switch rng.Intn(4) {
	case 0:
		return c01Lattice[rng.Intn(len(c01Lattice))]
	case 1:
		return int64(rng.Intn(1000))
	case 2:
		return rng.Int63n(1e12)
	default:
		return c01Lattice[rng.Intn(len(c01Lattice)-4)] + int64(rng.Intn(3)-1)
	}
}

type paceOut struct {
	kind int // 0 wait, 1 stop, 2 panic
	w    int64
}

func callPace(p vegeta.Pacer, t time.Duration, k uint64) (o paceOut) {
	defer func() {
		if r := recover(); r != nil {
			o = paceOut{kind: 2}
		}
	}()
	w, stop := p.Pace(t, k)
	if stop {
		return paceOut{kind: 1}
	}
	return paceOut{kind: 0, w: int64(w)}
}

func (w *W) Out(o paceOut) { w.I(o.kind); w.Z(o.w) }

func runC01(idx int, rng *rand.Rand, tier string) []Case {
	if idx < len(c01Corpus) {
		return []Case{c01Corpus[idx]()}
	}
	if idx%24 == 11 {
		return []Case{c01SineGen(rng, idx)}
	}
	if idx%24 == 3 {
		return []Case{c01LinGen(rng, idx)}
	}
	if idx%4 != 0 {
		// single call on the lattice
		f, p, t := pick64(rng), pick64(rng), pick64(rng)
		var k uint64
		switch rng.Intn(5) {
		case 0:
			k = uint64(pick64(rng))
		case 1:
			k = math.MaxUint64 - uint64(rng.Intn(3))
		case 2:
			// near the schedule
			if f > 0 && p > 0 && t >= 0 {
				k = uint64(float64(f) * float64(t) / float64(p))
				k += uint64(rng.Intn(5)) - 2
			}
		default:
			k = uint64(rng.Int63n(1e6))
		}
		return []Case{c01Call(int(f), time.Duration(p), time.Duration(t), k)}
	}
	// closed loop
	var f, p int64
	switch rng.Intn(6) {
	case 0:
		f, p = 1+rng.Int63n(50), 1e9
	case 1:
		f, p = 1+rng.Int63n(10), 1+rng.Int63n(20) // rates around and above 1/ns, mostly not dividing
	case 2:
		f, p = 1+rng.Int63n(1000), 1+rng.Int63n(1e6)
	case 3:
		f, p = 3, 10
	case 4:
		f, p = 2e9, 1e9
	default:
		f, p = 1+rng.Int63n(1e6), 1e9*(1+rng.Int63n(60))
	}
	n := 10 + rng.Intn(400)
	if idx%400 == 0 {
		n = 20000
	}
	stalls := make([]int64, n)
	mode := rng.Intn(3)
	for i := range stalls {
		switch mode {
		case 0: // stall free
		case 1:
			if rng.Intn(10) == 0 {
				stalls[i] = rng.Int63n(10 * (p/f + 1))
			}
		default:
			stalls[i] = rng.Int63n(3 * (p/f + 1))
		}
	}
	return []Case{c01Loop(int(f), time.Duration(p), stalls)}
}

func c01Call(f int, p, t time.Duration, k uint64) Case {
	var c Case
	cp := vegeta.ConstantPacer{Freq: f, Per: p}
	o := callPace(cp, t, k)
	w := &c.W
	w.Z(1)
	w.I(f); w.Z(int64(p)); w.Z(int64(t)); w.U(k)
	w.Out(o)
	w.F(cp.Rate(t))
	c.Tag = "const.call"
	if f > 0 && p > 0 {
		c.Tag += ";nt"
	}
	reg := "degenerate"
	if f > 0 && p > 0 {
		reg = "regular"
		if int64(f) > int64(p) {
			reg = "above1perns"
		} else if int64(p)%int64(f) != 0 {
			reg = "nondividing"
		}
	}
	c.Dist = fmt.Sprintf("const.call/%s/out%d", reg, o.kind)
	c.Sample = map[string]interface{}{"pacer": fmt.Sprintf("Constant{%d/%d}", f, p), "elapsed": int64(t), "hits": k, "out": []int64{int64(o.kind), o.w}}
	return c
}

func c01Loop(f int, p time.Duration, stalls []int64) Case {
	var c Case
	cp := vegeta.ConstantPacer{Freq: f, Per: p}
	var t int64
	var k uint64
	var rel []int64
	fin := paceOut{}
	for _, s := range stalls {
		tc := t + s
		o := callPace(cp, time.Duration(tc), k)
		if o.kind != 0 {
			fin = o
			break
		}
		wt := o.w
		if wt < 0 {
			wt = 0
		}
		t = tc + wt
		k++
		rel = append(rel, t)
	}
	w := &c.W
	w.Z(2)
	w.I(f); w.Z(int64(p))
	w.Zs(stalls)
	w.Zs(rel)
	w.Out(fin)
	stallfree := true
	for _, s := range stalls {
		if s != 0 {
			stallfree = false
		}
	}
	c.Tag = "const.loop"
	if stallfree {
		c.Tag += ".stallfree"
	}
	c.Tag += ";nt"
	reg := "regular"
	if int64(f) > int64(p) {
		reg = "above1perns"
	} else if int64(p)%int64(f) != 0 {
		reg = "nondividing"
	}
	c.Dist = fmt.Sprintf("const.loop/%s/stallfree=%v/n%d", reg, stallfree, sizeClass(len(stalls)))
	c.Sample = map[string]interface{}{"pacer": fmt.Sprintf("Constant{%d/%d}", f, p), "stalls": clip(stalls, 8), "releases": clip(rel, 8), "n": len(rel)}
	return c
}

var c01Corpus = []func() Case{
	func() Case { return c01Call(2000000000, time.Second, 0, 0) },  // interval 0 in the pinned code
	func() Case { return c01Call(3, 10, 297, 99) },                 // drift
	func() Case { return c01Call(1, time.Hour, 0, 2562047) },       // overflow guard off by one
	func() Case { return c01Loop(3, 10, make([]int64, 200)) },
	func() Case { return c01Loop(2000000000, time.Second, make([]int64, 50)) },
	func() Case { return c01Call(1, time.Second, time.Second, math.MaxUint64) },
}

// ---- linear pacer: closed loop in virtual time, every call recorded ------------------------------
func c01LinGen(rng *rand.Rand, idx int) Case {
	var f int64 = 1 + rng.Int63n(1000)
	var per int64 = 1e9
	var slope float64
	switch rng.Intn(8) {
	case 0: // flat
		slope = 0
	case 1: // steep
		slope = float64(1+rng.Intn(1000)) * 1000
	case 2: // decreasing: the rate reaches zero after f/|slope| seconds
		slope = -float64(f) / (0.5 + rng.Float64()*20)
	case 3:
		f, per = 1+rng.Int63n(50), int64(1+rng.Intn(60))*1e9
		slope = rng.Float64() * 3
	case 4: // degenerate and negative parameters
		f, per = []int64{0, -1, 5, 5, -3}[rng.Intn(5)], []int64{1e9, 1e9, 0, -1e9, -1}[rng.Intn(5)]
		slope = rng.NormFloat64()
	case 5: // high rates
		f = 1e6 * (1 + rng.Int63n(100))
		slope = rng.Float64() * 1e6
	default:
		slope = rng.Float64() * float64(f)
	}
	n := 20 + rng.Intn(250)
	stalls := make([]int64, n)
	mode := rng.Intn(3)
	for i := range stalls {
		iv := per / max64(f, 1)
		if iv < 0 || iv > 1e12 {
			iv = 1e9
		}
		switch mode {
		case 1:
			if rng.Intn(10) == 0 {
				stalls[i] = rng.Int63n(10*iv + 1)
			}
		case 2:
			stalls[i] = rng.Int63n(3*iv + 1)
		}
	}
	return c01LinLoop(int(f), time.Duration(per), slope, stalls)
}

func max64(a, b int64) int64 {
	if a > b {
		return a
	}
	return b
}

type paceCall struct {
	tc int64
	k  uint64
	o  paceOut
}

func c01LinLoop(f int, per time.Duration, slope float64, stalls []int64) Case {
	var c Case
	lp := vegeta.LinearPacer{StartAt: vegeta.Rate{Freq: f, Per: per}, Slope: slope}
	var t int64
	var k uint64
	var calls []paceCall
	for _, s := range stalls {
		tc := t + s
		o := callPace(lp, time.Duration(tc), k)
		calls = append(calls, paceCall{tc, k, o})
		if o.kind != 0 {
			break
		}
		wt := o.w
		if wt < 0 {
			wt = 0
		}
		if tc+wt < tc { // the virtual clock would wrap
			break
		}
		t = tc + wt
		k++
	}
	w := &c.W
	w.Z(3)
	w.I(f); w.Z(int64(per)); w.F(slope)
	w.I(len(calls))
	for _, cl := range calls {
		w.Z(cl.tc); w.U(cl.k); w.Out(cl.o)
	}
	// Rate() at a few instants
	w.I(3)
	for _, tt := range []int64{0, t / 2, t} {
		w.Z(tt)
		w.F(lp.Rate(time.Duration(tt)))
	}
	cls := "linear.pos"
	switch {
	case f <= 0 || per <= 0:
		cls = "linear.degenerate"
	case slope < 0:
		cls = "linear.negslope"
	case slope == 0:
		cls = "linear.flat"
	}
	c.Tag = cls + ";nt"
	c.Dist = fmt.Sprintf("%s/n%d", cls, sizeClass(len(calls)))
	c.Sample = map[string]interface{}{"pacer": fmt.Sprintf("Linear{%d/%d slope %g}", f, int64(per), slope), "calls": len(calls), "end": t, "hits": k}
	return c
}

// ---- sine pacer: closed loop in virtual time ------------------------------------------------------
func c01SineGen(rng *rand.Rand, idx int) Case {
	period := []int64{1e9, 10e9, 60e9, 1200e9, 1e15, 2500e6, 500e6, 1500e6, 7300e6 + 1}[rng.Intn(9)]
	mf := int64(1 + rng.Intn(1000))
	mp := int64(1e9)
	if rng.Intn(4) == 0 {
		mp = int64(1+rng.Intn(60)) * 1e9
	}
	// amplitude as a fraction of the mean, up to just below it
	num := []int64{0, 1, 5, 9, 99, 999, 9999}[rng.Intn(7)]
	den := []int64{1, 10, 10, 10, 100, 1000, 10000}[0]
	switch num {
	case 0:
		den = 1
	case 1, 5, 9:
		den = 10
	case 99:
		den = 100
	case 999:
		den = 1000
	default:
		den = 10000
	}
	af, ap := mf*num, mp*den
	start := []float64{vegeta.MeanUp, vegeta.Peak, vegeta.MeanDown, vegeta.Trough, rng.Float64() * 2 * math.Pi}[rng.Intn(5)]
	if rng.Intn(12) == 0 { // invalid configurations must stop the attack
		switch rng.Intn(3) {
		case 0:
			period = -period
		case 1:
			mf = 0
		default:
			af, ap = mf*2, mp
		}
	}
	n := 20 + rng.Intn(300)
	stalls := make([]int64, n)
	mode := rng.Intn(3)
	iv := int64(1e9)
	if mf != 0 {
		iv = mp / mf
	}
	for i := range stalls {
		switch mode {
		case 1:
			if rng.Intn(10) == 0 {
				stalls[i] = rng.Int63n(10*iv + 1)
			}
		case 2:
			stalls[i] = rng.Int63n(3*iv + 1)
		}
	}
	return c01SineLoop(period, mf, mp, af, ap, start, stalls)
}

func c01SineLoop(period, mf, mp, af, ap int64, start float64, stalls []int64) Case {
	var c Case
	sp := vegeta.SinePacer{Period: time.Duration(period), Mean: vegeta.Rate{Freq: int(mf), Per: time.Duration(mp)},
		Amp: vegeta.Rate{Freq: int(af), Per: time.Duration(ap)}, StartAt: start}
	var t int64
	var k uint64
	var calls []paceCall
	stallfree := true
	for _, s := range stalls {
		if s != 0 {
			stallfree = false
		}
		tc := t + s
		o := callPace(sp, time.Duration(tc), k)
		calls = append(calls, paceCall{tc, k, o})
		if o.kind != 0 {
			break
		}
		wt := o.w
		if wt < 0 {
			wt = 0
		}
		if tc+wt < tc || tc+wt > 4e18 {
			break
		}
		t = tc + wt
		k++
	}
	w := &c.W
	w.Z(4)
	w.Z(period); w.Z(mf); w.Z(mp); w.Z(af); w.Z(ap); w.F(start)
	w.Bool(stallfree)
	w.I(len(calls))
	for _, cl := range calls {
		w.Z(cl.tc); w.U(cl.k); w.Out(cl.o)
	}
	w.I(3)
	for _, tt := range []int64{0, t / 3, t} {
		w.Z(tt)
		w.F(sp.Rate(time.Duration(tt)))
	}
	cls := "sine.loop"
	if period <= 0 || mf <= 0 || float64(af)/float64(ap) >= float64(mf)/float64(mp) {
		cls = "sine.invalid"
	} else if stallfree {
		cls = "sine.loop.stallfree"
	}
	c.Tag = cls + ";nt"
	ratio := "amp0"
	if af > 0 {
		ratio = fmt.Sprintf("amp%.4g", float64(af)/float64(ap)/(float64(mf)/float64(mp)))
	}
	c.Dist = fmt.Sprintf("%s/%s/n%d", cls, ratio, sizeClass(len(calls)))
	c.Sample = map[string]interface{}{"pacer": sp.String(), "calls": len(calls), "end": t, "hits": k}
	return c
}
