package main

import (
	"bytes"
	"encoding/json"
	"fmt"
	"math/rand"
	"net/http"
	"os"
	"path/filepath"
	"reflect"
	"strings"

	vegeta "github.com/tsenart/vegeta/v12/lib"
)

func init() {
	register("C14", &Prop{ID: 14,
		N: func(tier string) int {
			if tier == "thorough" {
				return 30000
			}
			return 3000
		},
		Run: runC14,
	})
}

type tdesc struct {
	method, url string
	hdr         [][2]string
	bodyFile    string
	body        []byte
}

func cloneHeader(h http.Header) http.Header {
	if h == nil {
		return nil
	}
	c := http.Header{}
	for k, v := range h {
		c[k] = append([]string(nil), v...)
	}
	return c
}

// defaults with or without spare capacity in the value slices
func genDefaults(rng *rand.Rand) (http.Header, []byte) {
	h := http.Header{}
	keys := []string{"X-A", "x-a", "Content-Type", "X-D"}
	n := rng.Intn(4)
	for i := 0; i < n; i++ {
		k := keys[rng.Intn(len(keys))]
		nv := 1 + rng.Intn(3)
		vs := make([]string, 0, nv+rng.Intn(3)) // spare capacity 0..2
		for j := 0; j < nv; j++ {
			vs = append(vs, fmt.Sprintf("d%d", j))
		}
		h[k] = vs
	}
	var body []byte
	if rng.Intn(2) == 0 {
		body = []byte("default-body")
	}
	return h, body
}

func (w *W) Target(t *vegeta.Target) {
	w.Str(t.Method); w.Str(t.URL); w.Bytes(t.Body); w.Header(t.Header)
}

type tobs struct {
	kind  int // 0 ok, 1 no targets, 2 error
	early vegeta.Target
	final *vegeta.Target
}

func drainTargeter(tr vegeta.Targeter, ncalls int) []tobs {
	var out []tobs
	for i := 0; i < ncalls; i++ {
		t := new(vegeta.Target)
		err := tr(t)
		o := tobs{}
		switch {
		case err == nil:
			o.kind = 0
			o.early = vegeta.Target{Method: t.Method, URL: t.URL, Body: append([]byte(nil), t.Body...), Header: cloneHeader(t.Header)}
			o.final = t
		case err == vegeta.ErrNoTargets:
			o.kind = 1
		default:
			o.kind = 2
		}
		out = append(out, o)
	}
	return out
}

// eagerAgrees: ReadAllTargets over a fresh targeter returns the targets the call-by-call reading
// returned (compared as values), when that reading ended in exhaustion without an error
func eagerAgrees(mk func() vegeta.Targeter, obs []tobs) bool {
	var want []vegeta.Target
	for _, o := range obs {
		if o.kind == 2 {
			return true // the file has a malformed entry: ReadAllTargets reports the error, nothing to compare
		}
		if o.kind == 0 {
			want = append(want, o.early)
		}
	}
	if len(want) == 0 {
		return true
	}
	got, err := vegeta.ReadAllTargets(mk())
	if err != nil || len(got) != len(want) {
		return false
	}
	for i := range got {
		if got[i].Method != want[i].Method || got[i].URL != want[i].URL || !bytes.Equal(got[i].Body, want[i].Body) ||
			!reflect.DeepEqual(map[string][]string(got[i].Header), map[string][]string(want[i].Header)) {
			return false
		}
	}
	// the attack command's default path hands the list to a static targeter: it gives the
	// targets in file order, starting with the first, and starts over after the last
	st := vegeta.NewStaticTargeter(got...)
	for i := 0; i < len(got)+2; i++ {
		var t vegeta.Target
		if st(&t) != nil {
			return false
		}
		w := want[i%len(want)]
		if t.Method != w.Method || t.URL != w.URL || !bytes.Equal(t.Body, w.Body) ||
			!reflect.DeepEqual(map[string][]string(t.Header), map[string][]string(w.Header)) {
			return false
		}
	}
	return true
}

func (w *W) Obs(obs []tobs) {
	w.I(len(obs))
	for _, o := range obs {
		w.I(o.kind)
		if o.kind == 0 {
			w.Target(o.final)
			same := o.early.Method == o.final.Method && o.early.URL == o.final.URL &&
				bytes.Equal(o.early.Body, o.final.Body) && reflect.DeepEqual(map[string][]string(o.early.Header), map[string][]string(o.final.Header))
			w.Bool(same)
		}
	}
}

func runC14(idx int, rng *rand.Rand, tier string) []Case {
	if idx < len(c14Corpus) {
		return []Case{c14HTTPRaw(idx, rng, c14Corpus[idx].src, c14Corpus[idx].hdr, nil, c14Corpus[idx].want)}
	}
	if idx%3 == 2 {
		return []Case{c14JSON(idx, rng)}
	}
	return []Case{c14HTTP(idx, rng)}
}

func c14HTTP(idx int, rng *rand.Rand) Case {
	n := 1 + rng.Intn(6)
	if rng.Intn(10) == 0 {
		n = 20 + rng.Intn(31)
	}
	methods := []string{"GET", "POST", "PUT", "DELETE", "HEAD", "PATCH", "OPTIONS", "X"}
	keys := []string{"X-A", "x-a", "Content-Type", "content-type", "X-Account-ID", "Authorization", "x_y", "A-b-C", "Accept"}
	var ds []tdesc
	dir := filepath.Join(scratchDir(), fmt.Sprintf("c14_%d", idx))
	os.MkdirAll(dir, 0o755)
	defer os.RemoveAll(dir)
	var files [][2][]byte
	for i := 0; i < n; i++ {
		d := tdesc{method: methods[rng.Intn(len(methods))], url: fmt.Sprintf("http://h%d.example:%d/p/%d?q=%d", rng.Intn(3), 80+rng.Intn(3), i, rng.Intn(9))}
		if rng.Intn(6) == 0 {
			// URLs a URL library would write differently: the target carries the file's own text
			d.url = []string{"HTTP://GOKU.example/Up", "http://h.example/page#section", "http://h.example/a|b^c", "http://h.example/caf\u00e9",
				"http://h.example/%7Euser/%41", "https://h.example:8443/x?y=\"z\""}[rng.Intn(6)]
		}
		nh := rng.Intn(4)
		if rng.Intn(6) == 0 {
			nh = 5 + rng.Intn(4)
		}
		for j := 0; j < nh; j++ {
			d.hdr = append(d.hdr, [2]string{keys[rng.Intn(len(keys))], []string{"1", "a b", "x:y", "t=1; u=2", "#notcomment", "@notfile", "http://h:80/p?q=1", "::1", "12:30:45", "a: b"}[rng.Intn(10)]})
		}
		if rng.Intn(4) == 0 {
			d.body = []byte(fmt.Sprintf("body-%d-%d", idx, i))
			d.bodyFile = filepath.Join(dir, fmt.Sprintf("b%d.json", i))
			os.WriteFile(d.bodyFile, d.body, 0o644)
			files = append(files, [2][]byte{[]byte(d.bodyFile), d.body})
		}
		ds = append(ds, d)
	}
	// render with a random legal layout
	var b strings.Builder
	nl := "\n"
	if rng.Intn(6) == 0 {
		nl = "\r\n"
	}
	comment := func() {
		for rng.Intn(4) == 0 {
			b.WriteString([]string{"# a comment", "#", "  # indented comment", "# GET http://not/a/target", "#X-A: 1"}[rng.Intn(5)] + nl)
		}
	}
	blank := func() {
		for rng.Intn(4) == 0 {
			b.WriteString([]string{"", " ", "\t"}[rng.Intn(3)] + nl)
		}
	}
	sp := func() string { return []string{"", " ", "  "}[rng.Intn(3)] }
	for i, d := range ds {
		blank()
		comment()
		blank()
		b.WriteString(sp() + d.method + " " + d.url + sp() + nl)
		needBlank := false
		for _, h := range d.hdr {
			comment()
			b.WriteString(sp() + h[0] + ":" + sp() + h[1] + sp() + nl)
			needBlank = true
		}
		if d.bodyFile != "" {
			comment()
			b.WriteString(sp() + "@" + d.bodyFile + sp() + nl)
			needBlank = false // the body line ends the target
		}
		if len(d.hdr) == 0 && d.bodyFile == "" {
			comment() // a comment directly after a header-less request line
		} else if needBlank {
			comment()
		}
		last := i == len(ds)-1
		if needBlank && !last {
			b.WriteString(nl)
		} else if rng.Intn(3) == 0 {
			b.WriteString(nl)
		}
	}
	src := b.String()
	if rng.Intn(5) == 0 {
		src = strings.TrimSuffix(src, nl)
	}
	dh, db := genDefaults(rng)
	var want []vegeta.Target
	for _, d := range ds {
		t := vegeta.Target{Method: d.method, URL: d.url, Body: db, Header: http.Header{}}
		if d.bodyFile != "" {
			t.Body = d.body
		}
		for k, vs := range dh {
			t.Header[k] = append([]string(nil), vs...)
		}
		for _, h := range d.hdr {
			t.Header[h[0]] = append(t.Header[h[0]], h[1])
		}
		want = append(want, t)
	}
	c := c14HTTPRaw(idx, rng, src, dh, db, want)
	for _, f := range files {
		_ = f
	}
	return c
}

func c14HTTPRaw(idx int, rng *rand.Rand, src string, dh http.Header, db []byte, want []vegeta.Target) Case {
	var c Case
	w := &c.W
	w.Z(1)
	w.Str(src)
	// files referenced by @ lines: read them now (the sandbox directory is removed afterwards)
	var files [][2][]byte
	for _, line := range strings.Split(src, "\n") {
		l := strings.TrimSpace(line)
		if strings.HasPrefix(l, "@") {
			if content, err := os.ReadFile(l[1:]); err == nil {
				files = append(files, [2][]byte{[]byte(l[1:]), content})
			}
		}
	}
	w.I(len(files))
	for _, f := range files {
		w.Bytes(f[0]); w.Bytes(f[1])
	}
	w.Bytes(db)
	before := cloneHeader(dh)
	w.Header(before)
	ncalls := len(want) + 2
	if want == nil {
		ncalls = strings.Count(src, "\n") + 3
	}
	w.I(ncalls)
	tr := vegeta.NewHTTPTargeter(strings.NewReader(src), db, dh)
	obs := drainTargeter(tr, ncalls)
	w.Obs(obs)
	w.Bool(reflect.DeepEqual(map[string][]string(before), map[string][]string(dh)) && sameSlicesFull(before, dh))
	// intent
	w.Bool(want != nil)
	w.I(len(want))
	for i := range want {
		w.Target(&want[i])
	}
	w.Bool(eagerAgrees(func() vegeta.Targeter { return vegeta.NewHTTPTargeter(strings.NewReader(src), db, cloneHeader(before)) }, obs))
	c.Tag = "http"
	if want != nil {
		c.Tag += ".wf"
	}
	c.Tag += ";nt"
	c.Dist = fmt.Sprintf("http/targets%d/defaults%d", sizeClass(len(want)), len(dh))
	c.Sample = map[string]interface{}{"format": "http", "file": clipStr(src, 400), "defaults": dh, "targets": len(want)}
	return c
}

// sameSlicesFull also compares the spare capacity of the default slices (writes into it are
// invisible through len but are what later appends would expose)
func sameSlicesFull(a, b http.Header) bool {
	for k, vb := range b {
		va := a[k]
		full := vb[:cap(vb)]
		for i := len(va); i < len(full); i++ {
			if full[i] != "" {
				return false
			}
		}
	}
	return true
}

func clipStr(s string, n int) string {
	if len(s) > n {
		return s[:n] + "..."
	}
	return s
}

type jsonTargetDoc struct {
	Method string              `json:"method"`
	URL    string              `json:"url"`
	Body   []byte              `json:"body"`
	Header map[string][]string `json:"header"`
}

func c14JSON(idx int, rng *rand.Rand) Case {
	n := 1 + rng.Intn(6)
	var want []vegeta.Target
	var src bytes.Buffer
	enc := vegeta.NewJSONTargetEncoder(&src)
	dh, db := genDefaults(rng)
	wellformed := true
	type lineinfo struct {
		blank, term bool
		ok          bool
		doc         jsonTargetDoc
		raw         []byte
		written     bool // a line the real encoder wrote (not hand-written text)
	}
	written := map[string]bool{}
	var lines []lineinfo
	for i := 0; i < n; i++ {
		t := vegeta.Target{Method: []string{"GET", "POST", "PUT"}[rng.Intn(3)], URL: fmt.Sprintf("http://j%d.example/%d", rng.Intn(3), i)}
		if rng.Intn(3) == 0 {
			t.Body = []byte(fmt.Sprintf("jb-%d \" \\ \n é", i))
		}
		nh := rng.Intn(4)
		for j := 0; j < nh; j++ {
			if t.Header == nil {
				t.Header = http.Header{}
			}
			k := []string{"X-A", "x-a", "Content-Type", "X-J"}[rng.Intn(4)]
			t.Header[k] = append(t.Header[k], []string{"1", "a \"q\"", "ü", "<&>"}[rng.Intn(4)])
		}
		for rng.Intn(5) == 0 {
			src.WriteString([]string{"\n", "  \n", "\t\n"}[rng.Intn(3)])
		}
		switch rng.Intn(14) {
		case 0:
			wellformed = false
			src.WriteString([]string{"{\"method\":\"GET\"}\n", "{\"url\":\"http://x\"}\n", "{not json}\n", "[]\n", "{}\n"}[rng.Intn(5)])
			continue
		}
		at := src.Len()
		if err := enc.Encode(&t); err != nil {
			panic(err)
		}
		written[strings.TrimSuffix(string(src.Bytes()[at:]), "\n")] = true
		w := vegeta.Target{Method: t.Method, URL: t.URL, Body: db, Header: http.Header{}}
		if len(t.Body) > 0 {
			w.Body = t.Body
		}
		for k, vs := range dh {
			w.Header[k] = append([]string(nil), vs...)
		}
		for k, vs := range t.Header {
			w.Header[k] = append(w.Header[k], vs...)
		}
		want = append(want, w)
	}
	raw := src.Bytes()
	if rng.Intn(8) == 0 && len(raw) > 0 {
		raw = raw[:len(raw)-1] // last line not newline-terminated
		wellformed = false
	}
	// meaning of each line by an independent decoder (encoding/json)
	rest := raw
	for len(rest) > 0 {
		i := bytes.IndexByte(rest, '\n')
		var l []byte
		li := lineinfo{term: i >= 0}
		if i >= 0 {
			l, rest = rest[:i], rest[i+1:]
		} else {
			l, rest = rest, nil
		}
		tl := bytes.TrimSpace(l)
		li.blank = len(tl) == 0
		if !li.blank {
			dec := json.NewDecoder(bytes.NewReader(tl))
			li.ok = dec.Decode(&li.doc) == nil && !dec.More()
		}
		li.raw = append([]byte(nil), l...)
		li.written = written[string(l)]
		lines = append(lines, li)
	}
	var c Case
	w := &c.W
	w.Z(2)
	w.I(len(lines))
	for _, li := range lines {
		w.Bool(li.written)
		w.Bool(li.blank); w.Bool(li.term)
		if li.ok {
			w.Z(1)
			w.Str(li.doc.Method); w.Str(li.doc.URL); w.Bytes(li.doc.Body); w.Header(http.Header(li.doc.Header))
		} else {
			w.Z(0)
		}
		w.Bytes(li.raw)
	}
	w.Bytes(db)
	before := cloneHeader(dh)
	w.Header(before)
	ncalls := len(lines) + 2
	w.I(ncalls)
	tr := vegeta.NewJSONTargeter(bytes.NewReader(raw), db, dh)
	obs := drainTargeter(tr, ncalls)
	w.Obs(obs)
	w.Bool(reflect.DeepEqual(map[string][]string(before), map[string][]string(dh)) && sameSlicesFull(before, dh))
	w.Bool(wellformed)
	if wellformed {
		w.I(len(want))
		for i := range want {
			w.Target(&want[i])
		}
	} else {
		w.I(0)
	}
	w.Bool(eagerAgrees(func() vegeta.Targeter { return vegeta.NewJSONTargeter(bytes.NewReader(raw), db, cloneHeader(before)) }, obs))
	c.Tag = "json"
	if wellformed {
		c.Tag += ".wf"
	}
	c.Tag += ";nt"
	c.Dist = fmt.Sprintf("json/targets%d/wf=%v", sizeClass(len(want)), wellformed)
	c.Sample = map[string]interface{}{"format": "json", "file": clipStr(string(raw), 400), "targets": len(want)}
	return c
}

var c14Corpus = []struct {
	src  string
	hdr  http.Header
	want []vegeta.Target
}{
	{"GET http://a/\n# c\nGET http://b/\n", nil, []vegeta.Target{{Method: "GET", URL: "http://a/", Header: http.Header{}}, {Method: "GET", URL: "http://b/", Header: http.Header{}}}},
	{"# get a dragon ball\nGET http://goku:9090/path/to/dragon?item=ball\n# specify a test account\nX-Account-ID: 99\n", nil,
		[]vegeta.Target{{Method: "GET", URL: "http://goku:9090/path/to/dragon?item=ball", Header: http.Header{"X-Account-ID": {"99"}}}}},
	{"GET http://a/\nX-A: one\n\nGET http://b/\nX-A: two\n", http.Header{"X-A": append(make([]string, 0, 4), "d0", "d1", "d2")},
		[]vegeta.Target{{Method: "GET", URL: "http://a/", Header: http.Header{"X-A": {"d0", "d1", "d2", "one"}}}, {Method: "GET", URL: "http://b/", Header: http.Header{"X-A": {"d0", "d1", "d2", "two"}}}}},
}
