package main

import (
	"strconv"
	"os"
	"bytes"
	"encoding/json"
	"fmt"
	"math"
	"math/rand"
	"regexp"
	"sort"
	"strings"
	"time"

	vegeta "github.com/tsenart/vegeta/v12/lib"
	"github.com/tsenart/vegeta/v12/lib/lttb"
	"github.com/tsenart/vegeta/v12/lib/plot"
)

func init() {
	register("C17", &Prop{ID: 17,
		N: func(tier string) int {
			if tier == "thorough" {
				return 67*67 + 3000
			}
			return 41*43 + 400
		},
		Run: runC17,
	})
}

var (
	dataRe = regexp.MustCompile(`(?s)var data = (.*?);\s*var plot`)
	optsRe = regexp.MustCompile(`(?s)var opts = (\{.*?\});\s*var data`)
)

type c17series struct {
	attack int
	err    bool
	pts    [][2]int64
}

// renderPlot adds the results in the given order and returns the data block of the written
// HTML, per series, or an error flag.
func renderPlot(rs []vegeta.Result, threshold int, names []string) ([]c17series, []int64, bool) {
	p := plot.New(plot.Title("t"), plot.Downsample(threshold), plot.Label(plot.ErrorLabeler))
	for i := range rs {
		if err := p.Add(&rs[i]); err != nil {
			return nil, nil, true
		}
	}
	p.Close()
	var buf bytes.Buffer
	if _, err := p.WriteTo(&buf); err != nil {
		return nil, nil, true
	}
	return parsePlotHTML(buf.String(), names)
}

// parsePlotHTML extracts the per-series points (in row order) and the x of every row
func parsePlotHTML(html string, names []string) ([]c17series, []int64, bool) {
	dm := dataRe.FindStringSubmatch(html)
	om := optsRe.FindStringSubmatch(html)
	if dm == nil || om == nil {
		return nil, nil, true
	}
	var opts struct{ Labels []string }
	if err := json.Unmarshal([]byte(om[1]), &opts); err != nil {
		return nil, nil, true
	}
	var rows [][]float64
	if err := json.Unmarshal([]byte(strings.ReplaceAll(dm[1], "NaN", "null")), &rowsNull{&rows}); err != nil {
		return nil, nil, true
	}
	var out []c17series
	for col := 1; col < len(opts.Labels); col++ {
		lab := opts.Labels[col]
		s := c17series{attack: -1}
		for i, n := range names {
			if strings.HasPrefix(lab, n+": ") {
				s.attack = i
				s.err = strings.TrimPrefix(lab, n+": ") == "ERROR"
			}
		}
		for _, row := range rows {
			if col < len(row) && !math.IsNaN(row[col]) {
				s.pts = append(s.pts, [2]int64{int64(math.Round(row[0] * 1000)), int64(math.Round(row[col] * 1e6))})
			}
		}
		out = append(out, s)
	}
	var rowx []int64 // x of every row of the data block, in the order written
	for _, row := range rows {
		if len(row) > 0 {
			rowx = append(rowx, int64(math.Round(row[0]*1000)))
		}
	}
	return out, rowx, false
}

// rowsNull decodes [[x, y|null, ...], ...] with null as NaN
type rowsNull struct{ rows *[][]float64 }

func (r *rowsNull) UnmarshalJSON(b []byte) error {
	var raw [][]*float64
	if err := json.Unmarshal(b, &raw); err != nil {
		return err
	}
	for _, row := range raw {
		fr := make([]float64, len(row))
		for i, v := range row {
			if v == nil {
				fr[i] = math.NaN()
			} else {
				fr[i] = *v
			}
		}
		*r.rows = append(*r.rows, fr)
	}
	return nil
}

func (w *W) Series(ss []c17series) {
	w.I(len(ss))
	for _, s := range ss {
		w.I(s.attack)
		w.Bool(s.err)
		w.I(len(s.pts))
		for _, p := range s.pts {
			w.Z(p[0]); w.Z(p[1])
		}
	}
}

func runC17(idx int, rng *rand.Rand, tier string) []Case {
	maxc := 40
	if tier == "thorough" {
		maxc = 66
	}
	grid := (maxc + 1) * (maxc + 3)
	if idx < grid {
		return []Case{c17LTTB(idx/(maxc+3), idx%(maxc+3), rng)}
	}
	if (idx-grid)%4 == 0 {
		c := 100 + rng.Intn(4900)
		return []Case{c17LTTB(c, []int{0, 1, 2, 3, 4, c - 1, c, c + 1, 1 + rng.Intn(c)}[rng.Intn(9)], rng)}
	}
	// plot rows
	nattacks := 1 + rng.Intn(3)
	names := []string{"alpha", "beta", "gamma"}[:nattacks]
	var all []vegeta.Result
	var ids []int
	base := time.Unix(1600000000, 0)
	outOfDomain := rng.Intn(12) == 0
	for a := 0; a < nattacks; a++ {
		n := 1 + rng.Intn(60)
		if rng.Intn(12) == 0 {
			n = 200 + rng.Intn(400)
		}
		ts := base.Add(time.Duration(rng.Intn(1e6)))
		for i := 0; i < n; i++ {
			switch rng.Intn(5) {
			case 0: // same instant
			case 1:
				ts = ts.Add(time.Duration(rng.Intn(1e6)))
			case 2:
				ts = ts.Add(time.Duration(rng.Int63n(120e9)))
			default:
				ts = ts.Add(time.Duration(rng.Intn(30e6)))
			}
			r := vegeta.Result{Attack: names[a], Seq: uint64(i), Timestamp: ts, Latency: time.Duration(rng.Int63n(5e9)), Code: 200}
			if rng.Intn(4) == 0 {
				r.Error = "boom"
				r.Code = 500
			}
			all = append(all, r)
			ids = append(ids, a)
		}
	}
	if outOfDomain && len(all) > 3 {
		// a timestamp that goes back in sequence order: outside the property, still compared with the model
		j := 1 + rng.Intn(len(all)-1)
		all[j].Timestamp = all[j].Timestamp.Add(-time.Duration(1+rng.Intn(5000)) * time.Millisecond)
	}
	// arrival order: a random permutation, or nearly sorted (completion order)
	perm := rng.Perm(len(all))
	if rng.Intn(3) == 0 {
		perm = make([]int, len(all))
		for i := range perm {
			perm[i] = i
		}
		for k := 0; k < len(all)/3; k++ {
			i := rng.Intn(len(all))
			j := i + rng.Intn(5)
			if j < len(all) {
				perm[i], perm[j] = perm[j], perm[i]
			}
		}
	}
	arr := make([]vegeta.Result, len(all))
	aid := make([]int, len(all))
	for i, p := range perm {
		arr[i], aid[i] = all[p], ids[p]
	}
	full, fullx, addErr := renderPlot(arr, 0, names)
	th := []int{0, 1, 2, 3, 5, 10, 50, 4000}[rng.Intn(8)]
	down, downx, downErr := renderPlot(arr, th, names)
	var c Case
	w := &c.W
	w.Z(1)
	w.I(nattacks)
	w.I(len(arr))
	for i, r := range arr {
		w.I(aid[i]); w.U(r.Seq); w.Z(r.Timestamp.UnixNano()); w.Z(int64(r.Latency)); w.Bool(r.Error != "")
	}
	w.Bool(addErr)
	w.Series(full)
	w.Zs(fullx)
	w.I(th)
	w.Bool(downErr)
	w.Series(down)
	w.Zs(downx)
	// the plot command on a result file in arrival order must plot what the library plots
	cliSame := true
	if idx%10 == 7 && os.Getenv("VERIF_VEGETA") != "" {
		cliSame = c17CLI(idx, arr, th, names, down, downErr)
	}
	w.Bool(cliSame)
	c.Tag = "plot"
	if outOfDomain {
		c.Tag = "plot.ood"
	}
	c.Tag += ";nt"
	c.Dist = fmt.Sprintf("plot/attacks%d/n%d/th%d/ood=%v", nattacks, sizeClass(len(arr)), th, outOfDomain)
	sort.Ints(perm[:0])
	c.Sample = map[string]interface{}{"attacks": nattacks, "results": len(arr), "threshold": th, "add_error": addErr, "series": len(full)}
	return []Case{c}
}

func c17LTTB(count, th int, rng *rand.Rand) Case {
	var asked []int64
	pos := 0
	it := func(n int) ([]lttb.Point, error) {
		asked = append(asked, int64(n))
		var ps []lttb.Point
		for i := 0; i < n && pos < count; i++ {
			ps = append(ps, lttb.Point{X: float64(pos), Y: float64(rng.Intn(1000))})
			pos++
		}
		return ps, nil
	}
	kind := int64(0)
	var out []int64
	func() {
		defer func() {
			if recover() != nil {
				kind = 2
			}
		}()
		pts, err := lttb.Downsample(count, th, it)
		if err != nil {
			kind = 1
			return
		}
		for _, p := range pts {
			out = append(out, int64(p.X))
		}
	}()
	var c Case
	w := &c.W
	w.Z(2)
	w.I(count); w.I(th)
	w.Zs(asked)
	w.Z(kind)
	w.Zs(out)
	c.Tag = "lttb"
	if th >= 3 && th < count {
		c.Tag += ";nt"
	}
	c.Dist = fmt.Sprintf("lttb/count%d/out%d", sizeClass(count), kind)
	c.Sample = map[string]interface{}{"count": count, "threshold": th, "asked": asked, "outcome": kind, "points": clip(out, 12)}
	return c
}

func c17CLI(idx int, arr []vegeta.Result, th int, names []string, want []c17series, wantErr bool) bool {
	in := writeTemp(idx, "plot.bin", encodeResults(arr, []string{"gob", "json", "csv"}[idx%3]))
	defer os.Remove(in)
	files := []string{in}
	if idx%20 == 17 && len(arr) >= 4 {
		// the same results in two files of unequal lengths (the shorter one first or last)
		cut := len(arr) / 4
		a := writeTemp(idx, "plotA.bin", encodeResults(arr[:cut], "gob"))
		b := writeTemp(idx, "plotB.bin", encodeResults(arr[cut:], []string{"gob", "json", "csv"}[idx%3]))
		defer os.Remove(a)
		defer os.Remove(b)
		files = []string{a, b}
		if idx%40 == 37 {
			files = []string{b, a}
		}
	}
	out, err := runCLI(nil, append([]string{"plot", "-threshold", strconv.Itoa(th)}, files...)...)
	if err != nil {
		return wantErr
	}
	if wantErr {
		return false
	}
	got, _, bad := parsePlotHTML(string(out), names)
	if bad || len(got) != len(want) {
		return false
	}
	for i := range got {
		if got[i].attack != want[i].attack || got[i].err != want[i].err || len(got[i].pts) != len(want[i].pts) {
			return false
		}
		for j := range got[i].pts {
			if got[i].pts[j] != want[i].pts[j] {
				return false
			}
		}
	}
	return true
}
