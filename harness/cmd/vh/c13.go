package main

import (
	"time"
	"bytes"
	"encoding/json"
	"fmt"
	"io"
	"math/rand"
	"os"
	"regexp"
	"sort"
	"strings"

	vegeta "github.com/tsenart/vegeta/v12/lib"
)

func init() {
	register("C13", &Prop{ID: 13,
		N: func(tier string) int {
			if tier == "thorough" {
				return 3000
			}
			return 300
		},
		Run: runC13,
	})
}

var pctRe = regexp.MustCompile(`"(50th|90th|95th|99th)":[0-9.e+-]+,?`)

func runC13(idx int, rng *rand.Rand, tier string) []Case {
	k := 1 + rng.Intn(6)
	n := rng.Intn(60)
	if rng.Intn(8) == 0 {
		n = 200 + rng.Intn(400)
	}
	if n < k {
		n = k // every file holds at least one record (a file that is empty is in no format)
	}
	encs := []string{"gob", "csv", "json"}
	// split n records into k non-empty parts of unequal lengths
	cuts := make([]int, k)
	for i := range cuts {
		cuts[i] = 1
	}
	for r := n - k; r > 0; r-- {
		if rng.Intn(3) == 0 {
			cuts[rng.Intn(k)]++
		} else {
			cuts[0+rng.Intn(1+rng.Intn(k))]++
		}
	}
	all := make([]vegeta.Result, n)
	for i := range all {
		all[i] = genResult(rng, uint64(i), "atk", rng.Intn(4) == 0)
	}
	smallTied := idx%4 == 2 && n <= 30
	if smallTied {
		// few results with repeated, exactly equal latencies
		for i := range all {
			all[i].Latency = []time.Duration{time.Millisecond, 2 * time.Millisecond, 9 * time.Millisecond}[rng.Intn(3)]
		}
	}
	if idx%2 == 1 {
		// a dense attack: requests start within two seconds and take up to ten, so the request that
		// ends last is usually not the one that started last
		base := time.Unix(1700000000+int64(rng.Intn(1e6)), 0).UTC()
		for i := range all {
			all[i].Timestamp = base.Add(time.Duration(rng.Int63n(2e9)))
			all[i].Latency = time.Duration(rng.Int63n(1e10))
		}
	}
	var files []string
	var ins [][]int64
	var fileEncs []string
	pos := 0
	for f := 0; f < k; f++ {
		part := all[pos : pos+cuts[f]]
		enc := encs[rng.Intn(3)]
		fileEncs = append(fileEncs, enc)
		files = append(files, writeTemp(idx, fmt.Sprintf("in%d.%s", f, enc), encodeResults(part, enc)))
		ids := make([]int64, len(part))
		for i := range part {
			ids[i] = int64(part[i].Seq)
		}
		ins = append(ins, ids)
		pos += cuts[f]
	}
	union := writeTemp(idx, "union.gob", encodeResults(all, "gob"))
	defer func() {
		for _, f := range files {
			os.Remove(f)
		}
		os.Remove(union)
	}()

	var c Case
	w := &c.W
	w.Z(1)
	w.I(len(ins))
	for _, in := range ins {
		w.Zs(in)
	}
	// library route: DecoderFor per file + NewRoundRobinDecoder
	var decs []vegeta.Decoder
	var closers []io.Closer
	for _, f := range files {
		fh, err := os.Open(f)
		if err != nil {
			panic(err)
		}
		closers = append(closers, fh)
		d := vegeta.DecoderFor(fh)
		if d == nil {
			continue // format detection refuses a well-formed file: its records are then missing from the output, which the checker sees
		}
		decs = append(decs, d)
	}
	dec := vegeta.NewRoundRobinDecoder(decs...)
	var libOut []int64
	var lastErr error
	for i := 0; i <= n+5; i++ {
		var r vegeta.Result
		if lastErr = dec.Decode(&r); lastErr != nil {
			break
		}
		libOut = append(libOut, int64(r.Seq))
	}
	var r2 vegeta.Result
	again := dec.Decode(&r2)
	for _, cl := range closers {
		cl.Close()
	}
	w.Zs(libOut)
	w.Bool(lastErr == io.EOF)
	w.Bool(again == io.EOF)
	// CLI route: vegeta encode over all files
	out, err := runCLI(nil, append([]string{"encode", "-to", "json"}, files...)...)
	var cliOut []int64
	cliOK := err == nil
	if cliOK {
		d := json.NewDecoder(bytes.NewReader(out))
		for d.More() {
			var o struct{ Seq int64 }
			if e := d.Decode(&o); e != nil {
				cliOK = false
				break
			}
			cliOut = append(cliOut, o.Seq)
		}
	}
	w.Bool(cliOK)
	w.Zs(cliOut)
	// reports: split vs union
	same := func(typ string, strip bool) bool {
		a, e1 := runCLI(nil, append([]string{"report", "-type", typ}, files...)...)
		b, e2 := runCLI(nil, "report", "-type", typ, union)
		if e1 != nil || e2 != nil {
			return false
		}
		if strip {
			a, b = canonReport(a, true), canonReport(b, true) // estimated percentiles are not among the exact metrics
		}
		return bytes.Equal(a, b)
	}
	jsonSame := same("json", true)
	histSame := same("hist[0,1ms,10ms,100ms,1s,10s]", false)
	textSame := true
	if idx%4 == 0 {
		// text report: compare everything except the latency line (percentiles depend on merge order)
		a, e1 := runCLI(nil, append([]string{"report", "-type", "text"}, files...)...)
		b, e2 := runCLI(nil, "report", "-type", "text", union)
		lat := regexp.MustCompile(`(?m)^Latencies.*$`)
		textSame = e1 == nil && e2 == nil && bytes.Equal(canonText(lat.ReplaceAll(a, nil)), canonText(lat.ReplaceAll(b, nil)))
	}
	w.Bool(jsonSame)
	w.Bool(histSame)
	w.Bool(textSame)
	c.Tag = fmt.Sprintf("k%d", k)
	if k > 1 {
		c.Tag += ";nt"
	}
	c.Dist = fmt.Sprintf("files%d/n%d", k, sizeClass(n))
	c.Sample = map[string]interface{}{"files": k, "lengths": cuts, "encodings": fileEncs, "out_prefix": clip(libOut, 12)}
	return []Case{c}
}

// canonReport removes the estimated percentiles and sorts the error set of a JSON report.
func canonReport(b []byte, dropPercentiles bool) []byte {
	var m map[string]interface{}
	d := json.NewDecoder(bytes.NewReader(b))
	d.UseNumber()
	if err := d.Decode(&m); err != nil {
		return b
	}
	if l, ok := m["latencies"].(map[string]interface{}); ok && dropPercentiles {
		for _, k := range []string{"50th", "90th", "95th", "99th"} {
			delete(l, k)
		}
	}
	if es, ok := m["errors"].([]interface{}); ok {
		ss := make([]string, len(es))
		for i, e := range es {
			ss[i] = fmt.Sprint(e)
		}
		sort.Strings(ss)
		m["errors"] = ss
	}
	out, _ := json.Marshal(m)
	return out
}

// canonText sorts the lines of the error set of a text report.
func canonText(b []byte) []byte {
	parts := bytes.SplitN(b, []byte("Error Set:\n"), 2)
	if len(parts) != 2 {
		return b
	}
	lines := strings.Split(string(parts[1]), "\n")
	sort.Strings(lines)
	return append(append(parts[0], []byte("Error Set:\n")...), []byte(strings.Join(lines, "\n"))...)
}
