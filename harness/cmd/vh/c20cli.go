package main

import (
	"bufio"
	"bytes"
	"fmt"
	"math/rand"
	"net"
	"net/http"
	"net/http/httptest"
	"os"
	"os/exec"
	"path/filepath"
	"strconv"
	"strings"
	"sync/atomic"
	"syscall"
	"time"

	vegeta "github.com/tsenart/vegeta/v12/lib"
)

// the attack command with -prometheus-addr, interrupted while requests are in flight: every result
// the command writes must also have been observed by the exporter.  One request is held back for
// 2.5 s so that the exporter can still be scraped after the other in-flight results have arrived.
func c20CLI(idx int, rng *rand.Rand) []Case {
	var arrived int64
	srv := httptest.NewServer(http.HandlerFunc(func(w http.ResponseWriter, r *http.Request) {
		if atomic.AddInt64(&arrived, 1) == 1 {
			select {
			case <-time.After(2500 * time.Millisecond):
			case <-r.Context().Done():
			}
		} else {
			time.Sleep(time.Duration(250+rng.Intn(100)) * time.Millisecond)
		}
		w.Write([]byte("ok"))
	}))
	defer srv.Close()
	l, err := net.Listen("tcp", "127.0.0.1:0")
	if err != nil {
		panic(err)
	}
	paddr := l.Addr().String()
	l.Close()
	out := filepath.Join(scratchDir(), fmt.Sprintf("c20cli%d.bin", idx))
	defer os.Remove(out)
	rate := []int{20, 30, 40}[rng.Intn(3)]
	cmd := exec.Command(os.Getenv("VERIF_VEGETA"), "attack", "-rate", strconv.Itoa(rate), "-duration", "30s", "-timeout", "10s",
		"-output", out, "-prometheus-addr", paddr)
	cmd.Stdin = strings.NewReader("GET " + srv.URL + "/\n")
	if err := cmd.Start(); err != nil {
		panic(err)
	}
	done := make(chan error, 1)
	go func() { done <- cmd.Wait() }()
	time.Sleep(time.Duration(600+rng.Intn(300)) * time.Millisecond)
	cmd.Process.Signal(syscall.SIGINT)
	time.Sleep(1300 * time.Millisecond) // the requests in flight at the interrupt (0.25..0.35 s each) are long done
	scraped := int64(-1)
	if resp, err := (&http.Client{Timeout: 2 * time.Second}).Get("http://" + paddr + "/metrics"); err == nil {
		scraped = 0
		sc := bufio.NewScanner(resp.Body)
		for sc.Scan() {
			line := sc.Text()
			if strings.HasPrefix(line, "request_seconds_count") {
				f := strings.Fields(line)
				if v, err := strconv.ParseFloat(f[len(f)-1], 64); err == nil {
					scraped += int64(v)
				}
			}
		}
		resp.Body.Close()
	}
	select {
	case <-done:
	case <-time.After(15 * time.Second):
		cmd.Process.Kill()
		<-done
	}
	b, _ := os.ReadFile(out)
	rs, _ := decodeAll(vegeta.NewDecoder(bytes.NewReader(b)), 1<<20)
	var c Case
	w := &c.W
	w.Z(3)
	w.I(len(rs))
	w.Z(scraped)
	c.Tag = "cli.interrupt;nt"
	c.Dist = fmt.Sprintf("cli/prometheus/rate%d", rate)
	c.Sample = map[string]interface{}{"results_written": len(rs), "observed_when_scraped": scraped, "prometheus_addr": paddr}
	return []Case{c}
}
