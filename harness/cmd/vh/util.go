package main

import (
	"math"
	"math/rand"
)

// F writes a float exactly: kind (0 finite, 1 NaN, 2 +Inf, 3 -Inf), mantissa, exponent (value = m * 2^e).
func (w *W) F(f float64) {
	switch {
	case math.IsNaN(f):
		w.Z(1); w.Z(0); w.Z(0)
	case math.IsInf(f, 1):
		w.Z(2); w.Z(0); w.Z(0)
	case math.IsInf(f, -1):
		w.Z(3); w.Z(0); w.Z(0)
	case f == 0:
		w.Z(0); w.Z(0); w.Z(0)
	default:
		fr, e := math.Frexp(f)
		m := int64(fr * (1 << 53))
		w.Z(0); w.Z(m); w.Z(int64(e - 53))
	}
}

func (w *W) OptZ(ok bool, x int64) {
	if ok {
		w.Z(1)
		w.Z(x)
	} else {
		w.Z(0)
	}
}

func perm(rng *rand.Rand, n int) []int { return rng.Perm(n) }
