package main

import (
	"sync/atomic"
	"errors"
	"fmt"
	"io"
	"math/rand"
	"net/http"
	"strconv"
	"strings"
	"sync"
	"time"

	vegeta "github.com/tsenart/vegeta/v12/lib"
	"github.com/tsenart/vegeta/v12/lib/plot"
)

func init() {
	register("C05", &Prop{ID: 5,
		N: func(tier string) int {
			if tier == "thorough" {
				return 400
			}
			return 60
		},
		Run: runC05,
	})
}

type failingReader struct{ left int }

func (f *failingReader) Read(p []byte) (int, error) {
	if f.left == 0 {
		return 0, errors.New("scripted read fault")
	}
	f.left--
	p[0] = 'x'
	return 1, nil
}

type timingRT struct {
	faults bool
	mu    sync.Mutex
	start time.Time
	entry map[uint64]int64
	dur   map[uint64]int64
	lat   func() time.Duration
}

func (t *timingRT) RoundTrip(req *http.Request) (*http.Response, error) {
	at := time.Since(t.start)
	seq, _ := strconv.ParseUint(req.Header.Get("X-Vegeta-Seq"), 10, 64)
	if d := t.lat(); d > 0 {
		time.Sleep(d)
	}
	took := time.Since(t.start) - at
	if req.Header.Get("X-Vegeta-Attack") == "c05" { // (a second attack of the same Attacker is served, not recorded)
		t.mu.Lock()
		t.entry[seq], t.dur[seq] = int64(at), int64(took)
		t.mu.Unlock()
	}
	// every exit path of a hit must stamp its latency: some exchanges fail in the transport,
	// some while the body is read
	switch {
	case t.faults && seq%7 == 3:
		return nil, errors.New("scripted transport error")
	case t.faults && seq%7 == 5:
		return &http.Response{StatusCode: 200, Status: "200 OK", Body: io.NopCloser(&failingReader{left: 2}), Request: req,
			Proto: "HTTP/1.1", ProtoMajor: 1, ProtoMinor: 1, Header: http.Header{}}, nil
	}
	return &http.Response{StatusCode: 200, Status: "200 OK", Body: io.NopCloser(strings.NewReader("ok")), Request: req,
		Proto: "HTTP/1.1", ProtoMajor: 1, ProtoMinor: 1, Header: http.Header{}}, nil
}

func runC05(idx int, rng *rand.Rand, tier string) []Case {
	workers := []uint64{1, 2, 4, 8, 16, 32, 64}[rng.Intn(7)]
	slow := rng.Intn(3) == 0
	rt := &timingRT{entry: map[uint64]int64{}, dur: map[uint64]int64{}, faults: idx%2 == 1}
	if rt.faults {
		slow = true // the transport takes measurable time on the failing paths too
	}
	rt.lat = func() time.Duration {
		if slow {
			return time.Duration(rng.Intn(50)) * time.Microsecond
		}
		return 0
	}
	lrng := rand.New(rand.NewSource(int64(idx)))
	var lmu sync.Mutex
	rt.lat = func() time.Duration {
		if !slow {
			return 0
		}
		lmu.Lock()
		defer lmu.Unlock()
		return time.Duration(lrng.Intn(50)) * time.Microsecond
	}
	opts := []func(*vegeta.Attacker){vegeta.Client(&http.Client{Transport: rt}), vegeta.Workers(workers), vegeta.MaxWorkers(workers)}
	growPool := idx%6 == 1
	if growPool {
		// one initial worker, the pool grows on demand while the transport keeps workers busy
		slow = true
		opts = []func(*vegeta.Attacker){vegeta.Client(&http.Client{Transport: rt}), vegeta.Workers(1), vegeta.MaxWorkers(32)}
	}
	shortTimeout := idx%5 == 2
	if shortTimeout {
		// the transport does not notice cancellation: exchanges outlast the client timeout
		slow = true
		rt.lat = func() time.Duration {
			lmu.Lock()
			defer lmu.Unlock()
			return time.Duration(300+lrng.Intn(1500)) * time.Microsecond
		}
		opts = append(opts, vegeta.Timeout(200*time.Microsecond))
	}
	atk := vegeta.NewAttacker(opts...)
	dur := 15 * time.Millisecond
	rt.start = time.Now()
	var rs []*vegeta.Result
	limit := 4000
	var tr vegeta.Targeter = vegeta.NewStaticTargeter(vegeta.Target{Method: "GET", URL: "http://x.example/"})
	slowTargeter := idx%5 == 4
	if slowTargeter { // a lazy targeter that blocks now and then, longer than a millisecond
		var calls int64
		inner := tr
		tr = func(t *vegeta.Target) error {
			if atomic.AddInt64(&calls, 1)%5 == 0 {
				time.Sleep(1500 * time.Microsecond)
			}
			return inner(t)
		}
	}
	failingTargeter := idx%5 == 3
	if failingTargeter { // the targets run out: the hits that find none end at once, with an error and a latency
		var calls int64
		inner := tr
		stopAt := int64(50 + rng.Intn(400))
		tr = func(t *vegeta.Target) error {
			if atomic.AddInt64(&calls, 1) > stopAt {
				return vegeta.ErrNoTargets
			}
			return inner(t)
		}
	}
	// a second attack of the same Attacker, begun while the first one runs: the sequence numbers and
	// timestamps of each attack are its own ("within one attack"), the other attack must not disturb them
	overlap := idx%7 == 6
	var second sync.WaitGroup
	if overlap {
		second.Add(1)
		go func() {
			defer second.Done()
			time.Sleep(3 * time.Millisecond)
			n := 0
			for range atk.Attack(tr, vegeta.ConstantPacer{Freq: 20000, Per: time.Second}, 8*time.Millisecond, "c05-second") {
				n++
			}
		}()
	}
	defer second.Wait()
	for r := range atk.Attack(tr, vegeta.ConstantPacer{}, dur, "c05") {
		rs = append(rs, r)
		if len(rs) >= limit {
			atk.Stop()
		}
	}
	var c Case
	w := &c.W
	w.I(len(rs))
	rt.mu.Lock()
	for _, r := range rs {
		w.U(r.Seq)
		w.Z(int64(r.Timestamp.Sub(rt.start)))
		w.Z(int64(r.Latency))
		if e, ok := rt.entry[r.Seq]; ok {
			w.Z(e)
			w.Z(rt.dur[r.Seq])
		} else {
			// the hit never reached the transport (no target): nothing bounds its timestamp from above
			// but its own end, and its latency must still not be negative
			w.Z(int64(r.Timestamp.Sub(rt.start)))
			w.Z(0)
		}
	}
	rt.mu.Unlock()
	// the consumer that relies on the order: the plot re-orders by sequence number and wants
	// time not to decrease; it must take every result of a real attack, in arrival order
	pl := plot.New()
	refused := 0
	for _, r := range rs {
		if err := pl.Add(r); err != nil {
			refused++
		}
	}
	pl.Close()
	w.I(refused)
	c.Tag = fmt.Sprintf("w%d;nt", workers)
	c.Dist = fmt.Sprintf("workers%d/slow=%v/timeout=%v/slowtargeter=%v/grow=%v/targetsrunout=%v/overlap=%v/n%d", workers, slow, shortTimeout, slowTargeter, growPool, failingTargeter, overlap, sizeClass(len(rs)))
	c.Sample = map[string]interface{}{"workers": workers, "results": len(rs), "transport_latency": slow}
	return []Case{c}
}
