package main

import (
	"strconv"
	"errors"
	"fmt"
	"io"
	"math/rand"
	"net/http"
	"sort"
	"sync"
	"time"

	vegeta "github.com/tsenart/vegeta/v12/lib"
)

func init() {
	register("C06", &Prop{ID: 6,
		N: func(tier string) int {
			if tier == "thorough" {
				return 60000
			}
			return 6000
		},
		Run: runC06,
	})
}

type fakeBody struct {
	mu      sync.Mutex
	data    []byte
	pos     int
	fault   int // -1: none; k: error after k bytes
	rng     *rand.Rand
	read    int
	ended   bool
	closes  int
}

func (b *fakeBody) Read(p []byte) (int, error) {
	b.mu.Lock()
	defer b.mu.Unlock()
	limit := len(b.data)
	if b.fault >= 0 && b.fault <= len(b.data) {
		limit = b.fault
	}
	if b.pos >= limit {
		b.ended = true
		if b.fault >= 0 && b.fault <= len(b.data) {
			return 0, errors.New("scripted read fault")
		}
		return 0, io.EOF
	}
	n := 1 + b.rng.Intn(7)
	if b.rng.Intn(3) == 0 {
		n = len(p)
	}
	if n > len(p) {
		n = len(p)
	}
	if n > limit-b.pos {
		n = limit - b.pos
	}
	copy(p, b.data[b.pos:b.pos+n])
	b.pos += n
	b.read += n
	return n, nil
}

func (b *fakeBody) Close() error {
	b.mu.Lock()
	defer b.mu.Unlock()
	b.closes++
	return nil
}

type seenReq struct {
	method, url, host string
	hdr              http.Header
	body             []byte
	cl               int64
	chunked          bool
}

type fakeRT struct {
	hops      int
	hopHdr    http.Header
	transport bool // transport error
	status    int
	statusTxt string
	hdr       http.Header
	body      *fakeBody
	hopBodies []*fakeBody
	calls     int
	first     *seenReq
	mu        sync.Mutex
	data      []byte
	fault     int
	seed      int64
	reqs      []*seenReq
	bodies    []*fakeBody
	clen      int64
}

func (rt *fakeRT) RoundTrip(req *http.Request) (*http.Response, error) {
	rt.mu.Lock()
	defer rt.mu.Unlock()
	rt.calls++
	s := &seenReq{method: req.Method, url: req.URL.String(), hdr: req.Header.Clone(), cl: req.ContentLength}
	if req.Host != req.URL.Host {
		s.host = req.Host
	}
	for _, te := range req.TransferEncoding {
		if te == "chunked" {
			s.chunked = true
		}
	}
	if req.Body != nil {
		s.body, _ = io.ReadAll(req.Body)
		req.Body.Close()
	}
	if rt.first == nil {
		rt.first = s
	}
	rt.reqs = append(rt.reqs, s)
	if rt.calls <= rt.hops {
		hb := &fakeBody{fault: -1, rng: rand.New(rand.NewSource(1))}
		rt.hopBodies = append(rt.hopBodies, hb)
		return &http.Response{StatusCode: 302, Status: "302 Found", Header: rt.hopHdr.Clone(), Body: hb, Request: req,
			Proto: "HTTP/1.1", ProtoMajor: 1, ProtoMinor: 1}, nil
	}
	if rt.transport {
		return nil, errors.New("scripted transport error")
	}
	rt.body = &fakeBody{data: rt.data, fault: rt.fault, rng: rand.New(rand.NewSource(rt.seed + int64(rt.calls)))}
	rt.bodies = append(rt.bodies, rt.body)
	return &http.Response{StatusCode: rt.status, Status: rt.statusTxt, Header: rt.hdr, Body: rt.body, Request: req,
		Proto: "HTTP/1.1", ProtoMajor: 1, ProtoMinor: 1, ContentLength: rt.clen}, nil
}

func (w *W) Header(h http.Header) {
	keys := make([]string, 0, len(h))
	for k := range h {
		keys = append(keys, k)
	}
	sort.Strings(keys)
	w.I(len(keys))
	for _, k := range keys {
		w.Str(k)
		w.I(len(h[k]))
		for _, v := range h[k] {
			w.Str(v)
		}
	}
}

func genHeader(rng *rand.Rand, keys []string, max int) http.Header {
	h := http.Header{}
	n := rng.Intn(max + 1)
	for i := 0; i < n; i++ {
		k := keys[rng.Intn(len(keys))]
		h[k] = append(h[k], []string{"1", "a b", "x,y", "ü", "v"}[rng.Intn(5)])
	}
	return h
}

func runC06(idx int, rng *rand.Rand, tier string) []Case {
	if idx%20 == 9 {
		return c06Multi(idx, rng)
	}
	tgt := vegeta.Target{
		Method: []string{"GET", "POST", "PUT", "DELETE", "PATCH", "OPTIONS"}[rng.Intn(6)],
		URL:    []string{"http://a.example/", "http://b.example:8080/p?q=1", "https://c.example/x/y"}[rng.Intn(3)],
	}
	tgt.Header = genHeader(rng, []string{"X-Id", "x-id", "Content-Type", "content-type", "Host", "host", "X-Vegeta-Seq", "x-vegeta-seq", "X-Vegeta-Attack", "x-vegeta-attack", "ACCEPT"}, 8)
	if vs, ok := tgt.Header["Host"]; ok {
		for i := range vs {
			vs[i] = "virtual.example"
		}
	}
	if rng.Intn(2) == 0 {
		tgt.Body = make([]byte, rng.Intn(40))
		rng.Read(tgt.Body)
	}
	if len(tgt.Header) == 0 && rng.Intn(2) == 0 {
		tgt.Header = nil
	}
	name := []string{"", "atk", "big attack"}[rng.Intn(3)]
	body := make([]byte, []int{0, 1, 5, 100, 5000}[rng.Intn(5)])
	rng.Read(body)
	// what net/http hands over for a HEAD request: the length the server declared, and no body
	head := idx%9 == 4
	if head {
		tgt.Method, body = "HEAD", nil
	}
	mbs := []int64{-1, 0, int64(len(body)) - 1, int64(len(body)), int64(len(body)) + 1, 3}
	maxBody := mbs[rng.Intn(len(mbs))]
	if maxBody < -1 {
		maxBody = 0
	}
	chunked := rng.Intn(4) == 0
	policy := []int{-1, 0, 1, 2, 10}[rng.Intn(5)]
	hops := 0
	if rng.Intn(4) == 0 {
		hops = 1 + rng.Intn(3)
	}
	seq := 0
	if hops == 0 && rng.Intn(3) == 0 {
		seq = rng.Intn(4)
	}
	rt := &fakeRT{hops: hops, hopHdr: http.Header{"Location": {"http://next.example/r"}}}
	fault := -1
	switch rng.Intn(8) {
	case 0:
		rt.transport = true
	case 1, 2:
		fault = rng.Intn(len(body) + 1)
	}
	rt.status = 100 + rng.Intn(500)
	if rng.Intn(2) == 0 {
		rt.status = []int{200, 201, 204, 301, 399, 400, 404, 500, 199, 599}[rng.Intn(10)]
	}
	if rt.status >= 100 && rt.status < 200 || rt.status == 204 || rt.status == 304 {
		// bodies are legal for a fake transport; keep them
	}
	rt.statusTxt = fmt.Sprintf("%d %s", rt.status, http.StatusText(rt.status))
	rt.hdr = genHeader(rng, []string{"Content-Type", "X-Srv", "Set-Cookie"}, 4)
	if rng.Intn(5) == 0 {
		rt.hdr = nil
	}
	rt.data, rt.fault, rt.seed = body, fault, rng.Int63()
	rt.clen = -1 // declared length: unknown, or (every 4th case) the exact length, or a HEAD answer's
	if head {
		rt.clen = int64(1 + rng.Intn(5000))
	} else if idx%4 == 1 && fault < 0 {
		rt.clen = int64(len(body))
	}

	atk := vegeta.NewAttacker(vegeta.Client(&http.Client{Transport: rt}), vegeta.Redirects(policy),
		vegeta.MaxBody(maxBody), vegeta.ChunkedBody(chunked), vegeta.Workers(1), vegeta.MaxWorkers(1))
	hits := uint64(seq + 1)
	pacer := vegeta.PacerFunc(func(_ time.Duration, h uint64) (time.Duration, bool) { return 0, h >= hits })
	var last *vegeta.Result
	var firstReq *seenReq
	n := 0
	for r := range atk.Attack(vegeta.NewStaticTargeter(tgt), pacerAdapter{pacer}, 0, name) {
		last = r
		n++
	}
	rt.mu.Lock()
	defer rt.mu.Unlock()
	if hops > 0 {
		firstReq = rt.first
	} else if len(rt.reqs) > 0 {
		firstReq = rt.reqs[len(rt.reqs)-1] // the request of the last (observed) hit
	}
	if last == nil || firstReq == nil {
		panic(fmt.Sprintf("C06: no result (%v) or no request (%v)", last, firstReq))
	}
	var c Case
	w := &c.W
	w.Z(1)
	// target
	w.Str(tgt.Method); w.Str(tgt.URL); w.Header(tgt.Header); w.Bytes(tgt.Body)
	// config
	w.Str(name); w.I(seq); w.Z(maxBody); w.Bool(chunked); w.I(policy)
	// exchange
	w.I(hops); w.Header(rt.hopHdr)
	if rt.transport {
		w.Z(0)
	} else {
		w.Z(1)
		w.I(rt.status); w.Str(rt.statusTxt); w.Header(rt.hdr); w.Bytes(body)
		if fault >= 0 {
			w.Z(1); w.I(fault)
		} else {
			w.Z(0)
		}
	}
	// request seen
	w.Str(firstReq.method); w.Str(firstReq.url); w.Header(firstReq.hdr)
	if firstReq.host != "" {
		w.Z(1); w.Str(firstReq.host)
	} else {
		w.Z(0)
	}
	w.Bytes(firstReq.body); w.Z(firstReq.cl); w.Bool(firstReq.chunked)
	// io log: the body of the response that hit consumed
	var fb *fakeBody
	switch {
	case hops > 0 && policy == -1:
		fb = rt.hopBodies[0]
	case hops > 0 && policy < hops:
		fb = nil
	case rt.transport:
		fb = nil
	default:
		fb = rt.body
	}
	if fb != nil {
		w.I(fb.read); w.Bool(fb.ended); w.I(fb.closes)
	} else {
		w.I(0); w.Bool(false); w.I(0)
	}
	// result
	w.Str(last.Method); w.Str(last.URL); w.I(int(last.Code))
	if last.Headers != nil {
		w.Z(1); w.Header(last.Headers)
	} else {
		w.Z(0)
	}
	w.Bytes(last.Body); w.U(last.BytesIn); w.U(last.BytesOut); w.Str(last.Error)
	kind := "ok"
	switch {
	case hops > 0 && policy == -1:
		kind = "nofollow"
	case hops > 0 && policy < hops:
		kind = "toomany"
	case rt.transport:
		kind = "transporterr"
	case fault >= 0:
		kind = "readfault"
	case hops > 0:
		kind = "followed"
	}
	c.Tag = kind + ";nt"
	c.Dist = fmt.Sprintf("%s/maxbody%+d/body%d", kind, sign64(maxBody-int64(len(body))), sizeClass(len(body)))
	c.Sample = map[string]interface{}{"target": fmt.Sprintf("%s %s hdr=%v body=%dB", tgt.Method, tgt.URL, tgt.Header, len(tgt.Body)),
		"exchange": fmt.Sprintf("%s hops=%d policy=%d status=%d body=%dB fault=%d maxbody=%d", kind, hops, policy, rt.status, len(body), fault, maxBody),
		"result": fmt.Sprintf("code=%d in=%d out=%d err=%q body=%dB", last.Code, last.BytesIn, last.BytesOut, last.Error, len(last.Body))}
	return []Case{c}
}

func sign64(x int64) int {
	switch {
	case x < 0:
		return -1
	case x > 0:
		return 1
	}
	return 0
}

type pacerAdapter struct{ f vegeta.PacerFunc }

func (p pacerAdapter) Pace(e time.Duration, h uint64) (time.Duration, bool) { return p.f(e, h) }
func (p pacerAdapter) Rate(time.Duration) float64                        { return 0 }


// several hits of one attack, every answer different; the results are kept and looked at only
// after the last hit: each must still carry its own method, URL, status, body and byte count
type c06MultiRT struct {
	mu     sync.Mutex
	served [][]byte
	rng    *rand.Rand
}

func (rt *c06MultiRT) RoundTrip(r *http.Request) (*http.Response, error) {
	rt.mu.Lock()
	k := len(rt.served)
	b := []byte(fmt.Sprintf("reply to hit #%d ", k))
	pad := make([]byte, rt.rng.Intn(3000))
	rt.rng.Read(pad)
	b = append(b, pad...)
	rt.served = append(rt.served, b)
	rt.mu.Unlock()
	return &http.Response{StatusCode: 200 + k%3, Status: "200 OK", Proto: "HTTP/1.1", ProtoMajor: 1, ProtoMinor: 1,
		Header: http.Header{"X-K": {fmt.Sprint(k)}}, Body: io.NopCloser(bytesReader(b)), ContentLength: int64(len(b)), Request: r}, nil
}

func bytesReader(b []byte) io.Reader { return &sliceReader{b: b} }

type sliceReader struct {
	b []byte
	i int
}

func (s *sliceReader) Read(p []byte) (int, error) {
	if s.i >= len(s.b) {
		return 0, io.EOF
	}
	n := copy(p, s.b[s.i:])
	s.i += n
	return n, nil
}

func c06Multi(idx int, rng *rand.Rand) []Case {
	// URLs that net/url would write differently: the result must carry the target's own text
	urls := []string{"http://a.example/", "HTTP://A.example/Up", "http://a.example/a b", "http://a.example/x#frag", "http://a.example/caf\u00e9|x", "http://a.example/%7Euser"}
	methods := []string{"GET", "POST", "PATCH", ""}
	k := 2 + rng.Intn(5)
	tgts := make([]vegeta.Target, k)
	for i := range tgts {
		tgts[i] = vegeta.Target{Method: methods[rng.Intn(len(methods))], URL: urls[rng.Intn(len(urls))]}
	}
	rt := &c06MultiRT{rng: rand.New(rand.NewSource(rng.Int63()))}
	maxBody := []int64{-1, 40, 1000}[rng.Intn(3)]
	atk := vegeta.NewAttacker(vegeta.Client(&http.Client{Transport: rt}), vegeta.MaxBody(maxBody), vegeta.Workers(1), vegeta.MaxWorkers(1))
	hits := uint64(k)
	pacer := vegeta.PacerFunc(func(_ time.Duration, h uint64) (time.Duration, bool) { return 0, h >= hits })
	var rs []*vegeta.Result
	for r := range atk.Attack(vegeta.NewStaticTargeter(tgts...), pacerAdapter{pacer}, 0, "multi") {
		rs = append(rs, r)
	}
	sort.Slice(rs, func(i, j int) bool { return rs[i].Seq < rs[j].Seq })
	var c Case
	w := &c.W
	w.Z(2)
	w.Z(maxBody)
	w.I(len(rs))
	rt.mu.Lock()
	for i, r := range rs {
		t := tgts[i%k]
		w.Str(t.Method); w.Str(t.URL)
		// which answer this hit got: the transport numbers them in a response header
		if ki, err := strconv.Atoi(r.Headers.Get("X-K")); err == nil && ki < len(rt.served) {
			w.Bytes(rt.served[ki])
		} else {
			w.Bytes(nil) // no exchange took place (the request could not be built): nothing was captured
		}
		w.U(r.Seq); w.Str(r.Method); w.Str(r.URL); w.I(int(r.Code)); w.Bytes(r.Body); w.U(r.BytesIn)
	}
	rt.mu.Unlock()
	c.Tag = "multi;nt"
	c.Dist = fmt.Sprintf("multi/hits%d/maxbody%d", k, maxBody)
	c.Sample = map[string]interface{}{"hits": k, "max_body": maxBody, "first_target": tgts[0].Method + " " + tgts[0].URL}
	return []Case{c}
}
