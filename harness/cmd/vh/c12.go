package main

import (
	"sort"
	"os"
	"bytes"
	"encoding/json"
	"fmt"
	"math/rand"
	"regexp"
	"strconv"
	"strings"
	"time"

	vegeta "github.com/tsenart/vegeta/v12/lib"
)

func init() {
	register("C12", &Prop{ID: 12,
		N: func(tier string) int {
			if tier == "thorough" {
				return 40000
			}
			return 4000
		},
		Run: runC12,
	})
}

var c12Units = []struct {
	s  string
	ns int64
}{{"ns", 1}, {"us", 1e3}, {"µs", 1e3}, {"ms", 1e6}, {"s", 1e9}, {"m", 60e9}, {"h", 3600e9}}

// genBounds returns a strictly increasing list of 1..20 bounds; mode selects shapes.
func genBounds(rng *rand.Rand) []int64 {
	n := 1 + rng.Intn(20)
	bs := make([]int64, 0, n)
	var cur int64
	switch rng.Intn(4) {
	case 0:
		cur = 0
	case 1:
		cur = int64(rng.Intn(5))
	case 2:
		cur = -int64(rng.Intn(1000))
	default:
		cur = rng.Int63n(1e9)
	}
	for i := 0; i < n; i++ {
		bs = append(bs, cur)
		switch rng.Intn(4) {
		case 0:
			cur++ // adjacent bounds
		case 1:
			cur += 1 + int64(rng.Intn(10))
		case 2:
			cur += 1 + rng.Int63n(1e6)
		default:
			cur += 1 + rng.Int63n(1e10)
		}
	}
	return bs
}

func genLats(rng *rand.Rand, bs []int64, lowOK bool) []int64 {
	n := 0
	switch rng.Intn(6) {
	case 0:
		n = 0
	case 1:
		n = 1
	default:
		n = rng.Intn(120)
	}
	lats := make([]int64, 0, n)
	for i := 0; i < n; i++ {
		var l int64
		if len(bs) == 0 {
			l = rng.Int63n(1e6)
		} else {
			b := bs[rng.Intn(len(bs))]
			switch rng.Intn(5) {
			case 0:
				l = b
			case 1:
				l = b - 1
			case 2:
				l = b + 1
			case 3:
				l = bs[len(bs)-1] + rng.Int63n(1e12)
			default:
				l = bs[0] + rng.Int63n(bs[len(bs)-1]-bs[0]+2)
			}
			if !lowOK && l < bs[0] {
				l = bs[0]
			}
		}
		lats = append(lats, l)
	}
	return lats
}

var histRow = regexp.MustCompile(`^\[(\S+),\s+(\S+)\]\s+(\d+)\s`)

func runC12(idx int, rng *rand.Rand, tier string) []Case {
	switch {
	case idx < len(c12Corpus):
		return []Case{c12Corpus[idx]()}
	case idx%3 == 0:
		return c12Unmarshal(rng)
	default:
		mode := rng.Intn(10)
		var bs []int64
		lowOK := false
		class := "dom"
		switch mode {
		case 0: // outside the domain: not increasing
			bs = genBounds(rng)
			if len(bs) > 1 {
				i := rng.Intn(len(bs) - 1)
				bs[i+1] = bs[i] - int64(rng.Intn(2))
			}
			class = "nonincr"
		case 1: // outside the domain: latencies below the first bound
			bs = genBounds(rng)
			lowOK = true
			class = "low"
		case 2:
			if rng.Intn(4) == 0 {
				bs = nil
				class = "nobuckets"
			} else {
				bs = genBounds(rng)
			}
		default:
			bs = genBounds(rng)
		}
		lats := genLats(rng, bs, lowOK)
		return []Case{c12Add(idx, bs, lats, class)}
	}
}

func c12Add(idx int, bs, lats []int64, class string) Case {
	var c Case
	w := &c.W
	w.Z(1)
	w.Zs(bs)
	w.Zs(lats)
	// two independent instances: rendering one must not prepare the other
	h, h2 := vegeta.Histogram{}, vegeta.Histogram{}
	for _, b := range bs {
		h.Buckets = append(h.Buckets, time.Duration(b))
		h2.Buckets = append(h2.Buckets, time.Duration(b))
	}
	panicked := false
	func() {
		defer func() {
			if recover() != nil {
				panicked = true
			}
		}()
		for _, l := range lats {
			h.Add(&vegeta.Result{Latency: time.Duration(l)})
			h2.Add(&vegeta.Result{Latency: time.Duration(l)})
		}
	}()
	w.Bool(panicked)
	w.Us(h.Counts)
	w.U(h.Total)
	// JSON rendering
	jsonPanic := false
	var pairs [][2]int64
	func() {
		defer func() {
			if recover() != nil {
				jsonPanic = true
			}
		}()
		b, err := h.MarshalJSON()
		if err != nil {
			jsonPanic = true
			return
		}
		pairs = parseOrderedJSONPairs(b)
	}()
	w.Bool(jsonPanic)
	w.I(len(pairs))
	for _, p := range pairs {
		w.Z(p[0])
		w.Z(p[1])
	}
	// text rendering
	var rows [][2]int64
	func() {
		defer func() { recover() }()
		var buf bytes.Buffer
		if err := vegeta.NewHistogramReporter(&h2).Report(&buf); err != nil {
			return
		}
		for _, line := range strings.Split(buf.String(), "\n") {
			m := histRow.FindStringSubmatch(line)
			if m == nil {
				continue
			}
			d, err := time.ParseDuration(m[1])
			if err != nil {
				continue
			}
			cnt, _ := strconv.ParseInt(m[3], 10, 64)
			rows = append(rows, [2]int64{int64(d), cnt})
		}
	}()
	w.I(len(rows))
	for _, p := range rows {
		w.Z(p[0])
		w.Z(p[1])
	}
	// the same results through Metrics.Add (the path of `report -type json -buckets ...`), with
	// status codes and error texts that repeat
	var h3 vegeta.Histogram
	for _, b := range bs {
		h3.Buckets = append(h3.Buckets, time.Duration(b))
	}
	viaMetrics := true
	func() {
		defer func() {
			if recover() != nil {
				viaMetrics = false
			}
		}()
		m := vegeta.Metrics{Histogram: &h3}
		for i, l := range lats {
			r := vegeta.Result{Code: 200, Latency: time.Duration(l), Timestamp: time.Unix(1600000000, int64(i)*1000)}
			if i%3 == 1 {
				r.Code, r.Error = 500, []string{"500 Internal Server Error", "EOF"}[i%2]
			}
			m.Add(&r)
		}
		m.Close()
	}()
	counts3 := h3.Counts
	viaCLI := false
	if viaMetrics && idx%3 == 1 && len(bs) > 1 && bs[0] == 0 && len(lats) > 0 && len(lats) <= 3000 {
		inc := true
		for i := 1; i < len(bs); i++ {
			if bs[i] <= bs[i-1] {
				inc = false
			}
		}
		if inc {
			// the same results as a gob file through `vegeta report -type json -buckets [...]`
			var buf bytes.Buffer
			enc := vegeta.NewEncoder(&buf)
			for i, l := range lats {
				r := vegeta.Result{Code: 200, Latency: time.Duration(l), Timestamp: time.Unix(1600000000, int64(i)*1000)}
				if i%3 == 1 {
					r.Code, r.Error = 500, []string{"500 Internal Server Error", "EOF"}[i%2]
				}
				enc.Encode(&r)
			}
			f := writeTemp(idx, "c12.gob", buf.Bytes())
			defer os.Remove(f)
			parts := make([]string, len(bs))
			for i, b := range bs {
				parts[i] = fmt.Sprintf("%dns", b)
			}
			spec := "[" + strings.Join(parts, ",") + "]"
			if idx%2 == 0 {
				// the specification embedded in the report type, counts read from the text rendering
				espec := spec
				if idx%4 == 0 { // bounds as Go prints durations: 6ms, 1.5s, 2m0s
					ps := make([]string, len(bs))
					for i, b := range bs {
						ps[i] = time.Duration(b).String()
					}
					espec = "[" + strings.Join(ps, ",") + "]"
				}
				out, err := runCLI(nil, "report", "-type", "hist"+espec, f)
				if err != nil {
					counts3, viaCLI = nil, true // a valid specification was refused: no counts at all
				} else {
					var got []uint64
					for _, line := range strings.Split(string(out), "\n") {
						fl := strings.Fields(line)
						if len(fl) >= 4 && strings.HasPrefix(fl[0], "[") {
							if n, e := strconv.ParseUint(fl[2], 10, 64); e == nil {
								got = append(got, n)
							}
						}
					}
					counts3, viaCLI = got, true
				}
			}
			out, err := runCLI(nil, "report", "-type", "json", "-buckets", spec, f)
			if err == nil && !viaCLI {
				var rep struct {
					Buckets json.RawMessage `json:"buckets"`
				}
				if json.Unmarshal(out, &rep) == nil {
					pairs := parseOrderedJSONPairs(rep.Buckets)
					sort.Slice(pairs, func(i, j int) bool { return pairs[i][0] < pairs[j][0] })
					counts3 = counts3[:0:0]
					for _, p := range pairs {
						counts3 = append(counts3, uint64(p[1]))
					}
					viaCLI = true
				}
			}
		}
	}
	w.Bool(viaMetrics)
	w.Us(counts3)
	c.Tag = class
	if len(lats) == 0 {
		c.Tag = class + ".empty"
	}
	if len(lats) > 0 && len(bs) > 1 {
		c.Tag += ";nt"
	}
	c.Dist = fmt.Sprintf("add/%s/b%d/n%d/cli=%v", class, sizeClass(len(bs)), sizeClass(len(lats)), viaCLI)
	c.Sample = map[string]interface{}{"kind": "add", "buckets": bs, "latencies": clip(lats, 12), "counts": h.Counts, "total": h.Total}
	return c
}

func clip(xs []int64, n int) []int64 {
	if len(xs) > n {
		return xs[:n]
	}
	return xs
}

func sizeClass(n int) int {
	switch {
	case n == 0:
		return 0
	case n == 1:
		return 1
	case n < 8:
		return 7
	case n < 64:
		return 63
	case n < 1024:
		return 1023
	default:
		return 1 << 20
	}
}

// parseOrderedJSONPairs reads {"k": v, ...} keeping the order of keys.
func parseOrderedJSONPairs(b []byte) [][2]int64 {
	dec := json.NewDecoder(bytes.NewReader(b))
	dec.UseNumber()
	var out [][2]int64
	if t, err := dec.Token(); err != nil || t != json.Delim('{') {
		return nil
	}
	for dec.More() {
		k, err := dec.Token()
		if err != nil {
			return out
		}
		v, err := dec.Token()
		if err != nil {
			return out
		}
		ki, _ := strconv.ParseInt(k.(string), 10, 64)
		vi, _ := strconv.ParseInt(string(v.(json.Number)), 10, 64)
		out = append(out, [2]int64{ki, vi})
	}
	return out
}

func c12Unmarshal(rng *rand.Rand) []Case {
	// textual specification with arbitrary spacing and units; mostly valid
	var c Case
	n := 1 + rng.Intn(8)
	var given []int64
	var parts []string
	var cur int64
	valid := true
	exact := true
	for i := 0; i < n; i++ {
		u := c12Units[rng.Intn(len(c12Units))]
		k := int64(rng.Intn(1000))
		if i == 0 && rng.Intn(3) == 0 {
			k = 0
		}
		var txt string
		var val int64
		switch rng.Intn(8) {
		case 0: // compound
			u2 := c12Units[rng.Intn(len(c12Units))]
			k2 := int64(rng.Intn(100))
			txt = fmt.Sprintf("%d%s%d%s", k, u.s, k2, u2.s)
			val = k*u.ns + k2*u2.ns
		case 1: // exact fraction
			if u.ns >= 1000 {
				f := rng.Intn(1000)
				txt = fmt.Sprintf("%d.%03d%s", k, f, u.s)
				val = k*u.ns + int64(f)*(u.ns/1000)
			} else {
				txt = fmt.Sprintf("%d%s", k, u.s)
				val = k * u.ns
			}
		case 2:
			if k == 0 {
				txt = "0"
			} else {
				txt = fmt.Sprintf("+%d%s", k, u.s)
			}
			val = k * u.ns
		default:
			txt = fmt.Sprintf("%d%s", k, u.s)
			val = k * u.ns
		}
		_ = cur
		sp := []string{"", " ", "  ", "\t"}
		parts = append(parts, sp[rng.Intn(4)]+txt+sp[rng.Intn(4)])
		given = append(given, val)
	}
	text := "[" + strings.Join(parts, ",") + "]"
	kind := "spec"
	// malformed stream (1 in 6)
	if rng.Intn(6) == 0 {
		valid = false
		kind = "malformed"
		b := []byte(text)
		switch rng.Intn(5) {
		case 0:
			b = b[:len(b)-1]
		case 1:
			b = b[1:]
		case 2:
			if len(b) > 2 {
				b[1+rng.Intn(len(b)-2)] = byte(rng.Intn(256))
			}
		case 3:
			b = []byte("[]")
		default:
			b = append(b[:len(b)-1], []byte(",]")...)
		}
		text = string(b)
	}
	var bs vegeta.Buckets
	var err error
	func() {
		defer func() {
			if r := recover(); r != nil {
				err = fmt.Errorf("panic: %v", r)
			}
		}()
		err = bs.UnmarshalText([]byte(text))
	}()
	out := make([]int64, len(bs))
	for i, b := range bs {
		out[i] = int64(b)
	}
	w := &c.W
	// model comparison on the raw text
	w.Z(2)
	w.Str(text)
	w.Bool(err == nil)
	if err == nil {
		w.Zs(out)
	} else {
		w.Zs(nil)
	}
	c.Tag = "unmarshal." + kind + ";nt"
	c.Dist = "unmarshal/" + kind
	c.Sample = map[string]interface{}{"kind": "unmarshal", "text": text, "parsed": out, "err": fmt.Sprint(err)}
	_ = exact
	if valid {
		// second case: against the generator's intent
		var c2 Case
		c2.W.Z(3)
		c2.W.Zs(given)
		c2.W.Bool(err == nil)
		if err == nil {
			c2.W.Zs(out)
		} else {
			c2.W.Zs(nil)
		}
		c2.Tag = "spec;nt"
		c2.Dist = "spec"
		return []Case{c, c2}
	}
	return []Case{c}
}

var c12Corpus = []func() Case{
	func() Case { return c12Add(3, []int64{0, 10}, nil, "dom") },                 // nothing added
	func() Case { return c12Add(3, []int64{0, 10, 20}, []int64{0, 9, 10, 19, 20, 1 << 40}, "dom") },
	func() Case { return c12Add(3, []int64{5}, []int64{5, 6, 7}, "dom") },
	func() Case { return c12Add(3, nil, []int64{1}, "nobuckets") },
}
