// Command vh generates cases for one property, runs the real vegeta code on them and
// writes one line per case in the integer wire format understood by the extracted model.
package main

import (
	"encoding/json"
	"flag"
	"fmt"
	"math/big"
	"math/rand"
	"os"
	"bufio"
	"sort"
	"strconv"
	"strings"
	"sync"
)

// W accumulates the integers of one case.
type W struct{ toks []string }

func (w *W) Z(x int64)    { w.toks = append(w.toks, strconv.FormatInt(x, 10)) }
func (w *W) I(x int)      { w.Z(int64(x)) }
func (w *W) U(x uint64)   { w.toks = append(w.toks, strconv.FormatUint(x, 10)) }
func (w *W) Big(x *big.Int) { w.toks = append(w.toks, x.String()) }
func (w *W) Bool(b bool) {
	if b {
		w.Z(1)
	} else {
		w.Z(0)
	}
}
func (w *W) Bytes(b []byte) {
	w.I(len(b))
	for _, c := range b {
		w.toks = append(w.toks, strconv.Itoa(int(c)))
	}
}
func (w *W) Str(s string)  { w.Bytes([]byte(s)) }
func (w *W) Zs(xs []int64) { w.I(len(xs)); for _, x := range xs { w.Z(x) } }
func (w *W) Us(xs []uint64) { w.I(len(xs)); for _, x := range xs { w.U(x) } }

// Case is one generated case with the implementation's observation already recorded.
type Case struct {
	Tag     string      // class[;nt]  - class is used for known-finding matching, nt marks non-trivial
	W       W           // wire integers (input and observation)
	Sample  interface{} // human-readable rendering for the evidence file
	Dist    string      // distribution bucket (operation mix / size class)
}

// Prop describes the generator of one property.
type Prop struct {
	ID  int
	N   func(tier string) int                                 // number of case indices
	Run func(idx int, rng *rand.Rand, tier string) []Case     // all cases of one index
}

var registry = map[string]*Prop{}

func register(name string, p *Prop) { registry[name] = p }

func main() {
	prop := flag.String("prop", "", "property id, e.g. C12")
	seed := flag.Int64("seed", 1, "seed")
	tier := flag.String("tier", "quick", "quick|thorough")
	only := flag.Int("only", -1, "run a single case index (replay)")
	out := flag.String("out", "cases.txt", "output file for wire lines")
	meta := flag.String("meta", "meta.json", "output file for distribution and samples")
	par := flag.Int("par", 16, "parallelism")
	limit := flag.Int("limit", -1, "run only the first n case indices")
	flag.Parse()

	p, ok := registry[*prop]
	if !ok {
		fmt.Fprintf(os.Stderr, "vh: unknown property %q\n", *prop)
		os.Exit(2)
	}
	n := p.N(*tier)
	if *limit >= 0 && *limit < n {
		n = *limit
	}
	idxs := []int{}
	if *only >= 0 {
		idxs = append(idxs, *only)
	} else {
		for i := 0; i < n; i++ {
			idxs = append(idxs, i)
		}
	}
	results := make([][]Case, len(idxs))
	var wg sync.WaitGroup
	sem := make(chan struct{}, *par)
	for k, idx := range idxs {
		wg.Add(1)
		sem <- struct{}{}
		go func(k, idx int) {
			defer wg.Done()
			defer func() { <-sem }()
			rng := rand.New(rand.NewSource(*seed*1000003 + int64(idx)))
			results[k] = p.Run(idx, rng, *tier)
		}(k, idx)
	}
	wg.Wait()

	f, err := os.Create(*out)
	if err != nil {
		fmt.Fprintln(os.Stderr, err)
		os.Exit(2)
	}
	bw := bufio.NewWriterSize(f, 1<<20)
	dist := map[string]int{}
	var samples []interface{}
	total := 0
	for k, idx := range idxs {
		for j, c := range results[k] {
			tag := c.Tag
			if tag == "" {
				tag = "-"
			}
			fmt.Fprintf(bw, "%d %d.%d %s %s\n", p.ID, idx, j, tag, strings.Join(c.W.toks, " "))
			dist[c.Dist]++
			total++
			if c.Sample != nil && len(samples) < 6 && (total%97 == 1 || len(samples) < 2) {
				samples = append(samples, map[string]interface{}{"case": fmt.Sprintf("%d.%d", idx, j), "tag": tag, "what": c.Sample})
			}
		}
	}
	bw.Flush()
	f.Close()
	keys := make([]string, 0, len(dist))
	for k := range dist {
		keys = append(keys, k)
	}
	sort.Strings(keys)
	m := map[string]interface{}{"cases": total, "indices": len(idxs), "distribution": dist, "samples": samples}
	b, _ := json.MarshalIndent(m, "", " ")
	os.WriteFile(*meta, b, 0o644)
}
