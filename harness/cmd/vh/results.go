package main

import (
	"bytes"
	"fmt"
	"math/rand"
	"net/http"
	"os"
	"os/exec"
	"path/filepath"
	"time"

	vegeta "github.com/tsenart/vegeta/v12/lib"
)

// genResult returns a result in the representable domain of the codecs, with Seq = id.
func genResult(rng *rand.Rand, id uint64, attack string, rich bool) vegeta.Result {
	texts := []string{"", "x", "a,b", "say \"hi\"", "line1\nline2", " lead", "trail ", "tab\there", "ünï©ode ✓", "<a&b>", " sep", "O'Brien", "%", "\\back", "é nbsp"}
	pick := func() string { return texts[rng.Intn(len(texts))] }
	r := vegeta.Result{
		Attack:    attack,
		Seq:       id,
		Code:      uint16(rng.Intn(600)),
		Timestamp: time.Unix(0, rng.Int63n(7e18)).UTC(),
		Latency:   time.Duration(rng.Int63n(1e11)),
		BytesOut:  uint64(rng.Int63n(1e6)),
		BytesIn:   uint64(rng.Int63n(1e6)),
		Method:    []string{"GET", "POST", "PUT", "DELETE", "HEAD"}[rng.Intn(5)],
		URL:       "http://host/" + fmt.Sprint(rng.Intn(100)),
	}
	if r.Code < 200 || r.Code >= 400 || rng.Intn(10) == 0 {
		r.Error = []string{"500 Internal Server Error", "EOF", "dial tcp: refused"}[rng.Intn(3)]
	}
	if rich {
		r.Error = pick()
		r.URL = "http://host/" + pick()
		if rng.Intn(3) == 0 {
			r.Body = []byte(pick())
		}
		if rng.Intn(12) == 0 { // longer than a 4 KiB read buffer
			r.Body = make([]byte, 4500+rng.Intn(6000))
			rng.Read(r.Body)
		}
		if rng.Intn(3) == 0 {
			r.Headers = http.Header{"Content-Type": {"text/plain"}, "X-Multi": {"a", "b"}}
		}
	}
	return r
}

func encodeResults(rs []vegeta.Result, enc string) []byte {
	var buf bytes.Buffer
	var e vegeta.Encoder
	switch enc {
	case "gob":
		e = vegeta.NewEncoder(&buf)
	case "csv":
		e = vegeta.NewCSVEncoder(&buf)
	default:
		e = vegeta.NewJSONEncoder(&buf)
	}
	for i := range rs {
		if err := e.Encode(&rs[i]); err != nil {
			panic(err)
		}
	}
	return buf.Bytes()
}

func scratchDir() string {
	d := os.Getenv("VERIF_SCRATCH")
	if d == "" {
		d = os.TempDir()
	}
	return d
}

func writeTemp(idx int, name string, b []byte) string {
	p := filepath.Join(scratchDir(), fmt.Sprintf("f%d_%s", idx, name))
	if err := os.WriteFile(p, b, 0o644); err != nil {
		panic(err)
	}
	return p
}

// runCLI runs the vegeta binary built from the current tree.
func runCLI(stdin []byte, args ...string) ([]byte, error) {
	cmd := exec.Command(os.Getenv("VERIF_VEGETA"), args...)
	if stdin != nil {
		cmd.Stdin = bytes.NewReader(stdin)
	}
	var out, errb bytes.Buffer
	cmd.Stdout = &out
	cmd.Stderr = &errb
	err := cmd.Run()
	if err != nil {
		return out.Bytes(), fmt.Errorf("%v: %s", err, errb.String())
	}
	return out.Bytes(), nil
}
